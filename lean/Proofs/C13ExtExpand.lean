/-
  Proofs.C13ExtExpand — `expandDots` at any depth: when no key of the filter is a dotted prefix
  of another, a successful expansion holds the value `v` at the path `p` for every item `p: v`.
-/
import Spec.UpsertExt
import Proofs.C13Seed
import Proofs.C02Frame
import Proofs.C13ExtStrings

set_option linter.unusedVariables false
set_option linter.unusedSimpArgs false

namespace MongoModel.Proofs.C13Ext
open MongoModel MongoModel.Spec MongoModel.Proofs.C13Lemmas

/-- two paths neither of which is a prefix of the other -/
def Incomp (p q : List String) : Prop := ¬ p <+: q ∧ ¬ q <+: p

theorem Incomp.symm {p q : List String} (h : Incomp p q) : Incomp q p := ⟨h.2, h.1⟩

theorem incomp_cons_same {a : String} {p q : List String} (h : Incomp (a :: p) (a :: q)) : Incomp p q := by
  constructor
  · intro hp; exact h.1 (by simpa using hp)
  · intro hp; exact h.2 (by simpa using hp)

theorem getPath_empty_doc (h : String) (t : List String) : getPath (h :: t) (.doc []) = none := by
  simp [getPath, dget]

theorem getPath_cons_some {h : String} {fs : Fields} {v : Val} (t : List String)
    (hd : dget h fs = some v) : getPath (h :: t) (.doc fs) = getPath t v := by
  simp [getPath, hd]

theorem getPath_cons_none {h : String} {fs : Fields} (t : List String)
    (hd : dget h fs = none) : getPath (h :: t) (.doc fs) = none := by
  simp [getPath, hd]

theorem getPath_cons_congr {h : String} {fs gs : Fields} (t : List String)
    (hd : dget h fs = dget h gs) : getPath (h :: t) (.doc fs) = getPath (h :: t) (.doc gs) := by
  simp [getPath, hd]

/-- effect: the new path holds the value -/
theorem expandOne_get (given inter : List String) (v : Val) : ∀ (p pre : List String) (acc acc' : Fields),
    p ≠ [] → expandOne given inter v p pre acc = .ok acc' → getPath p (.doc acc') = some v
  | [], _, _, _, hp, _ => absurd rfl hp
  | [last], pre, acc, acc', _, h => by
    simp only [expandOne] at h
    cases h
    rw [getPath_cons_some [] (dget_dset_self' last v acc)]
    rfl
  | part :: r1 :: rest, pre, acc, acc', _, h => by
    simp only [expandOne] at h
    split at h
    · split at h
      · cases h
      · simp only [bind, Except.bind, pure, Except.pure] at h
        cases hs : expandOne given inter v (r1 :: rest) (pre ++ [part]) [] with
        | error e => rw [hs] at h; cases h
        | ok sub =>
          rw [hs] at h; cases h
          rw [getPath_cons_some _ (dget_dset_self' part _ acc)]
          exact expandOne_get given inter v (r1 :: rest) _ _ _ (by simp) hs
    · rename_i sub0 _
      split at h
      · cases h
      · simp only [bind, Except.bind, pure, Except.pure] at h
        cases hs : expandOne given inter v (r1 :: rest) (pre ++ [part]) sub0 with
        | error e => rw [hs] at h; cases h
        | ok sub =>
          rw [hs] at h; cases h
          rw [getPath_cons_some _ (dget_dset_self' part _ acc)]
          exact expandOne_get given inter v (r1 :: rest) _ _ _ (by simp) hs
    · split at h <;> cases h

/-- the shape of a successful walk through a first component: the component is (re)set -/
theorem expandOne_head (given inter : List String) (v : Val) (part r1 : String) (rest pre : List String)
    (acc acc' : Fields) (h : expandOne given inter v (part :: r1 :: rest) pre acc = .ok acc') :
    given.contains (joinDots (pre ++ [part])) = false ∧
    ∃ sub0 sub, (dget part acc = none ∧ sub0 = [] ∨ dget part acc = some (.doc sub0)) ∧
      expandOne given inter v (r1 :: rest) (pre ++ [part]) sub0 = .ok sub ∧
      acc' = dset part (.doc sub) acc := by
  simp only [expandOne] at h
  split at h
  · rename_i hnone
    split at h
    · cases h
    · rename_i hg
      simp only [bind, Except.bind, pure, Except.pure] at h
      cases hs : expandOne given inter v (r1 :: rest) (pre ++ [part]) [] with
      | error e => rw [hs] at h; cases h
      | ok sub =>
        rw [hs] at h; cases h
        exact ⟨by simpa using hg, [], sub, Or.inl ⟨hnone, rfl⟩, hs, rfl⟩
  · rename_i sub0 hsome
    split at h
    · cases h
    · rename_i hg
      simp only [bind, Except.bind, pure, Except.pure] at h
      cases hs : expandOne given inter v (r1 :: rest) (pre ++ [part]) sub0 with
      | error e => rw [hs] at h; cases h
      | ok sub =>
        rw [hs] at h; cases h
        exact ⟨by simpa using hg, sub0, sub, Or.inr hsome, hs, rfl⟩
  · split at h <;> cases h

/-- frame: a path incomparable with the new one reads as before -/
theorem expandOne_frame (given inter : List String) (v : Val) : ∀ (p pre : List String) (acc acc' : Fields)
    (q : List String), expandOne given inter v p pre acc = .ok acc' → Incomp p q →
    getPath q (.doc acc') = getPath q (.doc acc)
  | [], _, _, _, q, _, hi => absurd (List.nil_prefix) hi.1
  | [last], pre, acc, acc', q, h, hi => by
    simp only [expandOne] at h
    cases h
    cases q with
    | nil => exact absurd List.nil_prefix hi.2
    | cons a t =>
      have hne : last ≠ a := by
        intro e; subst e
        exact hi.1 (by simp)
      exact getPath_cons_congr t (dget_dset_other a last v hne acc)
  | part :: r1 :: rest, pre, acc, acc', q, h, hi => by
    cases q with
    | nil => exact absurd List.nil_prefix hi.2
    | cons a t =>
      obtain ⟨_, sub0, sub, hcase, hs, rfl⟩ := expandOne_head given inter v part r1 rest pre acc acc' h
      by_cases hne : part = a
      · subst hne
        have hi' := incomp_cons_same hi
        rw [getPath_cons_some t (dget_dset_self' part _ acc)]
        rw [expandOne_frame given inter v (r1 :: rest) _ _ _ t hs hi']
        rcases hcase with ⟨hnone, rfl⟩ | hsome
        · rw [getPath_cons_none t hnone]
          cases t with
          | nil => exact absurd List.nil_prefix hi'.2
          | cons b t' => exact getPath_empty_doc b t'
        · rw [getPath_cons_some t hsome]
      · exact getPath_cons_congr t (dget_dset_other a part _ hne acc)

/-- a successful walk passed through no key stated before -/
theorem expandOne_ok_not_given (given inter : List String) (v : Val) : ∀ (p pre : List String)
    (acc acc' : Fields), expandOne given inter v p pre acc = .ok acc' →
    ∀ i, 0 < i → i < p.length → given.contains (joinDots (pre ++ p.take i)) = false
  | [], _, _, _, _, i, _, hi => by simp at hi
  | [last], _, _, _, _, i, h0, hi => by simp at hi; omega
  | part :: r1 :: rest, pre, acc, acc', h, i, h0, hi => by
    obtain ⟨hg, sub0, sub, _, hs, _⟩ := expandOne_head given inter v part r1 rest pre acc acc' h
    cases i with
    | zero => omega
    | succ j =>
      cases j with
      | zero => simpa using hg
      | succ j' =>
        have := expandOne_ok_not_given given inter v (r1 :: rest) (pre ++ [part]) sub0 sub hs
          (j' + 1) (by omega) (by simp only [List.length_cons] at hi ⊢; omega)
        simpa [List.take_succ_cons, List.append_assoc] using this

theorem splitDots_ne_nil (k : String) : splitDots k ≠ [] :=
  MongoModel.Proofs.C02Lemmas.splitDotsChars_ne_nil _ _

/-- one step of `expandDots` is one `expandOne` on the accumulated document -/
theorem edStep_ok (st st1 : Fields × List String × List String) (kv : String × Val)
    (h : edStep st kv = .ok st1) :
    st.2.1.contains kv.1 = false ∧ st.2.2.contains kv.1 = false ∧
    expandOne (st.2.1 ++ [kv.1]) st.2.2 kv.2 (splitDots kv.1) [] st.1 = .ok st1.1 ∧
    st1.2.1 = st.2.1 ++ [kv.1] ∧ st1.2.2 = st.2.2 ++ properPrefixes (splitDots kv.1) := by
  unfold edStep at h
  split at h
  · cases h
  · rename_i hc
    simp only [Bool.or_eq_true, not_or, Bool.not_eq_true] at hc
    cases he : expandOne (st.2.1 ++ [kv.1]) st.2.2 kv.2 (splitDots kv.1) [] st.1 with
    | error e => rw [he] at h; cases h
    | ok acc' => rw [he] at h; cases h; exact ⟨hc.1, hc.2, rfl, rfl, rfl⟩

theorem fold_paths : ∀ (ss done : Fields) (st st' : Fields × List String × List String),
    ss.foldlM edStep st = .ok st' →
    ss.Pairwise (fun a b => Incomp (splitDots a.1) (splitDots b.1)) →
    (∀ a ∈ done, ∀ b ∈ ss, Incomp (splitDots a.1) (splitDots b.1)) →
    (∀ a ∈ done, getPath (splitDots a.1) (.doc st.1) = some a.2) →
    ∀ a ∈ done ++ ss, getPath (splitDots a.1) (.doc st'.1) = some a.2
  | [], done, st, st', h, _, _, hdone => by
    simp only [List.foldlM_nil, pure, Except.pure] at h
    cases h
    simpa using hdone
  | kv :: ss, done, st, st', h, hp, hc, hdone => by
    rw [List.foldlM_cons] at h
    cases h1 : edStep st kv with
    | error e => rw [h1] at h; cases h
    | ok st1 =>
      rw [h1] at h
      simp only [bind, Except.bind] at h
      obtain ⟨_, _, hex, _, _⟩ := edStep_ok st st1 kv h1
      obtain ⟨hp1, hp2⟩ := List.pairwise_cons.1 hp
      have := fold_paths ss (done ++ [kv]) st1 st' h hp2
        (by
          intro a ha b hb
          rcases List.mem_append.1 ha with ha | ha
          · exact hc a ha b (List.mem_cons_of_mem _ hb)
          · simp only [List.mem_singleton] at ha; subst ha; exact hp1 b hb)
        (by
          intro a ha
          rcases List.mem_append.1 ha with ha | ha
          · rw [expandOne_frame _ _ kv.2 _ _ _ _ _ hex (hc a ha kv (List.mem_cons_self ..)).symm]
            exact hdone a ha
          · simp only [List.mem_singleton] at ha; subst ha
            exact expandOne_get _ _ a.2 _ _ _ _ (splitDots_ne_nil _) hex)
      simpa using this

/-! ### a successful expansion means prefix-free keys: a key stated twice, a key that is a dotted
    prefix of an earlier one and a key that runs through an earlier one all raise -/

/-- the proper prefixes recorded for the keys of `done` -/
def recorded (done : Fields) : List String := done.flatMap (fun a => properPrefixes (splitDots a.1))

theorem recorded_append (done : Fields) (kv : String × Val) :
    recorded (done ++ [kv]) = recorded done ++ properPrefixes (splitDots kv.1) := by
  simp [recorded]

/-- one successful step: the new key is incomparable with every key stated before -/
theorem edStep_incomp (done : Fields) (st st1 : Fields × List String × List String)
    (kv : String × Val) (hg : st.2.1 = dkeys done) (hi : st.2.2 = recorded done)
    (h : edStep st kv = .ok st1) :
    (∀ a ∈ done, Incomp (splitDots a.1) (splitDots kv.1)) ∧
    st1.2.1 = dkeys (done ++ [kv]) ∧ st1.2.2 = recorded (done ++ [kv]) := by
  obtain ⟨h1, h2, hex, h3, h4⟩ := edStep_ok st st1 kv h
  refine ⟨?_, by rw [h3, hg]; simp [dkeys], by rw [h4, hi, recorded_append]⟩
  intro a ha
  have hamem : a.1 ∈ dkeys done := List.mem_map.2 ⟨a, ha, rfl⟩
  constructor
  · -- an earlier key that is a prefix of the new one: equal, or the walk runs through it
    rintro ⟨t, ht⟩
    cases t with
    | nil =>
      rw [List.append_nil] at ht
      have e := splitDots_inj ht
      rw [hg] at h1
      have : (dkeys done).contains kv.1 = true := by rw [← e]; simpa using hamem
      rw [h1] at this; cases this
    | cons x t =>
      have hlen : (splitDots a.1).length < (splitDots kv.1).length := by
        rw [← ht]; simp
      have hpos : 0 < (splitDots a.1).length :=
        List.length_pos_iff.2 (splitDots_ne_nil a.1)
      have hng := expandOne_ok_not_given _ _ _ _ _ _ _ hex (splitDots a.1).length hpos hlen
      have htake : (splitDots kv.1).take (splitDots a.1).length = splitDots a.1 := by
        rw [← ht]; simp
      rw [List.nil_append, htake, joinDots_splitDots, hg] at hng
      have : (dkeys done ++ [kv.1]).contains a.1 = true := by simp [hamem]
      rw [hng] at this; cases this
  · -- the new key is a prefix of an earlier one: equal, or recorded as its proper prefix
    rintro ⟨t, ht⟩
    cases t with
    | nil =>
      rw [List.append_nil] at ht
      have e := splitDots_inj ht
      rw [hg] at h1
      have : (dkeys done).contains kv.1 = true := by rw [e]; simpa using hamem
      rw [h1] at this; cases this
    | cons x t =>
      have hlen : (splitDots kv.1).length < (splitDots a.1).length := by
        rw [← ht]; simp
      have hpos : 0 < (splitDots kv.1).length :=
        List.length_pos_iff.2 (splitDots_ne_nil kv.1)
      have htake : (splitDots a.1).take (splitDots kv.1).length = splitDots kv.1 := by
        rw [← ht]; simp
      have hm : kv.1 ∈ properPrefixes (splitDots a.1) :=
        mem_properPrefixes.2 ⟨_, hpos, hlen, by rw [htake, joinDots_splitDots]⟩
      have : (recorded done).contains kv.1 = true := by
        simp only [List.contains_eq_mem, decide_eq_true_eq, recorded, List.mem_flatMap]
        exact ⟨a, ha, hm⟩
      rw [hi] at h2
      rw [h2] at this; cases this

theorem fold_incomp : ∀ (ss done : Fields) (st st' : Fields × List String × List String),
    st.2.1 = dkeys done → st.2.2 = recorded done → ss.foldlM edStep st = .ok st' →
    ss.Pairwise (fun a b => Incomp (splitDots a.1) (splitDots b.1)) ∧
    ∀ a ∈ done, ∀ b ∈ ss, Incomp (splitDots a.1) (splitDots b.1)
  | [], _, _, _, _, _, _ => ⟨List.Pairwise.nil, by simp⟩
  | kv :: ss, done, st, st', hg, hi, h => by
    rw [List.foldlM_cons] at h
    cases h1 : edStep st kv with
    | error e => rw [h1] at h; cases h
    | ok st1 =>
      rw [h1] at h
      simp only [bind, Except.bind] at h
      obtain ⟨hinc, hg1, hi1⟩ := edStep_incomp done st st1 kv hg hi h1
      obtain ⟨hp, hc⟩ := fold_incomp ss (done ++ [kv]) st1 st' hg1 hi1 h
      refine ⟨List.pairwise_cons.2 ⟨fun b hb => hc kv (by simp) b hb, hp⟩, ?_⟩
      intro a ha b hb
      rcases List.mem_cons.1 hb with rfl | hb
      · exact hinc a ha
      · exact hc a (by simp [ha]) b hb

/-- **`_expand_dots` succeeds only on prefix-free keys** -/
theorem expand_ok_prefixFree (ss ex : Fields) (h : expandDots ss = .ok ex) : prefixFree ss := by
  rw [expandDots_eq] at h
  cases hf : ss.foldlM edStep ([], [], []) with
  | error e => rw [hf] at h; cases h
  | ok st' => exact (fold_incomp ss [] ([], [], []) st' rfl rfl hf).1

/-- **`expandDots` at any depth**: a successful expansion holds every item of the filter at its
    path (the keys are prefix-free: `expand_ok_prefixFree`) -/
theorem expand_paths (ss ex : Fields) (h : expandDots ss = .ok ex) :
    ∀ kv ∈ ss, getPath (splitDots kv.1) (.doc ex) = some kv.2 := by
  have hp := expand_ok_prefixFree ss ex h
  rw [expandDots_eq] at h
  cases hf : ss.foldlM edStep ([], [], []) with
  | error e => rw [hf] at h; cases h
  | ok st' =>
    rw [hf] at h
    cases h
    have := fold_paths ss [] ([], [], []) st' hf hp (by simp) (by simp)
    simpa using this

end MongoModel.Proofs.C13Ext
