/-
  Proofs.C13ExtExpand — `expandDots` at any depth: when no key of the filter is a dotted prefix
  of another, a successful expansion holds the value `v` at the path `p` for every item `p: v`.
-/
import Spec.UpsertExt
import Proofs.C13Seed
import Proofs.C02Frame

set_option linter.unusedVariables false
set_option linter.unusedSimpArgs false

namespace MongoModel.Proofs.C13Ext
open MongoModel MongoModel.Spec MongoModel.Proofs.C13Lemmas

/-- two paths neither of which is a prefix of the other -/
def Incomp (p q : List String) : Prop := ¬ p <+: q ∧ ¬ q <+: p

theorem Incomp.symm {p q : List String} (h : Incomp p q) : Incomp q p := ⟨h.2, h.1⟩

theorem incomp_cons_same {a : String} {p q : List String} (h : Incomp (a :: p) (a :: q)) : Incomp p q := by
  constructor
  · intro hp; exact h.1 (by simpa using hp)
  · intro hp; exact h.2 (by simpa using hp)

theorem getPath_empty_doc (h : String) (t : List String) : getPath (h :: t) (.doc []) = none := by
  simp [getPath, dget]

theorem getPath_cons_some {h : String} {fs : Fields} {v : Val} (t : List String)
    (hd : dget h fs = some v) : getPath (h :: t) (.doc fs) = getPath t v := by
  simp [getPath, hd]

theorem getPath_cons_none {h : String} {fs : Fields} (t : List String)
    (hd : dget h fs = none) : getPath (h :: t) (.doc fs) = none := by
  simp [getPath, hd]

theorem getPath_cons_congr {h : String} {fs gs : Fields} (t : List String)
    (hd : dget h fs = dget h gs) : getPath (h :: t) (.doc fs) = getPath (h :: t) (.doc gs) := by
  simp [getPath, hd]

/-- effect: the new path holds the value -/
theorem expandOne_get (paths : List String) (v : Val) : ∀ (p pre : List String) (acc acc' : Fields),
    p ≠ [] → expandOne paths v p pre acc = .ok acc' → getPath p (.doc acc') = some v
  | [], _, _, _, hp, _ => absurd rfl hp
  | [last], pre, acc, acc', _, h => by
    simp only [expandOne] at h
    cases h
    rw [getPath_cons_some [] (dget_dset_self' last v acc)]
    rfl
  | part :: r1 :: rest, pre, acc, acc', _, h => by
    simp only [expandOne] at h
    split at h
    · simp only [bind, Except.bind, pure, Except.pure] at h
      cases hs : expandOne paths v (r1 :: rest) (pre ++ [part]) [] with
      | error e => rw [hs] at h; cases h
      | ok sub =>
        rw [hs] at h; cases h
        rw [getPath_cons_some _ (dget_dset_self' part _ acc)]
        exact expandOne_get paths v (r1 :: rest) _ _ _ (by simp) hs
    · rename_i sub0 _
      simp only [bind, Except.bind, pure, Except.pure] at h
      cases hs : expandOne paths v (r1 :: rest) (pre ++ [part]) sub0 with
      | error e => rw [hs] at h; cases h
      | ok sub =>
        rw [hs] at h; cases h
        rw [getPath_cons_some _ (dget_dset_self' part _ acc)]
        exact expandOne_get paths v (r1 :: rest) _ _ _ (by simp) hs
    · split at h <;> cases h

/-- frame: a path incomparable with the new one reads as before -/
theorem expandOne_frame (paths : List String) (v : Val) : ∀ (p pre : List String) (acc acc' : Fields)
    (q : List String), expandOne paths v p pre acc = .ok acc' → Incomp p q →
    getPath q (.doc acc') = getPath q (.doc acc)
  | [], _, _, _, q, _, hi => absurd (List.nil_prefix) hi.1
  | [last], pre, acc, acc', q, h, hi => by
    simp only [expandOne] at h
    cases h
    cases q with
    | nil => exact absurd List.nil_prefix hi.2
    | cons a t =>
      have hne : last ≠ a := by
        intro e; subst e
        exact hi.1 (by simp)
      exact getPath_cons_congr t (dget_dset_other a last v hne acc)
  | part :: r1 :: rest, pre, acc, acc', q, h, hi => by
    cases q with
    | nil => exact absurd List.nil_prefix hi.2
    | cons a t =>
      simp only [expandOne] at h
      by_cases hne : part = a
      · subst hne
        have hi' := incomp_cons_same hi
        split at h
        · rename_i hnone
          simp only [bind, Except.bind, pure, Except.pure] at h
          cases hs : expandOne paths v (r1 :: rest) (pre ++ [part]) [] with
          | error e => rw [hs] at h; cases h
          | ok sub =>
            rw [hs] at h; cases h
            rw [getPath_cons_some t (dget_dset_self' part _ acc), getPath_cons_none t hnone]
            rw [expandOne_frame paths v (r1 :: rest) _ _ _ t hs hi']
            cases t with
            | nil => exact absurd List.nil_prefix hi'.2
            | cons b t' => exact getPath_empty_doc b t'
        · rename_i sub0 hsome
          simp only [bind, Except.bind, pure, Except.pure] at h
          cases hs : expandOne paths v (r1 :: rest) (pre ++ [part]) sub0 with
          | error e => rw [hs] at h; cases h
          | ok sub =>
            rw [hs] at h; cases h
            rw [getPath_cons_some t (dget_dset_self' part _ acc), getPath_cons_some t hsome]
            exact expandOne_frame paths v (r1 :: rest) _ _ _ t hs hi'
        · split at h <;> cases h
      · have hres : ∃ x, acc' = dset part x acc := by
          split at h
          · simp only [bind, Except.bind, pure, Except.pure] at h
            split at h
            · cases h
            · cases h; exact ⟨_, rfl⟩
          · simp only [bind, Except.bind, pure, Except.pure] at h
            split at h
            · cases h
            · cases h; exact ⟨_, rfl⟩
          · split at h <;> cases h
        obtain ⟨x, rfl⟩ := hres
        exact getPath_cons_congr t (dget_dset_other a part x hne acc)

theorem splitDots_ne_nil (k : String) : splitDots k ≠ [] :=
  MongoModel.Proofs.C02Lemmas.splitDotsChars_ne_nil _ _

/-- one step of `expandDots` is one `expandOne` on the accumulated document -/
theorem edStep_ok (st st1 : Fields × List String) (kv : String × Val) (h : edStep st kv = .ok st1) :
    ∃ paths, expandOne paths kv.2 (splitDots kv.1) [] st.1 = .ok st1.1 := by
  unfold edStep at h
  split at h
  · cases h
  · cases he : expandOne (st.2 ++ [kv.1]) kv.2 (splitDots kv.1) [] st.1 with
    | error e => rw [he] at h; cases h
    | ok acc' => rw [he] at h; cases h; exact ⟨_, he⟩

theorem fold_paths : ∀ (ss done : Fields) (st st' : Fields × List String),
    ss.foldlM edStep st = .ok st' →
    ss.Pairwise (fun a b => Incomp (splitDots a.1) (splitDots b.1)) →
    (∀ a ∈ done, ∀ b ∈ ss, Incomp (splitDots a.1) (splitDots b.1)) →
    (∀ a ∈ done, getPath (splitDots a.1) (.doc st.1) = some a.2) →
    ∀ a ∈ done ++ ss, getPath (splitDots a.1) (.doc st'.1) = some a.2
  | [], done, st, st', h, _, _, hdone => by
    simp only [List.foldlM_nil, pure, Except.pure] at h
    cases h
    simpa using hdone
  | kv :: ss, done, st, st', h, hp, hc, hdone => by
    rw [List.foldlM_cons] at h
    cases h1 : edStep st kv with
    | error e => rw [h1] at h; cases h
    | ok st1 =>
      rw [h1] at h
      simp only [bind, Except.bind] at h
      obtain ⟨paths, hex⟩ := edStep_ok st st1 kv h1
      obtain ⟨hp1, hp2⟩ := List.pairwise_cons.1 hp
      have := fold_paths ss (done ++ [kv]) st1 st' h hp2
        (by
          intro a ha b hb
          rcases List.mem_append.1 ha with ha | ha
          · exact hc a ha b (List.mem_cons_of_mem _ hb)
          · simp only [List.mem_singleton] at ha; subst ha; exact hp1 b hb)
        (by
          intro a ha
          rcases List.mem_append.1 ha with ha | ha
          · rw [expandOne_frame paths kv.2 _ _ _ _ _ hex (hc a ha kv (List.mem_cons_self ..)).symm]
            exact hdone a ha
          · simp only [List.mem_singleton] at ha; subst ha
            exact expandOne_get paths a.2 _ _ _ _ (splitDots_ne_nil _) hex)
      simpa using this

/-- **`expandDots` at any depth**: with prefix-free keys a successful expansion holds every item
    of the filter at its path -/
theorem expand_paths (ss ex : Fields) (h : expandDots ss = .ok ex) (hp : prefixFree ss) :
    ∀ kv ∈ ss, getPath (splitDots kv.1) (.doc ex) = some kv.2 := by
  rw [expandDots_eq] at h
  cases hf : ss.foldlM edStep ([], []) with
  | error e => rw [hf] at h; cases h
  | ok st' =>
    rw [hf] at h
    cases h
    have := fold_paths ss [] ([], []) st' hf hp (by simp) (by simp)
    simpa using this

end MongoModel.Proofs.C13Ext
