/-
  Proofs.C03ExtStage — every stage the extended oracle speaks about, pipelines of them, `$facet`.
-/
import Proofs.C03ExtFields
import Proofs.C03ExtBucket

namespace MongoModel.Pipe.Proofs
open MongoModel MongoModel.Pipe MongoModel.Spec MongoModel.Spec.Pipe

theorem stageX_eq_spec (db : Db) (op : String) (opts : Val) (docs s : List Val)
    (hD : stageReasonsX db op opts docs = []) (hs : specStageX db op opts docs = some s) :
    simpleStage db op opts docs = .ok s := by
  by_cases h1 : op = "$group"
  · subst h1
    simp only [stageReasonsX, specStageX, if_true] at hD hs
    have := group_eq_spec_sorted opts docs s hD hs
    simpa [simpleStage] using this
  by_cases h2 : op = "$lookup"
  · subst h2
    simp only [stageReasonsX, specStageX, show ¬ ("$lookup" = "$group") by decide, if_false,
      if_true] at hD hs
    have := lookup_eq_spec db opts docs s hD hs
    simpa [simpleStage] using this
  by_cases h3 : op = "$addFields" ∨ op = "$set"
  · have hne : op ≠ "$group" ∧ op ≠ "$lookup" := ⟨h1, h2⟩
    have hb : (op = "$addFields" || op = "$set") = true := by
      rcases h3 with h | h <;> simp [h]
    simp only [stageReasonsX, specStageX, h1, h2, if_false, hb, if_true] at hD hs
    have := addFields_eq_spec opts docs s hD hs
    rcases h3 with rfl | rfl <;> simpa [simpleStage] using this
  have hb : (op = "$addFields" || op = "$set") = false := by
    simp only [not_or] at h3
    simp [h3.1, h3.2]
  by_cases h4 : op = "$replaceRoot"
  · subst h4
    simp only [stageReasonsX, specStageX, show ¬ ("$replaceRoot" = "$group") by decide,
      show ¬ ("$replaceRoot" = "$lookup") by decide, hb, Bool.false_eq_true, if_false,
      if_true] at hD hs
    have := replaceRoot_eq_spec opts docs s hD hs
    simpa [simpleStage] using this
  by_cases h5 : op = "$bucket"
  · subst h5
    simp only [stageReasonsX, specStageX, show ¬ ("$bucket" = "$group") by decide,
      show ¬ ("$bucket" = "$lookup") by decide, show ¬ ("$bucket" = "$replaceRoot") by decide, hb,
      Bool.false_eq_true, if_false, if_true] at hD hs
    have := bucket_eq_spec opts docs s hD hs
    simpa [simpleStage] using this
  · simp only [stageReasonsX, specStageX, h1, h2, hb, h4, h5, Bool.false_eq_true, if_false] at hD hs
    exact stage_eq_spec db op opts docs s hD hs

theorem specStageX_not_facet (db : Db) (opts : Val) (docs : List Val) :
    specStageX db "$facet" opts docs = none := by
  simp [specStageX, specStage]

theorem pipelineX_eq_spec (db : Db) : ∀ (p : List Val) (docs s : List Val),
    pipelineReasonsX db p docs = [] → specPipelineX db p docs = some s →
    runPipeline db p docs = .ok s
  | [], docs, s, _, hs => by simp [specPipelineX] at hs; subst hs; rfl
  | st :: rest, docs, s, hD, hs => by
    match st, hD, hs with
    | .doc [(op, opts)], hD, hs =>
      simp only [pipelineReasonsX, List.append_eq_nil_iff] at hD
      simp only [specPipelineX] at hs
      cases hst : specStageX db op opts docs with
      | none => simp [hst] at hs
      | some out =>
        simp only [hst, Option.bind_some] at hs hD
        have hne : op ≠ "$facet" := by
          intro h; subst h; rw [specStageX_not_facet] at hst; cases hst
        have h1 := stageX_eq_spec db op opts docs out hD.1 hst
        simp only [runPipeline, runStage_single, runOp_simple db op opts docs hne, h1]
        exact pipelineX_eq_spec db rest out s hD.2 hs

theorem pipelineXV_eq_spec (db : Db) (p docs : List Val) (v : Verdict)
    (hD : pipelineReasonsXV db p docs = []) (hs : specPipelineXV db p docs = some v) :
    v.agrees (runPipeline db p docs) := by
  unfold specPipelineXV at hs
  unfold pipelineReasonsXV at hD
  split at hs
  · rename_i hr
    cases hs
    exact runPipeline_rejected db p docs hr
  · rename_i hr
    simp only [hr] at hD
    cases hsp : specPipelineX db p docs with
    | none => simp [hsp] at hs
    | some s =>
      simp only [hsp, Option.map_some, Option.some.injEq] at hs
      subst hs
      exact pipelineX_eq_spec db p docs s hD hsp

theorem facetBranches_eq_spec (db : Db) : ∀ (gs : Fields) (docs : List Val) (fs : Fields),
    facetReasons db gs docs = [] → specFacet db gs docs = some fs →
    facetBranches db gs docs = .ok fs
  | [], docs, fs, _, hs => by simp [specFacet] at hs; subst hs; rfl
  | (name, v) :: rest, docs, fs, hD, hs => by
    cases v with
    | arr p =>
      simp only [facetReasons, List.append_eq_nil_iff] at hD
      simp only [specFacet] at hs
      cases hp : specPipelineX db p docs with
      | none => simp [hp] at hs
      | some out =>
        cases hr : specFacet db rest docs with
        | none => simp [hp, hr] at hs
        | some r =>
          simp only [hp, hr, Option.some.injEq] at hs
          subst hs
          simp only [facetBranches, pipelineX_eq_spec db p docs out hD.1 hp,
            facetBranches_eq_spec db rest docs r hD.2 hr]
    | _ => simp [specFacet] at hs

theorem facet_eq_spec (db : Db) (gs : Fields) (docs : List Val) (fs : Fields)
    (hD : facetReasons db gs docs = []) (hs : specFacet db gs docs = some fs) :
    runOp db "$facet" (.doc gs) docs = .ok [.doc fs] := by
  simp only [runOp, if_true, facetBranches_eq_spec db gs docs fs hD hs]

end MongoModel.Pipe.Proofs
