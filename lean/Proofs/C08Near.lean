/-
  Proofs.C08Near — the states a failed single-document write can leave behind: the original
  collection, possibly after the TTL pass, possibly with a consumed ObjectId.
-/
import Proofs.C08Expire

namespace MongoModel.Proofs.C08Lemmas
open MongoModel MongoModel.Spec

def Near (now : Int) (c c' : Coll) : Prop :=
  (∃ n, c' = { c with nextOid := n }) ∨
  (∃ n c1, expire now c = .ok c1 ∧ c' = { c1 with nextOid := n })

theorem Near.refl (now : Int) (c : Coll) : Near now c c := .inl ⟨c.nextOid, rfl⟩

theorem Near.bump {now : Int} {c c' : Coll} (h : Near now c c') (n : Nat) :
    Near now c { c' with nextOid := n } := by
  rcases h with ⟨m, rfl⟩ | ⟨m, c1, h1, rfl⟩
  · exact .inl ⟨n, rfl⟩
  · exact .inr ⟨n, c1, h1, rfl⟩

theorem Near.expire {now : Int} {c c' c'' : Coll} (h : Near now c c')
    (he : expire now c' = .ok c'') : Near now c c'' := by
  rcases h with ⟨m, rfl⟩ | ⟨m, c1, h1, rfl⟩
  · rw [expire_bump] at he
    cases h1 : MongoModel.expire now c with
    | error e => simp [h1, Except.map] at he
    | ok c1 =>
      simp only [h1, Except.map, Except.ok.injEq] at he
      exact .inr ⟨m, c1, h1, he.symm⟩
  · rw [expire_bump, expire_idem now c c1 h1] at he
    simp only [Except.map, Except.ok.injEq] at he
    exact .inr ⟨m, c1, h1, he.symm⟩

theorem Near.expire' {now : Int} {c c' : Coll} (h : Near now c c') :
    Near now c (match MongoModel.expire now c' with | .ok x => x | .error _ => c') := by
  cases he : MongoModel.expire now c' with
  | error e => exact h
  | ok x => exact h.expire he

theorem Near.trans {now : Int} {c c' c'' : Coll} (h : Near now c c') (h' : Near now c' c'') :
    Near now c c'' := by
  rcases h' with ⟨m, rfl⟩ | ⟨m, c1, h1, rfl⟩
  · exact h.bump m
  · exact (h.expire h1).bump m

theorem indexNames_bump (c : Coll) (n : Nat) : indexNames { c with nextOid := n } = indexNames c := by
  simp [indexNames, Coll.isCreated]

theorem Near.visible {now : Int} {c c' : Coll} (h : Near now c c') :
    visible ⟨now, c'⟩ = visible ⟨now, c⟩ := by
  unfold Spec.visible observe
  rcases h with ⟨m, rfl⟩ | ⟨m, c1, h1, rfl⟩
  · simp only [expire_bump]
    cases h1 : MongoModel.expire now c with
    | error e => simp [Except.map, indexNames_bump]
    | ok c1 => simp [Except.map, indexNames_bump]
  · simp only [expire_bump, expire_idem now c c1 h1, h1, Except.map, indexNames_bump]

theorem Near.indexes {now : Int} {c c' : Coll} (h : Near now c c') :
    c'.indexes = c.indexes ∧ c'.ttlIndexes = c.ttlIndexes := by
  rcases h with ⟨m, rfl⟩ | ⟨m, c1, h1, rfl⟩
  · simp
  · have := expire_fields now c c1 h1
    exact ⟨this.1, this.2.1⟩

/-! ### the single-document update loop -/

theorem updateLoop_single (now : Int) (spec document nowV : Val) (l : List (Val × Val)) (c : Coll)
    (m u : Nat) :
    (updateLoop now spec document nowV false l c m u).1 = c ∨
    ∃ u', (updateLoop now spec document nowV false l c m u).2 = .ok (m + 1, u') := by
  induction l with
  | nil => left; simp [updateLoop]
  | cons kv rest ih =>
    obtain ⟨key, v⟩ := kv
    unfold updateLoop
    cases hl : c.lookup key with
    | none => exact ih
    | some cur =>
      dsimp only
      cases hf : filterApplies spec cur with
      | error e => left; rfl
      | ok b =>
        cases b with
        | false => exact ih
        | true =>
          dsimp only
          cases ha : applyUpdate spec document nowV false cur with
          | error e => left; rfl
          | ok new =>
            dsimp only
            by_cases hb : (if c.isOD key then pyEqOrdered new cur else pyEq new cur) = true
            · rw [if_pos hb]
              cases hu : ensureUniques now (c.setDoc key new) new with
              | error e => left; rfl
              | ok c2 => right; exact ⟨u, by simp⟩
            · rw [if_neg hb]
              generalize (!pyEqOpt _ _) = q
              cases q with
              | true => left; rfl
              | false =>
                cases hu : ensureUniques now (c.setDoc key new) new with
                | error e => left; simp
                | ok c2 => right; exact ⟨u + 1, by simp⟩

end MongoModel.Proofs.C08Lemmas
