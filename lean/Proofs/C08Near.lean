/-
  Proofs.C08Near — the states a failed single-document write can leave behind: the original
  collection, possibly after the TTL pass, possibly with a consumed ObjectId.
-/
import Proofs.C08Expire

namespace MongoModel.Proofs.C08Lemmas
open MongoModel MongoModel.Spec

/-- `c'` is `c` as a failed write may leave it: `c` itself or `c` after the expiry pass at that
    clock, up to the counter of generated ObjectIds - and up to the created flag, which a
    rejected insert that had already stored its document leaves set (`Coll.markStored`); that
    can only happen where the uniqueness check can reject, i.e. on a collection with an index.
    Where existence is recorded (`Coll.Recorded`, every reachable state) such a collection has
    the flag already and `Near` is `Spec.Untouched` (`near_untouched`). -/
def Near (now : Int) (c c' : Coll) : Prop :=
  ∃ b : Bool, (b = true → c.indexes ≠ []) ∧
    ((∃ n, c' = ({ c with nextOid := n } : Coll).markStored b) ∨
     (∃ n c1, expire now c = .ok c1 ∧ c' = ({ c1 with nextOid := n } : Coll).markStored b))

theorem Near.refl (now : Int) (c : Coll) : Near now c c :=
  ⟨false, by simp, .inl ⟨c.nextOid, rfl⟩⟩

theorem Near.bump {now : Int} {c c' : Coll} (h : Near now c c') (n : Nat) :
    Near now c { c' with nextOid := n } := by
  obtain ⟨b, hb, ⟨m, rfl⟩ | ⟨m, c1, h1, rfl⟩⟩ := h
  · exact ⟨b, hb, .inl ⟨n, by rw [markStored_bump]⟩⟩
  · exact ⟨b, hb, .inr ⟨n, c1, h1, by rw [markStored_bump]⟩⟩

theorem Near.expire {now : Int} {c c' c'' : Coll} (h : Near now c c')
    (he : expire now c' = .ok c'') : Near now c c'' := by
  obtain ⟨b, hb, ⟨m, rfl⟩ | ⟨m, c1, h1, rfl⟩⟩ := h
  · rw [expire_markStored, expire_bump] at he
    cases h1 : MongoModel.expire now c with
    | error e => simp [h1, Except.map] at he
    | ok c1 =>
      simp only [h1, Except.map, Except.ok.injEq] at he
      exact ⟨b, hb, .inr ⟨m, c1, h1, he.symm⟩⟩
  · rw [expire_markStored, expire_bump, expire_idem now c c1 h1] at he
    simp only [Except.map, Except.ok.injEq] at he
    exact ⟨b, hb, .inr ⟨m, c1, h1, he.symm⟩⟩

theorem Near.expire' {now : Int} {c c' : Coll} (h : Near now c c') :
    Near now c (match MongoModel.expire now c' with | .ok x => x | .error _ => c') := by
  cases he : MongoModel.expire now c' with
  | error e => exact h
  | ok x => exact h.expire he

/-- a rejected insert that had stored its document, on a collection with an index -/
theorem Near.mark {now : Int} {c c' : Coll} (h : Near now c c') (b : Bool)
    (hb : b = true → c.indexes ≠ []) : Near now c (c'.markStored b) := by
  obtain ⟨a, ha, ⟨m, rfl⟩ | ⟨m, c1, h1, rfl⟩⟩ := h
  · refine ⟨a || b, ?_, .inl ⟨m, by rw [markStored_markStored]⟩⟩
    intro hab; cases a <;> cases b <;> simp_all
  · refine ⟨a || b, ?_, .inr ⟨m, c1, h1, by rw [markStored_markStored]⟩⟩
    intro hab; cases a <;> cases b <;> simp_all

theorem Near.indexes {now : Int} {c c' : Coll} (h : Near now c c') :
    c'.indexes = c.indexes ∧ c'.ttlIndexes = c.ttlIndexes := by
  obtain ⟨b, hb, ⟨m, rfl⟩ | ⟨m, c1, h1, rfl⟩⟩ := h
  · simp
  · have := expire_fields now c c1 h1
    simp only [markStored_indexes, markStored_ttlIndexes]
    exact ⟨this.1, this.2.1⟩

theorem Near.trans {now : Int} {c c' c'' : Coll} (h : Near now c c') (h' : Near now c' c'') :
    Near now c c'' := by
  have hi := h.indexes.1
  obtain ⟨b, hb, ⟨m, rfl⟩ | ⟨m, c1, h1, rfl⟩⟩ := h'
  · exact (h.bump m).mark b (fun e => hi ▸ hb e)
  · exact ((h.expire h1).bump m).mark b (fun e => hi ▸ hb e)

theorem indexNames_bump (c : Coll) (n : Nat) : indexNames { c with nextOid := n } = indexNames c := by
  simp [indexNames, Coll.isCreated]

theorem Near.visible {now : Int} {c c' : Coll} (h : Near now c c') :
    visible ⟨now, c'⟩ = visible ⟨now, c⟩ := by
  unfold Spec.visible observe
  obtain ⟨b, hb, ⟨m, rfl⟩ | ⟨m, c1, h1, rfl⟩⟩ := h
  · simp only [expire_markStored, expire_bump]
    cases h1 : MongoModel.expire now c with
    | error e =>
      simp only [Except.map]
      rw [indexNames_markStored _ b (by simpa using hb), indexNames_bump]
    | ok c1 =>
      have hf := (expire_fields now c c1 h1).1
      simp only [Except.map, markStored_docs]
      rw [indexNames_markStored _ b (by simpa [hf] using hb), indexNames_bump]
  · have hf := (expire_fields now c c1 h1).1
    simp only [expire_markStored, expire_bump, expire_idem now c c1 h1, h1, Except.map,
      markStored_docs]
    rw [indexNames_markStored _ b (by simpa [hf] using hb), indexNames_bump]

/-- where existence is recorded, `Near` is exactly: `c` or `c` after the expiry pass, up to the
    ObjectId counter -/
theorem Near.exact {now : Int} {c c' : Coll} (h : Near now c c') (hr : c.Recorded) :
    (∃ n, c' = { c with nextOid := n }) ∨
    (∃ n c1, MongoModel.expire now c = .ok c1 ∧ c' = { c1 with nextOid := n }) := by
  obtain ⟨b, hb, ⟨m, rfl⟩ | ⟨m, c1, h1, rfl⟩⟩ := h
  · refine .inl ⟨m, markStored_of_recorded _ b ?_ hb⟩
    exact hr
  · have hf := expire_fields now c c1 h1
    refine .inr ⟨m, c1, h1, markStored_of_recorded _ b ?_ (by simpa [hf.1] using hb)⟩
    intro hne
    show c1.forceCreated = true
    rw [hf.2.2.1]
    apply hr
    rcases hne with hd | hx
    · left
      intro e
      exact hd (expire_docs_nil now c c1 h1 e)
    · right; simpa [hf.1] using hx

/-! ### the single-document update loop -/

theorem updateLoop_single (now : Int) (spec document nowV : Val) (l : List (Val × Val)) (c : Coll)
    (m u : Nat) :
    (updateLoop now spec document nowV false l c m u).1 = c ∨
    ∃ u', (updateLoop now spec document nowV false l c m u).2 = .ok (m + 1, u') := by
  induction l with
  | nil => left; simp [updateLoop]
  | cons kv rest ih =>
    obtain ⟨key, v⟩ := kv
    unfold updateLoop
    cases hl : c.lookup key with
    | none => exact ih
    | some cur =>
      dsimp only
      cases hf : filterApplies spec cur with
      | error e => left; rfl
      | ok b =>
        cases b with
        | false => exact ih
        | true =>
          dsimp only
          cases ha : applyUpdate spec document nowV false cur with
          | error e => left; rfl
          | ok new =>
            dsimp only
            by_cases hb : pyEq new cur = true
            · rw [if_pos hb]
              cases hu : ensureUniques now (c.setDoc key new) new with
              | error e => left; rfl
              | ok c2 => right; exact ⟨u, by simp⟩
            · rw [if_neg hb]
              generalize (!pyEqOpt _ _) = q
              cases q with
              | true => left; rfl
              | false =>
                cases hu : ensureUniques now (c.setDoc key new) new with
                | error e => left; simp
                | ok c2 => right; exact ⟨u + 1, by simp⟩

end MongoModel.Proofs.C08Lemmas
