/-
  Proofs.C03ExtKeys — the oracle's key equality `keyEq` is an equivalence (the tie of the BSON
  order), `distinctKeys` lists one representative per class (the first), and on a key-sorted list
  the runs of `itertools.groupby` are the oracle's groups `specGroups`; sorting first and
  grouping, or grouping and sorting the groups, is the same thing.
-/
import Proofs.C03GroupKeys
import Spec.PipelineExt

namespace MongoModel.Pipe.Proofs
open MongoModel MongoModel.Pipe MongoModel.Spec.Pipe MongoModel.Spec.Order MongoModel.Proofs.C11

/-! ### `keyEq` -/

theorem keyEq_eq_tie (a b : Val) : keyEq a b = tie valLt a b := rfl

theorem keyEq_refl (a : Val) : keyEq a a = true := tie_self strictWeak_valLt a

theorem keyEq_symm (a b : Val) : keyEq a b = keyEq b a := by
  simp [keyEq, Bool.and_comm]

theorem keyEq_trans {a b c : Val} (h1 : keyEq a b = true) (h2 : keyEq b c = true) :
    keyEq a c = true := by
  simp only [keyEq, Bool.and_eq_true, Bool.not_eq_true'] at h1 h2 ⊢
  exact ⟨strictWeak_valLt.negTrans c b a h2.1 h1.1, strictWeak_valLt.negTrans a b c h1.2 h2.2⟩

theorem keyEq_congr_left {a b : Val} (h : keyEq a b = true) (x : Val) : keyEq a x = keyEq b x := by
  cases hb : keyEq b x with
  | true => exact keyEq_trans h hb
  | false =>
    cases ha : keyEq a x with
    | false => rfl
    | true =>
      have := keyEq_trans (by rw [keyEq_symm]; exact h) ha
      rw [hb] at this; cases this

/-! ### `distinctKeys` -/

theorem distinctKeys_sublist : ∀ (l : List Val), (distinctKeys l).Sublist l
  | [] => List.Sublist.slnil
  | k :: r => by
    simp only [distinctKeys]
    exact (List.filter_sublist.trans (distinctKeys_sublist r)).cons_cons k

theorem mem_distinctKeys_iff : ∀ (l : List Val) (k : Val),
    k ∈ distinctKeys l ↔ (l.filter (keyEq k)).head? = some k
  | [], k => by simp [distinctKeys]
  | a :: r, k => by
    simp only [distinctKeys, List.mem_cons, List.mem_filter, List.filter_cons]
    cases hka : keyEq k a with
    | true =>
      have hak : keyEq a k = true := by rw [keyEq_symm]; exact hka
      simp only [hak, Bool.not_true, Bool.false_eq_true, and_false, or_false, if_true,
        List.head?_cons, Option.some.injEq]
      exact eq_comm
    | false =>
      have hak : keyEq a k = false := by rw [keyEq_symm]; exact hka
      have hne : k ≠ a := by
        intro e; subst e; rw [keyEq_refl] at hka; cases hka
      simp only [hne, false_or, hak, Bool.not_false, and_true, Bool.false_eq_true, if_false]
      exact mem_distinctKeys_iff r k

theorem distinctKeys_pairwise : ∀ (l : List Val),
    (distinctKeys l).Pairwise (fun a b => keyEq a b = false)
  | [] => List.Pairwise.nil
  | k :: r => by
    simp only [distinctKeys]
    refine List.pairwise_cons.mpr ⟨?_, (distinctKeys_pairwise r).sublist List.filter_sublist⟩
    intro x hx
    simpa using (List.mem_filter.mp hx).2

/-- every value has its representative -/
theorem distinctKeys_cover : ∀ (l : List Val) (v : Val), v ∈ l →
    ∃ x ∈ distinctKeys l, keyEq x v = true
  | [], _, h => by simp at h
  | k :: r, v, h => by
    simp only [distinctKeys]
    cases hkv : keyEq k v with
    | true => exact ⟨k, List.mem_cons_self, hkv⟩
    | false =>
      rcases List.mem_cons.mp h with rfl | h
      · rw [keyEq_refl] at hkv; cases hkv
      · obtain ⟨x, hx, hxv⟩ := distinctKeys_cover r v h
        refine ⟨x, List.mem_cons_of_mem _ (List.mem_filter.mpr ⟨hx, ?_⟩), hxv⟩
        cases hkx : keyEq k x with
        | false => rfl
        | true => rw [keyEq_trans hkx hxv] at hkv; cases hkv

theorem distinctKeys_filter (k : Val) : ∀ (l : List Val),
    distinctKeys (l.filter (fun x => !keyEq k x)) = (distinctKeys l).filter (fun x => !keyEq k x)
  | [] => rfl
  | a :: r => by
    have ih := distinctKeys_filter k r
    cases hka : keyEq k a with
    | true =>
      simp only [List.filter_cons, hka, Bool.not_true, Bool.false_eq_true, if_false, distinctKeys,
        ih, List.filter_filter]
      apply filter_congr_mem
      intro x _
      rw [← keyEq_congr_left hka x]
      cases keyEq k x <;> rfl
    | false =>
      simp only [List.filter_cons, hka, Bool.not_false, if_true, distinctKeys, ih,
        List.filter_filter]
      congr 1
      apply filter_congr_mem
      intro x _
      exact Bool.and_comm _ _

/-! ### `specGroups` -/

theorem specGroups_nil : specGroups [] = [] := rfl

theorem specGroups_cons (k d : Val) (rest : List (Val × Val)) :
    specGroups ((k, d) :: rest) =
      (k, d :: (rest.filter (fun p => keyEq k p.1)).map (·.2)) ::
        specGroups (rest.filter (fun p => !keyEq k p.1)) := by
  simp only [specGroups, List.map_cons, distinctKeys, List.filter_cons, keyEq_refl, if_true,
    List.cons.injEq, true_and]
  have e : (rest.filter (fun p => !keyEq k p.1)).map (·.1) =
      (rest.map (·.1)).filter (fun x => !keyEq k x) := by
    rw [List.filter_map]; rfl
  rw [e, distinctKeys_filter]
  apply List.map_congr_left
  intro x hx
  have hkx : keyEq k x = false := by simpa using (List.mem_filter.mp hx).2
  have hxk : keyEq x k = false := by rw [keyEq_symm]; exact hkx
  simp only [hxk, Bool.false_eq_true, if_false, List.filter_filter]
  congr 2
  apply filter_congr_mem
  intro p _
  cases hxp : keyEq x p.1 with
  | false => rfl
  | true =>
    cases hkp : keyEq k p.1 with
    | false => rfl
    | true =>
      have := keyEq_trans hkp (by rw [keyEq_symm]; exact hxp)
      rw [hkx] at this; cases this

theorem mem_specGroups (kds : List (Val × Val)) (g : Val × List Val) :
    g ∈ specGroups kds ↔
      (((kds.map (·.1)).filter (keyEq g.1)).head? = some g.1 ∧
        g.2 = (kds.filter (fun p => keyEq g.1 p.1)).map (·.2)) := by
  simp only [specGroups, List.mem_map]
  constructor
  · rintro ⟨k, hk, rfl⟩
    exact ⟨(mem_distinctKeys_iff _ k).1 hk, rfl⟩
  · rintro ⟨h1, h2⟩
    exact ⟨g.1, (mem_distinctKeys_iff _ g.1).2 h1, by rw [← h2]⟩

/-- the groups' keys are pairwise different -/
theorem specGroups_pairwise (kds : List (Val × Val)) :
    (specGroups kds).Pairwise (fun a b => keyEq a.1 b.1 = false) := by
  simp only [specGroups]
  rw [List.pairwise_map]
  exact distinctKeys_pairwise _

/-! ### on a sorted list the runs of `groupby` are the oracle's groups -/

theorem groupRuns_sorted_eq_spec : ∀ (n : Nat) (l : List (Val × Val)), l.length ≤ n →
    (∀ p ∈ l, groupKeyOk p.1 = true) → Sorted (fun a b : Val × Val => valLt a.1 b.1) l →
    groupRuns l = specGroups l
  | _, [], _, _, _ => rfl
  | 0, _ :: _, hn, _, _ => by simp at hn
  | n + 1, (k, d) :: rest, hn, hK, hs => by
    have hKk : groupKeyOk k = true := hK (k, d) List.mem_cons_self
    have hKr : ∀ p ∈ rest, groupKeyOk p.1 = true := fun p hp => hK p (List.mem_cons_of_mem _ hp)
    have hs' : Sorted (fun a b : Val × Val => valLt a.1 b.1) rest := (List.pairwise_cons.mp hs).2
    have hk : ∀ p ∈ rest, valLt p.1 k = false := (List.pairwise_cons.mp hs).1
    have heq : ∀ p ∈ rest, pyEq k p.1 = keyEq k p.1 :=
      fun p hp => pyEq_eq_tie _ _ hKk (hKr p hp)
    obtain ⟨c1, c2⟩ := takeWhile_congr_mem rest heq
    obtain ⟨t1, t2⟩ := sorted_takeWhile_filter strictWeak_valLt k rest hs' hk
    rw [groupRuns_cons, specGroups_cons, c1, c2]
    have t1' : rest.takeWhile (fun p => keyEq k p.1) = rest.filter (fun p => keyEq k p.1) := t1
    have t2' : rest.dropWhile (fun p => keyEq k p.1) = rest.filter (fun p => !keyEq k p.1) := t2
    rw [t1', t2']
    congr 1
    have hsub : (rest.filter (fun p => !keyEq k p.1)).Sublist rest := List.filter_sublist
    exact groupRuns_sorted_eq_spec n _ (by have := hsub.length_le; simp at hn; omega)
      (fun p hp => hKr p (hsub.subset hp)) (hs'.sublist hsub)

/-! ### sorting commutes with grouping -/

theorem strictWeak_groups : StrictWeak (fun a b : Val × List Val => valLt a.1 b.1) :=
  ⟨fun a b h => strictWeak_valLt.asymm a.1 b.1 h,
   fun a b c h1 h2 => strictWeak_valLt.negTrans a.1 b.1 c.1 h1 h2⟩

theorem specGroups_nodup (kds : List (Val × Val)) : (specGroups kds).Nodup := by
  refine (specGroups_pairwise kds).imp ?_
  intro a b h e
  subst e
  rw [keyEq_refl] at h; cases h

/-- the oracle's groups do not depend on the order of documents with different keys: a stable
    rearrangement gives the same groups, possibly listed in another order -/
theorem specGroups_perm_of_stable (kds kds' : List (Val × Val))
    (hst : ∀ k : Val, kds'.filter (fun p => keyEq k p.1) = kds.filter (fun p => keyEq k p.1)) :
    (specGroups kds').Perm (specGroups kds) := by
  rw [List.perm_ext_iff_of_nodup (specGroups_nodup _) (specGroups_nodup _)]
  intro g
  rw [mem_specGroups, mem_specGroups, hst g.1]
  have e : ∀ l : List (Val × Val), (l.map (·.1)).filter (keyEq g.1) =
      (l.filter (fun p => keyEq g.1 p.1)).map (·.1) := by
    intro l; rw [List.filter_map]; rfl
  rw [e kds', e kds, hst g.1]

theorem specGroups_isort (kds : List (Val × Val)) :
    specGroups (isort (fun a b : Val × Val => valLt a.1 b.1) kds) =
      isort (fun a b : Val × List Val => valLt a.1 b.1) (specGroups kds) := by
  set ltp := fun a b : Val × Val => valLt a.1 b.1 with hltp
  set ltg := fun a b : Val × List Val => valLt a.1 b.1 with hltg
  have hst : ∀ k : Val, (isort ltp kds).filter (fun p => keyEq k p.1) =
      kds.filter (fun p => keyEq k p.1) := fun k =>
    isort_stable strictWeak_pairs kds (k, Val.null)
  have hperm := specGroups_perm_of_stable kds (isort ltp kds) hst
  -- both sides are strictly ascending in the key
  have strict : ∀ l : List (Val × List Val), Sorted ltg l →
      l.Pairwise (fun a b => keyEq a.1 b.1 = false) →
      l.Pairwise (fun a b => ltg a b = true) := by
    intro l h1 h2
    refine (h1.and h2).imp ?_
    rintro a b ⟨h3, h4⟩
    simp only [keyEq, Bool.and_eq_false_iff, Bool.not_eq_false'] at h4
    rcases h4 with h4 | h4
    · exact h4
    · have h3' : valLt b.1 a.1 = false := h3
      rw [h3'] at h4; cases h4
  have s1 : Sorted ltg (specGroups (isort ltp kds)) := by
    simp only [specGroups, Sorted]
    rw [List.pairwise_map]
    have : Sorted valLt ((isort ltp kds).map (·.1)) := by
      simp only [Sorted]; rw [List.pairwise_map]
      exact isort_sorted strictWeak_pairs kds
    exact this.sublist (distinctKeys_sublist _)
  have p2 : (isort ltg (specGroups kds)).Pairwise (fun a b => keyEq a.1 b.1 = false) :=
    ((isort_perm ltg (specGroups kds)).pairwise_iff (fun {a b} h => by
      rw [keyEq_symm]; exact h)).2 (specGroups_pairwise kds)
  refine List.Perm.eq_of_pairwise (le := fun a b => ltg a b = true) ?_
    (strict _ s1 (specGroups_pairwise _))
    (strict _ (isort_sorted strictWeak_groups _) p2)
    (hperm.trans (isort_perm ltg _).symm)
  intro a b _ _ h1 h2
  have := strictWeak_groups.asymm a b h1
  have h2' : valLt b.1 a.1 = true := h2
  rw [h2'] at this; cases this

end MongoModel.Pipe.Proofs
