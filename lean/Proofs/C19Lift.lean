/-
  C19 — from the protocol machine to the interpreter: what holds of every reachable state of
  the protocol machine (`PGood`, established by a certificate or by the invariant) holds of
  every reachable state of every conformant program.
-/
import Proofs.C19Sim
namespace MongoModel.RWLock

/-- no reachable state of the protocol machine with `n` threads is bad or deadlocked -/
def PGood (P : Protocol) (n : Nat) : Prop :=
  ∀ ps, PReach P n ps → pbad P ps = false ∧ pdeadlocked P ps = false

theorem proj_pos_get (cfg : Cfg) (s : State) (t : Nat) (ht : t < s.ths.length) :
    (proj cfg s).pos[t]? = some (phaseAt cfg s t) := by
  simp [proj, tids, List.getElem?_map, List.getElem?_range ht]

theorem countP_two {α} (p : α → Bool) : ∀ (xs : List α) (t u : Nat) (a b : α),
    xs[t]? = some a → xs[u]? = some b → t ≠ u → p a = true → p b = true → 2 ≤ xs.countP p
  | [], t, _, _, _, h, _, _, _, _ => by simp at h
  | x :: xs, 0, 0, _, _, _, _, hne, _, _ => absurd rfl hne
  | x :: xs, 0, u + 1, a, b, ha, hb, _, hpa, hpb => by
    simp at ha hb; subst ha
    have : 1 ≤ xs.countP p := List.countP_pos_iff.2 ⟨b, List.mem_of_getElem? hb, hpb⟩
    rw [List.countP_cons, hpa]; simp only [if_true]; omega
  | x :: xs, t + 1, 0, a, b, ha, hb, _, hpa, hpb => by
    simp at ha hb; subst hb
    have : 1 ≤ xs.countP p := List.countP_pos_iff.2 ⟨a, List.mem_of_getElem? ha, hpa⟩
    rw [List.countP_cons, hpb]; simp only [if_true]; omega
  | x :: xs, t + 1, u + 1, a, b, ha, hb, hne, hpa, hpb => by
    simp at ha hb
    have := countP_two p xs t u a b ha hb (by omega) hpa hpb
    simp only [List.countP_cons]; omega

theorem exclusion_proj {cfg : Cfg} {s : State} (h : exclusionViolated cfg s = true) :
    pexclusionViolated (proj cfg s) = true := by
  simp only [exclusionViolated, List.any_eq_true, Bool.and_eq_true, tids, List.mem_range,
    bne_iff_ne, Bool.or_eq_true] at h
  obtain ⟨t, ht, hw, u, hu, hne, hb⟩ := h
  have hpt := proj_pos_get cfg s t ht
  have hpu := proj_pos_get cfg s u hu
  have hwt : isWBody (phaseAt cfg s t) = true := by
    simp only [insideW, beq_iff_eq] at hw; rw [hw]; rfl
  have hbt : isBody (phaseAt cfg s t) = true := by
    simp only [insideW, beq_iff_eq] at hw; rw [hw]; rfl
  have hbu : isBody (phaseAt cfg s u) = true := by
    rcases hb with hb | hb
    · simp only [insideW, beq_iff_eq] at hb; rw [hb]; rfl
    · simp only [insideR, beq_iff_eq] at hb; rw [hb]; rfl
  simp only [pexclusionViolated, Bool.and_eq_true, Nat.ble_eq]
  constructor
  · exact List.countP_pos_iff.2 ⟨_, List.mem_of_getElem? hpt, hwt⟩
  · exact countP_two isBody _ t u _ _ hpt hpu (Ne.symm hne) hbt hbu

theorem leaked_proj {cfg : Cfg} {s : State} (h : leaked cfg s = true) :
    pleaked (proj cfg s) = true := by
  simp only [leaked, allOut, Bool.and_eq_true, locksFree] at h
  simp only [pleaked, proj, Bool.and_eq_true, List.all_map]
  exact ⟨by simpa [Function.comp_def] using h.1, h.2⟩

theorem allIdx_intro {α} (p : Nat → α → Bool) : ∀ (xs : List α) (i : Nat),
    (∀ j x, xs[j]? = some x → p (i + j) x = true) → allIdx p i xs = true
  | [], _, _ => rfl
  | y :: ys, i, h => by
    simp only [allIdx, Bool.and_eq_true]
    refine ⟨by simpa using h 0 y rfl, allIdx_intro p ys (Nat.add i 1) (fun j x hx => ?_)⟩
    have := h (j + 1) x (by simpa using hx)
    have e : Nat.add i 1 + j = i + (j + 1) := by show i + 1 + j = _; omega
    rwa [e]

theorem dictOp_none {cfg : Cfg} {code sh th ins} (h : dictOp cfg code sh th ins = none) :
    isProto ins = true ∨ isStuck ins = true := by
  cases ins <;> simp only [dictOp] at h <;> simp [isProto, isStuck]
  all_goals first
    | (repeat' split at h) <;> simp at h
    | skip
  all_goals (rename_i d; cases d <;> simp at h ⊢ <;> (repeat' split at h) <;> simp at h)

theorem exec_dict_none {cfg : Cfg} {code sh th t ins} (hp : isProto ins = false)
    (he : exec cfg code sh th t ins = none) : dictOp cfg code sh th ins = none := by
  unfold exec at he
  rw [protoOp_none_of_not_proto hp] at he
  exact he

theorem step_none_exec {cfg : Cfg} {s : State} {t : Nat} {th : Thread} {ins : TInstr}
    (hth : s.ths[t]? = some th) (hins : (cfg.code t)[th.pc]? = some ins)
    (h : step cfg s t = none) : exec cfg (cfg.code t) s.sh th t ins.op = none := by
  unfold step at h
  simp only [hth, hins] at h
  split at h
  · assumption
  · simp at h

theorem instrAt_some_ne {P : Protocol} {p : Phase} {ins : Instr} (h : instrAt P p = some ins) :
    p ≠ .out ∧ isBody p = false := by
  cases p <;> simp [instrAt, isBody] at h ⊢

/-- a thread that cannot take a step is finished or blocked in the protocol -/
theorem blocked_thread {P : Protocol} {cfg : Cfg} (hc : cfg.conformant P = true) {s : State}
    {t : Nat} (ht : t < s.ths.length) (h : step cfg s t = none) :
    canMoveAt P s.sh.lk t (phaseAt cfg s t) = false ∧
      (threadDone cfg s t = false → phaseAt cfg s t ≠ .out) := by
  have hth : s.ths[t]? = some s.ths[t] := List.getElem?_eq_getElem ht
  rw [tagAt_eq_phaseAt cfg s t _ hth]
  cases hins : (cfg.code t)[(s.ths[t]).pc]? with
  | none =>
    have hlen : (cfg.code t).length ≤ (s.ths[t]).pc := by
      rcases Nat.lt_or_ge (s.ths[t]).pc (cfg.code t).length with h' | h'
      · simp [List.getElem?_eq_getElem h'] at hins
      · exact h'
    refine ⟨by simp [tagAt, hins, canMoveAt], fun hd => ?_⟩
    simp [threadDone, hth, hlen] at hd
  | some ins =>
    have hex := step_none_exec hth hins h
    have hconf := conformsAt_of (conf_code hc t) hins
    unfold conformsAt at hconf
    by_cases hp : isProto ins.op = true
    · simp only [hp, if_true, Bool.and_eq_true, beq_iff_eq] at hconf
      obtain ⟨⟨hi, _⟩, _⟩ := hconf
      obtain ⟨r, hr⟩ := protoOp_some_of_proto (re := cfg.reentrant) (lk := s.sh.lk) (t := t) hp
      have hb : r = .blocked := by
        unfold exec at hex
        rw [hr] at hex
        cases r <;> simp at hex ⊢
      subst hb
      rw [conf_re hc] at hr
      have hne := instrAt_some_ne hi
      have htag : tagAt (cfg.code t) (s.ths[t]).pc = ins.ph := by simp [tagAt, hins]
      rw [htag]
      refine ⟨?_, fun _ => hne.1⟩
      cases hph : ins.ph with
      | out => exact absurd hph hne.1
      | body w => rw [hph] at hne; simp [isBody] at hne
      | acq w j => rw [hph] at hi; simp [canMoveAt, hi, hr]
      | rel w r j => rw [hph] at hi; simp [canMoveAt, hi, hr]
    · have hp' : isProto ins.op = false := by simpa using hp
      simp only [hp', Bool.false_eq_true, if_false, Bool.and_eq_true] at hconf
      have hd := exec_dict_none hp' hex
      rcases dictOp_none hd with h1 | h1
      · rw [hp'] at h1; simp at h1
      · simp [h1] at hconf

theorem deadlock_proj {P : Protocol} {cfg : Cfg} (hc : cfg.conformant P = true) {s : State}
    (h : deadlocked cfg s = true) : pdeadlocked P (proj cfg s) = true := by
  simp only [deadlocked, Bool.and_eq_true, Bool.not_eq_true', allDone, List.all_eq_true, tids,
    List.mem_range, enabled, Option.isSome_eq_false_iff, Option.isNone_iff_eq_none] at h
  obtain ⟨hnd, hall⟩ := h
  have hnd' : ∃ t, t < s.ths.length ∧ threadDone cfg s t = false := by
    obtain ⟨t, ht, hd⟩ := List.all_eq_false.1 hnd
    exact ⟨t, List.mem_range.1 ht, by simpa using hd⟩
  obtain ⟨t0, ht0, hd0⟩ := hnd'
  simp only [pdeadlocked, Bool.and_eq_true, List.any_eq_true, bne_iff_ne]
  constructor
  · refine ⟨phaseAt cfg s t0, List.mem_of_getElem? (proj_pos_get cfg s t0 ht0), ?_⟩
    exact (blocked_thread hc ht0 (hall t0 ht0)).2 hd0
  · apply allIdx_intro
    intro j x hx
    have hj : j < s.ths.length := by
      rcases Nat.lt_or_ge j s.ths.length with h' | h'
      · exact h'
      · simp [proj, tids, List.getElem?_eq_none, h'] at hx
    rw [proj_pos_get cfg s j hj] at hx
    simp only [Option.some.injEq] at hx
    subst hx
    simp only [Nat.zero_add, Bool.not_eq_true']
    exact (blocked_thread hc hj (hall j hj)).1

/-! ### a failing release never happens -/

def noLockFault (s : State) : Prop := ∀ th ∈ s.ths, th.fault ≠ some .lockError

theorem raise_fault (th : Thread) (code : Code) (f : Option Fault) (g : Fault)
    (h : (th.raise code f).fault = some g) : th.fault = some g ∨ f = some g := by
  simp only [Thread.raise] at h
  cases hf : th.fault with
  | none => rw [hf] at h; exact Or.inr h
  | some x => rw [hf] at h; exact Or.inl h

theorem markDirty_fault (th : Thread) : (markDirty th).fault = th.fault := by
  unfold markDirty; split <;> rfl

theorem dictOp_fault {cfg : Cfg} {code sh th ins e} (h : dictOp cfg code sh th ins = some e)
    (hf : e.th.fault = some .lockError) : th.fault = some .lockError := by
  cases ins <;> simp only [dictOp] at h
  all_goals first
    | (simp at h; done)
    | (repeat' split at h)
  all_goals first
    | (simp at h; done)
    | (simp only [Option.some.injEq] at h; subst h;
       first
        | exact hf
        | (rcases raise_fault _ _ _ _ hf with h1 | h1
           · exact h1
           · first | (simp at h1; done) | (split at h1 <;> simp at h1)))

theorem relErr_proj {P : Protocol} {cfg : Cfg} (hc : cfg.conformant P = true) {s : State}
    {t : Nat} {th : Thread} {ins : TInstr} (hth : s.ths[t]? = some th)
    (hins : (cfg.code t)[th.pc]? = some ins) (hp : isProto ins.op = true)
    (herr : protoOp cfg.reentrant s.sh.lk t ins.op = some .error) :
    prelError P (proj cfg s) = true := by
  have ht : t < s.ths.length := by
    rcases Nat.lt_or_ge t s.ths.length with h | h
    · exact h
    · simp [List.getElem?_eq_none h] at hth
  have hconf := conformsAt_of (conf_code hc t) hins
  unfold conformsAt at hconf
  simp only [hp, if_true, Bool.and_eq_true, beq_iff_eq] at hconf
  obtain ⟨⟨hi, _⟩, _⟩ := hconf
  have hpos := proj_pos_get cfg s t ht
  rw [tagAt_eq_phaseAt cfg s t th hth] at hpos
  have htag : tagAt (cfg.code t) th.pc = ins.ph := by simp [tagAt, hins]
  rw [htag] at hpos
  simp only [prelError]
  have : ∀ (xs : List Phase) (i : Nat) (p : Nat → Phase → Bool) (j : Nat) (x : Phase),
      xs[j]? = some x → p (i + j) x = true → anyIdx p i xs = true := by
    intro xs
    induction xs with
    | nil => intro i p j x hx; simp at hx
    | cons y ys ih =>
      intro i p j x hx hpx
      simp only [anyIdx, Bool.or_eq_true]
      cases j with
      | zero => simp at hx; subst hx; exact Or.inl (by simpa using hpx)
      | succ j =>
        simp at hx
        refine Or.inr (ih (Nat.add i 1) p j x hx ?_)
        have e : Nat.add i 1 + j = i + (j + 1) := by show i + 1 + j = _; omega
        rwa [e]
  apply this _ 0 _ t ins.ph hpos
  simp only [Nat.zero_add, relErrAt, hi]
  rw [conf_re hc] at herr
  show (protoOp P.reentrant s.sh.lk t ins.op == some PRes.error) = true
  rw [herr]; rfl

theorem noLockFault_step {P : Protocol} {cfg : Cfg} (hc : cfg.conformant P = true) {s s' : State}
    {t : Nat} (hgood : prelError P (proj cfg s) = false) (hinv : noLockFault s)
    (h : step cfg s t = some s') : noLockFault s' := by
  obtain ⟨th, ins, e, hth, hins, he, rfl⟩ := step_cases h
  have hthmem : th ∈ s.ths := List.mem_of_getElem? hth
  have heth : e.th.fault ≠ some .lockError := by
    intro hf
    by_cases hp : isProto ins.op = true
    · rcases exec_proto hp he with ⟨lk', _, _, hthn, _⟩ | ⟨herr, _, _, _⟩
      · rw [hthn] at hf; exact hinv th hthmem hf
      · rw [relErr_proj hc hth hins hp herr] at hgood; simp at hgood
    · have hp' : isProto ins.op = false := by simpa using hp
      exact hinv th hthmem (dictOp_fault (exec_dict hp' he) hf)
  intro th' hmem
  have key : ∀ x ∈ s.ths.set t e.th, x.fault ≠ some .lockError := by
    intro x hx
    rcases List.mem_or_eq_of_mem_set hx with h1 | h1
    · exact hinv x h1
    · rw [h1]; exact heth
  simp only at hmem
  split at hmem
  · obtain ⟨x, hx, rfl⟩ := List.mem_map.1 hmem
    rw [markDirty_fault]; exact key x hx
  · exact key th' hmem

theorem reach_noLockFault {P : Protocol} {cfg : Cfg} (hc : cfg.conformant P = true)
    (hg : PGood P cfg.codes.length) : ∀ s, Reach cfg s → noLockFault s := by
  intro s hr
  induction hr with
  | init =>
    intro th hmem
    simp only [initState, List.mem_map] at hmem
    obtain ⟨_, _, rfl⟩ := hmem
    simp [Thread.init]
  | step hprev hstep ih =>
    have hb := (hg _ (sim hc _ hprev)).1
    simp only [pbad, Bool.or_eq_false_iff] at hb
    exact noLockFault_step hc hb.1.2 ih hstep

/-- every reachable state of a conformant program is free of exclusion violations, leaked
    locks, deadlock and failing releases, as soon as the protocol machine is -/
theorem program_safe {P : Protocol} {cfg : Cfg} (hc : cfg.conformant P = true)
    (hg : PGood P cfg.codes.length) (s : State) (hr : Reach cfg s) :
    exclusionViolated cfg s = false ∧ leaked cfg s = false ∧ deadlocked cfg s = false ∧
      noLockFault s := by
  have hp := hg _ (sim hc s hr)
  simp only [pbad, Bool.or_eq_false_iff] at hp
  obtain ⟨⟨⟨hex, _⟩, hlk⟩, hdl⟩ := hp
  refine ⟨?_, ?_, ?_, reach_noLockFault hc hg s hr⟩
  · cases h : exclusionViolated cfg s with
    | false => rfl
    | true => rw [exclusion_proj h] at hex; simp at hex
  · cases h : leaked cfg s with
    | false => rfl
    | true => rw [leaked_proj h] at hlk; simp at hlk
  · cases h : deadlocked cfg s with
    | false => rfl
    | true => rw [deadlock_proj hc h] at hdl; simp at hdl

end MongoModel.RWLock
