/-
  Proofs.C10ExtCount — `matched_count` / `deleted_count` against the selection, the collection
  the expiry pass leaves empty included.
-/
import Spec.CountsExt
import Proofs.C10ExtMatch
import Proofs.C05Loop

namespace MongoModel.Proofs.C10Ext
open MongoModel MongoModel.Spec
open MongoModel.Proofs.C10Lemmas MongoModel.Proofs.C09Lemmas MongoModel.Proofs.C05Lemmas

theorem preLoop_empty (now : Int) (c c1 : Coll) (spec : Val) (he : expire now c = .ok c1)
    (hemp : c1.docs = []) :
    preLoop now c spec =
      match filterApplies spec (.doc []) with
      | .error e => .error e
      | .ok _ => .ok c1 := by
  unfold preLoop
  rw [he]
  simp only [bind, Except.bind, hemp, List.isEmpty_nil, if_true]
  cases filterApplies spec (.doc []) with
  | error e => rfl
  | ok b => exact expire_idem now c c1 he

/-- `matched_count` of a non-upserting update, whatever the collection -/
theorem update_count_all (cfg : Cfg) (now : Int) (c c1 c' : Coll) (fs : Fields) (u : Val)
    (sel : List (Val × Val)) (res : UpdateResult) (multi : Bool)
    (he : expire now c = .ok c1) (hk : KeysDistinct c) (hg : GoodKeys c)
    (hs : selectDocs (patchDT (.doc fs)) c1.docs = .ok sel)
    (h : applyUpdateColl cfg now c (.doc fs) u false multi = (c', .ok res)) :
    res.n = (if multi then sel.length else min sel.length 1) ∧ res.nModified ≤ res.n ∧
      res.upserted = none := by
  by_cases hemp : c1.docs = []
  · rw [hemp] at hs
    cases hs
    rw [applyUpdateColl_eq] at h
    split at h
    · split at h
      · cases h
      · rw [preLoop_empty now c c1 _ he hemp] at h
        generalize filterApplies (patchDT (Val.doc fs)) (Val.doc []) = r at h
        cases r with
        | error e => cases h
        | ok b =>
          dsimp only at h
          rw [hemp] at h
          simp only [updateLoop, afterLoop, Bool.not_false, Bool.true_or, if_true, Prod.mk.injEq,
            Except.ok.injEq] at h
          obtain ⟨_, rfl⟩ := h
          cases multi <;> simp
    · cases h
  · exact MongoModel.Proofs.C10.update_count cfg now c c1 c' fs u sel res multi he hemp hk hg hs h

/-- `deleted_count`, whatever the collection -/
theorem delete_count_all (now : Int) (c c1 : Coll) (fs : Fields) (sel : List (Val × Val))
    (multi : Bool) (n : Nat)
    (he : expire now c = .ok c1) (hi : IdInv c) (hg : GoodKeys c)
    (hs : selectDocs (patchDT (.doc fs)) c1.docs = .ok sel)
    (h : (deleteColl now c (.doc fs) multi).2 = .ok n) :
    n = (if multi then sel.length else min sel.length 1) := by
  by_cases hemp : c1.docs = []
  · rw [hemp] at hs
    cases hs
    have hit := iter_empty now c c1 (patchDT (.doc fs)) he hemp
    unfold deleteColl at h
    rw [patch_doc_twice] at h
    rw [patch_doc] at h hit
    dsimp only at h
    rw [hit] at h
    generalize filterApplies (Val.doc (patchFields fs)) (Val.doc []) = r at h
    cases r with
    | error e => cases h
    | ok b =>
      dsimp only at h
      cases multi <;> (simp at h ⊢; omega)
  · cases multi with
    | true =>
      obtain ⟨h1, _, _⟩ := MongoModel.Proofs.C10.delete_many_eq_find now c c1 fs sel he hemp hi hg hs
      rw [h1] at h
      cases h
      rfl
    | false =>
      obtain ⟨h1, _⟩ := MongoModel.Proofs.C10.delete_one_eq_find now c c1 fs sel he hemp hi hg hs
      rw [h1] at h
      cases h
      rfl

end MongoModel.Proofs.C10Ext
