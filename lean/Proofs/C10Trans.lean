/-
  Proofs.C10Trans — Python `==` (`pyEq`) is transitive on the whole value universe.
-/
import Proofs.C01Values

namespace MongoModel.Proofs.C10Lemmas
open MongoModel MongoModel.Spec
open MongoModel.Proofs.C01Lemmas (Val.ind)

/-! ### numbers -/

theorem two_pow_pos (e : Nat) : (0 : Int) < 2 ^ e := Int.pow_pos (by decide)

theorem numEq_trans (a b c : Num) (h1 : Num.eq a b = true) (h2 : Num.eq b c = true) :
    Num.eq a c = true := by
  simp only [Num.eq, beq_iff_eq] at *
  have hb := two_pow_pos b.e
  generalize (2 : Int) ^ a.e = A at *
  generalize (2 : Int) ^ b.e = B at *
  generalize (2 : Int) ^ c.e = C at *
  have h : a.m * C * B = c.m * A * B := by
    calc a.m * C * B = (a.m * B) * C := by rw [Int.mul_assoc, Int.mul_comm C B, ← Int.mul_assoc]
      _ = (b.m * A) * C := by rw [h1]
      _ = (b.m * C) * A := by rw [Int.mul_assoc, Int.mul_comm A C, ← Int.mul_assoc]
      _ = (c.m * B) * A := by rw [h2]
      _ = c.m * A * B := by rw [Int.mul_assoc, Int.mul_comm B A, ← Int.mul_assoc]
  exact Int.eq_of_mul_eq_mul_right (Int.ne_of_gt hb) h

/-- on a numeric left operand `==` is the comparison of the numeric views -/
theorem pyEq_num (a b : Val) (n : Num) (h : a.num? = some n) :
    pyEq a b = (match b.num? with | some m => Num.eq n m | none => false) := by
  cases a with
  | bool x =>
    simp only [Val.num?, Option.some.injEq] at h; subst h
    cases b with
    | date u o => cases o <;> simp [pyEq, Val.num?]
    | bool y => cases x <;> cases y <;> simp [pyEq, Val.num?, Num.eq]
    | int i => simp [pyEq, Val.num?, Num.eq]
    | _ => simp [pyEq, Val.num?]
  | int i =>
    simp only [Val.num?, Option.some.injEq] at h; subst h
    cases b with
    | date u o => cases o <;> simp [pyEq, Val.num?]
    | bool y =>
      simp only [pyEq, Val.num?, Num.eq, Int.pow_zero, Int.mul_one]
      rw [Bool.eq_iff_iff]; simp only [beq_iff_eq]; exact eq_comm
    | int j => simp [pyEq, Val.num?, Num.eq]
    | _ => simp [pyEq, Val.num?]
  | dbl m e =>
    simp only [Val.num?, Option.some.injEq] at h; subst h
    cases b with
    | date u o => cases o <;> simp [pyEq, Val.num?]
    | bool y =>
      simp only [pyEq, Val.num?, Num.eq]
      rw [Bool.eq_iff_iff]; simp only [beq_iff_eq]; exact eq_comm
    | int j =>
      simp only [pyEq, Val.num?, Num.eq]
      rw [Bool.eq_iff_iff]; simp only [beq_iff_eq]; exact eq_comm
    | _ => simp [pyEq, Val.num?]
  | _ => simp [Val.num?] at h

theorem pyEq_trans_num (a b c : Val) (n : Num) (h : a.num? = some n)
    (h1 : pyEq a b = true) (h2 : pyEq b c = true) : pyEq a c = true := by
  rw [pyEq_num a b n h] at h1
  cases hb : b.num? with
  | none => rw [hb] at h1; cases h1
  | some m =>
    rw [hb] at h1
    rw [pyEq_num b c m hb] at h2
    rw [pyEq_num a c n h]
    cases hc : c.num? with
    | none => rw [hc] at h2; cases h2
    | some k =>
      rw [hc] at h2
      exact numEq_trans n m k h1 h2

/-! ### documents and arrays -/

theorem pyEqFields_dget (gs hs : Fields) (h : pyEqFields gs hs = true) (k : String) (w : Val)
    (hk : dget k gs = some w) : ∃ w', dget k hs = some w' ∧ pyEq w w' = true := by
  induction gs with
  | nil => simp [dget] at hk
  | cons kv gs ih =>
    obtain ⟨k', v⟩ := kv
    simp only [pyEqFields, Bool.and_eq_true] at h
    simp only [dget] at hk
    split at hk
    · rename_i hkk
      subst hkk
      cases hk
      cases hd : dget k' hs with
      | none => rw [hd] at h; simp at h
      | some w' => rw [hd] at h; exact ⟨w', rfl, h.1⟩
    · exact ih h.2 hk

theorem pyEqFields_trans (fs : Fields)
    (ih : ∀ k v, (k, v) ∈ fs → ∀ b c, pyEq v b = true → pyEq b c = true → pyEq v c = true)
    (gs hs : Fields) (h1 : pyEqFields fs gs = true) (h2 : pyEqFields gs hs = true) :
    pyEqFields fs hs = true := by
  induction fs with
  | nil => simp [pyEqFields]
  | cons kv fs ih2 =>
    obtain ⟨k, v⟩ := kv
    simp only [pyEqFields, Bool.and_eq_true] at h1 ⊢
    refine ⟨?_, ih2 (fun k v hm => ih k v (by simp [hm])) h1.2⟩
    cases hd : dget k gs with
    | none => rw [hd] at h1; simp at h1
    | some w =>
      rw [hd] at h1
      obtain ⟨w', hw', hww⟩ := pyEqFields_dget gs hs h2 k w hd
      rw [hw']
      exact ih k v (by simp) w w' h1.1 hww

theorem pyEqList_trans (xs : List Val)
    (ih : ∀ x, x ∈ xs → ∀ b c, pyEq x b = true → pyEq b c = true → pyEq x c = true) :
    ∀ ys zs, pyEqList xs ys = true → pyEqList ys zs = true → pyEqList xs zs = true := by
  induction xs with
  | nil =>
    intro ys zs h1 h2
    cases ys with
    | nil => exact h2
    | cons y ys => simp [pyEqList] at h1
  | cons x xs ih2 =>
    intro ys zs h1 h2
    cases ys with
    | nil => simp [pyEqList] at h1
    | cons y ys =>
      cases zs with
      | nil => simp [pyEqList] at h2
      | cons z zs =>
        simp only [pyEqList, Bool.and_eq_true] at h1 h2 ⊢
        exact ⟨ih x (by simp) y z h1.1 h2.1,
          ih2 (fun x hm => ih x (by simp [hm])) ys zs h1.2 h2.2⟩

/-- Python `==` is transitive (on every value of the universe) -/
theorem pyEq_trans : ∀ a b c : Val, pyEq a b = true → pyEq b c = true → pyEq a c = true := by
  intro a
  induction a using Val.ind with
  | hnull =>
    intro b c h1 h2
    cases b with
    | null => exact h2
    | date u o => cases o <;> simp [pyEq] at h1
    | _ => simp [pyEq] at h1
  | hbool x => intro b c h1 h2; exact pyEq_trans_num _ b c _ rfl h1 h2
  | hint i => intro b c h1 h2; exact pyEq_trans_num _ b c _ rfl h1 h2
  | hdbl m e => intro b c h1 h2; exact pyEq_trans_num _ b c _ rfl h1 h2
  | hstr s =>
    intro b c h1 h2
    cases b with
    | str t => simp only [pyEq, beq_iff_eq] at h1; subst h1; exact h2
    | date u o => cases o <;> simp [pyEq] at h1
    | _ => simp [pyEq] at h1
  | hoid n =>
    intro b c h1 h2
    cases b with
    | oid t => simp only [pyEq, beq_iff_eq] at h1; subst h1; exact h2
    | date u o => cases o <;> simp [pyEq] at h1
    | _ => simp [pyEq] at h1
  | hdate u o =>
    intro b c h1 h2
    cases b with
    | date u' o' =>
      cases c with
      | date u'' o'' =>
        cases o <;> cases o' <;> cases o'' <;> simp [pyEq] at h1 h2 ⊢
        · omega
        · omega
      | _ => cases o' <;> simp [pyEq] at h2
    | _ => cases o <;> simp [pyEq] at h1
  | hdoc fs ih =>
    intro b c h1 h2
    cases b with
    | doc gs =>
      cases c with
      | doc hs =>
        simp only [pyEq, Bool.and_eq_true, beq_iff_eq] at h1 h2 ⊢
        exact ⟨h1.1.trans h2.1, pyEqFields_trans fs ih gs hs h1.2 h2.2⟩
      | date u o => cases o <;> simp [pyEq] at h2
      | _ => simp [pyEq] at h2
    | date u o => cases o <;> simp [pyEq] at h1
    | _ => simp [pyEq] at h1
  | harr xs ih =>
    intro b c h1 h2
    cases b with
    | arr ys =>
      cases c with
      | arr zs =>
        simp only [pyEq] at h1 h2 ⊢
        exact pyEqList_trans xs ih ys zs h1 h2
      | date u o => cases o <;> simp [pyEq] at h2
      | _ => simp [pyEq] at h2
    | date u o => cases o <;> simp [pyEq] at h1
    | _ => simp [pyEq] at h1

end MongoModel.Proofs.C10Lemmas
