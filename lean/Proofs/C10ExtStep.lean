/-
  Proofs.C10ExtStep — what `update_one`, `replace_one`, `update_many` REPORT (the `UpdateResult`
  the client sees) in terms of the shared selection.
-/
import Proofs.C10ExtOne

namespace MongoModel.Proofs.C10Ext
open MongoModel MongoModel.Spec

theorem updateOut_none (res : UpdateResult) (h : res.upserted = none) :
    updateOut res = reportOf res.n res.nModified := by
  unfold updateOut reportOf
  rw [h]
  rfl

theorem step_update_one (cfg : Cfg) (now : Int) (c c' : Coll) (f u up out : Val)
    (h : stepColl cfg now c (.arr [.str "update_one", f, u, up]) = (c', .val out)) :
    ∃ res, applyUpdateColl cfg now c f u (boolOf up) false = (c', .ok res) ∧ out = updateOut res := by
  simp only [stepColl] at h
  cases hv : validateUpdate u with
  | error e => rw [hv] at h; cases h
  | ok _ =>
    rw [hv] at h
    dsimp only at h
    rcases happ : applyUpdateColl cfg now c f u (boolOf up) false with ⟨c2, r⟩
    rw [happ] at h
    cases r with
    | error e => cases h
    | ok res => cases h; exact ⟨res, rfl, rfl⟩

theorem step_replace_one (cfg : Cfg) (now : Int) (c c' : Coll) (f u up out : Val)
    (h : stepColl cfg now c (.arr [.str "replace_one", f, u, up]) = (c', .val out)) :
    ∃ res, applyUpdateColl cfg now c f u (boolOf up) false = (c', .ok res) ∧ out = updateOut res := by
  simp only [stepColl] at h
  cases hv : validateReplace u with
  | error e => rw [hv] at h; cases h
  | ok _ =>
    rw [hv] at h
    dsimp only at h
    rcases happ : applyUpdateColl cfg now c f u (boolOf up) false with ⟨c2, r⟩
    rw [happ] at h
    cases r with
    | error e => cases h
    | ok res => cases h; exact ⟨res, rfl, rfl⟩

theorem step_update_many (cfg : Cfg) (now : Int) (c c' : Coll) (f u up out : Val)
    (h : stepColl cfg now c (.arr [.str "update_many", f, u, up]) = (c', .val out)) :
    ∃ res, applyUpdateColl cfg now c f u (boolOf up) true = (c', .ok res) ∧ out = updateOut res := by
  simp only [stepColl] at h
  cases hv : validateUpdate u with
  | error e => rw [hv] at h; cases h
  | ok _ =>
    rw [hv] at h
    dsimp only at h
    rcases happ : applyUpdateColl cfg now c f u (boolOf up) true with ⟨c2, r⟩
    rw [happ] at h
    cases r with
    | error e => cases h
    | ok res => cases h; exact ⟨res, rfl, rfl⟩

theorem update_one_reports (cfg : Cfg) (now : Int) (c c' : Coll) (fs : Fields) (u up out : Val)
    (sel : List (Val × Val))
    (hne : c.docs ≠ []) (hi : IdInv c) (hg : GoodKeys c) (hn : c.ttlIndexes = [])
    (hs : selectDocs (patchDT (.doc fs)) c.docs = .ok sel) (hup : boolOf up = false)
    (h : stepColl cfg now c (.arr [.str "update_one", .doc fs, u, up]) = (c', .val out)) :
    out = reportOf (sel.take 1).length ((sel.take 1).filter (contentChangedAfter c')).length := by
  obtain ⟨res, happ, rfl⟩ := step_update_one cfg now c c' _ u up out h
  rw [hup] at happ
  obtain ⟨h1, h2, h3⟩ := update_one_counts cfg now c c' fs u sel res hne hi hg hn hs happ
  rw [updateOut_none res h3, h1, h2]

theorem replace_one_reports (cfg : Cfg) (now : Int) (c c' : Coll) (fs : Fields) (r up out : Val)
    (sel : List (Val × Val))
    (hne : c.docs ≠ []) (hi : IdInv c) (hg : GoodKeys c) (hn : c.ttlIndexes = [])
    (hs : selectDocs (patchDT (.doc fs)) c.docs = .ok sel) (hup : boolOf up = false)
    (h : stepColl cfg now c (.arr [.str "replace_one", .doc fs, r, up]) = (c', .val out)) :
    out = reportOf (sel.take 1).length ((sel.take 1).filter (contentChangedAfter c')).length := by
  obtain ⟨res, happ, rfl⟩ := step_replace_one cfg now c c' _ r up out h
  rw [hup] at happ
  obtain ⟨h1, h2, h3⟩ := update_one_counts cfg now c c' fs r sel res hne hi hg hn hs happ
  rw [updateOut_none res h3, h1, h2]

theorem update_many_reports (cfg : Cfg) (now : Int) (c c' : Coll) (fs : Fields) (u up out : Val)
    (sel : List (Val × Val))
    (hi : IdInv c) (hg : GoodKeys c) (hn : c.ttlIndexes = [])
    (hs : selectDocs (patchDT (.doc fs)) c.docs = .ok sel) (hup : boolOf up = false)
    (h : stepColl cfg now c (.arr [.str "update_many", .doc fs, u, up]) = (c', .val out)) :
    out = reportOf sel.length (sel.filter (contentChangedAfter c')).length := by
  obtain ⟨res, happ, rfl⟩ := step_update_many cfg now c c' _ u up out h
  rw [hup] at happ
  obtain ⟨h1, h2, _, hu⟩ := update_many_counts cfg now c c' fs u sel res hi hg hn hs happ
  rw [updateOut_none res hu, h1, h2]

end MongoModel.Proofs.C10Ext
