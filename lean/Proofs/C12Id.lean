/-
  Proofs.C12Id — how `_id` is popped from the specification and re-attached to the copy.
-/
import Proofs.C12Exact

namespace MongoModel.Proofs.C12
open MongoModel MongoModel.Spec.Proj

theorem tailsOf_id_cons (k : String) (ps : List Path) :
    tailsOf k (["_id"] :: ps) = if "_id" = k then [] :: tailsOf k ps else tailsOf k ps := by
  by_cases e : "_id" = k <;> simp [tailsOf, e]

theorem nodupB_iff : ∀ ks : List String, nodupB ks = true ↔ ks.Nodup
  | [] => by simp [nodupB]
  | k :: r => by simp [nodupB, nodupB_iff r]

/-! ### lists without an `_id` key -/

def NoId (l : Fields) : Prop := ∀ kv ∈ l, kv.1 ≠ "_id"

theorem noId_dget {l : Fields} (h : NoId l) : dget "_id" l = none := by
  induction l with
  | nil => rfl
  | cons kv r ih =>
    have h1 := h kv (by simp)
    simp [dget, h1, ih (fun x hx => h x (by simp [hx]))]

theorem noId_dset {l : Fields} (v : Val) (h : NoId l) : dset "_id" v l = l ++ [("_id", v)] := by
  induction l with
  | nil => rfl
  | cons kv r ih =>
    have h1 := h kv (by simp)
    simp [dset, h1, ih (fun x hx => h x (by simp [hx]))]

theorem noId_derase {l : Fields} (h : NoId l) : derase "_id" l = l := by
  induction l with
  | nil => rfl
  | cons kv r ih =>
    have h1 := h kv (by simp)
    simp [derase, h1, ih (fun x hx => h x (by simp [hx]))]

theorem noId_filter_ne {l : Fields} (h : NoId l) : l.filter (fun kv => kv.1 != "_id") = l := by
  apply List.filter_eq_self.mpr
  intro kv hkv
  simpa using h kv hkv

theorem noId_filter_eq {l : Fields} (h : NoId l) : l.filter (fun kv => kv.1 == "_id") = [] := by
  apply List.filter_eq_nil_iff.mpr
  intro kv hkv
  simpa using h kv hkv

theorem dset_same {k : String} {v : Val} : ∀ {l : Fields}, dget k l = some v → dset k v l = l
  | [], h => by simp [dget] at h
  | (k', v') :: r, h => by
    simp only [dget] at h
    split at h
    · next e => cases h; subst e; simp [dset]
    · next e => simp [dset, e, dset_same h]

/-- the `_id` entries of a dict -/
theorem filter_id_of_nodup : ∀ {fs : Fields}, (dkeys fs).Nodup →
    fs.filter (fun kv => kv.1 == "_id") =
      (match dget "_id" fs with | some v => [("_id", v)] | none => [])
  | [], _ => rfl
  | (k, v) :: r, h => by
    simp only [dkeys, List.map_cons, List.nodup_cons] at h
    by_cases e : k = "_id"
    · subst e
      have : NoId r := fun kv hkv e' => h.1 (List.mem_map.mpr ⟨kv, hkv, e'⟩)
      simp [dget, noId_filter_eq this]
    · have ih := filter_id_of_nodup (fs := r) h.2
      simp [dget, e, ih]

/-! ### inclusion -/

theorem incl_noId {ps : List Path} (hid : tailsOf "_id" ps = []) :
    ∀ fs : Fields, NoId (inclFields fs ps)
  | [] => by simp [inclFields, NoId]
  | (k, v) :: rest => by
    have ih := incl_noId hid rest
    by_cases e : k = "_id"
    · subst e; simpa [inclFields, hid] using ih
    · simp only [inclFields]
      split
      · exact ih
      · split
        · intro kv hkv
          rcases List.mem_cons.mp hkv with e' | h'
          · subst e'; exact e
          · exact ih kv h'
        · split
          · intro kv hkv
            rcases List.mem_cons.mp hkv with e' | h'
            · subst e'; exact e
            · exact ih kv h'
          · exact ih

theorem incl_id_filter_ne {ps : List Path} (hid : tailsOf "_id" ps = []) :
    ∀ fs : Fields, (inclFields fs (["_id"] :: ps)).filter (fun kv => kv.1 != "_id") =
      inclFields fs ps
  | [] => by simp [inclFields]
  | (k, v) :: rest => by
    have ih := incl_id_filter_ne hid rest
    by_cases e : k = "_id"
    · subst e
      simp [inclFields, tailsOf_id_cons, hid, ih]
    · have e' : ¬ "_id" = k := fun x => e x.symm
      simp only [inclFields, tailsOf_id_cons, e', if_false]
      split
      · exact ih
      · split
        · simp [e, ih]
        · split
          · simp [e, ih]
          · exact ih

theorem incl_id_filter_eq {ps : List Path} (hid : tailsOf "_id" ps = []) :
    ∀ fs : Fields, (inclFields fs (["_id"] :: ps)).filter (fun kv => kv.1 == "_id") =
      fs.filter (fun kv => kv.1 == "_id")
  | [] => by simp [inclFields]
  | (k, v) :: rest => by
    have ih := incl_id_filter_eq hid rest
    by_cases e : k = "_id"
    · subst e
      simp [inclFields, tailsOf_id_cons, hid, ih]
    · have e' : ¬ "_id" = k := fun x => e x.symm
      simp only [inclFields, tailsOf_id_cons, e', if_false]
      split
      · simp [e, ih]
      · split
        · simp [e, ih]
        · split
          · simp [e, ih]
          · simp [e, ih]

/-! ### exclusion -/

theorem excl_nil : ∀ fs : Fields, exclFields fs [] = fs
  | [] => by simp [exclFields]
  | (k, v) :: rest => by simp [exclFields, tailsOf, excl_nil rest]

theorem excl_dget_id {ps : List Path} (hid : tailsOf "_id" ps = []) :
    ∀ fs : Fields, dget "_id" (exclFields fs ps) = dget "_id" fs
  | [] => by simp [exclFields]
  | (k, v) :: rest => by
    have ih := excl_dget_id hid rest
    by_cases e : k = "_id"
    · subst e; simp [exclFields, hid, dget]
    · simp only [exclFields]
      split
      · simp [dget, e, ih]
      · split
        · simp [dget, e, ih]
        · simp [dget, e, ih]

theorem excl_id_absent {ps : List Path} : ∀ {fs : Fields}, NoId fs →
    exclFields fs (["_id"] :: ps) = exclFields fs ps
  | [], _ => by simp [exclFields]
  | (k, v) :: rest, h => by
    have e : ¬ "_id" = k := fun x => h (k, v) (by simp) x.symm
    have ih := excl_id_absent (ps := ps) (fs := rest) (fun x hx => h x (by simp [hx]))
    simp [exclFields, tailsOf_id_cons, e, ih]

theorem excl_id_erase {ps : List Path} (hid : tailsOf "_id" ps = []) :
    ∀ {fs : Fields}, (dkeys fs).Nodup →
      derase "_id" (exclFields fs ps) = exclFields fs (["_id"] :: ps)
  | [], _ => by simp [exclFields, derase]
  | (k, v) :: rest, h => by
    simp only [dkeys, List.map_cons, List.nodup_cons] at h
    by_cases e : k = "_id"
    · subst e
      have hno : NoId rest := fun kv hkv e' => h.1 (List.mem_map.mpr ⟨kv, hkv, e'⟩)
      simp [exclFields, hid, derase, tailsOf_id_cons, excl_id_absent hno]
    · have e' : ¬ "_id" = k := fun x => e x.symm
      have ih := excl_id_erase hid (fs := rest) h.2
      simp only [exclFields, tailsOf_id_cons, e', if_false]
      split
      · simp [derase, e, ih]
      · split
        · exact ih
        · simp [derase, e, ih]

end MongoModel.Proofs.C12
