/-
  Proofs.C03ExtLookup — `$lookup` against the oracle `specLookupDoc` on the domain
  `lookupReasons = []` (top-level field names, scalar local value, no boolean/number pair).
-/
import Proofs.C03ExtKeys
import Proofs.C03Spec
import Proofs.C01

namespace MongoModel.Pipe.Proofs
open MongoModel MongoModel.Pipe MongoModel.Spec MongoModel.Spec.Pipe MongoModel.Spec.Order
  MongoModel.Proofs.C11 MongoModel.Proofs.C01Lemmas

/-! ### field names -/

theorem startsWith_dollar (s : String) : s.startsWith "$" = startsWithDollar s := by
  rw [Bool.eq_iff_iff]
  simp only [String.startsWith, String.Slice.startsWith_string_iff, startsWithDollar]
  have : "$".toList = ['$'] := by decide
  rw [this]
  simp only [String.copy_toSlice]
  cases s.toList with
  | nil => simp
  | cons c r =>
    simp only [List.cons_prefix_cons, List.nil_prefix, and_true, beq_iff_eq]
    exact eq_comm

structure PlainName (s : String) : Prop where
  ne : s ≠ ""
  nodollar : startsWithDollar s = false
  nodollar' : s.startsWith "$" = false
  nodot : s.toList.contains '.' = false
  split : splitDots s = [s]

theorem plainName_ok (s : String) (h : plainName s = true) : PlainName s := by
  simp only [plainName, Bool.and_eq_true, Bool.not_eq_true', decide_eq_true_eq] at h
  obtain ⟨⟨h1, h2⟩, h3⟩ := h
  have hd : startsWithDollar s = false := by
    unfold startsWithDollar
    cases hs : s.toList with
    | nil => rfl
    | cons c r =>
      rw [hs] at h3
      simp only [List.contains_cons, Bool.or_eq_false_iff, beq_eq_false_iff_ne] at h3
      simp only [beq_eq_false_iff_ne]
      exact fun e => h3.1 e.symm
  refine ⟨h1, hd, by rw [startsWith_dollar]; exact hd, h2, ?_⟩
  have := splitDots_ofList s.toList h2
  simpa using this

/-! ### the query `{foreignField: q}` on one foreign document -/

theorem filterApplies_plain (ff : String) (q : Val) (gs : Fields) (hn : PlainName ff)
    (hq : ∀ fs, q ≠ .doc fs) :
    filterApplies (.doc [(ff, q)]) (.doc gs) = .ok (plainMatch q (dget ff gs)) := by
  have n1 : ff ≠ "$comment" := ne_of_not_dollar hn.nodollar' (by decide +kernel)
  have n2 : logicalKeys.contains ff = false := by
    simp only [logicalKeys, List.contains_cons, List.contains_nil, Bool.or_false,
      Bool.or_eq_false_iff, beq_eq_false_iff_ne]
    exact ⟨ne_of_not_dollar hn.nodollar' (by decide +kernel),
      ne_of_not_dollar hn.nodollar' (by decide +kernel),
      ne_of_not_dollar hn.nodollar' (by decide +kernel),
      ne_of_not_dollar hn.nodollar' (by decide +kernel)⟩
  have n3 : ff ≠ "$expr" := ne_of_not_dollar hn.nodollar' (by decide +kernel)
  have n4 : topLevelOperators.contains ff = false := by
    simp only [topLevelOperators, List.contains_cons, List.contains_nil, Bool.or_false,
      Bool.or_eq_false_iff, beq_eq_false_iff_ne]
    exact ⟨ne_of_not_dollar hn.nodollar' (by decide +kernel),
      ne_of_not_dollar hn.nodollar' (by decide +kernel),
      ne_of_not_dollar hn.nodollar' (by decide +kernel),
      ne_of_not_dollar hn.nodollar' (by decide +kernel)⟩
  have hc : candsKey ff (.doc gs) = .ok [dget ff gs] := by
    simp [candsKey, hn.split, cands]
  have hkey := applyKey_plain_nondoc q ff (.doc gs) [dget ff gs] (fun fs e => hq fs e) hc
  show applyFields [(ff, q)] (.doc gs) = _
  rw [applyFields_cons]
  simp only [applyHead, n1, n2, n3, n4, hn.nodollar', if_false, Bool.false_eq_true, hkey,
    List.any_cons, List.any_nil, Bool.or_false, bind, Except.bind]
  cases plainMatch q (dget ff gs) <;> simp [applyFields, pure, Except.pure]

/-! ### Python `==` against the oracle's equality on join values -/

theorem nat_tie (x y : Nat) : (x == y) = (!decide (x < y) && !decide (y < x)) := by
  by_cases h1 : x < y
  · have : ¬ y < x := by omega
    have : ¬ x = y := by omega
    simp [*]
  · by_cases h2 : y < x
    · have : ¬ x = y := by omega
      simp [*]
    · have : x = y := by omega
      simp [*]

theorem int_tie2 (x y : Int) : (y == x) = (!decide (x < y) && !decide (y < x)) ∧
    (x == y) = (!decide (x < y) && !decide (y < x)) :=
  ⟨(int_tie y x).trans (Bool.and_comm _ _), int_tie x y⟩

theorem str_tie2 (x y : String) : (y == x) = (!decide (x < y) && !decide (y < x)) ∧
    (x == y) = (!decide (x < y) && !decide (y < x)) :=
  ⟨(str_tie y x).trans (Bool.and_comm _ _), str_tie x y⟩

theorem nat_tie2 (x y : Nat) : (y == x) = (!decide (x < y) && !decide (y < x)) ∧
    (x == y) = (!decide (x < y) && !decide (y < x)) :=
  ⟨(nat_tie y x).trans (Bool.and_comm _ _), nat_tie x y⟩

theorem pyEq_join (q x : Val) (hq : joinScalar q = true) (hp : joinPair q x = []) :
    pyEq x q = keyEq q x ∧ pyEq q x = keyEq q x := by
  rcases q with _ | b | i | ⟨m, e⟩ | s | ⟨u, _ | o⟩ | n | _ | _ <;>
  simp [joinScalar] at hq <;>
  rcases x with _ | b' | j | ⟨m', e'⟩ | t | ⟨u', _ | o'⟩ | n' | _ | _ <;>
  simp [joinPair, isBoolV, Val.isNumber] at hp <;>
  simp [-String.lt_iff_ltb, pyEq, keyEq, valLt, typeOrder, Num.eq, Num.lt, dateUtc]
  · cases b <;> cases b' <;> decide
  · exact int_tie2 _ _
  · exact int_tie _ _
  · exact (int_tie _ _).trans (Bool.and_comm _ _)
  · exact int_tie2 _ _
  · exact str_tie2 _ _
  · exact int_tie2 _ _
  · exact nat_tie2 _ _

/-! ### one document -/

theorem pyEq_scalar_arr (q : Val) (xs : List Val) (hq : joinScalar q = true) :
    pyEq q (.arr xs) = false := by
  rcases q with _ | b | i | ⟨m, e⟩ | s | ⟨u, _ | o⟩ | n | _ | _ <;> simp [joinScalar] at hq <;> rfl

theorem plainMatch_eq_joins (q : Val) (fv : Option Val) (hq : joinScalar q = true)
    (hr : joinReasons q fv = []) : plainMatch q fv = joins q fv := by
  cases fv with
  | none => cases q <;> simp [plainMatch, joins, keyEq, valLt, typeOrder]
  | some v =>
    by_cases ha : ∃ xs, v = .arr xs
    · obtain ⟨xs, rfl⟩ := ha
      simp only [joinReasons] at hr
      simp only [plainMatch, joins, pyEq_scalar_arr q xs hq, Bool.or_false, pyIn]
      apply any_congr'
      intro x hx
      exact (pyEq_join q x hq ((flatMap_nil_iff' _ _).1 hr x hx)).1
    · have hr' : joinPair q v = [] := by
        cases v <;> first | exact hr | exact absurd ⟨_, rfl⟩ ha
      have e1 : plainMatch q (some v) = pyEq v q := by
        cases v <;> first | rfl | exact absurd ⟨_, rfl⟩ ha
      have e2 : joins q (some v) = keyEq q v := by
        cases v <;> first | rfl | exact absurd ⟨_, rfl⟩ ha
      rw [e1, e2]; exact (pyEq_join q v hq hr').1

theorem filterR_ok_of (p : Val → R Bool) (g : Val → Bool) : ∀ (xs : List Val),
    (∀ x ∈ xs, p x = .ok (g x)) → filterR p xs = .ok (xs.filter g)
  | [], _ => rfl
  | x :: xs, h => by
    simp only [filterR, h x List.mem_cons_self,
      filterR_ok_of p g xs (fun y hy => h y (List.mem_cons_of_mem _ hy)), List.filter_cons]

theorem mapR_ok_of {α β} (f : α → R β) (g : α → β) : ∀ (xs : List α),
    (∀ x ∈ xs, f x = .ok (g x)) → mapR f xs = .ok (xs.map g)
  | [], _ => rfl
  | x :: xs, h => by
    simp only [mapR, h x List.mem_cons_self,
      mapR_ok_of f g xs (fun y hy => h y (List.mem_cons_of_mem _ hy)), List.map_cons]

/-- the per-document reasons of `lookupReasons` -/
def lookupDocReasons (foreign : List Val) (lf ff : String) (d : Val) : List String :=
  match d with
  | .doc fs =>
    let q := (dget lf fs).getD .null
    (if joinScalar q then [] else ["joinscope"]) ++ (if normalV q then [] else ["datenorm"]) ++
    foreign.flatMap (fun f => match f with
      | .doc gs => (if normalV f then [] else ["datenorm"]) ++ joinReasons q (dget ff gs)
      | _ => ["nondoc"])
  | _ => ["nondoc"]

theorem lookupDoc_eq_spec (foreign : List Val) (lf ff as : String) (d : Val)
    (hlf : PlainName lf) (hff : PlainName ff)
    (hD : lookupDocReasons foreign lf ff d = []) :
    lookupDoc foreign lf ff as d = .ok (specLookupDoc foreign lf ff as d) := by
  cases d with
  | doc fs =>
    simp only [lookupDocReasons, List.append_eq_nil_iff] at hD
    obtain ⟨⟨h1, h2⟩, h3⟩ := hD
    set q := (dget lf fs).getD .null with hq
    have hjs : joinScalar q = true := by
      cases h : joinScalar q with
      | true => rfl
      | false => simp [h] at h1
    have hnv : normalV q = true := by
      cases h : normalV q with
      | true => rfl
      | false => simp [h] at h2
    have hqd : ∀ gs, q ≠ .doc gs := by
      intro gs e; rw [e] at hjs; simp [joinScalar] at hjs
    have hquery : lookupQuery fs lf = .ok q := by
      simp only [lookupQuery, getByDot, hlf.split, getByDotParts]
      cases hg : dget lf fs with
      | none => simp [hq, hg]
      | some v =>
        have : q = v := by simp [hq, hg]
        subst this
        cases hv : q <;> first | rfl | (rw [hv] at hjs; simp [joinScalar] at hjs)
    have hpatch : patch (.doc [(ff, q)]) = .doc [(ff, q)] := by
      simp [patch, patchFields, normalV_patch q hnv]
    have hfor : ∀ f ∈ foreign, filterApplies (.doc [(ff, q)]) f =
        .ok (match f with | .doc gs => joins q (dget ff gs) | _ => false) := by
      intro f hf
      have := (flatMap_nil_iff' _ _).1 h3 f hf
      cases f with
      | doc gs =>
        simp only [List.append_eq_nil_iff] at this
        rw [filterApplies_plain ff q gs hff hqd, plainMatch_eq_joins q _ hjs this.2]
      | _ => simp at this
    have hfind : findDocs (.doc [(ff, q)]) foreign = .ok (foreign.filter (fun f =>
        match f with | .doc gs => joins q (dget ff gs) | _ => false)) := by
      simp only [findDocs, hpatch]
      cases foreign with
      | nil => simp only [filterApplies_plain ff q [] hff hqd]; rfl
      | cons a r => exact filterR_ok_of _ _ _ hfor
    -- the fetched documents are in stored form: normalising them changes nothing
    have hnorm : ∀ f ∈ foreign, patch f = f := by
      intro f hf
      have := (flatMap_nil_iff' _ _).1 h3 f hf
      cases f with
      | doc gs =>
        simp only [List.append_eq_nil_iff] at this
        have hn : normalV (.doc gs) = true := by
          cases h : normalV (.doc gs) with
          | true => rfl
          | false => simp [h] at this
        exact normalV_patch _ hn
      | _ => simp at this
    have hpl : ∀ (l : List Val), (∀ f ∈ l, patch f = f) → patchList l = l := by
      intro l hl
      rw [MongoModel.Proofs.C18.patchList_eq_map]
      conv => rhs; rw [← List.map_id l]
      exact List.map_congr_left (fun f hf => by simpa using hl f hf)
    have hms : patchList (foreign.filter (fun f =>
        match f with | .doc gs => joins q (dget ff gs) | _ => false)) = foreign.filter (fun f =>
        match f with | .doc gs => joins q (dget ff gs) | _ => false) :=
      hpl _ (fun f hf => hnorm f (List.mem_filter.mp hf).1)
    simp only [lookupDoc, hquery, hfind, specLookupDoc, hms]
    rfl
  | _ => simp [lookupDocReasons] at hD

/-! ### the stage -/

theorem dget_mem {k : String} {v : Val} : ∀ {fs : Fields}, dget k fs = some v → ∃ kv ∈ fs, kv.1 = k
  | [], h => by simp [dget] at h
  | (k', v') :: r, h => by
    by_cases hk : k' = k
    · exact ⟨(k', v'), List.mem_cons_self, hk⟩
    · simp only [dget, hk, if_false] at h
      obtain ⟨kv, h1, h2⟩ := dget_mem h
      exact ⟨kv, List.mem_cons_of_mem _ h1, h2⟩

theorem lookupArgs_some (opts : Val) (fr lf ff as : String)
    (h : lookupArgs opts = some (fr, lf, ff, as)) :
    ∃ o, opts = .doc o ∧ dhas "let" o = false ∧ dhas "pipeline" o = false ∧
      dget "from" o = some (.str fr) ∧ dget "localField" o = some (.str lf) ∧
      dget "foreignField" o = some (.str ff) ∧ dget "as" o = some (.str as) ∧
      PlainName lf ∧ PlainName ff ∧ PlainName as := by
  cases opts with
  | doc o =>
    simp only [lookupArgs] at h
    split at h
    · cases h
    · rename_i hany
      have hkeys : ∀ k, dhas k o = true → ["from", "localField", "foreignField", "as"].contains k = true := by
        intro k hk
        simp only [dhas, Option.isSome_iff_exists] at hk
        obtain ⟨v, hv⟩ := hk
        obtain ⟨kv, h1, h2⟩ := dget_mem hv
        have hany' : o.any (fun kv => !(["from", "localField", "foreignField", "as"].contains kv.1))
            = false := by
          cases hh : o.any (fun kv => !(["from", "localField", "foreignField", "as"].contains kv.1)) with
          | false => rfl
          | true => exact absurd hh hany
        have := List.any_eq_false.mp hany' kv h1
        rw [← h2]
        cases hc : ["from", "localField", "foreignField", "as"].contains kv.1 with
        | true => rfl
        | false => rw [hc] at this; exact absurd rfl this
      have hlet : dhas "let" o = false := by
        cases hl : dhas "let" o with
        | false => rfl
        | true => have := hkeys _ hl; revert this; decide
      have hpipe : dhas "pipeline" o = false := by
        cases hl : dhas "pipeline" o with
        | false => rfl
        | true => have := hkeys _ hl; revert this; decide
      split at h
      · rename_i fr' lf' ff' as' e1 e2 e3 e4
        split at h
        · rename_i hp
          simp only [Bool.and_eq_true] at hp
          simp only [Option.some.injEq, Prod.mk.injEq] at h
          obtain ⟨rfl, rfl, rfl, rfl⟩ := h
          exact ⟨o, rfl, hlet, hpipe, e1, e2, e3, e4, plainName_ok _ hp.1.1, plainName_ok _ hp.1.2,
            plainName_ok _ hp.2⟩
        · cases h
      · cases h
  | _ => simp [lookupArgs] at h

/-- **`$lookup` = the oracle** on the domain -/
theorem lookup_eq_spec (db : Db) (opts : Val) (docs s : List Val)
    (hD : lookupReasons db opts docs = []) (hs : specLookupStage db opts docs = some s) :
    lookupStage db opts docs = .ok s := by
  simp only [specLookupStage] at hs
  cases ha : lookupArgs opts with
  | none => simp [ha] at hs
  | some a =>
    obtain ⟨fr, lf, ff, as⟩ := a
    simp only [ha, Option.map_some, Option.some.injEq] at hs
    obtain ⟨o, rfl, hlet, hpipe, e1, e2, e3, e4, p2, p3, p4⟩ := lookupArgs_some _ _ _ _ _ ha
    simp only [lookupReasons, ha, List.append_eq_nil_iff] at hD
    obtain ⟨hcoll, hdocs⟩ := hD
    have a1 : lookupArg o "from" = .ok fr := by simp [lookupArg, e1]
    have a2 : lookupArg o "localField" = .ok lf := by simp [lookupArg, e2, p2.nodollar]
    have a3 : lookupArg o "foreignField" = .ok ff := by simp [lookupArg, e3, p3.nodollar]
    have a4 : lookupArg o "as" = .ok as := by simp [lookupArg, e4, p4.nodollar]
    have hc : (!(db.colls.any (fun p => p.1 = fr)) && !validCollName fr) = false := by
      cases hx : (db.colls.any (fun p => decide (p.1 = fr)) || validCollName fr) with
      | true =>
        simp only [Bool.or_eq_true] at hx
        rcases hx with h | h <;> simp [h]
      | false => simp [hx] at hcoll
    simp only [lookupStage, hlet, hpipe, Bool.or_self, Bool.false_eq_true, if_false, a1, a2, a3,
      a4, p4.nodot, hc]
    rw [← hs]
    apply mapR_ok_of
    intro d hd
    exact lookupDoc_eq_spec _ lf ff as d p2 p3 ((flatMap_nil_iff' _ _).1 hdocs d hd)

end MongoModel.Pipe.Proofs
