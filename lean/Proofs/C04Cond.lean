/-
  Proofs.C04Cond — `$cond`, `$ifNull`, `$switch`, null propagation through arithmetic, and the
  two contexts (`$project`/`$addFields` computed fields, `$expr`).
-/
import Proofs.C04Basic

set_option linter.unusedSimpArgs false

namespace MongoModel.Proofs.C04
open MongoModel MongoModel.Expr

/-! ### `$cond` -/

theorem cond_list (c : Ctx) (a b d : Val) :
    eval c (.doc [("$cond", .arr [a, b, d])]) =
      (eval c a).bind (fun r => if Spec.toBool r then eval c b else eval c d) := by
  have h1 : classify "$cond" = .conditional := by decide
  have h2 : mode "$cond" (.arr [a, b, d]) = .shaped := by
    simp [mode, dateOps, datePartOps, wholeOps, unaryArithOps, groupingOps]
  have h3 : arityErr "$cond" 3 = none := by decide
  have h4 : listOps.contains "$cond" = false := by decide
  simp [eval, evalDoc, h1, h2, evalOp, h3, h4, evalCond3, toBoolOpt_eq]
  rfl

theorem cond_doc (c : Ctx) (gs : Fields)
    (h : (dhas "if" gs && dhas "then" gs && dhas "else" gs) = true)
    (hx : gs.any (fun kv => !(["if", "then", "else"].contains kv.1)) = false) :
    eval c (.doc [("$cond", .doc gs)]) =
      (evalAt c "if" gs).bind (fun r =>
        if Spec.toBool r then evalAt c "then" gs else evalAt c "else" gs) := by
  have h1 : classify "$cond" = .conditional := by decide
  have h2 : mode "$cond" (.doc gs) = .shaped := by
    simp [mode, dateOps, datePartOps, wholeOps, unaryArithOps, groupingOps, hasTzKeys]
  rw [eval_shaped c "$cond" _ (by decide) (by decide) (by decide) (by decide)
    (Or.inl (by decide)) h2]
  simp only [evalOp, h, hx, Bool.not_true]
  simp [toBoolOpt_eq]
  rfl

/-- a `$cond` document that lacks one of its three fields is rejected ("Missing 'else' parameter
    to $cond"); it used to be "missing", the KeyError of `values['else']` -/
theorem cond_doc_lacking (c : Ctx) (gs : Fields)
    (h : (dhas "if" gs && dhas "then" gs && dhas "else" gs) = false) :
    eval c (.doc [("$cond", .doc gs)]) = .error .opFail := by
  have h1 : classify "$cond" = .conditional := by decide
  have h2 : mode "$cond" (.doc gs) = .shaped := by
    simp [mode, dateOps, datePartOps, wholeOps, unaryArithOps, groupingOps, hasTzKeys]
  rw [eval_shaped c "$cond" _ (by decide) (by decide) (by decide) (by decide)
    (Or.inl (by decide)) h2]
  simp [evalOp, h]

/-! ### `$ifNull` -/

theorem ifNull_list (c : Ctx) (xs : List Val) (hlen : 2 ≤ xs.length) :
    eval c (.doc [("$ifNull", .arr xs)]) = evalIfNull c xs := by
  have h1 : classify "$ifNull" = .conditional := by decide
  have h2 : mode "$ifNull" (.arr xs) = .shaped := by
    simp [mode, dateOps, datePartOps, wholeOps, unaryArithOps, groupingOps]
  have h3 : arityErr "$ifNull" xs.length = none := by
    have : ¬ xs.length < 2 := by omega
    simp [arityErr, binaryArithOps, comparisonOps, this]
  have h4 : listOps.contains "$ifNull" = false := by decide
  have h5 : ¬ ("$ifNull" ∈ listOps) := by decide
  rw [eval_shaped c "$ifNull" _ (by decide) (by decide) (by decide) (by decide)
    (Or.inl (by decide)) h2]
  simp [evalOp, h3, h4, h5]

/-- fewer than two operands are rejected -/
theorem ifNull_short (c : Ctx) (xs : List Val) (hlen : xs.length < 2) :
    eval c (.doc [("$ifNull", .arr xs)]) = .error .opFail := by
  have h1 : classify "$ifNull" = .conditional := by decide
  have h2 : mode "$ifNull" (.arr xs) = .shaped := by
    simp [mode, dateOps, datePartOps, wholeOps, unaryArithOps, groupingOps]
  have h3 : arityErr "$ifNull" xs.length = some .opFail := by
    simp [arityErr, binaryArithOps, comparisonOps, hlen]
  rw [eval_shaped c "$ifNull" _ (by decide) (by decide) (by decide) (by decide)
    (Or.inl (by decide)) h2]
  simp [evalOp, h3]

/-- an operand that is neither null nor missing is the result; the later ones are not parsed -/
theorem ifNull_first (c : Ctx) (x y : Val) (r : List Val) (v : Val)
    (hx : eval c x = .ok (some v)) (hv : v ≠ .null) :
    evalIfNull c (x :: y :: r) = .ok (some v) := by
  have : isNull v = false := by cases v <;> simp_all [isNull]
  simp [evalIfNull, hx, this, bind, Except.bind, pure, Except.pure]

/-- a null or missing operand is skipped -/
theorem ifNull_skip (c : Ctx) (x y : Val) (r : List Val) (rx : Option Val)
    (hx : eval c x = .ok rx) (hn : Spec.nullish rx = true) :
    evalIfNull c (x :: y :: r) = evalIfNull c (y :: r) := by
  cases rx with
  | none => simp [evalIfNull, hx, bind, Except.bind]
  | some v =>
    cases v <;> simp [Spec.nullish] at hn
    simp [evalIfNull, hx, isNull, bind, Except.bind]

/-- the last operand is the replacement, whatever it evaluates to -/
theorem ifNull_last (c : Ctx) (f : Val) : evalIfNull c [f] = eval c f := by
  simp [evalIfNull]

/-- the two-operand form in one statement -/
theorem ifNull_two (c : Ctx) (x f : Val) (rx : Option Val) (hx : eval c x = .ok rx) :
    eval c (.doc [("$ifNull", .arr [x, f])]) =
      if Spec.nullish rx then eval c f else .ok rx := by
  rw [ifNull_list c [x, f] (by simp)]
  cases hn : Spec.nullish rx
  · cases rx with
    | none => simp [Spec.nullish] at hn
    | some v =>
      have : v ≠ .null := by intro e; subst e; simp [Spec.nullish] at hn
      simp [ifNull_first c x f [] v hx this]
  · simp [ifNull_skip c x f [] rx hx hn, ifNull_last]

/-! ### `$switch` -/

theorem switch_eq (c : Ctx) (gs : Fields) (bs : List Val)
    (hb : dget "branches" gs = some (.arr bs)) (hne : bs ≠ []) (hok : branchesOk bs = true) :
    eval c (.doc [("$switch", .doc gs)]) =
      (evalBranchesAt c gs).bind (fun r =>
        match r with
        | some v => .ok v
        | none => if dhas "default" gs then evalAt c "default" gs else .error .opFail) := by
  have h1 : classify "$switch" = .control := by decide
  have h2 : mode "$switch" (.doc gs) = .shaped := by
    simp [mode, dateOps, datePartOps, wholeOps, unaryArithOps, groupingOps, hasTzKeys]
  have hne' : bs.isEmpty = false := by cases bs <;> simp_all
  rw [eval_shaped c "$switch" _ (by decide) (by decide) (by decide) (by decide)
    (Or.inl (by decide)) h2]
  simp only [evalOp, hb, Option.getD, hne', hok]
  simp
  rfl

theorem evalBranchesAt_eq (c : Ctx) (gs : Fields) (bs : List Val)
    (hb : dget "branches" gs = some (.arr bs)) : evalBranchesAt c gs = evalBranches c bs := by
  induction gs with
  | nil => simp [dget] at hb
  | cons kv r ih =>
    obtain ⟨k, v⟩ := kv
    by_cases hk : k = "branches"
    · subst hk
      simp [dget] at hb
      subst hb
      simp [evalBranchesAt]
    · simp [dget, hk] at hb
      cases v <;> simp [evalBranchesAt, hk, ih hb]

/-- the branches before the first true `case` are skipped -/
theorem branches_skip (c : Ctx) (b : Fields) (r : List Val) (rc : Option Val)
    (hc : evalAt c "case" b = .ok rc) (hf : Spec.toBool rc = false) :
    evalBranches c (.doc b :: r) = evalBranches c r := by
  simp [evalBranches, hc, toBoolOpt_eq, hf, bind, Except.bind]

/-- the first branch whose `case` is true gives its `then` -/
theorem branches_hit (c : Ctx) (b : Fields) (r : List Val) (rc : Option Val)
    (hc : evalAt c "case" b = .ok rc) (ht : Spec.toBool rc = true) :
    evalBranches c (.doc b :: r) = (evalAt c "then" b).map some := by
  simp [evalBranches, hc, toBoolOpt_eq, ht, bind, Except.bind, pure, Except.pure]
  cases evalAt c "then" b <;> rfl

/-- **switch_first_true**: falsy cases in front, then a truthy one -/
theorem switch_first_true (c : Ctx) (pre : List Fields) (b : Fields) (post : List Val)
    (hpre : ∀ p ∈ pre, ∃ rc, evalAt c "case" p = .ok rc ∧ Spec.toBool rc = false)
    (rc : Option Val) (hc : evalAt c "case" b = .ok rc) (ht : Spec.toBool rc = true) :
    evalBranches c (pre.map .doc ++ .doc b :: post) = (evalAt c "then" b).map some := by
  induction pre with
  | nil => simpa using branches_hit c b post rc hc ht
  | cons p pre ih =>
    obtain ⟨rp, hp, hf⟩ := hpre p (by simp)
    simp only [List.map_cons, List.cons_append]
    rw [branches_skip c p _ rp hp hf]
    exact ih (fun q hq => hpre q (by simp [hq]))

end MongoModel.Proofs.C04
