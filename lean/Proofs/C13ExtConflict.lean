/-
  Proofs.C13ExtConflict — `_expand_dots` succeeds EXACTLY on prefix-free keys, and fails with the
  WriteError 'cannot infer query fields to set' otherwise (never with the KeyError the code could
  raise from `paths[subkey]`).  Invariant of the fold: every node of the accumulated document
  that is not at or below the path of a finished key is a sub-document the expansion created.
-/
import Proofs.C13ExtExpand

set_option linter.unusedVariables false
set_option linter.unusedSimpArgs false

namespace MongoModel.Proofs.C13Ext
open MongoModel MongoModel.Spec MongoModel.Proofs.C13Lemmas

/-- what `expandOne` does to the node at a proper prefix `π` of the new path: the next component
    is set in the sub-document there (an absent node counts as empty) -/
theorem expandOne_node (given inter : List String) (v : Val) : ∀ (π : List String) (k : String)
    (rest pre : List String) (acc acc' : Fields),
    expandOne given inter v (π ++ k :: rest) pre acc = .ok acc' →
    ∃ x fs0, getPath π (.doc acc') = some (.doc (dset k x fs0)) ∧
      (getPath π (.doc acc) = some (.doc fs0) ∨ (getPath π (.doc acc) = none ∧ fs0 = []))
  | [], k, rest, pre, acc, acc', h => by
    have hres : ∃ x, acc' = dset k x acc := by
      cases rest with
      | nil => simp only [List.nil_append, expandOne] at h; cases h; exact ⟨_, rfl⟩
      | cons r1 rest =>
        obtain ⟨_, sub0, sub, _, _, e⟩ := expandOne_head given inter v k r1 rest pre acc acc' h
        exact ⟨_, e⟩
    obtain ⟨x, rfl⟩ := hres
    exact ⟨x, acc, rfl, Or.inl rfl⟩
  | a :: π, k, rest, pre, acc, acc', h => by
    have hshape : (a :: π) ++ k :: rest = a :: (π ++ k :: rest) := rfl
    rw [hshape] at h
    cases hπ : π ++ k :: rest with
    | nil => simp at hπ
    | cons r1 rest' =>
      rw [hπ] at h
      obtain ⟨_, sub0, sub, hcase, hs, rfl⟩ := expandOne_head given inter v a r1 rest' pre acc acc' h
      rw [← hπ] at hs
      obtain ⟨x, fs0, h1, h2⟩ := expandOne_node given inter v π k rest _ sub0 sub hs
      rcases hcase with ⟨hnone, rfl⟩ | hsome
      · have hfs0 : fs0 = [] := by
          rcases h2 with h2 | h2
          · cases π with
            | nil => simp only [getPath, Option.some.injEq, Val.doc.injEq] at h2; exact h2.symm
            | cons b π' => rw [getPath_empty_doc] at h2; cases h2
          · exact h2.2
        subst hfs0
        refine ⟨x, [], ?_, Or.inr ⟨getPath_cons_none π hnone, rfl⟩⟩
        rw [getPath_cons_some π (dget_dset_self' a _ acc)]
        exact h1
      · refine ⟨x, fs0, ?_, ?_⟩
        · rw [getPath_cons_some π (dget_dset_self' a _ acc)]; exact h1
        · rw [getPath_cons_some π hsome]; exact h2

/-- every node of the accumulated document that is not at or below a finished path is a
    sub-document (created by the expansion) -/
def DocInv (done : Fields) (acc : Fields) : Prop :=
  ∀ π x, getPath π (.doc acc) = some x → (∀ a ∈ done, ¬ splitDots a.1 <+: π) → ∃ fs, x = .doc fs

theorem docInv_nil : DocInv [] [] := by
  intro π x hg _
  cases π with
  | nil => simp only [getPath, Option.some.injEq] at hg; subst hg; exact ⟨[], rfl⟩
  | cons a t => rw [getPath_empty_doc] at hg; cases hg

theorem docInv_step (done acc acc' : Fields) (kv : String × Val) (given inter pre : List String)
    (hex : expandOne given inter kv.2 (splitDots kv.1) pre acc = .ok acc')
    (hI : DocInv done acc) : DocInv (done ++ [kv]) acc' := by
  intro π x hg hnp
  have hnp' : ¬ splitDots kv.1 <+: π := hnp kv (by simp)
  have hdone : ∀ a ∈ done, ¬ splitDots a.1 <+: π := fun a ha => hnp a (by simp [ha])
  by_cases hpre : π <+: splitDots kv.1
  · obtain ⟨t, ht⟩ := hpre
    cases t with
    | nil => rw [List.append_nil] at ht; exact absurd (ht ▸ List.prefix_refl _) hnp'
    | cons k rest =>
      rw [← ht] at hex
      obtain ⟨x', fs0, h1, _⟩ := expandOne_node given inter kv.2 π k rest pre acc acc' hex
      rw [h1] at hg
      cases hg
      exact ⟨_, rfl⟩
  · rw [expandOne_frame given inter kv.2 _ _ _ _ π hex ⟨hnp', hpre⟩] at hg
    exact hI π x hg hdone

/-- the walk either succeeds or raises the WriteError, and it raises only at a stated key -/
theorem expandOne_cases (given inter : List String) (v : Val) : ∀ (p pre : List String) (acc : Fields),
    (∀ i, 0 < i → i < p.length → ∀ x, getPath (p.take i) (.doc acc) = some x →
      (∃ fs, x = .doc fs) ∨
      ∃ j, 0 < j ∧ j ≤ i ∧ given.contains (joinDots (pre ++ p.take j)) = true) →
    (∃ acc', expandOne given inter v p pre acc = .ok acc') ∨
    (expandOne given inter v p pre acc = .error .writeErr ∧
      ∃ i, 0 < i ∧ i < p.length ∧ given.contains (joinDots (pre ++ p.take i)) = true)
  | [], _, _, _ => Or.inl ⟨_, rfl⟩
  | [last], _, _, _ => Or.inl ⟨_, rfl⟩
  | part :: r1 :: rest, pre, acc, H => by
    have hlen : 1 < (part :: r1 :: rest).length := by simp
    by_cases hg : given.contains (joinDots (pre ++ [part])) = true
    · right
      refine ⟨?_, 1, by omega, hlen, by simpa using hg⟩
      simp only [expandOne]
      split
      · rw [if_pos hg]
      · rw [if_pos hg]
      · simp only [hg, Bool.true_or, if_true]
    · have hg' : given.contains (joinDots (pre ++ [part])) = false := by simpa using hg
      -- the recursive call on the node below `part`
      have key : ∀ sub0 : Fields,
          (dget part acc = none ∧ sub0 = [] ∨ dget part acc = some (.doc sub0)) →
          (∃ acc', expandOne given inter v (part :: r1 :: rest) pre acc = .ok acc') ∨
          (expandOne given inter v (part :: r1 :: rest) pre acc = .error .writeErr ∧
            ∃ i, 0 < i ∧ i < (part :: r1 :: rest).length ∧
              given.contains (joinDots (pre ++ (part :: r1 :: rest).take i)) = true) := by
        intro sub0 hcase
        have H' : ∀ i, 0 < i → i < (r1 :: rest).length → ∀ x,
            getPath ((r1 :: rest).take i) (.doc sub0) = some x →
            (∃ fs, x = .doc fs) ∨
            ∃ j, 0 < j ∧ j ≤ i ∧ given.contains (joinDots ((pre ++ [part]) ++ (r1 :: rest).take j)) = true := by
          intro i h0 hi x hx
          rcases hcase with ⟨hnone, rfl⟩ | hsome
          · cases i with
            | zero => omega
            | succ i' => rw [List.take_succ_cons, getPath_empty_doc] at hx; cases hx
          · have hx' : getPath ((part :: r1 :: rest).take (i + 1)) (.doc acc) = some x := by
              rw [List.take_succ_cons, getPath_cons_some _ hsome]; exact hx
            rcases H (i + 1) (by omega) (by simp only [List.length_cons] at hi ⊢; omega) x hx' with h | ⟨j, hj0, hji, hjg⟩
            · exact Or.inl h
            · cases j with
              | zero => omega
              | succ j' =>
                cases j' with
                | zero =>
                  simp only [List.take_succ_cons, List.take_zero] at hjg
                  rw [hg'] at hjg; cases hjg
                | succ j'' =>
                  refine Or.inr ⟨j'' + 1, by omega, by omega, ?_⟩
                  simpa [List.take_succ_cons, List.append_assoc] using hjg
        have hunf : expandOne given inter v (part :: r1 :: rest) pre acc =
            (expandOne given inter v (r1 :: rest) (pre ++ [part]) sub0).bind
              (fun sub => .ok (dset part (.doc sub) acc)) := by
          simp only [expandOne]
          rcases hcase with ⟨hnone, rfl⟩ | hsome
          · simp only [hnone, hg', Bool.false_eq_true, if_false]; rfl
          · simp only [hsome, hg', Bool.false_eq_true, if_false]; rfl
        rcases expandOne_cases given inter v (r1 :: rest) (pre ++ [part]) sub0 H' with ⟨sub, hs⟩ | ⟨he, i, hi0, hil, hig⟩
        · left; rw [hunf, hs]; exact ⟨_, rfl⟩
        · right
          refine ⟨by rw [hunf, he]; rfl, i + 1, by omega, by simp only [List.length_cons] at hil ⊢; omega, ?_⟩
          simpa [List.take_succ_cons, List.append_assoc] using hig
      cases hd : dget part acc with
      | none => exact key [] (Or.inl ⟨hd, rfl⟩)
      | some x =>
        by_cases hdoc : ∃ sub0, x = Val.doc sub0
        · obtain ⟨sub0, rfl⟩ := hdoc
          exact key sub0 (Or.inr hd)
        · exfalso
          have hx : getPath ((part :: r1 :: rest).take 1) (.doc acc) = some x := by
            simp only [List.take_succ_cons, List.take_zero, getPath, hd]
          rcases H 1 (by omega) hlen x hx with ⟨fs, hfs⟩ | ⟨j, hj0, hj1, hjg⟩
          · exact hdoc ⟨fs, hfs⟩
          · have : j = 1 := by omega
            subst this
            simp only [List.take_succ_cons, List.take_zero] at hjg
            rw [hg'] at hjg; cases hjg

/-- the hypothesis of `expandOne_cases` from the invariant of the fold -/
theorem walk_hyp (done acc : Fields) (kv : String × Val) (hI : DocInv done acc) :
    ∀ i, 0 < i → i < (splitDots kv.1).length → ∀ x,
      getPath ((splitDots kv.1).take i) (.doc acc) = some x →
      (∃ fs, x = .doc fs) ∨
      ∃ j, 0 < j ∧ j ≤ i ∧
        (dkeys done ++ [kv.1]).contains (joinDots ([] ++ (splitDots kv.1).take j)) = true := by
  intro i h0 hi x hx
  by_cases hall : ∀ a ∈ done, ¬ splitDots a.1 <+: (splitDots kv.1).take i
  · exact Or.inl (hI _ x hx hall)
  · right
    have : ∃ a ∈ done, splitDots a.1 <+: (splitDots kv.1).take i := by
      apply Classical.byContradiction
      intro hne
      exact hall (fun a ha hp => hne ⟨a, ha, hp⟩)
    obtain ⟨a, ha, hp⟩ := this
    have hpos : 0 < (splitDots a.1).length := List.length_pos_iff.2 (splitDots_ne_nil a.1)
    have hle : (splitDots a.1).length ≤ i := by
      have := hp.length_le
      simp only [List.length_take] at this
      omega
    refine ⟨(splitDots a.1).length, hpos, hle, ?_⟩
    have htake : (splitDots kv.1).take (splitDots a.1).length = splitDots a.1 := by
      obtain ⟨t, ht⟩ := hp
      have h2 : (splitDots a.1) <+: splitDots kv.1 := ⟨t ++ (splitDots kv.1).drop i, by
        rw [← List.append_assoc, ht, List.take_append_drop]⟩
      exact (List.prefix_iff_eq_take.1 h2).symm
    rw [List.nil_append, htake, joinDots_splitDots]
    have : a.1 ∈ dkeys done := List.mem_map.2 ⟨a, ha, rfl⟩
    simp [this]

/-- one step: it succeeds when the new key is incomparable with the finished ones, and fails with
    the WriteError otherwise -/
theorem edStep_cases (done : Fields) (st : Fields × List String × List String) (kv : String × Val)
    (hg : st.2.1 = dkeys done) (hi : st.2.2 = recorded done) (hI : DocInv done st.1) :
    ((∃ st1, edStep st kv = .ok st1) ∨ edStep st kv = .error .writeErr) ∧
    ((∀ a ∈ done, Incomp (splitDots a.1) (splitDots kv.1)) → ∃ st1, edStep st kv = .ok st1) := by
  have hcases := expandOne_cases (st.2.1 ++ [kv.1]) st.2.2 kv.2 (splitDots kv.1) [] st.1
    (by rw [hg]; exact walk_hyp done st.1 kv hI)
  have hunf : ∀ (h1 : st.2.1.contains kv.1 = false) (h2 : st.2.2.contains kv.1 = false),
      edStep st kv = (expandOne (st.2.1 ++ [kv.1]) st.2.2 kv.2 (splitDots kv.1) [] st.1).map
        (fun acc' => (acc', st.2.1 ++ [kv.1], st.2.2 ++ properPrefixes (splitDots kv.1))) := by
    intro h1 h2
    unfold edStep
    simp only [h1, h2, Bool.or_self, Bool.false_eq_true, if_false]
  constructor
  · by_cases h1 : st.2.1.contains kv.1 = true
    · right; unfold edStep; simp only [h1, Bool.true_or, if_true]
    · by_cases h2 : st.2.2.contains kv.1 = true
      · right; unfold edStep; simp only [h2, Bool.or_true, if_true]
      · rw [hunf (by simpa using h1) (by simpa using h2)]
        rcases hcases with ⟨acc', ha⟩ | ⟨he, _⟩
        · left; rw [ha]; exact ⟨_, rfl⟩
        · right; rw [he]; rfl
  · intro hinc
    have h1 : st.2.1.contains kv.1 = false := by
      rw [hg]
      apply Bool.eq_false_iff.2
      intro hc
      have hm : kv.1 ∈ dkeys done := by simpa using hc
      obtain ⟨a, ha, e⟩ := List.mem_map.1 hm
      exact (hinc a ha).1 (by rw [e]; exact List.prefix_refl _)
    have h2 : st.2.2.contains kv.1 = false := by
      rw [hi]
      apply Bool.eq_false_iff.2
      intro hc
      have hm : kv.1 ∈ recorded done := by simpa using hc
      simp only [recorded, List.mem_flatMap] at hm
      obtain ⟨a, ha, hmem⟩ := hm
      obtain ⟨i, h0, hil, e⟩ := mem_properPrefixes.1 hmem
      have : splitDots kv.1 = (splitDots a.1).take i := by rw [e, splitDots_join_take a.1 i h0]
      exact (hinc a ha).2 (by rw [this]; exact List.take_prefix _ _)
    rw [hunf h1 h2]
    rcases hcases with ⟨acc', ha⟩ | ⟨_, i, h0, hil, hig⟩
    · rw [ha]; exact ⟨_, rfl⟩
    · exfalso
      rw [List.nil_append] at hig
      have hm : joinDots ((splitDots kv.1).take i) ∈ st.2.1 ++ [kv.1] := by simpa using hig
      rcases List.mem_append.1 hm with hm | hm
      · rw [hg] at hm
        obtain ⟨a, ha, e⟩ := List.mem_map.1 hm
        have : splitDots a.1 = (splitDots kv.1).take i := by rw [e, splitDots_join_take kv.1 i h0]
        exact (hinc a ha).1 (by rw [this]; exact List.take_prefix _ _)
      · simp only [List.mem_singleton] at hm
        have := congrArg (fun k => (splitDots k).length) hm
        simp only [splitDots_join_take kv.1 i h0, List.length_take] at this
        omega

theorem fold_cases : ∀ (ss done : Fields) (st : Fields × List String × List String),
    st.2.1 = dkeys done → st.2.2 = recorded done → DocInv done st.1 →
    ((∃ st', ss.foldlM edStep st = .ok st') ∨ ss.foldlM edStep st = .error .writeErr) ∧
    (ss.Pairwise (fun a b => Incomp (splitDots a.1) (splitDots b.1)) →
      (∀ a ∈ done, ∀ b ∈ ss, Incomp (splitDots a.1) (splitDots b.1)) →
      ∃ st', ss.foldlM edStep st = .ok st')
  | [], done, st, _, _, _ => ⟨Or.inl ⟨st, rfl⟩, fun _ _ => ⟨st, rfl⟩⟩
  | kv :: ss, done, st, hg, hi, hI => by
    obtain ⟨hc1, hc2⟩ := edStep_cases done st kv hg hi hI
    have hnext : ∀ st1, edStep st kv = .ok st1 →
        ((∃ st', (kv :: ss).foldlM edStep st = .ok st') ∨ (kv :: ss).foldlM edStep st = .error .writeErr) ∧
        (ss.Pairwise (fun a b => Incomp (splitDots a.1) (splitDots b.1)) →
          (∀ a ∈ done ++ [kv], ∀ b ∈ ss, Incomp (splitDots a.1) (splitDots b.1)) →
          ∃ st', (kv :: ss).foldlM edStep st = .ok st') := by
      intro st1 h1
      obtain ⟨_, hg1, hi1⟩ := edStep_incomp done st st1 kv hg hi h1
      obtain ⟨_, _, hex, _, _⟩ := edStep_ok st st1 kv h1
      have hI1 := docInv_step done st.1 st1.1 kv _ _ [] hex hI
      obtain ⟨r1, r2⟩ := fold_cases ss (done ++ [kv]) st1 hg1 hi1 hI1
      rw [List.foldlM_cons, h1]
      exact ⟨r1, r2⟩
    constructor
    · rcases hc1 with ⟨st1, h1⟩ | he
      · exact (hnext st1 h1).1
      · right; rw [List.foldlM_cons, he]; rfl
    · intro hp hc
      obtain ⟨hp1, hp2⟩ := List.pairwise_cons.1 hp
      obtain ⟨st1, h1⟩ := hc2 (fun a ha => hc a ha kv (List.mem_cons_self ..))
      refine (hnext st1 h1).2 hp2 ?_
      intro a ha b hb
      rcases List.mem_append.1 ha with ha | ha
      · exact hc a ha b (List.mem_cons_of_mem _ hb)
      · simp only [List.mem_singleton] at ha; subst ha; exact hp1 b hb

/-- **`_expand_dots` succeeds exactly on prefix-free keys** -/
theorem expand_ok_iff (ss : Fields) : (∃ ex, expandDots ss = .ok ex) ↔ prefixFree ss := by
  constructor
  · rintro ⟨ex, h⟩; exact expand_ok_prefixFree ss ex h
  · intro hp
    obtain ⟨st', h⟩ := (fold_cases ss [] ([], [], []) rfl rfl docInv_nil).2 hp (by simp)
    exact ⟨st'.1, by rw [expandDots_eq, h]; rfl⟩

/-- **… and raises the WriteError 'cannot infer query fields to set' on every other filter** -/
theorem expand_conflict (ss : Fields) (hp : ¬ prefixFree ss) : expandDots ss = .error .writeErr := by
  rcases (fold_cases ss [] ([], [], []) rfl rfl docInv_nil).1 with ⟨st', h⟩ | h
  · exact absurd (expand_ok_prefixFree ss st'.1 (by rw [expandDots_eq, h]; rfl)) hp
  · rw [expandDots_eq, h]; rfl

end MongoModel.Proofs.C13Ext
