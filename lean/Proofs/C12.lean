/-
  Proofs.C12 — entry point of the proofs behind Props/C12.lean.
-/
import Proofs.C12Map
import Proofs.C12Ops
import Proofs.C12Agg
