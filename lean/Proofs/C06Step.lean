/-
  Proofs.C06Step — every operation of `stepColl` keeps the carried invariant `UniqS`.
-/
import Proofs.C06Create
import Proofs.C06Update

set_option linter.unusedSimpArgs false

namespace MongoModel.Proofs.C06Lemmas
open MongoModel MongoModel.Spec
open MongoModel.Proofs.C09Lemmas (step_insert_one step_insert_many step_update_one step_update_many
  step_replace_one step_delete_one step_delete_many step_find step_count step_distinct)

theorem step_uniqS (cfg : Cfg) (now : Int) (c : Coll) (op : Val) (hU : UniqS c) :
    UniqS (stepColl cfg now c op).1 := by
  have hs := stepColl.eq_def cfg now c op
  split at hs
  case h_1 d =>
    clear hs
    simp only [step_insert_one]
    cases d with
    | doc fs =>
      simp only []
      cases hi : insertDoc now c (.doc fs) with
      | ok r => obtain ⟨c', id⟩ := r; exact uniqS_insertDoc hU hi
      | error e => exact uniqS_insErrState _ hU
    | _ => exact hU
  case h_2 ds ordered =>
    clear hs
    simp only [step_insert_many]
    split
    · exact hU
    · split
      · exact hU
      · exact uniqS_insertManyLoop _ _ _ _ _ _ _ _ hU
  case h_3 f u upsert =>
    clear hs
    simp only [step_update_one]
    cases validateUpdate u with
    | error e => exact hU
    | ok x => cases x; exact uniqS_applyUpdate cfg now c _ f u _ _ _ hU rfl
  case h_4 f u upsert =>
    clear hs
    simp only [step_update_many]
    cases validateUpdate u with
    | error e => exact hU
    | ok x => cases x; exact uniqS_applyUpdate cfg now c _ f u _ _ _ hU rfl
  case h_5 f u upsert =>
    clear hs
    simp only [step_replace_one]
    cases validateReplace u with
    | error e => exact hU
    | ok x => cases x; exact uniqS_applyUpdate cfg now c _ f u _ _ _ hU rfl
  case h_6 f => simp only [step_delete_one]; exact hU.sub (sub_delete now c f false)
  case h_7 f => simp only [step_delete_many]; exact hU.sub (sub_delete now c f true)
  case h_8 f => simp only [step_find]; exact hU.sub (sub_find now c f)
  case h_9 f skip limit => simp only [step_count]; exact hU.sub (sub_count now c f skip _)
  case h_10 key f => simp only [step_distinct]; exact hU.sub (sub_distinct now c key f)
  case h_11 keys opts =>
    rw [hs]
    split
    · exact hU
    · exact uniqS_createIndex now c _ hU
  case h_12 name =>
    rw [hs]
    exact uniqS_dropIndex now c name hU
  case h_13 => rw [hs]; exact uniqS_dropIndexes c
  case h_14 => rw [hs]; exact uniqS_drop c
  case h_15 => rw [hs]; exact hU

end MongoModel.Proofs.C06Lemmas
