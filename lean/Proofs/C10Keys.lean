/-
  Proofs.C10Keys — store keys: distinct, symmetric, reflexive; deleting by `_id` removes exactly
  the entries the `_id`s came from.
-/
import Proofs.C10Trans
import Proofs.C10Scan

namespace MongoModel.Proofs.C10Lemmas
open MongoModel MongoModel.Spec

/-- `KeysDistinct` on a list of entries -/
def DK (l : List (Val × Val)) : Prop := l.Pairwise (fun a b => pyEq a.1 b.1 = false)

/-- `GoodKeys` on a list of entries -/
def GK (l : List (Val × Val)) : Prop := ∀ p ∈ l, SymmVal p.1 ∧ pyEq p.1 p.1 = true

/-- `KeyIsId` on a list of entries -/
def KI (l : List (Val × Val)) : Prop := ∀ p ∈ l, ∃ id, idOf p.2 = some id ∧ pyEq p.1 id = true

theorem DK.sublist {l l' : List (Val × Val)} (h : DK l) (hs : l'.Sublist l) : DK l' :=
  List.Pairwise.sublist hs h

theorem GK.subset {l l' : List (Val × Val)} (h : GK l) (hs : ∀ p ∈ l', p ∈ l) : GK l' :=
  fun p hp => h p (hs p hp)

theorem KI.subset {l l' : List (Val × Val)} (h : KI l) (hs : ∀ p ∈ l', p ∈ l) : KI l' :=
  fun p hp => h p (hs p hp)

/-- two entries with `==` keys are the same entry -/
theorem mem_eq_of_pyEq {l : List (Val × Val)} (hd : DK l) (hg : GK l) {p q : Val × Val}
    (hp : p ∈ l) (hq : q ∈ l) (h : pyEq p.1 q.1 = true) : p = q := by
  induction l with
  | nil => cases hp
  | cons a l ih =>
    have hd' := List.pairwise_cons.1 hd
    have hg' : GK l := hg.subset (fun p hp => List.mem_cons_of_mem _ hp)
    rcases List.mem_cons.1 hp with rfl | hp'
    · rcases List.mem_cons.1 hq with rfl | hq'
      · rfl
      · rw [hd'.1 q hq'] at h; cases h
    · rcases List.mem_cons.1 hq with rfl | hq'
      · have := hd'.1 p hp'
        rw [(hg q (List.mem_cons_self ..)).1 p.1, h] at this
        cases this
      · exact ih hd'.2 hg' hp' hq'

/-- a member is what `lookup` finds under its key -/
theorem find_of_mem {l : List (Val × Val)} (hd : DK l) (hg : GK l) {p : Val × Val} (hp : p ∈ l) :
    l.find? (fun q => pyEq q.1 p.1) = some p := by
  cases hf : l.find? (fun q => pyEq q.1 p.1) with
  | none =>
    have := List.find?_eq_none.1 hf p hp
    simp [(hg p hp).2] at this
  | some q =>
    have hq := List.mem_of_find?_eq_some hf
    have hqp : pyEq q.1 p.1 = true := by
      have := List.find?_some hf
      exact this
    rw [mem_eq_of_pyEq hd hg hq hp hqp]

/-! ### deleting -/

theorem foldl_delDoc_docs (keys : List Val) (c : Coll) :
    (keys.foldl (fun acc k => acc.delDoc k) c).docs =
      c.docs.filter (fun p => !keys.any (fun k => pyEq p.1 k)) := by
  induction keys generalizing c with
  | nil =>
    simp only [List.foldl_nil, List.any_nil, Bool.not_false]
    exact (List.filter_eq_self.2 (fun _ _ => rfl)).symm
  | cons k ks ih =>
    rw [List.foldl_cons, ih]
    simp only [Coll.delDoc, List.filter_filter]
    apply List.filter_congr
    intro p _
    simp only [List.any_cons, Bool.not_or]
    exact Bool.and_comm _ _

theorem idOf_eq : (fun d : Val => match d with | .doc fs => dget "_id" fs | _ => none) = idOf := by
  funext d; cases d <;> rfl

/-- the `_id`s of entries stored under their `_id`: one per entry, `==` to the entry's key -/
theorem ids_of (vs : List (Val × Val)) (hk : KI vs) (hg : GK vs) :
    ((vs.map (·.2)).filterMap idOf).length = vs.length ∧
    ∀ p : Val × Val, SymmVal p.1 →
      ((vs.map (·.2)).filterMap idOf).any (fun k => pyEq p.1 k) =
        vs.any (fun q => pyEq q.1 p.1) := by
  induction vs with
  | nil => simp
  | cons q vs ih =>
    obtain ⟨id, hid, hq⟩ := hk q (List.mem_cons_self ..)
    obtain ⟨ih1, ih2⟩ := ih (hk.subset (fun p hp => List.mem_cons_of_mem _ hp))
      (hg.subset (fun p hp => List.mem_cons_of_mem _ hp))
    rw [List.map_cons, List.filterMap_cons_some hid]
    refine ⟨by simp only [List.length_cons, ih1], ?_⟩
    intro p hp
    rw [List.any_cons, List.any_cons, ih2 p hp]
    congr 1
    have hsq := (hg q (List.mem_cons_self ..)).1
    rw [Bool.eq_iff_iff]
    constructor
    · intro h
      have h1 : pyEq id q.1 = true := by rw [← hsq id]; exact hq
      rw [hsq p.1]
      exact pyEq_trans _ _ _ h h1
    · intro h
      rw [hsq p.1] at h
      exact pyEq_trans _ _ _ h hq

/-- removing the entries `==` to a sublist of entries removes exactly as many -/
theorem remove_sublist_length {l vs : List (Val × Val)} (hs : vs.Sublist l) (hd : DK l) (hg : GK l) :
    (l.filter (fun p => !vs.any (fun q => pyEq q.1 p.1))).length + vs.length = l.length := by
  induction hs with
  | slnil => rfl
  | @cons vs l a hs ih =>
    have hd' := List.pairwise_cons.1 hd
    have hg' : GK l := hg.subset (fun p hp => List.mem_cons_of_mem _ hp)
    have ha : vs.any (fun q => pyEq q.1 a.1) = false := by
      rw [List.any_eq_false]
      intro q hq
      rw [← (hg a (List.mem_cons_self ..)).1 q.1, hd'.1 q (hs.subset hq)]
      simp
    rw [List.filter_cons, ha]
    simp only [Bool.not_false, if_true, List.length_cons]
    have := ih hd'.2 hg'
    omega
  | @cons_cons vs l a hs ih =>
    have hd' := List.pairwise_cons.1 hd
    have hg' : GK l := hg.subset (fun p hp => List.mem_cons_of_mem _ hp)
    have haa := (hg a (List.mem_cons_self ..)).2
    rw [List.filter_cons]
    simp only [List.any_cons, haa, Bool.true_or, Bool.not_true, Bool.false_eq_true, if_false,
      List.length_cons]
    have hc : l.filter (fun p => !(pyEq a.1 p.1 || vs.any (fun q => pyEq q.1 p.1))) =
        l.filter (fun p => !vs.any (fun q => pyEq q.1 p.1)) := by
      apply List.filter_congr
      intro p hp
      rw [hd'.1 p hp, Bool.false_or]
    rw [hc]
    have := ih hd'.2 hg'
    omega

/-- the whole of a delete: entries `vs` (a sublist of the store, stored under their `_id`s) are
    the victims -/
theorem delete_victims (c1 : Coll) (vs : List (Val × Val)) (hs : vs.Sublist c1.docs)
    (hd : DK c1.docs) (hg : GK c1.docs) (hk : KI c1.docs) :
    let keys := (vs.map (·.2)).filterMap idOf
    keys.length = vs.length ∧
    (keys.foldl (fun acc k => acc.delDoc k) c1).docs =
      c1.docs.filter (fun p => !vs.any (fun q => pyEq q.1 p.1)) ∧
    (keys.foldl (fun acc k => acc.delDoc k) c1).docs.length + vs.length = c1.docs.length := by
  intro keys
  have hkeys : keys = (vs.map (·.2)).filterMap idOf := rfl
  obtain ⟨h1, h2⟩ := ids_of vs (hk.subset (fun p hp => hs.subset hp))
    (hg.subset (fun p hp => hs.subset hp))
  have hdocs : (keys.foldl (fun acc k => acc.delDoc k) c1).docs =
      c1.docs.filter (fun p => !vs.any (fun q => pyEq q.1 p.1)) := by
    rw [foldl_delDoc_docs, hkeys]
    apply List.filter_congr
    intro p hp
    rw [h2 p (hg p hp).1]
  refine ⟨by rw [hkeys, h1], hdocs, ?_⟩
  rw [hdocs]
  exact remove_sublist_length hs hd hg

end MongoModel.Proofs.C10Lemmas
