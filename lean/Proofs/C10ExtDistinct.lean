/-
  Proofs.C10ExtDistinct — `distinct` reads its values from exactly the selected documents.
-/
import Mathlib.Data.List.Forall2
import Spec.CountsExt
import Proofs.C10

namespace MongoModel.Proofs.C10Ext
open MongoModel MongoModel.Spec
open MongoModel.Proofs.C10Lemmas MongoModel.Proofs.C09Lemmas

/-! ### the three nested loops of `distinctColl` -/

def addStep (acc : List Val) (x : Val) : R (List Val) :=
  if !hashableKey x then .error .typeErr else pure (if pyIn x acc then acc else acc ++ [x])

def addItems (acc : List Val) (items : List Val) : R (List Val) := items.foldlM addStep acc

def candItems (cv : Option Val) : List Val :=
  match cv with
  | none => []
  | some (.arr xs) => xs
  | some x => [x]

def addCands (acc : List Val) (cs : List (Option Val)) : R (List Val) :=
  cs.foldlM (fun acc cv =>
    match cv with
    | none => pure acc
    | some v => addItems acc (match v with | .arr xs => xs | x => [x])) acc

def distinctFold (key : String) (ms : List Val) (acc : List Val) : R (List Val) :=
  ms.foldlM (fun acc d => do
    let cs ← candsKey key d
    addCands acc cs) acc

theorem distinctColl_eq (now : Int) (c : Coll) (key : String) (filter : Val) :
    distinctColl now c key filter =
      match findColl now c filter with
      | (c1, .error e) => (c1, .error e)
      | (c1, .ok ms) => (c1, distinctFold key ms []) := rfl

theorem distinctItems_eq (key : String) (d : Val) :
    distinctItems key d = (candsKey key d).map (fun cs => cs.flatMap candItems) := by
  unfold distinctItems
  congr 1

theorem addItems_nil (acc : List Val) : addItems acc [] = .ok acc := rfl

theorem addItems_cons (acc : List Val) (x : Val) (xs : List Val) :
    addItems acc (x :: xs) = (addStep acc x).bind (fun a => addItems a xs) := by
  unfold addItems
  rw [List.foldlM_cons]
  rfl

theorem addItems_append (acc : List Val) (a b : List Val) :
    addItems acc (a ++ b) = (addItems acc a).bind (fun acc' => addItems acc' b) := by
  induction a generalizing acc with
  | nil => rfl
  | cons x xs ih =>
    rw [List.cons_append, addItems_cons, addItems_cons]
    cases addStep acc x with
    | error e => rfl
    | ok a' => exact ih a'

theorem addCands_eq (acc : List Val) (cs : List (Option Val)) :
    addCands acc cs = addItems acc (cs.flatMap candItems) := by
  induction cs generalizing acc with
  | nil => rfl
  | cons cv cs ih =>
    unfold addCands
    rw [List.foldlM_cons, List.flatMap_cons, addItems_append]
    cases cv with
    | none =>
      simp only [candItems, addItems_nil]
      exact ih acc
    | some v =>
      have hv : (match v with | .arr xs => xs | x => [x]) = candItems (some v) := by
        cases v <;> rfl
      simp only [hv, bind, Except.bind]
      cases addItems acc (candItems (some v)) with
      | error e => rfl
      | ok a' => exact ih a'

theorem distinctFold_cons (key : String) (d : Val) (ms : List Val) (acc : List Val) :
    distinctFold key (d :: ms) acc =
      (candsKey key d).bind (fun cs =>
        (addItems acc (cs.flatMap candItems)).bind (fun a => distinctFold key ms a)) := by
  unfold distinctFold
  rw [List.foldlM_cons]
  simp only [bind, Except.bind]
  cases candsKey key d with
  | error e => rfl
  | ok cs =>
    dsimp only
    rw [addCands_eq]

theorem items_ok_iff (key : String) (d : Val) (its : List Val) :
    distinctItems key d = .ok its ↔ ∃ cs, candsKey key d = .ok cs ∧ its = cs.flatMap candItems := by
  rw [distinctItems_eq]
  cases candsKey key d with
  | error e => simp [Except.map]
  | ok cs => simp [Except.map, eq_comm]

/-- the whole fold succeeds iff every document yields its items and adding them all succeeds -/
theorem distinctFold_ok (key : String) (l : List (Val × Val)) (acc vs : List Val) :
    distinctFold key (l.map (·.2)) acc = .ok vs ↔
      ∃ iss, List.Forall₂ (fun (p : Val × Val) its => distinctItems key p.2 = .ok its) l iss ∧
        addItems acc iss.flatten = .ok vs := by
  induction l generalizing acc with
  | nil =>
    constructor
    · intro h
      exact ⟨[], .nil, h⟩
    · rintro ⟨iss, hf, h⟩
      cases hf
      exact h
  | cons p l ih =>
    rw [List.map_cons, distinctFold_cons]
    constructor
    · intro h
      cases hc : candsKey key p.2 with
      | error e => rw [hc] at h; cases h
      | ok cs =>
        rw [hc] at h
        simp only [Except.bind] at h
        cases ha : addItems acc (cs.flatMap candItems) with
        | error e => rw [ha] at h; cases h
        | ok a' =>
          rw [ha] at h
          obtain ⟨iss, hf, h2⟩ := (ih a').1 h
          refine ⟨cs.flatMap candItems :: iss,
            .cons ((items_ok_iff key p.2 _).2 ⟨cs, hc, rfl⟩) hf, ?_⟩
          rw [List.flatten_cons, addItems_append, ha]
          exact h2
    · rintro ⟨iss, hf, h⟩
      cases hf with
      | @cons _ its _ iss' h1 h2 =>
        obtain ⟨cs, hc, rfl⟩ := (items_ok_iff key p.2 its).1 h1
        rw [hc]
        simp only [Except.bind]
        rw [List.flatten_cons, addItems_append] at h
        cases ha : addItems acc (cs.flatMap candItems) with
        | error e => rw [ha] at h; cases h
        | ok a' =>
          rw [ha] at h
          exact (ih a').2 ⟨iss', h2, h⟩

/-! ### adding items = de-duplicating, provided every item is hashable -/

def dstep (acc : List Val) (x : Val) : List Val := if pyIn x acc then acc else acc ++ [x]

theorem dedupe_eq (xs : List Val) : dedupe xs = xs.foldl dstep [] := rfl

theorem addItems_ok (acc items vs : List Val) :
    addItems acc items = .ok vs ↔
      (∀ x ∈ items, hashableKey x = true) ∧ vs = items.foldl dstep acc := by
  induction items generalizing acc with
  | nil =>
    simp only [addItems_nil, Except.ok.injEq, List.not_mem_nil, false_imp_iff, implies_true,
      true_and, List.foldl_nil]
    exact eq_comm
  | cons x xs ih =>
    rw [addItems_cons]
    unfold addStep
    cases hx : hashableKey x with
    | false =>
      simp only [Bool.not_false, if_true, Except.bind]
      constructor
      · intro h; cases h
      · rintro ⟨h, _⟩
        have := h x (List.mem_cons_self ..)
        rw [hx] at this; cases this
    | true =>
      simp only [Bool.not_true, Bool.false_eq_true, if_false, pure, Except.pure, Except.bind]
      rw [ih, List.foldl_cons]
      constructor
      · rintro ⟨h1, h2⟩
        refine ⟨?_, h2⟩
        intro y hy
        rcases List.mem_cons.1 hy with rfl | hy
        · exact hx
        · exact h1 y hy
      · rintro ⟨h1, h2⟩
        exact ⟨fun y hy => h1 y (List.mem_cons_of_mem _ hy), h2⟩

/-! ### properties of the de-duplication -/

theorem dfold_props (items acc : List Val) :
    (∀ x ∈ items.foldl dstep acc, x ∈ acc ∨ x ∈ items) ∧
    (∀ x ∈ acc, x ∈ items.foldl dstep acc) ∧
    (∀ x ∈ items, x ∈ items.foldl dstep acc ∨ pyIn x (items.foldl dstep acc) = true) ∧
    (acc.Pairwise (fun a b => pyEq a b = false) →
      (items.foldl dstep acc).Pairwise (fun a b => pyEq a b = false)) := by
  induction items generalizing acc with
  | nil => exact ⟨fun x hx => .inl hx, fun x hx => hx, fun x hx => absurd hx List.not_mem_nil, fun h => h⟩
  | cons y ys ih =>
    rw [List.foldl_cons]
    obtain ⟨h1, h2, h3, h4⟩ := ih (dstep acc y)
    have hsub : ∀ x ∈ acc, x ∈ dstep acc y := by
      intro x hx
      unfold dstep
      split
      · exact hx
      · exact List.mem_append_left _ hx
    refine ⟨?_, fun x hx => h2 x (hsub x hx), ?_, ?_⟩
    · intro x hx
      rcases h1 x hx with h | h
      · unfold dstep at h
        split at h
        · exact .inl h
        · rcases List.mem_append.1 h with h | h
          · exact .inl h
          · rw [List.mem_singleton] at h
            exact .inr (h ▸ List.mem_cons_self ..)
      · exact .inr (List.mem_cons_of_mem _ h)
    · intro x hx
      rcases List.mem_cons.1 hx with rfl | hx
      · by_cases hin : pyIn x acc = true
        · right
          unfold pyIn at hin ⊢
          rw [List.any_eq_true] at hin ⊢
          obtain ⟨a, ha, hax⟩ := hin
          exact ⟨a, h2 a (hsub a ha), hax⟩
        · left
          apply h2
          unfold dstep
          rw [if_neg hin]
          exact List.mem_append_right _ (List.mem_singleton.2 rfl)
      · exact h3 x hx
    · intro hp
      apply h4
      unfold dstep
      split
      · exact hp
      · rename_i hin
        rw [List.pairwise_append]
        refine ⟨hp, List.pairwise_singleton _ _, ?_⟩
        intro a ha b hb
        rw [List.mem_singleton] at hb
        subst hb
        unfold pyIn at hin
        rw [Bool.not_eq_true, List.any_eq_false] at hin
        have := hin a ha
        simpa using this

/-! ### the theorems -/

theorem distinct_on_selection (now : Int) (c c1 : Coll) (key : String) (fs : Fields)
    (sel : List (Val × Val)) (he : expire now c = .ok c1) (hne : c1.docs ≠ [])
    (hs : selectDocs (patchDT (.doc fs)) c1.docs = .ok sel) :
    (distinctColl now c key (.doc fs)).2 = distinctFold key (sel.map (·.2)) [] := by
  rw [distinctColl_eq]
  simp only [findColl]
  rw [iter_eq now c c1 _ he hne, hs]
  rfl

theorem distinct_raises_with_find (now : Int) (c : Coll) (key : String) (f : Val) (e : Err)
    (h : (findColl now c f).2 = .error e) : (distinctColl now c key f).2 = .error e := by
  rw [distinctColl_eq]
  generalize findColl now c f = r at h
  obtain ⟨c1, r⟩ := r
  cases r with
  | error e' => exact h
  | ok ms => cases h

theorem distinct_exact (now : Int) (c c1 : Coll) (key : String) (fs : Fields)
    (sel : List (Val × Val)) (vs : List Val) (he : expire now c = .ok c1) (hne : c1.docs ≠ [])
    (hs : selectDocs (patchDT (.doc fs)) c1.docs = .ok sel)
    (h : (distinctColl now c key (.doc fs)).2 = .ok vs) :
    ∃ iss, List.Forall₂ (fun (p : Val × Val) its => distinctItems key p.2 = .ok its) sel iss ∧
      (∀ x ∈ iss.flatten, hashableKey x = true) ∧ vs = dedupe iss.flatten := by
  rw [distinct_on_selection now c c1 key fs sel he hne hs, distinctFold_ok] at h
  obtain ⟨iss, hf, ha⟩ := h
  rw [addItems_ok] at ha
  exact ⟨iss, hf, ha.1, ha.2⟩

theorem forall₂_of_forall {α β} {R : α → β → Prop} (l : List α) (h : ∀ a ∈ l, ∃ b, R a b) :
    ∃ bs, List.Forall₂ R l bs := by
  induction l with
  | nil => exact ⟨[], .nil⟩
  | cons a l ih =>
    obtain ⟨b, hb⟩ := h a (List.mem_cons_self ..)
    obtain ⟨bs, hbs⟩ := ih (fun x hx => h x (List.mem_cons_of_mem _ hx))
    exact ⟨b :: bs, .cons hb hbs⟩

theorem forall₂_mem_left {α β} {R : α → β → Prop} {l : List α} {bs : List β}
    (h : List.Forall₂ R l bs) : ∀ a ∈ l, ∃ b ∈ bs, R a b := by
  induction h with
  | nil => intro a ha; cases ha
  | cons hab _ ih =>
    intro x hx
    rcases List.mem_cons.1 hx with rfl | hx
    · exact ⟨_, List.mem_cons_self .., hab⟩
    · obtain ⟨b, hb, hr⟩ := ih x hx
      exact ⟨b, List.mem_cons_of_mem _ hb, hr⟩

theorem forall₂_mem_right {α β} {R : α → β → Prop} {l : List α} {bs : List β}
    (h : List.Forall₂ R l bs) : ∀ b ∈ bs, ∃ a ∈ l, R a b := by
  induction h with
  | nil => intro a ha; cases ha
  | cons hab _ ih =>
    intro x hx
    rcases List.mem_cons.1 hx with rfl | hx
    · exact ⟨_, List.mem_cons_self .., hab⟩
    · obtain ⟨a, ha, hr⟩ := ih x hx
      exact ⟨a, List.mem_cons_of_mem _ ha, hr⟩

theorem distinct_answers_iff (now : Int) (c c1 : Coll) (key : String) (fs : Fields)
    (sel : List (Val × Val)) (he : expire now c = .ok c1) (hne : c1.docs ≠ [])
    (hs : selectDocs (patchDT (.doc fs)) c1.docs = .ok sel) :
    (∃ vs, (distinctColl now c key (.doc fs)).2 = .ok vs) ↔
      ∀ p ∈ sel, ∃ its, distinctItems key p.2 = .ok its ∧ ∀ x ∈ its, hashableKey x = true := by
  rw [distinct_on_selection now c c1 key fs sel he hne hs]
  constructor
  · rintro ⟨vs, h⟩
    rw [distinctFold_ok] at h
    obtain ⟨iss, hf, ha⟩ := h
    rw [addItems_ok] at ha
    intro p hp
    obtain ⟨its, hits, hr⟩ := forall₂_mem_left hf p hp
    exact ⟨its, hr, fun x hx => ha.1 x (List.mem_flatten.2 ⟨its, hits, hx⟩)⟩
  · intro h
    obtain ⟨iss, hf⟩ := forall₂_of_forall (R := fun (p : Val × Val) its =>
      distinctItems key p.2 = .ok its ∧ ∀ x ∈ its, hashableKey x = true) sel h
    refine ⟨iss.flatten.foldl dstep [], ?_⟩
    rw [distinctFold_ok]
    refine ⟨iss, hf.imp (fun _ _ h => h.1), ?_⟩
    rw [addItems_ok]
    refine ⟨?_, rfl⟩
    intro x hx
    obtain ⟨its, hits, hx⟩ := List.mem_flatten.1 hx
    obtain ⟨p, _, hr⟩ := forall₂_mem_right hf its hits
    exact hr.2 x hx

theorem distinct_eq_find (now : Int) (c c1 : Coll) (key : String) (fs : Fields)
    (sel : List (Val × Val)) (vs : List Val) (he : expire now c = .ok c1) (hne : c1.docs ≠ [])
    (hs : selectDocs (patchDT (.doc fs)) c1.docs = .ok sel)
    (h : (distinctColl now c key (.doc fs)).2 = .ok vs) :
    (∀ x ∈ vs, ∃ p ∈ sel, ∃ its, distinctItems key p.2 = .ok its ∧ x ∈ its) ∧
    (∀ p ∈ sel, ∃ its, distinctItems key p.2 = .ok its ∧
      ∀ x ∈ its, x ∈ vs ∨ pyIn x vs = true) ∧
    vs.Pairwise (fun a b => pyEq a b = false) := by
  obtain ⟨iss, hf, _, rfl⟩ := distinct_exact now c c1 key fs sel vs he hne hs h
  rw [dedupe_eq]
  obtain ⟨h1, _, h3, h4⟩ := dfold_props iss.flatten []
  refine ⟨?_, ?_, h4 .nil⟩
  · intro x hx
    rcases h1 x hx with h | h
    · cases h
    · obtain ⟨its, hits, hx⟩ := List.mem_flatten.1 h
      obtain ⟨p, hp, hr⟩ := forall₂_mem_right hf its hits
      exact ⟨p, hp, its, hr, hx⟩
  · intro p hp
    obtain ⟨its, hits, hr⟩ := forall₂_mem_left hf p hp
    exact ⟨its, hr, fun x hx => h3 x (List.mem_flatten.2 ⟨its, hits, hx⟩)⟩

end MongoModel.Proofs.C10Ext
