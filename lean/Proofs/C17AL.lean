/-
  Proofs.C17AL — association-list lemmas for the catalog model (Python dicts as lists).
-/
import Spec.CatalogDomain

set_option linter.unusedSectionVars false

namespace MongoModel.Proofs.C17
open MongoModel MongoModel.Catalog

section AL
variable {α : Type} [DecidableEq α] {β : Type}

theorem alGet?_upsert (k k' : α) (v : β) (l : List (α × β)) :
    alGet? k' (alUpsert k v l) = if k' = k then some v else alGet? k' l := by
  induction l with
  | nil =>
    by_cases h : k' = k
    · subst h; simp [alUpsert, alGet?]
    · have h' : ¬ k = k' := fun e => h e.symm
      simp [alUpsert, alGet?, h, h']
  | cons p r ih =>
    obtain ⟨a, b⟩ := p
    by_cases hak : a = k
    · subst hak
      by_cases h : k' = a
      · subst h; simp [alUpsert, alGet?]
      · have h' : ¬ a = k' := fun e => h e.symm
        simp [alUpsert, alGet?, h, h']
    · simp only [alUpsert, hak, if_false, alGet?]
      by_cases hak' : a = k'
      · subst hak'; simp [hak]
      · simp [hak', ih]

theorem alGet?_erase (k k' : α) (l : List (α × β)) :
    alGet? k' (alErase k l) = if k' = k then none else alGet? k' l := by
  induction l with
  | nil => simp [alErase, alGet?]
  | cons p r ih =>
    obtain ⟨a, b⟩ := p
    by_cases hak : a = k
    · subst hak
      by_cases h : k' = a
      · subst h; simp [alErase, ih]
      · have h' : ¬ a = k' := fun e => h e.symm
        simp [alErase, alGet?, ih, h, h']
    · simp only [alErase, hak, if_false, alGet?]
      by_cases hak' : a = k'
      · subst hak'; simp [hak]
      · simp [hak', ih]

theorem alGet?_append (k : α) (l l' : List (α × β)) :
    alGet? k (l ++ l') = (alGet? k l).orElse (fun _ => alGet? k l') := by
  induction l with
  | nil => simp [alGet?]
  | cons p r ih =>
    obtain ⟨a, b⟩ := p
    by_cases h : a = k <;> simp [alGet?, h, ih]

theorem alGet?_isSome_iff (k : α) (l : List (α × β)) :
    (alGet? k l).isSome = true ↔ k ∈ alKeys l := by
  induction l with
  | nil => simp [alGet?, alKeys]
  | cons p r ih =>
    obtain ⟨a, b⟩ := p
    by_cases h : a = k
    · simp [alGet?, alKeys, h]
    · have h' : ¬ k = a := fun e => h e.symm
      simp only [alGet?, h, if_false, ih]
      simp [alKeys, h']

theorem alGet?_eq_none_iff (k : α) (l : List (α × β)) :
    alGet? k l = none ↔ k ∉ alKeys l := by
  rw [← alGet?_isSome_iff]; cases alGet? k l <;> simp

theorem alGet?_mem {k : α} {v : β} {l : List (α × β)} (h : alGet? k l = some v) : (k, v) ∈ l := by
  induction l with
  | nil => simp [alGet?] at h
  | cons p r ih =>
    obtain ⟨a, b⟩ := p
    by_cases hk : a = k
    · simp [alGet?, hk] at h; subst hk; subst h; simp
    · simp [alGet?, hk] at h; exact List.mem_cons_of_mem _ (ih h)

theorem alGet?_of_mem {k : α} {v : β} {l : List (α × β)} (hn : (alKeys l).Nodup)
    (h : (k, v) ∈ l) : alGet? k l = some v := by
  induction l with
  | nil => simp at h
  | cons p r ih =>
    obtain ⟨a, b⟩ := p
    simp only [alKeys, List.map_cons, List.nodup_cons] at hn
    rcases List.mem_cons.mp h with h | h
    · cases h; simp [alGet?]
    · have hk : k ∈ r.map (·.1) := List.mem_map.mpr ⟨(k, v), h, rfl⟩
      have : a ≠ k := fun e => hn.1 (e ▸ hk)
      simp [alGet?, this, ih hn.2 h]

theorem alKeys_upsert (k : α) (v : β) (l : List (α × β)) :
    alKeys (alUpsert k v l) = if k ∈ alKeys l then alKeys l else alKeys l ++ [k] := by
  induction l with
  | nil => simp [alUpsert, alKeys]
  | cons p r ih =>
    obtain ⟨a, b⟩ := p
    by_cases h : a = k
    · subst h; simp [alUpsert, alKeys]
    · have h' : ¬ k = a := fun e => h e.symm
      simp only [alKeys] at ih
      simp only [alUpsert, h, if_false, alKeys, List.map_cons, List.mem_cons, h', false_or, ih]
      split <;> simp [*]

theorem nodup_upsert (k : α) (v : β) (l : List (α × β)) (h : (alKeys l).Nodup) :
    (alKeys (alUpsert k v l)).Nodup := by
  rw [alKeys_upsert]
  split
  · exact h
  · rename_i hk
    exact List.nodup_append.mpr ⟨h, by simp, by
      intro a ha b hb; simp at hb; subst hb; intro e; exact hk (e ▸ ha)⟩

theorem alErase_eq_filter (k : α) (l : List (α × β)) :
    alErase k l = l.filter (fun p => p.1 ≠ k) := by
  induction l with
  | nil => rfl
  | cons p r ih =>
    obtain ⟨a, b⟩ := p
    by_cases h : a = k <;> simp [alErase, h, ih]

theorem alKeys_erase (k : α) (l : List (α × β)) :
    alKeys (alErase k l) = (alKeys l).filter (· ≠ k) := by
  rw [alErase_eq_filter]; simp [alKeys, List.filter_map]; rfl

theorem nodup_erase (k : α) (l : List (α × β)) (h : (alKeys l).Nodup) :
    (alKeys (alErase k l)).Nodup := by
  rw [alKeys_erase]; exact h.filter _

theorem nodup_filter (p : α × β → Bool) (l : List (α × β)) (h : (alKeys l).Nodup) :
    (alKeys (l.filter p)).Nodup := by
  unfold alKeys at *
  exact h.sublist ((List.filter_sublist (l := l)).map _)

theorem alGet?_filter_key (q : α → Bool) (k : α) (l : List (α × β)) :
    alGet? k (l.filter (fun p => q p.1)) = if q k then alGet? k l else none := by
  induction l with
  | nil => simp [alGet?]
  | cons p r ih =>
    obtain ⟨a, b⟩ := p
    by_cases hq : q a = true
    · by_cases h : a = k
      · subst h; simp [List.filter, hq, alGet?]
      · simp [List.filter, hq, alGet?, h, ih]
    · by_cases h : a = k
      · subst h; simp [List.filter, hq, ih]
      · simp [List.filter, hq, alGet?, h, ih]

/-- mapping the values leaves the keys alone -/
theorem alGet?_mapVal (f : α → β → β) (k : α) (l : List (α × β)) :
    alGet? k (l.map (fun p => (p.1, f p.1 p.2))) = (alGet? k l).map (f k) := by
  induction l with
  | nil => simp [alGet?]
  | cons p r ih =>
    obtain ⟨a, b⟩ := p
    by_cases h : a = k
    · subst h; simp [alGet?]
    · simp [alGet?, h, ih]

theorem alKeys_mapVal (f : α → β → β) (l : List (α × β)) :
    alKeys (l.map (fun p => (p.1, f p.1 p.2))) = alKeys l := by
  simp [alKeys, List.map_map]

end AL

end MongoModel.Proofs.C17
