/-
  Proofs.C04Spec9 — `eval_eq_spec`, part 9: the strict operators applied to a list of operands.
-/
import Proofs.C04Spec8

set_option linter.unusedSimpArgs false
set_option linter.unnecessarySeqFocus false

namespace MongoModel.Proofs.C04
open MongoModel MongoModel.Expr MongoModel.Spec

theorem mode_shaped_arr (k : String) (xs : List Val)
    (hk : k ∈ ["$add", "$multiply", "$subtract", "$divide", "$mod", "$pow", "$eq", "$ne", "$gt",
      "$gte", "$lt", "$lte", "$size", "$concatArrays", "$concat", "$arrayElemAt", "$and", "$or",
      "$cond", "$ifNull"]) : mode k (.arr xs) = .shaped := by
  simp only [List.mem_cons, List.mem_nil_iff, or_false] at hk
  rcases hk with rfl | rfl | rfl | rfl | rfl | rfl | rfl | rfl | rfl | rfl | rfl | rfl | rfl | rfl
    | rfl | rfl | rfl | rfl | rfl | rfl <;>
  simp [mode, dateOps, datePartOps, wholeOps, unaryArithOps, groupingOps]

/-- `$add`, `$multiply` -/
theorem nary_case (c : Ctx) (hign : c.ign = true) (k : String) (hk : k = "$add" ∨ k = "$multiply")
    (xs : List Val) (vs : List (Option Val)) (h1 : xs.map (eval c) = vs.map .ok)
    (r : Option Val) (hs : applyStrict k vs = .ok r) :
    eval c (.doc [(k, .arr xs)]) = .ok r := by
  cases h2 : arithN k vs with
  | error e =>
    rcases hk with rfl | rfl <;> simp [applyStrict, h2, Except.map] at hs
  | ok w =>
    have hw : r = some w := by
      rcases hk with rfl | rfl <;> simp [applyStrict, h2, Except.map] at hs <;> exact hs.symm
    subst hw
    have hp := nary_pure k hk vs w h2
    have hcls : classify k = .arith := by rcases hk with rfl | rfl <;> decide
    have hm : mode k (.arr xs) = .shaped := mode_shaped_arr k xs (by rcases hk with rfl | rfl <;> simp)
    have har : arityErr k xs.length = none := by
      rcases hk with rfl | rfl <;> simp [arityErr, binaryArithOps, comparisonOps]
    have hl : listOps.contains k = true := by rcases hk with rfl | rfl <;> decide
    have hpm : nullOnMissing true k = true := by rcases hk with rfl | rfl <;> decide
    rw [eval_list c k xs .arith hcls (by simp) (by simp) (by simp) hm har hl]
    rw [hign, hpm, evalList_ok c true xs vs h1, allSome_manyTrue]
    rcases hk with rfl | rfl <;> simp [Except.bind, applyList, hp, Except.map]

theorem map_eq_two {α β} (f : α → β) (xs : List α) (a b : β) (h : xs.map f = [a, b]) :
    ∃ x y, xs = [x, y] ∧ f x = a ∧ f y = b := by
  match xs, h with
  | [x, y], h => simp at h; exact ⟨x, y, rfl, h.1, h.2⟩

/-- `$subtract`, `$divide`, `$mod`, `$pow` -/
theorem binary_case (c : Ctx) (hign : c.ign = true) (k : String)
    (hk : k = "$subtract" ∨ k = "$divide" ∨ k = "$mod" ∨ k = "$pow")
    (xs : List Val) (vs : List (Option Val)) (h1 : xs.map (eval c) = vs.map .ok)
    (hr : strictReasons k vs = []) (r : Option Val) (hs : applyStrict k vs = .ok r) :
    eval c (.doc [(k, .arr xs)]) = .ok r := by
  match vs, hs, hr, h1 with
  | [a, b], hs, hr, h1 =>
    have hs' : (arith2 k a b).map some = .ok r := by
      rcases hk with rfl | rfl | rfl | rfl <;> simpa [applyStrict] using hs
    cases h2 : arith2 k a b with
    | error e => simp [h2, Except.map] at hs'
    | ok w =>
      simp [h2, Except.map] at hs'; subst hs'
      have hp := binary_pure k hk a b w h2
      have hlen : xs.length = 2 := by simpa using congrArg List.length h1
      have hcls : classify k = .arith := by rcases hk with rfl | rfl | rfl | rfl <;> decide
      have hm : mode k (.arr xs) = .shaped :=
        mode_shaped_arr k xs (by rcases hk with rfl | rfl | rfl | rfl <;> simp)
      have har : arityErr k xs.length = none := by
        rw [hlen]; rcases hk with rfl | rfl | rfl | rfl <;> decide
      have hl : listOps.contains k = true := by rcases hk with rfl | rfl | rfl | rfl <;> decide
      have hpm : nullOnMissing true k = true := by rcases hk with rfl | rfl | rfl | rfl <;> decide
      have hbin : binaryArithOps.contains k = true := by
        rcases hk with rfl | rfl | rfl | rfl <;> decide
      have hnot : (k = "$add" || k = "$multiply") = false := by
        rcases hk with rfl | rfl | rfl | rfl <;> decide
      rw [eval_list c k xs .arith hcls (by simp) (by simp) (by simp) hm har hl]
      rw [hign, hpm, evalList_ok c true xs [a, b] h1, allSome_manyTrue]
      have hbin' : k ∈ binaryArithOps := by simpa using hbin
      have hnot' : ¬ (k = "$add" ∨ k = "$multiply") := by simpa using hnot
      simp [Except.bind, applyList, hnot', hbin', nulled, hp, Except.map]
  | [], hs, _, _ => rcases hk with rfl | rfl | rfl | rfl <;> simp [applyStrict] at hs
  | [_], hs, _, _ => rcases hk with rfl | rfl | rfl | rfl <;> simp [applyStrict] at hs
  | _ :: _ :: _ :: _, hs, _, _ => rcases hk with rfl | rfl | rfl | rfl <;> simp [applyStrict] at hs

/-- how `eval` runs a comparison: both operands through `_parse_or_nothing`, then `compareOpt` -/
theorem eval_cmp (c : Ctx) (k : String)
    (hk : k = "$eq" ∨ k = "$ne" ∨ k = "$gt" ∨ k = "$gte" ∨ k = "$lt" ∨ k = "$lte")
    (xs : List Val) (hlen : xs.length = 2) :
    eval c (.doc [(k, .arr xs)]) =
      (evalAll c xs).bind (fun rs =>
        match rs with
        | [a, b] => (compareOpt k a b).map some
        | _ => .error .other) := by
  have hcls : classify k = .comparison := by
    rcases hk with rfl | rfl | rfl | rfl | rfl | rfl <;> decide
  have hm : mode k (.arr xs) = .shaped :=
    mode_shaped_arr k xs (by rcases hk with rfl | rfl | rfl | rfl | rfl | rfl <;> simp)
  have har : arityErr k xs.length = none := by
    rw [hlen]; rcases hk with rfl | rfl | rfl | rfl | rfl | rfl <;> decide
  have hl : ¬ k ∈ listOps := by
    rcases hk with rfl | rfl | rfl | rfl | rfl | rfl <;> decide
  have hcmp : k ∈ comparisonOps := by
    rcases hk with rfl | rfl | rfl | rfl | rfl | rfl <;> decide
  have hand : ¬ k = "$and" := by rcases hk with rfl | rfl | rfl | rfl | rfl | rfl <;> decide
  have hor : ¬ k = "$or" := by rcases hk with rfl | rfl | rfl | rfl | rfl | rfl <;> decide
  have hcond : ¬ k = "$cond" := by rcases hk with rfl | rfl | rfl | rfl | rfl | rfl <;> decide
  have hifn : ¬ k = "$ifNull" := by rcases hk with rfl | rfl | rfl | rfl | rfl | rfl <;> decide
  have hsize : ¬ k = "$size" := by rcases hk with rfl | rfl | rfl | rfl | rfl | rfl <;> decide
  have hslice : ¬ k = "$slice" := by rcases hk with rfl | rfl | rfl | rfl | rfl | rfl <;> decide
  have hu : unaryListOps.contains k = false := by
    rcases hk with rfl | rfl | rfl | rfl | rfl | rfl <;> decide
  rw [eval_shaped c k _ (by rw [hcls]; simp) (by rw [hcls]; simp) (by rw [hcls]; simp) hu
    (Or.inr rfl) hm]
  simp only [evalOp, har, List.contains_eq_mem, hl, hcmp,
    decide_false, decide_true, hand, hor, hcond, hifn, hsize, hslice, if_true, bind, Except.bind]
  cases evalAll c xs with
  | error e => rfl
  | ok rs => rfl

/-- a comparison with a missing operand: missing sorts below everything, on both sides -/
theorem compare_missing (k : String)
    (hk : k = "$eq" ∨ k = "$ne" ∨ k = "$gt" ∨ k = "$gte" ∨ k = "$lt" ∨ k = "$lte")
    (a b : Option Val) (hm : a = none ∨ b = none) :
    compareOpt k a b = cmpHoldsOrd k (ordOpt a b) := by
  rcases hk with rfl | rfl | rfl | rfl | rfl | rfl <;>
    cases a <;> cases b <;> simp at hm <;> simp [compareOpt, cmpHoldsOrd, ordOpt]

/-- `$eq $ne $gt $gte $lt $lte` -/
theorem compare_case (c : Ctx) (k : String)
    (hk : k = "$eq" ∨ k = "$ne" ∨ k = "$gt" ∨ k = "$gte" ∨ k = "$lt" ∨ k = "$lte")
    (xs : List Val) (vs : List (Option Val)) (h1 : xs.map (eval c) = vs.map .ok)
    (hr : strictReasons k vs = []) (r : Option Val) (hs : applyStrict k vs = .ok r) :
    eval c (.doc [(k, .arr xs)]) = .ok r := by
  match vs, hs, hr, h1 with
  | [a, b], hs, hr, h1 =>
    have hs' : (cmpHoldsOrd k (ordOpt a b)).map some = .ok r := by
      rcases hk with rfl | rfl | rfl | rfl | rfl | rfl <;> simpa [applyStrict] using hs
    have hlen : xs.length = 2 := by simpa using congrArg List.length h1
    have hp : compareOpt k a b = cmpHoldsOrd k (ordOpt a b) := by
      cases a with
      | none => exact compare_missing k hk none b (Or.inl rfl)
      | some x =>
        cases b with
        | none => exact compare_missing k hk (some x) none (Or.inr rfl)
        | some y => simpa [compareOpt, ordOpt] using compare_pure k hk x y hr
    rw [eval_cmp c k hk xs hlen, evalAll_ok c xs [a, b] h1]
    simp only [Except.bind, hp, hs']
  | [], hs, _, _ =>
    rcases hk with rfl | rfl | rfl | rfl | rfl | rfl <;> simp [applyStrict] at hs
  | [_], hs, _, _ =>
    rcases hk with rfl | rfl | rfl | rfl | rfl | rfl <;> simp [applyStrict] at hs
  | _ :: _ :: _ :: _, hs, _, _ =>
    rcases hk with rfl | rfl | rfl | rfl | rfl | rfl <;> simp [applyStrict] at hs

end MongoModel.Proofs.C04
