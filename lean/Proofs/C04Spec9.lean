/-
  Proofs.C04Spec9 — `eval_eq_spec`, part 9: the strict operators applied to a list of operands.
-/
import Proofs.C04Spec8

set_option linter.unusedSimpArgs false
set_option linter.unnecessarySeqFocus false

namespace MongoModel.Proofs.C04
open MongoModel MongoModel.Expr MongoModel.Spec

theorem mode_shaped_arr (k : String) (xs : List Val)
    (hk : k ∈ ["$add", "$multiply", "$subtract", "$divide", "$mod", "$pow", "$eq", "$ne", "$gt",
      "$gte", "$lt", "$lte", "$size", "$concatArrays", "$concat", "$arrayElemAt", "$and", "$or",
      "$cond", "$ifNull"]) : mode k (.arr xs) = .shaped := by
  simp only [List.mem_cons, List.mem_nil_iff, or_false] at hk
  rcases hk with rfl | rfl | rfl | rfl | rfl | rfl | rfl | rfl | rfl | rfl | rfl | rfl | rfl | rfl
    | rfl | rfl | rfl | rfl | rfl | rfl <;>
  simp [mode, dateOps, datePartOps, wholeOps, unaryArithOps, groupingOps]

/-- what `strictReasons = []` says for an arithmetic operator -/
theorem arith_reasons (k : String) (hin : arithOps.contains k = true) (vs : List (Option Val))
    (hr : strictReasons k vs = []) :
    vs.any isBoolO = false ∧
    (((k = "$mod" || k = "$pow") && vs.all isIntO) = false) ∧
    ((["$ceil", "$floor", "$trunc"].contains k && vs.any isDblO) = false) ∧
    ((k = "$add" && vs.any isDateO) = false) := by
  unfold strictReasons at hr
  rw [if_pos hin] at hr
  simp only [List.append_eq_nil_iff, ite_nil] at hr
  exact ⟨hr.1.1.1, hr.1.1.2, hr.1.2, hr.2⟩

theorem numbers_no_date (vs : List (Option Val)) (ns : List PyNum) (h : numbers vs = some ns) :
    vs.any isDateO = false := by
  induction vs generalizing ns with
  | nil => rfl
  | cons v r ih =>
    cases v with
    | none => simp [numbers] at h
    | some x =>
      simp only [numbers] at h
      cases hx : number x with
      | none => simp [hx] at h
      | some n =>
        cases hr : numbers r with
        | none => simp [hx, hr] at h
        | some ms =>
          have := ih ms hr
          cases x <;> simp [number] at hx <;> simp [isDateO, this]

theorem mul_no_date (vs : List (Option Val)) (w : Val) (h : arithN "$multiply" vs = .ok w) :
    vs.any isDateO = false := by
  unfold arithN at h
  split at h
  · simp [unmodelled] at h
  · split at h
    · split at h
      · rename_i hall
        apply List.any_eq_false.mpr
        intro o ho hdte
        cases o with
        | none => simp [isDateO] at hdte
        | some x =>
          cases x <;> simp [isDateO] at hdte
          have := List.all_eq_true.mp hall _ (List.mem_filter.mpr ⟨ho, by simp [nullish]⟩)
          simp [number] at this
      · simp [unmodelled] at h
    · cases hn : numbers vs with
      | some ns => exact numbers_no_date vs ns hn
      | none => simp [hn] at h

/-- `$add`, `$multiply` -/
theorem nary_case (c : Ctx) (hign : c.ign = true) (k : String) (hk : k = "$add" ∨ k = "$multiply")
    (xs : List Val) (vs : List (Option Val)) (h1 : xs.map (eval c) = vs.map .ok)
    (hr : strictReasons k vs = []) (r : Option Val) (hs : applyStrict k vs = .ok r) :
    eval c (.doc [(k, .arr xs)]) = .ok r := by
  cases h2 : arithN k vs with
  | error e =>
    rcases hk with rfl | rfl <;> simp [applyStrict, h2, Except.map] at hs
  | ok w =>
    have hw : r = some w := by
      rcases hk with rfl | rfl <;> simp [applyStrict, h2, Except.map] at hs <;> exact hs.symm
    subst hw
    have hd : vs.any isDateO = false := by
      rcases hk with rfl | rfl
      · have := (arith_reasons "$add" (by decide) vs hr).2.2.2
        simpa using this
      · exact mul_no_date vs w h2
    have hp := nary_pure k hk vs hd w h2
    have hcls : classify k = .arith := by rcases hk with rfl | rfl <;> decide
    have hm : mode k (.arr xs) = .shaped := mode_shaped_arr k xs (by rcases hk with rfl | rfl <;> simp)
    have har : arityErr k xs.length = none := by
      rcases hk with rfl | rfl <;> simp [arityErr, binaryArithOps, comparisonOps]
    have hl : listOps.contains k = true := by rcases hk with rfl | rfl <;> decide
    have hpm : usesParseMany k = true := by rcases hk with rfl | rfl <;> decide
    rw [eval_list c k xs .arith hcls (by simp) (by simp) (by simp) hm har hl]
    rw [hpm, hign, Bool.and_self, evalList_ok c true xs vs h1, allSome_manyTrue]
    rcases hk with rfl | rfl <;> simp [Except.bind, applyList, hp, Except.map]

theorem map_eq_two {α β} (f : α → β) (xs : List α) (a b : β) (h : xs.map f = [a, b]) :
    ∃ x y, xs = [x, y] ∧ f x = a ∧ f y = b := by
  match xs, h with
  | [x, y], h => simp at h; exact ⟨x, y, rfl, h.1, h.2⟩

/-- `$subtract`, `$divide`, `$mod`, `$pow` -/
theorem binary_case (c : Ctx) (hign : c.ign = true) (k : String)
    (hk : k = "$subtract" ∨ k = "$divide" ∨ k = "$mod" ∨ k = "$pow")
    (xs : List Val) (vs : List (Option Val)) (h1 : xs.map (eval c) = vs.map .ok)
    (hr : strictReasons k vs = []) (r : Option Val) (hs : applyStrict k vs = .ok r) :
    eval c (.doc [(k, .arr xs)]) = .ok r := by
  match vs, hs, hr, h1 with
  | [a, b], hs, hr, h1 =>
    have hs' : (arith2 k a b).map some = .ok r := by
      rcases hk with rfl | rfl | rfl | rfl <;> simpa [applyStrict] using hs
    cases h2 : arith2 k a b with
    | error e => simp [h2, Except.map] at hs'
    | ok w =>
      simp [h2, Except.map] at hs'; subst hs'
      have hin : arithOps.contains k = true := by rcases hk with rfl | rfl | rfl | rfl <;> decide
      obtain ⟨rb, rint, _, _⟩ := arith_reasons k hin [a, b] hr
      have hbb : isBoolO b = false := by
        simp only [List.any_cons, List.any_nil, Bool.or_false, Bool.or_eq_false_iff] at rb
        exact rb.2
      have hint : (k = "$mod" ∨ k = "$pow") → ¬ (isIntO a = true ∧ isIntO b = true) := by
        intro hmp ⟨ia, ib⟩
        rcases hmp with rfl | rfl <;> simp [ia, ib] at rint
      have hp := binary_pure k hk a b hbb hint w h2
      have hlen : xs.length = 2 := by simpa using congrArg List.length h1
      have hcls : classify k = .arith := by rcases hk with rfl | rfl | rfl | rfl <;> decide
      have hm : mode k (.arr xs) = .shaped :=
        mode_shaped_arr k xs (by rcases hk with rfl | rfl | rfl | rfl <;> simp)
      have har : arityErr k xs.length = none := by
        rw [hlen]; rcases hk with rfl | rfl | rfl | rfl <;> decide
      have hl : listOps.contains k = true := by rcases hk with rfl | rfl | rfl | rfl <;> decide
      have hpm : usesParseMany k = true := by rcases hk with rfl | rfl | rfl | rfl <;> decide
      have hbin : binaryArithOps.contains k = true := by
        rcases hk with rfl | rfl | rfl | rfl <;> decide
      have hnot : (k = "$add" || k = "$multiply") = false := by
        rcases hk with rfl | rfl | rfl | rfl <;> decide
      rw [eval_list c k xs .arith hcls (by simp) (by simp) (by simp) hm har hl]
      rw [hpm, hign, Bool.and_self, evalList_ok c true xs [a, b] h1, allSome_manyTrue]
      have hbin' : k ∈ binaryArithOps := by simpa using hbin
      have hnot' : ¬ (k = "$add" ∨ k = "$multiply") := by simpa using hnot
      simp [Except.bind, applyList, hnot', hbin', nulled, hp, Except.map]
  | [], hs, _, _ => rcases hk with rfl | rfl | rfl | rfl <;> simp [applyStrict] at hs
  | [_], hs, _, _ => rcases hk with rfl | rfl | rfl | rfl <;> simp [applyStrict] at hs
  | _ :: _ :: _ :: _, hs, _, _ => rcases hk with rfl | rfl | rfl | rfl <;> simp [applyStrict] at hs

/-- `$eq $ne $gt $gte $lt $lte` -/
theorem compare_case (c : Ctx) (k : String)
    (hk : k = "$eq" ∨ k = "$ne" ∨ k = "$gt" ∨ k = "$gte" ∨ k = "$lt" ∨ k = "$lte")
    (xs : List Val) (vs : List (Option Val)) (h1 : xs.map (eval c) = vs.map .ok)
    (hr : strictReasons k vs = []) (r : Option Val) (hs : applyStrict k vs = .ok r) :
    eval c (.doc [(k, .arr xs)]) = .ok r := by
  have hna : arithOps.contains k = false := by
    rcases hk with rfl | rfl | rfl | rfl | rfl | rfl <;> decide
  have hc6 : ["$eq", "$ne", "$gt", "$gte", "$lt", "$lte"].contains k = true := by
    rcases hk with rfl | rfl | rfl | rfl | rfl | rfl <;> decide
  match vs, hs, hr, h1 with
  | [some a, some b], hs, hr, h1 =>
    have hs' : (cmpHoldsOrd k (ord a b)).map some = .ok r := by
      rcases hk with rfl | rfl | rfl | rfl | rfl | rfl <;> simpa [applyStrict, ordOpt] using hs
    have hp := compare_pure k hk a b hr
    have hlen : xs.length = 2 := by simpa using congrArg List.length h1
    have hcls : classify k = .comparison := by
      rcases hk with rfl | rfl | rfl | rfl | rfl | rfl <;> decide
    have hm : mode k (.arr xs) = .shaped :=
      mode_shaped_arr k xs (by rcases hk with rfl | rfl | rfl | rfl | rfl | rfl <;> simp)
    have har : arityErr k xs.length = none := by
      rw [hlen]; rcases hk with rfl | rfl | rfl | rfl | rfl | rfl <;> decide
    have hl : listOps.contains k = true := by
      rcases hk with rfl | rfl | rfl | rfl | rfl | rfl <;> decide
    have hpm : usesParseMany k = false := by
      rcases hk with rfl | rfl | rfl | rfl | rfl | rfl <;> decide
    have hcmp : comparisonOps.contains k = true := by
      rcases hk with rfl | rfl | rfl | rfl | rfl | rfl <;> decide
    have hnot : (k = "$add" || k = "$multiply") = false := by
      rcases hk with rfl | rfl | rfl | rfl | rfl | rfl <;> decide
    have hnb : binaryArithOps.contains k = false := by
      rcases hk with rfl | rfl | rfl | rfl | rfl | rfl <;> decide
    rw [eval_list c k xs .comparison hcls (by simp) (by simp) (by simp) hm har hl]
    rw [hpm, Bool.false_and, evalList_ok c false xs [some a, some b] h1]
    have hcmp' : k ∈ comparisonOps := by simpa using hcmp
    have hnb' : k ∉ binaryArithOps := by simpa using hnb
    have hnot' : ¬ (k = "$add" ∨ k = "$multiply") := by simpa using hnot
    simp [allSome, manyItem, Except.bind, applyList, hnot', hnb', hcmp', hp, hs']
  | [none, _], _, hr, _ =>
    exfalso
    unfold strictReasons at hr
    rw [if_neg (by simpa using hna), if_pos hc6] at hr
    simp at hr
  | [some _, none], _, hr, _ =>
    exfalso
    unfold strictReasons at hr
    rw [if_neg (by simpa using hna), if_pos hc6] at hr
    simp at hr
  | [], hs, _, _ =>
    rcases hk with rfl | rfl | rfl | rfl | rfl | rfl <;> simp [applyStrict] at hs
  | [_], hs, _, _ =>
    rcases hk with rfl | rfl | rfl | rfl | rfl | rfl <;> simp [applyStrict] at hs
  | _ :: _ :: _ :: _, hs, _, _ =>
    rcases hk with rfl | rfl | rfl | rfl | rfl | rfl <;> simp [applyStrict] at hs

end MongoModel.Proofs.C04
