/-
  Proofs.C10ExtBulk — the counters of a successful bulk are the sums of the sizes of the
  selections of its requests, each taken on the collection the request runs on.
-/
import Proofs.C10ExtCount
import Proofs.C15Loop

namespace MongoModel.Proofs.C10Ext
open MongoModel MongoModel.Spec
open MongoModel.Proofs.C15Lemmas

theorem selectedCount_ok (now : Int) (c : Coll) (f : Val) (n : Nat)
    (h : selectedCount now c f = .ok n) :
    ∃ c1 sel, expire now c = .ok c1 ∧ selectDocs (patchDT f) c1.docs = .ok sel ∧ n = sel.length := by
  unfold selectedCount at h
  cases he : expire now c with
  | error e => rw [he] at h; cases h
  | ok c1 =>
    rw [he] at h
    simp only [bind, Except.bind] at h
    cases hs : selectDocs (patchDT f) c1.docs with
    | error e => rw [hs] at h; cases h
    | ok sel =>
      rw [hs] at h
      simp only [pure, Except.pure, Except.ok.injEq] at h
      exact ⟨c1, sel, rfl, hs, h.symm⟩

theorem map_ok {α β} {x : R α} {g : α → β} {b : β} (h : x.map g = .ok b) : ∃ a, x = .ok a ∧ g a = b := by
  cases x with
  | error e => cases h
  | ok a => simp only [Except.map, Except.ok.injEq] at h; exact ⟨a, rfl, h⟩

/-- what the totals gain: `a` matched, `b` removed, `i` inserted, nothing else -/
def Adds (g : BulkTotals → BulkTotals) (a b i : Nat) : Prop :=
  ∀ t, (g t).nMatched = t.nMatched + a ∧ (g t).nRemoved = t.nRemoved + b ∧
    (g t).nInserted = t.nInserted + i ∧ (g t).nUpserted = t.nUpserted ∧
    (g t).upserted = t.upserted ∧ (g t).errors = t.errors

theorem upd_adds (cfg : Cfg) (now : Int) (c c' : Coll) (idx : Nat) (f u : Val) (multi : Bool)
    (g : BulkTotals → BulkTotals) (n : Nat) (hi : IdInv c) (hg : GoodKeys c)
    (hc : selectedCount now c f = .ok n)
    (h : (match applyUpdateColl cfg now c f u false multi with
      | (c', r) =>
        match r with
        | .error e => (c', if e.isWriteError then BulkOut.writeErr e else .abort e)
        | .ok res => (c', .ok (updFun idx res))) = (c', .ok g)) :
    Adds g (if multi then n else min n 1) 0 0 := by
  obtain ⟨c1, sel, he, hs, rfl⟩ := selectedCount_ok now c f n hc
  cases ha : applyUpdateColl cfg now c f u false multi with
  | mk c2 r =>
    rw [ha] at h
    cases r with
    | error e => dsimp only at h; split at h <;> cases h
    | ok res =>
      cases h
      have hdoc : ∃ fs, f = .doc fs := by
        cases f with
        | doc fs => exact ⟨fs, rfl⟩
        | _ => simp [applyUpdateColl, patchDT, patch] at ha
      obtain ⟨fs, rfl⟩ := hdoc
      obtain ⟨h1, _, h3⟩ := update_count_all cfg now c c1 c' fs u sel res multi he hi.1 hg hs ha
      intro t
      unfold updFun
      rw [h3]
      dsimp only
      refine ⟨?_, by omega, by omega, rfl, rfl, rfl⟩
      rw [h1]

theorem del_adds (now : Int) (c c' : Coll) (q : Val) (multi : Bool)
    (g : BulkTotals → BulkTotals) (n : Nat) (hi : IdInv c) (hg : GoodKeys c)
    (hc : selectedCount now c q = .ok n)
    (h : (match bulkOne.deleteBulk now c q multi with
     | (c', .ok n) => (c', BulkOut.ok (fun t => { t with nRemoved := t.nRemoved + n }))
     | (c', .error e) => (c', if e.isWriteError then .writeErr e else .abort e)) = (c', .ok g)) :
    Adds g 0 (if multi then n else min n 1) 0 := by
  obtain ⟨c1, sel, he, hs, rfl⟩ := selectedCount_ok now c q n hc
  unfold bulkOne.deleteBulk at h
  split at h
  · rename_i c2 m hd
    split at hd
    · rename_i fs
      cases hdc : deleteColl now c (.doc fs) multi with
      | mk c3 r =>
        rw [hdc] at hd
        cases r with
        | error e => cases hd
        | ok k =>
          simp only [Except.map, bind, Except.bind, pure, Except.pure, Prod.mk.injEq,
            Except.ok.injEq] at hd
          obtain ⟨_, rfl⟩ := hd
          cases h
          have := delete_count_all now c c1 fs sel multi k he hi hg hs (by rw [hdc])
          intro t
          dsimp only
          refine ⟨by omega, ?_, by omega, rfl, rfl, rfl⟩
          rw [this]
    · cases hd
  · split at h <;> cases h

theorem one_adds (cfg : Cfg) (now : Int) (c c' : Coll) (idx : Nat) (r : Val)
    (g : BulkTotals → BulkTotals) (a b : Nat) (hi : IdInv c) (hg : GoodKeys c)
    (hu : noUpsert r = true) (hc : requestCounts now c r = .ok (a, b))
    (h : bulkOne cfg now c idx r = (c', .ok g)) :
    Adds g a b (if isInsertOne r then 1 else 0) := by
  unfold bulkOne at h
  split at h
  · -- InsertOne
    simp only [requestCounts] at hc
    obtain ⟨rfl, rfl⟩ := hc
    split at h
    · cases h
      intro t
      simp [isInsertOne]
    · split at h <;> cases h
    · cases h
  · rename_i f u up
    simp only [noUpsert, Bool.not_eq_true'] at hu
    rw [hu] at h
    obtain ⟨n, hn, hab⟩ := map_ok (show (selectedCount now c f).map (fun n => (min n 1, 0)) = .ok (a, b) from hc)
    simp only [Prod.mk.injEq] at hab
    obtain ⟨rfl, rfl⟩ := hab
    exact upd_adds cfg now c c' idx f u false g n hi hg hn h
  · rename_i f u up
    simp only [noUpsert, Bool.not_eq_true'] at hu
    rw [hu] at h
    obtain ⟨n, hn, hab⟩ := map_ok (show (selectedCount now c f).map (fun n => (n, 0)) = .ok (a, b) from hc)
    simp only [Prod.mk.injEq] at hab
    obtain ⟨rfl, rfl⟩ := hab
    exact upd_adds cfg now c c' idx f u true g n hi hg hn h
  · rename_i f u up
    simp only [noUpsert, Bool.not_eq_true'] at hu
    rw [hu] at h
    obtain ⟨n, hn, hab⟩ := map_ok (show (selectedCount now c f).map (fun n => (min n 1, 0)) = .ok (a, b) from hc)
    simp only [Prod.mk.injEq] at hab
    obtain ⟨rfl, rfl⟩ := hab
    exact upd_adds cfg now c c' idx f u false g n hi hg hn h
  · rename_i f
    obtain ⟨n, hn, hab⟩ := map_ok (show (selectedCount now c f).map (fun n => (0, min n 1)) = .ok (a, b) from hc)
    simp only [Prod.mk.injEq] at hab
    obtain ⟨rfl, rfl⟩ := hab
    exact del_adds now c c' f false g n hi hg hn h
  · rename_i f
    obtain ⟨n, hn, hab⟩ := map_ok (show (selectedCount now c f).map (fun n => (0, n)) = .ok (a, b) from hc)
    simp only [Prod.mk.injEq] at hab
    obtain ⟨rfl, rfl⟩ := hab
    exact del_adds now c c' f true g n hi hg hn h
  · cases h

/-- once a write error was collected the bulk cannot answer a value -/
theorem bulk_errs_noval (cfg : Cfg) (now : Int) (ordered : Bool) :
    ∀ (reqs : List Val) (idx : Nat) (c : Coll) (t : BulkTotals) (c' : Coll) (out : Val),
      t.errors ≠ [] → bulkLoop cfg now ordered reqs idx c t ≠ (c', .val out) := by
  intro reqs
  induction reqs with
  | nil =>
    intro idx c t c' out hne h
    rw [bulkLoop] at h
    split at h
    · rename_i hemp
      exact hne (List.isEmpty_iff.1 hemp)
    · cases h
  | cons r rest ih =>
    intro idx c t c' out hne h
    rw [loop_cons] at h
    cases hb : bulkOne cfg now c idx r with
    | mk c2 o =>
      rw [hb] at h
      cases o with
      | ok g =>
        refine ih _ _ _ _ _ ?_ h
        rw [ok_errors (one_ok cfg now c c2 idx r g hb)]
        exact hne
      | writeErr e =>
        dsimp only at h
        split at h
        · cases h
        · exact ih _ _ _ _ _ (by simp) h
      | abort e => cases h

/-- the invariant along the one-at-a-time states -/
def AlongInv (cfg : Cfg) (now : Int) (reqs : List Val) (c : Coll) : Prop :=
  ∀ k < reqs.length, IdInv (seqOps cfg now ((reqs.take k).map asSingle) c) ∧
    GoodKeys (seqOps cfg now ((reqs.take k).map asSingle) c)

theorem bulk_loop_counts (cfg : Cfg) (now : Int) (ordered : Bool) :
    ∀ (reqs : List Val) (idx : Nat) (c : Coll) (t : BulkTotals) (c' : Coll) (out : Val) (M D : Nat),
      reqs.all plainRequest = true → bulkPrecheck reqs = .ok () → reqs.all noUpsert = true →
      AlongInv cfg now reqs c → bulkCounts cfg now reqs c = .ok (M, D) →
      bulkLoop cfg now ordered reqs idx c t = (c', .val out) →
      ∃ t' : BulkTotals, out = t'.toVal ∧ t'.nMatched = t.nMatched + M ∧
        t'.nRemoved = t.nRemoved + D ∧ t'.nInserted = t.nInserted + (reqs.filter isInsertOne).length ∧
        t'.nUpserted = t.nUpserted ∧ t'.upserted = t.upserted ∧ t'.errors = [] := by
  intro reqs
  induction reqs with
  | nil =>
    intro idx c t c' out M D _ _ _ _ hc h
    simp only [bulkCounts, Except.ok.injEq, Prod.mk.injEq] at hc
    obtain ⟨rfl, rfl⟩ := hc
    rw [bulkLoop] at h
    split at h
    · rename_i hemp
      cases h
      exact ⟨t, rfl, by simp, by simp, by simp, rfl, rfl, List.isEmpty_iff.1 hemp⟩
    · cases h
  | cons r rest ih =>
    intro idx c t c' out M D hp hv hu hinv hc h
    obtain ⟨hp1, hpr⟩ := plain_cons hp
    obtain ⟨hv1, hvr⟩ := precheck_cons hv
    simp only [List.all_cons, Bool.and_eq_true] at hu
    obtain ⟨hu1, hur⟩ := hu
    obtain ⟨hi, hg⟩ := hinv 0 (by simp)
    simp only [List.take_zero, List.map_nil] at hi hg
    have hi' : IdInv c := hi
    have hg' : GoodKeys c := hg
    -- the counts of the head and of the tail
    simp only [bulkCounts, bind, Except.bind] at hc
    cases hc1 : requestCounts now c r with
    | error e => rw [hc1] at hc; cases hc
    | ok ab =>
      obtain ⟨a, b⟩ := ab
      rw [hc1] at hc
      dsimp only at hc
      cases hc2 : bulkCounts cfg now rest (stepColl cfg now c (asSingle r)).1 with
      | error e => rw [hc2] at hc; cases hc
      | ok MD =>
        obtain ⟨M2, D2⟩ := MD
        rw [hc2] at hc
        simp only [pure, Except.pure, Except.ok.injEq, Prod.mk.injEq] at hc
        obtain ⟨rfl, rfl⟩ := hc
        rw [loop_cons] at h
        cases hb : bulkOne cfg now c idx r with
        | mk c2 o =>
          rw [hb] at h
          have hc2' : c2 = (stepColl cfg now c (asSingle r)).1 := by
            rw [← one_fst cfg now c idx hp1 hv1, hb]
          cases o with
          | ok g =>
            dsimp only at h
            have hadd := one_adds cfg now c c2 idx r g a b hi' hg' hu1 hc1 hb
            have hinv2 : AlongInv cfg now rest c2 := by
              intro k hk
              have := hinv (k + 1) (by simp; omega)
              rw [hc2']
              exact this
            rw [← hc2'] at hc2
            obtain ⟨t', e1, e2, e3, e4, e5, e6, e7⟩ := ih (idx + 1) c2 (g t) c' out M2 D2 hpr hvr hur
              hinv2 hc2 h
            obtain ⟨g1, g2, g3, g4, g5, _⟩ := hadd t
            refine ⟨t', e1, ?_, ?_, ?_, by rw [e5, g4], by rw [e6, g5], e7⟩
            · rw [e2, g1]; push_cast; omega
            · rw [e3, g2]; push_cast; omega
            · rw [e4, g3, List.filter_cons]
              split <;> (simp; try omega)
          | writeErr e =>
            exfalso
            dsimp only at h
            split at h
            · cases h
            · exact bulk_errs_noval cfg now ordered _ _ _ _ _ _ (by simp) h
          | abort e => cases h

theorem bulk_counts_eq_selection (cfg : Cfg) (now : Int) (c c' : Coll) (reqs : List Val)
    (ordered : Bool) (out : Val) (M D : Nat)
    (hp : reqs.all plainRequest = true) (hu : reqs.all noUpsert = true)
    (hinv : AlongInv cfg now reqs c)
    (hc : bulkCounts cfg now reqs c = .ok (M, D))
    (h : bulkWrite cfg now c reqs ordered = (c', .val out)) :
    ∃ t : BulkTotals, out = t.toVal ∧ t.nMatched = M ∧ t.nRemoved = D ∧
      t.nInserted = (reqs.filter isInsertOne).length ∧ t.nUpserted = 0 ∧ t.upserted = [] ∧
      t.errors = [] := by
  unfold bulkWrite at h
  cases hv : bulkPrecheck reqs with
  | error e => rw [hv] at h; cases h
  | ok x =>
    rw [hv] at h
    dsimp only at h
    split at h
    · cases h
    · obtain ⟨t, e1, e2, e3, e4, e5, e6, e7⟩ := bulk_loop_counts cfg now ordered reqs 0 c {} c' out M D
        hp hv hu hinv hc h
      exact ⟨t, e1, by simpa using e2, by simpa using e3, by simpa using e4, e5, e6, e7⟩

end MongoModel.Proofs.C10Ext
