/-
  Proofs.C15Once — the bulk builder is executed at most once, and never empty.
-/
import MongoModel.FindModify

namespace MongoModel.Proofs.C15Once
open MongoModel

theorem execute_empty (cfg : Cfg) (now : Int) (c : Coll) (b : Builder) (h : b.reqs = []) :
    b.execute cfg now c = (c, b, .err .invalidOp) := by
  simp [Builder.execute, h]

theorem execute_done (cfg : Cfg) (now : Int) (c : Coll) (b : Builder) (h : b.done = true) :
    b.execute cfg now c = (c, b, .err .invalidOp) := by
  unfold Builder.execute
  split
  · rfl
  · simp [h]

theorem execute_fresh (cfg : Cfg) (now : Int) (c : Coll) (b : Builder) (hne : b.reqs ≠ [])
    (h : b.done = false) :
    b.execute cfg now c = ((bulkLoop cfg now b.ordered b.reqs 0 c {}).1, { b with done := true },
      (bulkLoop cfg now b.ordered b.reqs 0 c {}).2) := by
  unfold Builder.execute
  have : b.reqs.isEmpty = false := by
    cases hr : b.reqs with
    | nil => exact absurd hr hne
    | cons _ _ => rfl
  simp [this, h]

/-- after any `execute` of a non-empty builder the flag is set — whether the run succeeded,
    raised BulkWriteError or was aborted by another exception -/
theorem execute_sets_done (cfg : Cfg) (now : Int) (c : Coll) (b : Builder) (hne : b.reqs ≠ []) :
    (b.execute cfg now c).2.1.done = true := by
  cases hd : b.done with
  | true => rw [execute_done cfg now c b hd]; exact hd
  | false => rw [execute_fresh cfg now c b hne hd]

theorem execute_keeps_reqs (cfg : Cfg) (now : Int) (c : Coll) (b : Builder) :
    (b.execute cfg now c).2.1.reqs = b.reqs ∧ (b.execute cfg now c).2.1.ordered = b.ordered := by
  unfold Builder.execute
  split
  · exact ⟨rfl, rfl⟩
  · split <;> exact ⟨rfl, rfl⟩

/-- every `execute` after the first is refused and changes nothing -/
theorem second_execute (cfg : Cfg) (now now' : Int) (c : Coll) (b : Builder) :
    let r := b.execute cfg now c
    r.2.1.execute cfg now' r.1 = (r.1, r.2.1, .err .invalidOp) := by
  intro r
  cases hr : b.reqs with
  | nil =>
    have : r = (c, b, .err .invalidOp) := execute_empty cfg now c b hr
    rw [this]
    exact execute_empty cfg now' c b hr
  | cons x xs =>
    have hne : b.reqs ≠ [] := by rw [hr]; exact List.cons_ne_nil _ _
    exact execute_done cfg now' r.1 r.2.1 (execute_sets_done cfg now c b hne)

theorem executeTimes_succ (cfg : Cfg) (now : Int) (n : Nat) (c : Coll) (b : Builder) :
    executeTimes cfg now (n + 1) c b =
      ((executeTimes cfg now n (b.execute cfg now c).1 (b.execute cfg now c).2.1).1,
       (b.execute cfg now c).2.2 :: (executeTimes cfg now n (b.execute cfg now c).1 (b.execute cfg now c).2.1).2) :=
  rfl

/-- a builder that refuses once refuses for ever -/
theorem executeTimes_refused (cfg : Cfg) (now : Int) (n : Nat) (c : Coll) (b : Builder)
    (h : b.execute cfg now c = (c, b, .err .invalidOp)) :
    executeTimes cfg now n c b = (c, List.replicate n (.err .invalidOp)) := by
  induction n with
  | zero => rfl
  | succ n ih => rw [executeTimes_succ, h, ih]; rfl

/-- `n + 1` executes in a row: the first one is the bulk, all the others are refused and leave
    the collection as the first one left it -/
theorem executeTimes_spec (cfg : Cfg) (now : Int) (n : Nat) (c : Coll) (b : Builder) :
    executeTimes cfg now (n + 1) c b =
      ((b.execute cfg now c).1,
       (b.execute cfg now c).2.2 :: List.replicate n (.err .invalidOp)) := by
  rw [executeTimes_succ, executeTimes_refused cfg now n _ _ (second_execute cfg now now c b)]

/-- `bulk_write` is: register the requests in a fresh builder, execute once -/
theorem bulkWrite_eq_execute (cfg : Cfg) (now : Int) (c : Coll) (reqs : List Val) (ordered : Bool)
    (hp : bulkPrecheck reqs = .ok ()) :
    bulkWrite cfg now c reqs ordered =
      (((Builder.mk reqs ordered false).execute cfg now c).1,
       ((Builder.mk reqs ordered false).execute cfg now c).2.2) := by
  unfold bulkWrite Builder.execute
  rw [hp]
  cases reqs <;> rfl

end MongoModel.Proofs.C15Once
