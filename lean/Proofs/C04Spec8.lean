/-
  Proofs.C04Spec8 — `eval_eq_spec`, part 8: `$switch` branches, `$map`/`$filter` item loops, the
  operators that parse their whole argument.
-/
import Proofs.C04Spec7

set_option linter.unusedSimpArgs false
set_option linter.unnecessarySeqFocus false

namespace MongoModel.Proofs.C04
open MongoModel MongoModel.Expr MongoModel.Spec

/-! ### `$switch` -/

theorem sBranchesAt_eq (root : Val) (env : Env) (gs : Fields) (bs : List Val)
    (h : dget "branches" gs = some (.arr bs)) : sBranchesAt root env gs = sBranches root env bs := by
  induction gs with
  | nil => simp [dget] at h
  | cons kv r ih =>
    obtain ⟨k, w⟩ := kv
    by_cases hk : k = "branches"
    · simp [dget, hk] at h; subst h; simp [sBranchesAt, hk]
    · simp [dget, hk] at h
      cases w <;> simp [sBranchesAt, hk, ih h]

theorem rBranchesAt_eq (root : Val) (env : Env) (gs : Fields) (bs : List Val)
    (h : dget "branches" gs = some (.arr bs)) : rBranchesAt root env gs = rBranches root env bs := by
  induction gs with
  | nil => simp [dget] at h
  | cons kv r ih =>
    obtain ⟨k, w⟩ := kv
    by_cases hk : k = "branches"
    · simp [dget, hk] at h; subst h; simp [rBranchesAt, hk]
    · simp [dget, hk] at h
      cases w <;> simp [rBranchesAt, hk, ih h]

theorem branches_agree (c : Ctx) (root : Val) (env : Env) (hr : EnvRel c root env) (bs : List Val)
    (hsub : AllSubList Agrees bs) (hre : rBranches root env bs = [])
    (hwf : branchesOk bs = true) :
    evalBranches c bs = sBranches root env bs := by
  induction bs with
  | nil => rfl
  | cons b r ih =>
    simp only [AllSubList] at hsub
    simp only [branchesOk, List.all_cons, Bool.and_eq_true] at hwf ih
    cases b with
    | doc f =>
      simp only [rBranches, List.append_eq_nil_iff] at hre
      have hf := hsub.1.fields
      obtain ⟨hcase, hthen⟩ : dhas "case" f = true ∧ dhas "then" f = true := by
        simpa using hwf.1
      obtain ⟨vc, hvc⟩ := dhas_dget hcase
      obtain ⟨vt, hvt⟩ := dhas_dget hthen
      have e1 := at_agree c root env hr "case" f vc hvc hf hre.1.1
      have e2 := at_agree c root env hr "then" f vt hvt hf hre.1.2
      simp only [evalBranches, sBranches, e1, e2, toBoolOpt_eq, ih hsub.2 hre.2 hwf.2]
    | _ => simp at hwf

/-! ### `$map` / `$filter` item loops -/

theorem map_loop (f g : Val → R (Option Val)) (items : List Val)
    (h : ∀ x ∈ items, ∃ y, g x = .ok y ∧ f x = .ok y) :
    ∃ (ys : List Val) (rs : List (Val × Option Val)),
      mapItems f items = .ok ys ∧ overItems g items = .ok rs ∧
      rs.map (fun r => r.2.getD .null) = ys := by
  induction items with
  | nil => exact ⟨[], [], rfl, rfl, rfl⟩
  | cons x r ih =>
    obtain ⟨y, hg, hf⟩ := h x (by simp)
    obtain ⟨ys, rs, h1, h2, h3⟩ := ih (fun z hz => h z (by simp [hz]))
    exact ⟨y.getD .null :: ys, (x, y) :: rs,
      by simp [mapItems, hf, h1, bind, Except.bind, pure, Except.pure],
      by simp [overItems, hg, h2, bind, Except.bind, pure, Except.pure],
      by simp [h3]⟩

theorem filter_loop (f g : Val → R (Option Val)) (items : List Val)
    (h : ∀ x ∈ items, ∃ y, g x = .ok y ∧ f x = .ok y) :
    ∃ (zs : List Val) (rs : List (Val × Option Val)),
      filterItems f items = .ok zs ∧ overItems g items = .ok rs ∧
      (rs.filter (fun r => Spec.toBool r.2)).map (·.1) = zs := by
  induction items with
  | nil => exact ⟨[], [], rfl, rfl, rfl⟩
  | cons x r ih =>
    obtain ⟨y, hg, hf⟩ := h x (by simp)
    obtain ⟨zs, rs, h1, h2, h3⟩ := ih (fun z hz => h z (by simp [hz]))
    refine ⟨if toBoolOpt y then x :: zs else zs, (x, y) :: rs,
      by simp [filterItems, hf, h1, bind, Except.bind, pure, Except.pure],
      by simp [overItems, hg, h2, bind, Except.bind, pure, Except.pure], ?_⟩
    simp only [List.filter_cons, toBoolOpt_eq]
    cases Spec.toBool y <;> simp [h3]

theorem flatten_nil {α} (xss : List (List α)) (h : xss.flatten = []) : ∀ xs ∈ xss, xs = [] := by
  induction xss with
  | nil => intro xs hx; cases hx
  | cons a r ih =>
    simp only [List.flatten_cons, List.append_eq_nil_iff] at h
    intro xs hx
    rcases List.mem_cons.mp hx with e | e
    · subst e; exact h.1
    · exact ih h.2 xs e

/-! ### operators that parse their whole argument -/

def wholeProved : List String :=
  ["$abs", "$ceil", "$floor", "$trunc", "$not", "$isArray", "$isNumber", "$size",
   "$concatArrays", "$toLower", "$toUpper", "$toString"] ++ datePartOps

theorem whole_pure (k : String) (hk : k ∈ wholeProved) (a : Option Val)
    (hr : strictReasons k [a] = []) (r : Option Val) (hs : applyStrict k [a] = .ok r) :
    applyWhole true k a = .ok r := by
  simp only [wholeProved, datePartOps, List.cons_append, List.nil_append, List.mem_cons,
    List.mem_nil_iff, or_false] at hk
  rcases hk with rfl | rfl | rfl | rfl | rfl | rfl | rfl | rfl | rfl | rfl | rfl | rfl | hk
  -- $abs
  · simp only [applyStrict, arithOps, List.contains_cons, List.contains_nil] at hs
    simp at hs
    cases h1 : arith1 "$abs" a with
    | error e => simp [h1, Except.map] at hs
    | ok w =>
      simp [h1, Except.map] at hs; subst hs
      simp [applyWhole, unaryArithOps, unary_pure "$abs" (Or.inl rfl) a w h1, Except.map]
  -- $ceil
  · simp [applyStrict] at hs
    cases h1 : arith1 "$ceil" a with
    | error e => simp [h1, Except.map] at hs
    | ok w =>
      simp [h1, Except.map] at hs; subst hs
      simp [applyWhole, unaryArithOps,
        unary_pure "$ceil" (Or.inr (Or.inl rfl)) a w h1, Except.map]
  -- $floor
  · simp [applyStrict] at hs
    cases h1 : arith1 "$floor" a with
    | error e => simp [h1, Except.map] at hs
    | ok w =>
      simp [h1, Except.map] at hs; subst hs
      simp [applyWhole, unaryArithOps,
        unary_pure "$floor" (Or.inr (Or.inr (Or.inl rfl))) a w h1, Except.map]
  -- $trunc
  · simp [applyStrict] at hs
    cases h1 : arith1 "$trunc" a with
    | error e => simp [h1, Except.map] at hs
    | ok w =>
      simp [h1, Except.map] at hs; subst hs
      simp [applyWhole, unaryArithOps,
        unary_pure "$trunc" (Or.inr (Or.inr (Or.inr rfl))) a w h1, Except.map]
  -- $not
  · simp [applyStrict] at hs
    subst hs
    simp [applyWhole, unaryArithOps, toBoolOpt_eq]
  -- $isArray
  · simp [applyStrict] at hs
    cases a with
    | none => simp at hs; subst hs; simp [applyWhole, unaryArithOps, isArrayOp]
    | some x => cases x <;> simp at hs <;> subst hs <;> simp [applyWhole, unaryArithOps, isArrayOp]
  -- $isNumber
  · simp [applyStrict] at hs
    cases a with
    | none => simp at hs; subst hs; simp [applyWhole, unaryArithOps, isNumberOp]
    | some x => cases x <;> simp at hs <;> subst hs <;> simp [applyWhole, unaryArithOps, isNumberOp]
  -- $size
  · simp [applyStrict] at hs
    cases a with
    | none => simp at hs
    | some x =>
      cases x <;> simp at hs
      subst hs
      simp [applyWhole, unaryArithOps, sizeOp, Except.map]
  -- $concatArrays
  · simp [applyStrict] at hs
    cases h1 : concatArraysS [a] with
    | error e => simp [h1, Except.map] at hs
    | ok w =>
      simp [h1, Except.map] at hs; subst hs
      have := concatArrays_pure [a] w h1
      cases a with
      | none =>
        have : w = .null := by
          simp [concatArraysS, nullish] at h1; exact h1.symm
        simp [applyWhole, unaryArithOps, dateOps, datePartOps, groupingOps, this]
      | some v =>
        simp only [nulled, List.map_cons, Option.getD_some, List.map_nil] at this
        simp [applyWhole, unaryArithOps, dateOps, datePartOps, groupingOps, this, Except.map]
  -- $toLower
  · simp [applyStrict] at hs
    cases h1 : caseS false a with
    | error e => simp [h1, Except.map] at hs
    | ok w =>
      simp [h1, Except.map] at hs; subst hs
      have := case_pure false a w h1
      cases a with
      | none => simpa [applyWhole, unaryArithOps] using this
      | some v =>
        simp only at this
        simp [applyWhole, unaryArithOps, this, Except.map]
  -- $toUpper
  · simp [applyStrict] at hs
    cases h1 : caseS true a with
    | error e => simp [h1, Except.map] at hs
    | ok w =>
      simp [h1, Except.map] at hs; subst hs
      have := case_pure true a w h1
      cases a with
      | none => simpa [applyWhole, unaryArithOps] using this
      | some v =>
        simp only at this
        simp [applyWhole, unaryArithOps, this, Except.map]
  -- $toString
  · simp [applyStrict] at hs
    cases h1 : toStringS a with
    | error e => simp [h1, Except.map] at hs
    | ok w =>
      simp [h1, Except.map] at hs; subst hs
      have := toString_pure a w h1
      cases a with
      | none => simpa [applyWhole, unaryArithOps] using this
      | some v =>
        simp only at this
        simp [applyWhole, unaryArithOps, this, Except.map]
  -- date parts
  · have hdp : datePartOps.contains k = true := by
      rcases hk with rfl | rfl | rfl | rfl | rfl | rfl | rfl | rfl | rfl | rfl <;> decide
    have hs' : (datePartS k a).map some = .ok r := by
      rcases hk with rfl | rfl | rfl | rfl | rfl | rfl | rfl | rfl | rfl | rfl <;>
        simpa [applyStrict, datePartOps] using hs
    cases a with
    | none =>
      have : r = some .null := by
        simp [datePartS, nullish, Except.map] at hs'; exact hs'.symm
      subst this
      rcases hk with rfl | rfl | rfl | rfl | rfl | rfl | rfl | rfl | rfl | rfl <;>
        simp [applyWhole, unaryArithOps, dateOps, datePartOps]
    | some v =>
      cases h1 : datePartS k (some v) with
      | error e => simp [h1, Except.map] at hs'
      | ok w =>
        simp [h1, Except.map] at hs'; subst hs'
        have := datePart_pure k hdp v w h1
        have hd : dateOps.contains k = true := by
          rcases hk with rfl | rfl | rfl | rfl | rfl | rfl | rfl | rfl | rfl | rfl <;> decide
        rcases hk with rfl | rfl | rfl | rfl | rfl | rfl | rfl | rfl | rfl | rfl <;>
          simp [applyWhole, unaryArithOps, dateOps, datePartOps, this, Except.map]

end MongoModel.Proofs.C04
