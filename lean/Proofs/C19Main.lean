/-
  C19 — assembling the kernel-checked certificates of the REGENERATED protocol, and the
  witness machinery for the known finding.
-/
import Proofs.C19Docs
import Proofs.C19Inv
import Generated.RWLockCert_2
import Generated.RWLockCert_3
import Generated.LockDiscipline
namespace MongoModel.RWLock
open MongoModel.Generated

theorem cert3_all : Cert.all (keyWidth 3) (pcheckKey protocol C3 3) C3 = true := by
  apply all_of_parts (sz := cert3Sz) (k := 8)
  · have := cert3_len
    rcases Nat.eq_zero_or_pos cert3Sz with h | h
    · exact absurd h (by decide)
    · exact h
  · exact cert3_len
  · intro i hi
    match i, hi with
    | 0, _ => exact cert3_part0
    | 1, _ => exact cert3_part1
    | 2, _ => exact cert3_part2
    | 3, _ => exact cert3_part3
    | 4, _ => exact cert3_part4
    | 5, _ => exact cert3_part5
    | 6, _ => exact cert3_part6
    | 7, _ => exact cert3_part7

theorem cert3_ok : pcheckCert protocol C3 3 = true := by
  simp only [pcheckCert, Bool.and_eq_true]
  exact ⟨cert3_init, cert3_all⟩

theorem pgood_of_cert {P : Protocol} {C : Cert} {n : Nat} (h : pcheckCert P C n = true) :
    PGood P n := closed_set_sound' h

/-! ### running a schedule (witnesses) -/

def runSched (cfg : Cfg) : State → List Nat → Option State
  | s, [] => some s
  | s, t :: ts => match step cfg s t with
    | some s' => runSched cfg s' ts
    | none => none

theorem reach_run {cfg : Cfg} : ∀ (sched : List Nat) (s s' : State), Reach cfg s →
    runSched cfg s sched = some s' → Reach cfg s'
  | [], s, s', hr, h => by simp [runSched] at h; subst h; exact hr
  | t :: ts, s, s', hr, h => by
    simp only [runSched] at h
    split at h
    · rename_i s1 hs1
      exact reach_run ts s1 s' (Reach.step hr hs1) h
    · simp at h

/-! ### running a schedule of the protocol machine -/

def prun (P : Protocol) : PState → List (Nat × Lab) → Option PState
  | s, [] => some s
  | s, (t, lab) :: rest => match pstep P s t lab with
    | some s' => prun P s' rest
    | none => none

theorem reach_prun {P : Protocol} {n : Nat} : ∀ (sched : List (Nat × Lab)) (s s' : PState),
    PReach P n s → prun P s sched = some s' → PReach P n s'
  | [], s, s', hr, h => by simp [prun] at h; subst h; exact hr
  | (t, lab) :: rest, s, s', hr, h => by
    simp only [prun] at h
    split at h
    · rename_i s1 hs1
      exact reach_prun rest s1 s' (PReach.step hr hs1) h
    · simp at h

/-- both threads enter a reader section one after the other -/
def twoReaders : List (Nat × Lab) :=
  [(0, .begin false), (0, .op), (0, .op), (0, .op), (0, .op), (0, .op), (0, .op), (0, .op),
   (0, .op), (1, .begin false), (1, .op), (1, .op), (1, .op), (1, .op), (1, .op), (1, .op),
   (1, .op), (1, .op)]

theorem two_readers_inside :
    (prun referenceProtocol (pinit 2) twoReaders).map (·.pos)
      = some [Phase.body false, Phase.body false] := by decide

end MongoModel.RWLock
