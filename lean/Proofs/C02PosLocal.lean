/-
  Proofs.C02PosLocal — a positional entry of an `_updaters`-type operator reads and writes the
  document only under the top-level field its path starts with: on two documents holding the same
  value there it fails alike or makes the same edit (`SameEdit`).
-/
import Proofs.C02ExtOps
import Proofs.C02PosFrame
import Spec.UpdatePositional

set_option linter.unusedSimpArgs false
set_option linter.unusedVariables false

namespace MongoModel.Proofs.C02Lemmas
open MongoModel MongoModel.Spec

theorem editTop_same (h : String) (g : Val → R Val) (fs gs : Fields)
    (hg : dget h fs = dget h gs) :
    SameEdit h fs gs (editTop h g (.doc fs)) (editTop h g (.doc gs)) := by
  simp only [editTop, ← hg]
  cases dget h fs with
  | none => exact .err _
  | some top => exact SameEdit.bindSet _ _ _ _

theorem applyAtSub_same (u : Updater) (now : Val) (sub : SubRef) (last : String) (v : Val)
    (head : String) (fs gs : Fields) (hs : ∀ h p, sub = .inside h p → h = head)
    (hg : dget head fs = dget head gs) :
    SameEdit head fs gs (applyAtSub u now sub last v (.doc fs))
      (applyAtSub u now sub last v (.doc gs)) := by
  cases sub with
  | nil => exact .err _
  | untracked => exact .err _
  | gone c =>
    simp only [applyAtSub]
    cases runUpdater u now c last v with
    | error e => exact .err e
    | ok _ => exact .keep
  | inside h p =>
    have := hs h p rfl
    subst this
    exact editTop_same _ _ fs gs hg

/-- the outcome of one key on two documents: the same error, or the same edit with the same
    carried container -/
inductive SameSt (h : String) (fs gs : Fields) : R PosState → R PosState → Prop
  | err (e : Err) : SameSt h fs gs (.error e) (.error e)
  | ok (d d' : Val) (sub : SubRef) (lost : Bool) :
      SameEdit h fs gs (.ok d) (.ok d') → SameSt h fs gs (.ok ⟨d, sub, lost⟩) (.ok ⟨d', sub, lost⟩)

theorem SameSt.ofEdit {h : String} {fs gs : Fields} {X Y : R Val} (sub : SubRef) (lost : Bool)
    (he : SameEdit h fs gs X Y) :
    SameSt h fs gs (X.bind (fun d => .ok ⟨d, sub, lost⟩)) (Y.bind (fun d => .ok ⟨d, sub, lost⟩)) := by
  cases he with
  | err e => exact .err e
  | keep => exact .ok _ _ _ _ .keep
  | set x => exact .ok _ _ _ _ (.set x)
  | erase => exact .ok _ _ _ _ .erase

/-- a fresh positional key (nothing carried) depends on the document only through the value of
    the top-level field its path starts with -/
theorem posUpdaterKey_same (u : Updater) (now spec : Val) (k : String) (v : Val) (fs gs : Fields)
    (hdol : hasDollarPart k = true) (hg : dget (headOf k) fs = dget (headOf k) gs) :
    SameSt (headOf k) fs gs (posUpdaterKey u now spec ⟨.doc fs, .nil, false⟩ k v)
      (posUpdaterKey u now spec ⟨.doc gs, .nil, false⟩ k v) := by
  simp only [posUpdaterKey, Bool.false_eq_true, if_false, hdol, Bool.not_true]
  by_cases hko : (!keyOk k) = true
  · simp only [hko, if_true]; exact .err _
  simp only [hko, if_false, Bool.false_eq_true]
  cases hsd : splitDots k with
  | nil => exact .err _
  | cons head t =>
    cases t with
    | nil => exact .err _
    | cons p2 more =>
      have hh : headOf k = head := headOf_cons hsd
      rw [hh] at hg ⊢
      simp only []
      by_cases hd : head = "$"
      · simp only [hd, if_true]; exact .err _
      simp only [hd, if_false, SubRef.truthy, bind, Except.bind, Bool.false_eq_true, if_false]
      cases spec with
      | doc ss =>
        simp only [← hg]
        cases narrowSpec head ss with
        | error e => exact .err e
        | ok ns =>
          simp only []
          cases dget head fs with
          | none => exact .err _
          | some top =>
            simp only []
            cases posWalk ((p2 :: more).dropLast) top ns (some []) with
            | error e => exact .err e
            | ok w =>
              obtain ⟨cur, subspec, path⟩ := w
              simp only []
              cases path with
              | none =>
                simp only []
                have hB := SameSt.ofEdit (SubRef.gone cur) false
                  (applyAtSub_same u now (SubRef.gone cur) (lastPart (p2 :: more)) v head fs gs
                    (fun h p e => by cases e) hg)
                cases hl : (lastPart (p2 :: more) == "$") with
                | false => exact hB
                | true =>
                  cases cur with
                  | arr xs =>
                    simp only []
                    by_cases hem : xs.isEmpty = true
                    · simp only [hem, if_true]
                      exact .ok _ _ _ _ .keep
                    · simp only [hem, if_false, Bool.false_eq_true]
                      cases subspec with
                      | doc cs =>
                        simp only []
                        cases firstApplying (dollarCond cs) xs 0 with
                        | error e => exact .err e
                        | ok m =>
                          cases m with
                          | none => exact .ok _ _ _ _ .keep
                          | some im => exact .ok _ _ _ _ .keep
                      | _ => exact .err _
                  | _ => exact hB
              | some p =>
                simp only []
                have hB := SameSt.ofEdit (SubRef.inside head p) false
                  (applyAtSub_same u now (SubRef.inside head p) (lastPart (p2 :: more)) v head fs gs
                    (fun h p' e => by cases e; rfl) hg)
                cases hl : (lastPart (p2 :: more) == "$") with
                | false => exact hB
                | true =>
                  cases cur with
                  | arr xs =>
                    simp only []
                    by_cases hem : xs.isEmpty = true
                    · simp only [hem, if_true]
                      exact .ok _ _ _ _ .keep
                    · simp only [hem, if_false, Bool.false_eq_true]
                      cases subspec with
                      | doc cs =>
                        simp only []
                        cases firstApplying (dollarCond cs) xs 0 with
                        | error e => exact .err e
                        | ok m =>
                          cases m with
                          | none => exact .ok _ _ _ _ .keep
                          | some im =>
                            obtain ⟨i, item⟩ := im
                            exact SameSt.ofEdit (SubRef.inside head p) true
                              (editTop_same head _ fs gs hg)
                      | _ => exact .err _
                  | _ => exact hB
      | _ => exact .err _


theorem SameSt.toEdit {h : String} {fs gs : Fields} {X Y : R PosState} (he : SameSt h fs gs X Y) :
    SameEdit h fs gs (X.bind (fun st => .ok st.d)) (Y.bind (fun st => .ok st.d)) := by
  cases he with
  | err e => exact .err e
  | ok d d' sub lost hd => exact hd

theorem applyUpdate_positional_single (spec now : Val) (wi : Bool) (op key : String) (v : Val)
    (u : Updater) (hop : posFieldsOp op wi = some u) (hdol : hasDollarPart key = true) (d : Val) :
    applyUpdate spec (.doc [(op, .doc [(key, v)])]) now wi d =
      (posUpdaterKey u now spec ⟨d, .nil, false⟩ key v).bind (fun st => .ok st.d) := by
  simp only [posFieldsOp] at hop
  cases hu : updaterOf op with
  | some u' =>
    simp only [hu, Option.some.injEq] at hop
    subst hop
    have hm : op ∈ positionalOperators := by simpa using updaterOf_positional hu
    have hpos : positionalUpdate [(op, Val.doc [(key, v)])] = true := by
      simp [positionalUpdate, hm, hdol]
    simp only [applyUpdate, hpos, if_true, applyOpsPos, hu, posFields, List.any_cons, hdol,
      List.any_nil, Bool.or_false, List.foldlM_cons, List.foldlM_nil, bind, Except.bind, pure,
      Except.pure]
    cases posUpdaterKey u' now spec ⟨d, .nil, false⟩ key v <;> rfl
  | none =>
    simp only [hu] at hop
    by_cases h1 : op = "$setOnInsert"
    · subst h1
      simp only [if_true] at hop
      cases wi with
      | false => simp at hop
      | true =>
        simp only [if_true, Option.some.injEq] at hop
        subst hop
        have hpos : positionalUpdate [("$setOnInsert", Val.doc [(key, v)])] = true := by
          simp [positionalUpdate, positionalOperators, hdol]
        simp only [applyUpdate, hpos, if_true, applyOpsPos, hu,
          show ("$setOnInsert" = "$rename") = False by decide, if_false, Bool.not_true,
          Bool.false_eq_true, posFields, List.any_cons, hdol, List.any_nil, Bool.or_false,
          List.foldlM_cons, List.foldlM_nil, bind, Except.bind, pure, Except.pure]
        cases posUpdaterKey .set now spec ⟨d, .nil, false⟩ key v <;> rfl
    · simp only [h1, if_false] at hop
      by_cases h2 : op = "$currentDate"
      · subst h2
        simp only [if_true, Option.some.injEq] at hop
        subst hop
        have hpos : positionalUpdate [("$currentDate", Val.doc [(key, v)])] = true := by
          simp [positionalUpdate, positionalOperators, hdol]
        simp only [applyUpdate, hpos, if_true, applyOpsPos, hu,
          show ("$currentDate" = "$rename") = False by decide,
          show ("$currentDate" = "$setOnInsert") = False by decide, if_false,
          posFields, List.any_cons, hdol, List.any_nil, Bool.or_false,
          List.foldlM_cons, List.foldlM_nil, bind, Except.bind, pure, Except.pure]
        cases posUpdaterKey .currentDate now spec ⟨d, .nil, false⟩ key v <;> rfl
      · simp [h2] at hop

/-- **a positional entry is local at the field its path starts with** -/
theorem positional_entry_local (spec now : Val) (wi : Bool) (op key : String) (v : Val)
    (u : Updater) (hop : posFieldsOp op wi = some u) (hdol : hasDollarPart key = true) :
    Local [headOf key] (fun d => applyUpdate spec (.doc [(op, .doc [(key, v)])]) now wi d) := by
  refine local_of_sameEdit ?_
  intro fs gs hg
  rw [applyUpdate_positional_single spec now wi op key v u hop hdol,
    applyUpdate_positional_single spec now wi op key v u hop hdol]
  exact (posUpdaterKey_same u now spec key v fs gs hdol hg).toEdit

end MongoModel.Proofs.C02Lemmas
