/-
  Proofs.C03Bucket — `$bucket`: every input document is classified once (`bucketId`), the buckets
  together hold the input exactly once.
-/
import Proofs.C03GroupKeys

namespace MongoModel.Pipe.Proofs
open MongoModel MongoModel.Pipe MongoModel.Proofs.C11

theorem bucketGo_flatten (cur : BKey) : ∀ (acc : List Val) (l : List (BKey × Val)),
    (bucketGo cur acc l).flatMap (·.2) = acc.reverse ++ l.map (·.2)
  | acc, [] => by simp [bucketGo]
  | acc, (k, d) :: rest => by
    simp only [bucketGo]
    split
    · rw [bucketGo_flatten cur (d :: acc) rest]; simp
    · simp only [List.flatMap_cons, bucketGo_flatten k [d] rest]; simp

theorem bucketRuns_flatten : ∀ (l : List (BKey × Val)),
    (bucketRuns l).flatMap (·.2) = l.map (·.2)
  | [] => rfl
  | (k, d) :: rest => by simp [bucketRuns, bucketGo_flatten]

theorem bucketKeyed_ok (c : BucketCfg) : ∀ (docs : List Val) (kds : List (BKey × Val)),
    bucketKeyed c docs = .ok kds →
    kds.map (·.2) = docs ∧ ∀ p ∈ kds, bucketId c p.2 = .ok p.1
  | [], kds, h => by simp [bucketKeyed] at h; subst h; simp
  | d :: ds, kds, h => by
    simp only [bucketKeyed] at h
    cases hk : bucketId c d with
    | error e => simp [hk] at h
    | ok k =>
      cases hr : bucketKeyed c ds with
      | error e => simp [hk, hr] at h
      | ok r =>
        simp only [hk, hr, Except.ok.injEq] at h
        subst h
        obtain ⟨i1, i2⟩ := bucketKeyed_ok c ds r hr
        refine ⟨by simp [i1], ?_⟩
        intro p hp
        rcases List.mem_cons.mp hp with rfl | hp
        · exact hk
        · exact i2 p hp

/-- the tail of `bucketStage` once the options are validated -/
theorem bucket_tail (cfg : BucketCfg) (output : Fields) (docs out : List Val)
    (h : (match bucketKeyed cfg docs with
          | .error e => (.error e : R (List Val))
          | .ok kds =>
            match pySorted bkeyLt false kds with
            | .error e => .error e
            | .ok sorted => emitGroups output (bucketRuns sorted)) = .ok out) :
    ∃ (kds : List (BKey × Val)) (rs : List (Val × List Val)),
      bucketKeyed cfg docs = .ok kds ∧ emitGroups output rs = .ok out ∧
      (rs.flatMap (·.2)).Perm docs := by
  cases hk : bucketKeyed cfg docs with
  | error e => simp [hk] at h
  | ok kds =>
    simp only [hk] at h
    cases hs : pySorted bkeyLt false kds with
    | error e => simp [hs] at h
    | ok sorted =>
      simp only [hs] at h
      refine ⟨kds, bucketRuns sorted, rfl, h, ?_⟩
      rw [bucketRuns_flatten, ← (bucketKeyed_ok cfg docs kds hk).1]
      exact (pySorted_perm _ _ _ _ hs).map _

/-- whatever the options, when `$bucket` answers, its output is one document per bucket
    (`accumulate` of the bucket's documents, `_id` = the bucket id) and the buckets together hold
    every input document exactly once -/
theorem bucketStage_groups (o : Fields) (docs out : List Val)
    (h : bucketStage (.doc o) docs = .ok out) :
    ∃ (output : Fields) (rs : List (Val × List Val)),
      emitGroups output rs = .ok out ∧ (rs.flatMap (·.2)).Perm docs := by
  simp only [bucketStage] at h
  split at h
  · cases h
  · split at h
    · split at h
      · cases h
      · split at h
        · cases h
        · split at h
          · cases h
          · split at h
            · cases h
            · rename_i output _
              split at h
              · cases h
              · obtain ⟨_, rs, _, h2, h3⟩ := bucket_tail _ output docs out h
                exact ⟨output, rs, h2, h3⟩
    · cases h
    · cases h

end MongoModel.Pipe.Proofs
