/-
  Proofs.C06Ensure — what a successful `_ensure_uniques` guarantees.
-/
import Proofs.C06Bridge
import Proofs.C09Expire

set_option linter.unusedSimpArgs false

namespace MongoModel.Proofs.C06Lemmas
open MongoModel MongoModel.Spec
open MongoModel.Proofs.C09Lemmas (expire_ok SameMeta)

/-- the filter says `True` (and does not raise) -/
def isTrue : R Bool → Bool
  | .ok true => true
  | _ => false

/-- number of documents a filter selects -/
def hits (f : Val) (docs : List (Val × Val)) : Nat :=
  (docs.filter (fun p => isTrue (filterApplies f p.2))).length

theorem hits_sublist {f : Val} {l l' : List (Val × Val)} (h : l'.Sublist l) : hits f l' ≤ hits f l :=
  (h.filter _).length_le

theorem filterMapM_len {α β : Type} (g : α → R (Option β)) (l : List α) (ms : List β)
    (h : l.filterMapM g = Except.ok ms) :
    ms.length = (l.filter (fun a => match g a with | .ok (some _) => true | _ => false)).length := by
  induction l generalizing ms with
  | nil =>
    simp only [List.filterMapM_nil, pure, Except.pure, Except.ok.injEq] at h
    subst h; rfl
  | cons p l ih =>
    rw [List.filterMapM_cons] at h
    simp only [List.filter_cons]
    cases hg : g p with
    | error e => simp only [hg, bind, Except.bind] at h; cases h
    | ok o =>
      cases hr : l.filterMapM g with
      | error e => cases o <;> simp only [hg, hr, bind, Except.bind] at h <;> cases h
      | ok ms' =>
        have := ih ms' hr
        cases o <;> simp only [hg, hr, bind, Except.bind, pure, Except.pure, Except.ok.injEq] at h <;>
          subst h <;> simp [this]

theorem filterMapM_hits (f : Val) (g : Val × Val → R (Option Val))
    (hg : ∀ p, g p = match filterApplies f p.2 with
      | .error e => .error e
      | .ok b => .ok (if b then some p.2 else none))
    (docs : List (Val × Val)) (ms : List Val)
    (h : docs.filterMapM g = Except.ok ms) : ms.length = hits f docs := by
  rw [filterMapM_len _ _ _ h, hits]
  congr 2
  funext p
  rw [hg]
  cases filterApplies f p.2 with
  | error e => rfl
  | ok b => cases b <;> rfl

theorem SameMeta.trans {a b c : Coll} (h1 : SameMeta a b) (h2 : SameMeta b c) : SameMeta a c :=
  ⟨h2.1.trans h1.1, h2.2.1.trans h1.2.1, h2.2.2.1.trans h1.2.2.1, h2.2.2.2.trans h1.2.2.2⟩

theorem SameMeta.refl (a : Coll) : SameMeta a a := ⟨rfl, rfl, rfl, rfl⟩

theorem iterDocuments_ok {now : Int} {c c' : Coll} {f : Val} {ms : List Val}
    (h : iterDocuments now c f = .ok (c', ms)) :
    c'.docs.Sublist c.docs ∧ SameMeta c c' ∧ ms.length = hits f c'.docs ∧
    ∃ c1, expire now c = .ok c1 ∧ expire now c1 = .ok c' := by
  unfold iterDocuments at h
  cases h1 : expire now c with
  | error e => rw [h1] at h; cases h
  | ok c1 =>
    obtain ⟨s1, m1⟩ := expire_ok now c c1 h1
    rw [h1] at h
    simp only [bind, Except.bind] at h
    split at h
    · cases hv : filterApplies f (.doc []) with
      | error e => rw [hv] at h; cases h
      | ok v =>
        rw [hv] at h
        simp only at h
        cases h2 : expire now c1 with
        | error e => rw [h2] at h; cases h
        | ok c2 =>
          obtain ⟨s2, m2⟩ := expire_ok now c1 c2 h2
          rw [h2] at h
          simp only at h
          split at h
          · cases h
          · rename_i ms' hm
            simp only [pure, Except.pure, Except.ok.injEq, Prod.mk.injEq] at h
            obtain ⟨rfl, rfl⟩ := h
            refine ⟨s2.trans s1, SameMeta.trans m1 m2, filterMapM_hits f _ ?_ _ _ hm, c1, rfl, h2⟩
            intro p
            cases filterApplies f p.2 <;> rfl
    · cases h2 : expire now c1 with
      | error e => rw [h2] at h; cases h
      | ok c2 =>
        obtain ⟨s2, m2⟩ := expire_ok now c1 c2 h2
        rw [h2] at h
        simp only at h
        split at h
        · cases h
        · rename_i ms' hm
          simp only [pure, Except.pure, Except.ok.injEq, Prod.mk.injEq] at h
          obtain ⟨rfl, rfl⟩ := h
          refine ⟨s2.trans s1, SameMeta.trans m1 m2, filterMapM_hits f _ ?_ _ _ hm, c1, rfl, h2⟩
          intro p
          cases filterApplies f p.2 <;> rfl

/-! ### `_ensure_uniques` -/

/-- the body of the loop over the indexes -/
def ensureStep (now : Int) (newData : Val) (c : Coll) (ix : Index) : R Coll :=
  if !ix.unique then pure c
  else do
    let kwargs ← valuesFor ix.keys newData
    let skip := ix.sparse && kwargs.all isNullCond
    if skip then pure c
    else do
      let (c', ms) ← iterDocuments now c (queryOf ix kwargs)
      if ms.length > 1 then .error .dupKey else pure c'

theorem ensureUniques_eq (now : Int) (c : Coll) (new : Val) :
    ensureUniques now c new = c.indexes.foldlM (ensureStep now new) c := rfl

/-- what the check of one index leaves behind -/
def Checked (new : Val) (ix : Index) (docs : List (Val × Val)) : Prop :=
  ix.unique = true → ∀ kw, valuesFor ix.keys new = .ok kw →
    (ix.sparse && kw.all isNullCond) = false →
    hits (queryOf ix kw) docs ≤ 1

theorem Checked.sublist {new : Val} {ix : Index} {l l' : List (Val × Val)} (h : Checked new ix l)
    (hs : l'.Sublist l) : Checked new ix l' :=
  fun hu kw hv hk => Nat.le_trans (hits_sublist hs) (h hu kw hv hk)

theorem ensureStep_ok {now : Int} {new : Val} {c c' : Coll} {ix : Index}
    (h : ensureStep now new c ix = .ok c') :
    c'.docs.Sublist c.docs ∧ SameMeta c c' ∧ Checked new ix c'.docs := by
  unfold ensureStep at h
  cases hu : ix.unique with
  | false =>
    simp only [hu, Bool.not_false, if_true, pure, Except.pure, Except.ok.injEq] at h
    subst h
    exact ⟨List.Sublist.refl _, SameMeta.refl _, fun hu' => by rw [hu] at hu'; cases hu'⟩
  | true =>
    simp only [hu, Bool.not_true, Bool.false_eq_true, if_false] at h
    cases hv : valuesFor ix.keys new with
    | error e => rw [hv] at h; cases h
    | ok kw =>
      rw [hv] at h
      simp only [bind, Except.bind] at h
      split at h
      · rename_i hsk
        simp only [pure, Except.pure, Except.ok.injEq] at h
        subst h
        refine ⟨List.Sublist.refl _, SameMeta.refl _, ?_⟩
        intro _ kw' hv' hk'
        rw [hv] at hv'
        cases hv'
        rw [hsk] at hk'
        cases hk'
      · cases hi : iterDocuments now c (queryOf ix kw) with
        | error e => rw [hi] at h; cases h
        | ok r =>
          obtain ⟨c2, ms⟩ := r
          obtain ⟨s1, m1, hl, _⟩ := iterDocuments_ok hi
          rw [hi] at h
          simp only at h
          split at h
          · cases h
          · rename_i hlen
            simp only [pure, Except.pure, Except.ok.injEq] at h
            subst h
            refine ⟨s1, m1, ?_⟩
            intro _ kw' hv' _
            rw [hv] at hv'
            cases hv'
            omega

theorem ensureFold_ok {now : Int} {new : Val} (l : List Index) {c c' : Coll}
    (h : l.foldlM (ensureStep now new) c = .ok c') :
    c'.docs.Sublist c.docs ∧ SameMeta c c' ∧ ∀ ix ∈ l, Checked new ix c'.docs := by
  induction l generalizing c with
  | nil =>
    simp only [List.foldlM_nil, pure, Except.pure, Except.ok.injEq] at h
    subst h
    exact ⟨List.Sublist.refl _, SameMeta.refl _, fun ix hix => by cases hix⟩
  | cons ix l ih =>
    rw [List.foldlM_cons] at h
    cases hs : ensureStep now new c ix with
    | error e => rw [hs] at h; cases h
    | ok c1 =>
      rw [hs] at h
      simp only [bind, Except.bind] at h
      obtain ⟨s1, m1, k1⟩ := ensureStep_ok hs
      obtain ⟨s2, m2, k2⟩ := ih h
      refine ⟨s2.trans s1, SameMeta.trans m1 m2, ?_⟩
      intro ix' hix'
      rcases List.mem_cons.1 hix' with rfl | hm
      · exact k1.sublist s2
      · exact k2 ix' hm

theorem ensureUniques_ok {now : Int} {new : Val} {c c' : Coll}
    (h : ensureUniques now c new = .ok c') :
    c'.docs.Sublist c.docs ∧ SameMeta c c' ∧ ∀ ix ∈ c.indexes, Checked new ix c'.docs := by
  rw [ensureUniques_eq] at h
  exact ensureFold_ok _ h

end MongoModel.Proofs.C06Lemmas
