/-
  Proofs.C08ExtSeq — `bulkLoop` against the one-at-a-time run, failures included: which requests
  fail, where the ordered loop stops, which positions the error reports.
-/
import Proofs.C08ExtBulk

namespace MongoModel.Proofs.C08Lemmas
open MongoModel MongoModel.Spec MongoModel.Proofs.C15Lemmas

/-- an executor fails exactly when the single operation it stands for raises -/
theorem one_failed (cfg : Cfg) (now : Int) (c : Coll) (idx : Nat) {r : Val}
    (hp : Plain r) (hv : pre1 r = .ok ()) :
    requestFailed (bulkOne cfg now c idx r).2 = (stepColl cfg now c (asSingle r)).2.isErr := by
  cases hp with
  | ins d =>
    show requestFailed (match stepColl cfg now c (.arr [.str "insert_one", d]) with
     | (c', .val _) => (c', BulkOut.ok (fun t => { t with nInserted := t.nInserted + 1 }))
     | (c', .err e) => (c', if e.isWriteError then .writeErr e else .abort e)
     | (c', .bulkErr _) => (c', .abort .bulk)).2 =
       (stepColl cfg now c (.arr [.str "insert_one", d])).2.isErr
    split
    · rename_i h; rw [h]; rfl
    · rename_i h; rw [h]; dsimp only; split <;> rfl
    · rename_i h; rw [h]; rfl
  | upd1 f u up =>
    have hv' : validateUpdate u = .ok () := hv
    show requestFailed (bulkOne cfg now c idx _).2 =
      (stepColl cfg now c (.arr [.str "update_one", f, u, up])).2.isErr
    simp only [bulkOne, stepColl, hv']
    cases applyUpdateColl cfg now c f u (boolOf up) false with
    | mk c' r => cases r <;> dsimp only <;> (try split) <;> rfl
  | updN f u up =>
    have hv' : validateUpdate u = .ok () := hv
    show requestFailed (bulkOne cfg now c idx _).2 =
      (stepColl cfg now c (.arr [.str "update_many", f, u, up])).2.isErr
    simp only [bulkOne, stepColl, hv']
    cases applyUpdateColl cfg now c f u (boolOf up) true with
    | mk c' r => cases r <;> dsimp only <;> (try split) <;> rfl
  | repl f u up h =>
    show requestFailed (bulkOne cfg now c idx _).2 =
      (stepColl cfg now c (.arr [.str "replace_one", f, u, up])).2.isErr
    simp only [bulkOne, stepColl, h]
    cases applyUpdateColl cfg now c f u (boolOf up) false with
    | mk c' r => cases r <;> dsimp only <;> (try split) <;> rfl
  | del1 fs =>
    show requestFailed (bulkOne cfg now c idx _).2 =
      (stepColl cfg now c (.arr [.str "delete_one", .doc fs])).2.isErr
    simp only [bulkOne, stepColl, bulkOne.deleteBulk]
    cases deleteColl now c (.doc fs) false with
    | mk c' r =>
      cases r with
      | error e =>
        have : ((Except.error e : R Nat).map (fun n => (n : Int))) = .error e := rfl
        simp only [this]
        split <;> rfl
      | ok n => rfl
  | delN fs =>
    show requestFailed (bulkOne cfg now c idx _).2 =
      (stepColl cfg now c (.arr [.str "delete_many", .doc fs])).2.isErr
    simp only [bulkOne, stepColl, bulkOne.deleteBulk]
    cases deleteColl now c (.doc fs) true with
    | mk c' r =>
      cases r with
      | error e =>
        have : ((Except.error e : R Nat).map (fun n => (n : Int))) = .error e := rfl
        simp only [this]
        split <;> rfl
      | ok n => rfl

theorem loop_nil (cfg : Cfg) (now : Int) (ordered : Bool) (idx : Nat) (c : Coll) (t : BulkTotals) :
    bulkLoop cfg now ordered [] idx c t =
      (c, if t.errors.isEmpty then .val t.toVal else .bulkErr t.toVal) := by
  rw [bulkLoop]; split <;> rfl

theorem errorIndex_entry (idx : Nat) (e : Err) : errorIndex (errEntry idx e) = .int idx := rfl

/-- unordered, nothing aborts: the one-at-a-time state, and the error lists exactly the positions
    of the operations that fail in the one-at-a-time run -/
theorem loop_unordered_full (cfg : Cfg) (now : Int) (reqs : List Val)
    (hp : reqs.all plainRequest = true) (hv : bulkPrecheck reqs = .ok ()) :
    ∀ (idx : Nat) (c : Coll) (t : BulkTotals),
      (∀ e, (bulkLoop cfg now false reqs idx c t).2 ≠ .err e) →
      ∃ t' : BulkTotals, bulkLoop cfg now false reqs idx c t =
          (seqOps cfg now (reqs.map asSingle) c,
           if t'.errors.isEmpty then .val t'.toVal else .bulkErr t'.toVal) ∧
        t'.errors.map errorIndex = t.errors.map errorIndex ++
          (seqFailures cfg now (reqs.map asSingle) c idx).map (fun i : Nat => Val.int i) := by
  induction reqs with
  | nil =>
    intro idx c t _
    exact ⟨t, loop_nil cfg now false idx c t, by simp [seqFailures]⟩
  | cons r rest ih =>
    obtain ⟨hp1, hpr⟩ := plain_cons hp
    obtain ⟨hv1, hvr⟩ := precheck_cons hv
    intro idx c t hw
    have h1 := one_fst cfg now c idx hp1 hv1
    have hf := one_failed cfg now c idx hp1 hv1
    rw [loop_cons] at hw ⊢
    simp only [List.map_cons, seqOps_cons, seqFailures]
    cases hb : bulkOne cfg now c idx r with
    | mk c' o =>
      rw [hb] at hw h1 hf
      simp only at h1
      subst h1
      cases o with
      | ok f =>
        have hf' : (stepColl cfg now c (asSingle r)).2.isErr = false := hf.symm
        obtain ⟨t', h1, h2⟩ := ih hpr hvr (idx + 1) _ (f t) hw
        refine ⟨t', h1, ?_⟩
        rw [h2, ok_errors (one_ok cfg now c _ idx r f hb) t, hf']
        simp
      | writeErr e =>
        have hf' : (stepColl cfg now c (asSingle r)).2.isErr = true := hf.symm
        simp only [Bool.false_eq_true, if_false] at hw ⊢
        obtain ⟨t', h1, h2⟩ := ih hpr hvr (idx + 1) _ _ hw
        refine ⟨t', h1, ?_⟩
        rw [h2, hf']
        simp [errorIndex_entry]
      | abort e => exact absurd rfl (hw e)

/-- ordered: either everything succeeded, or the loop stopped at the first request that fails in
    the one-at-a-time run, in the state that request's executor left -/
theorem loop_ordered_full (cfg : Cfg) (now : Int) (reqs : List Val)
    (hp : reqs.all plainRequest = true) (hv : bulkPrecheck reqs = .ok ()) :
    ∀ (idx : Nat) (c : Coll) (t : BulkTotals), t.errors = [] →
      (∃ t' : BulkTotals, bulkLoop cfg now true reqs idx c t =
          (seqOps cfg now (reqs.map asSingle) c, .val t'.toVal) ∧
        seqAllOk cfg now (reqs.map asSingle) c = true) ∨
      (∃ pre r post, reqs = pre ++ r :: post ∧ seqAllOk cfg now (pre.map asSingle) c = true ∧
        (stepColl cfg now (seqOps cfg now (pre.map asSingle) c) (asSingle r)).2.isErr = true ∧
        (bulkLoop cfg now true reqs idx c t).1 =
          (stepColl cfg now (seqOps cfg now (pre.map asSingle) c) (asSingle r)).1 ∧
        (∃ o, bulkOne cfg now (seqOps cfg now (pre.map asSingle) c) (idx + pre.length) r =
            ((bulkLoop cfg now true reqs idx c t).1, o) ∧ requestFailed o = true) ∧
        ((∃ e, (bulkLoop cfg now true reqs idx c t).2 = .err e) ∨
         ∃ t' : BulkTotals, (bulkLoop cfg now true reqs idx c t).2 = .bulkErr t'.toVal ∧
           t'.errors.map errorIndex = [Val.int ((idx + pre.length : Nat) : Int)])) := by
  induction reqs with
  | nil =>
    intro idx c t ht
    left
    refine ⟨t, ?_, rfl⟩
    rw [loop_nil, ht]; rfl
  | cons r rest ih =>
    obtain ⟨hp1, hpr⟩ := plain_cons hp
    obtain ⟨hv1, hvr⟩ := precheck_cons hv
    intro idx c t ht
    have h1 := one_fst cfg now c idx hp1 hv1
    have hf := one_failed cfg now c idx hp1 hv1
    rw [loop_cons]
    cases hb : bulkOne cfg now c idx r with
    | mk c' o =>
      rw [hb] at h1 hf
      simp only at h1
      cases o with
      | ok f =>
        have hf' : (stepColl cfg now c (asSingle r)).2.isErr = false := hf.symm
        have hft : (f t).errors = [] := by
          rw [ok_errors (one_ok cfg now c c' idx r f hb) t]; exact ht
        simp only
        rcases ih hpr hvr (idx + 1) c' (f t) hft with ⟨t', h2, h3⟩ | ⟨pre, r', post, h2, h3, h4, h5, h6, h7⟩
        · left
          refine ⟨t', ?_, ?_⟩
          · rw [h2, List.map_cons, seqOps_cons, ← h1]
          · rw [List.map_cons, seqAllOk, hf', ← h1, h3]; rfl
        · right
          refine ⟨r :: pre, r', post, by rw [h2]; rfl, ?_, ?_, ?_, ?_, ?_⟩
          · rw [List.map_cons, seqAllOk, hf', ← h1, h3]; rfl
          · rw [List.map_cons, seqOps_cons, ← h1]; exact h4
          · rw [List.map_cons, seqOps_cons, ← h1]; exact h5
          · rw [List.map_cons, seqOps_cons, ← h1, List.length_cons,
              show idx + (pre.length + 1) = idx + 1 + pre.length by omega]
            exact h6
          · rw [List.length_cons, show idx + (pre.length + 1) = idx + 1 + pre.length by omega]
            exact h7
      | writeErr e =>
        have hf' : (stepColl cfg now c (asSingle r)).2.isErr = true := hf.symm
        right
        refine ⟨[], r, rest, rfl, rfl, hf', h1, ⟨_, hb, rfl⟩, .inr ⟨_, rfl, ?_⟩⟩
        simp [ht, errorIndex_entry]
      | abort e =>
        have hf' : (stepColl cfg now c (asSingle r)).2.isErr = true := hf.symm
        right
        exact ⟨[], r, rest, rfl, rfl, hf', h1, ⟨_, hb, rfl⟩, .inl ⟨e, rfl⟩⟩

end MongoModel.Proofs.C08Lemmas
