/-
  Proofs.C10ExtCex — the natural reading of `modified_count` ("the number of selected documents
  whose content changed") is false of the model and of the code on documents built by an upsert
  (known finding `modified-order-only`); it holds when no such document is stored.
-/
import Proofs.C10ExtModified
import Proofs.C05

namespace MongoModel.Proofs.C10Ext
open MongoModel MongoModel.Spec

/-- the collection `update_one({_id: 1}, {$set: {c: 1, d: 2}}, upsert=True)` leaves on an empty
    one: a single document, held as an OrderedDict -/
def cOD : Coll :=
  { docs := [(.int 1, .doc [("_id", .int 1), ("c", .int 1), ("d", .int 2)])], od := [.int 1] }

theorem cOD_is_upserted :
    ((applyUpdateColl {} 0 {} (.doc [("_id", .int 1)])
      (.doc [("$set", .doc [("c", .int 1), ("d", .int 2)])]) true false).1.docs == cOD.docs &&
     (applyUpdateColl {} 0 {} (.doc [("_id", .int 1)])
      (.doc [("$set", .doc [("c", .int 1), ("d", .int 2)])]) true false).1.od == cOD.od) = true := by
  decide +kernel

theorem cOD_inv : IdInv cOD :=
  ⟨List.pairwise_singleton _ _, fun p hp => by
    simp only [cOD, List.mem_singleton] at hp; subst hp; exact ⟨_, rfl, by decide⟩⟩

theorem cOD_good : GoodKeys cOD := fun p hp => by
  simp only [cOD, List.mem_singleton] at hp; subst hp
  exact ⟨MongoModel.Proofs.C05.scalar_symm _ rfl, by decide⟩

def renameCC : Val := .doc [("$rename", .doc [("c", .str "c")])]

theorem modified_content_false :
    ¬ (∀ (cfg : Cfg) (now : Int) (c c' : Coll) (fs : Fields) (u : Val)
        (sel : List (Val × Val)) (res : UpdateResult),
        IdInv c → GoodKeys c → c.ttlIndexes = [] →
        selectDocs (patchDT (.doc fs)) c.docs = .ok sel →
        applyUpdateColl cfg now c (.doc fs) u false true = (c', .ok res) →
        res.nModified = (sel.filter (contentChangedAfter c')).length) := by
  intro H
  have k : (match applyUpdateColl {} 0 cOD (.doc []) renameCC false true with
      | (c', .ok r) => r.nModified == 1 && (cOD.docs.filter (contentChangedAfter c')).length == 0
      | _ => false) = true := by decide +kernel
  generalize hx : applyUpdateColl {} 0 cOD (.doc []) renameCC false true = x at k
  obtain ⟨c', r⟩ := x
  cases r with
  | error e => simp at k
  | ok res =>
    simp only [Bool.and_eq_true, beq_iff_eq] at k
    have hsel : selectDocs (patchDT (.doc [])) cOD.docs = .ok cOD.docs := by rfl
    have := H {} 0 cOD c' [] renameCC cOD.docs res cOD_inv cOD_good rfl hsel hx
    rw [k.1, k.2] at this
    cases this

/-- without upserted documents the change test is dict inequality -/
theorem update_many_modified_plain (cfg : Cfg) (now : Int) (c c' : Coll) (fs : Fields) (u : Val)
    (sel : List (Val × Val)) (res : UpdateResult)
    (hi : IdInv c) (hg : GoodKeys c) (hn : c.ttlIndexes = []) (hod : c.od = [])
    (hs : selectDocs (patchDT (.doc fs)) c.docs = .ok sel)
    (h : applyUpdateColl cfg now c (.doc fs) u false true = (c', .ok res)) :
    res.nModified = (sel.filter (contentChangedAfter c')).length := by
  rw [(update_many_counts cfg now c c' fs u sel res hi hg hn hs h).2.1]
  congr 1
  apply List.filter_congr
  intro p _
  simp only [changedAfter, contentChangedAfter, Coll.isOD, hod, List.any_nil, Bool.false_eq_true,
    if_false]

end MongoModel.Proofs.C10Ext
