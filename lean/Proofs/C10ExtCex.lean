/-
  Proofs.C10ExtCex — the repaired finding `modified-order-only` (library commit 5452702).

  A document built by an upsert is stored as an OrderedDict; the change test of `_apply_update`
  used to be `existing_document != snapshot` between two OrderedDicts, which is order-sensitive:
  an update that only re-ordered the keys (`$rename c -> c`) was counted in `modified_count`, and
  the natural reading of `modified_count` ("the number of selected documents whose content
  changed") was false on that witness.  The test is now taken between plain dicts; the witness is
  kept here as a regression example: the document IS rewritten (its keys change order) and
  `modified_count` is 0.
-/
import Proofs.C10ExtModified
import Proofs.C05

namespace MongoModel.Proofs.C10Ext
open MongoModel MongoModel.Spec

/-- the collection `update_one({_id: 1}, {$set: {c: 1, d: 2}}, upsert=True)` leaves on an empty
    one: a single document (held, in the code, as an OrderedDict) -/
def cUps : Coll :=
  { docs := [(.int 1, .doc [("_id", .int 1), ("c", .int 1), ("d", .int 2)])], forceCreated := true }

theorem cUps_is_upserted :
    ((applyUpdateColl {} 0 {} (.doc [("_id", .int 1)])
      (.doc [("$set", .doc [("c", .int 1), ("d", .int 2)])]) true false).1.docs == cUps.docs) = true := by
  decide +kernel

theorem cUps_inv : IdInv cUps :=
  ⟨List.pairwise_singleton _ _, fun p hp => by
    simp only [cUps, List.mem_singleton] at hp; subst hp; exact ⟨_, rfl, by decide⟩⟩

theorem cUps_good : GoodKeys cUps := fun p hp => by
  simp only [cUps, List.mem_singleton] at hp; subst hp
  exact ⟨MongoModel.Proofs.C05.scalar_symm _ rfl, by decide⟩

def renameCC : Val := .doc [("$rename", .doc [("c", .str "c")])]

/-- `update_many({}, {$rename: {c: "c"}})` on it: one document matched, its keys re-ordered
    (`c` moves behind `d`), its content unchanged — `modified_count` is 0 -/
theorem reorder_not_modified :
    (match applyUpdateColl {} 0 cUps (.doc []) renameCC false true with
     | (c', .ok r) =>
       r.n == 1 && r.nModified == 0 && (cUps.docs.filter (contentChangedAfter c')).length == 0 &&
       c'.docs.map (fun p => match p.2 with | .doc fs => dkeys fs | _ => []) == [["_id", "d", "c"]]
     | _ => false) = true := by decide +kernel

end MongoModel.Proofs.C10Ext
