/-
  Proofs.C04Spec4 — `eval_eq_spec`, part 4: the operator bodies of the model against those of
  the oracle, on evaluated operands inside D.
-/
import Proofs.C04Spec3

set_option linter.unusedSimpArgs false

namespace MongoModel.Proofs.C04
open MongoModel MongoModel.Expr MongoModel.Spec

/-- `parse_many` under `ignore_missing_keys`: missing operands read as null -/
def nulled (vs : List (Option Val)) : List Val := vs.map (·.getD .null)

theorem allSome_manyTrue (vs : List (Option Val)) :
    allSome (vs.map (manyItem true)) = some (nulled vs) := by
  induction vs with
  | nil => rfl
  | cons v r ih => cases v <;> simp [allSome, manyItem, ih, nulled]

theorem allSome_manyFalse_some (vs : List Val) :
    allSome ((vs.map some).map (manyItem false)) = some vs := by
  induction vs with
  | nil => rfl
  | cons v r ih =>
    simp only [List.map_cons, manyItem, allSome, ih, Option.map_some]

theorem sumAll_eq (ns : List PyNum) (acc : PyNum) : sumAll ns acc = sumNums ns acc := by
  induction ns generalizing acc with
  | nil => rfl
  | cons n r ih =>
    simp only [sumAll, sumNums, bind, Except.bind]
    cases (acc.add n).check <;> simp [ih]

theorem mulAll_eq (ns : List PyNum) (acc : PyNum) : mulAll ns acc = mulNums ns acc := by
  induction ns generalizing acc with
  | nil => rfl
  | cons n r ih =>
    simp only [mulAll, mulNums]
    cases acc.mul n with
    | none => rfl
    | some a =>
      simp only [bind, Except.bind]
      cases a.check <;> simp [ih]

/-- operands that are numbers (no booleans): the model's `checkNums` finds the same numbers -/
theorem checkNums_numbers (vs : List (Option Val)) (ns : List PyNum)
    (h : numbers vs = some ns) : checkNums (nulled vs) = .ok (some ns) := by
  induction vs generalizing ns with
  | nil => simp [numbers] at h; subst h; rfl
  | cons v r ih =>
    cases v with
    | none => simp [numbers] at h
    | some x =>
      simp only [numbers] at h
      cases hx : number x with
      | none => simp [hx] at h
      | some n =>
        cases hr : numbers r with
        | none => simp [hx, hr] at h
        | some ms =>
          simp only [hx, hr, Option.some.injEq] at h
          subst h
          have := ih ms hr
          simp only [nulled] at this
          cases x <;> simp [number] at hx <;> subst hx <;>
            simp [nulled, checkNums, toPyNum, bind, Except.bind, pure, Except.pure, this]

/-- a null or missing operand among numbers: the loop returns None -/
theorem checkNums_nullish (vs : List (Option Val)) (hany : vs.any nullish = true)
    (hall : (vs.filter (fun v => !nullish v)).all (fun v => (v.bind number).isSome) = true) :
    checkNums (nulled vs) = .ok none := by
  induction vs with
  | nil => simp at hany
  | cons v r ih =>
    cases v with
    | none => simp [nulled, checkNums]
    | some x =>
      cases x with
      | null => simp [nulled, checkNums]
      | int i =>
        simp only [List.any_cons, nullish, Bool.false_or] at hany
        have hall' : (r.filter (fun v => !nullish v)).all (fun v => (v.bind number).isSome) = true := by
          simpa [List.filter_cons, nullish, number] using hall
        have := ih hany hall'
        simp only [nulled, List.map_cons, Option.getD_some, checkNums, toPyNum, bind, Except.bind]
        simp only [nulled] at this
        rw [this]; rfl
      | dbl m e =>
        simp only [List.any_cons, nullish, Bool.false_or] at hany
        have hall' : (r.filter (fun v => !nullish v)).all (fun v => (v.bind number).isSome) = true := by
          simpa [List.filter_cons, nullish, number] using hall
        have := ih hany hall'
        simp only [nulled, List.map_cons, Option.getD_some, checkNums, toPyNum, bind, Except.bind]
        simp only [nulled] at this
        rw [this]; rfl
      | _ => simp [List.filter_cons, nullish, number] at hall

theorem numbers_no_nullish (vs : List (Option Val)) (ns : List PyNum) (h : numbers vs = some ns) :
    vs.any nullish = false := by
  induction vs generalizing ns with
  | nil => rfl
  | cons v r ih =>
    cases v with
    | none => simp [numbers] at h
    | some x =>
      simp only [numbers] at h
      cases hx : number x with
      | none => simp [hx] at h
      | some n =>
        cases hr : numbers r with
        | none => simp [hx, hr] at h
        | some ms =>
          have := ih ms hr
          cases x <;> simp [number] at hx <;> simp [nullish, this]

theorem nulled_isEmpty (vs : List (Option Val)) : (nulled vs).isEmpty = vs.isEmpty := by
  cases vs <;> rfl

/-- the loop of `$add` on numbers (no booleans): the same numbers, the date set aside is kept -/
theorem checkAdd_numbers (vs : List (Option Val)) (ns : List PyNum) (d : Option Int)
    (h : numbers vs = some ns) : checkAdd (nulled vs) d = .ok (some (d, ns)) := by
  induction vs generalizing ns with
  | nil => simp [numbers] at h; subst h; cases d <;> rfl
  | cons v r ih =>
    cases v with
    | none => simp [numbers] at h
    | some x =>
      simp only [numbers] at h
      cases hx : number x with
      | none => simp [hx] at h
      | some n =>
        cases hr : numbers r with
        | none => simp [hx, hr] at h
        | some ms =>
          simp only [hx, hr, Option.some.injEq] at h
          subst h
          have := ih ms hr
          simp only [nulled] at this
          cases x <;> simp [number] at hx <;> subst hx <;> cases d <;>
            simp [nulled, checkAdd, toPyNum, bind, Except.bind, pure, Except.pure, this]

/-- a null or missing operand among numbers: the loop of `$add` returns None -/
theorem checkAdd_nullish (vs : List (Option Val)) (d : Option Int) (hany : vs.any nullish = true)
    (hall : (vs.filter (fun v => !nullish v)).all (fun v => (v.bind number).isSome) = true) :
    checkAdd (nulled vs) d = .ok none := by
  induction vs with
  | nil => simp at hany
  | cons v r ih =>
    cases v with
    | none => cases d <;> simp [nulled, checkAdd]
    | some x =>
      cases x with
      | null => cases d <;> simp [nulled, checkAdd]
      | int i =>
        simp only [List.any_cons, nullish, Bool.false_or] at hany
        have hall' : (r.filter (fun v => !nullish v)).all (fun v => (v.bind number).isSome) = true := by
          simpa [List.filter_cons, nullish, number] using hall
        have := ih hany hall'
        simp only [nulled] at this
        cases d <;>
          simp [nulled, checkAdd, toPyNum, bind, Except.bind, pure, Except.pure, this]
      | dbl m e =>
        simp only [List.any_cons, nullish, Bool.false_or] at hany
        have hall' : (r.filter (fun v => !nullish v)).all (fun v => (v.bind number).isSome) = true := by
          simpa [List.filter_cons, nullish, number] using hall
        have := ih hany hall'
        simp only [nulled] at this
        cases d <;>
          simp [nulled, checkAdd, toPyNum, bind, Except.bind, pure, Except.pure, this]
      | _ => simp [List.filter_cons, nullish, number] at hall

theorem dates_nil_filter (vs : List (Option Val)) (h : dates vs = []) :
    vs.filter (fun v => !isDate v) = vs := by
  induction vs with
  | nil => rfl
  | cons v r ih =>
    cases v with
    | none =>
      simp only [dates] at h
      rw [List.filter_cons_of_pos (by simp [isDate]), ih h]
    | some x =>
      cases x with
      | date u o =>
        cases o with
        | none => simp [dates] at h
        | some off =>
          simp only [dates] at h
          rw [List.filter_cons_of_pos (by simp [isDate]), ih h]
      | _ =>
        all_goals
          simp only [dates] at h
          rw [List.filter_cons_of_pos (by simp [isDate]), ih h]

/-- exactly one (naive) date among numbers: the loop of `$add` sets it aside -/
theorem checkAdd_date (vs : List (Option Val)) (u : Int) (ns : List PyNum)
    (hd : dates vs = [u]) (hn : numbers (vs.filter (fun v => !isDate v)) = some ns) :
    checkAdd (nulled vs) none = .ok (some (some u, ns)) := by
  induction vs generalizing ns with
  | nil => simp [dates] at hd
  | cons v r ih =>
    cases v with
    | none => simp [List.filter_cons, isDate, numbers] at hn
    | some x =>
      cases x with
      | date u' o =>
        cases o with
        | none =>
          simp only [dates, List.cons.injEq] at hd
          obtain ⟨rfl, hd'⟩ := hd
          rw [List.filter_cons_of_neg (by simp [isDate]), dates_nil_filter r hd'] at hn
          have := checkAdd_numbers r ns (some u') hn
          simp only [nulled] at this
          simp [nulled, checkAdd, this]
        | some off => simp [List.filter_cons, isDate, numbers, number] at hn
      | int i =>
        simp only [dates] at hd
        rw [List.filter_cons_of_pos (by simp [isDate])] at hn
        simp only [numbers, number] at hn
        cases hr : numbers (r.filter (fun v => !isDate v)) with
        | none => simp [hr] at hn
        | some ms =>
          simp only [hr, Option.some.injEq] at hn
          subst hn
          have := ih ms hd hr
          simp only [nulled] at this
          simp [nulled, checkAdd, toPyNum, bind, Except.bind, pure, Except.pure, this]
      | dbl m e =>
        simp only [dates] at hd
        rw [List.filter_cons_of_pos (by simp [isDate])] at hn
        simp only [numbers, number] at hn
        cases hr : numbers (r.filter (fun v => !isDate v)) with
        | none => simp [hr] at hn
        | some ms =>
          simp only [hr, Option.some.injEq] at hn
          subst hn
          have := ih ms hd hr
          simp only [nulled] at this
          simp [nulled, checkAdd, toPyNum, bind, Except.bind, pure, Except.pure, this]
      | _ => all_goals (simp [List.filter_cons, isDate, numbers, number] at hn)

/-- `$add` / `$multiply` on operands without booleans (`$add`: at most one date) -/
theorem nary_pure (k : String) (hk : k = "$add" ∨ k = "$multiply") (vs : List (Option Val))
    (r : Val) (hs : arithN k vs = .ok r) :
    naryArith k (nulled vs) = .ok r := by
  unfold arithN at hs
  by_cases he : vs.isEmpty = true
  · simp [he, unmodelled] at hs
  · have he' : vs.isEmpty = false := by simpa using he
    simp only [he', Bool.false_eq_true, if_false] at hs
    by_cases hn : vs.any nullish = true
    · simp only [hn, if_true] at hs
      split at hs
      · rename_i hall
        cases hs
        rcases hk with rfl | rfl <;>
          simp [naryArith, nulled_isEmpty, he', checkNums_nullish vs hn hall,
            checkAdd_nullish vs none hn hall, bind, Except.bind, pure, Except.pure]
      · simp [unmodelled] at hs
    · have hn' : vs.any nullish = false := by simpa using hn
      simp only [hn', Bool.false_eq_true, if_false] at hs
      cases hnum : numbers vs with
      | none =>
        simp only [hnum] at hs
        rcases hk with rfl | rfl
        · -- `$add` with a non-number: one date and numbers
          simp only [bne_self_eq_false, Bool.false_eq_true, if_false] at hs
          cases hds : dates vs with
          | nil => simp [hds] at hs
          | cons u t =>
            cases t with
            | cons u2 t2 => simp [hds] at hs
            | nil =>
              cases hnn : numbers (vs.filter (fun v => !isDate v)) with
              | none => simp [hds, hnn] at hs
              | some ns =>
                simp only [hds, hnn] at hs
                have hc := checkAdd_date vs u ns hds hnn
                simp only [naryArith, nulled_isEmpty, he', Bool.false_eq_true, if_false, if_true, hc,
                  bind, Except.bind, ← sumAll_eq]
                simp only [bind, Except.bind] at hs
                cases hsum : sumAll ns (.i 0) with
                | error e => simp [hsum] at hs
                | ok tot =>
                  simp only [hsum] at hs ⊢
                  rw [← hs]
                  cases tot <;> rfl
        · simp at hs
      | some ns =>
        simp only [hnum] at hs
        have hc := checkNums_numbers vs ns hnum
        have hca := checkAdd_numbers vs ns none hnum
        rcases hk with rfl | rfl
        · simp only [if_true] at hs
          simp [naryArith, nulled_isEmpty, he', hca, ← sumAll_eq, bind, Except.bind, pure,
            Except.pure] at hs ⊢
          exact hs
        · have hne : ¬ ("$multiply" = "$add") := by decide
          simp only [hne, if_false] at hs
          simp only [naryArith, nulled_isEmpty, he', Bool.false_eq_true, if_false, hne, hc, bind,
            Except.bind, pure, Except.pure]
          cases vs with
          | nil => simp at he
          | cons v t =>
            cases t with
            | nil =>
              cases v with
              | none => simp [numbers] at hnum
              | some x => simpa [nulled] using hs
            | cons w t' =>
              cases ns with
              | nil => simp [unmodelled] at hs
              | cons n ms =>
                simp only [nulled, List.map_cons] 
                simpa [← mulAll_eq, bind, Except.bind] using hs

theorem isNull_getD (a : Option Val) : isNull (a.getD .null) = nullish a := by
  cases a with
  | none => rfl
  | some x => cases x <;> rfl

theorem pyMod_eq (p q : PyNum) (hq : q.isZero = false) :
    pyMod p q = intRes Int.tmod p q (pyFmod p q) := by
  cases p <;> cases q <;> try rfl
  rename_i a b
  have hb : (b == 0) = false := by simpa [PyNum.isZero] using hq
  simp [pyMod, intRes, hb]

theorem pyPowT_ok (p q : PyNum) (r : Val)
    (hs : (match p, q with
     | .i a, .i b => if (b ≥ 0 && b ≤ 64) = true then
         (if (a ^ b.toNat).natAbs < 2 ^ 63 then (.ok (.int (a ^ b.toNat)) : R Val) else unmodelled)
       else unmodelled
     | _, _ => pyPow p q) = .ok r) : pyPowT p q = .ok r := by
  cases p with
  | f m e => cases q <;> exact hs
  | i a =>
    cases q with
    | f m e => exact hs
    | i b =>
      simp only at hs
      split at hs
      · rename_i hb
        split at hs
        · rename_i hlt
          simp only [Bool.and_eq_true, decide_eq_true_eq] at hb
          have h1 : -(2 : Int) ^ 63 ≤ a ^ b.toNat := by omega
          have h2 : a ^ b.toNat < (2 : Int) ^ 63 := by omega
          simp only [pyPowT, hb.1, hb.2, h1, h2, decide_true, Bool.and_self, if_true]
          exact hs
        · simp [unmodelled] at hs
      · simp [unmodelled] at hs

/-- numbers on both sides -/
theorem binary_num (k : String) (p q : PyNum) (x y : Val) (hx : number x = some p)
    (hy : number y = some q)
    (hk : k = "$subtract" ∨ k = "$divide" ∨ k = "$mod" ∨ k = "$pow")
    (r : Val) (hs : numOp k p q = .ok r) :
    binaryArith k x y = .ok r := by
  unfold numOp at hs
  have hnx : isNull x = false := by cases x <;> simp [number] at hx <;> rfl
  have hny : isNull y = false := by cases y <;> simp [number] at hy <;> rfl
  have htx : toPyNum x = some p := by cases x <;> simp [number] at hx <;> simp [toPyNum, hx]
  have hty : toPyNum y = some q := by cases y <;> simp [number] at hy <;> simp [toPyNum, hy]
  have hbx : isBoolV x = false := by cases x <;> simp [number] at hx <;> rfl
  have hby : isBoolV y = false := by cases y <;> simp [number] at hy <;> rfl
  rcases hk with rfl | rfl | rfl | rfl
  · simp only [if_true] at hs
    have : pySubtract x y = (p.sub q).toVal := by
      cases x <;> simp [number] at hx <;> cases y <;> simp [number] at hy <;>
        simp [pySubtract, toPyNum, hx, hy]
    simp [binaryArith, hnx, hny, hbx, hby, this, hs]
  · have h1 : ¬ ("$divide" = "$subtract") := by decide
    simp only [h1, if_false, if_true] at hs
    split at hs
    · cases hs
    · simp [binaryArith, hnx, hny, hbx, hby, htx, hty, hs]
  · have h1 : ¬ ("$mod" = "$subtract") := by decide
    have h2 : ¬ ("$mod" = "$divide") := by decide
    simp only [h1, h2, if_false, if_true] at hs
    split at hs
    · cases hs
    · rename_i hz
      have hz' : q.isZero = false := by simpa using hz
      simp [binaryArith, hnx, hny, hbx, hby, htx, hty, pyMod_eq p q hz', hs]
  · have h1 : ¬ ("$pow" = "$subtract") := by decide
    have h2 : ¬ ("$pow" = "$divide") := by decide
    have h3 : ¬ ("$pow" = "$mod") := by decide
    simp only [h1, h2, h3, if_false, if_true] at hs
    have := pyPowT_ok p q r hs
    simp [binaryArith, hnx, hny, hbx, hby, htx, hty, this]

theorem dateMinus_pure (u : Int) (y : Val) (r : Val)
    (hs : dateMinus u y = .ok r) : pySubtract (.date u none) y = .ok r := by
  cases y with
  | date u' o' =>
    cases o' with
    | none => simpa [dateMinus, pySubtract] using hs
    | some off => simp [dateMinus] at hs
  | int n => simpa [dateMinus, pySubtract, toPyNum] using hs
  | dbl m e => simpa [dateMinus, pySubtract, toPyNum] using hs
  | _ => simp [dateMinus] at hs

/-- the binary arithmetic operators (a boolean operand is rejected by the rules as by the code) -/
theorem binary_pure (k : String) (hk : k = "$subtract" ∨ k = "$divide" ∨ k = "$mod" ∨ k = "$pow")
    (a b : Option Val)
    (r : Val) (hs : arith2 k a b = .ok r) :
    binaryArith k (a.getD .null) (b.getD .null) = .ok r := by
  unfold arith2 at hs
  by_cases hn : (nullish a || nullish b) = true
  · simp only [hn, if_true] at hs
    split at hs
    · cases hs
      simp [binaryArith, isNull_getD, hn]
    · simp [unmodelled] at hs
  · have hn' : (nullish a || nullish b) = false := by simpa using hn
    simp only [hn', Bool.false_eq_true, if_false] at hs
    simp only [Bool.or_eq_false_iff] at hn'
    cases a with
    | none => simp [nullish] at hn'
    | some x =>
      cases b with
      | none => simp [nullish] at hn'
      | some y =>
        have hnx : isNull x = false := by cases x <;> simp [nullish] at hn' <;> rfl
        have hny : isNull y = false := by cases y <;> simp [nullish] at hn' <;> rfl
        simp only [Option.getD_some]
        cases x with
        | date u o =>
          cases o with
          | none =>
            simp only at hs
            split at hs
            · rename_i hsub
              subst hsub
              have := dateMinus_pure u y r hs
              have hby : isBoolV y = false := by
                cases y <;> first | rfl | simp [dateMinus] at hs
              have hbx : isBoolV (Val.date u none) = false := rfl
              simp [binaryArith, hnx, hny, hbx, hby, this]
            · cases hs
          | some off => simp [number] at hs
        | int i =>
          cases hy : number y with
          | some q =>
            simp only [hy] at hs
            exact binary_num k (.i i) q _ y rfl hy hk r (by simpa [number] using hs)
          | none => simp only [hy] at hs; simp [number] at hs
        | dbl m e =>
          cases hy : number y with
          | some q =>
            simp only [hy] at hs
            exact binary_num k (.f m e) q _ y rfl hy hk r (by simpa [number] using hs)
          | none => simp only [hy] at hs; simp [number] at hs
        | _ => all_goals (simp [number] at hs)

end MongoModel.Proofs.C04
