/-
  Proofs.C04Spec4 — `eval_eq_spec`, part 4: the operator bodies of the model against those of
  the oracle, on evaluated operands inside D.
-/
import Proofs.C04Spec3

set_option linter.unusedSimpArgs false

namespace MongoModel.Proofs.C04
open MongoModel MongoModel.Expr MongoModel.Spec

/-- `parse_many` under `ignore_missing_keys`: missing operands read as null -/
def nulled (vs : List (Option Val)) : List Val := vs.map (·.getD .null)

theorem allSome_manyTrue (vs : List (Option Val)) :
    allSome (vs.map (manyItem true)) = some (nulled vs) := by
  induction vs with
  | nil => rfl
  | cons v r ih => cases v <;> simp [allSome, manyItem, ih, nulled]

theorem allSome_manyFalse_some (vs : List Val) :
    allSome ((vs.map some).map (manyItem false)) = some vs := by
  induction vs with
  | nil => rfl
  | cons v r ih =>
    simp only [List.map_cons, manyItem, allSome, ih, Option.map_some]

theorem sumAll_eq (ns : List PyNum) (acc : PyNum) : sumAll ns acc = sumNums ns acc := by
  induction ns generalizing acc with
  | nil => rfl
  | cons n r ih =>
    simp only [sumAll, sumNums, bind, Except.bind]
    cases (acc.add n).check <;> simp [ih]

theorem mulAll_eq (ns : List PyNum) (acc : PyNum) : mulAll ns acc = mulNums ns acc := by
  induction ns generalizing acc with
  | nil => rfl
  | cons n r ih =>
    simp only [mulAll, mulNums]
    cases acc.mul n with
    | none => rfl
    | some a =>
      simp only [bind, Except.bind]
      cases a.check <;> simp [ih]

/-- operands that are numbers (no booleans): the model's `checkNums` finds the same numbers -/
theorem checkNums_numbers (vs : List (Option Val)) (ns : List PyNum)
    (h : numbers vs = some ns) : checkNums (nulled vs) = .ok (some ns) := by
  induction vs generalizing ns with
  | nil => simp [numbers] at h; subst h; rfl
  | cons v r ih =>
    cases v with
    | none => simp [numbers] at h
    | some x =>
      simp only [numbers] at h
      cases hx : number x with
      | none => simp [hx] at h
      | some n =>
        cases hr : numbers r with
        | none => simp [hx, hr] at h
        | some ms =>
          simp only [hx, hr, Option.some.injEq] at h
          subst h
          have := ih ms hr
          simp only [nulled] at this
          cases x <;> simp [number] at hx <;> subst hx <;>
            simp [nulled, checkNums, toPyNum, bind, Except.bind, pure, Except.pure, this]

/-- a null or missing operand among numbers: the loop returns None -/
theorem checkNums_nullish (vs : List (Option Val)) (hany : vs.any nullish = true)
    (hall : (vs.filter (fun v => !nullish v)).all (fun v => (v.bind number).isSome) = true) :
    checkNums (nulled vs) = .ok none := by
  induction vs with
  | nil => simp at hany
  | cons v r ih =>
    cases v with
    | none => simp [nulled, checkNums]
    | some x =>
      cases x with
      | null => simp [nulled, checkNums]
      | int i =>
        simp only [List.any_cons, nullish, Bool.false_or] at hany
        have hall' : (r.filter (fun v => !nullish v)).all (fun v => (v.bind number).isSome) = true := by
          simpa [List.filter_cons, nullish, number] using hall
        have := ih hany hall'
        simp only [nulled, List.map_cons, Option.getD_some, checkNums, toPyNum, bind, Except.bind]
        simp only [nulled] at this
        rw [this]; rfl
      | dbl m e =>
        simp only [List.any_cons, nullish, Bool.false_or] at hany
        have hall' : (r.filter (fun v => !nullish v)).all (fun v => (v.bind number).isSome) = true := by
          simpa [List.filter_cons, nullish, number] using hall
        have := ih hany hall'
        simp only [nulled, List.map_cons, Option.getD_some, checkNums, toPyNum, bind, Except.bind]
        simp only [nulled] at this
        rw [this]; rfl
      | _ => simp [List.filter_cons, nullish, number] at hall

theorem numbers_no_nullish (vs : List (Option Val)) (ns : List PyNum) (h : numbers vs = some ns) :
    vs.any nullish = false := by
  induction vs generalizing ns with
  | nil => rfl
  | cons v r ih =>
    cases v with
    | none => simp [numbers] at h
    | some x =>
      simp only [numbers] at h
      cases hx : number x with
      | none => simp [hx] at h
      | some n =>
        cases hr : numbers r with
        | none => simp [hx, hr] at h
        | some ms =>
          have := ih ms hr
          cases x <;> simp [number] at hx <;> simp [nullish, this]

theorem nulled_isEmpty (vs : List (Option Val)) : (nulled vs).isEmpty = vs.isEmpty := by
  cases vs <;> rfl

/-- `$add` / `$multiply` on operands without booleans and dates -/
theorem nary_pure (k : String) (hk : k = "$add" ∨ k = "$multiply") (vs : List (Option Val))
    (hd : vs.any isDateO = false) (r : Val) (hs : arithN k vs = .ok r) :
    naryArith k (nulled vs) = .ok r := by
  unfold arithN at hs
  by_cases he : vs.isEmpty = true
  · simp [he, unmodelled] at hs
  · have he' : vs.isEmpty = false := by simpa using he
    simp only [he', Bool.false_eq_true, if_false] at hs
    by_cases hn : vs.any nullish = true
    · simp only [hn, if_true] at hs
      split at hs
      · rename_i hall
        cases hs
        simp [naryArith, nulled_isEmpty, he', checkNums_nullish vs hn hall, bind, Except.bind,
          pure, Except.pure]
      · simp [unmodelled] at hs
    · have hn' : vs.any nullish = false := by simpa using hn
      simp only [hn', Bool.false_eq_true, if_false] at hs
      cases hnum : numbers vs with
      | none =>
        simp only [hnum] at hs
        rcases hk with rfl | rfl
        · -- `$add` with a non-number: only dates could give a value, and there are none
          have : dates vs = [] := by
            clear hs hnum hn hn' he he'
            induction vs with
            | nil => rfl
            | cons v t ih =>
              simp only [List.any_cons, Bool.or_eq_false_iff] at hd
              have ht := ih hd.2
              cases v with
              | none => simpa [dates] using ht
              | some x =>
                cases x with
                | date u o => simp [isDateO] at hd
                | _ => simpa [dates] using ht
          simp [this] at hs
        · simp at hs
      | some ns =>
        simp only [hnum] at hs
        have hc := checkNums_numbers vs ns hnum
        rcases hk with rfl | rfl
        · simp only [if_true] at hs
          simp [naryArith, nulled_isEmpty, he', hc, ← sumAll_eq, bind, Except.bind, pure,
            Except.pure] at hs ⊢
          exact hs
        · have hne : ¬ ("$multiply" = "$add") := by decide
          simp only [hne, if_false] at hs
          simp only [naryArith, nulled_isEmpty, he', Bool.false_eq_true, if_false, hc, bind,
            Except.bind, pure, Except.pure]
          cases vs with
          | nil => simp at he
          | cons v t =>
            cases t with
            | nil =>
              cases v with
              | none => simp [numbers] at hnum
              | some x => simpa [nulled] using hs
            | cons w t' =>
              cases ns with
              | nil => simp [unmodelled] at hs
              | cons n ms =>
                simp only [nulled, List.map_cons] 
                simpa [← mulAll_eq, bind, Except.bind] using hs

theorem isNull_getD (a : Option Val) : isNull (a.getD .null) = nullish a := by
  cases a with
  | none => rfl
  | some x => cases x <;> rfl

/-- numbers on both sides -/
theorem binary_num (k : String) (p q : PyNum) (x y : Val) (hx : number x = some p)
    (hy : number y = some q) (hint : (k = "$mod" ∨ k = "$pow") → ¬ (isIntO (some x) = true ∧ isIntO (some y) = true))
    (hk : k = "$subtract" ∨ k = "$divide" ∨ k = "$mod" ∨ k = "$pow")
    (r : Val) (hs : numOp k p q = .ok r) :
    binaryArith k x y = .ok r := by
  unfold numOp at hs
  have hnx : isNull x = false := by cases x <;> simp [number] at hx <;> rfl
  have hny : isNull y = false := by cases y <;> simp [number] at hy <;> rfl
  have htx : toPyNum x = some p := by cases x <;> simp [number] at hx <;> simp [toPyNum, hx]
  have hty : toPyNum y = some q := by cases y <;> simp [number] at hy <;> simp [toPyNum, hy]
  rcases hk with rfl | rfl | rfl | rfl
  · simp only [if_true] at hs
    have : pySubtract x y = (p.sub q).toVal := by
      cases x <;> simp [number] at hx <;> cases y <;> simp [number] at hy <;>
        simp [pySubtract, toPyNum, hx, hy]
    simp [binaryArith, hnx, hny, this, hs]
  · have h1 : ¬ ("$divide" = "$subtract") := by decide
    simp only [h1, if_false, if_true] at hs
    split at hs
    · cases hs
    · simp [binaryArith, hnx, hny, htx, hty, hs]
  · have h1 : ¬ ("$mod" = "$subtract") := by decide
    have h2 : ¬ ("$mod" = "$divide") := by decide
    simp only [h1, h2, if_false, if_true] at hs
    split at hs
    · cases hs
    · have hi := hint (Or.inl rfl)
      have : intRes Int.tmod p q (pyFmod p q) = pyFmod p q := by
        cases p <;> cases q <;> try rfl
        exfalso; apply hi
        cases x <;> simp [number] at hx <;> cases y <;> simp [number] at hy <;> simp [isIntO]
      rw [this] at hs
      simp [binaryArith, hnx, hny, htx, hty, hs]
  · have h1 : ¬ ("$pow" = "$subtract") := by decide
    have h2 : ¬ ("$pow" = "$divide") := by decide
    have h3 : ¬ ("$pow" = "$mod") := by decide
    simp only [h1, h2, h3, if_false, if_true] at hs
    have hi := hint (Or.inr rfl)
    have : pyPow p q = .ok r := by
      cases p <;> cases q <;> try exact hs
      exfalso; apply hi
      cases x <;> simp [number] at hx <;> cases y <;> simp [number] at hy <;> simp [isIntO]
    simp [binaryArith, hnx, hny, htx, hty, this]

theorem dateMinus_pure (u : Int) (y : Val) (hb : isBoolO (some y) = false) (r : Val)
    (hs : dateMinus u y = .ok r) : pySubtract (.date u none) y = .ok r := by
  cases y with
  | date u' o' =>
    cases o' with
    | none => simpa [dateMinus, pySubtract] using hs
    | some off => simp [dateMinus] at hs
  | int n => simpa [dateMinus, pySubtract, toPyNum] using hs
  | dbl m e => simpa [dateMinus, pySubtract, toPyNum] using hs
  | bool x => simp [isBoolO] at hb
  | _ => simp [dateMinus] at hs

/-- the binary arithmetic operators on operands without booleans -/
theorem binary_pure (k : String) (hk : k = "$subtract" ∨ k = "$divide" ∨ k = "$mod" ∨ k = "$pow")
    (a b : Option Val) (hbb : isBoolO b = false)
    (hint : (k = "$mod" ∨ k = "$pow") → ¬ (isIntO a = true ∧ isIntO b = true))
    (r : Val) (hs : arith2 k a b = .ok r) :
    binaryArith k (a.getD .null) (b.getD .null) = .ok r := by
  unfold arith2 at hs
  by_cases hn : (nullish a || nullish b) = true
  · simp only [hn, if_true] at hs
    split at hs
    · cases hs
      simp [binaryArith, isNull_getD, hn]
    · simp [unmodelled] at hs
  · have hn' : (nullish a || nullish b) = false := by simpa using hn
    simp only [hn', Bool.false_eq_true, if_false] at hs
    simp only [Bool.or_eq_false_iff] at hn'
    cases a with
    | none => simp [nullish] at hn'
    | some x =>
      cases b with
      | none => simp [nullish] at hn'
      | some y =>
        have hnx : isNull x = false := by cases x <;> simp [nullish] at hn' <;> rfl
        have hny : isNull y = false := by cases y <;> simp [nullish] at hn' <;> rfl
        simp only [Option.getD_some]
        cases x with
        | date u o =>
          cases o with
          | none =>
            simp only at hs
            split at hs
            · rename_i hsub
              subst hsub
              have := dateMinus_pure u y hbb r hs
              simp [binaryArith, hnx, hny, this]
            · cases hs
          | some off => simp [number] at hs
        | int i =>
          cases hy : number y with
          | some q =>
            simp only [hy] at hs
            exact binary_num k (.i i) q _ y rfl hy hint hk r (by simpa [number] using hs)
          | none => simp only [hy] at hs; simp [number] at hs
        | dbl m e =>
          cases hy : number y with
          | some q =>
            simp only [hy] at hs
            exact binary_num k (.f m e) q _ y rfl hy hint hk r (by simpa [number] using hs)
          | none => simp only [hy] at hs; simp [number] at hs
        | _ => all_goals (simp [number] at hs)

end MongoModel.Proofs.C04
