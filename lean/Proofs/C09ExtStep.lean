/-
  Proofs.C09ExtStep — the bulk loop, the builders and the extended step are blind to expired
  documents.
-/
import Proofs.C09Ext
import Proofs.C15Loop

namespace MongoModel.Proofs.C09Lemmas
open MongoModel MongoModel.Spec

theorem loop_rel (cfg : Cfg) (now : Int) (ordered : Bool) (reqs : List Val) :
    ∀ (idx : Nat) (c c' : Coll) (t : BulkTotals), expire now c = .ok c' →
      Rel now (bulkLoop cfg now ordered reqs idx c t) (bulkLoop cfg now ordered reqs idx c' t) := by
  induction reqs with
  | nil =>
    intro idx c c' t h
    rw [bulkLoop, bulkLoop]
    split <;> exact rel_base h _
  | cons r rest ih =>
    intro idx c c' t h
    rw [C15Lemmas.loop_cons, C15Lemmas.loop_cons]
    rcases bulkOne_agree h cfg idx r with he | ⟨o, h1, h2⟩
    · rw [he]; exact ⟨rfl, rfl⟩
    · rw [h1, h2]
      cases o with
      | ok f => exact ih _ _ _ _ h
      | writeErr e =>
        dsimp only
        split
        · exact rel_base h _
        · exact ih _ _ _ _ h
      | abort e => exact rel_base h _

theorem bulkWrite_rel (cfg : Cfg) (now : Int) (c c' : Coll) (reqs : List Val) (ordered : Bool)
    (h : expire now c = .ok c') :
    Rel now (bulkWrite cfg now c reqs ordered) (bulkWrite cfg now c' reqs ordered) := by
  unfold bulkWrite
  split
  · exact rel_base h _
  · split
    · exact rel_base h _
    · exact loop_rel cfg now ordered reqs 0 c c' {} h

theorem execute_rel (cfg : Cfg) (now : Int) (c c' : Coll) (b : Builder)
    (h : expire now c = .ok c') :
    (b.execute cfg now c).2 = (b.execute cfg now c').2 ∧
    expire now (b.execute cfg now c).1 = expire now (b.execute cfg now c').1 := by
  unfold Builder.execute
  split
  · exact ⟨rfl, (rel_base h (.err .invalidOp)).2⟩
  · split
    · exact ⟨rfl, (rel_base h (.err .invalidOp)).2⟩
    · have := loop_rel cfg now b.ordered b.reqs 0 c c' {} h
      exact ⟨by simp only [this.1], this.2⟩

theorem executeTimes_rel (cfg : Cfg) (now : Int) (n : Nat) (c c' : Coll) (b : Builder)
    (h : expire now c = .ok c') :
    (executeTimes cfg now n c b).2 = (executeTimes cfg now n c' b).2 ∧
    expire now (executeTimes cfg now n c b).1 = expire now (executeTimes cfg now n c' b).1 := by
  cases n with
  | zero => exact ⟨rfl, (rel_base h (.err .invalidOp)).2⟩
  | succ n =>
    rw [C15Once.executeTimes_spec, C15Once.executeTimes_spec]
    have := execute_rel cfg now c c' b h
    exact ⟨by simp only [this.1], this.2⟩

theorem bulkBuilder_rel (cfg : Cfg) (now : Int) (c c' : Coll) (reqs : List Val) (ordered : Bool)
    (times : Nat) (h : expire now c = .ok c') :
    Rel now (bulkBuilder cfg now c reqs ordered times) (bulkBuilder cfg now c' reqs ordered times) := by
  unfold bulkBuilder
  split
  · exact rel_base h _
  · have := executeTimes_rel cfg now times c c' { reqs := reqs, ordered := ordered } h
    dsimp only
    rw [this.1]
    split
    · exact ⟨rfl, this.2⟩
    · exact ⟨rfl, this.2⟩

/-- an operation name `stepColl` does not know -/
theorem stepColl_unknown (cfg : Cfg) (now : Int) (c : Coll) (k : String) (rest : List Val)
    (hk : ["find_one", "find_one_and_update", "find_one_and_replace", "find_one_and_delete",
      "bulk_write", "bulk_builder"].contains k = true) :
    stepColl cfg now c (.arr (.str k :: rest)) = (c, .err .unmodelled) := by
  simp only [List.contains_cons, List.contains_nil, Bool.or_false, Bool.or_eq_true,
    beq_iff_eq] at hk
  rcases hk with rfl | rfl | rfl | rfl | rfl | rfl <;>
  · unfold stepColl
    split <;> first | rfl | (rename_i heq; simp at heq)

theorem stepX_rel {now : Int} {c c' : Coll} (h : expire now c = .ok c') (cfg : Cfg) (op : Val)
    (hop : dataOpX op = true) : Rel now (stepX cfg now c op) (stepX cfg now c' op) := by
  have hs := stepX.eq_def cfg now c op
  split at hs
  case h_1 f proj sortV =>
    clear hs
    rw [stepX_find_one, stepX_find_one]
    split
    · exact rel_base h _
    · exact rel_of_agree h outOpt (findOne_agree h f proj _)
  case h_2 f u proj sortV up after =>
    clear hs
    rw [C08Lemmas.stepX_fau, C08Lemmas.stepX_fau]
    split
    · exact rel_base h _
    · exact famStep_rel h cfg _ _ _ _ _ _
  case h_3 f u proj sortV up after =>
    clear hs
    rw [C08Lemmas.stepX_far, C08Lemmas.stepX_far]
    split
    · exact rel_base h _
    · exact famStep_rel h cfg _ _ _ _ _ _
  case h_4 f proj sortV =>
    clear hs
    rw [C08Lemmas.stepX_fad, C08Lemmas.stepX_fad]
    exact famStep_rel h cfg _ _ _ _ _ _
  case h_5 reqs ordered =>
    clear hs
    exact bulkWrite_rel cfg now c c' reqs (boolOf ordered) h
  case h_6 reqs ordered times =>
    clear hs
    exact bulkBuilder_rel cfg now c c' reqs (boolOf ordered) times.toNat h
  case h_7 h1 h2 h3 h4 h5 h6 =>
    clear hs
    have e1 : stepX cfg now c op = stepColl cfg now c op := by
      rw [stepX.eq_7] <;> assumption
    have e2 : stepX cfg now c' op = stepColl cfg now c' op := by
      rw [stepX.eq_7] <;> assumption
    rw [e1, e2]
    unfold dataOpX at hop
    rw [Bool.or_eq_true] at hop
    rcases hop with hd | hx
    · exact step_rel h cfg op hd
    · split at hx
      · rename_i k rest
        rw [stepColl_unknown cfg now c k rest hx, stepColl_unknown cfg now c' k rest hx]
        exact rel_base h _
      · cases hx

end MongoModel.Proofs.C09Lemmas

namespace MongoModel.Proofs.C09Ext
open MongoModel MongoModel.Spec MongoModel.Proofs.C09Lemmas

theorem stepX_expired_invisible (cfg : Cfg) (now : Int) (c c' : Coll) (op : Val)
    (h : expire now c = .ok c') (hop : dataOpX op = true) :
    (stepX cfg now c op).2 = (stepX cfg now c' op).2 ∧
    expire now (stepX cfg now c op).1 = expire now (stepX cfg now c' op).1 :=
  stepX_rel h cfg op hop

theorem agree_rel {α : Type} {now : Int} {c c' : Coll} (h : expire now c = .ok c')
    {x y : Coll × R α} (hA : Agree c c' x y) : x.2 = y.2 ∧ expire now x.1 = expire now y.1 := by
  rcases hA with rfl | ⟨e, rfl, rfl⟩
  · exact ⟨rfl, rfl⟩
  · exact ⟨rfl, by rw [h, expire_idem now c c' h]⟩

theorem find_one_expired_invisible (now : Int) (c c' : Coll) (f proj : Val)
    (sort : Option SortSpec) (h : expire now c = .ok c') :
    (findOneColl now c f proj sort).2 = (findOneColl now c' f proj sort).2 ∧
    expire now (findOneColl now c f proj sort).1 = expire now (findOneColl now c' f proj sort).1 :=
  agree_rel h (findOne_agree h f proj sort)

theorem fam_expired_invisible (cfg : Cfg) (now : Int) (c c' : Coll) (q proj : Val)
    (upd : Option Val) (upsert : Bool) (sort : Option SortSpec) (after : Bool)
    (h : expire now c = .ok c') :
    (findAndModify cfg now c q proj upd upsert sort after).2 =
      (findAndModify cfg now c' q proj upd upsert sort after).2 ∧
    expire now (findAndModify cfg now c q proj upd upsert sort after).1 =
      expire now (findAndModify cfg now c' q proj upd upsert sort after).1 :=
  agree_rel h (fam_agree h cfg q proj upd upsert sort after)

theorem bulk_expired_invisible (cfg : Cfg) (now : Int) (c c' : Coll) (reqs : List Val)
    (ordered : Bool) (h : expire now c = .ok c') :
    (bulkWrite cfg now c reqs ordered).2 = (bulkWrite cfg now c' reqs ordered).2 ∧
    expire now (bulkWrite cfg now c reqs ordered).1 =
      expire now (bulkWrite cfg now c' reqs ordered).1 :=
  bulkWrite_rel cfg now c c' reqs ordered h

end MongoModel.Proofs.C09Ext
