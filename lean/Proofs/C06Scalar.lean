/-
  Proofs.C06Scalar — Python `==` on scalars and, more generally, on keyable values (anything but an
  array, documents with pairwise distinct keys) is an equivalence; tuples of them (`keyEq`).
-/
import Spec.Unique
import Proofs.C05Wf
import Mathlib.Tactic.LinearCombination

namespace MongoModel.Proofs.C06Lemmas
open MongoModel MongoModel.Spec

/-! ### numbers -/

theorem Num.eq_refl (a : Num) : Num.eq a a = true := by simp [Num.eq]

theorem Num.eq_symm (a b : Num) : Num.eq a b = Num.eq b a := by
  simp only [Num.eq]
  exact Bool.eq_iff_iff.mpr (by simp only [beq_iff_eq]; exact eq_comm)

theorem Num.eq_trans {a b c : Num} (h1 : Num.eq a b = true) (h2 : Num.eq b c = true) :
    Num.eq a c = true := by
  simp only [Num.eq, beq_iff_eq] at *
  have hp : (2 : Int) ^ b.e ≠ 0 := pow_ne_zero _ (by decide)
  apply Int.eq_of_mul_eq_mul_right hp
  linear_combination (2 : Int) ^ c.e * h1 + (2 : Int) ^ a.e * h2

theorem beq_comm_int (i j : Int) : (i == j) = (j == i) :=
  Bool.eq_iff_iff.mpr (by simp only [beq_iff_eq]; exact eq_comm)

/-- on numeric values `pyEq` is `Num.eq` of the numeric views -/
theorem pyEq_num {x y : Val} {a b : Num} (hx : x.num? = some a) (hy : y.num? = some b) :
    pyEq x y = Num.eq a b := by
  cases x <;> simp only [Val.num?, Option.some.injEq, reduceCtorEq] at hx <;>
  cases y <;> simp only [Val.num?, Option.some.injEq, reduceCtorEq] at hy <;>
  subst hx <;> subst hy <;> simp only [pyEq, Num.eq, pow_zero, mul_one]
  all_goals first
    | rfl
    | exact beq_comm_int _ _
    | (rename_i p q; cases p <;> cases q <;> decide)

theorem isScalar_cases {y : Val} (hs : isScalar y = true) :
    y = .null ∨ (∃ b, y = .bool b) ∨ (∃ i, y = .int i) ∨ (∃ m e, y = .dbl m e) ∨
    (∃ s, y = .str s) ∨ (∃ u, y = .date u none) ∨ (∃ u o, y = .date u (some o)) ∨ (∃ n, y = .oid n) := by
  cases y with
  | date u o => cases o <;> simp
  | doc fs => simp [isScalar] at hs
  | arr xs => simp [isScalar] at hs
  | _ => simp

theorem pyEq_num_left {x y : Val} {a : Num} (hx : x.num? = some a) (hy : y.num? = none)
    (hs : isScalar y = true) : pyEq x y = false := by
  rcases isScalar_cases hs with rfl | ⟨b, rfl⟩ | ⟨i, rfl⟩ | ⟨m, e, rfl⟩ | ⟨s, rfl⟩ | ⟨u, rfl⟩ |
    ⟨u, o, rfl⟩ | ⟨n, rfl⟩ <;>
  simp only [Val.num?, reduceCtorEq] at hy <;>
  cases x <;> simp only [Val.num?, reduceCtorEq] at hx <;> simp [pyEq]

theorem pyEq_num_right {x y : Val} {a : Num} (hx : x.num? = none) (hy : y.num? = some a)
    (hs : isScalar x = true) : pyEq x y = false := by
  rcases isScalar_cases hs with rfl | ⟨b, rfl⟩ | ⟨i, rfl⟩ | ⟨m, e, rfl⟩ | ⟨s, rfl⟩ | ⟨u, rfl⟩ |
    ⟨u, o, rfl⟩ | ⟨n, rfl⟩ <;>
  simp only [Val.num?, reduceCtorEq] at hx <;>
  cases y <;> simp only [Val.num?, reduceCtorEq] at hy <;> simp [pyEq]

theorem nonnum_cases {y : Val} (hs : isScalar y = true) (hn : y.num? = none) :
    y = .null ∨ (∃ s, y = .str s) ∨ (∃ u, y = .date u none) ∨ (∃ u o, y = .date u (some o)) ∨
    (∃ n, y = .oid n) := by
  rcases isScalar_cases hs with rfl | ⟨b, rfl⟩ | ⟨i, rfl⟩ | ⟨m, e, rfl⟩ | ⟨s, rfl⟩ | ⟨u, rfl⟩ |
    ⟨u, o, rfl⟩ | ⟨n, rfl⟩ <;> simp [Val.num?] at hn ⊢

/-! ### scalars -/

theorem pyEq_refl_scalar {x : Val} (hs : isScalar x = true) : pyEq x x = true := by
  rcases isScalar_cases hs with rfl | ⟨b, rfl⟩ | ⟨i, rfl⟩ | ⟨m, e, rfl⟩ | ⟨s, rfl⟩ | ⟨u, rfl⟩ |
    ⟨u, o, rfl⟩ | ⟨n, rfl⟩ <;> simp [pyEq, Num.eq]

theorem pyEq_symm_scalar {x y : Val} (hx : isScalar x = true) (hy : isScalar y = true) :
    pyEq x y = pyEq y x := by
  cases hxn : x.num? with
  | some a =>
    cases hyn : y.num? with
    | some b => rw [pyEq_num hxn hyn, pyEq_num hyn hxn, Num.eq_symm]
    | none => rw [pyEq_num_left hxn hyn hy, pyEq_num_right hyn hxn hy]
  | none =>
    cases hyn : y.num? with
    | some b => rw [pyEq_num_right hxn hyn hx, pyEq_num_left hyn hxn hx]
    | none =>
      rcases nonnum_cases hx hxn with rfl | ⟨s, rfl⟩ | ⟨u, rfl⟩ | ⟨u, o, rfl⟩ | ⟨n, rfl⟩ <;>
      rcases nonnum_cases hy hyn with rfl | ⟨s', rfl⟩ | ⟨u', rfl⟩ | ⟨u', o', rfl⟩ | ⟨n', rfl⟩ <;>
      simp only [pyEq] <;>
      exact Bool.eq_iff_iff.mpr (by simp only [beq_iff_eq]; exact eq_comm)

theorem pyEq_trans_scalar {x y z : Val} (hx : isScalar x = true) (hy : isScalar y = true)
    (hz : isScalar z = true) (h1 : pyEq x y = true) (h2 : pyEq y z = true) : pyEq x z = true := by
  cases hxn : x.num? with
  | some a =>
    cases hyn : y.num? with
    | none => rw [pyEq_num_left hxn hyn hy] at h1; cases h1
    | some b =>
      cases hzn : z.num? with
      | none => rw [pyEq_num_left hyn hzn hz] at h2; cases h2
      | some c =>
        rw [pyEq_num hxn hyn] at h1
        rw [pyEq_num hyn hzn] at h2
        rw [pyEq_num hxn hzn]
        exact Num.eq_trans h1 h2
  | none =>
    cases hyn : y.num? with
    | some b => rw [pyEq_num_right hxn hyn hx] at h1; cases h1
    | none =>
      cases hzn : z.num? with
      | some c => rw [pyEq_num_right hyn hzn hy] at h2; cases h2
      | none =>
        rcases nonnum_cases hx hxn with rfl | ⟨s, rfl⟩ | ⟨u, rfl⟩ | ⟨u, o, rfl⟩ | ⟨n, rfl⟩ <;>
        rcases nonnum_cases hy hyn with rfl | ⟨s', rfl⟩ | ⟨u', rfl⟩ | ⟨u', o', rfl⟩ | ⟨n', rfl⟩ <;>
        simp only [pyEq, beq_iff_eq, Bool.false_eq_true] at h1 <;>
        rcases nonnum_cases hz hzn with rfl | ⟨s'', rfl⟩ | ⟨u'', rfl⟩ | ⟨u'', o'', rfl⟩ | ⟨n'', rfl⟩ <;>
        simp only [pyEq, beq_iff_eq, Bool.false_eq_true] at h2 ⊢ <;>
        first | rfl | exact h1.trans h2

/-- `==`-equal scalars compare alike against a third scalar -/
theorem pyEq_congr_left {x y z : Val} (hx : isScalar x = true) (hy : isScalar y = true)
    (hz : isScalar z = true) (h : pyEq x y = true) : pyEq x z = pyEq y z := by
  apply Bool.eq_iff_iff.mpr
  constructor
  · intro h2
    exact pyEq_trans_scalar hy hx hz (by rw [pyEq_symm_scalar hy hx]; exact h) h2
  · intro h2
    exact pyEq_trans_scalar hx hy hz h h2

theorem pyEq_null_right {x : Val} (hx : isScalar x = true) : pyEq x .null = isNull x := by
  rcases isScalar_cases hx with rfl | ⟨b, rfl⟩ | ⟨i, rfl⟩ | ⟨m, e, rfl⟩ | ⟨s, rfl⟩ | ⟨u, rfl⟩ |
    ⟨u, o, rfl⟩ | ⟨n, rfl⟩ <;> simp [pyEq, isNull]

theorem pyEq_null_left (x : Val) : pyEq .null x = isNull x := by
  cases x <;> simp [pyEq, isNull]

/-! ### keyable values (`Spec.isKeyable`): what an index key may hold in the domain of C06 -/

theorem isKeyable_wf {x : Val} (h : isKeyable x = true) : wfVal x = true := by
  simp only [isKeyable, Bool.and_eq_true] at h; exact h.2

theorem isKeyable_notArr {x : Val} (h : isKeyable x = true) : x.isArr = false := by
  simp only [isKeyable, Bool.and_eq_true, Bool.not_eq_true'] at h; exact h.1

theorem isKeyable_of_scalar {x : Val} (h : isScalar x = true) : isKeyable x = true := by
  cases x <;> simp [isScalar] at h <;> simp [isKeyable, Val.isArr, wfVal]

theorem isKeyable_null : isKeyable .null = true := rfl

theorem pyEq_refl_keyable {x : Val} (h : isKeyable x = true) : pyEq x x = true :=
  C05Lemmas.pyEq_refl_wf x (isKeyable_wf h)

theorem pyEq_symm_keyable {x y : Val} (hx : isKeyable x = true) (hy : isKeyable y = true) :
    pyEq x y = pyEq y x :=
  C05Lemmas.pyEq_symm_wf x y (isKeyable_wf hx) (isKeyable_wf hy)

/-- `==`-equal keyable values compare alike against any third value -/
theorem pyEq_congr_left_keyable {x y : Val} (z : Val) (hx : isKeyable x = true)
    (hy : isKeyable y = true) (h : pyEq x y = true) : pyEq x z = pyEq y z := by
  apply Bool.eq_iff_iff.mpr
  constructor
  · intro h2
    exact C05Lemmas.pyEq_trans y x z (by rw [pyEq_symm_keyable hy hx]; exact h) h2
  · intro h2
    exact C05Lemmas.pyEq_trans x y z h h2

theorem pyEq_null_right_keyable {x : Val} (_hx : isKeyable x = true) : pyEq x .null = isNull x := by
  cases x with
  | date u o => cases o <;> simp [pyEq, isNull]
  | _ => simp [pyEq, isNull]

/-! ### tuples -/

@[simp] theorem keyEq_nil : keyEq [] [] = true := rfl
@[simp] theorem keyEq_nil_cons (y : Val) (ys : List Val) : keyEq [] (y :: ys) = false := rfl
@[simp] theorem keyEq_cons_nil (x : Val) (xs : List Val) : keyEq (x :: xs) [] = false := rfl
@[simp] theorem keyEq_cons (x y : Val) (xs ys : List Val) :
    keyEq (x :: xs) (y :: ys) = (pyEq x y && keyEq xs ys) := by
  simp only [keyEq, List.length_cons, List.zip_cons_cons, List.all_cons]
  cases pyEq x y <;> simp

theorem pyEqList_eq_keyEq (s t : List Val) : pyEqList s t = keyEq s t := by
  induction s generalizing t with
  | nil => cases t <;> simp [pyEqList]
  | cons x xs ih => cases t <;> simp [pyEqList, ih]

def AllKeyable (l : List Val) : Prop := ∀ v ∈ l, isKeyable v = true

theorem AllKeyable.tail {x : Val} {xs : List Val} (h : AllKeyable (x :: xs)) : AllKeyable xs :=
  fun v hv => h v (List.mem_cons_of_mem _ hv)

theorem AllKeyable.head {x : Val} {xs : List Val} (h : AllKeyable (x :: xs)) : isKeyable x = true :=
  h x (List.mem_cons_self ..)

theorem keyEq_refl {l : List Val} (h : AllKeyable l) : keyEq l l = true := by
  induction l with
  | nil => rfl
  | cons x xs ih => simp [pyEq_refl_keyable h.head, ih h.tail]

theorem keyEq_symm {a b : List Val} (ha : AllKeyable a) (hb : AllKeyable b) :
    keyEq a b = keyEq b a := by
  induction a generalizing b with
  | nil => cases b <;> simp
  | cons x xs ih =>
    cases b with
    | nil => simp
    | cons y ys => simp [pyEq_symm_keyable ha.head hb.head, ih ha.tail hb.tail]

theorem keyEq_congr_left {a a' : List Val} (t : List Val) (ha : AllKeyable a) (ha' : AllKeyable a')
    (h : keyEq a a' = true) : keyEq a t = keyEq a' t := by
  induction a generalizing a' t with
  | nil => cases a' <;> simp_all
  | cons x xs ih =>
    cases a' with
    | nil => simp at h
    | cons y ys =>
      simp only [keyEq_cons, Bool.and_eq_true] at h
      cases t with
      | nil => simp
      | cons z zs =>
        simp [pyEq_congr_left_keyable z ha.head ha'.head h.1, ih zs ha.tail ha'.tail h.2]

theorem keyEq_all_null {a b : List Val} (ha : AllKeyable a) (h : keyEq a b = true)
    (hb : b.all isNull = true) : a.all isNull = true := by
  induction a generalizing b with
  | nil => rfl
  | cons x xs ih =>
    cases b with
    | nil => simp at h
    | cons y ys =>
      simp only [keyEq_cons, Bool.and_eq_true, List.all_cons] at h hb ⊢
      refine ⟨?_, ih ha.tail h.2 hb.2⟩
      cases y <;> simp only [isNull, Bool.false_eq_true, false_and] at hb
      rw [← pyEq_null_right_keyable ha.head]; exact h.1

end MongoModel.Proofs.C06Lemmas
