/-
  Proofs.C13ExtMatch — a document holding `k: v` for every plain equality condition `k: v` of a
  filter is matched by that filter; the upsert seed of such a filter is such a document.
-/
import Spec.UpsertExt
import Proofs.C13Seed
import Proofs.C01Main

set_option linter.unusedVariables false
set_option linter.unusedSimpArgs false

namespace MongoModel.Proofs.C13Ext
open MongoModel MongoModel.Spec MongoModel.Proofs.C13Lemmas MongoModel.Proofs.C01Lemmas

theorem scalar_refl (v : Val) (h : isScalar v = true) : pyEq v v = true := by
  cases v with
  | date u o => cases o <;> simp [pyEq]
  | doc _ => simp [isScalar] at h
  | arr _ => simp [isScalar] at h
  | _ => simp [pyEq, Num.eq]

theorem scalar_not_doc (v : Val) (h : isScalar v = true) : ∀ fs, v = .doc fs → False := by
  intro fs e; subst e; simp [isScalar] at h

theorem plainMatch_self (v : Val) (h : isScalar v = true) : plainMatch v (some v) = true := by
  cases v with
  | doc _ => simp [isScalar] at h
  | arr _ => simp [isScalar] at h
  | _ => exact scalar_refl _ h

/-- the three facts `plainEqualities` states about one entry -/
theorem plainEq_entry {ss : Fields} (h : plainEqualities ss = true) {kv : String × Val} (hm : kv ∈ ss) :
    kv.1.toList.contains '.' = false ∧ kv.1.startsWith "$" = false ∧ isScalar kv.2 = true := by
  have := List.all_eq_true.1 h kv hm
  simp only [Bool.and_eq_true, Bool.not_eq_true'] at this
  exact ⟨this.1.1, this.1.2, this.2⟩

/-- an undotted key (the empty one included) looks the field of that name up -/
theorem candsKey_plain (k : String) (fs : Fields)
    (hd : k.toList.contains '.' = false) : candsKey k (.doc fs) = .ok [dget k fs] := by
  unfold candsKey
  rw [splitDots_nodot k hd]
  rfl

theorem applyHead_plain (k : String) (v : Val) (fs : Fields)
    (hd : k.toList.contains '.' = false) (hk : k.startsWith "$" = false) (hv : isScalar v = true)
    (hg : dget k fs = some v) : applyHead k v (.doc fs) = .ok true := by
  have n1 : k ≠ "$comment" := ne_of_not_dollar hk (by decide +kernel)
  have n2 : k ≠ "$expr" := ne_of_not_dollar hk (by decide +kernel)
  have n3 : logicalKeys.contains k = false := by
    simp only [logicalKeys, List.contains_cons, List.contains_nil, Bool.or_false, Bool.or_eq_false_iff,
      beq_eq_false_iff_ne, ne_eq]
    exact ⟨ne_of_not_dollar hk (by decide +kernel), ne_of_not_dollar hk (by decide +kernel),
      ne_of_not_dollar hk (by decide +kernel), ne_of_not_dollar hk (by decide +kernel)⟩
  have n4 : topLevelOperators.contains k = false := by
    simp only [topLevelOperators, List.contains_cons, List.contains_nil, Bool.or_false,
      Bool.or_eq_false_iff, beq_eq_false_iff_ne, ne_eq]
    exact ⟨ne_of_not_dollar hk (by decide +kernel), ne_of_not_dollar hk (by decide +kernel),
      ne_of_not_dollar hk (by decide +kernel), ne_of_not_dollar hk (by decide +kernel)⟩
  unfold applyHead
  simp only [n1, n2, n3, n4, hk, if_false, Bool.false_eq_true]
  rw [applyKey_plain_nondoc v k _ _ (scalar_not_doc v hv) (candsKey_plain k fs hd), hg]
  simp [plainMatch_self v hv]

/-- **any document that holds the filter's pairs is matched** -/
theorem holds_matches (ss : Fields) (fs : Fields) (hk : plainEqualities ss = true)
    (hf : HoldsAll ss fs) : filterApplies (.doc ss) (.doc fs) = .ok true := by
  show applyFields ss (.doc fs) = .ok true
  induction ss with
  | nil => rfl
  | cons kv r ih =>
    obtain ⟨k, v⟩ := kv
    obtain ⟨h2, h3, h4⟩ := plainEq_entry hk (List.mem_cons_self ..)
    have hk' : plainEqualities r = true := by
      simp only [plainEqualities, List.all_cons, Bool.and_eq_true] at hk ⊢
      exact hk.2
    rw [applyFields_cons, applyHead_plain k v fs h2 h3 h4 (hf (k, v) (List.mem_cons_self ..))]
    simp only [bind, Except.bind, if_true]
    exact ih hk' (fun kv hm => hf kv (List.mem_cons_of_mem _ hm))

end MongoModel.Proofs.C13Ext
