/-
  Proofs.C03Ext — entry point of the C03 extension: accumulators, `$group`, `$lookup`,
  `$addFields` / `$set`, `$replaceRoot`, pipelines and `$facet` against Spec/PipelineExt.lean.
-/
import Proofs.C03ExtKeys
import Proofs.C03ExtAcc
import Proofs.C03ExtAvg
import Proofs.C03ExtGroup
import Proofs.C03ExtLookup
import Proofs.C03ExtFields
import Proofs.C03ExtBucket
import Proofs.C03ExtStage
