/-
  Proofs.C04Spec17 — `eval_eq_spec`: operators with a document argument, the induction, and
  the theorem.
-/
import Proofs.C04Spec16

set_option linter.unusedSimpArgs false
set_option linter.unnecessarySeqFocus false

namespace MongoModel.Proofs.C04
open MongoModel MongoModel.Expr MongoModel.Spec

/-- `{$op: {…}}` -/
theorem op_doc_case (c : Ctx) (root : Val) (env : Env) (hr : EnvRel c root env) (k : String)
    (gs : Fields) (hsub : AllSub Agrees (.doc gs))
    (hre : rOperator root env [(k, .doc gs)] = [])
    (hok : okReasons (sOperator root env [(k, .doc gs)]) = []) :
    eval c (.doc [(k, .doc gs)]) = sOperator root env [(k, .doc gs)] := by
  obtain ⟨res, hres⟩ := okReasons_nil _ hok
  rw [hres]
  simp only [rOperator] at hre
  simp only [sOperator] at hres
  have hf := hsub.fields
  by_cases hlit : k = "$literal"
  · subst hlit; simp at hres; rw [literal_id, hres]
  · simp only [hlit, if_false] at hre hres
    by_cases hlet : k = "$let"
    · subst hlet
      simp only [if_true] at hre hres
      exact let_case c root env hr gs hf hre res hres
    · simp only [hlet, if_false] at hre hres
      by_cases hmap : k = "$map"
      · subst hmap
        simp only [if_true] at hre hres
        exact map_case c root env hr gs hf hre res hres
      · simp only [hmap, if_false] at hre hres
        by_cases hfil : k = "$filter"
        · subst hfil
          simp only [if_true] at hre hres
          exact filter_case c root env hr gs hf hre res hres
        · simp only [hfil, if_false] at hre hres
          by_cases hcond : k = "$cond"
          · subst hcond
            simp only [if_true] at hre hres
            exact cond_doc_case c root env hr gs hf hre res hres
          · simp only [hcond, if_false] at hre hres
            by_cases hsw : k = "$switch"
            · subst hsw
              simp only [if_true] at hre hres
              exact switch_case c root env hr gs hf hre res hres
            · simp only [hsw, if_false] at hre hres
              by_cases hacc : accOps.contains k = true
              · simp only [hacc, if_true] at hre hres
                obtain ⟨h12, h3⟩ := append_nil2 hre
                obtain ⟨h1, h2⟩ := append_nil2 h12
                exact acc_scalar_core c root env hr k hacc (.doc gs) hsub.self rfl h1 h2 h3 res hres
              have hacc' : accOps.contains k = false := by simpa using hacc
              simp only [hacc', Bool.false_eq_true, if_false] at hre hres
              by_cases hst : strictOps.contains k = true
              · simp only [hst, if_true] at hre hres
                obtain ⟨h12345, h6⟩ := append_nil2 hre
                obtain ⟨h1234, h5⟩ := append_nil2 h12345
                obtain ⟨h123, h4⟩ := append_nil2 h1234
                obtain ⟨h12, h3⟩ := append_nil2 h123
                obtain ⟨h1, h2⟩ := append_nil2 h12
                have htz : hasTzKeys (.doc gs) = false := singleton_if_nil _ _ h2
                exact whole_core c root env hr k (.doc gs) hsub.self rfl htz hacc' h1 h3 h4
                  (fun a ha' => by rw [ha'] at h6; exact h6) res hres
              · have hst' : strictOps.contains k = false := by simpa using hst
                simp only [hst', Bool.false_eq_true, if_false] at hre
                simp only [hst', Bool.false_eq_true, if_false] at hres
                by_cases hao : (k = "$and" || k = "$or") = true
                · rw [if_pos hao] at hre hres
                  obtain ⟨h1, h2⟩ := append_nil2 hre
                  exact andor_bare c root env hr k hao (.doc gs) hsub.self rfl h1 h2 res hres
                · rw [if_neg hao] at hre; split at hre <;> simp at hre

theorem sOperator_many (root : Val) (env : Env) (a b : String × Val) (r : Fields) :
    sOperator root env (a :: b :: r) = .error .opFail := by
  obtain ⟨k1, v1⟩ := a
  cases v1 <;> rfl

theorem evalItems_ok (c : Ctx) (xs : List Val) (vs : List (Option Val))
    (h : xs.map (eval c) = vs.map .ok) : evalItems c xs = .ok (vs.map (·.getD .null)) := by
  induction xs generalizing vs with
  | nil => cases vs <;> simp_all [evalItems]
  | cons x xs ih =>
    cases vs with
    | nil => simp at h
    | cons v vs =>
      simp only [List.map_cons, List.cons.injEq] at h
      simp [evalItems, h.1, ih vs h.2, bind, Except.bind, pure, Except.pure]

/-- **the induction**: every expression agrees with the oracle inside D, and so does everything
    below it -/
theorem agrees_all : ∀ v, AllSub Agrees v := by
  apply allSub_of_step
  · -- documents: a literal, or an operator
    intro fs hsub c root env hr hre hok
    simp only [rExpr] at hre
    simp only [sEval] at hok ⊢
    cases hdk : hasDollarKey' fs with
    | false =>
      simp only [hdk, Bool.false_eq_true, if_false] at hre hok ⊢
      obtain ⟨hn, hrf⟩ := append_nil2 hre
      have hnd : nodupKeys fs = true := by
        cases h : nodupKeys fs with
        | true => rfl
        | false => rw [h] at hn; simp at hn
      obtain ⟨gs, g1, g2, _⟩ := fields_agree c root env hr fs hsub hrf hdk hnd [] (by simp [dhas, dget])
      have hany : fs.any (fun kv => startsDollar kv.1) = false := by simpa [hasDollarKey'] using hdk
      simp [eval, hany, g2, g1]
    | true =>
      simp only [hdk, if_true] at hre hok ⊢
      match fs, hsub, hre, hok, hdk with
      | [(k, v)], hsub, hre, hok, _ =>
        simp only [AllSubFields] at hsub
        cases v with
        | arr xs => exact op_list_case c root env hr k xs hsub.1.items hre hok
        | doc gs => exact op_doc_case c root env hr k gs hsub.1 hre hok
        | null => exact op_scalar_case c root env hr k _ hsub.1.self rfl rfl hre hok
        | bool b => exact op_scalar_case c root env hr k _ hsub.1.self rfl rfl hre hok
        | int i => exact op_scalar_case c root env hr k _ hsub.1.self rfl rfl hre hok
        | dbl m e => exact op_scalar_case c root env hr k _ hsub.1.self rfl rfl hre hok
        | str s => exact op_scalar_case c root env hr k _ hsub.1.self rfl rfl hre hok
        | date u o => exact op_scalar_case c root env hr k _ hsub.1.self rfl rfl hre hok
        | oid n => exact op_scalar_case c root env hr k _ hsub.1.self rfl rfl hre hok
      | [], _, _, _, hdk => simp [hasDollarKey'] at hdk
      | a :: b :: r, _, _, hok, _ =>
        rw [sOperator_many] at hok
        simp [okReasons] at hok
  · -- array literals: every item is evaluated, a missing value gives a null item
    intro xs hsub c root env hr hre hok
    simp only [rExpr] at hre
    obtain ⟨vs, hv1, hv2⟩ := list_agree c root env hr xs hsub hre
    rw [eval_arr, evalItems_ok c xs vs hv2]
    simp only [sEval, sList_ok root env xs vs hv1, bind, Except.bind, pure, Except.pure, Except.map]
  · -- scalars and strings
    intro v hd ha c root env hr hre hok
    cases v with
    | str s =>
      simp only [rExpr] at hre
      exact str_case c root env hr s hre hok
    | doc fs => simp [Val.isDoc] at hd
    | arr xs => simp [Val.isArr] at ha
    | _ => rfl

/-- **eval_eq_spec**: inside D the model of the code computes the value the rules define -/
theorem eval_eq_spec (e d : Val) (h : exprInD e d = true) : evalExpr d e = specEval d e := by
  have hnil : exprReasons e d = [] := by simpa [exprInD] using h
  unfold exprReasons at hnil
  have : okReasons (specEval d e) ++ rExpr d [] e = [] := by
    cases hl : okReasons (specEval d e) ++ rExpr d [] e with
    | nil => rfl
    | cons a r => rw [hl] at hnil; simp [List.eraseDups_cons] at hnil
  obtain ⟨h1, h2⟩ := append_nil2 this
  exact (agrees_all e).self (Ctx.init true d) d [] (EnvRel.init d) h2 h1

/-- and `find({$expr: e})` selects by `toBool` of that value (missing = false) -/
theorem filter_eq_spec (e d : Val) (h : exprInD e d = true) :
    exprFilter e d = specFilter e d := by
  rw [expr_filter_full, eval_eq_spec e d h]
  rfl

end MongoModel.Proofs.C04
