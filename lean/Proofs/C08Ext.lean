/-
  Proofs.C08Ext — lemmas behind the extension theorems of Props/C08.lean (find_one_and_*,
  update_many, bulk_write).
-/
import Proofs.C08ExtFam
import Proofs.C08ExtSeq
import Proofs.C08ExtManyLoop
import Proofs.C09Ops
import Proofs.StoreRecorded

namespace MongoModel.Proofs.C08Ext
open MongoModel MongoModel.Spec MongoModel.Proofs.C08Lemmas MongoModel.Proofs.C15Lemmas

theorem untouched_refl (now : Int) (c : Coll) : Untouched now c c := ⟨c.nextOid, .inl rfl⟩

theorem untouched_trans (now : Int) (c c' c'' : Coll) (h : Untouched now c c')
    (h' : Untouched now c' c'') : Untouched now c c'' := by
  obtain ⟨n, rfl | ⟨c1, h1, rfl⟩⟩ := h
  · obtain ⟨m, rfl | ⟨c2, h2, rfl⟩⟩ := h'
    · exact ⟨m, .inl rfl⟩
    · rw [expire_bump] at h2
      cases h1 : expire now c with
      | error e => simp [h1, Except.map] at h2
      | ok c1 =>
        simp only [h1, Except.map, Except.ok.injEq] at h2
        subst h2
        exact ⟨m, .inr ⟨c1, h1, rfl⟩⟩
  · obtain ⟨m, rfl | ⟨c2, h2, rfl⟩⟩ := h'
    · exact ⟨m, .inr ⟨c1, h1, rfl⟩⟩
    · rw [expire_bump, expire_idem now c c1 h1] at h2
      simp only [Except.map, Except.ok.injEq] at h2
      subst h2
      exact ⟨m, .inr ⟨c1, h1, rfl⟩⟩

theorem untouched_observable (now : Int) (c c' : Coll) (h : Untouched now c c') :
    visible ⟨now, c'⟩ = visible ⟨now, c⟩ ∧ c'.indexes = c.indexes ∧
    c'.ttlIndexes = c.ttlIndexes ∧ c'.forceCreated = c.forceCreated ∧
    (c'.docs = c.docs ∨ ∃ c1, expire now c = .ok c1 ∧ c'.docs = c1.docs) := by
  have hn := untouched_near now c c' h
  refine ⟨hn.visible, hn.indexes.1, hn.indexes.2, ?_, ?_⟩
  · obtain ⟨n, rfl | ⟨c1, h1, rfl⟩⟩ := h
    · rfl
    · exact (expire_fields now c c1 h1).2.2.1
  · obtain ⟨n, rfl | ⟨c1, h1, rfl⟩⟩ := h
    · exact .inl rfl
    · exact .inr ⟨c1, h1, rfl⟩

theorem projAcceptable_of_projOk {proj : Val} (h : findAndModify.projOk proj = .ok ()) :
    projAcceptable proj = true := by
  unfold findAndModify.projOk at h
  unfold projAcceptable
  cases hc : copyOnlyFields (.doc []) proj with
  | ok _ => rfl
  | error e => rw [hc] at h; cases h

/-- the `Near` form of `fam_failed_partial`: no hypothesis on the collection -/
theorem fam_failed_near (cfg : Cfg) (now : Int) (c : Coll) (op : Val) (hop : famOp op = true)
    (he : (stepX cfg now c op).2.isErr = true) :
    Near now c (stepX cfg now c op).1 ∨
    (famAfter op = true ∧ projAcceptable (famProj op) = true ∧
      (stepX cfg now c (famBefore op)).2.isErr = false ∧
      Near now (stepX cfg now c (famBefore op)).1 (stepX cfg now c op).1) := by
  unfold famOp at hop
  split at hop
  · rename_i f u proj sortV up after
    simp only [famAfter, famBefore, famProj]
    rw [stepX_fau] at he ⊢
    rw [stepX_fau]
    cases hv : validateUpdate u with
    | error e => exact .inl (Near.refl _ _)
    | ok x =>
      cases x
      rw [hv] at he
      rcases famStep_fail cfg now c f proj (some u) sortV (boolOf up) (boolOf after) he with
        h | ⟨h1, h2, h3⟩
      · exact .inl h
      · exact .inr ⟨h1, projAcceptable_of_projOk h2, h3⟩
  · rename_i f u proj sortV up after
    simp only [famAfter, famBefore, famProj]
    rw [stepX_far] at he ⊢
    rw [stepX_far]
    cases hv : validateReplace u with
    | error e => exact .inl (Near.refl _ _)
    | ok x =>
      cases x
      rw [hv] at he
      rcases famStep_fail cfg now c f proj (some u) sortV (boolOf up) (boolOf after) he with
        h | ⟨h1, h2, h3⟩
      · exact .inl h
      · exact .inr ⟨h1, projAcceptable_of_projOk h2, h3⟩
  · rename_i f proj sortV
    rw [stepX_fad] at he ⊢
    rcases famStep_fail cfg now c f proj none sortV false false he with h | ⟨h, _⟩
    · exact .inl h
    · cases h
  · cases hop

theorem fam_failed_partial (cfg : Cfg) (now : Int) (c : Coll) (op : Val) (hr : c.Recorded)
    (hop : famOp op = true) (he : (stepX cfg now c op).2.isErr = true) :
    Untouched now c (stepX cfg now c op).1 ∨
    (famAfter op = true ∧ projAcceptable (famProj op) = true ∧
      (stepX cfg now c (famBefore op)).2.isErr = false ∧
      Untouched now (stepX cfg now c (famBefore op)).1 (stepX cfg now c op).1) := by
  rcases fam_failed_near cfg now c op hop he with h | ⟨h1, hp, h2, h3⟩
  · exact .inl (near_untouched now c _ hr h)
  · exact .inr ⟨h1, hp, h2, near_untouched now _ _
      (MongoModel.Proofs.Recorded.recorded_stepX cfg now c _ hr) h3⟩

theorem fam_failed_noop (cfg : Cfg) (now : Int) (c : Coll) (op : Val) (hr : c.Recorded)
    (hop : famOp op = true) (ha : famAfter op = false)
    (he : (stepX cfg now c op).2.isErr = true) :
    Untouched now c (stepX cfg now c op).1 := by
  rcases fam_failed_partial cfg now c op hr hop he with h | ⟨h, _⟩
  · exact h
  · rw [ha] at h; cases h

/-- a find_one_and_* is not a `clock` operation: `stepXS` runs `stepX` at the clock -/
theorem stepXS_fam (cfg : Cfg) (s : St) (op : Val) (hop : famOp op = true) :
    stepXS cfg s op = ({ s with c := (stepX cfg s.now s.c op).1 }, (stepX cfg s.now s.c op).2) := by
  unfold famOp at hop
  split at hop
  · rfl
  · rfl
  · rfl
  · cases hop

theorem fam_failed_history_noop (cfg : Cfg) (s : St) (op : Val) (hop : famOp op = true)
    (ha : famAfter op = false) (he : (stepXS cfg s op).2.isErr = true) :
    visible (stepXS cfg s op).1 = visible s ∧
    (stepXS cfg s op).1.c.indexes = s.c.indexes ∧
    (stepXS cfg s op).1.c.ttlIndexes = s.c.ttlIndexes := by
  rw [stepXS_fam cfg s op hop] at he ⊢
  rcases fam_failed_near cfg s.now s.c op hop he with h | ⟨h, _⟩
  · exact ⟨h.visible, h.indexes.1, h.indexes.2⟩
  · rw [ha] at h; cases h

/-! ### all-or-nothing writes of `stepColl` -/

theorem near_delete_many (cfg : Cfg) (now : Int) (c : Coll) (f : Val)
    (_h : (stepColl cfg now c (.arr [.str "delete_many", f])).2.isErr = true) :
    Near now c (stepColl cfg now c (.arr [.str "delete_many", f])).1 := by
  have hstep : stepColl cfg now c (.arr [.str "delete_many", f]) =
      ((deleteColl now c f true).1,
        match (deleteColl now c f true).2 with | .ok n => .val (.int n) | .error e => .err e) := rfl
  rw [hstep] at _h ⊢
  cases hd : deleteColl now c f true with
  | mk c' r =>
    cases r with
    | ok n => simp [hd, Out.isErr] at _h
    | error e =>
      have := near_delete now c c' f true e hd
      subst this
      exact Near.refl _ _

theorem failed_atomic_write_untouched (cfg : Cfg) (now : Int) (c : Coll) (op : Val)
    (hr : c.Recorded) (ha : atomicWrite op = true)
    (he : (stepColl cfg now c op).2.isErr = true) :
    Untouched now c (stepColl cfg now c op).1 := by
  apply near_untouched now c _ hr
  unfold atomicWrite at ha
  split at ha
  · rename_i k rest
    simp only [Bool.or_eq_true, beq_iff_eq] at ha
    rcases ha with hs | rfl
    · exact single_fail_near cfg now c _ (by simpa [singleWrite] using hs) he
    · match rest, he with
      | [], _ => exact Near.refl _ _
      | [f], he => exact near_delete_many cfg now c f he
      | _ :: _ :: _, _ => exact Near.refl _ _
  · cases ha

/-! ### update_many -/

theorem update_many_iterates_single (now : Int) (spec document nowV : Val) (c : Coll) (m u : Nat) :
    updateLoop now spec document nowV true [] c m u = (c, .ok (m, u)) ∧
    ∀ (p : Val × Val) (rest : List (Val × Val)),
      updateLoop now spec document nowV true (p :: rest) c m u =
        match updateLoop now spec document nowV false [p] c m u with
        | (_, .error e) => (c, .error e)
        | (c1, .ok (m1, u1)) => updateLoop now spec document nowV true rest c1 m1 u1 :=
  ⟨by simp only [updateLoop], fun p rest => many_cons now spec document nowV p rest c m u⟩

theorem update_many_stops_at_failing_document (now : Int) (spec document nowV : Val) (c c' : Coll)
    (m u : Nat) (e : Err) (hn : c.ttlIndexes = []) (hk : KeysDistinct c) (hg : GoodKeys c)
    (h : updateLoop now spec document nowV true c.docs c m u = (c', .error e)) :
    ∃ pre pre' q post, c.docs = pre ++ q :: post ∧ c'.docs = pre' ++ q :: post ∧
      List.Forall₂ (Updated spec document nowV) pre pre' ∧
      (∀ m2 u2, updateLoop now spec document nowV false [q] c' m2 u2 = (c', .error e)) ∧
      c'.indexes = c.indexes ∧ c'.ttlIndexes = c.ttlIndexes := by
  obtain ⟨h1, h2, pre, pre', post, h3, h4, h5, q, rest, rfl, h6⟩ :=
    many_split now spec document nowV c.docs [] c m u c' (.error e) rfl hn hk hg h
  exact ⟨pre, pre', q, rest, h3, by simpa using h4, h5, h6, h1, by rw [h2, hn]⟩

theorem update_many_updates_all_selected (now : Int) (spec document nowV : Val) (c c' : Coll)
    (m u m' u' : Nat) (hn : c.ttlIndexes = []) (hk : KeysDistinct c) (hg : GoodKeys c)
    (h : updateLoop now spec document nowV true c.docs c m u = (c', .ok (m', u'))) :
    List.Forall₂ (Updated spec document nowV) c.docs c'.docs := by
  obtain ⟨_, _, pre, pre', post, h3, h4, h5, h6⟩ :=
    many_split now spec document nowV c.docs [] c m u c' (.ok (m', u')) rfl hn hk hg h
  simp only at h6
  subst h6
  simp only [List.append_nil, List.nil_append] at h3 h4
  rw [h3, h4]; exact h5

theorem update_many_document_granularity (cfg : Cfg) (now : Int) (c : Coll) (f u up : Val)
    (hn : c.ttlIndexes = []) (hk : KeysDistinct c) (hg : GoodKeys c)
    (he : (stepColl cfg now c (.arr [.str "update_many", f, u, up])).2.isErr = true) :
    ∃ pre pre' post, c.docs = pre ++ post ∧
      (stepColl cfg now c (.arr [.str "update_many", f, u, up])).1.docs = pre' ++ post ∧
      List.Forall₂ (Updated (patchDT f) (patchDT u) (patchDT (.date now none))) pre pre' ∧
      (stepColl cfg now c (.arr [.str "update_many", f, u, up])).1.indexes = c.indexes ∧
      (stepColl cfg now c (.arr [.str "update_many", f, u, up])).1.ttlIndexes = c.ttlIndexes := by
  rw [MongoModel.Proofs.C09Lemmas.step_update_many] at he ⊢
  cases hv : validateUpdate u with
  | error e => exact ⟨[], [], c.docs, rfl, rfl, .nil, rfl, rfl⟩
  | ok x =>
    cases x
    rw [hv] at he
    simp only at he ⊢
    cases ha : applyUpdateColl cfg now c f u (boolOf up) true with
    | mk c' r =>
      rw [ha] at he
      cases r with
      | ok res => cases he
      | error e =>
        obtain ⟨h1, h2, pre, pre', post, h3, h4, h5⟩ :=
          update_many_fail cfg now c c' f u (boolOf up) e hn hk hg ha
        exact ⟨pre, pre', post, h3, h4, h5, h1, h2⟩

/-! ### bulk_write -/

theorem bulk_failed_request_noop (cfg : Cfg) (now : Int) (c c' : Coll) (idx : Nat) (req : Val)
    (o : BulkOut) (hr : c.Recorded) (ha : atomicRequest req = true)
    (h : bulkOne cfg now c idx req = (c', o)) (ho : requestFailed o = true) :
    Untouched now c c' :=
  near_untouched _ _ _ hr (bulkOne_fail_near cfg now c c' idx req o ha h ho)

/-- the one-at-a-time run of a batch keeps existence recorded -/
theorem recorded_seqOps (cfg : Cfg) (now : Int) (ops : List Val) (c : Coll) (hr : c.Recorded) :
    (seqOps cfg now ops c).Recorded := by
  induction ops generalizing c with
  | nil => exact hr
  | cons op ops ih =>
    exact ih _ (MongoModel.Proofs.Recorded.recorded_stepColl cfg now c op hr)

theorem bulk_failed_update_many (cfg : Cfg) (now : Int) (c c' : Coll) (idx : Nat) (f u up : Val)
    (o : BulkOut) (hn : c.ttlIndexes = []) (hk : KeysDistinct c) (hg : GoodKeys c)
    (h : bulkOne cfg now c idx (.arr [.str "UpdateMany", f, u, up]) = (c', o))
    (ho : requestFailed o = true) :
    ∃ pre pre' post, c.docs = pre ++ post ∧ c'.docs = pre' ++ post ∧
      List.Forall₂ (Updated (patchDT f) (patchDT u) (patchDT (.date now none))) pre pre' ∧
      c'.indexes = c.indexes ∧ c'.ttlIndexes = c.ttlIndexes := by
  simp only [bulkOne] at h
  cases ha : applyUpdateColl cfg now c f u (boolOf up) true with
  | mk c1 r =>
    rw [ha] at h
    cases r with
    | ok res =>
      simp only [Prod.mk.injEq] at h
      obtain ⟨_, rfl⟩ := h
      cases ho
    | error e =>
      simp only [Prod.mk.injEq] at h
      obtain ⟨rfl, _⟩ := h
      obtain ⟨h1, h2, pre, pre', post, h3, h4, h5⟩ :=
        update_many_fail cfg now c _ f u (boolOf up) e hn hk hg ha
      exact ⟨pre, pre', post, h3, h4, h5, h1, h2⟩

theorem errorPositions_toVal (t : BulkTotals) :
    errorPositions t.toVal = t.errors.map errorIndex := by
  simp [errorPositions, BulkTotals.toVal, dget]

theorem seqAllOk_iff_no_failures (cfg : Cfg) (now : Int) (ops : List Val) (c : Coll) (i : Nat) :
    seqAllOk cfg now ops c = true ↔ seqFailures cfg now ops c i = [] := by
  induction ops generalizing c i with
  | nil => simp [seqAllOk, seqFailures]
  | cons op ops ih =>
    simp only [seqAllOk, seqFailures, Bool.and_eq_true, Bool.not_eq_true', List.append_eq_nil_iff]
    rw [ih _ (i + 1)]
    cases (stepColl cfg now c op).2.isErr <;> simp

theorem bulk_ordered_stops_at_first_failure (cfg : Cfg) (now : Int) (c : Coll) (reqs : List Val)
    (hr : c.Recorded)
    (hp : reqs.all plainRequest = true) (hv : bulkPrecheck reqs = .ok ()) (hne : reqs ≠ []) :
    ((bulkWrite cfg now c reqs true).2.isErr = false →
      seqAllOk cfg now (reqs.map asSingle) c = true ∧
      (bulkWrite cfg now c reqs true).1 = seqOps cfg now (reqs.map asSingle) c) ∧
    ((bulkWrite cfg now c reqs true).2.isErr = true →
      ∃ pre r post, reqs = pre ++ r :: post ∧
        seqAllOk cfg now (pre.map asSingle) c = true ∧
        (stepColl cfg now (seqOps cfg now (pre.map asSingle) c) (asSingle r)).2.isErr = true ∧
        (bulkWrite cfg now c reqs true).1 =
          (stepColl cfg now (seqOps cfg now (pre.map asSingle) c) (asSingle r)).1 ∧
        (atomicRequest r = true →
          Untouched now (seqOps cfg now (pre.map asSingle) c) (bulkWrite cfg now c reqs true).1) ∧
        (∀ details, (bulkWrite cfg now c reqs true).2 = .bulkErr details →
          errorPositions details = [.int pre.length])) := by
  rw [bulkWrite_loop cfg now c reqs true hv hne]
  rcases loop_ordered_full cfg now reqs hp hv 0 c {} rfl with
    ⟨t', h1, h2⟩ | ⟨pre, r, post, h1, h2, h3, h4, ⟨o, h5, h6⟩, h7⟩
  · rw [h1]
    exact ⟨fun _ => ⟨h2, rfl⟩, fun h => by cases h⟩
  · constructor
    · intro h
      rcases h7 with ⟨e, h7⟩ | ⟨t', h7, _⟩ <;> rw [h7] at h <;> cases h
    · intro _
      refine ⟨pre, r, post, h1, h2, h3, h4, ?_, ?_⟩
      · intro ha
        exact bulk_failed_request_noop cfg now _ _ _ r o (recorded_seqOps cfg now _ c hr) ha h5 h6
      · intro details hd
        rcases h7 with ⟨e, h7⟩ | ⟨t', h7, h8⟩
        · rw [h7] at hd; cases hd
        · rw [h7] at hd
          cases hd
          rw [errorPositions_toVal, h8]
          simp

theorem bulk_unordered_applies_every_success (cfg : Cfg) (now : Int) (c : Coll) (reqs : List Val)
    (hp : reqs.all plainRequest = true) (hv : bulkPrecheck reqs = .ok ()) (hne : reqs ≠ [])
    (hw : ∀ e, (bulkWrite cfg now c reqs false).2 ≠ .err e) :
    (bulkWrite cfg now c reqs false).1 = seqOps cfg now (reqs.map asSingle) c ∧
    ((bulkWrite cfg now c reqs false).2.isErr = false ↔
      seqAllOk cfg now (reqs.map asSingle) c = true) ∧
    (∀ details, (bulkWrite cfg now c reqs false).2 = .bulkErr details →
      errorPositions details =
        (seqFailures cfg now (reqs.map asSingle) c 0).map (fun i : Nat => Val.int i)) := by
  rw [bulkWrite_loop cfg now c reqs false hv hne] at hw ⊢
  obtain ⟨t', h1, h2⟩ := loop_unordered_full cfg now reqs hp hv 0 c {} hw
  rw [h1]
  simp only [List.map_nil, List.nil_append] at h2
  refine ⟨rfl, ?_, ?_⟩
  · rw [seqAllOk_iff_no_failures cfg now _ c 0]
    cases he : t'.errors with
    | nil =>
      rw [he] at h2
      simp only [List.map_nil] at h2
      have : seqFailures cfg now (reqs.map asSingle) c 0 = [] := by
        cases hs : seqFailures cfg now (reqs.map asSingle) c 0 with
        | nil => rfl
        | cons a l => rw [hs] at h2; cases h2
      simp [this, Out.isErr]
    | cons x l =>
      rw [he] at h2
      have : seqFailures cfg now (reqs.map asSingle) c 0 ≠ [] := by
        intro hs; rw [hs] at h2; cases h2
      simp [this, Out.isErr]
  · intro details hd
    cases he : t'.errors with
    | nil => rw [he] at hd; cases hd
    | cons x l =>
      rw [he] at hd
      simp only [List.isEmpty_cons, Bool.false_eq_true, if_false] at hd
      cases hd
      rw [errorPositions_toVal, h2]

end MongoModel.Proofs.C08Ext
