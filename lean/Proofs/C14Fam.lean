/-
  Proofs.C14Fam — `findAndModify` when a target exists, on a collection without TTL indexes whose
  store keys are not arrays, for a scalar, normalised target `_id`.
-/
import Proofs.C14Id

namespace MongoModel.Proofs.C14Lemmas
open MongoModel MongoModel.Spec
open MongoModel.Proofs.C10Lemmas MongoModel.Proofs.C09Lemmas

/-! ### the two reads of `findAndModify` -/

theorem mapM_self {α} (f : α → R α) (l : List α) (h : ∀ d ∈ l, f d = .ok d) :
    l.mapM f = .ok l := by
  induction l with
  | nil => rfl
  | cons d ds ih =>
    rw [List.mapM_cons, h d (List.mem_cons_self ..),
      ih (fun x hx => h x (List.mem_cons_of_mem _ hx))]
    rfl

/-- without projection the read returns the head of the sorted selection -/
theorem headProj_null (sort : Option SortSpec) (ms : List Val)
    (hdoc : ∀ d ∈ ms, ∃ fs, d = Val.doc fs) :
    headProj .null sort ms = (getDataset sort ms).map List.head? := by
  unfold headProj
  cases hg : getDataset sort ms with
  | error e => rfl
  | ok sorted =>
    have hm : sorted.mapM (fun d => copyOnlyFields d .null) = .ok sorted := by
      apply mapM_self
      intro d hd
      obtain ⟨fs, rfl⟩ := hdoc d ((getDataset_perm sort ms sorted hg).subset hd)
      rfl
    simp only [bind, Except.bind, hm, pure, Except.pure, Except.map]

theorem headProj_single (proj d : Val) :
    headProj proj none [d] = (copyOnlyFields d proj).map some := by
  unfold headProj
  simp only [getDataset, bind, Except.bind, List.mapM_cons, List.mapM_nil, pure, Except.pure]
  cases copyOnlyFields d proj <;> rfl

theorem patch_id_filter (tid : Val) (h : patchDT tid = tid) :
    patchDT (.doc [("_id", tid)]) = .doc [("_id", tid)] := by
  have h' : patch tid = tid := h
  simp only [patchDT, patch, patchFields, h']

/-- the target of `firstSorted` is a selected entry -/
theorem target_entry (sort : Option SortSpec) (sel : List (Val × Val)) (target : Val)
    (ht : firstSorted sort sel = .ok (some target)) : ∃ pt ∈ sel, pt.2 = target := by
  unfold firstSorted at ht
  cases hg : getDataset sort (sel.map (·.2)) with
  | error e => rw [hg] at ht; cases ht
  | ok sorted =>
    rw [hg] at ht
    simp only [Except.map, Except.ok.injEq] at ht
    have hm : target ∈ sorted := List.mem_of_mem_head? (by rw [ht]; rfl)
    have := (getDataset_perm sort _ sorted hg).subset hm
    obtain ⟨pt, hpt, rfl⟩ := List.mem_map.1 this
    exact ⟨pt, hpt, rfl⟩

/-- `findAndModify.go` once both reads are known -/
theorem go_hit (cfg : Cfg) (now : Int) (c : Coll) (query proj : Val) (update : Option Val)
    (upsert : Bool) (sort : Option SortSpec) (after : Bool) (c1 c2 : Coll) (tfs : Fields)
    (tid : Val) (old : Option Val)
    (h1 : findOneColl now c query .null sort = (c1, .ok (some (.doc tfs))))
    (hid : dget "_id" tfs = some tid)
    (h2 : findOneColl now c1 (.doc [("_id", tid)]) proj none = (c2, .ok old)) :
    findAndModify.go cfg now c query proj update upsert sort after =
      match update with
      | none =>
        (match deleteColl now c2 (.doc [("_id", tid)]) false with
         | (c3, .error e) => (c3, .error e)
         | (c3, .ok _) => (c3, .ok old))
      | some u =>
        (match findAndModify.projOk proj with
         | .error e => (c2, .error e)
         | .ok () =>
           (match applyUpdateColl cfg now c2 (.doc [("_id", tid)]) u upsert false with
            | (c3, .error e) => (c3, .error e)
            | (c3, .ok res) =>
              if after then
                findOneColl now c3
                  (match res.upserted with
                   | some id => Val.doc [("_id", id)]
                   | none => Val.doc [("_id", tid)]) proj none
              else (c3, .ok old))) := by
  unfold findAndModify.go
  rw [h1]
  simp only [hid, Option.getD_some]
  rw [h2]
  cases update with
  | none =>
    simp only
    rcases deleteColl now c2 (.doc [("_id", tid)]) false with ⟨c3, r⟩
    cases r <;> rfl
  | some u =>
    simp only
    cases findAndModify.projOk proj with
    | error e => rfl
    | ok x =>
      cases x
      simp only
      rcases applyUpdateColl cfg now c2 (.doc [("_id", tid)]) u upsert false with ⟨c3, r⟩
      cases r <;> rfl

theorem findAndModify_go (cfg : Cfg) (now : Int) (c c' : Coll) (query proj : Val)
    (update : Option Val) (upsert : Bool) (sort : Option SortSpec) (after : Bool)
    (ret : Option Val)
    (h : findAndModify cfg now c query proj update upsert sort after = (c', .ok ret)) :
    findAndModify.go cfg now c query proj update upsert sort after = (c', .ok ret) := by
  unfold findAndModify at h
  split at h
  · split at h
    · exact h
    · split at h
      · cases h
      · exact h
  · exact h

theorem go_hit_err (cfg : Cfg) (now : Int) (c : Coll) (query proj : Val) (update : Option Val)
    (upsert : Bool) (sort : Option SortSpec) (after : Bool) (c1 c2 : Coll) (tfs : Fields)
    (tid : Val) (e : Err)
    (h1 : findOneColl now c query .null sort = (c1, .ok (some (.doc tfs))))
    (hid : dget "_id" tfs = some tid)
    (h2 : findOneColl now c1 (.doc [("_id", tid)]) proj none = (c2, .error e)) :
    findAndModify.go cfg now c query proj update upsert sort after = (c2, .error e) := by
  unfold findAndModify.go
  rw [h1]
  simp only [hid, Option.getD_some]
  rw [h2]

theorem findOne_fst_nil (now : Int) (c : Coll) (fs : Fields) (proj : Val) (sort : Option SortSpec)
    (hn : c.ttlIndexes = []) : (findOneColl now c (.doc fs) proj sort).1 = c := by
  unfold findOneColl
  dsimp only
  cases hi : iterDocuments now c (patchDT (.doc fs)) with
  | error e => rfl
  | ok r =>
    obtain ⟨c1, ms⟩ := r
    exact iter_nil now c c1 _ ms hn hi

/-! ### the reads when a target exists -/

theorem fam_reads (now : Int) (c : Coll) (fs : Fields) (proj : Val) (sort : Option SortSpec)
    (sel : List (Val × Val)) (target tid : Val)
    (hi : IdInv c) (hg : GoodKeys c) (hn : c.ttlIndexes = [])
    (hna : ∀ p ∈ c.docs, p.1.isArr = false)
    (hs : selectDocs (patchDT (.doc fs)) c.docs = .ok sel)
    (ht : firstSorted sort sel = .ok (some target)) (hid : idOf target = some tid)
    (hsc : isScalar tid = true) (hpt : patchDT tid = tid) :
    ∃ pt tfs, pt ∈ c.docs ∧ pt.2 = target ∧ target = .doc tfs ∧ dget "_id" tfs = some tid ∧
      pyEq pt.1 tid = true ∧
      selectDocs (patchDT (.doc [("_id", tid)])) c.docs = .ok [pt] ∧
      findOneColl now c (.doc fs) .null sort = (c, .ok (some target)) ∧
      findOneColl now c (.doc [("_id", tid)]) proj none =
        (c, (copyOnlyFields target proj).map some) := by
  obtain ⟨pt, hpts, rfl⟩ := target_entry sort sel target ht
  have hsub := select_sublist _ _ _ hs
  have hptc : pt ∈ c.docs := hsub.subset hpts
  have hne : c.docs ≠ [] := List.ne_nil_of_mem hptc
  obtain ⟨id, hid0, hpk⟩ := hi.2 pt hptc
  rw [hid] at hid0
  cases hid0
  have he := expire_nil now c hn
  have hdoc : ∀ d ∈ sel.map (·.2), ∃ fs, d = Val.doc fs := by
    intro d hd
    obtain ⟨p, hp, rfl⟩ := List.mem_map.1 hd
    obtain ⟨id, hidp, _⟩ := hi.2 p (hsub.subset hp)
    cases hp2 : p.2 with
    | doc fs => exact ⟨fs, rfl⟩
    | _ => rw [hp2] at hidp; cases hidp
  obtain ⟨tfs, htfs⟩ := hdoc pt.2 (List.mem_map.2 ⟨pt, hpts, rfl⟩)
  have hid' : dget "_id" tfs = some tid := by rw [htfs] at hid; exact hid
  have hsel2 : selectDocs (patchDT (.doc [("_id", tid)])) c.docs = .ok [pt] := by
    rw [patch_id_filter tid hpt]
    exact select_id c.docs tid pt hi.1 hg hi.2 hna hsc hptc hpk
  refine ⟨pt, tfs, hptc, rfl, htfs, hid', hpk, hsel2, ?_, ?_⟩
  · rw [findOne_eq now c c fs .null sort sel he hne hs, headProj_null sort _ hdoc]
    exact congrArg (Prod.mk c) ht
  · rw [findOne_eq now c c [("_id", tid)] proj none [pt] he hne hsel2]
    simp only [List.map_cons, List.map_nil]
    rw [headProj_single]

/-! ### deleting the first selected entry -/

theorem delete_first (now : Int) (c c1 : Coll) (fs : Fields)
    (q : Val × Val) (rest : List (Val × Val))
    (he : expire now c = .ok c1) (hi : IdInv c) (hg : GoodKeys c)
    (hs : selectDocs (patchDT (.doc fs)) c1.docs = .ok (q :: rest)) :
    (deleteColl now c (.doc fs) false).2 = .ok 1 ∧
    (deleteColl now c (.doc fs) false).1.docs = c1.docs.filter (fun p => !pyEq q.1 p.1) := by
  have hne := select_ne_nil hs
  obtain ⟨hd, hgk, hk⟩ := MongoModel.Proofs.C10.inv_expired now c c1 he hi hg
  rw [MongoModel.Proofs.C10.delete_eq now c c1 fs _ false he hne hs]
  simp only [Bool.false_eq_true, if_false, List.take_succ_cons, List.take_zero]
  have hsub : [q].Sublist c1.docs :=
    (List.take_sublist 1 (q :: rest)).trans (select_sublist _ _ _ hs)
  obtain ⟨h1, h2, _⟩ := delete_victims c1 [q] hsub hd hgk hk
  refine ⟨by rw [h1]; rfl, ?_⟩
  rw [h2]
  apply List.filter_congr
  intro p _
  simp

theorem sameExcept_delete (l : List (Val × Val)) (pt : Val × Val) (tid : Val)
    (hd : DK l) (hg : GK l) (hpt : pt ∈ l) (hkt : pyEq pt.1 tid = true) :
    sameExcept tid l (l.filter (fun p => !pyEq pt.1 p.1)) := by
  constructor
  · intro p hp hf
    rw [List.mem_filter]
    refine ⟨hp, ?_⟩
    cases hx : pyEq pt.1 p.1 with
    | false => rfl
    | true =>
      have := mem_eq_of_pyEq hd hg hpt hp hx
      subst this
      rw [hkt] at hf; cases hf
  · intro p hp _
    exact (List.mem_filter.1 hp).1

/-! ### find_one_and_delete -/

theorem fam_delete_core (cfg : Cfg) (now : Int) (c c' : Coll) (fs : Fields) (proj : Val)
    (sort : Option SortSpec) (sel : List (Val × Val)) (target tid : Val) (ret : Option Val)
    (hi : IdInv c) (hg : GoodKeys c) (hn : c.ttlIndexes = [])
    (hna : ∀ p ∈ c.docs, p.1.isArr = false)
    (hs : selectDocs (patchDT (.doc fs)) c.docs = .ok sel)
    (ht : firstSorted sort sel = .ok (some target)) (hid : idOf target = some tid)
    (hsc : isScalar tid = true) (hpt : patchDT tid = tid)
    (h : findAndModify cfg now c (.doc fs) proj none false sort false = (c', .ok ret)) :
    sameExcept tid c.docs c'.docs ∧ c'.docs.length + 1 = c.docs.length ∧
    copyOnlyFields target proj = .ok (ret.getD .null) ∧ ret.isSome := by
  obtain ⟨pt, tfs, hptc, _, htfs, hid', hkt, hsel2, hr1, hr2⟩ :=
    fam_reads now c fs proj sort sel target tid hi hg hn hna hs ht hid hsc hpt
  have hgo := findAndModify_go _ _ _ _ _ _ _ _ _ _ _ h
  rw [htfs] at hr1
  cases hcp : copyOnlyFields target proj with
  | error e =>
    rw [hcp] at hr2
    rw [go_hit_err cfg now c _ proj none false sort false c c tfs tid e hr1 hid' hr2] at hgo
    cases hgo
  | ok o =>
    rw [hcp] at hr2
    rw [go_hit cfg now c _ proj none false sort false c c tfs tid (some o) hr1 hid' hr2] at hgo
    have he := expire_nil now c hn
    obtain ⟨hd1, hd2⟩ := delete_first now c c [("_id", tid)] pt [] he hi hg hsel2
    have hlen := (MongoModel.Proofs.C10.delete_one_eq_find now c c [("_id", tid)] [pt] he
      (List.ne_nil_of_mem hptc) hi hg hsel2).2
    rcases hdel : deleteColl now c (.doc [("_id", tid)]) false with ⟨c3, r⟩
    rw [hdel] at hgo hd1 hd2 hlen
    dsimp only at hd1 hd2 hlen hgo
    subst hd1
    dsimp only at hgo
    cases hgo
    refine ⟨?_, by simpa using hlen, rfl, rfl⟩
    rw [hd2]
    exact sameExcept_delete c.docs pt tid hi.1 hg hptc hkt

/-! ### find_one_and_update / find_one_and_replace -/

/-- the collection after the rewrite of the target entry still satisfies what `select_id` needs -/
theorem rewritten_select (c : Coll) (pt : Val × Val) (tid new : Val) (spec document nowV : Val)
    (hi : IdInv c) (hg : GoodKeys c) (hna : ∀ p ∈ c.docs, p.1.isArr = false)
    (hptc : pt ∈ c.docs) (hid : idOf pt.2 = some tid) (hkt : pyEq pt.1 tid = true)
    (hsc : isScalar tid = true)
    (htop : ∃ tfs, pt.2 = Val.doc tfs ∧ (dkeys tfs).Nodup)
    (hk : IdKept pt.2 new) (ha : applyUpdate spec document nowV false pt.2 = .ok new) :
    selectDocs (.doc [("_id", tid)]) (c.docs.map (setEntry pt.1 new)) = .ok [(pt.1, new)] := by
  have hrefl := (hg pt hptc).2
  have hnewtop : MongoModel.Proofs.C05Lemmas.TopOK new :=
    MongoModel.Proofs.C05Lemmas.applyUpdate_top spec document nowV false pt.2 new htop ha
  have hent : MongoModel.Proofs.C05Lemmas.EntU c pt :=
    ⟨(hg pt hptc).1, htop, ⟨tid, hid, hkt⟩, pt, hptc, rfl, by
      rw [hid]; exact MongoModel.Proofs.C05.scalar_refl tid hsc⟩
  obtain ⟨idn, hidn, hkn⟩ := MongoModel.Proofs.C05Lemmas.rewrite_id c pt new hent hnewtop hk
  apply select_id _ tid (pt.1, new) (DK_map_setEntry _ _ hi.1) (GK_map_setEntry _ _ hg)
  · intro p' hp'
    obtain ⟨p, hp, rfl⟩ := List.mem_map.1 hp'
    unfold setEntry
    cases hx : pyEq p.1 pt.1 with
    | false => simp only [Bool.false_eq_true, if_false]; exact hi.2 p hp
    | true =>
      simp only [if_true]
      have : p = pt := mem_eq_of_pyEq hi.1 hg hp hptc hx
      subst this
      exact ⟨idn, hidn, hkn⟩
  · intro p' hp'
    obtain ⟨p, hp, rfl⟩ := List.mem_map.1 hp'
    rw [setEntry_fst]; exact hna p hp
  · exact hsc
  · refine List.mem_map.2 ⟨pt, hptc, ?_⟩
    unfold setEntry; rw [hrefl]; rfl
  · exact hkt

theorem fam_update_core (cfg : Cfg) (now : Int) (c c' : Coll) (fs : Fields) (proj u : Val)
    (upsert after : Bool)
    (sort : Option SortSpec) (sel : List (Val × Val)) (target tid : Val) (ret : Option Val)
    (hi : IdInv c) (hg : GoodKeys c) (hn : c.ttlIndexes = [])
    (hna : ∀ p ∈ c.docs, p.1.isArr = false)
    (hs : selectDocs (patchDT (.doc fs)) c.docs = .ok sel)
    (ht : firstSorted sort sel = .ok (some target)) (hid : idOf target = some tid)
    (hsc : isScalar tid = true) (hpt : patchDT tid = tid)
    (h : findAndModify cfg now c (.doc fs) proj (some u) upsert sort after = (c', .ok ret)) :
    sameExcept tid c.docs c'.docs ∧ c'.docs.length = c.docs.length ∧
    (after = false → copyOnlyFields target proj = .ok (ret.getD .null) ∧ ret.isSome) ∧
    (after = true → (∀ tfs, target = Val.doc tfs → (dkeys tfs).Nodup) →
      ∃ p' ∈ c'.docs, pyEq p'.1 tid = true ∧
        copyOnlyFields p'.2 proj = .ok (ret.getD .null)) := by
  obtain ⟨pt, tfs, hptc, hp2, htfs, hid', hkt, hsel2, hr1, hr2⟩ :=
    fam_reads now c fs proj sort sel target tid hi hg hn hna hs ht hid hsc hpt
  have hgo := findAndModify_go _ _ _ _ _ _ _ _ _ _ _ h
  rw [htfs] at hr1
  cases hcp : copyOnlyFields target proj with
  | error e =>
    rw [hcp] at hr2
    rw [go_hit_err cfg now c _ proj (some u) upsert sort after c c tfs tid e hr1 hid' hr2] at hgo
    cases hgo
  | ok o =>
    rw [hcp] at hr2
    rw [go_hit cfg now c _ proj (some u) upsert sort after c c tfs tid (some o) hr1 hid' hr2] at hgo
    dsimp only at hgo
    have hpo : findAndModify.projOk proj = .ok () := by
      cases hx : findAndModify.projOk proj with
      | error ep => rw [hx] at hgo; cases hgo
      | ok x => cases x; rfl
    rw [hpo] at hgo
    dsimp only at hgo
    rcases hup : applyUpdateColl cfg now c (.doc [("_id", tid)]) u upsert false with ⟨c3, r⟩
    rw [hup] at hgo
    rcases update_one_core cfg now c c3 [("_id", tid)] u upsert pt [] r hn hi.1 hg hsel2 hup with
      ⟨_, e, rfl⟩ | ⟨new, res, spec, document, nowV, rfl, rfl, hups, hk, ha⟩
    · cases hgo
    · dsimp only at hgo
      rw [hups] at hgo
      dsimp only at hgo
      have hdocs : (c.setDoc pt.1 new).docs = c.docs.map (setEntry pt.1 new) :=
        setDoc_docs new (hasKey_of_mem hg hptc)
      have hn3 : (c.setDoc pt.1 new).ttlIndexes = [] := by rw [setDoc_ttl]; exact hn
      have hc' : c' = c.setDoc pt.1 new := by
        cases after with
        | false => simp only [Bool.false_eq_true, if_false] at hgo; cases hgo; rfl
        | true =>
          simp only [if_true] at hgo
          have := findOne_fst_nil now (c.setDoc pt.1 new) [("_id", tid)] proj none hn3
          rw [hgo] at this
          exact this
      subst hc'
      refine ⟨?_, by rw [hdocs, List.length_map], ?_, ?_⟩
      · rw [hdocs]
        exact sameExcept_map pt.1 tid new c.docs
          (fun p _ hx => pyEq_trans _ _ _ hx hkt)
      · intro haf
        subst haf
        simp only [Bool.false_eq_true, if_false] at hgo
        cases hgo
        exact ⟨rfl, rfl⟩
      · intro haf htop
        subst haf
        simp only [if_true] at hgo
        have hid2 : idOf pt.2 = some tid := by rw [hp2]; exact hid
        have hsel3 := rewritten_select c pt tid new spec document nowV hi hg hna hptc hid2 hkt hsc
          ⟨tfs, by rw [hp2]; exact htfs, htop tfs htfs⟩ hk ha
        have hmem : (pt.1, new) ∈ (c.setDoc pt.1 new).docs := by
          rw [hdocs]
          refine List.mem_map.2 ⟨pt, hptc, ?_⟩
          unfold setEntry; rw [(hg pt hptc).2]; rfl
        have hsel3' : selectDocs (patchDT (.doc [("_id", tid)])) (c.setDoc pt.1 new).docs =
            .ok [(pt.1, new)] := by
          rw [patch_id_filter tid hpt, hdocs]; exact hsel3
        rw [findOne_eq now _ _ [("_id", tid)] proj none [(pt.1, new)] (expire_nil now _ hn3)
          (List.ne_nil_of_mem hmem) hsel3'] at hgo
        simp only [List.map_cons, List.map_nil] at hgo
        rw [headProj_single] at hgo
        cases hcn : copyOnlyFields new proj with
        | error e => rw [hcn] at hgo; cases hgo
        | ok o' =>
          rw [hcn] at hgo
          cases hgo
          exact ⟨(pt.1, new), hmem, hkt, hcn⟩

end MongoModel.Proofs.C14Lemmas
