/-
  Proofs.C13 — lemmas and proofs behind Props/C13.lean.
  Helper lemmas: Proofs/C13Seed.lean (`expandDots` / `discardOps`), Proofs/C13Loop.lean (the
  update loop and the upsert branch).
-/
import Spec.Single
import Spec.Match
import Spec.UpsertExt
import Proofs.C13Seed
import Proofs.C13Loop

set_option linter.unusedVariables false

namespace MongoModel.Proofs.C13
open MongoModel MongoModel.Spec

/-- with a match the `upsert` flag is irrelevant: the two calls are the same call (stronger than
    `upsert_like_plain_when_matched`: whole state, whole result, errors included) -/
theorem upsert_eq_plain_when_matched (cfg : Cfg) (now : Int) (c c1 : Coll) (fs : Fields) (u : Val)
    (multi : Bool) (q : Val × Val) (rest : List (Val × Val))
    (he : expire now c = .ok c1) (hi : IdInv c) (hg : GoodKeys c)
    (hs : selectDocs (patchDT (.doc fs)) c1.docs = .ok (q :: rest)) :
    applyUpdateColl cfg now c (.doc fs) u true multi =
      applyUpdateColl cfg now c (.doc fs) u false multi :=
  C13Lemmas.upsert_eq_plain cfg now c c1 fs u multi q rest he hi hg hs

theorem upsert_like_plain_when_matched (cfg : Cfg) (now : Int) (c c1 : Coll) (fs : Fields) (u : Val)
    (multi : Bool) (q : Val × Val) (rest : List (Val × Val))
    (he : expire now c = .ok c1) (hi : IdInv c) (hg : GoodKeys c)
    (hs : selectDocs (patchDT (.doc fs)) c1.docs = .ok (q :: rest))
    (hok : ∀ e, (applyUpdateColl cfg now c (.doc fs) u false multi).2 ≠ .error e) :
    (applyUpdateColl cfg now c (.doc fs) u true multi).1.docs =
      (applyUpdateColl cfg now c (.doc fs) u false multi).1.docs ∧
    ((applyUpdateColl cfg now c (.doc fs) u true multi).2.toOption.map (fun r => (r.n, r.nModified, r.upserted.isSome)))
      = ((applyUpdateColl cfg now c (.doc fs) u false multi).2.toOption.map (fun r => (r.n, r.nModified, r.upserted.isSome))) := by
  rw [C13Lemmas.upsert_eq_plain cfg now c c1 fs u multi q rest he hi hg hs]
  exact ⟨rfl, rfl⟩

theorem no_upsert_no_insert (cfg : Cfg) (now : Int) (c c' : Coll) (f u : Val) (multi : Bool)
    (r : UpdateResult) (h : applyUpdateColl cfg now c f u false multi = (c', .ok r)) :
    r.upserted = none ∧ c'.docs.length ≤ c.docs.length :=
  C13Lemmas.no_upsert_no_insert_main cfg now c c' f u multi r h

theorem upsert_iff_no_match (cfg : Cfg) (now : Int) (c c1 c' : Coll) (fs : Fields) (u : Val)
    (multi : Bool) (sel : List (Val × Val)) (r : UpdateResult)
    (he : expire now c = .ok c1) (hne : c1.docs ≠ []) (hn : c.ttlIndexes = [])
    (hi : IdInv c) (hg : GoodKeys c)
    (hs : selectDocs (patchDT (.doc fs)) c1.docs = .ok sel)
    (h : applyUpdateColl cfg now c (.doc fs) u true multi = (c', .ok r)) :
    (r.upserted.isSome ↔ sel = []) ∧
    (sel = [] → ∃ id d, r.upserted = some id ∧ c'.docs = c1.docs ++ [(id, d)] ∧
        idOf d = some id ∧ r.n = 1 ∧ r.nModified = 0 ∧ r.updatedExisting = false) :=
  C13Lemmas.upsert_iff_no_match_main cfg now c c1 c' fs u multi sel r he hne hn hi hg hs h

theorem upsert_result (r : UpdateResult) (id : Val) (h : r.upserted = some id) :
    updateOut r = .doc [("matched", .int 0), ("modified", .int r.nModified), ("upserted", id)] := by
  unfold updateOut
  rw [h]
  rfl

theorem seed_plain_equalities (ss : Fields) (hk : ss.all (fun kv => !kv.1.toList.contains '.' && !kv.1.startsWith "$") = true)
    (hd : (dkeys ss).Nodup) :
    expandDots (equalities ss) = .ok (equalities ss) ∧
    (∀ k v, dget k ss = some v → isScalar v = true → dget k (equalities ss) = some v) ∧
    (∀ k ops, dget k ss = some (.doc ops) → isOps ops = true → dget "$eq" ops = none →
        dget k (equalities ss) = none) ∧
    (∀ k x, dget k ss = some (.doc [("$eq", x)]) → dget k (equalities ss) = some x) := by
  have hkv : ∀ kv ∈ ss, kv.1.toList.contains '.' = false ∧ kv.1.startsWith "$" = false := by
    intro kv hm
    have := List.all_eq_true.1 hk kv hm
    simp only [Bool.and_eq_true, Bool.not_eq_true'] at this
    exact this
  refine ⟨?_, C13Lemmas.seed_plain ss hk hd⟩
  have he : equalities ss = C13Lemmas.keep ss [] := by
    unfold equalities
    rw [C13Lemmas.discard_is_keep ss (fun kv hm => (hkv kv hm).2)]
  rw [he]
  exact C13Lemmas.expandDots_keep_plain ss (fun kv hm => (hkv kv hm).1)

theorem seed_expands_dots (a b : String) (v : Val)
    (ha : a.toList.contains '.' = false) (hb : b.toList.contains '.' = false) :
    expandDots [(a ++ "." ++ b, v)] = .ok [(a, .doc [(b, v)])] :=
  C13Lemmas.expandDots_two a b v ha hb

theorem setOnInsert_only_on_insert (spec now body : Val) (d : Val) :
    applyUpdate spec (.doc [("$setOnInsert", body)]) now false d = .ok d ∧
    applyUpdate spec (.doc [("$setOnInsert", body)]) now true d =
      applyUpdate spec (.doc [("$set", body)]) now true d ∧
    (positionalUpdate [("$setOnInsert", body)] = false →
      applyUpdate spec (.doc [("$setOnInsert", body)]) now true d = updateFields .set now body d) := by
  have h1 : updaterOf "$setOnInsert" = none := by decide +kernel
  have h2 : updaterOf "$set" = some .set := by decide +kernel
  have hp : positionalUpdate [("$set", body)] = positionalUpdate [("$setOnInsert", body)] := by
    simp [positionalUpdate, positionalOperators]
  refine ⟨?_, ?_, ?_⟩
  · simp only [applyUpdate]
    split <;> simp [applyOps, applyOpsPos, h1]
  · simp only [applyUpdate, hp]
    split
    · simp only [applyOpsPos, h1, h2]
      simp only [show ("$setOnInsert" = "$rename") = False by decide, if_false, if_true,
        Bool.not_true, Bool.false_eq_true]
    · simp only [applyOps, h1, h2]
      simp only [show ("$setOnInsert" = "$rename") = False by decide, if_false, if_true,
        Bool.not_true, Bool.false_eq_true]
  · intro hpos
    simp only [applyUpdate, hpos, Bool.false_eq_true, if_false, applyOps, h1]
    simp only [show ("$setOnInsert" = "$rename") = False by decide, if_false, if_true, Bool.not_true,
      Bool.false_eq_true, bind, Except.bind]
    cases updateFields .set now body d <;> rfl

/-! ### non-vacuity: the hypotheses of `upsert_iff_no_match` / `upsert_like_plain_when_matched`
    hold on a concrete collection -/

def exColl : Coll := { docs := [(.int 1, .doc [("_id", .int 1), ("a", .int 1)])] }

theorem exColl_hyps : expire 0 exColl = .ok exColl ∧ exColl.docs ≠ [] ∧ exColl.ttlIndexes = [] ∧
    IdInv exColl ∧ GoodKeys exColl := by
  refine ⟨rfl, by simp [exColl], rfl, ⟨?_, ?_⟩, ?_⟩
  · simp [KeysDistinct, exColl]
  · intro p hp
    simp only [exColl, List.mem_singleton] at hp
    subst hp
    exact ⟨.int 1, rfl, by decide +kernel⟩
  · intro p hp
    simp only [exColl, List.mem_singleton] at hp
    subst hp
    exact ⟨C05Lemmas.scalar_symm' _ rfl, by decide +kernel⟩

end MongoModel.Proofs.C13
