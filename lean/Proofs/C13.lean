/-
  Proofs.C13 — lemmas and proofs behind Props/C13.lean.
-/
import Spec.Single
import Spec.Match

namespace MongoModel.Proofs.C13
open MongoModel MongoModel.Spec

theorem upsert_like_plain_when_matched (cfg : Cfg) (now : Int) (c c1 : Coll) (fs : Fields) (u : Val)
    (multi : Bool) (q : Val × Val) (rest : List (Val × Val))
    (he : expire now c = .ok c1) (hi : IdInv c) (hg : GoodKeys c)
    (hs : selectDocs (patchDT (.doc fs)) c1.docs = .ok (q :: rest))
    (hok : ∀ e, (applyUpdateColl cfg now c (.doc fs) u false multi).2 ≠ .error e) :
    (applyUpdateColl cfg now c (.doc fs) u true multi).1.docs =
      (applyUpdateColl cfg now c (.doc fs) u false multi).1.docs ∧
    ((applyUpdateColl cfg now c (.doc fs) u true multi).2.toOption.map (fun r => (r.n, r.nModified, r.upserted.isSome)))
      = ((applyUpdateColl cfg now c (.doc fs) u false multi).2.toOption.map (fun r => (r.n, r.nModified, r.upserted.isSome))) := by sorry

theorem no_upsert_no_insert (cfg : Cfg) (now : Int) (c c' : Coll) (f u : Val) (multi : Bool)
    (r : UpdateResult) (h : applyUpdateColl cfg now c f u false multi = (c', .ok r)) :
    r.upserted = none ∧ c'.docs.length ≤ c.docs.length := by sorry

theorem upsert_iff_no_match (cfg : Cfg) (now : Int) (c c1 c' : Coll) (fs : Fields) (u : Val)
    (multi : Bool) (sel : List (Val × Val)) (r : UpdateResult)
    (he : expire now c = .ok c1) (hne : c1.docs ≠ []) (hn : c.ttlIndexes = [])
    (hi : IdInv c) (hg : GoodKeys c)
    (hs : selectDocs (patchDT (.doc fs)) c1.docs = .ok sel)
    (h : applyUpdateColl cfg now c (.doc fs) u true multi = (c', .ok r)) :
    (r.upserted.isSome ↔ sel = []) ∧
    (sel = [] → ∃ id d, r.upserted = some id ∧ c'.docs = c1.docs ++ [(id, d)] ∧
        idOf d = some id ∧ r.n = 1 ∧ r.nModified = 0 ∧ r.updatedExisting = false) := by sorry

theorem upsert_result (r : UpdateResult) (id : Val) (h : r.upserted = some id) (hn : id ≠ .null) :
    updateOut r = .doc [("matched", .int 0), ("modified", .int r.nModified), ("upserted", id)] := by sorry

theorem seed_plain_equalities (ss : Fields) (hk : ss.all (fun kv => !kv.1.toList.contains '.' && !kv.1.startsWith "$") = true)
    (hd : (dkeys ss).Nodup) :
    expandDots ss = .ok ss ∧
    (∀ k v, dget k ss = some v → isScalar v = true →
        dget k (match (discardOps (.doc ss)).1 with | .doc fs => fs | _ => []) = some v) ∧
    (∀ k ops, dget k ss = some (.doc ops) → isOps ops = true → dget "$eq" ops = none →
        dget k (match (discardOps (.doc ss)).1 with | .doc fs => fs | _ => []) = none) ∧
    (∀ k x, dget k ss = some (.doc [("$eq", x)]) →
        dget k (match (discardOps (.doc ss)).1 with | .doc fs => fs | _ => []) = some x) := by sorry

theorem seed_expands_dots (a b : String) (v : Val)
    (ha : a.toList.contains '.' = false) (hb : b.toList.contains '.' = false)
    (hna : a ≠ "") (hnb : b ≠ "") :
    expandDots [(a ++ "." ++ b, v)] = .ok [(a, .doc [(b, v)])] := by sorry

theorem setOnInsert_only_on_insert (spec now body : Val) (d : Val) :
    applyUpdate spec (.doc [("$setOnInsert", body)]) now false d = .ok d ∧
    applyUpdate spec (.doc [("$setOnInsert", body)]) now true d = updateFields .set now body d := by sorry

end MongoModel.Proofs.C13
