/-
  Proofs.C01 — the proofs behind Props/C01.lean.

  The helper lemmas live in
    Proofs/C01Basic.lean   connectives, the candidate loop, the unconditional laws
    Proofs/C01Values.lean  induction on values, hereditary predicates, path traversal against
                           `reach`, Python `==` vs BSON equality
    Proofs/C01Leaf.lean    each leaf test of the matcher against the oracle's leaf predicate
    Proofs/C01Cond.lean    one condition `path: c` of D
    Proofs/C01Main.lean    induction on the filter
-/
import Spec.MatchDomain
import Proofs.C01Main

namespace MongoModel.Proofs.C01
open MongoModel MongoModel.Spec

theorem and_is_conj (qs : List Val) (d : Val) (bs : List Bool)
    (h : qs.map (applyVal · d) = bs.map .ok) : allApply qs d = .ok (bs.all id) :=
  C01Lemmas.and_is_conj qs d bs h

theorem or_is_disj (qs : List Val) (d : Val) (bs : List Bool)
    (h : qs.map (applyVal · d) = bs.map .ok) : anyApply qs d = .ok (bs.any id) :=
  C01Lemmas.or_is_disj qs d bs h

theorem nor_is_neg_disj (qs : List Val) (d : Val) (bs : List Bool)
    (h : qs.map (applyVal · d) = bs.map .ok) : norApply qs d = .ok (!(bs.any id)) :=
  C01Lemmas.nor_is_neg_disj qs d bs h

theorem ne_eq_not_eq (key : String) (v d : Val) :
    applyKey (.doc [("$ne", v)]) key d = (applyKey (.doc [("$eq", v)]) key d).map (!·) :=
  C01Lemmas.ne_eq_not_eq key v d

theorem nin_eq_not_in (key : String) (v d : Val) :
    applyKey (.doc [("$nin", v)]) key d = (applyKey (.doc [("$in", v)]) key d).map (!·) :=
  C01Lemmas.nin_eq_not_in key v d

theorem not_eq_neg (key : String) (gs : Fields) (d : Val) (cs : List (Option Val))
    (hc : candsKey key d = .ok cs) (hne : cs ≠ [])
    (hk : gs.all (fun kv => operatorMapKeys.contains kv.1 || logicalKeys.contains kv.1) = true) :
    applyKey (.doc [("$not", .doc gs)]) key d = (applyKey (.doc gs) key d).map (!·) :=
  C01Lemmas.not_eq_neg key gs d cs hc hne hk

theorem null_eq_missing (key : String) (d : Val) (h : candsKey key d = .ok [none]) :
    applyKey .null key d = .ok true :=
  C01Lemmas.null_eq_missing key d h

theorem cands_eq_reach (ps : List String) (d : Val) (cs : List (Option Val))
    (h : cands ps d = .ok cs) : cs = reach ps d :=
  C01Lemmas.cands_eq_reach ps d cs h

theorem candsKey_eq_reach (key : String) (d : Val) (cs : List (Option Val))
    (h : candsKey key d = .ok cs) : cs = reach (splitDots key) d :=
  C01Lemmas.cands_eq_reach (splitDots key) d cs h

theorem candsKey_empty (fs : Fields) : candsKey "" (.doc fs) = .ok [dget "" fs] := by
  have h : splitDots "" = [""] := by decide
  simp only [candsKey, h, cands]

theorem unknown_operator_rejected (fs : Fields) (key : String) (d : Val)
    (hops : isOpsFilter (.doc fs) = true)
    (hunk : ∃ op, op ∈ dkeys fs ∧ operatorMapKeys.contains op = false ∧ op ≠ "$not")
    (hopt : ¬ ("$options" ∈ dkeys fs ∧ "$regex" ∈ dkeys fs)) :
    applyKey (.doc fs) key d = .error .opFail ∨ applyKey (.doc fs) key d = .error .notImpl := by
  refine C01Lemmas.applyKey_unknown_op fs key d hops ?_ ?_
  · by_cases h1 : "$options" ∈ dkeys fs
    · by_cases h2 : "$regex" ∈ dkeys fs
      · exact absurd ⟨h1, h2⟩ hopt
      · simp [h2]
    · simp [h1]
  · obtain ⟨op, hm, h1, h2⟩ := hunk
    exact List.any_eq_true.mpr ⟨op, hm, by
      have h2' : (op != "$not") = true := by simpa using h2
      simp only [C01Lemmas.unknownOp, h1, h2', Bool.not_false, Bool.and_self]⟩

theorem unknown_single_eq_spec (key op : String) (sv d : Val)
    (hk : key.startsWith "$" = false) (hop : op.startsWith "$" = true)
    (hunk : operatorMapKeys.contains op = false) (hn : op ≠ "$not") :
    ∃ e, (e = .opFail ∨ e = .notImpl) ∧
      filterApplies (.doc [(key, .doc [(op, sv)])]) d = .error e ∧
      specMatches (.doc [(key, .doc [(op, sv)])]) d = .error e :=
  C01Lemmas.unknown_single_eq_spec key op sv d hk hop (by
    have hn' : (op != "$not") = true := by simpa using hn
    simp only [C01Lemmas.unknownOp, hunk, hn', Bool.not_false, Bool.and_self])

theorem matches_eq_spec (f d : Val) (h : inD f d = true) :
    filterApplies f d = specMatches f d :=
  C01Lemmas.matches_eq_spec f d h

end MongoModel.Proofs.C01
