/-
  Proofs.C01 — helper lemmas and the proofs behind Props/C01.lean.
-/
import Spec.MatchDomain

namespace MongoModel.Proofs.C01
open MongoModel MongoModel.Spec

theorem and_is_conj (qs : List Val) (d : Val) (bs : List Bool)
    (h : qs.map (applyVal · d) = bs.map .ok) : allApply qs d = .ok (bs.all id) := by
  sorry

theorem or_is_disj (qs : List Val) (d : Val) (bs : List Bool)
    (h : qs.map (applyVal · d) = bs.map .ok) : anyApply qs d = .ok (bs.any id) := by
  sorry

theorem nor_is_neg_disj (qs : List Val) (d : Val) (bs : List Bool)
    (h : qs.map (applyVal · d) = bs.map .ok) : norApply qs d = .ok (!(bs.any id)) := by
  sorry

theorem ne_eq_not_eq (key : String) (v d : Val) :
    applyKey (.doc [("$ne", v)]) key d = (applyKey (.doc [("$eq", v)]) key d).map (!·) := by
  sorry

theorem nin_eq_not_in (key : String) (v d : Val) :
    applyKey (.doc [("$nin", v)]) key d = (applyKey (.doc [("$in", v)]) key d).map (!·) := by
  sorry

theorem not_eq_neg (key : String) (gs : Fields) (d : Val) (cs : List (Option Val))
    (hc : candsKey key d = .ok cs) (hne : cs ≠ [])
    (hk : gs.all (fun kv => operatorMapKeys.contains kv.1 || logicalKeys.contains kv.1) = true) :
    applyKey (.doc [("$not", .doc gs)]) key d = (applyKey (.doc gs) key d).map (!·) := by
  sorry

theorem null_eq_missing (key : String) (d : Val) (h : candsKey key d = .ok [none]) :
    applyKey .null key d = .ok true := by
  sorry

theorem matches_eq_spec (f d : Val) (h : inD f d = true) :
    filterApplies f d = specMatches f d := by
  sorry

end MongoModel.Proofs.C01
