/-
  Proofs.C04Spec2 — `eval_eq_spec`, part 2: field paths, variables, constants.
-/
import Proofs.C04Spec1

set_option linter.unusedSimpArgs false

namespace MongoModel.Proofs.C04
open MongoModel MongoModel.Expr MongoModel.Spec

/-- a path that stays inside sub-documents: `get_value_by_dot` is the rule's path lookup -/
theorem getDotGen_eq_path (ps : List String) (v : Val) (h : pathThroughArray ps v = false) :
    getDotGen ps v = Spec.path ps v := by
  induction ps generalizing v with
  | nil => cases v <;> simp [getDotGen, Spec.path]
  | cons p ps ih =>
    cases v with
    | doc fs =>
      simp only [getDotGen, Spec.path]
      cases hd : dget p fs with
      | none => rfl
      | some w =>
        simp only [pathThroughArray, hd] at h
        exact ih w h
    | arr xs => simp [pathThroughArray] at h
    | _ => simp [getDotGen, Spec.path]

theorem splitDotsChars_ne_nil (cs acc : List Char) : splitDotsChars cs acc ≠ [] := by
  induction cs generalizing acc with
  | nil => simp [splitDotsChars]
  | cons c r ih =>
    simp only [splitDotsChars]
    split
    · simp
    · exact ih _

/-- the string case: field paths and variables -/
theorem str_case (c : Ctx) (root : Val) (env : Env) (hr : EnvRel c root env) (s : String)
    (h : strReasons root env s = []) (hok : okReasons (sEval root env (.str s)) = []) :
    eval c (.str s) = sEval root env (.str s) := by
  simp only [sEval] at hok
  simp only [eval, evalBasic, sEval]
  unfold strReasons at h
  cases hk : strKind s with
  | lit => rfl
  | field r =>
    simp only [hk] at h ⊢
    rw [hr.hroot]
    apply getDotGen_eq_path
    by_contra hc
    simp [hc] at h
  | var r =>
    simp only [hk] at h hok ⊢
    cases hsp : splitDotsChars r [] with
    | nil => exact absurd hsp (splitDotsChars_ne_nil r [])
    | cons name rest =>
      simp only [hsp] at h hok
      simp only [evalVar, List.headD_cons, dhas, getDotGen, varLookup, hr.hget name]
      simp only [varLookup] at hok
      cases hl : env.lookup name with
      | some ov =>
        cases ov with
        | some v =>
          simp only [hl] at h ⊢
          simp only [Option.isSome_some, Bool.not_true, Bool.false_and, Bool.false_eq_true, if_false]
          apply getDotGen_eq_path
          by_contra hc
          simp [hc] at h
        | none => exact absurd hl (hr.hsome name)
      | none =>
        simp only [hl] at h hok ⊢
        by_cases hn : name = "ROOT" ∨ name = "CURRENT"
        · have hb : (decide (name = "ROOT") || decide (name = "CURRENT")) = true := by
            rcases hn with e | e <;> simp [e]
          rw [if_pos hb] at h
          have hp : pathThroughArray rest root = false := by
            by_contra hc; simp [hc] at h
          rw [if_pos hn, if_pos hb]
          simp only [Option.isSome_some, Bool.not_true, Bool.false_and, Bool.false_eq_true, if_false]
          exact getDotGen_eq_path rest root hp
        · have h1 : ¬ name = "ROOT" := fun e => hn (Or.inl e)
          have h2 : ¬ name = "CURRENT" := fun e => hn (Or.inr e)
          have hb : ¬ (decide (name = "ROOT") || decide (name = "CURRENT")) = true := by
            simp [h1, h2]
          rw [if_neg hb] at hok
          rw [if_neg hn, if_neg hb]
          by_cases hrm : name = "REMOVE"
          · subst hrm
            simp [systemVars]
          · rw [if_neg hrm] at hok
            split at hok <;> simp [okReasons, unmodelled] at hok

/-! ### constants -/

theorem strKind_lit (s : String) (h : startsDollar s = false) : strKind s = .lit := by
  unfold strKind
  unfold startsDollar at h
  split
  · rename_i heq; simp [heq] at h
  · rename_i heq; simp [heq] at h
  · rfl

theorem isConstFields_noDollar (fs : Fields) (h : isConstFields fs = true) :
    hasDollarKey' fs = false := by
  induction fs with
  | nil => rfl
  | cons kv r ih =>
    obtain ⟨k, v⟩ := kv
    simp only [isConstFields, Bool.and_eq_true, Bool.not_eq_true'] at h
    simp [hasDollarKey', h.1.1]
    simpa [hasDollarKey'] using ih h.2

/-- a constant evaluates to itself under the rules -/
theorem const_eval : ∀ v, AllSub (fun v => isConst v = true → ∀ root env,
    sEval root env v = .ok (some v)) v := by
  apply allSub_of_step
  · intro fs hsub hc root env
    simp only [isConst] at hc
    simp only [sEval, isConstFields_noDollar fs hc, Bool.false_eq_true, if_false]
    induction fs with
    | nil => rfl
    | cons kv r ih =>
      obtain ⟨k, v⟩ := kv
      simp only [isConstFields, Bool.and_eq_true] at hc
      simp only [AllSubFields] at hsub
      simp [sFields, hsub.1.self hc.1.2 root env, ih hsub.2 hc.2, bind, Except.bind, pure,
        Except.pure]
  · intro xs hsub hc root env
    simp only [isConst] at hc
    have : sList root env xs = .ok (xs.map some) := by
      induction xs with
      | nil => rfl
      | cons x r ih =>
        simp only [isConstList, Bool.and_eq_true] at hc
        simp only [AllSubList] at hsub
        simp [sList, hsub.1.self hc.1 root env, ih hsub.2 hc.2, bind, Except.bind, pure,
          Except.pure]
    simp [sEval, this, bind, Except.bind, pure, Except.pure, Function.comp_def]
  · intro v hd ha hc root env
    cases v with
    | str s =>
      simp only [isConst, Bool.not_eq_true'] at hc
      simp [sEval, strKind_lit s hc]
    | doc fs => simp [Val.isDoc] at hd
    | arr xs => simp [Val.isArr] at ha
    | _ => rfl

end MongoModel.Proofs.C04
