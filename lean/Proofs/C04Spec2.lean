/-
  Proofs.C04Spec2 — `eval_eq_spec`, part 2: field paths, variables, constants.
-/
import Proofs.C04Spec1

set_option linter.unusedSimpArgs false

namespace MongoModel.Proofs.C04
open MongoModel MongoModel.Expr MongoModel.Spec

theorem okReasons_nil {α} (r : R α) (h : okReasons r = []) : ∃ v, r = .ok v := by
  cases r with
  | ok v => exact ⟨v, rfl⟩
  | error e => cases e <;> simp [okReasons] at h

/-- two comprehensions over one list agree when they agree item by item -/
theorem mapM_ok_congr {α β} (F G : α → R β) (xs : List α) (rs : List β)
    (h : ∀ x ∈ xs, ∀ r, F x = .ok r → G x = .ok r) (hs : xs.mapM F = .ok rs) :
    xs.mapM G = .ok rs := by
  induction xs generalizing rs with
  | nil => simpa using hs
  | cons x xs ih =>
    simp only [List.mapM_cons, bind, Except.bind] at hs ⊢
    cases hx : F x with
    | error e => simp [hx] at hs
    | ok r =>
      simp only [hx] at hs
      cases hr : xs.mapM F with
      | error e => simp [hr] at hs
      | ok rs' =>
        simp only [hr, pure, Except.pure] at hs
        rw [h x (by simp) r hx, ih rs' (fun y hy => h y (by simp [hy])) hr]
        exact hs

/-- wherever the rule's path lookup has an answer and no numeric component meets an array,
    `get_value_by_dot` computes it: sub-documents are descended, an array gives the values that
    its documents have at the rest of the path -/
theorem getDotGen_of_path (ps : List String) (v : Val) (h : pathIndexesArray ps v = false)
    (r : Option Val) (hs : Spec.path ps v = .ok r) : getDotGen ps v = .ok r := by
  induction ps generalizing v r with
  | nil => cases v <;> simpa [getDotGen, Spec.path] using hs
  | cons p ps ih =>
    cases v with
    | doc fs =>
      simp only [getDotGen, Spec.path] at hs ⊢
      cases hd : dget p fs with
      | none => simpa [hd] using hs
      | some w =>
        simp only [pathIndexesArray, hd] at h
        simp only [hd] at hs ⊢
        exact ih w h r hs
    | arr xs =>
      simp only [pathIndexesArray, Bool.or_eq_false_iff] at h
      obtain ⟨hk, hall⟩ := h
      have hk' : keyInt p = .ok none := by
        cases hki : keyInt p with
        | error e => simp [hki] at hk
        | ok o => cases o with
          | none => rfl
          | some i => simp [hki] at hk
      simp only [getDotGen, Spec.path, hk', bind, Except.bind] at hs ⊢
      split at hs
      · cases hs
      · rename_i rs heq
        rw [mapM_ok_congr _ _ xs rs ?_ heq]
        · exact hs
        · intro x hx r' hr'
          cases x with
          | doc gs =>
            dsimp only at hr' ⊢
            cases hd : dget p gs with
            | none => simpa [hd] using hr'
            | some w =>
              simp only [hd] at hr' ⊢
              have hx' := List.any_eq_false.mp hall _ hx
              simp only [hd] at hx'
              exact ih w (by simpa using hx') r' hr'
          | arr ys => simp [unmodelled] at hr'
          | _ => all_goals simpa using hr'
    | _ => all_goals simpa [getDotGen, Spec.path] using hs

theorem splitDotsChars_ne_nil (cs acc : List Char) : splitDotsChars cs acc ≠ [] := by
  induction cs generalizing acc with
  | nil => simp [splitDotsChars]
  | cons c r ih =>
    simp only [splitDotsChars]
    split
    · simp
    · exact ih _

/-- the string case: field paths and variables -/
theorem str_case (c : Ctx) (root : Val) (env : Env) (hr : EnvRel c root env) (s : String)
    (h : strReasons root env s = []) (hok : okReasons (sEval root env (.str s)) = []) :
    eval c (.str s) = sEval root env (.str s) := by
  obtain ⟨res, hres⟩ := okReasons_nil _ hok
  rw [hres]
  simp only [sEval] at hres
  simp only [eval, evalBasic]
  unfold strReasons at h
  cases hk : strKind s with
  | lit => simp only [hk] at hres ⊢; exact hres
  | field r =>
    simp only [hk] at h hres ⊢
    rw [hr.hroot]
    exact getDotGen_of_path _ _ (by by_contra hc; simp [hc] at h) res hres
  | var r =>
    simp only [hk] at h hres ⊢
    cases hsp : splitDotsChars r [] with
    | nil => exact absurd hsp (splitDotsChars_ne_nil r [])
    | cons name rest =>
      simp only [hsp] at h hres
      have hv := hr.hvar name
      simp only [varLookup] at hres
      simp only [evalVar, List.headD_cons]
      cases hl : env.lookup name with
      | some ov =>
        cases ov with
        | some v =>
          simp only [hl] at h hres hv
          simp only [hv.1, Bool.false_eq_true, if_false, dhas, hv.2, Option.isSome_some,
            Bool.not_true, Bool.false_and, getDotGen]
          exact getDotGen_of_path rest v (by by_contra hc; simp [hc] at h) res hres
        | none =>
          simp only [hl] at hres hv
          simp only [hv, if_true]
          exact hres
      | none =>
        simp only [hl] at h hres hv
        by_cases hn : name = "ROOT" ∨ name = "CURRENT"
        · have hb : (decide (name = "ROOT") || decide (name = "CURRENT")) = true := by
            rcases hn with e | e <;> simp [e]
          rw [if_pos hb] at h hres
          rw [if_pos hn] at hv
          simp only [hv.1, Bool.false_eq_true, if_false, dhas, hv.2, Option.isSome_some,
            Bool.not_true, Bool.false_and, getDotGen]
          exact getDotGen_of_path rest root (by by_contra hc; simp [hc] at h) res hres
        · have h1 : ¬ name = "ROOT" := fun e => hn (Or.inl e)
          have h2 : ¬ name = "CURRENT" := fun e => hn (Or.inr e)
          have hb : ¬ (decide (name = "ROOT") || decide (name = "CURRENT")) = true := by
            simp [h1, h2]
          rw [if_neg hb] at hres
          rw [if_neg hn] at hv
          by_cases hrm : name = "REMOVE"
          · subst hrm
            rw [if_pos rfl] at hres
            simp [hv.1, dhas, hv.2, systemVars, getDotGen, dget, ← hres]
          · rw [if_neg hrm] at hres
            split at hres <;> simp [unmodelled] at hres

/-! ### constants -/

theorem strKind_lit (s : String) (h : startsDollar s = false) : strKind s = .lit := by
  unfold strKind
  unfold startsDollar at h
  split
  · rename_i heq; simp [heq] at h
  · rename_i heq; simp [heq] at h
  · rfl

theorem isConstFields_noDollar (fs : Fields) (h : isConstFields fs = true) :
    hasDollarKey' fs = false := by
  induction fs with
  | nil => rfl
  | cons kv r ih =>
    obtain ⟨k, v⟩ := kv
    simp only [isConstFields, Bool.and_eq_true, Bool.not_eq_true'] at h
    simp [hasDollarKey', h.1.1]
    simpa [hasDollarKey'] using ih h.2

/-- a constant evaluates to itself under the rules -/
theorem const_eval : ∀ v, AllSub (fun v => isConst v = true → ∀ root env,
    sEval root env v = .ok (some v)) v := by
  apply allSub_of_step
  · intro fs hsub hc root env
    simp only [isConst] at hc
    simp only [sEval, isConstFields_noDollar fs hc, Bool.false_eq_true, if_false]
    induction fs with
    | nil => rfl
    | cons kv r ih =>
      obtain ⟨k, v⟩ := kv
      simp only [isConstFields, Bool.and_eq_true] at hc
      simp only [AllSubFields] at hsub
      simp [sFields, hsub.1.self hc.1.2 root env, ih hsub.2 hc.2, bind, Except.bind, pure,
        Except.pure]
  · intro xs hsub hc root env
    simp only [isConst] at hc
    have : sList root env xs = .ok (xs.map some) := by
      induction xs with
      | nil => rfl
      | cons x r ih =>
        simp only [isConstList, Bool.and_eq_true] at hc
        simp only [AllSubList] at hsub
        simp [sList, hsub.1.self hc.1 root env, ih hsub.2 hc.2, bind, Except.bind, pure,
          Except.pure]
    simp [sEval, this, bind, Except.bind, pure, Except.pure, Function.comp_def]
  · intro v hd ha hc root env
    cases v with
    | str s =>
      simp only [isConst, Bool.not_eq_true'] at hc
      simp [sEval, strKind_lit s hc]
    | doc fs => simp [Val.isDoc] at hd
    | arr xs => simp [Val.isArr] at ha
    | _ => rfl

end MongoModel.Proofs.C04
