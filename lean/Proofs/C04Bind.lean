/-
  Proofs.C04Bind — `$let` / `$map` / `$filter` variable binding, array / set / string laws, and
  the computed-field and `$expr` contexts.
-/
import Proofs.C04Arith

set_option linter.unusedSimpArgs false

namespace MongoModel.Proofs.C04
open MongoModel MongoModel.Expr

/-! ### `$let` -/

theorem let_shaped (gs : Fields) : mode "$let" (.doc gs) = .shaped := by
  simp [mode, dateOps, datePartOps, wholeOps, unaryArithOps, groupingOps, hasTzKeys]

/-- **let_subst**: the names are checked, the variables are evaluated under the outer bindings
    (a missing value is kept as such), then `in` under the outer bindings extended by all of
    them -/
theorem let_subst (c : Ctx) (vs : Fields) (body : Val)
    (hn : vs.all (fun kv => validVarName kv.1) = true) :
    eval c (.doc [("$let", .doc [("vars", .doc vs), ("in", body)])]) =
      (evalVars c vs).bind (fun bs => eval (c.bindAll bs) body) := by
  rw [eval_shaped c "$let" _ (by decide) (by decide) (by decide) (by decide)
    (Or.inl (by decide)) (let_shaped _)]
  simp [evalOp, dhas, dget, evalVarsAt, evalAt, hn]
  rfl

/-- a name that is not a variable name is rejected before anything is evaluated -/
theorem let_bad_name (c : Ctx) (vs : Fields) (body : Val)
    (hn : vs.all (fun kv => validVarName kv.1) = false) :
    eval c (.doc [("$let", .doc [("vars", .doc vs), ("in", body)])]) = .error .opFail := by
  rw [eval_shaped c "$let" _ (by decide) (by decide) (by decide) (by decide)
    (Or.inl (by decide)) (let_shaped _)]
  simp [evalOp, dhas, dget, hn]

/-- the bindings are exactly the evaluated values, missing ones included -/
theorem evalVars_ok (c : Ctx) (vs : Fields) (rs : List (Option Val))
    (h : vs.map (fun kv => eval c kv.2) = rs.map .ok) :
    evalVars c vs = .ok ((vs.map (·.1)).zip rs) := by
  induction vs generalizing rs with
  | nil => cases rs <;> simp_all [evalVars]
  | cons kv vs ih =>
    obtain ⟨k, v⟩ := kv
    cases rs with
    | nil => simp at h
    | cons x rs =>
      simp only [List.map_cons, List.cons.injEq] at h
      simp [evalVars, h.1, ih rs h.2, bind, Except.bind, pure, Except.pure]

/-! ### `$map`, `$filter` -/

theorem mapItems_ok (f : Val → R (Option Val)) (g : Val → Option Val) (items : List Val)
    (h : ∀ x ∈ items, f x = .ok (g x)) :
    mapItems f items = .ok (items.map (fun x => (g x).getD .null)) := by
  induction items with
  | nil => simp [mapItems]
  | cons x r ih =>
    simp [mapItems, h x (by simp), ih (fun y hy => h y (by simp [hy])), bind, Except.bind, pure,
      Except.pure]

theorem filterItems_ok (f : Val → R (Option Val)) (g : Val → Option Val) (items : List Val)
    (h : ∀ x ∈ items, f x = .ok (g x)) :
    filterItems f items = .ok (items.filter (fun x => Spec.toBool (g x))) := by
  induction items with
  | nil => simp [filterItems]
  | cons x r ih =>
    simp only [filterItems, h x (by simp), ih (fun y hy => h y (by simp [hy])), bind, Except.bind,
      pure, Except.pure, List.filter_cons, toBoolOpt_eq]

/-- the result of `$filter` is a sublist of its input, whatever the condition does -/
theorem filterItems_sublist (f : Val → R (Option Val)) (items ys : List Val)
    (h : filterItems f items = .ok ys) : ys.Sublist items := by
  induction items generalizing ys with
  | nil => simp [filterItems] at h; subst h; exact List.Sublist.refl _
  | cons x r ih =>
    simp only [filterItems, bind, Except.bind] at h
    cases hx : f x with
    | error e => simp [hx] at h
    | ok y =>
      simp only [hx] at h
      cases hr : filterItems f r with
      | error e => simp [hr] at h
      | ok zs =>
        simp only [hr, pure, Except.pure, Except.ok.injEq] at h
        have := ih zs hr
        subst h
        cases toBoolOpt y
        · exact List.Sublist.cons _ this
        · exact List.Sublist.cons_cons _ this

/-- the result of `$map` has one element per item -/
theorem mapItems_length (f : Val → R (Option Val)) (items ys : List Val)
    (h : mapItems f items = .ok ys) : ys.length = items.length := by
  induction items generalizing ys with
  | nil => simp [mapItems] at h; subst h; rfl
  | cons x r ih =>
    simp only [mapItems, bind, Except.bind] at h
    cases hx : f x with
    | error e => simp [hx] at h
    | ok y =>
      simp only [hx] at h
      cases hr : mapItems f r with
      | error e => simp [hr] at h
      | ok zs =>
        simp only [hr, pure, Except.pure, Except.ok.injEq] at h
        subst h
        simp [ih zs hr]

theorem map_shaped (gs : Fields) : mode "$map" (.doc gs) = .shaped := by
  simp [mode, dateOps, datePartOps, wholeOps, unaryArithOps, groupingOps, hasTzKeys]

theorem filter_shaped (gs : Fields) : mode "$filter" (.doc gs) = .shaped := by
  simp [mode, dateOps, datePartOps, wholeOps, unaryArithOps, groupingOps, hasTzKeys]

theorem this_valid : validVarName "this" = true := by decide

/-- **map_spec** (default variable name `this`) -/
theorem map_spec (c : Ctx) (inp body : Val) :
    eval c (.doc [("$map", .doc [("input", inp), ("in", body)])]) =
      (eval c inp).bind (fun r =>
        match r with
        | none | some .null => .ok (some .null)
        | some (.arr items) =>
          (mapItems (fun item => eval (c.bind "this" item) body) items).map (fun ys => some (.arr ys))
        | some _ => .error .opFail) := by
  rw [eval_shaped c "$map" _ (by decide) (by decide) (by decide) (by decide)
    (Or.inl (by decide)) (map_shaped _)]
  simp only [evalOp]
  simp [dhas, dget, evalAt, asName, this_valid, bind, Except.bind]
  cases eval c inp with
  | error e => rfl
  | ok r =>
    cases r with
    | none => rfl
    | some v => cases v <;> simp [Except.map, pure, Except.pure] <;> (split <;> rfl)

/-- **map_spec** with an explicit variable name -/
theorem map_spec_as (c : Ctx) (inp body : Val) (name : String) (hn : validVarName name = true) :
    eval c (.doc [("$map", .doc [("input", inp), ("as", .str name), ("in", body)])]) =
      (eval c inp).bind (fun r =>
        match r with
        | none | some .null => .ok (some .null)
        | some (.arr items) =>
          (mapItems (fun item => eval (c.bind name item) body) items).map (fun ys => some (.arr ys))
        | some _ => .error .opFail) := by
  rw [eval_shaped c "$map" _ (by decide) (by decide) (by decide) (by decide)
    (Or.inl (by decide)) (map_shaped _)]
  simp only [evalOp]
  simp [dhas, dget, evalAt, asName, hn, bind, Except.bind]
  cases eval c inp with
  | error e => rfl
  | ok r =>
    cases r with
    | none => rfl
    | some v => cases v <;> simp [Except.map, pure, Except.pure] <;> (split <;> rfl)

/-- a name that is not a variable name is rejected before `input` is evaluated -/
theorem map_bad_name (c : Ctx) (inp body : Val) (name : String) (hn : validVarName name = false) :
    eval c (.doc [("$map", .doc [("input", inp), ("as", .str name), ("in", body)])]) =
      .error .opFail := by
  rw [eval_shaped c "$map" _ (by decide) (by decide) (by decide) (by decide)
    (Or.inl (by decide)) (map_shaped _)]
  simp only [evalOp]
  simp [dhas, dget, asName, hn]

/-- **filter_spec**: the condition is evaluated under the binding of each item; the item is kept
    when the value is true (`toBool`, a missing value being false); a null or missing input gives
    null -/
theorem filter_spec (c : Ctx) (inp cond : Val) :
    eval c (.doc [("$filter", .doc [("input", inp), ("cond", cond)])]) =
      (eval c inp).bind (fun r =>
        match r with
        | none | some .null => .ok (some .null)
        | some (.arr items) =>
          (filterItems (fun item => eval (c.bind "this" item) cond) items).map
            (fun ys => some (.arr ys))
        | some v => iterErr v) := by
  rw [eval_shaped c "$filter" _ (by decide) (by decide) (by decide) (by decide)
    (Or.inl (by decide)) (filter_shaped _)]
  simp only [evalOp]
  simp [dhas, dget, evalAt, asName, this_valid, bind, Except.bind]
  cases eval c inp with
  | error e => rfl
  | ok r =>
    cases r with
    | none => rfl
    | some v => cases v <;> simp [Except.map, pure, Except.pure] <;> (split <;> rfl)

end MongoModel.Proofs.C04
