/-
  Proofs.C05ExtGen — the extended step `stepX` (find_one, find_one_and_*, bulk_write, the bulk
  builder) carries whatever the basic entry points carry.

  Generic in a pair of predicates `P` (what an update needs of the collection it starts from)
  and `Q` (what every operation leaves), and a bridge `G` with `Q c → G c → P c` that is asked of
  the collections between the requests of a bulk.  Instantiated for C05 (`P` = `IdInv` with
  symmetric keys and dict-shaped documents, `Q` = the weak invariant `WInv`, `G` = `GoodColl`)
  and for C06 (`P` = `Q` = `UniqS`, `G` = nothing).
-/
import Spec.HistoryExt

set_option linter.unusedSimpArgs false
set_option linter.unusedVariables false

namespace MongoModel.Proofs.ExtGen
open MongoModel MongoModel.Spec

/-- what the basic entry points do to the pair `P`, `Q` -/
structure Pres (cfg : Cfg) (P Q : Coll → Prop) : Prop where
  weaken : ∀ c, P c → Q c
  findP : ∀ now c f proj sort, P c → P (findOneColl now c f proj sort).1
  findQ : ∀ now c f proj sort, Q c → Q (findOneColl now c f proj sort).1
  del : ∀ now c f multi, Q c → Q (deleteColl now c f multi).1
  upd : ∀ now c f u up multi, P c → Q (applyUpdateColl cfg now c f u up multi).1
  step : ∀ now c op, P c → Q (stepColl cfg now c op).1

variable {cfg : Cfg} {P Q : Coll → Prop}

/-! ### `_find_and_modify` -/

theorem fam_go (H : Pres cfg P Q) (now : Int) (c : Coll) (query proj : Val) (update : Option Val)
    (upsert : Bool) (sort : Option SortSpec) (after : Bool) (hP : P c) :
    Q (findAndModify.go cfg now c query proj update upsert sort after).1 := by
  have hP1 := H.findP now c query .null sort hP
  unfold findAndModify.go
  split
  · rename_i c1 e heq
    rw [heq] at hP1; exact H.weaken _ hP1
  · rename_i c1 heq
    rw [heq] at hP1
    split
    · exact H.weaken _ hP1
    · split
      · exact H.weaken _ hP1
      · rename_i u
        split
        · exact H.weaken _ hP1
        have hQ2 := H.upd now c1 query u true false hP1
        generalize applyUpdateColl cfg now c1 query u true false = x at hQ2
        obtain ⟨c2, r⟩ := x
        cases r with
        | error e => exact hQ2
        | ok res =>
          simp only
          split
          · exact H.findQ _ _ _ _ _ hQ2
          · exact hQ2
  · rename_i c1 target heq
    rw [heq] at hP1
    extract_lets idv q
    clear_value q
    have hP2 := H.findP now c1 q proj none hP1
    generalize findOneColl now c1 q proj none = y at hP2
    obtain ⟨c2, r2⟩ := y
    cases r2 with
    | error e => exact H.weaken _ hP2
    | ok old =>
      simp only
      cases update with
      | none =>
        simp only
        have hQ3 := H.del now c2 q false (H.weaken _ hP2)
        generalize deleteColl now c2 q false = z at hQ3
        obtain ⟨c3, r3⟩ := z
        cases r3 <;> exact hQ3
      | some u =>
        simp only
        split
        · exact H.weaken _ hP2
        have hQ3 := H.upd now c2 q u upsert false hP2
        generalize applyUpdateColl cfg now c2 q u upsert false = z at hQ3
        obtain ⟨c3, r3⟩ := z
        cases r3 with
        | error e => exact hQ3
        | ok res =>
          simp only
          split
          · exact H.findQ _ _ _ _ _ hQ3
          · exact hQ3

theorem fam_pres (H : Pres cfg P Q) (now : Int) (c : Coll) (query proj : Val) (update : Option Val)
    (upsert : Bool) (sort : Option SortSpec) (after : Bool) (hP : P c) :
    Q (findAndModify cfg now c query proj update upsert sort after).1 := by
  unfold findAndModify
  split
  · split
    · exact fam_go H now c query proj _ upsert sort after hP
    · split
      · exact H.weaken _ hP
      · exact fam_go H now c query proj _ upsert sort after hP
  · exact fam_go H now c query proj _ upsert sort after hP

/-! ### one request of a bulk -/

theorem bulkOne_pres (H : Pres cfg P Q) (now : Int) (c : Coll) (idx : Nat) (req : Val) (hP : P c) :
    Q (bulkOne cfg now c idx req).1 := by
  unfold bulkOne
  extract_lets upd
  have hupd : ∀ f u up multi, Q (upd f u up multi).1 := by
    intro f u up multi
    have hQ := H.upd now c f u up multi hP
    simp only [upd]
    generalize applyUpdateColl cfg now c f u up multi = x at hQ
    obtain ⟨c', r⟩ := x
    cases r <;> exact hQ
  clear_value upd
  have hdel : ∀ f multi, Q (bulkOne.deleteBulk now c f multi).1 := by
    intro f multi
    unfold bulkOne.deleteBulk
    split
    · exact H.del now c _ multi (H.weaken _ hP)
    · exact H.weaken _ hP
  split
  · rename_i d
    have hQ := H.step now c (.arr [.str "insert_one", d]) hP
    generalize stepColl cfg now c (.arr [.str "insert_one", d]) = x at hQ
    obtain ⟨c', o⟩ := x
    cases o <;> exact hQ
  · exact hupd _ _ _ _
  · exact hupd _ _ _ _
  · exact hupd _ _ _ _
  · rename_i f
    have hQ := hdel f false
    generalize bulkOne.deleteBulk now c f false = x at hQ
    obtain ⟨c', r⟩ := x
    cases r <;> exact hQ
  · rename_i f
    have hQ := hdel f true
    generalize bulkOne.deleteBulk now c f true = x at hQ
    obtain ⟨c', r⟩ := x
    cases r <;> exact hQ
  · exact H.weaken _ hP

end MongoModel.Proofs.ExtGen
