/-
  Proofs.C17Laws — the corollaries of C17: reads never create, creation and persistence,
  create on an existing name, rename, drop, handles and clients, index_information.
-/
import Proofs.C17Hist

set_option linter.unusedSimpArgs false

namespace MongoModel.Proofs.C17
open MongoModel MongoModel.Catalog MongoModel.Spec.Catalog

theorem store_setStore (w : World) (i j : Nat) (sv : Server) :
    (w.setStore i sv).store j = if j = i then sv else w.store j := rfl

/-! ### reads never create -/

theorem read_step_coll (σ : Nat → Nat) (w : World) (op : Op) (hr : isRead op = true)
    (i : Nat) (d n : String) :
    ((Catalog.step σ w op).1.store i).coll d n = (w.store i).coll d n := by
  cases op with
  | getDb c e =>
    simp only [Catalog.step]; split
    · rfl
    · rw [store_addDbCache, store_setStore]; split
      · rename_i h; rw [h, coll_touchDb]
      · rfl
  | getColl h m =>
    simp only [Catalog.step, unob]
    split
    · rfl
    · split
      · rfl
      · split
        · rfl
        · rw [store_addCollCache]
  | coll h o =>
    simp only [Catalog.step, unob]; split
    · rfl
    · have : (collOp o ((w.store (σ h.client)).coll h.db h.coll)).1 =
          (w.store (σ h.client)).coll h.db h.coll := by
        cases o <;> simp [isRead, CollOp.isRead] at hr <;> simp [collOp]
      rw [store_setStore]; split
      · rename_i hi; rw [this, hi, coll_touch]
      · rfl
  | listCollectionNames h f =>
    cases f with
    | none => simp only [Catalog.step, unob]; split <;> rfl
    | some f =>
      simp only [Catalog.step, unob]; split
      · rfl
      · split <;> rfl
  | listDatabaseNames c => rfl
  | collRename _ _ _ => simp [isRead] at hr
  | createCollection _ _ => simp [isRead] at hr
  | dropCollection _ _ => simp [isRead] at hr
  | renameCollection _ _ _ _ => simp [isRead] at hr
  | dropDatabase _ _ => simp [isRead] at hr

theorem read_run_coll (σ : Nat → Nat) (ops : List Op) : ∀ (w : World),
    ops.all isRead = true → ∀ i d n,
    ((Catalog.run σ w ops).1.store i).coll d n = (w.store i).coll d n := by
  induction ops with
  | nil => intro w _ i d n; rfl
  | cons op ops ih =>
    intro w hr i d n
    simp only [List.all_cons, Bool.and_eq_true] at hr
    simp only [Catalog.run]
    rw [ih _ hr.2, read_step_coll σ w op hr.1]

theorem listColls_perm_of_coll {sv sv' : Server} (h : WFs sv) (h' : WFs sv') (d : String)
    (hc : ∀ n, sv'.coll d n = sv.coll d n) : (sv'.listColls d).Perm (sv.listColls d) := by
  refine (List.perm_ext_iff_of_nodup (nodup_listColls h' d) (nodup_listColls h d)).mpr ?_
  intro a; rw [mem_listColls h', mem_listColls h, hc]

theorem listDbs_perm_of_coll {sv sv' : Server} (h : WFs sv) (h' : WFs sv')
    (hc : ∀ d n, sv'.coll d n = sv.coll d n) : sv'.listDbs.Perm sv.listDbs := by
  refine (List.perm_ext_iff_of_nodup (nodup_listDbs h') (nodup_listDbs h)).mpr ?_
  intro a; rw [mem_listDbs h', mem_listDbs h]
  constructor
  · rintro ⟨n, hn⟩; exact ⟨n, by rw [← hc]; exact hn⟩
  · rintro ⟨n, hn⟩; exact ⟨n, by rw [hc]; exact hn⟩

theorem reads_never_create (σ : Nat → Nat) (w : World) (ops : List Op) (hw : WF w)
    (hr : ops.all isRead = true) :
    (∀ i d n, ((Catalog.run σ w ops).1.store i).coll d n = (w.store i).coll d n) ∧
    (∀ i d, (((Catalog.run σ w ops).1.store i).listColls d).Perm ((w.store i).listColls d)) ∧
    (∀ i, ((Catalog.run σ w ops).1.store i).listDbs.Perm (w.store i).listDbs) := by
  have hc := read_run_coll σ ops w hr
  have hw' := wf_run σ ops w hw
  exact ⟨hc, fun i d => listColls_perm_of_coll (hw.1 i) (hw'.1 i) d (fun n => hc i d n),
    fun i => listDbs_perm_of_coll (hw.1 i) (hw'.1 i) (fun d n => hc i d n)⟩

/-! ### create_collection -/

theorem contains_created_of_created {sv : Server} {d n : String}
    (h : (sv.coll d n).isCreated = true) : (createdColls (sv.db d)).contains n = true := by
  simp only [List.contains_eq_mem, decide_eq_true_eq]
  unfold Server.coll at h
  cases hg : alGet? n (sv.db d) with
  | none => rw [hg] at h; simp [Coll.empty, Coll.isCreated] at h
  | some c =>
    rw [hg] at h
    exact List.mem_map.mpr ⟨(n, c), List.mem_filter.mpr ⟨alGet?_mem hg, by simpa using h⟩, rfl⟩

theorem create_existing_fails (σ : Nat → Nat) (w : World) (h : DbH) (n : String)
    (hob : obtainedDb w h = true) (hv : validName n = true)
    (hex : created w (σ h.client) h.db n = true) :
    Catalog.step σ w (.createCollection h n) = (w, .err .collInvalid) := by
  have := contains_created_of_created hex
  simp only [Catalog.step, hob, hv, this, Bool.not_true, Bool.false_eq_true, if_false, if_true]

theorem create_new_succeeds (σ : Nat → Nat) (w : World) (h : DbH) (n : String) (hw : WF w)
    (hob : obtainedDb w h = true) (hv : validName n = true)
    (hex : created w (σ h.client) h.db n = false) :
    (Catalog.step σ w (.createCollection h n)).2 = .ok ∧
    created (Catalog.step σ w (.createCollection h n)).1 (σ h.client) h.db n = true := by
  have : (createdColls ((w.store (σ h.client)).db h.db)).contains n = false := by
    rw [contains_createdColls (hw.1 _)]; exact hex
  simp only [Catalog.step, hob, hv, this, Bool.not_true, Bool.false_eq_true, if_false, created]
  refine ⟨trivial, ?_⟩
  rw [store_addCollCache, store_setStore]
  simp only [if_true]
  rw [coll_setColl]; simp [Coll.isCreated]

/-! ### first write creates, existence persists until a drop -/

theorem write_creates (σ : Nat → Nat) (w : World) (h : CollH) (o : CollOp)
    (hob : obtainedColl w h = true)
    (ho : (∃ id, o = .insert id) ∨ (∃ nm info, o = .createIndex nm info)) :
    created (Catalog.step σ w (.coll h o)).1 (σ h.client) h.db h.coll = true := by
  simp only [Catalog.step, hob, Bool.not_true, Bool.false_eq_true, if_false, created]
  rw [store_setStore]; simp only [if_true]
  rw [coll_setColl]; simp only [and_self, if_true]
  generalize (w.store (σ h.client)).coll h.db h.coll = c
  rcases ho with ⟨id, rfl⟩ | ⟨nm, info, rfl⟩
  · simp only [collOp]
    split
    · rename_i hm
      cases hd : c.docs with
      | nil => rw [hd] at hm; simp at hm
      | cons a r => simp [Coll.isCreated, hd]
    · simp [Coll.isCreated]
  · simp only [collOp]
    generalize nm.getD (genIndexName info.key) = name
    cases hg : alGet? name c.indexes with
    | none => simp [Coll.isCreated]
    | some ex =>
      by_cases he : ex = info
      · simp [he, Coll.isCreated]
      · simp only [he, if_false]
        cases hi : c.indexes with
        | nil => rw [hi] at hg; simp [alGet?] at hg
        | cons p r => simp [Coll.isCreated, hi]

theorem scollOp_some (o : CollOp) (c : SColl) (h : o.isDrop = false) :
    ((scollOp o (some c)).1).isSome = true := by
  cases o with
  | drop => simp [CollOp.isDrop] at h
  | createIndex nm info =>
    simp only [scollOp]
    cases alGet? (nm.getD (genIndexName info.key)) c.indexes with
    | none => rfl
    | some ex => simp only []; split <;> rfl
  | insert id => simp only [scollOp]; split <;> rfl
  | deleteOne id => simp only [scollOp]; split <;> rfl
  | dropIndex r => simp only [scollOp]; split <;> rfl
  | find => rfl
  | indexInformation => rfl
  | deleteAll => rfl
  | dropIndexes => rfl

theorem spec_renameStep_persists (st : SStore) (d m n' : String) (dt : Bool) (e n : String)
    (hne : (e = d ∧ (m = n ∨ n' = n)) → False)
    (hex : (alGet? (e, n) st).isSome = true) :
    (alGet? (e, n) (Spec.Catalog.renameStep st d m n' dt).1).isSome = true := by
  unfold Spec.Catalog.renameStep
  split
  · exact hex
  · split
    · exact hex
    · split
      · exact hex
      · split
        · exact hex
        · rw [alGet?_upsert, alGet?_erase]
          have e1 : ¬ ((e, n) = (d, n')) := by
            intro h; exact hne ⟨(Prod.ext_iff.mp h).1, Or.inr (Prod.ext_iff.mp h).2.symm⟩
          have e2 : ¬ ((e, n) = (d, m)) := by
            intro h; exact hne ⟨(Prod.ext_iff.mp h).1, Or.inl (Prod.ext_iff.mp h).2.symm⟩
          simp only [e1, e2, if_false]; exact hex

theorem spec_persists (σ : Nat → Nat) (s : SWorld) (op : Op) (i : Nat) (d n : String)
    (hne : mayRemove σ i d n op = false) (hex : (alGet? (d, n) (s i)).isSome = true) :
    (alGet? (d, n) ((Spec.Catalog.step σ s op).1 i)).isSome = true := by
  cases op with
  | getDb c e => exact hex
  | getColl h m => exact hex
  | coll h o =>
    simp only [Spec.Catalog.step, upd_apply]
    split
    · rename_i hi
      rw [alGet?_setOpt]
      split
      · rename_i hk
        have hd := (Prod.ext_iff.mp hk).1
        have hn := (Prod.ext_iff.mp hk).2
        simp at hd hn
        have hnd : o.isDrop = false := by
          cases ho : o.isDrop
          · rfl
          · simp [mayRemove, ho, hi, hd, hn] at hne
        rw [← hi, ← hk]
        cases hg : alGet? (d, n) (s i) with
        | none => rw [hg] at hex; simp at hex
        | some c => exact scollOp_some o c hnd
      · rw [← hi]; exact hex
    · exact hex
  | collRename h n' dt =>
    simp only [Spec.Catalog.step, upd_apply]
    split
    · rename_i hi
      apply spec_renameStep_persists
      · rintro ⟨hd, hm⟩
        simp only [mayRemove, hi, hd, beq_self_eq_true, Bool.true_and, Bool.or_eq_false_iff,
          beq_eq_false_iff_ne, ne_eq] at hne
        rcases hm with hm | hm
        · exact hne.1 hm
        · exact hne.2 hm
      · rw [← hi]; exact hex
    · exact hex
  | renameCollection h m n' dt =>
    simp only [Spec.Catalog.step, upd_apply]
    split
    · rename_i hi
      apply spec_renameStep_persists
      · rintro ⟨hd, hm⟩
        simp only [mayRemove, hi, hd, beq_self_eq_true, Bool.true_and, Bool.or_eq_false_iff,
          beq_eq_false_iff_ne, ne_eq] at hne
        rcases hm with hm | hm
        · exact hne.1 hm
        · exact hne.2 hm
      · rw [← hi]; exact hex
    · exact hex
  | createCollection h m =>
    simp only [Spec.Catalog.step]
    split
    · exact hex
    · split
      · exact hex
      · simp only [upd_apply]; split
        · rename_i hi
          rw [alGet?_upsert]; split
          · rfl
          · rw [← hi]; exact hex
        · exact hex
  | dropCollection h t =>
    cases t with
    | byName m =>
      simp only [Spec.Catalog.step, upd_apply]
      split
      · rename_i hi
        rw [alGet?_erase]; split
        · rename_i hk
          have hd := (Prod.ext_iff.mp hk).1
          have hn := (Prod.ext_iff.mp hk).2
          simp at hd hn
          simp [mayRemove, hi, hd, hn] at hne
        · rw [← hi]; exact hex
      · exact hex
    | byHandle h' =>
      simp only [Spec.Catalog.step, upd_apply]
      split
      · rename_i hi
        rw [alGet?_erase]; split
        · rename_i hk
          have hd := (Prod.ext_iff.mp hk).1
          have hn := (Prod.ext_iff.mp hk).2
          simp at hd hn
          simp [mayRemove, hi, hd, hn] at hne
        · rw [← hi]; exact hex
      · exact hex
  | listCollectionNames h f => cases f <;> exact hex
  | listDatabaseNames c => exact hex
  | dropDatabase c t =>
    cases t with
    | byName e =>
      simp only [Spec.Catalog.step, upd_apply]
      split
      · rename_i hi
        rw [alGet?_dropDb]; split
        · rename_i hk
          simp at hk
          simp [mayRemove, hi, hk] at hne
        · rw [← hi]; exact hex
      · exact hex
    | byHandle h =>
      simp only [Spec.Catalog.step, upd_apply]
      split
      · rename_i hi
        rw [alGet?_dropDb]; split
        · rename_i hk
          simp at hk
          simp [mayRemove, hi, hk] at hne
        · rw [← hi]; exact hex
      · exact hex

/-- a step outside the scope of the model (a handle that was never obtained, a listing filter
    with an empty name) is answered with an error and changes nothing -/
theorem step_outside_D (σ : Nat → Nat) (w : World) (op : Op) (h : inD σ w op = false) :
    (Catalog.step σ w op).1 = w := by
  cases op with
  | getDb c d => simp [inD, handlesObtained, filterFalsy] at h
  | listDatabaseNames c => simp [inD, handlesObtained, filterFalsy] at h
  | getColl hh n =>
    simp only [inD, handlesObtained, filterFalsy, Bool.not_false, Bool.and_true] at h
    simp [Catalog.step, unob, h]
  | coll hh o =>
    simp only [inD, handlesObtained, filterFalsy, Bool.not_false, Bool.and_true] at h
    simp [Catalog.step, unob, h]
  | collRename hh n' dt =>
    simp only [inD, handlesObtained, filterFalsy, Bool.not_false, Bool.and_true] at h
    simp [Catalog.step, unob, h]
  | createCollection hh n =>
    simp only [inD, handlesObtained, filterFalsy, Bool.not_false, Bool.and_true] at h
    simp [Catalog.step, unob, h]
  | renameCollection hh n n' dt =>
    simp only [inD, handlesObtained, filterFalsy, Bool.not_false, Bool.and_true] at h
    simp [Catalog.step, unob, h]
  | dropCollection hh t =>
    cases t with
    | byName n =>
      simp only [inD, handlesObtained, filterFalsy, Bool.not_false, Bool.and_true] at h
      simp [Catalog.step, unob, h]
    | byHandle h' =>
      simp only [inD, handlesObtained, filterFalsy, Bool.not_false, Bool.and_true,
        Bool.and_eq_false_iff] at h
      rcases h with h | h <;> simp [Catalog.step, unob, h]
  | listCollectionNames hh f =>
    cases f with
    | none =>
      simp only [inD, handlesObtained, filterFalsy, Bool.not_false, Bool.and_true] at h
      simp [Catalog.step, unob, h]
    | some f =>
      simp only [Catalog.step, unob]
      split
      · rfl
      · split <;> rfl
  | dropDatabase c t =>
    cases t with
    | byName d => simp [inD, handlesObtained, filterFalsy] at h
    | byHandle hh =>
      simp only [inD, handlesObtained, filterFalsy, Bool.not_false, Bool.and_true] at h
      simp [Catalog.step, unob, h]

/-- one step - in or out of the scope of the model - that is no drop of the namespace, no rename
    from or onto it and no drop of its database leaves it existing -/
theorem exists_persists_step (σ : Nat → Nat) (w : World) (op : Op) (i : Nat) (d n : String)
    (hw : WF w) (hne : mayRemove σ i d n op = false)
    (hex : created w i d n = true) : created (Catalog.step σ w op).1 i d n = true := by
  cases hD : inD σ w op with
  | false => rw [step_outside_D σ w op hD]; exact hex
  | true =>
    have hR := rel_abs hw
    have hs := (step_refines σ w (abs w) op hR hD).1
    unfold created at hex ⊢
    rw [created_iff_isSome hs]
    apply spec_persists σ (abs w) op i d n hne
    rw [← created_iff_isSome hR]; exact hex

theorem exists_until_drop (σ : Nat → Nat) (i : Nat) (d n : String) (ops : List Op) :
    ∀ (w : World), WF w →
    ops.all (fun op => !mayRemove σ i d n op) = true →
    created w i d n = true → created (Catalog.run σ w ops).1 i d n = true := by
  induction ops with
  | nil => intro w _ _ h; exact h
  | cons op ops ih =>
    intro w hw hne hex
    simp only [List.all_cons, Bool.and_eq_true, Bool.not_eq_true'] at hne
    exact ih _ (wf_step σ w op hw) hne.2
      (exists_persists_step σ w op i d n hw hne.1 hex)

/-- the converse reading: a namespace that existed and does not any more was dropped, renamed
    away or onto, or its database was dropped - by that very step -/
theorem vanishes_only_by_removal (σ : Nat → Nat) (w : World) (op : Op) (i : Nat) (d n : String)
    (hw : WF w) (hex : created w i d n = true)
    (hgone : created (Catalog.step σ w op).1 i d n = false) : mayRemove σ i d n op = true := by
  cases hm : mayRemove σ i d n op with
  | true => rfl
  | false =>
    have := exists_persists_step σ w op i d n hw hm hex
    rw [hgone] at this; exact absurd this (by simp)

theorem created_listed {w : World} (hw : WF w) (i : Nat) (d n : String)
    (hex : created w i d n = true) :
    d ∈ (w.store i).listDbs ∧ (isSystem n = false → n ∈ (w.store i).listColls d) :=
  ⟨(mem_listDbs (hw.1 i) d).mpr ⟨n, hex⟩, fun hs => (mem_listColls (hw.1 i) d n).mpr ⟨hex, hs⟩⟩

end MongoModel.Proofs.C17
