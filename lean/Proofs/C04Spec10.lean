/-
  Proofs.C04Spec10 — `eval_eq_spec`, part 10: `$size`, `$concatArrays`, `$concat`,
  `$arrayElemAt` on a list of operands; the strict operators together.
-/
import Proofs.C04Spec9

set_option linter.unusedSimpArgs false
set_option linter.unnecessarySeqFocus false

namespace MongoModel.Proofs.C04
open MongoModel MongoModel.Expr MongoModel.Spec

/-- `$size: [e]` -/
theorem size_case (c : Ctx) (xs : List Val) (vs : List (Option Val))
    (h1 : xs.map (eval c) = vs.map .ok) (r : Option Val) (hs : applyStrict "$size" vs = .ok r) :
    eval c (.doc [("$size", .arr xs)]) = .ok r := by
  have hcls : classify "$size" = .array := by decide
  have hm : mode "$size" (.arr xs) = .shaped := mode_shaped_arr "$size" xs (by simp)
  have key : ∀ ys, vs = [some (.arr ys)] → eval c (.doc [("$size", .arr xs)]) =
      .ok (some (.int ys.length)) := by
    intro ys hv
    subst hv
    obtain ⟨x, hx⟩ : ∃ x, xs = [x] := by
      have hlen : xs.length = 1 := by simpa using congrArg List.length h1
      match xs, hlen with
      | [x], _ => exact ⟨x, rfl⟩
    subst hx
    simp only [List.map_cons, List.map_nil, List.cons.injEq, and_true] at h1
    rw [eval_shaped c "$size" _ (by decide) (by decide) (by decide) (by decide) (Or.inr rfl) hm]
    simp [evalOp, arityErr, binaryArithOps, comparisonOps, listOps,
      arithmeticOps, unaryArithOps, groupingOps, evalSize, h1, sizeOp, bind, Except.bind,
      Except.map]
  match vs, hs, key with
  | [some v], hs, key =>
    cases v <;> simp [applyStrict] at hs
    subst hs
    exact key _ rfl
  | [], hs, _ => simp [applyStrict] at hs
  | [none], hs, _ => simp [applyStrict] at hs
  | _ :: _ :: _, hs, _ => simp [applyStrict] at hs

/-- `$concatArrays`, `$concat` -/
theorem concat_case (c : Ctx) (hign : c.ign = true) (k : String)
    (hk : k = "$concatArrays" ∨ k = "$concat") (xs : List Val) (vs : List (Option Val))
    (h1 : xs.map (eval c) = vs.map .ok) (r : Option Val) (hs : applyStrict k vs = .ok r) :
    eval c (.doc [(k, .arr xs)]) = .ok r := by
  have hm : mode k (.arr xs) = .shaped := mode_shaped_arr k xs (by rcases hk with rfl | rfl <;> simp)
  have har : arityErr k xs.length = none := by
    rcases hk with rfl | rfl <;> simp [arityErr, binaryArithOps, comparisonOps]
  have hl : listOps.contains k = true := by rcases hk with rfl | rfl <;> decide
  have hpm : nullOnMissing true k = true := by rcases hk with rfl | rfl <;> decide
  rcases hk with rfl | rfl
  · have hcls : classify "$concatArrays" = .array := by decide
    cases h2 : concatArraysS vs with
    | error e => simp [applyStrict, h2, Except.map] at hs
    | ok w =>
      simp [applyStrict, h2, Except.map] at hs; subst hs
      have hp := concatArrays_pure vs w h2
      rw [eval_list c _ xs .array hcls (by simp) (by simp) (by simp) hm har hl]
      rw [hign, hpm, evalList_ok c true xs vs h1, allSome_manyTrue]
      simp [Except.bind, applyList, binaryArithOps, comparisonOps, groupingOps, hp, Except.map]
  · have hcls : classify "$concat" = .string := by decide
    cases h2 : concatS vs with
    | error e => simp [applyStrict, h2, Except.map] at hs
    | ok w =>
      simp [applyStrict, h2, Except.map] at hs; subst hs
      have hp := concat_pure vs w h2
      rw [eval_list c _ xs .string hcls (by simp) (by simp) (by simp) hm har hl]
      rw [hign, hpm, evalList_ok c true xs vs h1, allSome_manyTrue]
      simp [Except.bind, applyList, binaryArithOps, comparisonOps, groupingOps, hp, Except.map]

/-- `$arrayElemAt` -/
theorem elemAt_case (c : Ctx) (xs : List Val) (vs : List (Option Val))
    (h1 : xs.map (eval c) = vs.map .ok) (hr : strictReasons "$arrayElemAt" vs = [])
    (r : Option Val) (hs : applyStrict "$arrayElemAt" vs = .ok r) :
    eval c (.doc [("$arrayElemAt", .arr xs)]) = .ok r := by
  have hcls : classify "$arrayElemAt" = .project := by decide
  have hm : mode "$arrayElemAt" (.arr xs) = .shaped := mode_shaped_arr _ xs (by simp)
  have hl : listOps.contains "$arrayElemAt" = true := by decide
  match vs, hs, hr, h1 with
  | [a, i], hs, hr, h1 =>
    have hlen : xs.length = 2 := by simpa using congrArg List.length h1
    have har : arityErr "$arrayElemAt" xs.length = none := by rw [hlen]; decide
    have hs' : elemAt a i = .ok r := by simpa [applyStrict] using hs
    have hp := elemAt_pure a i r hs'
    rw [eval_list c _ xs .project hcls (by simp) (by simp) (by simp) hm har hl]
    rw [show nullOnMissing c.ign "$arrayElemAt" = true by
          simp [nullOnMissing, usesParseOrNothing],
      evalList_ok c true xs [a, i] h1, allSome_manyTrue]
    simp [nulled, Except.bind, applyList, binaryArithOps, comparisonOps, hp]
  | [], hs, _, _ => simp [applyStrict] at hs
  | [_], hs, _, _ => simp [applyStrict] at hs
  | _ :: _ :: _ :: _, hs, _, _ => simp [applyStrict] at hs

/-- `$strcasecmp` -/
theorem strcasecmp_case (c : Ctx) (xs : List Val) (vs : List (Option Val))
    (h1 : xs.map (eval c) = vs.map .ok)
    (r : Option Val) (hs : applyStrict "$strcasecmp" vs = .ok r) :
    eval c (.doc [("$strcasecmp", .arr xs)]) = .ok r := by
  have hcls : classify "$strcasecmp" = .string := by decide
  have hm : mode "$strcasecmp" (.arr xs) = .shaped := by
    simp [mode, dateOps, datePartOps, wholeOps, unaryArithOps, groupingOps]
  have hl : listOps.contains "$strcasecmp" = true := by decide
  match vs, hs, h1 with
  | [a, b], hs, h1 =>
    have hlen : xs.length = 2 := by simpa using congrArg List.length h1
    have har : arityErr "$strcasecmp" xs.length = none := by rw [hlen]; decide
    have hs' : (strcasecmpS a b).map some = .ok r := by simpa [applyStrict] using hs
    cases h2 : strcasecmpS a b with
    | error e => simp [h2, Except.map] at hs'
    | ok w =>
      simp [h2, Except.map] at hs'; subst hs'
      have hp := strcasecmp_pure a b w h2
      rw [eval_list c _ xs .string hcls (by simp) (by simp) (by simp) hm har hl]
      rw [show nullOnMissing c.ign "$strcasecmp" = true by
            simp [nullOnMissing, usesParseOrNothing],
        evalList_ok c true xs [a, b] h1, allSome_manyTrue]
      simp [nulled, Except.bind, applyList, binaryArithOps, comparisonOps, groupingOps, hp,
        Except.map]
  | [], hs, _ => simp [applyStrict] at hs
  | [_], hs, _ => simp [applyStrict] at hs
  | _ :: _ :: _ :: _, hs, _ => simp [applyStrict] at hs

end MongoModel.Proofs.C04
