/-
  Proofs.C14Find — `findOneColl` as "sort the selection, project, take the head";
  the sort returns a permutation; the filter `{_id: tid}` for a scalar `tid`.
-/
import Proofs.C14Update
import Proofs.C11Sort

namespace MongoModel.Proofs.C14Lemmas
open MongoModel MongoModel.Spec
open MongoModel.Proofs.C10Lemmas MongoModel.Proofs.C09Lemmas

/-! ### the sort is a permutation -/

theorem pySorted_perm {α} (lt : α → α → R Bool) (rev : Bool) (xs l : List α)
    (h : pySorted lt rev xs = .ok l) : l.Perm xs := by
  unfold pySorted at h
  split at h
  · cases h
    split
    · exact (List.reverse_perm _).trans
        ((MongoModel.Proofs.C11.isort_perm _ _).trans (List.reverse_perm _))
    · exact MongoModel.Proofs.C11.isort_perm _ _
  · split at h <;> cases h

theorem sortedByKey_perm (key : String) (rev : Bool) (docs l : List Val)
    (h : sortedByKey key rev docs = .ok l) : l.Perm docs := by
  unfold sortedByKey at h
  split at h
  · cases h
  · split at h
    · cases h
    · exact pySorted_perm _ _ _ _ h

theorem applySortKey_perm (kd : String × Int) (docs l : List Val)
    (h : applySortKey kd docs = .ok l) : l.Perm docs := by
  unfold applySortKey at h
  split at h
  · cases h
    split
    · exact List.reverse_perm _
    · exact List.Perm.refl _
  · split at h
    · cases h
    · exact sortedByKey_perm _ _ _ _ h

theorem sortRounds_perm (round : String × Int → List Val → R (List Val))
    (hr : ∀ kd docs l, round kd docs = .ok l → l.Perm docs) :
    ∀ (spec : SortSpec) (docs l : List Val), sortRounds round spec docs = .ok l → l.Perm docs := by
  intro spec
  induction spec with
  | nil => intro docs l h; simp only [sortRounds] at h; cases h; exact List.Perm.refl _
  | cons kd rest ih =>
    intro docs l h
    simp only [sortRounds] at h
    cases hx : sortRounds round rest docs with
    | error e => rw [hx] at h; cases h
    | ok mid =>
      rw [hx] at h
      exact (hr kd mid l h).trans (ih docs mid hx)

theorem getDataset_perm (sort : Option SortSpec) (docs l : List Val)
    (h : getDataset sort docs = .ok l) : l.Perm docs := by
  unfold getDataset at h
  split at h
  · cases h; exact List.Perm.refl _
  · exact sortRounds_perm _ applySortKey_perm _ _ _ h

theorem getDataset_nil (sort : Option SortSpec) (l : List Val)
    (h : getDataset sort [] = .ok l) : l = [] :=
  (getDataset_perm sort [] l h).eq_nil

/-! ### `findOneColl` -/

/-- the value `findOneColl` returns, given the selected documents -/
def headProj (proj : Val) (sort : Option SortSpec) (ms : List Val) : R (Option Val) := do
  let sorted ← getDataset sort ms
  let outs ← sorted.mapM (fun d => copyOnlyFields d proj)
  pure outs.head?

theorem findOne_eq (now : Int) (c c1 : Coll) (fs : Fields) (proj : Val) (sort : Option SortSpec)
    (sel : List (Val × Val)) (he : expire now c = .ok c1) (hne : c1.docs ≠ [])
    (hs : selectDocs (patchDT (.doc fs)) c1.docs = .ok sel) :
    findOneColl now c (.doc fs) proj sort = (c1, headProj proj sort (sel.map (·.2))) := by
  unfold findOneColl
  dsimp only
  rw [iter_eq now c c1 _ he hne, hs]
  rfl

theorem mapM_head {α β} (f : α → R β) (l : List α) (outs : List β) (h : l.mapM f = .ok outs) :
    match l.head? with
    | none => outs = []
    | some d => ∃ o os, f d = .ok o ∧ outs = o :: os := by
  cases l with
  | nil => simp only [List.mapM_nil, pure, Except.pure] at h; cases h; rfl
  | cons d ds =>
    rw [List.mapM_cons] at h
    simp only [bind, Except.bind, pure, Except.pure] at h
    simp only [List.head?_cons]
    cases hd : f d with
    | error e => rw [hd] at h; cases h
    | ok o =>
      rw [hd] at h
      dsimp only at h
      cases hm : List.mapM f ds with
      | error e => rw [hm] at h; cases h
      | ok os => rw [hm] at h; cases h; exact ⟨o, os, rfl, rfl⟩

theorem headProj_ok (proj : Val) (sort : Option SortSpec) (ms : List Val) (out : Option Val)
    (h : headProj proj sort ms = .ok out) :
    ∃ sorted, getDataset sort ms = .ok sorted ∧
      match sorted.head? with
      | none => out = none
      | some d => ∃ o, copyOnlyFields d proj = .ok o ∧ out = some o := by
  unfold headProj at h
  cases hg : getDataset sort ms with
  | error e => rw [hg] at h; cases h
  | ok sorted =>
    rw [hg] at h
    simp only [bind, Except.bind] at h
    cases hm : sorted.mapM (fun d => copyOnlyFields d proj) with
    | error e => rw [hm] at h; cases h
    | ok outs =>
      rw [hm] at h
      simp only [pure, Except.pure] at h
      cases h
      refine ⟨sorted, rfl, ?_⟩
      have := mapM_head _ sorted outs hm
      cases hh : sorted.head? with
      | none => rw [hh] at this; subst this; rfl
      | some d =>
        rw [hh] at this
        obtain ⟨o, os, h1, rfl⟩ := this
        exact ⟨o, h1, rfl⟩

end MongoModel.Proofs.C14Lemmas
