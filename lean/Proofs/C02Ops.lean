/-
  Proofs.C02Ops — the simple operators on one container: `$unset`, `$inc`, `$min/$max`, `$pop`,
  `$rename`, Python slices, `$push`, `$addToSet`, `$pullAll`, `$pull`, replacement.
-/
import Proofs.C02Basic
import Proofs.C05Eq

set_option linter.unusedSimpArgs false
set_option linter.unusedVariables false

namespace MongoModel.Proofs.C02Lemmas
open MongoModel MongoModel.Spec

theorem inc_some (now : Val) (f : String) (fs : Fields) (n k : Int) (h : dget f fs = some (.int n)) :
    runUpdater .inc now (.doc fs) f (.int k) = .ok (.doc (dset f (.int (n + k)) fs)) := by
  simp [runUpdater, h, pyAdd, Val.num?, bind, Except.bind, pure, Except.pure]

theorem inc_none (now : Val) (f : String) (fs : Fields) (k : Int) (h : dget f fs = none) :
    runUpdater .inc now (.doc fs) f (.int k) = .ok (.doc (dset f (.int k) fs)) := by
  simp [runUpdater, h, pyAdd, Val.num?, bind, Except.bind, pure, Except.pure]

theorem max_int (now : Val) (f : String) (fs : Fields) (n k : Int) (h : dget f fs = some (.int n)) :
    runUpdater .max now (.doc fs) f (.int k) =
      .ok (.doc (dset f (.int (if k > n then k else n)) fs)) := by
  simp only [runUpdater, h, Option.getD_some, pyMax, pyNativeCmp, Val.num?, Num.lt, Num.eq,
    bind, Except.bind, pure, Except.pure]
  by_cases h1 : k < n
  · have : ¬ k > n := by omega
    simp [h1, this]
  · by_cases h2 : k = n
    · subst h2; simp
    · have : k > n := by omega
      simp [h1, h2, this]

theorem min_int (now : Val) (f : String) (fs : Fields) (n k : Int) (h : dget f fs = some (.int n)) :
    runUpdater .min now (.doc fs) f (.int k) =
      .ok (.doc (dset f (.int (if k < n then k else n)) fs)) := by
  simp only [runUpdater, h, Option.getD_some, pyMin, pyNativeCmp, Val.num?, Num.lt, Num.eq,
    bind, Except.bind, pure, Except.pure]
  by_cases h1 : k < n
  · simp [h1]
  · by_cases h2 : k = n
    · subst h2; simp
    · simp [h1, h2]

theorem pop_last (now : Val) (f : String) (fs : Fields) (xs : List Val) (h : dget f fs = some (.arr xs)) :
    runUpdater .pop now (.doc fs) f (.int 1) = .ok (.doc (dset f (.arr xs.dropLast) fs)) := by
  simp [runUpdater, popSpec, pyEq, h, popList, bind, Except.bind, pure, Except.pure]

theorem pop_first (now : Val) (f : String) (fs : Fields) (xs : List Val) (h : dget f fs = some (.arr xs)) :
    runUpdater .pop now (.doc fs) f (.int (-1)) = .ok (.doc (dset f (.arr (xs.drop 1)) fs)) := by
  simp [runUpdater, popSpec, pyEq, h, popList, bind, Except.bind, pure, Except.pure]

theorem rename_one (src dst : String) (fs : Fields) (x : Val)
    (hs : src.toList.contains '.' = false) (hd : dst.toList.contains '.' = false)
    (h : dget src fs = some x) :
    renameFields (.doc [(src, .str dst)]) (.doc fs) = .ok (.doc (dset dst x (derase src fs))) := by
  have hs' : ¬ '.' ∈ src.toList := by simpa using hs
  have hd' : ¬ '.' ∈ dst.toList := by simpa using hd
  simp [renameFields, eachField, hs', hd', h, bind, Except.bind, pure, Except.pure]

end MongoModel.Proofs.C02Lemmas

namespace MongoModel.Proofs.C02Lemmas
open MongoModel MongoModel.Spec

/-! ### Python slices -/

theorem sliceBound_le (n : Nat) (i : Int) : sliceBound n i ≤ n := by
  unfold sliceBound; split <;> split <;> omega

theorem sliceBound_zero (n : Nat) : sliceBound n 0 = 0 := by
  unfold sliceBound; simp

theorem pySlice_prefix (xs : List Val) (i : Int) :
    pySlice xs (some 0) (some i) = xs.take (sliceBound xs.length i) := by
  simp [pySlice, sliceBound_zero]

theorem pySlice_prefix' (xs : List Val) (i : Int) :
    pySlice xs none (some i) = xs.take (sliceBound xs.length i) := by
  simp [pySlice]

theorem pySlice_suffix (xs : List Val) (i : Int) :
    pySlice xs (some i) none = xs.drop (sliceBound xs.length i) := by
  simp only [pySlice]
  apply List.take_of_length_le
  simp

theorem pySlice_split' (xs : List Val) (i : Int) :
    pySlice xs (some 0) (some i) ++ pySlice xs (some i) none = xs := by
  rw [pySlice_prefix, pySlice_suffix, List.take_append_drop]

/-! ### `$push` -/

theorem push_each (xs es : List Val) :
    pushValue (.arr xs) (.doc [("$each", .arr es)]) = .ok (.arr (xs ++ es)) := by
  simp [pushValue, dget, bind, Except.bind, pure, Except.pure]

theorem push_each_pos (xs es : List Val) (p : Int) :
    pushValue (.arr xs) (.doc [("$each", .arr es), ("$position", .int p)]) =
      .ok (.arr (xs.take (sliceBound xs.length p) ++ es ++ xs.drop (sliceBound xs.length p))) := by
  simp [pushValue, dget, intOf, pySlice_prefix, pySlice_suffix, bind, Except.bind, pure,
    Except.pure]

theorem push_each_slice (xs es : List Val) (n : Int) :
    pushValue (.arr xs) (.doc [("$each", .arr es), ("$slice", .int n)]) =
      .ok (.arr (if n < 0 then (xs ++ es).drop ((xs ++ es).length - n.natAbs)
                 else (xs ++ es).take n.toNat)) := by
  simp only [pushValue, dget, intOf, pySlice_prefix', pySlice_suffix, bind, Except.bind, pure,
    Except.pure]
  simp only [show ("$slice" = "$each") = False by decide, show ("$each" = "$position") = False by decide,
    show ("$slice" = "$position") = False by decide, show ("$each" = "$sort") = False by decide,
    show ("$slice" = "$sort") = False by decide, show ("$each" = "$slice") = False by decide,
    if_true, if_false]
  have hany : ([("$each", Val.arr es), ("$slice", Val.int n)] : Fields).any
      (fun kv => !(["$each", "$slice", "$position", "$sort"].contains kv.1)) = false := by
    simp
  simp only [hany, Bool.false_eq_true, if_false]
  congr 2
  by_cases hn : n < 0
  · simp only [hn, if_true]
    congr 1
    unfold sliceBound
    simp only [hn, if_true]
    split <;> omega
  · simp only [hn, if_false]
    by_cases h0 : n = 0
    · subst h0; simp
    · simp only [h0, if_false]
      unfold sliceBound
      simp only [hn, if_false]
      split
      · rename_i hgt
        rw [List.take_of_length_le (by omega), List.take_of_length_le (by omega)]
      · rfl

theorem push_plain (xs : List Val) (v : Val) (h : ∀ fs, v = .doc fs → dget "$each" fs = none) :
    pushValue (.arr xs) v = .ok (.arr (xs ++ [v])) := by
  cases v with
  | doc fs => simp [pushValue, h fs rfl]
  | _ => simp [pushValue]

/-! ### `$addToSet`, `$pullAll` -/

theorem addToSet_each (xs es : List Val) :
    addToSetValue (.arr xs) (.doc [("$each", .arr es)]) =
      .ok (.arr (xs ++ es.filter (fun o => !pyIn o xs))) := by
  simp [addToSetValue, dget, addEach]

theorem addToSet_plain (xs : List Val) (v : Val) (hv : ∀ fs, v = .doc fs → dget "$each" fs = none) :
    addToSetValue (.arr xs) v = .ok (.arr (if pyIn v xs then xs else xs ++ [v])) := by
  cases v with
  | doc fs => simp [addToSetValue, hv fs rfl]
  | _ => simp [addToSetValue]

end MongoModel.Proofs.C02Lemmas

namespace MongoModel.Proofs.C02Lemmas
open MongoModel MongoModel.Spec
open MongoModel.Proofs.C05Lemmas (pyEq_trans scalar_symm' scalar_refl)

/-! ### `$pull` of a scalar -/

/-- on scalars, being `==` to `y` (itself `==` to `v`) is being `==` to `v` -/
theorem eq_class (v x y : Val) (hv : isScalar v = true) (hx : isScalar x = true)
    (hy : pyEq v y = true) : pyEq x y = pyEq v x := by
  have sv := scalar_symm' v hv
  have sx := scalar_symm' x hx
  rw [Bool.eq_iff_iff]
  constructor
  · intro h
    have h' : pyEq y x = true := by rw [← sx y]; exact h
    exact pyEq_trans v y x hy h'
  · intro h
    have h' : pyEq x v = true := by rw [sx v]; exact h
    exact pyEq_trans x v y h' hy

theorem removeFirst_filter (v y : Val) (hv : isScalar v = true) (hy : pyEq v y = true) :
    ∀ arr : List Val, arr.all isScalar = true →
      (removeFirst y arr).filter (fun o => !pyEq v o) = arr.filter (fun o => !pyEq v o) ∧
      (removeFirst y arr).countP (fun o => pyEq v o) = arr.countP (fun o => pyEq v o) - 1 ∧
      (removeFirst y arr).all isScalar = true
  | [], _ => by simp [removeFirst]
  | x :: r, h => by
    simp only [List.all_cons, Bool.and_eq_true] at h
    have e := eq_class v x y hv h.1 hy
    obtain ⟨i1, i2, i3⟩ := removeFirst_filter v y hv hy r h.2
    simp only [removeFirst]
    by_cases hxy : pyEq x y = true
    · have hvx : pyEq v x = true := by rw [← e]; exact hxy
      simp [hxy, hvx, h.2]
    · have hvx : pyEq v x = false := by rw [← e]; simpa using hxy
      simp only [hxy, if_false, Bool.false_eq_true]
      refine ⟨?_, ?_, ?_⟩
      · simp [List.filter_cons, hvx, i1]
      · simp [List.countP_cons, hvx, i2]
      · simp [h.1, i3]

theorem pull_fold (v : Val) (hv : isScalar v = true) :
    ∀ (ys arr : List Val), arr.all isScalar = true →
      arr.countP (fun o => pyEq v o) ≤ ys.countP (fun o => pyEq v o) →
      ys.foldl (fun arr obj => if pyEq v obj then removeFirst obj arr else arr) arr =
        arr.filter (fun o => !pyEq v o)
  | [], arr, _, hc => by
    simp only [List.countP_nil, Nat.le_zero, List.countP_eq_zero] at hc
    simp only [List.foldl_nil]
    symm
    rw [List.filter_eq_self]
    intro a ha
    simpa using hc a ha
  | y :: ys, arr, ha, hc => by
    simp only [List.foldl_cons]
    by_cases hy : pyEq v y = true
    · obtain ⟨i1, i2, i3⟩ := removeFirst_filter v y hv hy arr ha
      simp only [hy, if_true]
      rw [pull_fold v hv ys _ i3 ?_, i1]
      rw [i2]
      simp only [List.countP_cons, hy, if_true] at hc
      omega
    · simp only [hy, if_false, Bool.false_eq_true]
      apply pull_fold v hv ys arr ha
      simpa [List.countP_cons, hy] using hc

theorem pull_scalar (v : Val) (xs : List Val) (hv : isScalar v = true) (hx : xs.all isScalar = true) :
    pullList v xs = .ok (xs.filter (fun o => !pyEq v o)) := by
  have h := pull_fold v hv xs xs hx (Nat.le_refl _)
  cases v <;> first | (simp [isScalar] at hv; done) | (simp only [pullList]; rw [h])

end MongoModel.Proofs.C02Lemmas

namespace MongoModel.Proofs.C02Lemmas
open MongoModel MongoModel.Spec

/-! ### replacement -/

theorem foldl_dset_fresh : ∀ (doc base : Fields), (dkeys doc).Nodup →
    (∀ k, k ∈ dkeys doc → k ∉ dkeys base) →
    doc.foldl (fun acc kv => dset kv.1 kv.2 acc) base = base ++ doc
  | [], base, _, _ => by simp
  | (k, v) :: r, base, hn, hf => by
    simp only [dkeys, List.map_cons, List.nodup_cons] at hn
    have hk : k ∉ dkeys base := hf k (by simp [dkeys])
    simp only [List.foldl_cons]
    rw [dset_absent v hk, foldl_dset_fresh r _ hn.2 ?_]
    · simp
    · intro k' hk' hm
      simp only [dkeys, List.map_append, List.map_cons, List.map_nil, List.mem_append,
        List.mem_singleton] at hm
      rcases hm with hm | rfl
      · exact hf k' (by simp only [dkeys, List.map_cons, List.mem_cons]; exact .inr hk') hm
      · exact hn.1 hk'

theorem replace_fresh (doc : Fields) (existing : Fields) (id : Val)
    (hid : dget "_id" existing = some id) (hrefl : pyEq id id = true) (hn : dget "_id" doc = none)
    (hd : doc.all (fun kv => !kv.1.startsWith "$") = true) (hk : (dkeys doc).Nodup) :
    replaceWhole doc (.doc existing) = .ok (.doc (("_id", id) :: doc)) := by
  have hany : doc.any (fun kv => kv.1.startsWith "$") = false := by
    rw [Bool.eq_false_iff]
    intro h
    rw [List.any_eq_true] at h
    obtain ⟨kv, hm, hs⟩ := h
    rw [List.all_eq_true] at hd
    have := hd kv hm
    simp [hs] at this
  have hfold : doc.foldl (fun acc kv => dset kv.1 kv.2 acc) [("_id", id)] = ("_id", id) :: doc := by
    rw [foldl_dset_fresh doc _ hk]
    · rfl
    · intro k hk' hm
      simp only [dkeys, List.map_cons, List.map_nil, List.mem_singleton] at hm
      subst hm
      exact dget_none_iff.mp hn hk'
  simp only [replaceWhole, hany, Bool.false_eq_true, if_false, hid, hfold]
  simp [dget, hrefl]

/-! ### empty operator documents and server versions -/

theorem empty_op (fs : Fields) (op : String) (hop : updaterKeys.contains op = true)
    (h : dget op fs = some (.doc [])) :
    emptyOperatorCheck { preV5 := true } fs = .error .writeErr ∧
    emptyOperatorCheck { preV5 := false } fs = .ok () := by
  constructor
  · unfold emptyOperatorCheck
    rw [if_pos]
    simp only [Bool.true_and, List.any_eq_true]
    exact ⟨op, by simpa using hop, by simp [h, Val.truthy]⟩
  · simp [emptyOperatorCheck]

end MongoModel.Proofs.C02Lemmas

namespace MongoModel.Proofs.C02Lemmas
open MongoModel MongoModel.Spec

/-! ### `int(str(i)) = i`: null padding through an index written in decimal -/

theorem foldl_digits (ds : List Char) (init : Nat) :
    ds.foldl (fun n c => n * 10 + (c.toNat - '0'.toNat)) init = Nat.ofDigitChars 10 ds init := by
  unfold Nat.ofDigitChars
  congr 1
  funext n c
  rw [Nat.mul_comm]

theorem pyInt_digits (ds : List Char) (hne : ds ≠ []) (hd : ∀ c ∈ ds, c.isDigit = true) :
    pyInt? (String.ofList ds) = some (Int.ofNat (Nat.ofDigitChars 10 ds 0)) := by
  have hall : ds.all Char.isDigit = true := by simpa [List.all_eq_true] using hd
  have hemp : ds.isEmpty = false := by cases ds <;> simp_all
  unfold pyInt?
  simp only [String.toList_ofList]
  split
  · rename_i r
    have := hd '-' (by simp)
    exact absurd this (by decide)
  · rename_i r
    have := hd '+' (by simp)
    exact absurd this (by decide)
  · simp only [hemp, hall, Bool.false_eq_true, if_false, if_true, Option.map_some, foldl_digits]

theorem pyInt_toString (i : Nat) : pyInt? (toString i) = some (Int.ofNat i) := by
  rw [Nat.toString_eq_ofList_toDigits, pyInt_digits _ Nat.toDigits_ne_nil
    (fun c hc => Nat.isDigit_of_mem_toDigits (by decide) (by decide) hc),
    Nat.ofDigitChars_ten_toDigits]

theorem set_pad (now v : Val) (xs : List Val) (i : Nat) :
    runUpdater .set now (.arr xs) (toString i) v = .ok (.arr (padSet xs i v)) := by
  simp only [runUpdater, listIndex, pyInt_toString, bind, Except.bind, pure, Except.pure]
  simp [padSet, listSetPad]
end MongoModel.Proofs.C02Lemmas
