/-
  Proofs.C02Ops — the simple operators on one container: `$unset`, `$inc`, `$min/$max`, `$pop`,
  `$rename`, Python slices, `$push`, `$addToSet`, `$pullAll`, `$pull`, replacement.
-/
import Proofs.C02Basic
import Proofs.C05Eq

set_option linter.unusedSimpArgs false
set_option linter.unusedVariables false

namespace MongoModel.Proofs.C02Lemmas
open MongoModel MongoModel.Spec

theorem inc_some (now : Val) (f : String) (fs : Fields) (n k : Int) (h : dget f fs = some (.int n)) :
    runUpdater .inc now (.doc fs) f (.int k) = .ok (.doc (dset f (.int (n + k)) fs)) := by
  simp [runUpdater, h, pyAdd, Val.num?, bind, Except.bind, pure, Except.pure]

theorem inc_none (now : Val) (f : String) (fs : Fields) (k : Int) (h : dget f fs = none) :
    runUpdater .inc now (.doc fs) f (.int k) = .ok (.doc (dset f (.int k) fs)) := by
  simp [runUpdater, h, pyAdd, Val.num?, bind, Except.bind, pure, Except.pure]

theorem max_int (now : Val) (f : String) (fs : Fields) (n k : Int) (h : dget f fs = some (.int n)) :
    runUpdater .max now (.doc fs) f (.int k) =
      .ok (.doc (dset f (.int (if k > n then k else n)) fs)) := by
  simp only [runUpdater, h, Option.getD_some, pyMax, pyNativeCmp, Val.num?, Num.lt, Num.eq,
    bind, Except.bind, pure, Except.pure]
  by_cases h1 : k < n
  · have : ¬ k > n := by omega
    simp [h1, this]
  · by_cases h2 : k = n
    · subst h2; simp
    · have : k > n := by omega
      simp [h1, h2, this]

theorem min_int (now : Val) (f : String) (fs : Fields) (n k : Int) (h : dget f fs = some (.int n)) :
    runUpdater .min now (.doc fs) f (.int k) =
      .ok (.doc (dset f (.int (if k < n then k else n)) fs)) := by
  simp only [runUpdater, h, Option.getD_some, pyMin, pyNativeCmp, Val.num?, Num.lt, Num.eq,
    bind, Except.bind, pure, Except.pure]
  by_cases h1 : k < n
  · simp [h1]
  · by_cases h2 : k = n
    · subst h2; simp
    · simp [h1, h2]

theorem pop_last (now : Val) (f : String) (fs : Fields) (xs : List Val) (h : dget f fs = some (.arr xs)) :
    runUpdater .pop now (.doc fs) f (.int 1) = .ok (.doc (dset f (.arr xs.dropLast) fs)) := by
  simp [runUpdater, popSpec, pyEq, h, popList, bind, Except.bind, pure, Except.pure]

theorem pop_first (now : Val) (f : String) (fs : Fields) (xs : List Val) (h : dget f fs = some (.arr xs)) :
    runUpdater .pop now (.doc fs) f (.int (-1)) = .ok (.doc (dset f (.arr (xs.drop 1)) fs)) := by
  simp [runUpdater, popSpec, pyEq, h, popList, bind, Except.bind, pure, Except.pure]

theorem rename_one (src dst : String) (fs : Fields) (x : Val)
    (hs : src.toList.contains '.' = false) (hd : dst.toList.contains '.' = false)
    (h : dget src fs = some x) :
    renameFields (.doc [(src, .str dst)]) (.doc fs) = .ok (.doc (dset dst x (derase src fs))) := by
  have hs' : ¬ '.' ∈ src.toList := by simpa using hs
  have hd' : ¬ '.' ∈ dst.toList := by simpa using hd
  simp [renameFields, eachField, hs', hd', h, bind, Except.bind, pure, Except.pure]

end MongoModel.Proofs.C02Lemmas

namespace MongoModel.Proofs.C02Lemmas
open MongoModel MongoModel.Spec

/-! ### Python slices -/

theorem sliceBound_le (n : Nat) (i : Int) : sliceBound n i ≤ n := by
  unfold sliceBound; split <;> split <;> omega

theorem sliceBound_zero (n : Nat) : sliceBound n 0 = 0 := by
  unfold sliceBound; simp

theorem pySlice_prefix (xs : List Val) (i : Int) :
    pySlice xs (some 0) (some i) = xs.take (sliceBound xs.length i) := by
  simp [pySlice, sliceBound_zero]

theorem pySlice_prefix' (xs : List Val) (i : Int) :
    pySlice xs none (some i) = xs.take (sliceBound xs.length i) := by
  simp [pySlice]

theorem pySlice_suffix (xs : List Val) (i : Int) :
    pySlice xs (some i) none = xs.drop (sliceBound xs.length i) := by
  simp only [pySlice]
  apply List.take_of_length_le
  simp

theorem pySlice_split' (xs : List Val) (i : Int) :
    pySlice xs (some 0) (some i) ++ pySlice xs (some i) none = xs := by
  rw [pySlice_prefix, pySlice_suffix, List.take_append_drop]

/-! ### `$push` -/

theorem push_each (xs es : List Val) :
    pushValue (.arr xs) (.doc [("$each", .arr es)]) = .ok (.arr (xs ++ es)) := by
  simp [pushValue, dget, bind, Except.bind, pure, Except.pure]

theorem push_each_pos (xs es : List Val) (p : Int) :
    pushValue (.arr xs) (.doc [("$each", .arr es), ("$position", .int p)]) =
      .ok (.arr (xs.take (sliceBound xs.length p) ++ es ++ xs.drop (sliceBound xs.length p))) := by
  simp [pushValue, dget, intOf, pySlice_prefix, pySlice_suffix, bind, Except.bind, pure,
    Except.pure]

theorem push_each_slice (xs es : List Val) (n : Int) :
    pushValue (.arr xs) (.doc [("$each", .arr es), ("$slice", .int n)]) =
      .ok (.arr (if n < 0 then (xs ++ es).drop ((xs ++ es).length - n.natAbs)
                 else (xs ++ es).take n.toNat)) := by
  simp only [pushValue, dget, intOf, pySlice_prefix', pySlice_suffix, bind, Except.bind, pure,
    Except.pure]
  simp only [show ("$slice" = "$each") = False by decide, show ("$each" = "$position") = False by decide,
    show ("$slice" = "$position") = False by decide, show ("$each" = "$sort") = False by decide,
    show ("$slice" = "$sort") = False by decide, show ("$each" = "$slice") = False by decide,
    if_true, if_false]
  have hany : ([("$each", Val.arr es), ("$slice", Val.int n)] : Fields).any
      (fun kv => !(["$each", "$slice", "$position", "$sort"].contains kv.1)) = false := by
    simp
  simp only [hany, Bool.false_eq_true, if_false]
  congr 2
  by_cases hn : n < 0
  · simp only [hn, if_true]
    congr 1
    unfold sliceBound
    simp only [hn, if_true]
    split <;> omega
  · simp only [hn, if_false]
    by_cases h0 : n = 0
    · subst h0; simp
    · simp only [h0, if_false]
      unfold sliceBound
      simp only [hn, if_false]
      split
      · rename_i hgt
        rw [List.take_of_length_le (by omega), List.take_of_length_le (by omega)]
      · rfl

theorem push_plain (xs : List Val) (v : Val) (h : ∀ fs, v = .doc fs → dget "$each" fs = none) :
    pushValue (.arr xs) v = .ok (.arr (xs ++ [v])) := by
  cases v with
  | doc fs => simp [pushValue, h fs rfl]
  | _ => simp [pushValue]

/-! ### `$addToSet`, `$pullAll` -/

theorem pyIn_append (v : Val) (xs ys : List Val) : pyIn v (xs ++ ys) = (pyIn v xs || pyIn v ys) := by
  simp [pyIn, List.any_append]

/-- the helper's "not in the array and not among the values added so far" is "not in the array
    as it is by now" -/
theorem valuesToAdd_fold (xs : List Val) : ∀ (es acc : List Val),
    xs ++ es.foldl (fun toAdd v => if !pyIn v xs && !pyIn v toAdd then toAdd ++ [v] else toAdd) acc =
      es.foldl addOne (xs ++ acc)
  | [], acc => rfl
  | v :: es, acc => by
    simp only [List.foldl_cons]
    rw [valuesToAdd_fold xs es]
    congr 1
    unfold addOne
    rw [pyIn_append]
    cases pyIn v xs <;> cases pyIn v acc <;> simp

theorem addEach_eq (xs es : List Val) : addEach xs es = addAll xs es := by
  have := valuesToAdd_fold xs es []
  simpa [addEach, valuesToAdd, addAll] using this

theorem addToSet_each (xs es : List Val) :
    addToSetValue (.arr xs) (.doc [("$each", .arr es)]) = .ok (.arr (addAll xs es)) := by
  simp [addToSetValue, eachWithOtherClause, dget, addEach_eq]

theorem addToSet_plain (xs : List Val) (v : Val) (hv : ∀ fs, v = .doc fs → dget "$each" fs = none) :
    addToSetValue (.arr xs) v = .ok (.arr (addOne xs v)) := by
  unfold addOne
  cases v with
  | doc fs => simp [addToSetValue, eachWithOtherClause, hv fs rfl]
  | _ => simp [addToSetValue, eachWithOtherClause]

/-- `$addToSet` takes no clause next to `$each`: whatever the target holds -/
theorem addToSet_each_clause (cur : Val) (vs : Fields) (he : (dget "$each" vs).isSome = true)
    (k : String) (hk : k ∈ dkeys vs) (hne : k ≠ "$each") :
    addToSetValue cur (.doc vs) = .error .writeErr := by
  have hany : vs.any (fun kv => kv.1 != "$each") = true := by
    simp only [dkeys, List.mem_map] at hk
    obtain ⟨kv, hm, rfl⟩ := hk
    exact List.any_eq_true.2 ⟨kv, hm, by simpa using hne⟩
  simp [addToSetValue, eachWithOtherClause, he, hany]

/-- … and that is the only way `$each` is refused: with `$each` alone the clause test passes -/
theorem eachWithOtherClause_iff (vs : Fields) :
    eachWithOtherClause (.doc vs) = true ↔
      (dget "$each" vs).isSome = true ∧ ∃ k ∈ dkeys vs, k ≠ "$each" := by
  simp only [eachWithOtherClause, Bool.and_eq_true, List.any_eq_true, dkeys, List.mem_map]
  constructor
  · rintro ⟨h1, kv, hm, hne⟩
    exact ⟨h1, kv.1, ⟨kv, hm, rfl⟩, by simpa using hne⟩
  · rintro ⟨h1, k, ⟨kv, hm, rfl⟩, hne⟩
    exact ⟨h1, kv, hm, by simpa using hne⟩

/-- what `$each` adds: only listed values that were not there, none of them twice -/
theorem addAll_once (xs : List Val) : ∀ (es : List Val) (acc : List Val),
    (∀ o ∈ acc, pyIn o xs = false) → acc.Pairwise (fun a b => pyEq a b = false) →
    ∃ added, es.foldl addOne (xs ++ acc) = xs ++ added ∧
      (∀ o ∈ added, (o ∈ acc ∨ o ∈ es) ∧ pyIn o xs = false) ∧
      added.Pairwise (fun a b => pyEq a b = false)
  | [], acc, h1, h2 => ⟨acc, rfl, fun o ho => ⟨.inl ho, h1 o ho⟩, h2⟩
  | v :: es, acc, h1, h2 => by
    simp only [List.foldl_cons]
    by_cases hin : pyIn v (xs ++ acc) = true
    · have e : addOne (xs ++ acc) v = xs ++ acc := by simp [addOne, hin]
      rw [e]
      obtain ⟨added, h3, h4, h5⟩ := addAll_once xs es acc h1 h2
      refine ⟨added, h3, fun o ho => ?_, h5⟩
      obtain ⟨h6, h7⟩ := h4 o ho
      exact ⟨h6.imp id (fun h => List.mem_cons_of_mem _ h), h7⟩
    · have hin' : pyIn v (xs ++ acc) = false := by simpa using hin
      have e : addOne (xs ++ acc) v = xs ++ (acc ++ [v]) := by
        simp [addOne, hin', List.append_assoc]
      rw [e]
      rw [pyIn_append, Bool.or_eq_false_iff] at hin'
      obtain ⟨added, h3, h4, h5⟩ := addAll_once xs es (acc ++ [v])
        (by
          intro o ho
          rcases List.mem_append.mp ho with ho | ho
          · exact h1 o ho
          · simp only [List.mem_singleton] at ho; subst ho; exact hin'.1)
        (by
          rw [List.pairwise_append]
          refine ⟨h2, by simp, ?_⟩
          intro a ha b hb
          simp only [List.mem_singleton] at hb; subst hb
          have := hin'.2
          simp only [pyIn, List.any_eq_false] at this
          simpa using this a ha)
      refine ⟨added, h3, fun o ho => ?_, h5⟩
      obtain ⟨h6, h7⟩ := h4 o ho
      refine ⟨?_, h7⟩
      rcases h6 with h6 | h6
      · rcases List.mem_append.mp h6 with h6 | h6
        · exact .inl h6
        · simp only [List.mem_singleton] at h6; subst h6; exact .inr (by simp)
      · exact .inr (List.mem_cons_of_mem _ h6)

end MongoModel.Proofs.C02Lemmas

namespace MongoModel.Proofs.C02Lemmas
open MongoModel MongoModel.Spec
open MongoModel.Proofs.C05Lemmas (pyEq_trans scalar_symm' scalar_refl)

/-! ### `$pull` of a scalar -/

/-- on scalars, being `==` to `y` (itself `==` to `v`) is being `==` to `v` -/
theorem eq_class (v x y : Val) (hv : isScalar v = true) (hx : isScalar x = true)
    (hy : pyEq v y = true) : pyEq x y = pyEq v x := by
  have sv := scalar_symm' v hv
  have sx := scalar_symm' x hx
  rw [Bool.eq_iff_iff]
  constructor
  · intro h
    have h' : pyEq y x = true := by rw [← sx y]; exact h
    exact pyEq_trans v y x hy h'
  · intro h
    have h' : pyEq x v = true := by rw [sx v]; exact h
    exact pyEq_trans x v y h' hy

theorem removeFirst_filter (v y : Val) (hv : isScalar v = true) (hy : pyEq v y = true) :
    ∀ arr : List Val, arr.all isScalar = true →
      (removeFirst y arr).filter (fun o => !pyEq v o) = arr.filter (fun o => !pyEq v o) ∧
      (removeFirst y arr).countP (fun o => pyEq v o) = arr.countP (fun o => pyEq v o) - 1 ∧
      (removeFirst y arr).all isScalar = true
  | [], _ => by simp [removeFirst]
  | x :: r, h => by
    simp only [List.all_cons, Bool.and_eq_true] at h
    have e := eq_class v x y hv h.1 hy
    obtain ⟨i1, i2, i3⟩ := removeFirst_filter v y hv hy r h.2
    simp only [removeFirst]
    by_cases hxy : pyEq x y = true
    · have hvx : pyEq v x = true := by rw [← e]; exact hxy
      simp [hxy, hvx, h.2]
    · have hvx : pyEq v x = false := by rw [← e]; simpa using hxy
      simp only [hxy, if_false, Bool.false_eq_true]
      refine ⟨?_, ?_, ?_⟩
      · simp [List.filter_cons, hvx, i1]
      · simp [List.countP_cons, hvx, i2]
      · simp [h.1, i3]

theorem pull_fold (v : Val) (hv : isScalar v = true) :
    ∀ (ys arr : List Val), arr.all isScalar = true →
      arr.countP (fun o => pyEq v o) ≤ ys.countP (fun o => pyEq v o) →
      ys.foldl (fun arr obj => if pyEq v obj then removeFirst obj arr else arr) arr =
        arr.filter (fun o => !pyEq v o)
  | [], arr, _, hc => by
    simp only [List.countP_nil, Nat.le_zero, List.countP_eq_zero] at hc
    simp only [List.foldl_nil]
    symm
    rw [List.filter_eq_self]
    intro a ha
    simpa using hc a ha
  | y :: ys, arr, ha, hc => by
    simp only [List.foldl_cons]
    by_cases hy : pyEq v y = true
    · obtain ⟨i1, i2, i3⟩ := removeFirst_filter v y hv hy arr ha
      simp only [hy, if_true]
      rw [pull_fold v hv ys _ i3 ?_, i1]
      rw [i2]
      simp only [List.countP_cons, hy, if_true] at hc
      omega
    · simp only [hy, if_false, Bool.false_eq_true]
      apply pull_fold v hv ys arr ha
      simpa [List.countP_cons, hy] using hc

theorem pull_scalar (v : Val) (xs : List Val) (hv : isScalar v = true) (hx : xs.all isScalar = true) :
    pullList v xs = .ok (xs.filter (fun o => !pyEq v o)) := by
  have h := pull_fold v hv xs xs hx (Nat.le_refl _)
  cases v <;> first | (simp [isScalar] at hv; done) | (simp only [pullList]; rw [h])

end MongoModel.Proofs.C02Lemmas

namespace MongoModel.Proofs.C02Lemmas
open MongoModel MongoModel.Spec

/-! ### replacement -/

theorem foldl_dset_fresh : ∀ (doc base : Fields), (dkeys doc).Nodup →
    (∀ k, k ∈ dkeys doc → k ∉ dkeys base) →
    doc.foldl (fun acc kv => dset kv.1 kv.2 acc) base = base ++ doc
  | [], base, _, _ => by simp
  | (k, v) :: r, base, hn, hf => by
    simp only [dkeys, List.map_cons, List.nodup_cons] at hn
    have hk : k ∉ dkeys base := hf k (by simp [dkeys])
    simp only [List.foldl_cons]
    rw [dset_absent v hk, foldl_dset_fresh r _ hn.2 ?_]
    · simp
    · intro k' hk' hm
      simp only [dkeys, List.map_append, List.map_cons, List.map_nil, List.mem_append,
        List.mem_singleton] at hm
      rcases hm with hm | rfl
      · exact hf k' (by simp only [dkeys, List.map_cons, List.mem_cons]; exact .inr hk') hm
      · exact hn.1 hk'

theorem replace_fresh (doc : Fields) (existing : Fields) (id : Val)
    (hid : dget "_id" existing = some id) (hrefl : pyEq id id = true) (hn : dget "_id" doc = none)
    (hd : doc.all (fun kv => !kv.1.startsWith "$") = true) (hk : (dkeys doc).Nodup) :
    replaceWhole doc (.doc existing) = .ok (.doc (("_id", id) :: doc)) := by
  have hany : doc.any (fun kv => kv.1.startsWith "$") = false := by
    rw [Bool.eq_false_iff]
    intro h
    rw [List.any_eq_true] at h
    obtain ⟨kv, hm, hs⟩ := h
    rw [List.all_eq_true] at hd
    have := hd kv hm
    simp [hs] at this
  have hfold : doc.foldl (fun acc kv => dset kv.1 kv.2 acc) [("_id", id)] = ("_id", id) :: doc := by
    rw [foldl_dset_fresh doc _ hk]
    · rfl
    · intro k hk' hm
      simp only [dkeys, List.map_cons, List.map_nil, List.mem_singleton] at hm
      subst hm
      exact dget_none_iff.mp hn hk'
  simp only [replaceWhole, hany, Bool.false_eq_true, if_false, hid, hfold]
  simp [dget, hrefl]

/-! ### empty operator documents and server versions -/

theorem empty_op (fs : Fields) (op : String) (hop : updaterKeys.contains op = true)
    (h : dget op fs = some (.doc [])) :
    emptyOperatorCheck { preV5 := true } fs = .error .writeErr ∧
    emptyOperatorCheck { preV5 := false } fs = .ok () := by
  constructor
  · unfold emptyOperatorCheck
    rw [if_pos]
    simp only [Bool.true_and, List.any_eq_true]
    exact ⟨op, by simpa using hop, by simp [h, Val.truthy]⟩
  · simp [emptyOperatorCheck]

end MongoModel.Proofs.C02Lemmas

namespace MongoModel.Proofs.C02Lemmas
open MongoModel MongoModel.Spec

/-! ### `int(str(i)) = i`: null padding through an index written in decimal -/

theorem foldl_digits (ds : List Char) (init : Nat) :
    ds.foldl (fun n c => n * 10 + (c.toNat - '0'.toNat)) init = Nat.ofDigitChars 10 ds init := by
  unfold Nat.ofDigitChars
  congr 1
  funext n c
  rw [Nat.mul_comm]

theorem pyInt_digits (ds : List Char) (hne : ds ≠ []) (hd : ∀ c ∈ ds, c.isDigit = true) :
    pyInt? (String.ofList ds) = some (Int.ofNat (Nat.ofDigitChars 10 ds 0)) := by
  have hall : ds.all Char.isDigit = true := by simpa [List.all_eq_true] using hd
  have hemp : ds.isEmpty = false := by cases ds <;> simp_all
  unfold pyInt?
  simp only [String.toList_ofList]
  split
  · rename_i r
    have := hd '-' (by simp)
    exact absurd this (by decide)
  · rename_i r
    have := hd '+' (by simp)
    exact absurd this (by decide)
  · simp only [hemp, hall, Bool.false_eq_true, if_false, if_true, Option.map_some, foldl_digits]

theorem pyInt_toString (i : Nat) : pyInt? (toString i) = some (Int.ofNat i) := by
  rw [Nat.toString_eq_ofList_toDigits, pyInt_digits _ Nat.toDigits_ne_nil
    (fun c hc => Nat.isDigit_of_mem_toDigits (by decide) (by decide) hc),
    Nat.ofDigitChars_ten_toDigits]

theorem set_pad (now v : Val) (xs : List Val) (i : Nat) :
    runUpdater .set now (.arr xs) (toString i) v = .ok (.arr (padSet xs i v)) := by
  simp only [runUpdater, listIndex, pyInt_toString, bind, Except.bind, pure, Except.pure]
  simp [padSet, listSetPad]

/-! ### `$min/$max` on an array element -/

theorem max_arr_int (now : Val) (xs : List Val) (i : Nat) (n k : Int) (h : xs[i]? = some (.int n)) :
    runUpdater .max now (.arr xs) (toString i) (.int k) =
      .ok (.arr (xs.set i (.int (if k > n then k else n)))) := by
  simp only [runUpdater, listIndex, pyInt_toString, bind, Except.bind, pure, Except.pure]
  simp only [Int.ofNat_eq_natCast, Int.toNat_natCast, h, pyMax, pyNativeCmp, Val.num?, Num.lt, Num.eq]
  by_cases h1 : k < n
  · have : ¬ k > n := by omega
    simp [h1, this]
  · by_cases h2 : k = n
    · subst h2; simp
    · have : k > n := by omega
      simp [h1, h2, this]

theorem min_arr_int (now : Val) (xs : List Val) (i : Nat) (n k : Int) (h : xs[i]? = some (.int n)) :
    runUpdater .min now (.arr xs) (toString i) (.int k) =
      .ok (.arr (xs.set i (.int (if k < n then k else n)))) := by
  simp only [runUpdater, listIndex, pyInt_toString, bind, Except.bind, pure, Except.pure]
  simp only [Int.ofNat_eq_natCast, Int.toNat_natCast, h, pyMin, pyNativeCmp, Val.num?, Num.lt, Num.eq]
  by_cases h1 : k < n
  · simp [h1]
  · by_cases h2 : k = n
    · subst h2; simp
    · simp [h1, h2]

theorem minmax_arr_pad (now v : Val) (xs : List Val) (i : Nat) (h : xs[i]? = none) :
    runUpdater .max now (.arr xs) (toString i) v = .ok (.arr (padSet xs i v)) ∧
    runUpdater .min now (.arr xs) (toString i) v = .ok (.arr (padSet xs i v)) := by
  have hl : ¬ i < xs.length := by
    intro hl
    rw [List.getElem?_eq_getElem hl] at h; cases h
  constructor <;>
  · simp only [runUpdater, listIndex, pyInt_toString, bind, Except.bind, pure, Except.pure]
    simp [h, padSet, listSetPad, hl]

/-! ### `$pull` along a path: only the array the path leads to is edited -/

theorem dset_self {k : String} {v : Val} : ∀ {fs : Fields}, dget k fs = some v → dset k v fs = fs
  | [], h => by simp [dget] at h
  | (k', v') :: r, h => by
    simp only [dget] at h
    simp only [dset]
    split
    · rename_i e; subst e; simp at h; subst h; rfl
    · rename_i ne; simp only [ne, if_false] at h; rw [dset_self h]

theorem pullWalk_spec (value : Val) : ∀ (parts : List String) (d d' : Val),
    pullWalk value parts d = .ok d' →
    (∀ xs, getPath parts d = some (.arr xs) →
      ∃ ys, pullList value xs = .ok ys ∧ getPath parts d' = some (.arr ys)) ∧
    ((∀ xs, getPath parts d ≠ some (.arr xs)) → d' = d)
  | [], d, d', h => by
    cases d with
    | arr xs =>
      simp only [pullWalk, bind, Except.bind, pure, Except.pure] at h
      cases hp : pullList value xs with
      | error e => rw [hp] at h; cases h
      | ok ys =>
        rw [hp] at h; cases h
        refine ⟨fun xs' hx => ?_, fun hn => absurd rfl (hn xs)⟩
        simp only [getPath, Option.some.injEq, Val.arr.injEq] at hx; subst hx
        exact ⟨ys, hp, rfl⟩
    | _ =>
      simp only [pullWalk] at h; cases h
      exact ⟨fun xs hx => by simp [getPath] at hx, fun _ => rfl⟩
  | part :: rest, d, d', h => by
    cases d with
    | doc fs =>
      simp only [pullWalk] at h
      cases hg : dget part fs with
      | none =>
        simp only [hg] at h; cases h
        exact ⟨fun xs hx => by simp [getPath, hg] at hx, fun _ => rfl⟩
      | some sub =>
        simp only [hg, bind, Except.bind, pure, Except.pure] at h
        cases hs : pullWalk value rest sub with
        | error e => rw [hs] at h; cases h
        | ok sub' =>
          rw [hs] at h; cases h
          obtain ⟨i1, i2⟩ := pullWalk_spec value rest sub sub' hs
          have hgp : getPath (part :: rest) (.doc fs) = getPath rest sub := by
            simp [getPath, hg]
          refine ⟨fun xs hx => ?_, fun hn => ?_⟩
          · rw [hgp] at hx
            obtain ⟨ys, h1, h2⟩ := i1 xs hx
            exact ⟨ys, h1, by simp [getPath, dget_dset_same, h2]⟩
          · rw [hgp] at hn
            rw [i2 hn, dset_self hg]
    | arr xs =>
      simp only [pullWalk] at h
      cases hi : pyInt? part with
      | none =>
        simp only [hi] at h; cases h
        exact ⟨fun xs' hx => by simp [getPath, hi] at hx, fun _ => rfl⟩
      | some i =>
        simp only [hi] at h
        by_cases hneg : i < 0
        · simp [hneg, unmodelled] at h
        · simp only [hneg, if_false] at h
          cases hx : xs[i.toNat]? with
          | none =>
            simp only [hx] at h; cases h
            exact ⟨fun xs' hx' => by simp [getPath, hi, hneg, hx] at hx', fun _ => rfl⟩
          | some sub =>
            simp only [hx, bind, Except.bind, pure, Except.pure] at h
            cases hs : pullWalk value rest sub with
            | error e => rw [hs] at h; cases h
            | ok sub' =>
              rw [hs] at h; cases h
              obtain ⟨i1, i2⟩ := pullWalk_spec value rest sub sub' hs
              have hlt : i.toNat < xs.length := by
                rcases List.getElem?_eq_some_iff.mp hx with ⟨hl, _⟩; exact hl
              have hgp : getPath (part :: rest) (.arr xs) = getPath rest sub := by
                simp [getPath, hi, hneg, hx]
              refine ⟨fun xs' hx' => ?_, fun hn => ?_⟩
              · rw [hgp] at hx'
                obtain ⟨ys, h1, h2⟩ := i1 xs' hx'
                exact ⟨ys, h1, by simp [getPath, hi, hneg, List.getElem?_set, hlt, h2]⟩
              · rw [hgp] at hn
                rw [i2 hn]
                congr 1
                rcases List.getElem?_eq_some_iff.mp hx with ⟨hl, he⟩
                rw [← he]; exact List.set_getElem_self hl
    | _ =>
      simp only [pullWalk] at h; cases h
      exact ⟨fun xs hx => by simp [getPath] at hx, fun _ => rfl⟩

end MongoModel.Proofs.C02Lemmas
