/-
  Proofs.C03Docs — the per-document stages: `$unwind` (a flat map), `$lookup`, `$addFields`/`$set`,
  `$replaceRoot` (maps), and frame lemmas for `dset`.
-/
import Proofs.C03Basic

namespace MongoModel.Pipe.Proofs
open MongoModel MongoModel.Pipe

/-! ### `dset` frame -/

theorem dget_dset_self (k : String) (v : Val) : ∀ fs : Fields, dget k (dset k v fs) = some v
  | [] => by simp [dset, dget]
  | (k', v') :: r => by
    by_cases h : k' = k
    · simp [dset, dget, h]
    · simp [dset, dget, h, dget_dset_self k v r]

theorem dget_dset_other (k k' : String) (v : Val) (h : k' ≠ k) :
    ∀ fs : Fields, dget k' (dset k v fs) = dget k' fs
  | [] => by simp [dset, dget, Ne.symm h]
  | (k'', v'') :: r => by
    by_cases h2 : k'' = k
    · subst h2; simp [dset, dget, Ne.symm h]
    · by_cases h3 : k'' = k'
      · subst h3; simp [dset, dget, h]
      · simp [dset, dget, h2, h3, dget_dset_other k k' v h r]

/-! ### `$unwind` -/

theorem unwindStage_flat (opts : Val) (docs out : List Val) (h : unwindStage opts docs = .ok out) :
    ∃ o parts, unwindOpts opts = .ok o ∧
      List.Forall₂ (fun d p => unwindDoc o d = .ok p) docs parts ∧ out = parts.flatten := by
  unfold unwindStage at h
  cases ho : unwindOpts opts with
  | error e => simp [ho] at h
  | ok o =>
    simp only [ho] at h
    obtain ⟨parts, h1, h2⟩ := flatMapR_ok_iff.1 h
    exact ⟨o, parts, rfl, h1, h2⟩

theorem unwindItems_ok (o : UnwindOpts) (d : Val) : ∀ (i : Nat) (xs out : List Val),
    unwindItems o d i xs = .ok out →
    out.length = xs.length ∧
      ∀ (j : Nat) (x : Val), xs[j]? = some x →
        ∃ nd, out[j]? = some nd ∧ unwindItem o d (some (i + j)) x = .ok nd
  | i, [], out, h => by simp [unwindItems] at h; subst h; simp
  | i, x :: xs, out, h => by
    simp only [unwindItems] at h
    cases h1 : unwindItem o d (some i) x with
    | error e => simp [h1] at h
    | ok nd =>
      cases h2 : unwindItems o d (i + 1) xs with
      | error e => simp [h1, h2] at h
      | ok r =>
        simp only [h1, h2, Except.ok.injEq] at h
        subst h
        obtain ⟨ih1, ih2⟩ := unwindItems_ok o d (i + 1) xs r h2
        refine ⟨by simp [ih1], ?_⟩
        intro j y hy
        cases j with
        | zero => simp at hy; subst hy; exact ⟨nd, by simp, by simpa using h1⟩
        | succ n =>
          simp at hy
          obtain ⟨nd', hn, hu⟩ := ih2 n y hy
          refine ⟨nd', by simpa using hn, ?_⟩
          have : i + 1 + n = i + (n + 1) := by omega
          rw [this] at hu; exact hu

/-- a document whose field holds a non-empty array yields one document per element, in order,
    each being the input with the field replaced by that element (and the index written when
    asked for) -/
theorem unwindDoc_array (o : UnwindOpts) (d : Val) (x : Val) (xs out : List Val)
    (hg : getByDot d o.path = .ok (.arr (x :: xs))) (h : unwindDoc o d = .ok out) :
    out.length = (x :: xs).length ∧
      ∀ (j : Nat) (y : Val), (x :: xs)[j]? = some y →
        ∃ nd, out[j]? = some nd ∧ unwindItem o d (some j) y = .ok nd := by
  unfold unwindDoc at h
  rw [hg] at h
  simp only at h
  have := unwindItems_ok o d 0 (x :: xs) out h
  simpa using this

/-- missing, null or empty: dropped, or kept once when `preserveNullAndEmptyArrays` — with a null
    index when one is asked for (`preserved`) -/
theorem unwindDoc_missing (o : UnwindOpts) (d : Val) (hg : getByDot d o.path = .error .keyErr) :
    unwindDoc o d = if o.preserve then (preserved o d).map (fun nd => [nd]) else .ok [] := by
  unfold unwindDoc; rw [hg]

theorem unwindDoc_null (o : UnwindOpts) (d : Val) (hg : getByDot d o.path = .ok .null) :
    unwindDoc o d = if o.preserve then (preserved o d).map (fun nd => [nd]) else .ok [] := by
  unfold unwindDoc; rw [hg]

theorem unwindDoc_empty_drop (o : UnwindOpts) (d : Val) (hg : getByDot d o.path = .ok (.arr []))
    (hp : o.preserve = false) : unwindDoc o d = .ok [] := by
  unfold unwindDoc; rw [hg]; simp [hp]

theorem unwindDoc_empty_keep (o : UnwindOpts) (d : Val) (hg : getByDot d o.path = .ok (.arr []))
    (hp : o.preserve = true) :
    unwindDoc o d = (match delByDot d o.path with
      | .error e => .error e
      | .ok nd => (preserved o nd).map (fun nd' => [nd'])) := by
  unfold unwindDoc; rw [hg]; simp only [hp, if_true]
  cases delByDot d o.path <;> rfl

/-- without `includeArrayIndex` a preserved document is the document itself; with it, the
    document with the index field set to null -/
theorem preserved_none (path : String) (pres : Bool) (d : Val) :
    preserved ⟨path, pres, none⟩ d = .ok d := rfl

theorem preserved_some (path : String) (pres : Bool) (ix : String) (fs : Fields) :
    preserved ⟨path, pres, some ix⟩ (.doc fs) = .ok (.doc (nestedSet fs (splitDots ix) .null)) := rfl

/-- the item written at a top-level field: every other field is left alone -/
theorem unwindItem_top (path : String) (pres : Bool) (fs : Fields) (idx : Option Nat) (item : Val)
    (hp : splitDots path = [path]) :
    unwindItem ⟨path, pres, none⟩ (.doc fs) idx item = .ok (.doc (dset path item fs)) := by
  simp [unwindItem, setByDot, hp, setByDotParts]

/-! ### `$lookup` -/

theorem lookupStage_ok (db : Db) (o : Fields) (docs out : List Val)
    (h : lookupStage db (.doc o) docs = .ok out) :
    ∃ fr lf ff as, lookupArg o "from" = .ok fr ∧ lookupArg o "localField" = .ok lf ∧
      lookupArg o "foreignField" = .ok ff ∧ lookupArg o "as" = .ok as ∧
      List.Forall₂ (fun d r => lookupDoc (db.get fr) lf ff as d = .ok r) docs out := by
  simp only [lookupStage] at h
  split at h
  · cases h
  · split at h
    · rename_i fr lf ff as h1 h2 h3 h4
      split at h
      · cases h
      · split at h
        · cases h
        · exact ⟨fr, lf, ff, as, h1, h2, h3, h4, mapR_ok_iff.1 h⟩
    · cases h

/-- each output is the input with `as` set to the foreign documents `find({foreignField: q})`
    selects — a sub-list of the foreign collection in its order; no other field changes -/
theorem lookupDoc_ok (foreign : List Val) (lf ff as : String) (d r : Val)
    (h : lookupDoc foreign lf ff as d = .ok r) :
    ∃ fs q ms, d = .doc fs ∧ lookupQuery fs lf = .ok q ∧
      findDocs (.doc [(ff, q)]) foreign = .ok ms ∧ r = .doc (dset as (.arr (patchList ms)) fs) ∧
      ms.Sublist foreign ∧
      (∀ x, x ∈ ms ↔ x ∈ foreign ∧ filterApplies (patch (.doc [(ff, q)])) x = .ok true) ∧
      (∀ k, k ≠ as → ∀ gs, r = .doc gs → dget k gs = dget k fs) := by
  cases d with
  | doc fs =>
    simp only [lookupDoc] at h
    cases hq : lookupQuery fs lf with
    | error e => simp [hq] at h
    | ok query =>
      simp only [hq] at h
      cases hf : findDocs (.doc [(ff, query)]) foreign with
      | error e => simp [hf] at h
      | ok ms =>
        simp only [hf, Except.ok.injEq] at h
        have hsub : ms.Sublist foreign ∧
            (∀ x, x ∈ ms ↔ x ∈ foreign ∧ filterApplies (patch (.doc [(ff, query)])) x = .ok true) := by
          unfold findDocs at hf
          cases foreign with
          | nil =>
            simp only at hf
            split at hf
            · cases hf
            · cases hf; simp
          | cons a as' => exact ⟨filterR_sublist hf, filterR_mem hf⟩
        refine ⟨fs, query, ms, rfl, hq, hf, h.symm, hsub.1, hsub.2, ?_⟩
        intro k hk gs hg
        rw [← h] at hg
        cases hg
        exact dget_dset_other as k _ hk fs
  | _ => simp [lookupDoc, unmodelled] at h

/-! ### `$replaceRoot` -/

theorem replaceRootStage_ok (fs : Fields) (docs out : List Val)
    (h : replaceRootStage (.doc fs) docs = .ok out) :
    ∃ e, dget "newRoot" fs = some e ∧
      List.Forall₂ (fun d r => replaceRootDoc e d = .ok r) docs out := by
  simp only [replaceRootStage] at h
  split at h
  · cases h
  · rename_i e he
    exact ⟨e, he, mapR_ok_iff.1 h⟩

/-! ### `$addFields` / `$set` -/

/-- what the stage does to ONE document: every field of the specification in order -/
def afDoc : Fields → AfState → R AfState
  | [], s => .ok s
  | (f, e) :: rest, s =>
    match afStep f e s with
    | .error err => .error err
    | .ok s' => afDoc rest s'

def addFieldsDoc (fs : Fields) (d : Val) : R Val :=
  match afInit d with
  | .error e => .error e
  | .ok s =>
    match afDoc fs s with
    | .error e => .error e
    | .ok s' => .ok (.doc s'.outD)

theorem afFields_ok : ∀ (fs : Fields) (st st' : List AfState), afFields fs st = .ok st' →
    List.Forall₂ (fun s s' => afDoc fs s = .ok s') st st'
  | [], st, st', h => by
    simp [afFields] at h; subst h
    induction st with
    | nil => exact List.Forall₂.nil
    | cons s r ih => exact List.Forall₂.cons rfl ih
  | (f, e) :: rest, st, st', h => by
    simp only [afFields] at h
    cases hm : mapR (afStep f e) st with
    | error err => simp [hm] at h
    | ok mid =>
      simp only [hm] at h
      have h1 := mapR_ok_iff.1 hm
      have h2 := afFields_ok rest mid st' h
      clear hm h
      induction h1 generalizing st' with
      | nil => cases h2; exact List.Forall₂.nil
      | cons hs _ ih =>
        cases h2 with
        | cons h3 h4 =>
          refine List.Forall₂.cons ?_ (ih _ h4)
          simp only [afDoc, hs]; exact h3

/-- the stage rewrites each document independently: output `i` is `addFieldsDoc` of input `i`
    (the code loops field-major, the result is the same as document-major) -/
theorem addFieldsStage_ok (fs : Fields) (docs out : List Val)
    (h : addFieldsStage (.doc fs) docs = .ok out) :
    List.Forall₂ (fun d r => addFieldsDoc fs d = .ok r) docs out := by
  cases fs with
  | nil => simp [addFieldsStage] at h
  | cons kv rest =>
    simp only [addFieldsStage] at h
    cases hi : mapR afInit docs with
    | error e => simp [hi] at h
    | ok st =>
      simp only [hi] at h
      cases hf : afFields (kv :: rest) st with
      | error e => simp [hf] at h
      | ok st' =>
        simp only [hf, Except.ok.injEq] at h
        subst h
        have h1 := mapR_ok_iff.1 hi
        have h2 := afFields_ok _ _ _ hf
        clear hi hf
        induction h1 generalizing st' with
        | nil => cases h2; exact List.Forall₂.nil
        | cons hs _ ih =>
          cases h2 with
          | cons h3 h4 =>
            refine List.Forall₂.cons ?_ (ih _ h4)
            simp only [addFieldsDoc, hs, h3]

end MongoModel.Pipe.Proofs
