/-
  Proofs.C03Stages — `$match`, `$sort`, `$skip`, `$limit`, `$count`: agreement with the find path
  and conservation laws.
-/
import Proofs.C03Group
import Props.C11
import Spec.Counts
import Mathlib.Data.List.Infix

namespace MongoModel.Pipe.Proofs
open MongoModel MongoModel.Pipe MongoModel.Proofs.C11

/-! ### `$match` -/

/-- an accepted `$match` is the plain filter (on an empty input: the empty list) -/
theorem matchStage_filterR {f : Val} {docs out : List Val} (h : matchStage f docs = .ok out) :
    filterR (fun d => filterApplies (patch f) (patch d)) docs = .ok out := by
  cases docs with
  | nil =>
    simp only [matchStage] at h
    split at h
    · cases h
    · cases h; rfl
  | cons d ds => exact h

theorem matchStage_ok {f : Val} {docs out : List Val} (h : matchStage f docs = .ok out) :
    out.Sublist docs ∧
    (∀ d, d ∈ out ↔ d ∈ docs ∧ filterApplies (patch f) (patch d) = .ok true) ∧
    out = docs.filter (fun d => filterApplies (patch f) (patch d) == .ok true) :=
  have h' := matchStage_filterR h
  ⟨filterR_sublist h', filterR_mem h', (filterR_ok h').1⟩

/-- on stored (already normalised) documents `$match` runs the very test `find` runs — also on
    an empty collection, where both validate the filter against `{}` -/
theorem matchStage_eq_findDocs (f : Val) (docs : List Val) (hn : ∀ d ∈ docs, patch d = d) :
    matchStage f docs = findDocs f docs := by
  cases docs with
  | nil => rfl
  | cons d ds =>
    simp only [matchStage, findDocs]
    exact filterR_congr _ (fun x hx => by rw [hn x hx])

/-- `Spec.selectDocs` (the selection C10 relates every entry point to) over (key, document)
    pairs is `findDocs` over the documents -/
theorem selectDocs_eq_filterR (f : Val) : ∀ (ps : List (Val × Val)),
    (Spec.selectDocs f ps).map (fun l => l.map (·.2)) = filterR (filterApplies f) (ps.map (·.2))
  | [] => rfl
  | p :: ps => by
    have ih := selectDocs_eq_filterR f ps
    simp only [Spec.selectDocs, List.map_cons, filterR, bind, Except.bind, pure, Except.pure]
    cases hp : filterApplies f p.2 with
    | error e => rfl
    | ok b =>
      simp only
      cases hs : Spec.selectDocs f ps with
      | error e => rw [hs] at ih; simp only [Except.map] at ih ⊢; rw [← ih]
      | ok more =>
        rw [hs] at ih; simp only [Except.map] at ih ⊢; rw [← ih]
        cases b <;> simp

/-! ### `$sort` -/

theorem sortFields_int (spec : SortSpec) (docs : List Val) :
    sortFields (spec.map (fun kd => (kd.1, Val.int kd.2))) docs = aggSort spec docs := by
  induction spec with
  | nil => rfl
  | cons kd rest ih =>
    simp only [List.map_cons, sortFields, aggSort, sortRounds] at ih ⊢
    rw [ih]
    cases sortRounds (fun kd ds => sortedByKey kd.1 (decide (kd.2 < 0)) ds) rest docs with
    | error e => rfl
    | ok ds => simp [sortDir, bindR]

theorem sortedByKey_perm (k : String) (rev : Bool) (ds out : List Val)
    (h : sortedByKey k rev ds = .ok out) : out.Perm ds := by
  unfold sortedByKey at h
  split at h
  · cases h
  · split at h
    · cases h
    · exact pySorted_perm _ _ _ _ h

theorem sortFields_perm : ∀ (fs : Fields) (docs out : List Val),
    sortFields fs docs = .ok out → out.Perm docs
  | [], docs, out, h => by simp [sortFields] at h; subst h; exact List.Perm.refl _
  | (k, dir) :: rest, docs, out, h => by
    simp only [sortFields] at h
    cases hr : sortFields rest docs with
    | error e => simp [hr] at h
    | ok ds =>
      cases hd : sortDir dir with
      | error e => simp [hr, hd] at h
      | ok d =>
        simp only [hr, hd] at h
        exact (sortedByKey_perm _ _ _ _ h).trans (sortFields_perm rest docs ds hr)

theorem sortStage_perm (o : Val) (docs out : List Val) (h : sortStage o docs = .ok out) :
    out.Perm docs := by
  cases o with
  | doc fs => exact sortFields_perm fs docs out h
  | _ => simp [sortStage] at h

/-! ### `$skip`, `$limit` -/

theorem skipStage_count (o : Val) (n : Int) (docs : List Val) (h : stageCount o = some n) :
    skipStage o docs = (if 0 ≤ n then .ok (docs.drop n.toNat) else .error .opFail) := by
  by_cases hn : 0 ≤ n
  · simp [skipStage, h, hn, Int.not_lt.mpr hn]
  · simp [skipStage, h, hn, Int.not_le.mp hn]

theorem limitStage_count (o : Val) (n : Int) (docs : List Val) (h : stageCount o = some n) :
    limitStage o docs = (if 0 < n then .ok (docs.take n.toNat) else .error .opFail) := by
  by_cases hn : 0 < n
  · simp [limitStage, h, hn, Int.not_le.mpr hn]
  · simp [limitStage, h, hn, Int.not_lt.mp hn]

theorem skipStage_int (n : Int) (docs : List Val) :
    skipStage (.int n) docs = (if 0 ≤ n then .ok (docs.drop n.toNat) else .error .opFail) :=
  skipStage_count (.int n) n docs rfl

theorem limitStage_int (n : Int) (docs : List Val) :
    limitStage (.int n) docs = (if 0 < n then .ok (docs.take n.toNat) else .error .opFail) :=
  limitStage_count (.int n) n docs rfl

theorem skipStage_nocount (o : Val) (docs : List Val) (h : stageCount o = none) :
    skipStage o docs = .error .opFail := by
  simp [skipStage, h]

theorem limitStage_nocount (o : Val) (docs : List Val) (h : stageCount o = none) :
    limitStage o docs = .error .opFail := by
  simp [limitStage, h]

theorem skipStage_suffix (o : Val) (docs out : List Val) (h : skipStage o docs = .ok out) :
    out <:+ docs := by
  cases hc : stageCount o with
  | none => rw [skipStage_nocount o docs hc] at h; cases h
  | some n =>
    rw [skipStage_count o n docs hc] at h
    split at h
    · cases h; exact List.drop_suffix _ _
    · cases h

theorem limitStage_prefix (o : Val) (docs out : List Val) (h : limitStage o docs = .ok out) :
    out <+: docs := by
  cases hc : stageCount o with
  | none => rw [limitStage_nocount o docs hc] at h; cases h
  | some n =>
    rw [limitStage_count o n docs hc] at h
    split at h
    · cases h; exact List.take_prefix _ _
    · cases h

/-! ### `$count` -/

theorem countStage_ok (o : Val) (docs out : List Val) (h : countStage o docs = .ok out) :
    ∃ s, o = .str s ∧ out = (if docs.isEmpty then [] else [.doc [(s, .int docs.length)]]) := by
  cases o with
  | str s =>
    simp only [countStage] at h
    split at h
    · cases h
    · split at h
      · cases h
      · split at h
        · cases h
        · split at h
          · rename_i he; cases h; exact ⟨s, rfl, by simp [he]⟩
          · rename_i he; cases h; exact ⟨s, rfl, by simp [he]⟩
  | _ => simp [countStage] at h

end MongoModel.Pipe.Proofs
