/-
  Proofs.C14Id — the filter `{_id: tid}` for a scalar `tid` on a collection whose store keys are
  not arrays selects exactly the entry stored under (a key `==` to) `tid`.
-/
import Proofs.C14Find
import Proofs.C05

namespace MongoModel.Proofs.C14Lemmas
open MongoModel MongoModel.Spec
open MongoModel.Proofs.C10Lemmas MongoModel.Proofs.C09Lemmas

/-! ### the matcher on `{_id: tid}` -/

theorem candsKey_id (dfs : Fields) : candsKey "_id" (.doc dfs) = .ok [dget "_id" dfs] := by
  have h3 : splitDots "_id" = ["_id"] := by decide
  simp only [candsKey, h3, cands]

theorem plainMatch_nonarr (tid v : Val) (hv : v.isArr = false) :
    plainMatch tid (some v) = pyEq v tid := by
  cases v <;> first | rfl | cases hv

theorem match_id (tid : Val) (dfs : Fields) (v : Val) (hsc : isScalar tid = true)
    (hv : dget "_id" dfs = some v) (hna : v.isArr = false) :
    filterApplies (.doc [("_id", tid)]) (.doc dfs) = .ok (pyEq v tid) := by
  have hk : applyKey tid "_id" (.doc dfs) = .ok (pyEq v tid) := by
    rw [applyKey.eq_2 _ _ _ (by intro fs e; subst e; cases hsc)]
    simp only [candsKey_id, hv, bind, Except.bind, candLoop, pure, Except.pure,
      plainMatch_nonarr tid v hna]
    cases pyEq v tid <;> simp
  unfold filterApplies
  rw [applyVal, applyFields.eq_def]
  have e1 : ("_id" = "$comment") = False := by decide
  have e2 : logicalKeys.contains "_id" = false := by decide
  have e3 : ("_id" = "$expr") = False := by decide
  have e4 : topLevelOperators.contains "_id" = false := by decide
  have e5 : "_id".startsWith "$" = false := by decide +kernel
  simp only [e1, e2, e3, e4, e5, if_false, Bool.false_eq_true, hk, bind, Except.bind, applyFields,
    pure, Except.pure]
  cases pyEq v tid <;> rfl

/-- a value `==` to a non-array is not an array -/
theorem nonarr_of_pyEq (k v : Val) (h : pyEq k v = true) (hk : k.isArr = false) :
    v.isArr = false := by
  cases v with
  | arr xs =>
    rcases k with _|_|_|_|_|⟨_,_|_⟩|_|_|_ <;> simp [pyEq] at h
    cases hk
  | _ => rfl

/-! ### selections computed by a Boolean -/

theorem select_of_ok (f : Val) (g : Val × Val → Bool) (l : List (Val × Val))
    (h : ∀ p ∈ l, filterApplies f p.2 = .ok (g p)) : selectDocs f l = .ok (l.filter g) := by
  induction l with
  | nil => rfl
  | cons p l ih =>
    simp only [selectDocs, h p (List.mem_cons_self ..),
      ih (fun q hq => h q (List.mem_cons_of_mem _ hq)), bind, Except.bind, pure, Except.pure,
      List.filter_cons]

/-- distinct, well-behaved keys: a predicate that holds exactly on the entries whose key is `==`
    to the key of `a` selects `a` alone -/
theorem filter_unique (P : Val × Val → Bool) (a : Val × Val) :
    ∀ (l : List (Val × Val)), DK l → GK l → a ∈ l →
      (∀ p ∈ l, P p = true ↔ pyEq a.1 p.1 = true) → l.filter P = [a] := by
  intro l
  induction l with
  | nil => intro _ _ ha; cases ha
  | cons x l ih =>
    intro hd hg ha hP
    have hd' := List.pairwise_cons.1 hd
    have hg' : GK l := hg.subset (fun p hp => List.mem_cons_of_mem _ hp)
    rcases List.mem_cons.1 ha with rfl | ha'
    · have hx : P a = true := (hP a (List.mem_cons_self ..)).2 (hg a (List.mem_cons_self ..)).2
      rw [List.filter_cons, hx, if_pos rfl]
      congr 1
      rw [List.filter_eq_nil_iff]
      intro y hy hpy
      have := (hP y (List.mem_cons_of_mem _ hy)).1 hpy
      rw [hd'.1 y hy] at this
      cases this
    · have hx : P x = false := by
        cases hpx : P x with
        | false => rfl
        | true =>
          have h1 := (hP x (List.mem_cons_self ..)).1 hpx
          have h2 : pyEq x.1 a.1 = false := hd'.1 a ha'
          rw [(hg x (List.mem_cons_self ..)).1 a.1, h1] at h2
          cases h2
      rw [List.filter_cons, hx]
      simp only [Bool.false_eq_true, if_false]
      exact ih hd'.2 hg' ha' (fun p hp => hP p (List.mem_cons_of_mem _ hp))

/-! ### `{_id: tid}` selects the entry stored under `tid` -/

theorem select_id (l : List (Val × Val)) (tid : Val) (pt : Val × Val)
    (hd : DK l) (hg : GK l) (hk : KI l) (hna : ∀ p ∈ l, p.1.isArr = false)
    (hsc : isScalar tid = true) (hpt : pt ∈ l) (hkt : pyEq pt.1 tid = true) :
    selectDocs (.doc [("_id", tid)]) l = .ok [pt] := by
  let g : Val × Val → Bool := fun p =>
    match idOf p.2 with
    | some v => pyEq v tid
    | none => false
  have hst : SymmVal tid := MongoModel.Proofs.C05.scalar_symm tid hsc
  have hok : ∀ p ∈ l, filterApplies (.doc [("_id", tid)]) p.2 = .ok (g p) := by
    intro p hp
    obtain ⟨id, hid, hpk⟩ := hk p hp
    obtain ⟨k, d⟩ := p
    cases d with
    | doc dfs =>
      have hid' : dget "_id" dfs = some id := hid
      rw [match_id tid dfs id hsc hid' (nonarr_of_pyEq k id hpk (hna _ hp))]
      show _ = Except.ok (match idOf (Val.doc dfs) with | some v => pyEq v tid | none => false)
      rw [hid]
    | _ => cases hid
  rw [select_of_ok _ g l hok]
  congr 1
  apply filter_unique g pt l hd hg hpt
  intro p hp
  obtain ⟨id, hid, hpk⟩ := hk p hp
  have hgp : g p = pyEq id tid := by
    show (match idOf p.2 with | some v => pyEq v tid | none => false) = _
    rw [hid]
  rw [hgp]
  constructor
  · intro h
    have h1 : pyEq p.1 tid = true := pyEq_trans _ _ _ hpk h
    have h2 : pyEq tid p.1 = true := by rw [hst p.1]; exact h1
    exact pyEq_trans _ _ _ hkt h2
  · intro h
    have : pt = p := mem_eq_of_pyEq hd hg hpt hp h
    subst this
    have h1 : pyEq id pt.1 = true := by rw [← (hg pt hpt).1 id]; exact hpk
    exact pyEq_trans _ _ _ h1 hkt

end MongoModel.Proofs.C14Lemmas
