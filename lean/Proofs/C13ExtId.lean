/-
  Proofs.C13ExtId — which `_id` an upsert gives the new document: the filter's, else the
  replacement's, else a fresh ObjectId (an operator update that does not address `_id` keeps
  what the seed carries).
-/
import Proofs.C13ExtUpsert

set_option linter.unusedVariables false
set_option linter.unusedSimpArgs false

namespace MongoModel.Proofs.C13Ext
open MongoModel MongoModel.Spec MongoModel.Proofs.C05Lemmas MongoModel.Proofs.C10Lemmas
  MongoModel.Proofs.C13Lemmas MongoModel.Proofs.C02Lemmas MongoModel.Proofs.C01Lemmas

/-! ### replacements -/

theorem updaterOf_nodollar (k : String) (hk : k.startsWith "$" = false) : updaterOf k = none := by
  have n1 : k ≠ "$set" := ne_of_not_dollar hk (by decide +kernel)
  have n2 : k ≠ "$unset" := ne_of_not_dollar hk (by decide +kernel)
  have n3 : k ≠ "$inc" := ne_of_not_dollar hk (by decide +kernel)
  have n4 : k ≠ "$max" := ne_of_not_dollar hk (by decide +kernel)
  have n5 : k ≠ "$min" := ne_of_not_dollar hk (by decide +kernel)
  have n6 : k ≠ "$pop" := ne_of_not_dollar hk (by decide +kernel)
  simp [updaterOf, n1, n2, n3, n4, n5, n6]

theorem positionalOperators_dollar {k : String} (h : positionalOperators.contains k = true) :
    k.startsWith "$" = true := by
  simp only [positionalOperators, List.contains_cons, List.contains_nil, Bool.or_false,
    Bool.or_eq_true, beq_iff_eq] at h
  rcases h with h | h | h | h | h | h | h | h | h | h | h | h <;> subst h <;> decide +kernel

/-- a replacement document has no operator, hence no positional path -/
theorem replacement_not_positional : ∀ (doc : Fields), isReplacement doc = true →
    positionalUpdate doc = false
  | [], _ => rfl
  | (k, v) :: r, h => by
    simp only [isReplacement, List.all_cons, Bool.and_eq_true, Bool.not_eq_true'] at h
    have hr := replacement_not_positional r (by simpa [isReplacement] using h.2)
    simp only [positionalUpdate, List.any_cons, Bool.or_eq_false_iff] at hr ⊢
    refine ⟨?_, hr⟩
    cases hc : positionalOperators.contains k with
    | false => rfl
    | true => rw [positionalOperators_dollar hc] at h; cases h.1

/-- a non-empty replacement document goes to `replaceWhole` -/
theorem applyUpdate_replacement (spec now : Val) (wi : Bool) (doc : Fields) (d : Val)
    (hne : doc ≠ []) (hr : isReplacement doc = true) :
    applyUpdate spec (.doc doc) now wi d = replaceWhole doc d := by
  cases doc with
  | nil => exact absurd rfl hne
  | cons kv r =>
    obtain ⟨k, v⟩ := kv
    simp only [isReplacement, List.all_cons, Bool.and_eq_true, Bool.not_eq_true'] at hr
    have hk := hr.1
    have n1 : k ≠ "$rename" := ne_of_not_dollar hk (by decide +kernel)
    have n2 : k ≠ "$setOnInsert" := ne_of_not_dollar hk (by decide +kernel)
    have n3 : k ≠ "$currentDate" := ne_of_not_dollar hk (by decide +kernel)
    have n4 : k ≠ "$addToSet" := ne_of_not_dollar hk (by decide +kernel)
    have n5 : k ≠ "$pull" := ne_of_not_dollar hk (by decide +kernel)
    have n6 : k ≠ "$pullAll" := ne_of_not_dollar hk (by decide +kernel)
    have n7 : k ≠ "$push" := ne_of_not_dollar hk (by decide +kernel)
    have hpos := replacement_not_positional ((k, v) :: r)
      (by simp only [isReplacement, List.all_cons, Bool.and_eq_true, Bool.not_eq_true']; exact hr)
    simp only [applyUpdate, hpos, Bool.false_eq_true, applyOps, updaterOf_nodollar k hk, n1, n2, n3,
      n4, n5, n6, n7, if_false, if_true]

theorem foldl_dset_absent (k : String) : ∀ (doc base : Fields), k ∉ dkeys doc →
    dget k (doc.foldl (fun acc kv => dset kv.1 kv.2 acc) base) = dget k base
  | [], base, _ => rfl
  | (k', v') :: r, base, h => by
    simp only [dkeys, List.map_cons, List.mem_cons, not_or] at h
    simp only [List.foldl_cons]
    rw [foldl_dset_absent k r _ h.2, C13Lemmas.dget_dset_other k k' _ (fun e => h.1 e.symm)]

theorem foldl_dset_present (k : String) (w : Val) : ∀ (doc base : Fields), (dkeys doc).Nodup →
    dget k doc = some w →
    dget k (doc.foldl (fun acc kv => dset kv.1 kv.2 acc) base) = some w
  | [], base, _, h => by simp [dget] at h
  | (k', v') :: r, base, hn, h => by
    simp only [dkeys, List.map_cons, List.nodup_cons] at hn
    simp only [List.foldl_cons]
    by_cases e : k' = k
    · subst e
      simp only [dget, if_true, Option.some.injEq] at h
      subst h
      rw [foldl_dset_absent k' r _ hn.1, dget_dset_self']
    · simp only [dget, e, if_false] at h
      exact foldl_dset_present k w r _ hn.2 h

/-- the `_id` a replacement leaves on an upsert seed that carries `_id = x` -/
theorem replaceWhole_id (doc sf : Fields) (x : Val) (d' : Val)
    (hx : dget "_id" sf = some x) (h : replaceWhole doc (.doc sf) = .ok d') :
    ∃ bf, d' = .doc bf ∧
      (dget "_id" doc = none → dget "_id" bf = some x) ∧
      (∀ w, dget "_id" doc = some w → (dkeys doc).Nodup → dget "_id" bf = some w) := by
  unfold replaceWhole at h
  split at h
  · cases h
  · simp only [hx] at h
    have hres : d' = .doc (doc.foldl (fun acc kv => dset kv.1 kv.2 acc) [("_id", x)]) := by
      split at h
      · split at h
        · cases h
        · cases h; rfl
      · cases h; rfl
    refine ⟨_, hres, ?_, ?_⟩
    · intro hn
      rw [foldl_dset_absent "_id" doc _ (not_mem_of_dget_none hn)]
      simp [dget]
    · intro w hw hnd
      exact foldl_dset_present "_id" w doc _ hnd hw

/-- the empty replacement keeps the `_id` only -/
theorem applyUpdate_empty_id (spec now : Val) (wi : Bool) (sf : Fields) (x : Val) (d' : Val)
    (hx : dget "_id" sf = some x) (h : applyUpdate spec (.doc []) now wi (.doc sf) = .ok d') :
    d' = .doc [("_id", x)] := by
  simp only [applyUpdate, hx] at h
  cases h; rfl

/-! ### the seed's `_id` -/

theorem plainKeys_entry {ss : Fields} (h : plainKeys ss = true) {kv : String × Val} (hm : kv ∈ ss) :
    kv.1.toList.contains '.' = false ∧ kv.1.startsWith "$" = false := by
  have := List.all_eq_true.1 h kv hm
  simp only [Bool.and_eq_true, Bool.not_eq_true'] at this
  exact this

theorem plainKeys_patch (ss : Fields) (h : plainKeys ss = true) : plainKeys (patchFields ss) = true := by
  simp only [plainKeys, List.all_eq_true]
  intro kv hm
  obtain ⟨kv0, hm0, rfl⟩ := mem_patchFields hm
  obtain ⟨h2, h3⟩ := plainKeys_entry h hm0
  simp only [h2, h3, Bool.not_false, Bool.and_self]

/-- the seed carries the chosen `_id` when it is a scalar -/
theorem seed_id (ss : Fields) (hk : plainKeys ss = true) (hd : (dkeys ss).Nodup)
    (idv : Val) (hid : ∀ v, dget "_id" ss = some v → idv = v) (hsc : isScalar idv = true) :
    ∃ sf, upsertSeed ss idv = .ok (.doc sf) ∧ dget "_id" sf = some idv := by
  have hnd : ∀ kv ∈ ss, kv.1.toList.contains '.' = false := fun kv hm => (plainKeys_entry hk hm).1
  have hnl : ∀ kv ∈ ss, kv.1.startsWith "$" = false := fun kv hm => (plainKeys_entry hk hm).2
  have hd' : (dkeys (dset "_id" idv ss)).Nodup := by
    cases hg : dget "_id" ss with
    | some v => rw [hid v hg, dset_same hg]; exact hd
    | none =>
      have hnm := not_mem_of_dget_none hg
      rw [dset_fresh "_id" idv ss hnm]
      simp only [dkeys, List.map_append, List.map_cons, List.map_nil]
      exact List.nodup_append.2 ⟨hd, by simp, fun a ha b hb => by
        simp only [List.mem_singleton] at hb; subst hb; intro e; subst e; exact hnm ha⟩
  refine ⟨_, upsertSeed_plain ss idv (fun kv hm =>
    ⟨nodot_dset ss _ _ id_nodot hnd kv hm, nodollar_dset ss _ _ id_nodollar hnl kv hm⟩), ?_⟩
  rw [dget_keep "_id" idv _ [] hd' (dget_dset_self' "_id" idv ss), discardOps_scalar idv hsc]; rfl

/-! ### the update shapes survive the datetime normalisation -/

theorem isReplacement_patch (u : Fields) (h : isReplacement u = true) :
    isReplacement (patchFields u) = true := by
  simp only [isReplacement, List.all_eq_true] at h ⊢
  intro kv hm
  obtain ⟨kv0, hm0, rfl⟩ := mem_patchFields hm
  exact h kv0 hm0

theorem isOperatorUpdate_patch (u : Fields) (h : isOperatorUpdate u = true) :
    isOperatorUpdate (patchFields u) = true := by
  obtain ⟨h1, h2⟩ := opUpdate_parts h
  simp only [isOperatorUpdate, Bool.and_eq_true, Bool.not_eq_true', List.isEmpty_eq_false_iff]
  exact ⟨patchFields_ne_nil u h2, all_dollar_patch u h1⟩

theorem dhas_patch (k : String) (u : Fields) : dhas k (patchFields u) = dhas k u := by
  simp only [dhas, MongoModel.Proofs.C18.dget_patchFields]
  cases dget k u <;> rfl

theorem leavesId_patch (u : Fields) (h : leavesId u = true) : leavesId (patchFields u) = true := by
  simp only [leavesId, Bool.or_eq_true, Bool.and_eq_true] at h ⊢
  rcases h with ⟨h1, h2⟩ | ⟨h1, h2⟩
  · exact Or.inl ⟨isOperatorUpdate_patch u h1, by rw [addressed_patch]; exact h2⟩
  · exact Or.inr ⟨isReplacement_patch u h1, by rw [dhas_patch]; exact h2⟩

/-- an update that leaves `_id` alone keeps the seed's `_id` -/
theorem leavesId_keeps (spec now : Val) (wi : Bool) (dfs sf : Fields) (x d' : Val)
    (hl : leavesId dfs = true) (hx : dget "_id" sf = some x)
    (h : applyUpdate spec (.doc dfs) now wi (.doc sf) = .ok d') :
    ∃ bf, d' = .doc bf ∧ dget "_id" bf = some x := by
  simp only [leavesId, Bool.or_eq_true, Bool.and_eq_true, Bool.not_eq_true'] at hl
  rcases hl with ⟨h1, h2⟩ | ⟨h1, h2⟩
  · obtain ⟨ha, hb⟩ := opUpdate_parts h1
    obtain ⟨bf, rfl, hf⟩ := applyUpdate_frame _ _ _ _ _ _ ha hb h
    refine ⟨bf, rfl, ?_⟩
    rw [hf "_id" (by simpa using h2), hx]
  · have hn : dget "_id" dfs = none := by
      simp only [dhas] at h2
      cases hg : dget "_id" dfs with
      | none => rfl
      | some w => simp [hg] at h2
    by_cases he : dfs = []
    · subst he
      exact ⟨_, applyUpdate_empty_id _ _ _ _ _ _ hx h, by simp [dget]⟩
    · rw [applyUpdate_replacement _ _ _ _ _ he h1] at h
      obtain ⟨bf, rfl, h3, _⟩ := replaceWhole_id dfs sf x d' hx h
      exact ⟨bf, rfl, h3 hn⟩

/-- a replacement carrying `_id = w` puts `w` there -/
theorem replacement_sets_id (spec now : Val) (wi : Bool) (dfs sf : Fields) (x w d' : Val)
    (hr : isReplacement dfs = true) (hw : dget "_id" dfs = some w) (hnd : (dkeys dfs).Nodup)
    (hx : dget "_id" sf = some x)
    (h : applyUpdate spec (.doc dfs) now wi (.doc sf) = .ok d') :
    ∃ bf, d' = .doc bf ∧ dget "_id" bf = some w := by
  have he : dfs ≠ [] := by intro e; subst e; simp [dget] at hw
  rw [applyUpdate_replacement _ _ _ _ _ he hr] at h
  obtain ⟨bf, rfl, _, h3⟩ := replaceWhole_id dfs sf x d' hx h
  exact ⟨bf, rfl, h3 w hw hnd⟩

/-! ### the reported `_id` -/

/-- the common part: a successful upsert that reports `id`, opened up to the update of the seed -/
theorem upsert_id_core (cfg : Cfg) (now : Int) (c c1 c' : Coll) (ss ufs : Fields)
    (multi : Bool) (sel : List (Val × Val)) (r : UpdateResult) (id : Val)
    (he : expire now c = .ok c1) (hne : c1.docs ≠ []) (hn : c.ttlIndexes = [])
    (hi : IdInv c) (hg : GoodKeys c)
    (hk : plainKeys ss = true) (hd : (dkeys ss).Nodup)
    (hs : selectDocs (patchDT (.doc ss)) c1.docs = .ok sel)
    (h : applyUpdateColl cfg now c (.doc ss) (.doc ufs) true multi = (c', .ok r))
    (hup : r.upserted = some id)
    (hsc : isScalar (upsertIdv (patchFields ss) (patchFields ufs) c).1 = true) :
    ∃ spec' sf bf, dget "_id" sf = some (upsertIdv (patchFields ss) (patchFields ufs) c).1 ∧
      applyUpdate spec' (.doc (patchFields ufs)) (patchDT (.date now none)) true (.doc sf) = .ok (.doc bf) ∧
      ∀ x, dget "_id" bf = some x → id = patch x := by
  have hsel : sel = [] :=
    (upsert_iff_no_match_main cfg now c c1 c' ss (.doc ufs) multi sel r he hne hn hi hg hs h).1.1
      (by simp [hup])
  subst hsel
  obtain ⟨hc1, dfs, hdfs, hal⟩ := upsert_reaches cfg now c c1 c' ss (.doc ufs) multi r he hne hn hi hg hs h
  subst hc1
  rw [patch_doc] at hdfs
  cases hdfs
  obtain ⟨seed, bf, id', hex, hap, hdocs, hid, hr⟩ := afterLoop_built _ _ _ _ _ _ _ _ _ _ hn hal
  rw [hup] at hr
  cases hr
  have hd' : (dkeys (patchFields ss)).Nodup := by rw [dkeys_patchFields]; exact hd
  obtain ⟨sf, hseed, hsf⟩ := seed_id (patchFields ss) (plainKeys_patch ss hk) hd'
    (upsertIdv (patchFields ss) (patchFields ufs) c1).1 (upsertIdv_from_filter _ _ _) hsc
  rw [hseed] at hex
  cases hex
  refine ⟨_, sf, bf, hsf, hap, ?_⟩
  intro x hx
  have hw : withId (upsertIdv (patchFields ss) (patchFields ufs) c1).2 bf = bf := by
    simp [withId, dhas, hx]
  rw [hw, MongoModel.Proofs.C18.dget_patchFields, hx] at hid
  simp only [Option.map_some, Option.some.injEq] at hid
  exact hid.symm

end MongoModel.Proofs.C13Ext
