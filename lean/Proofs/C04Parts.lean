/-
  Proofs.C04Parts — `$dateFromParts`: `civilFromDays` inverts `daysFromCivil` on every valid
  calendar date (the other direction of `civil_roundtrip`), the parts of a date built from
  in-range parts are those parts, the model agrees with the rule on in-range parts, and the
  milliseconds are carried.
-/
import Proofs.C04Date
import Proofs.C04PartsYoe
import Proofs.ValDecEq
import Mathlib.Tactic.IntervalCases

set_option linter.unusedSimpArgs false

namespace MongoModel.Proofs.C04
open MongoModel MongoModel.Expr MongoModel.Spec

theorem civil_core (z era yoe doy doe mp d : Int) (h0 : 0 ≤ yoe) (h1 : yoe ≤ 399)
    (hmp0 : 0 ≤ mp) (hmp1 : mp ≤ 11) (hd : 1 ≤ d)
    (hdoy : doy = (153 * mp + 2) / 5 + d - 1)
    (hdim : d ≤ (153 * (mp + 1) + 2) / 5 - (153 * mp + 2) / 5)
    (hleap : doy ≤ 364 ∨ (doy = 365 ∧ yoe % 4 = 3 ∧ (yoe % 100 ≠ 99 ∨ yoe = 399)))
    (hdoe : doe = yoe * 365 + yoe / 4 - yoe / 100 + doy)
    (hz : z + 719468 = era * 146097 + doe) :
    civilFromDays z =
      (yoe + era * 400 + (if (if mp < 10 then mp + 3 else mp - 9) ≤ 2 then 1 else 0),
       (if mp < 10 then mp + 3 else mp - 9), d) := by
  have hd0 : 0 ≤ doy := by omega
  have hdoe0 : 0 ≤ doe := by omega
  have hdoe1 : doe ≤ 146096 := by omega
  have e1 : (z + 719468) / 146097 = era := by omega
  have e2 : (z + 719468) % 146097 = doe := by omega
  have e3 := yoe_of_doe yoe doy doe h0 h1 hd0 hleap hdoe
  have e4 : doe - (365 * yoe + yoe / 4 - yoe / 100) = doy := by omega
  have e5 : (5 * doy + 2) / 153 = mp := by
    interval_cases mp <;> omega
  have e6 : doy - (153 * mp + 2) / 5 + 1 = d := by omega
  simp only [civilFromDays, e1, e2, e3, e4, e5, e6]

/-- **civil_of_days**: the day number of a valid calendar date (month 1 … 12, day 1 … the days
    of that month) gives that date back -/
theorem civil_of_days (y m d : Int) (hm1 : 1 ≤ m) (hm2 : m ≤ 12) (hd1 : 1 ≤ d)
    (hd2 : d ≤ daysInMonth y m) :
    civilFromDays (daysFromCivil y m d) = (y, m, d) := by
  by_cases hm : m ≤ 2
  · -- January, February: the March-based year is the one before
    have hgt : ¬ (m > 2) := by omega
    have hlt : ¬ (m + 9 < 10) := by omega
    have hle : m + 9 - 9 ≤ 2 := by omega
    have hleap : (153 * (m + 9) + 2) / 5 + d - 1 ≤ 364 ∨
        ((153 * (m + 9) + 2) / 5 + d - 1 = 365 ∧ ((y - 1) % 400) % 4 = 3 ∧
          (((y - 1) % 400) % 100 ≠ 99 ∨ (y - 1) % 400 = 399)) := by
      have hm' : m = 1 ∨ m = 2 := by omega
      rcases hm' with rfl | rfl
      · simp [daysInMonth] at hd2; omega
      · simp only [daysInMonth, if_true] at hd2
        by_cases hl : isLeap y = true
        · rw [if_pos hl] at hd2
          simp only [isLeap, Bool.and_eq_true, Bool.or_eq_true, beq_iff_eq, bne_iff_ne, ne_eq] at hl
          have a1 : (y - 1) % 400 % 4 = (y - 1) % 4 :=
            Int.emod_emod_of_dvd (y - 1) (by norm_num : (4 : Int) ∣ 400)
          have a2 : (y - 1) % 400 % 100 = (y - 1) % 100 :=
            Int.emod_emod_of_dvd (y - 1) (by norm_num : (100 : Int) ∣ 400)
          rw [a1, a2]
          omega
        · rw [if_neg hl] at hd2
          omega
    have hdim : d ≤ (153 * (m + 9 + 1) + 2) / 5 - (153 * (m + 9) + 2) / 5 := by
      have hm' : m = 1 ∨ m = 2 := by omega
      rcases hm' with rfl | rfl
      · simp [daysInMonth] at hd2; omega
      · omega
    have := civil_core (daysFromCivil y m d) ((y - 1) / 400) ((y - 1) % 400)
      ((153 * (m + 9) + 2) / 5 + d - 1)
      ((y - 1) % 400 * 365 + (y - 1) % 400 / 4 - (y - 1) % 400 / 100 +
        ((153 * (m + 9) + 2) / 5 + d - 1))
      (m + 9) d (by omega) (by omega) (by omega) (by omega) hd1 rfl hdim hleap rfl
      (by simp only [daysFromCivil, hm, hgt, if_true, if_false]; omega)
    rw [this]
    simp only [hlt, hle, if_true, if_false]
    refine Prod.ext (by simp only; omega) (Prod.ext (by simp only; omega) rfl)
  · -- March … December
    have hgt : m > 2 := by omega
    have hlt : m - 3 < 10 := by omega
    have hle : ¬ (m - 3 + 3 ≤ 2) := by omega
    have hdim : d ≤ (153 * (m - 3 + 1) + 2) / 5 - (153 * (m - 3) + 2) / 5 := by
      simp only [daysInMonth] at hd2
      interval_cases m <;> simp at hd2 <;> omega
    have hleap : (153 * (m - 3) + 2) / 5 + d - 1 ≤ 364 ∨
        ((153 * (m - 3) + 2) / 5 + d - 1 = 365 ∧ (y % 400) % 4 = 3 ∧
          ((y % 400) % 100 ≠ 99 ∨ y % 400 = 399)) := by
      left; interval_cases m <;> omega
    have := civil_core (daysFromCivil y m d) (y / 400) (y % 400)
      ((153 * (m - 3) + 2) / 5 + d - 1)
      (y % 400 * 365 + y % 400 / 4 - y % 400 / 100 + ((153 * (m - 3) + 2) / 5 + d - 1))
      (m - 3) d (by omega) (by omega) (by omega) (by omega) hd1 rfl hdim hleap rfl
      (by simp only [daysFromCivil, hm, hgt, if_true, if_false]; omega)
    rw [this]
    simp only [hlt, hle, if_true, if_false]
    refine Prod.ext (by simp only; omega) (Prod.ext (by simp only; omega) rfl)

/-! ### `$dateFromParts` on parts that are all given as integers -/

/-- the evaluated argument `{year, month, day, hour, minute, second, millisecond}` -/
def partsDoc (y mo d h mi s ms : Int) : Val :=
  .doc [("year", .int y), ("month", .int mo), ("day", .int d), ("hour", .int h),
        ("minute", .int mi), ("second", .int s), ("millisecond", .int ms)]

/-- the same named arguments as the rule sees them -/
def partsArgs (y mo d h mi s ms : Int) : Env :=
  [("year", some (.int y)), ("month", some (.int mo)), ("day", some (.int d)),
   ("hour", some (.int h)), ("minute", some (.int mi)), ("second", some (.int s)),
   ("millisecond", some (.int ms))]

/-- every part inside its calendar range (the milliseconds apart) -/
def PartsInRange (y mo d h mi s : Int) : Prop :=
  1 ≤ y ∧ y ≤ 9999 ∧ 1 ≤ mo ∧ mo ≤ 12 ∧ 1 ≤ d ∧ d ≤ daysInMonth y mo ∧
  0 ≤ h ∧ h ≤ 23 ∧ 0 ≤ mi ∧ mi ≤ 59 ∧ 0 ≤ s ∧ s ≤ 59

instance (y mo d h mi s : Int) : Decidable (PartsInRange y mo d h mi s) := by
  unfold PartsInRange; exact inferInstance

/-- the instant of in-range parts, µs since the epoch -/
def partsUs (y mo d h mi s ms : Int) : Int :=
  daysFromCivil y mo d * usPerDay + h * 3600000000 + mi * 60000000 + s * 1000000 + ms * 1000

theorem daysInMonth_le (y m : Int) : daysInMonth y m ≤ 31 := by
  unfold daysInMonth; split <;> (try split) <;> omega

theorem cInt_small (n : Int) (h0 : -2147483648 ≤ n) (h1 : n ≤ 2147483647) :
    cInt (.int n) = .ok n := by
  simp [cInt, h0, h1]

theorem partOr_nonzero (key : String) (dflt n : Int) (fs : Fields) (hg : dget key fs = some (.int n))
    (hn : n ≠ 0) : partOr key dflt fs = .int n := by
  simp [partOr, hg, pyFalsy, hn]

theorem partOr_zero_dflt (key : String) (n : Int) (fs : Fields) (hg : dget key fs = some (.int n)) :
    partOr key 0 fs = .int n := by
  by_cases hn : n = 0 <;> simp [partOr, hg, pyFalsy, hn]

theorem pyDatetime_inrange (y mo d h mi s : Int) (hr : PartsInRange y mo d h mi s) :
    pyDatetime (.int y) (.int mo) (.int d) (.int h) (.int mi) (.int s) =
      .ok (daysFromCivil y mo d * usPerDay + h * 3600000000 + mi * 60000000 + s * 1000000) := by
  obtain ⟨y0, y1, m0, m1, d0, d1, h0, h1, i0, i1, s0, s1⟩ := hr
  have hd31 := daysInMonth_le y mo
  have c1 : (decide (y < 1) || decide (y > 9999)) = false := by simp; omega
  have c2 : (decide (mo < 1) || decide (mo > 12)) = false := by simp; omega
  have c3 : (decide (d < 1) || decide (d > daysInMonth y mo)) = false := by simp; omega
  have c4 : (decide (h < 0) || decide (h > 23)) = false := by simp; omega
  have c5 : (decide (mi < 0) || decide (mi > 59)) = false := by simp; omega
  have c6 : (decide (s < 0) || decide (s > 59)) = false := by simp; omega
  simp only [pyDatetime, cInt_small y (by omega) (by omega), cInt_small mo (by omega) (by omega),
    cInt_small d (by omega) (by omega), cInt_small h (by omega) (by omega),
    cInt_small mi (by omega) (by omega), cInt_small s (by omega) (by omega),
    bind, Except.bind, c1, c2, c3, c4, c5, c6, Bool.false_eq_true, if_false]

/-- the model on in-range parts: the instant of those parts, the milliseconds (any integer)
    added to it, inside the years 1 … 9999 -/
theorem dateFromPartsOp_inrange (y mo d h mi s ms : Int) (hr : PartsInRange y mo d h mi s) :
    dateFromPartsOp (partsDoc y mo d h mi s ms) = mkDate (partsUs y mo d h mi s ms) := by
  have hmo : mo ≠ 0 := by have := hr.2.2.1; omega
  have hd : d ≠ 0 := by have := hr.2.2.2.2.1; omega
  have g1 : partOr "month" 1 [("year", Val.int y), ("month", .int mo), ("day", .int d), ("hour", .int h),
      ("minute", .int mi), ("second", .int s), ("millisecond", .int ms)] = .int mo :=
    partOr_nonzero _ _ _ _ (by simp [dget]) hmo
  have g2 : partOr "day" 1 [("year", Val.int y), ("month", .int mo), ("day", .int d), ("hour", .int h),
      ("minute", .int mi), ("second", .int s), ("millisecond", .int ms)] = .int d :=
    partOr_nonzero _ _ _ _ (by simp [dget]) hd
  have g3 : partOr "hour" 0 [("year", Val.int y), ("month", .int mo), ("day", .int d), ("hour", .int h),
      ("minute", .int mi), ("second", .int s), ("millisecond", .int ms)] = .int h :=
    partOr_zero_dflt _ _ _ (by simp [dget])
  have g4 : partOr "minute" 0 [("year", Val.int y), ("month", .int mo), ("day", .int d), ("hour", .int h),
      ("minute", .int mi), ("second", .int s), ("millisecond", .int ms)] = .int mi :=
    partOr_zero_dflt _ _ _ (by simp [dget])
  have g5 : partOr "second" 0 [("year", Val.int y), ("month", .int mo), ("day", .int d), ("hour", .int h),
      ("minute", .int mi), ("second", .int s), ("millisecond", .int ms)] = .int s :=
    partOr_zero_dflt _ _ _ (by simp [dget])
  have g6 : partOr "millisecond" 0 [("year", Val.int y), ("month", .int mo), ("day", .int d),
      ("hour", .int h), ("minute", .int mi), ("second", .int s), ("millisecond", .int ms)] = .int ms :=
    partOr_zero_dflt _ _ _ (by simp [dget])
  simp only [dateFromPartsOp, partsDoc, g1, g2, g3, g4, g5, g6]
  simp [dhas, dget, pyDatetime_inrange y mo d h mi s hr, bind, Except.bind, toPyNum, datePlus,
    partsUs]

/-- the carried instant is the plain one when month and day need no carrying -/
theorem carryUs_inrange (y mo d h mi s ms : Int) (m0 : 1 ≤ mo) (m1 : mo ≤ 12) :
    carryUs y mo d h mi s ms = partsUs y mo d h mi s ms := by
  have e1 : (mo - 1) / 12 = 0 := by omega
  have e2 : (mo - 1) % 12 + 1 = mo := by omega
  simp only [carryUs, partsUs, e1, e2, daysFromCivil, usPerDay]
  split <;> split <;> omega

/-- the rule on integer parts: the year in 1 … 9999, the other parts carried -/
theorem dateFromPartsS_ints (y mo d h mi s ms : Int) (y0 : 1 ≤ y) (y1 : y ≤ 9999)
    (hs : (smallPart mo && smallPart d && smallPart h && smallPart mi) = true) :
    dateFromPartsS (partsArgs y mo d h mi s ms) = mkDate (carryUs y mo d h mi s ms) := by
  have c1 : (decide (y < 1) || decide (y > 9999)) = false := by simp; omega
  simp [dateFromPartsS, partsArgs, partKeys, isoPartKeys, partArg, List.lookup, PartArg.getD, c1, hs]

/-- the day numbers of the years 1 … 9999 -/
theorem daysFromCivil_bounds (y m d : Int) (y0 : 1 ≤ y) (y1 : y ≤ 9999) (m0 : 1 ≤ m) (m1 : m ≤ 12)
    (d0 : 1 ≤ d) (d1 : d ≤ 31) :
    -719162 ≤ daysFromCivil y m d ∧ daysFromCivil y m d ≤ 2932896 := by
  simp only [daysFromCivil]
  split <;> split <;> omega

theorem mkDate_inrange (y mo d h mi s ms : Int) (hr : PartsInRange y mo d h mi s)
    (ms0 : 0 ≤ ms) (ms1 : ms ≤ 999) :
    mkDate (partsUs y mo d h mi s ms) = .ok (.date (partsUs y mo d h mi s ms) none) := by
  obtain ⟨y0, y1, m0, m1, d0, d1, h0, h1, i0, i1, s0, s1⟩ := hr
  have hd31 := daysInMonth_le y mo
  obtain ⟨b0, b1⟩ := daysFromCivil_bounds y mo d y0 y1 m0 m1 d0 (by omega)
  have l : dateMinUs ≤ partsUs y mo d h mi s ms := by
    simp only [dateMinUs, partsUs, usPerDay]; omega
  have u : partsUs y mo d h mi s ms ≤ dateMaxUs := by
    simp only [dateMaxUs, partsUs, usPerDay]; omega
  simp [mkDate, l, u]

/-- the parts of the instant of in-range parts are those parts -/
theorem parts_of_partsUs (y mo d h mi s ms : Int) (hr : PartsInRange y mo d h mi s)
    (ms0 : 0 ≤ ms) (ms1 : ms ≤ 999) :
    datePart "$year" (partsUs y mo d h mi s ms) = .ok (.int y) ∧
    datePart "$month" (partsUs y mo d h mi s ms) = .ok (.int mo) ∧
    datePart "$dayOfMonth" (partsUs y mo d h mi s ms) = .ok (.int d) ∧
    datePart "$hour" (partsUs y mo d h mi s ms) = .ok (.int h) ∧
    datePart "$minute" (partsUs y mo d h mi s ms) = .ok (.int mi) ∧
    datePart "$second" (partsUs y mo d h mi s ms) = .ok (.int s) ∧
    datePart "$millisecond" (partsUs y mo d h mi s ms) = .ok (.int ms) := by
  obtain ⟨y0, y1, m0, m1, d0, d1, h0, h1, i0, i1, s0, s1⟩ := hr
  have hday : dayOf (partsUs y mo d h mi s ms) = daysFromCivil y mo d := by
    simp only [dayOf, partsUs, usPerDay]; omega
  have hrem : usOfDay (partsUs y mo d h mi s ms) =
      h * 3600000000 + mi * 60000000 + s * 1000000 + ms * 1000 := by
    simp only [usOfDay, partsUs, usPerDay]; omega
  have hciv := civil_of_days y mo d m0 m1 d0 d1
  refine ⟨?_, ?_, ?_, ?_, ?_, ?_, ?_⟩ <;>
    simp [datePart, hday, hrem, hciv] <;> omega

theorem dateOp_fromParts (v : Val) : dateOp "$dateFromParts" v = dateFromPartsOp v := by
  simp [dateOp, datePartOps]

theorem dateOp_part (op : String) (h : datePartOps.contains op = true) (u : Int) :
    dateOp op (.date u none) = datePart op u := by
  unfold dateOp
  rw [if_pos h]

end MongoModel.Proofs.C04
