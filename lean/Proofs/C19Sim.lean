/-
  C19 — the interpreter refines the lock-protocol machine: for conformant code the projection
  of every reachable state of `RWLock.step` is reachable for `pstep` (`sim`), so what the
  certificates / the invariant establish for the protocol machine holds for every program.
-/
import MongoModel.RWLockConf
import Proofs.C19Cert
namespace MongoModel.RWLock

/-! ### anatomy of one step -/

theorem markDirty_pc (th : Thread) : (markDirty th).pc = th.pc := by
  unfold markDirty; split <;> rfl

theorem step_cases {cfg : Cfg} {s s' : State} {t : Nat} (h : step cfg s t = some s') :
    ∃ th ins e, s.ths[t]? = some th ∧ (cfg.code t)[th.pc]? = some ins ∧
      exec cfg (cfg.code t) s.sh th t ins.op = some e ∧
      s' = { sh := e.sh,
             ths := if e.mutated then (s.ths.set t e.th).map markDirty else s.ths.set t e.th } := by
  unfold step at h
  split at h
  · simp at h
  · rename_i th hth
    simp only at h
    split at h
    · simp at h
    · rename_i ins hins
      split at h
      · simp at h
      · rename_i e he
        simp only [Option.some.injEq] at h
        exact ⟨th, ins, e, hth, hins, he, h.symm⟩

/-- the threads of the successor: same number, only `t` moved -/
theorem step_ths {cfg : Cfg} {s s' : State} {t : Nat} (h : step cfg s t = some s') :
    s'.ths.length = s.ths.length ∧
    ∀ u, (s'.ths[u]?).map (·.pc) =
      if u = t then (s'.ths[t]?).map (·.pc) else (s.ths[u]?).map (·.pc) := by
  obtain ⟨th, ins, e, hth, hins, he, rfl⟩ := step_cases h
  constructor
  · simp only; split <;> simp
  · intro u
    by_cases hu : u = t
    · simp [hu]
    · simp only [hu, if_false]
      split <;> simp [List.getElem?_set, Ne.symm hu, List.getElem?_map, Option.map_map,
        Function.comp_def, markDirty_pc]

theorem tagAt_eq_phaseAt (cfg : Cfg) (s : State) (t : Nat) (th : Thread)
    (h : s.ths[t]? = some th) : phaseAt cfg s t = tagAt (cfg.code t) th.pc := by
  simp only [phaseAt, h, tagAt]
  cases (cfg.code t)[th.pc]? <;> rfl

theorem phaseAt_of_pc (cfg : Cfg) (s s' : State) (u : Nat)
    (h : (s'.ths[u]?).map (·.pc) = (s.ths[u]?).map (·.pc)) :
    phaseAt cfg s' u = phaseAt cfg s u := by
  unfold phaseAt
  cases h1 : s'.ths[u]? <;> cases h2 : s.ths[u]? <;> simp [h1, h2] at h ⊢
  rw [h]

/-! ### what one instruction can do -/

theorem protoOp_none_of_not_proto {re lk t ins} (h : isProto ins = false) :
    protoOp re lk t ins = none := by
  cases ins <;> simp [isProto] at h <;> rfl

theorem protoOp_some_of_proto {re lk t ins} (h : isProto ins = true) :
    ∃ r, protoOp re lk t ins = some r := by
  cases ins <;> simp [isProto] at h <;> exact ⟨_, rfl⟩

theorem exec_proto {cfg : Cfg} {code sh th t ins e} (hp : isProto ins = true)
    (he : exec cfg code sh th t ins = some e) :
    (∃ lk', protoOp cfg.reentrant sh.lk t ins = some (.ok lk') ∧
        e.sh = { sh with lk := lk' } ∧ e.th = th.next ∧ e.mutated = false) ∨
    (protoOp cfg.reentrant sh.lk t ins = some .error ∧ e.sh = sh ∧
        e.th = th.raise code (some .lockError) ∧ e.mutated = false) := by
  obtain ⟨r, hr⟩ := protoOp_some_of_proto (re := cfg.reentrant) (lk := sh.lk) (t := t) hp
  unfold exec at he
  rw [hr] at he
  cases r with
  | blocked => simp at he
  | ok lk' =>
    simp only [Option.some.injEq] at he
    subst he
    exact Or.inl ⟨lk', hr, rfl, rfl, rfl⟩
  | error =>
    simp only [Option.some.injEq] at he
    subst he
    exact Or.inr ⟨hr, rfl, rfl, rfl⟩

theorem exec_dict {cfg : Cfg} {code sh th t ins e} (hp : isProto ins = false)
    (he : exec cfg code sh th t ins = some e) : dictOp cfg code sh th ins = some e := by
  unfold exec at he
  rw [protoOp_none_of_not_proto hp] at he
  exact he

theorem raise_pc (th : Thread) (code : Code) (f : Option Fault) :
    (th.raise code f).pc = raiseTarget code th.pc := rfl

theorem setDict_lk (sh : Shared) (d : Dict) (v : List Nat) : (sh.setDict d v).lk = sh.lk := by
  cases d <;> rfl

theorem dictOp_succ {cfg : Cfg} {code sh th ins e} (h : dictOp cfg code sh th ins = some e) :
    e.sh.lk = sh.lk ∧ e.th.pc ∈ succPcs code th.pc ins := by
  cases ins <;> simp only [dictOp] at h
  all_goals first
    | (simp at h; done)
    | (repeat' split at h)
  all_goals first
    | (simp at h; done)
    | (simp only [Option.some.injEq] at h; subst h;
       simp [succPcs, Thread.next, Thread.raise, Thread.goto, setDict_lk])

/-! ### projection of a step -/

theorem step_pc_self {s : State} {t : Nat} {th : Thread} {e : Eff}
    (hth : s.ths[t]? = some th) :
    ((if e.mutated then (s.ths.set t e.th).map markDirty else s.ths.set t e.th)[t]?).map (·.pc)
      = some e.th.pc := by
  have ht : t < s.ths.length := by
    rcases Nat.lt_or_ge t s.ths.length with h | h
    · exact h
    · simp [List.getElem?_eq_none h] at hth
  split <;> simp [List.getElem?_set, ht, markDirty_pc]

theorem proj_step {cfg : Cfg} {s s' : State} {t : Nat} (h : step cfg s t = some s') :
    ∃ th ins e, s.ths[t]? = some th ∧ (cfg.code t)[th.pc]? = some ins ∧
      exec cfg (cfg.code t) s.sh th t ins.op = some e ∧ t < s.ths.length ∧
      (proj cfg s).pos[t]? = some ins.ph ∧
      proj cfg s' = { lk := e.sh.lk,
                      pos := (proj cfg s).pos.set t (tagAt (cfg.code t) e.th.pc) } := by
  obtain ⟨th, ins, e, hth, hins, he, hs'⟩ := step_cases h
  have ht : t < s.ths.length := by
    rcases Nat.lt_or_ge t s.ths.length with h | h
    · exact h
    · simp [List.getElem?_eq_none h] at hth
  have hlen := (step_ths h).1
  have hpcs := (step_ths h).2
  have hself : (s'.ths[t]?).map (·.pc) = some e.th.pc := by
    rw [hs']; exact step_pc_self hth
  refine ⟨th, ins, e, hth, hins, he, ht, ?_, ?_⟩
  · simp only [proj, tids, List.getElem?_map, List.getElem?_range ht, Option.map_some]
    rw [tagAt_eq_phaseAt cfg s t th hth, tagAt, hins]
  · simp only [proj]
    congr 1
    · rw [hs']
    · apply List.ext_getElem?
      intro u
      simp only [tids, hlen, List.getElem?_set, List.getElem?_map]
      by_cases hu : u < s.ths.length
      · simp only [List.getElem?_range hu, Option.map_some, List.length_map, List.length_range]
        by_cases hut : t = u
        · subst hut
          simp only [if_true, ht]
          cases hq : s'.ths[t]? with
          | none => simp [hq] at hself
          | some th' =>
            simp only [hq, Option.map_some, Option.some.injEq] at hself
            rw [tagAt_eq_phaseAt cfg s' t th' hq, hself]
        · simp only [hut, if_false, List.getElem?_range hu, Option.map_some]
          have := hpcs u
          simp only [Ne.symm hut, if_false] at this
          rw [phaseAt_of_pc cfg s s' u this]
      · have hu' : s.ths.length ≤ u := Nat.le_of_not_lt hu
        have hne : t ≠ u := by omega
        simp [List.getElem?_eq_none, hu', hne]

theorem conformsAt_of {P : Protocol} {code : Code} (h : conformant P code = true) {pc : Nat}
    {i : TInstr} (hi : code[pc]? = some i) : conformsAt P code pc i = true := by
  simp only [conformant, Bool.and_eq_true] at h
  have := allIdx_spec _ _ _ h.2 pc i hi
  simpa using this

/-! ### the protocol machine can follow -/

theorem set_same {α} (xs : List α) (t : Nat) (a : α) (h : xs[t]? = some a) : xs.set t a = xs := by
  apply List.ext_getElem?
  intro u
  by_cases hu : t = u
  · subst hu
    have : t < xs.length := by
      rcases Nat.lt_or_ge t xs.length with h' | h'
      · exact h'
      · simp [List.getElem?_eq_none h'] at h
    rw [List.getElem?_eq_getElem this] at h
    simp only [Option.some.injEq] at h
    simp [List.getElem?_set, this, h]
  · simp [List.getElem?_set, hu]

theorem pstep_op_ok {P : Protocol} {s : PState} {t : Nat} {p : Phase} {ins : Instr} {lk' : Locks}
    (hp : s.pos[t]? = some p) (hi : instrAt P p = some ins)
    (ho : protoOp P.reentrant s.lk t ins = some (.ok lk')) :
    pstep P s t .op = some { lk := lk', pos := s.pos.set t (nextPos P p) } := by
  simp [pstep, hp, hi, ho]

theorem pstep_op_err {P : Protocol} {s : PState} {t : Nat} {p : Phase} {ins : Instr}
    (hp : s.pos[t]? = some p) (hi : instrAt P p = some ins)
    (ho : protoOp P.reentrant s.lk t ins = some .error) :
    pstep P s t .op = some (s.setPos t .out) := by
  simp [pstep, hp, hi, ho]

theorem pstep_begin {P : Protocol} {s : PState} {t : Nat} (w : Bool)
    (hp : s.pos[t]? = some .out) : pstep P s t (.begin w) = some (s.setPos t (beginPos P w)) := by
  simp [pstep, hp]

theorem pstep_leave {P : Protocol} {s : PState} {t : Nat} (w r : Bool)
    (hp : s.pos[t]? = some (.body w)) :
    pstep P s t (.leave r) = some (s.setPos t (leavePos P w r)) := by
  simp [pstep, hp]

/-- from `out`, any position that is `out` or the start of an acquire is reachable -/
theorem reach_outOrBegin {P : Protocol} {n : Nat} {s : PState} {t : Nat} {q : Phase}
    (hr : PReach P n s) (hp : s.pos[t]? = some .out) (hq : outOrBegin P q = true) :
    PReach P n (s.setPos t q) := by
  simp only [outOrBegin, Bool.or_eq_true, beq_iff_eq] at hq
  rcases hq with (hq | hq) | hq
  · subst hq
    have : s.setPos t .out = s := by
      cases s; simp only [PState.setPos]; congr 1; exact set_same _ _ _ hp
    rw [this]; exact hr
  · subst hq; exact PReach.step hr (pstep_begin false hp)
  · subst hq; exact PReach.step hr (pstep_begin true hp)

theorem conf_code {P : Protocol} {cfg : Cfg} (h : cfg.conformant P = true) (t : Nat) :
    conformant P (cfg.code t) = true := by
  simp only [Cfg.conformant, Bool.and_eq_true, List.all_eq_true] at h
  unfold Cfg.code
  rcases Nat.lt_or_ge t cfg.codes.length with ht | ht
  · rw [List.getD_eq_getElem?_getD, List.getElem?_eq_getElem ht]
    exact h.2 _ (List.getElem_mem _)
  · rw [List.getD_eq_getElem?_getD, List.getElem?_eq_none ht]
    rfl

theorem conf_re {P : Protocol} {cfg : Cfg} (h : cfg.conformant P = true) :
    cfg.reentrant = P.reentrant := by
  simp only [Cfg.conformant, Bool.and_eq_true, beq_iff_eq] at h
  exact h.1

/-! ### simulation -/

theorem sim_step {P : Protocol} {cfg : Cfg} {n : Nat} (hc : cfg.conformant P = true)
    {s s' : State} {t : Nat} (hr : PReach P n (proj cfg s)) (h : step cfg s t = some s') :
    PReach P n (proj cfg s') := by
  obtain ⟨th, ins, e, hth, hins, he, ht, hpos, hproj⟩ := proj_step h
  have hconf := conformsAt_of (conf_code hc t) hins
  have hre := conf_re hc
  rw [hproj]
  unfold conformsAt at hconf
  by_cases hp : isProto ins.op = true
  · simp only [hp, if_true, Bool.and_eq_true, beq_iff_eq] at hconf
    obtain ⟨⟨hi, hnext⟩, hraise⟩ := hconf
    rcases exec_proto hp he with ⟨lk', ho, hsh, hthn, _⟩ | ⟨ho, hsh, hthn, _⟩
    · -- the protocol instruction executes
      rw [hre] at ho
      have hstep := pstep_op_ok (s := proj cfg s) hpos hi ho
      have : e.th.pc = th.pc + 1 := by rw [hthn]; rfl
      rw [this, hnext, hsh]
      exact PReach.step hr hstep
    · -- a release fails: the exception leaves the call
      rw [hre] at ho
      have hstep := pstep_op_err (s := proj cfg s) hpos hi ho
      have h1 := PReach.step hr hstep
      have hpc : e.th.pc = raiseTarget (cfg.code t) th.pc := by rw [hthn]; rfl
      have hlen : t < (proj cfg s).pos.length := by
        simp [proj, tids, ht]
      have hout : ((proj cfg s).setPos t .out).pos[t]? = some .out := by
        simp [PState.setPos, List.getElem?_set, hlen]
      have h2 := reach_outOrBegin h1 hout hraise
      rw [hpc, hsh]
      have hlk0 : (proj cfg s).lk = s.sh.lk := rfl
      simpa [PState.setPos, List.set_set, hlk0] using h2
  · have hp' : isProto ins.op = false := by simpa using hp
    simp only [hp', Bool.false_eq_true, if_false, Bool.and_eq_true, List.all_eq_true] at hconf
    obtain ⟨⟨_, _⟩, hsucc⟩ := hconf
    obtain ⟨hlk, hpc⟩ := dictOp_succ (exec_dict hp' he)
    have hsil := hsucc _ hpc
    rw [hlk]
    have hsame : (proj cfg s) = { lk := s.sh.lk, pos := (proj cfg s).pos } := rfl
    simp only [silentOK, Bool.or_eq_true, beq_iff_eq] at hsil
    rcases hsil with heq | hsil
    · -- the position does not change
      rw [← heq, set_same _ _ _ hpos]
      exact hr
    · split at hsil
      · rename_i hph
        rw [hph] at hpos
        have := reach_outOrBegin hr hpos hsil
        have hlk0 : (proj cfg s).lk = s.sh.lk := rfl
        simpa [PState.setPos, hlk0] using this
      · rename_i w hph
        rw [hph] at hpos
        simp only [Bool.or_eq_true, beq_iff_eq] at hsil
        rcases hsil with hq | hq
        · rw [hq]; exact PReach.step hr (pstep_leave w false hpos)
        · rw [hq]; exact PReach.step hr (pstep_leave w true hpos)
      · simp at hsil

theorem set_at_length {α} (pre ys : List α) (x q : α) :
    (pre ++ x :: ys).set pre.length q = pre ++ q :: ys := by
  induction pre with
  | nil => rfl
  | cons a pre ih => simp [ih]

theorem get_at_length {α} (pre ys : List α) (x : α) : (pre ++ x :: ys)[pre.length]? = some x := by
  induction pre with
  | nil => rfl
  | cons a pre ih => simpa using ih

theorem reach_positions {P : Protocol} {n : Nat} {lk : Locks} : ∀ (qs pre : List Phase),
    (∀ q ∈ qs, outOrBegin P q = true) →
    PReach P n { lk := lk, pos := pre ++ List.replicate qs.length .out } →
    PReach P n { lk := lk, pos := pre ++ qs }
  | [], pre, _, h => by simpa using h
  | q :: qs, pre, hq, h => by
    have hpos : (⟨lk, pre ++ List.replicate (q :: qs).length .out⟩ : PState).pos[pre.length]?
        = some .out := by
      simp only [List.length_cons, List.replicate_succ]
      exact get_at_length _ _ _
    have h1 := reach_outOrBegin h hpos (hq q (by simp))
    simp only [PState.setPos, List.length_cons, List.replicate_succ, set_at_length] at h1
    have := reach_positions qs (pre ++ [q]) (fun x hx => hq x (by simp [hx]))
      (by simpa using h1)
    simpa using this

theorem tagAt_zero_ok {P : Protocol} {code : Code} (h : conformant P code = true) :
    outOrBegin P (tagAt code 0) = true := by
  simp only [conformant, Bool.and_eq_true] at h
  exact h.1

theorem proj_init (cfg : Cfg) :
    proj cfg (initState cfg) =
      { lk := Locks.init,
        pos := (List.range cfg.codes.length).map fun t => tagAt (cfg.code t) 0 } := by
  simp only [proj, initState, tids, List.length_map]
  congr 1
  apply List.map_congr_left
  intro t ht
  have ht' : t < cfg.codes.length := by simpa using ht
  have : (List.map (fun _ => Thread.init) cfg.codes)[t]? = some Thread.init := by
    simp [List.getElem?_map, List.getElem?_eq_getElem ht']
  rw [tagAt_eq_phaseAt cfg _ t Thread.init this]
  rfl

/-- the projection of every reachable state of the interpreter is reachable for the protocol
    machine -/
theorem sim {P : Protocol} {cfg : Cfg} (hc : cfg.conformant P = true) :
    ∀ s, Reach cfg s → PReach P cfg.codes.length (proj cfg s) := by
  intro s hr
  induction hr with
  | init =>
    rw [proj_init]
    let qs : List Phase := (List.range cfg.codes.length).map fun t => tagAt (cfg.code t) 0
    have hlen : qs.length = cfg.codes.length := by simp [qs]
    have h0 : PReach P cfg.codes.length
        { lk := Locks.init, pos := [] ++ List.replicate qs.length Phase.out } := by
      rw [hlen]
      simpa [pinit] using (PReach.init : PReach P cfg.codes.length (pinit cfg.codes.length))
    have := reach_positions qs [] (fun q hq => by
      simp only [qs, List.mem_map, List.mem_range] at hq
      obtain ⟨t, _, rfl⟩ := hq
      exact tagAt_zero_ok (conf_code hc t)) h0
    simpa using this
  | step _ hstep ih => exact sim_step hc ih hstep

end MongoModel.RWLock
