/-
  Proofs.C12Ops — `$slice` and `$elemMatch`.
-/
import Proofs.C12Main

namespace MongoModel.Proofs.C12
open MongoModel MongoModel.Spec.Proj

/-- `xs[a:b]` for indexes already inside `0 ≤ a`, `0 ≤ b ≤ len` -/
theorem pySlice_inrange (xs : List Val) {a b : Int} (ha : 0 ≤ a) (hb : 0 ≤ b)
    (hbl : b ≤ xs.length) :
    projSlice xs a b = (xs.drop (if a > xs.length then (xs.length : Int) else a).toNat).take
      (b - (if a > xs.length then (xs.length : Int) else a)).toNat := by
  unfold projSlice
  have h1 : ¬ a < 0 := by omega
  have h2 : ¬ b < 0 := by omega
  have h3 : ¬ b > (xs.length : Int) := by omega
  simp only [h1, h2, h3, if_false]

theorem take_ge_length {α} {l : List α} {n : Nat} (h : l.length ≤ n) : l.take n = l :=
  List.take_of_length_le h

theorem slice_int (xs : List Val) (n : Int) :
    sliceOp (.int n) xs = .ok (if n ≥ 0 then xs.take n.toNat else xs.drop (xs.length - n.natAbs)) := by
  simp only [sliceOp, asPyInt]
  by_cases hn : n < 0
  · have hge : ¬ n ≥ 0 := by omega
    simp only [hn, if_true, hge, if_false]
    congr 1
    rw [pySlice_inrange xs (by split <;> omega) (by omega) (Int.le_refl _)]
    have e : (if (if (xs.length : Int) + n < 0 then (0 : Int) else ↑xs.length + n) > ↑xs.length
        then (xs.length : Int) else (if (xs.length : Int) + n < 0 then 0 else ↑xs.length + n)).toNat
        = xs.length - n.natAbs := by
      split <;> split <;> omega
    rw [e]
    apply take_ge_length
    simp only [List.length_drop]
    omega
  · have hge : n ≥ 0 := by omega
    simp only [hn, if_false, hge, if_true]
    congr 1
    rw [pySlice_inrange xs (Int.le_refl _) (by split <;> omega) (by split <;> omega)]
    have h0 : ¬ (0 : Int) > xs.length := by omega
    simp only [h0, if_false, Int.toNat_zero, List.drop_zero, Int.sub_zero]
    split
    · rfl
    · rw [take_ge_length (by omega), take_ge_length (by omega)]

theorem slice_pair (xs : List Val) (skip limit : Int) (hl : 0 < limit) :
    sliceOp (.arr [.int skip, .int limit]) xs = .ok (
      if skip ≥ 0 then (xs.drop skip.toNat).take limit.toNat
      else (xs.drop (xs.length - skip.natAbs)).take limit.toNat) := by
  have hnp : decide (limit ≤ 0) = false := by simpa using hl
  simp only [sliceOp, nonPositive, hnp, asPyInt]
  congr 1
  by_cases hn : skip < 0
  · have hge : ¬ skip ≥ 0 := by omega
    simp only [hn, if_true, hge, if_false]
    by_cases hfar : (xs.length : Int) + skip < 0
    · simp only [hfar, if_true]
      rw [pySlice_inrange xs (Int.le_refl _) (by split <;> omega) (by split <;> omega)]
      have h0 : ¬ ((0 : Int) > xs.length) := by omega
      simp only [h0, if_false]
      have e1 : xs.length - skip.natAbs = (0 : Int).toNat := by omega
      rw [e1]
      split
      · congr 1; omega
      · rw [take_ge_length (by simp only [List.length_drop]; omega),
          take_ge_length (by simp only [List.length_drop]; omega)]
    · simp only [hfar, if_false]
      rw [pySlice_inrange xs (by omega) (by split <;> omega) (by split <;> omega)]
      have h0 : ¬ ((xs.length : Int) + skip > xs.length) := by omega
      simp only [h0, if_false]
      have e1 : ((xs.length : Int) + skip).toNat = xs.length - skip.natAbs := by omega
      rw [e1]
      split
      · congr 1; omega
      · rw [take_ge_length (by simp only [List.length_drop]; omega),
          take_ge_length (by simp only [List.length_drop]; omega)]
  · have hge : skip ≥ 0 := by omega
    simp only [hn, if_false, hge, if_true]
    rw [pySlice_inrange xs (by omega) (by split <;> omega) (by split <;> omega)]
    by_cases hbig : skip > xs.length
    · simp only [hbig, if_true]
      rw [List.drop_of_length_le (by omega), List.drop_of_length_le (by omega)]
      simp
    · simp only [hbig, if_false]
      split
      · congr 1; omega
      · rw [take_ge_length (by simp only [List.length_drop]; omega),
          take_ge_length (by simp only [List.length_drop]; omega)]

/-- a limit that is not positive is refused, whatever the skip and the array -/
theorem slice_refused (xs : List Val) (skip limit : Int) (hl : limit ≤ 0) :
    sliceOp (.arr [.int skip, .int limit]) xs = .error .opFail := by
  have hnp : decide (limit ≤ 0) = true := by simpa using hl
  simp only [sliceOp, nonPositive, hnp]

/-- **`$slice`**: for a well-shaped operand the code keeps exactly the stated contiguous part,
    and refuses exactly the operands the rule refuses -/
theorem slice_spec (sv : Val) (xs : List Val) (h : sliceReasons sv = []) :
    match slice sv xs with
    | some ys => sliceOp sv xs = .ok ys
    | none => sliceOp sv xs = .error .opFail := by
  unfold sliceReasons at h
  split at h
  · next n => simp only [slice]; exact slice_int xs n
  · next skip limit =>
    by_cases hl : limit ≤ 0
    · simp only [slice, hl, if_true]; exact slice_refused xs skip limit hl
    · have h2 := slice_pair xs skip limit (by omega)
      by_cases hs : skip ≥ 0
      · simp only [hs, if_true] at h2
        simp only [slice, hl, if_false, hs, if_true]; exact h2
      · simp only [hs, if_false] at h2
        simp only [slice, hl, if_false, hs]; exact h2
  · cases h

theorem slice_spec_some {sv : Val} {xs ys : List Val} (h : sliceReasons sv = [])
    (hs : slice sv xs = some ys) : sliceOp sv xs = .ok ys := by
  have := slice_spec sv xs h
  rw [hs] at this; exact this

theorem slice_spec_none {sv : Val} {xs : List Val} (h : sliceReasons sv = [])
    (hs : slice sv xs = none) : sliceOp sv xs = .error .opFail := by
  have := slice_spec sv xs h
  rw [hs] at this; exact this

/-! ### `$elemMatch` -/

theorem firstMatch_some {q : Val} : ∀ {xs : List Val} {x : Val},
    firstMatch q xs = .ok (some x) →
    ∃ pre post, xs = pre ++ x :: post ∧ filterApplies q x = .ok true ∧
      ∀ y ∈ pre, filterApplies q y = .ok false
  | [], x, h => by simp [firstMatch] at h
  | y :: ys, x, h => by
    simp only [firstMatch] at h
    obtain ⟨b, hb, h⟩ := bind_ok h
    cases b
    · simp only [Bool.false_eq_true, if_false] at h
      obtain ⟨pre, post, e, h1, h2⟩ := firstMatch_some h
      refine ⟨y :: pre, post, by simp [e], h1, ?_⟩
      intro z hz
      rcases List.mem_cons.mp hz with e' | hz
      · subst e'; exact hb
      · exact h2 z hz
    · simp only [if_true] at h
      have := pure_ok h; cases this
      exact ⟨[], ys, rfl, hb, fun _ hz => by simp at hz⟩

theorem firstMatch_none {q : Val} : ∀ {xs : List Val},
    firstMatch q xs = .ok none → ∀ y ∈ xs, filterApplies q y = .ok false
  | [], _ => fun _ hz => by simp at hz
  | y :: ys, h => by
    simp only [firstMatch] at h
    obtain ⟨b, hb, h⟩ := bind_ok h
    cases b
    · simp only [Bool.false_eq_true, if_false] at h
      intro z hz
      rcases List.mem_cons.mp hz with e' | hz
      · subst e'; exact hb
      · exact firstMatch_none h z hz
    · simp only [if_true] at h
      have := pure_ok h; cases this

/-! ### a specification made of one operator field -/

theorem dget_dset_same (k : String) (v : Val) : ∀ l : Fields, dget k (dset k v l) = some v
  | [] => by simp [dset, dget]
  | (k', v') :: r => by
    by_cases e : k' = k
    · simp [dset, dget, e]
    · simp [dset, dget, e, dget_dset_same k v r]

theorem dget_attachId_ne {f : String} (hf : f ≠ "_id") (fs : Fields) :
    dget f (attachId fs []) = none := by
  unfold attachId
  split
  · simp [dset, dget, Ne.symm hf]
  · rfl

theorem dset_dset (k : String) (v w : Val) : ∀ l : Fields, dset k w (dset k v l) = dset k w l
  | [] => by simp [dset]
  | (k', v') :: r => by
    by_cases e : k' = k
    · simp [dset, e]
    · simp [dset, e, dset_dset k v w r]

theorem derase_dset_absent {k : String} (v : Val) : ∀ {l : Fields}, dget k l = none →
    derase k (dset k v l) = l
  | [], _ => by simp [dset, derase]
  | (k', v') :: r, h => by
    simp only [dget] at h
    split at h
    · cases h
    · next e => simp [dset, derase, e, derase_dset_absent v h]

theorem bind_pure_id {α : Type} (x : R α) : (x >>= fun a => (pure a : R α)) = x := by
  cases x <;> rfl

/-- a specification `{f: {$elemMatch: q}}`: the copy is `{_id}` and the operator is applied to
    it -/
theorem elemMatch_op_copy {fs : Fields} {f : String} {operand : Val} (hf : f ≠ "_id") :
    copyWithDict fs [(f, .doc [("$elemMatch", operand)])] =
      applyOp fs (attachId fs []) f [("$elemMatch", operand)] := by
  have e : ¬ f = "_id" := hf
  have hx : extractOps [(f, Val.doc [("$elemMatch", operand)])] =
      .ok ([(f, .doc [("$elemMatch", operand)])], []) := by
    simp [extractOps, dkeys, allowedProjectionOperators, bind, Except.bind, pure, Except.pure]
  have hka : (!(dhas "_id" [(f, Val.doc [("$elemMatch", operand)])]) &&
      onlySlices [(f, .doc [("$elemMatch", operand)])]) = false := by
    simp [onlySlices, dkeys]
  have hb : baseCopy fs [] (.int 1) false = .ok (attachId fs []) := by
    simp [baseCopy, mixedValues, pyEq, bind, Except.bind, pure, Except.pure]
  unfold copyWithDict
  simp only [dget, e, if_false, derase, Option.getD_none, hx, bind, Except.bind, applyProjOps]
  rw [hka, hb]
  dsimp only
  cases applyOp fs (attachId fs []) f [("$elemMatch", operand)] <;> rfl

theorem attachId_self (fs : Fields) : attachId fs fs = fs := by
  unfold attachId
  split
  · next v hv => exact dset_same hv
  · rfl

/-- a specification `{f: {$slice: sv}}`: the copy is the whole document and the operator is
    applied to it -/
theorem slice_op_copy {fs : Fields} {f : String} {sv : Val} (hf : f ≠ "_id") :
    copyWithDict fs [(f, .doc [("$slice", sv)])] = applyOp fs fs f [("$slice", sv)] := by
  have e : ¬ f = "_id" := hf
  have hx : extractOps [(f, Val.doc [("$slice", sv)])] =
      .ok ([(f, .doc [("$slice", sv)])], []) := by
    simp [extractOps, dkeys, allowedProjectionOperators, bind, Except.bind, pure, Except.pure]
  have hka : (!(dhas "_id" [(f, Val.doc [("$slice", sv)])]) &&
      onlySlices [(f, .doc [("$slice", sv)])]) = true := by
    simp [onlySlices, dkeys, dhas, dget, e]
  have hb : baseCopy fs [] (.int 1) true = .ok fs := by
    simp [baseCopy, mixedValues, pyEq, bind, Except.bind, pure, Except.pure, attachId_self]
  unfold copyWithDict
  simp only [dget, e, if_false, derase, Option.getD_none, hx, bind, Except.bind, applyProjOps]
  rw [hka, hb]
  dsimp only
  cases applyOp fs fs f [("$slice", sv)] <;> rfl

/-- **`$slice` through find**: `{f: {$slice: sv}}` on a document whose field `f` holds the
    array `xs` returns the document with `f` holding the stated part of `xs`, every other
    field kept as it is, in place -/
theorem slice_find {fs : Fields} {f : String} {sv : Val} {xs ys : List Val} (hf : f ≠ "_id")
    (hxs : dget f fs = some (.arr xs)) (hD : sliceReasons sv = []) (hs : slice sv xs = some ys) :
    copyOnlyFields (.doc fs) (.doc [(f, .doc [("$slice", sv)])]) =
      .ok (.doc (dset f (.arr ys) fs)) := by
  have h2 := slice_spec_some hD hs
  simp only [copyOnlyFields]
  rw [slice_op_copy hf]
  simp [applyOp, dhas, hxs, dget, h2, bind, Except.bind, pure, Except.pure, Except.map]

/-- … and the query is refused when the rule refuses the operand (`limit ≤ 0`) -/
theorem slice_find_refused {fs : Fields} {f : String} {sv : Val} {xs : List Val} (hf : f ≠ "_id")
    (hxs : dget f fs = some (.arr xs)) (hD : sliceReasons sv = []) (hs : slice sv xs = none) :
    copyOnlyFields (.doc fs) (.doc [(f, .doc [("$slice", sv)])]) = .error .opFail := by
  have h2 := slice_spec_none hD hs
  simp only [copyOnlyFields]
  rw [slice_op_copy hf]
  simp [applyOp, dhas, hxs, dget, h2, bind, Except.bind, Except.map]

/-- **`$elemMatch` through find**: `{f: {$elemMatch: q}}` returns `f` holding exactly the first
    element of the array the condition holds for, and no `f` when there is none -/
theorem elemMatch_find {fs : Fields} {f : String} {q : Val} {xs : List Val} {r : Val}
    (hf : f ≠ "_id") (hxs : dget f fs = some (.arr xs))
    (h : copyOnlyFields (.doc fs) (.doc [(f, .doc [("$elemMatch", q)])]) = .ok r) :
    ∃ o, r = .doc o ∧
      ((∃ x pre post, xs = pre ++ x :: post ∧ filterApplies q x = .ok true ∧
          (∀ y ∈ pre, filterApplies q y = .ok false) ∧ dget f o = some (.arr [x])) ∨
       ((∀ y ∈ xs, filterApplies q y = .ok false) ∧ dget f o = none)) := by
  have happ : applyOp fs (attachId fs []) f [("$elemMatch", q)] =
      (match firstMatch q xs with
       | .error e => .error e
       | .ok (some x) => .ok (dset f (.arr [x]) (attachId fs []))
       | .ok none => .ok (attachId fs [])) := by
    cases hm : firstMatch q xs with
    | error e =>
      simp [applyOp, dhas, dget_attachId_ne hf, hxs, dget, dget_dset_same, hm, bind, Except.bind,
        pure, Except.pure]
    | ok m =>
      cases m with
      | none =>
        simp [applyOp, dhas, dget_attachId_ne hf, hxs, dget, dget_dset_same, hm, bind,
          Except.bind, pure, Except.pure, derase_dset_absent _ (dget_attachId_ne hf fs)]
      | some x =>
        simp [applyOp, dhas, dget_attachId_ne hf, hxs, dget, dget_dset_same, hm, bind,
          Except.bind, pure, Except.pure, dset_dset]
  simp only [copyOnlyFields] at h
  rw [elemMatch_op_copy hf, happ] at h
  cases hm : firstMatch q xs with
  | error e => simp [hm, Except.map] at h
  | ok m =>
    cases m with
    | none =>
      simp [hm, Except.map] at h
      exact ⟨_, h.symm, Or.inr ⟨firstMatch_none hm, dget_attachId_ne hf fs⟩⟩
    | some x =>
      simp [hm, Except.map] at h
      obtain ⟨pre, post, e, h1, h2⟩ := firstMatch_some hm
      exact ⟨_, h.symm, Or.inl ⟨x, pre, post, e, h1, h2, dget_dset_same _ _ _⟩⟩

/-! ### list form -/

theorem listToDict_strs : ∀ names : List String,
    listToDict (names.map Val.str) = some (names.map (fun s => (s, Val.int 1)))
  | [] => rfl
  | s :: r => by simp [listToDict, listToDict_strs r]

/-- the list form `[f₁, …, fₙ]` is the dict form `{f₁: 1, …, fₙ: 1}` -/
theorem list_form_eq_dict_form (d : Val) (names : List String) (hn : names.Nodup) :
    copyOnlyFields d (.arr (names.map .str)) =
      copyOnlyFields d (.doc (names.map (fun s => (s, .int 1)))) := by
  cases d with
  | doc fs =>
    cases names with
    | nil => rfl
    | cons n r =>
      have hk : (dkeys (([] : Fields) ++ (n :: r).map (fun s => (s, Val.int 1)))).Nodup := by
        simpa [dkeys, List.map_map, Function.comp_def] using hn
      have := fieldsListToDict_eq ((n :: r).map Val.str) [] _ (listToDict_strs (n :: r)) hk
      simp only [List.map_cons] at this ⊢
      simp only [copyOnlyFields, this, bind, Except.bind, List.nil_append]
  | _ => cases names <;> rfl

end MongoModel.Proofs.C12
