/-
  Proofs.C04PartsYoe — the year of the 400-year era recovered from the day of the era (the step
  of `civilFromDays` that needs a case analysis over the 400 years); used by Proofs.C04Parts.
-/
import MongoModel.ExprOps
import Mathlib.Tactic.IntervalCases

namespace MongoModel.Proofs.C04

/-- the year of the era from the day of the era, when the day of the (March-based) year is one
    that year has: 0 … 364, and 365 in a year that ends with a 29th of February; the first half
    of the era … -/
theorem yoe_of_doe_lo (yoe doy doe : Int) (h0 : 0 ≤ yoe) (h1 : yoe ≤ 199) (d0 : 0 ≤ doy)
    (hleap : doy ≤ 364 ∨ (doy = 365 ∧ yoe % 4 = 3 ∧ (yoe % 100 ≠ 99 ∨ yoe = 399)))
    (hdoe : doe = yoe * 365 + yoe / 4 - yoe / 100 + doy) :
    (doe - doe / 1460 + doe / 36524 - doe / 146096) / 365 = yoe := by
  interval_cases yoe <;> omega

/-- … and the second -/
theorem yoe_of_doe_hi (yoe doy doe : Int) (h0 : 200 ≤ yoe) (h1 : yoe ≤ 399) (d0 : 0 ≤ doy)
    (hleap : doy ≤ 364 ∨ (doy = 365 ∧ yoe % 4 = 3 ∧ (yoe % 100 ≠ 99 ∨ yoe = 399)))
    (hdoe : doe = yoe * 365 + yoe / 4 - yoe / 100 + doy) :
    (doe - doe / 1460 + doe / 36524 - doe / 146096) / 365 = yoe := by
  interval_cases yoe <;> omega

theorem yoe_of_doe (yoe doy doe : Int) (h0 : 0 ≤ yoe) (h1 : yoe ≤ 399) (d0 : 0 ≤ doy)
    (hleap : doy ≤ 364 ∨ (doy = 365 ∧ yoe % 4 = 3 ∧ (yoe % 100 ≠ 99 ∨ yoe = 399)))
    (hdoe : doe = yoe * 365 + yoe / 4 - yoe / 100 + doy) :
    (doe - doe / 1460 + doe / 36524 - doe / 146096) / 365 = yoe := by
  by_cases h : yoe ≤ 199
  · exact yoe_of_doe_lo yoe doy doe h0 h d0 hleap hdoe
  · exact yoe_of_doe_hi yoe doy doe (by omega) h1 d0 hleap hdoe

end MongoModel.Proofs.C04
