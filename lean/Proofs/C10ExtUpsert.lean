/-
  Proofs.C10ExtUpsert — what an upsert reports (after library commit 1314e5d): no matched
  document, whatever `_id` the upserted document got — null included — in `UpdateResult` and in
  the counters of a bulk.
-/
import Spec.CountsExt
import Proofs.C13

namespace MongoModel.Proofs.C10Ext
open MongoModel MongoModel.Spec

/-- `UpdateResult` of a call that upserted: `matched_count` 0, `upserted_id` the stored `_id` -/
theorem upsert_out (r : UpdateResult) (id : Val) (h : r.upserted = some id) :
    updateOut r = .doc [("matched", .int 0), ("modified", .int r.nModified), ("upserted", id)] := by
  unfold updateOut
  rw [h]
  rfl

/-- an upserting `update_one` / `update_many` / `replace_one` whose filter selects nothing (on a
    collection that holds documents, without TTL index) and which succeeds: one document is
    appended, and the report is "matched 0, modified 0, upserted = the `_id` of that document" -/
theorem upsert_reports (cfg : Cfg) (now : Int) (c c' : Coll) (fs : Fields) (u : Val)
    (multi : Bool) (r : UpdateResult)
    (hne : c.docs ≠ []) (hn : c.ttlIndexes = []) (hi : IdInv c) (hg : GoodKeys c)
    (hs : selectDocs (patchDT (.doc fs)) c.docs = .ok [])
    (h : applyUpdateColl cfg now c (.doc fs) u true multi = (c', .ok r)) :
    ∃ id d, c'.docs = c.docs ++ [(id, d)] ∧ idOf d = some id ∧
      updateOut r = .doc [("matched", .int 0), ("modified", .int 0), ("upserted", id)] := by
  have he : expire now c = .ok c := by unfold expire; rw [hn]; rfl
  obtain ⟨_, h2⟩ := MongoModel.Proofs.C13.upsert_iff_no_match cfg now c c c' fs u multi [] r he hne hn
    hi hg hs h
  obtain ⟨id, d, hu, hd, hid, _, hm, _⟩ := h2 rfl
  refine ⟨id, d, hd, hid, ?_⟩
  rw [upsert_out r id hu, hm]
  rfl

/-- what a successful upserting request of a bulk adds to the totals when it upserted: nothing to
    `nMatched`; `n` (= 1) to `nUpserted`; the `_id` — null or not — under the request's index -/
theorem bulk_upsert_totals (cfg : Cfg) (now : Int) (c c' : Coll) (idx : Nat) (kind : String)
    (f u up : Val) (g : BulkTotals → BulkTotals) (res : UpdateResult) (id : Val)
    (hk : kind = "UpdateOne" ∨ kind = "UpdateMany" ∨ kind = "ReplaceOne")
    (ha : applyUpdateColl cfg now c f u (boolOf up) (kind == "UpdateMany") = (c', .ok res))
    (hid : res.upserted = some id)
    (h : bulkOne cfg now c idx (.arr [.str kind, f, u, up]) = (c', .ok g)) (t : BulkTotals) :
    (g t).nMatched = t.nMatched ∧ (g t).nUpserted = t.nUpserted + res.n ∧
    (g t).upserted = t.upserted ++ [Val.doc [("index", .int idx), ("_id", id)]] ∧
    (g t).nModified = t.nModified + res.nModified := by
  rcases hk with rfl | rfl | rfl <;>
  · unfold bulkOne at h
    simp only [show (("UpdateOne" : String) == "UpdateMany") = false by decide,
      show (("UpdateMany" : String) == "UpdateMany") = true by decide,
      show (("ReplaceOne" : String) == "UpdateMany") = false by decide] at ha
    simp only [ha, Prod.mk.injEq, BulkOut.ok.injEq, true_and] at h
    subst h
    simp [hid]

/-- the witness of the repaired finding `upsert-null-id-matched`: on a collection holding
    `{_id: 1}`, `update_one({_id: null}, {$set: {a: 1}}, upsert=True)` stores `{_id: null, a: 1}`
    and reports matched 0, upserted null; as a bulk request it counts as one upsert -/
theorem null_id_upsert_witness :
    let c : Coll := { docs := [(.int 1, .doc [("_id", .int 1)])], forceCreated := true }
    (match stepColl {} 0 c (.arr [.str "update_one", .doc [("_id", .null)],
        .doc [("$set", .doc [("a", .int 1)])], .bool true]) with
     | (c', .val out) =>
       out == .doc [("matched", .int 0), ("modified", .int 0), ("upserted", .null)] &&
       c'.docs.map (·.2) == [.doc [("_id", .int 1)], .doc [("_id", .null), ("a", .int 1)]]
     | _ => false) = true ∧
    (match bulkWrite {} 0 c [.arr [.str "UpdateOne", .doc [("_id", .null)],
        .doc [("$set", .doc [("a", .int 1)])], .bool true]] true with
     | (_, .val (.doc t)) =>
       dget "nMatched" t == some (.int 0) && dget "nUpserted" t == some (.int 1) &&
       dget "upserted" t == some (.arr [.doc [("index", .int 0), ("_id", .null)]])
     | _ => false) = true := by
  decide +kernel

end MongoModel.Proofs.C10Ext
