/-
  Proofs.C06 — lemmas and proofs behind Props/C06.lean.
-/
import Spec.Unique

namespace MongoModel.Proofs.C06
open MongoModel MongoModel.Spec

theorem init_uniq : UniqInv ({} : Coll) := by sorry

theorem step_uniq_inv (cfg : Cfg) (now : Int) (c : Coll) (op : Val)
    (hu : UniqInv c) (hs : ScalarInv c) (hs' : ScalarInv (stepColl cfg now c op).1) :
    UniqInv (stepColl cfg now c op).1 := by sorry

theorem dup_write_rejected (now : Int) (c : Coll) (d : Val) (ix : Index) (p : Val × Val)
    (hs : ScalarInv c) (hix : ix ∈ c.indexes) (hu : ix.unique = true) (hnt : c.ttlIndexes = [])
    (hp : p ∈ c.docs) (hcp : covers ix p.2 = true) (hcd : covers ix (patchDT d) = true)
    (hsd : scalarKeys ix (patchDT d) = true)
    (heq : keyEq (keyVals ix p.2) (keyVals ix (patchDT d)) = true)
    (hid : ∃ fs, d = .doc fs ∧ dhas "_id" fs = true) :
    ∃ e, insertDoc now c d = .error e ∧ e.isWriteError = true := by sorry

theorem create_over_dups_fails_clean (now : Int) (c : Coll) (ix : Index) (a b : Val × Val)
    (hu : ix.unique = true) (hnt : c.ttlIndexes = []) (hnew : ∀ i ∈ c.indexes, i.name ≠ ix.name)
    (hsc : ∀ p ∈ c.docs, scalarKeys ix p.2 = true) (hpf : ix.partialFilter = none)
    (hns : ix.sparse = false)
    (hab : [a, b].Sublist c.docs)
    (heq : keyEq (keyVals ix a.2) (keyVals ix b.2) = true) :
    (createIndexColl now c ix).2 = .error .dupKey ∧
    (createIndexColl now c ix).1.indexes = c.indexes := by sorry

theorem create_establishes_uniq (now : Int) (c c' : Coll) (ix : Index) (name : String)
    (hu : ix.unique = true) (hsc : ∀ p ∈ c.docs, scalarKeys ix p.2 = true)
    (hpf : ix.partialFilter = none) (hns : ix.sparse = false)
    (h : createIndexColl now c ix = (c', .ok name)) :
    c'.docs.Pairwise (fun a b => keyEq (keyVals ix a.2) (keyVals ix b.2) = false) := by sorry

end MongoModel.Proofs.C06
