/-
  Proofs.C06 — proofs behind Props/C06.lean.

  The unrestricted `step_uniq_inv` and the first formulation of `dup_write_rejected`
  (conclusion: a WriteError) are FALSE of the model: `Proofs/C06Check.lean` (`step_uniq_false`,
  `dup_write_writeError_false`).  What is proved:

  * `step_uniq_inv_alt` — on the value-key domain (`ValueInv` of the resulting state), with no
    other hypothesis; behind it `step_carried`: the invariant `UniqS` ("uniqueness among the
    value-keyed, covered documents") is preserved by every operation with no hypothesis on the
    documents at all, hence `reachable_uniq_alt` for whole histories;
  * `dup_write_rejected_alt` (always rejected) and `dup_write_rejected_dupkey_alt` (with
    DuplicateKeyError under three more hypotheses);
  * `create_over_dups_fails_clean`, `create_establishes_uniq` as first stated.

  (Until library commit a320edd `_apply_update` stored an edited document that is `==` to the old
  one without `_ensure_uniques`; the step theorem then needed `KeysDistinctSym`, `PfStable` and
  `WfDocs`, and was false without them: `Proofs/C06Check.lean`, `ptsColl`.)

  Files: C06Scalar (`==` on scalars), C06Bridge (the query of `_ensure_uniques` is key equality),
  C06Ensure (`_ensure_uniques`), C06Pairs (`UniqS`), C06Ops / C06Create / C06Update / C06Step
  (the operations), C06Extra, C06Check.
-/
import Spec.Unique
import Proofs.C06Check

set_option linter.unusedSimpArgs false

namespace MongoModel.Proofs.C06
open MongoModel MongoModel.Spec MongoModel.Proofs.C06Lemmas

theorem init_uniq : UniqInv ({} : Coll) := by
  intro ix hix; cases hix

/-! ### one operation -/

/-- the carried invariant: no hypothesis on the documents, before or after -/
theorem step_carried (cfg : Cfg) (now : Int) (c : Coll) (op : Val) (hU : UniqS c) :
    UniqS (stepColl cfg now c op).1 :=
  step_uniqS cfg now c op hU

theorem step_uniq_inv_alt (cfg : Cfg) (now : Int) (c : Coll) (op : Val)
    (hu : UniqInv c) (hs' : ValueInv (stepColl cfg now c op).1) :
    UniqInv (stepColl cfg now c op).1 :=
  uniqInv_of_uniqS (step_uniqS cfg now c op (uniqS_of_uniqInv hu)) hs'

/-- the hypotheses of `step_uniq_inv_alt`, checked by evaluation -/
theorem step_uniq_inv_check (cfg : Cfg) (now : Int) (c : Coll) (op : Val)
    (h : (uniqB c && valB (stepColl cfg now c op).1) = true) :
    UniqInv (stepColl cfg now c op).1 := by
  simp only [Bool.and_eq_true] at h
  exact step_uniq_inv_alt cfg now c op ((uniqB_iff c).1 h.1) ((valB_iff _).1 h.2)

/-! ### histories -/

/-- the state component of `run` -/
def runSt (cfg : Cfg) (ops : List Val) (s : St) : St :=
  ops.foldl (fun s op => (observe (step cfg s op).1).1) s

theorem run_snd (cfg : Cfg) (ops : List Val) (s : St) : (run cfg ops s).2 = runSt cfg ops s := by
  unfold run runSt
  have : ∀ (ops : List Val) (acc : List (Out × Val)) (s : St),
      (ops.foldl (fun (acc : List (Out × Val) × St) op =>
        let (s1, out) := step cfg acc.2 op
        let (s2, obs) := observe s1
        (acc.1 ++ [(out, obs)], s2)) (acc, s)).2 =
      ops.foldl (fun s op => (observe (step cfg s op).1).1) s := by
    intro ops
    induction ops with
    | nil => intro acc s; rfl
    | cons op ops ih => intro acc s; simp only [List.foldl_cons]; exact ih _ _
  exact this ops [] s

theorem step_st_carried (cfg : Cfg) (s : St) (op : Val) (hU : UniqS s.c) :
    UniqS (step cfg s op).1.c := by
  unfold step
  split
  · exact hU
  · exact step_uniqS cfg s.now s.c op hU

theorem observe_carried (s : St) (hU : UniqS s.c) : UniqS (observe s).1.c := by
  unfold observe
  split
  · rename_i c' h; exact hU.sub (sub_expire h)
  · exact hU

theorem runSt_carried (cfg : Cfg) : ∀ (ops : List Val) (s : St), UniqS s.c →
    UniqS (runSt cfg ops s).c := by
  intro ops
  induction ops with
  | nil => intro s hU; exact hU
  | cons op ops ih =>
    intro s hU
    have hU1 : UniqS (observe (step cfg s op).1).1.c :=
      observe_carried _ (step_st_carried cfg s op hU)
    have := ih (observe (step cfg s op).1).1 hU1
    simpa [runSt] using this

theorem reachable_uniq_alt (cfg : Cfg) (ops : List Val)
    (hs : ValueInv (run cfg ops).2.c) : UniqInv (run cfg ops).2.c := by
  refine uniqInv_of_uniqS ?_ hs
  rw [run_snd]
  exact runSt_carried cfg ops {} (fun ix hix => by cases hix)

/-- the hypothesis of `reachable_uniq_alt`, checked by evaluation on a concrete history -/
theorem reachable_uniq_check (cfg : Cfg) (ops : List Val)
    (h : valB (run cfg ops).2.c = true) : UniqInv (run cfg ops).2.c :=
  reachable_uniq_alt cfg ops ((valB_iff _).1 h)

/-! ### a duplicate write is rejected -/

theorem dup_write_rejected_alt (now : Int) (c : Coll) (d : Val) (ix : Index) (p : Val × Val)
    (hs : ValueInv c) (hix : ix ∈ c.indexes) (hu : ix.unique = true) (hnt : c.ttlIndexes = [])
    (hp : p ∈ c.docs) (hcp : covers ix p.2 = true) (hcd : covers ix (patchDT d) = true)
    (hsd : valueKeys ix (patchDT d) = true)
    (heq : keyEq (keyVals ix p.2) (keyVals ix (patchDT d)) = true)
    (hid : ∃ fs, d = .doc fs ∧ dhas "_id" fs = true) :
    ∃ e, insertDoc now c d = .error e := by
  obtain ⟨fs, rfl, hid⟩ := hid
  obtain ⟨hdf, hsc⟩ := hs ix hix hu
  cases h : insertDoc now c (.doc fs) with
  | error e => exact ⟨e, rfl⟩
  | ok r =>
    obtain ⟨c', id⟩ := r
    exact absurd h (insert_dup_rejected now c fs ix p hdf (hsc p hp) hix hu hnt hp hcp hcd hsd heq
      hid c' id)

theorem dup_write_rejected_dupkey_alt (now : Int) (c : Coll) (d : Val) (ix : Index) (p : Val × Val)
    (hs : ValueInv c) (hix : ix ∈ c.indexes) (hu : ix.unique = true) (hnt : c.ttlIndexes = [])
    (hp : p ∈ c.docs) (hcp : covers ix p.2 = true) (hcd : covers ix (patchDT d) = true)
    (hsd : valueKeys ix (patchDT d) = true)
    (heq : keyEq (keyVals ix p.2) (keyVals ix (patchDT d)) = true)
    (hid : ∃ fs, d = .doc fs ∧ dhas "_id" fs = true)
    (hk : ∃ k, storeKey (idOfDoc (patchDT d)) = .ok k)
    (hone : ∀ i ∈ c.indexes, i.unique = true → i = ix)
    (hpf : ∀ f, ix.partialFilter = some f → ∀ q ∈ c.docs, ∃ b, filterApplies f q.2 = .ok b) :
    insertDoc now c d = .error .dupKey := by
  obtain ⟨fs, rfl, hid⟩ := hid
  obtain ⟨k, hk⟩ := hk
  obtain ⟨hdf, hsc⟩ := hs ix hix hu
  exact insert_dup_dupKey now c fs ix p k hdf hsc hix hu hnt hp hcp hcd hsd heq hid hk hone hpf

/-! ### `create_index` -/

theorem create_over_dups_fails_clean (now : Int) (c : Coll) (ix : Index) (a b : Val × Val)
    (hu : ix.unique = true) (hnt : c.ttlIndexes = []) (hnew : ∀ i ∈ c.indexes, i.name ≠ ix.name)
    (hsc : ∀ p ∈ c.docs, valueKeys ix p.2 = true) (hpf : ix.partialFilter = none)
    (hns : ix.sparse = false)
    (hab : [a, b].Sublist c.docs)
    (heq : keyEq (keyVals ix a.2) (keyVals ix b.2) = true) :
    (createIndexColl now c ix).2 = .error .dupKey ∧
    (createIndexColl now c ix).1.indexes = c.indexes := by
  rw [create_over_dups now c ix a b hu hnt hnew hsc hpf hns hab heq]
  exact ⟨rfl, rfl⟩

theorem create_establishes_uniq (now : Int) (c c' : Coll) (ix : Index) (name : String)
    (hu : ix.unique = true) (hpf : ix.partialFilter = none) (hns : ix.sparse = false)
    (h : createIndexColl now c ix = (c', .ok name)) :
    c'.docs.Pairwise (fun a b => keyEq (keyVals ix a.2) (keyVals ix b.2) = false) :=
  create_pairwise hu hpf hns h

/-- for any unique index (sparse, partial): a successful creation leaves no two covered
    documents with equal keys -/
theorem create_establishes_uniq_covered (now : Int) (c c' : Coll) (ix : Index) (name : String)
    (hu : ix.unique = true) (h : createIndexColl now c ix = (c', .ok name)) :
    (c'.docs.filter (fun p => covers ix p.2)).Pairwise
      (fun a b => keyEq (keyVals ix a.2) (keyVals ix b.2) = false) := by
  obtain ⟨c1, hpre, hd⟩ := createIndex_ok_shape h
  obtain ⟨_, hp⟩ := preCreate_ok hpre
  rw [hd, List.pairwise_iff_forall_sublist]
  intro a b hab
  obtain ⟨hab', ca, cb⟩ := sublist_pair_filter.1 hab
  exact (precheck_ok ix c1.docs [] (hp hu)).2 a b hab' ca cb

/-! ### the unrestricted statements fail -/

theorem step_uniq_inv_full_false :
    ¬ (∀ (cfg : Cfg) (now : Int) (c : Coll) (op : Val), UniqInv c → UniqInv (stepColl cfg now c op).1) :=
  step_uniq_false

end MongoModel.Proofs.C06
