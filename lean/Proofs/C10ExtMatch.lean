/-
  Proofs.C10ExtMatch — the aggregation `$match` stage over the stored documents is `find`.
-/
import Spec.CountsExt
import Proofs.C10
import Proofs.C03Stages

namespace MongoModel.Proofs.C10Ext
open MongoModel MongoModel.Spec
open MongoModel.Proofs.C10Lemmas MongoModel.Proofs.C09Lemmas

/-- the scan on a collection the expiry pass leaves empty: the filter is validated on `{}` -/
theorem iter_empty (now : Int) (c c1 : Coll) (f : Val) (he : expire now c = .ok c1)
    (hemp : c1.docs = []) :
    iterDocuments now c f =
      match filterApplies f (.doc []) with
      | .error e => .error e
      | .ok _ => .ok (c1, []) := by
  simp only [iterDocuments]
  rw [he]
  simp only [bind, Except.bind, hemp, List.isEmpty_nil, if_true]
  cases filterApplies f (.doc []) with
  | error e => rfl
  | ok b =>
    dsimp only
    rw [expire_idem now c c1 he]
    simp only [hemp, List.filterMapM_nil, pure, Except.pure]

theorem find_empty (now : Int) (c c1 : Coll) (fs : Fields) (he : expire now c = .ok c1)
    (hemp : c1.docs = []) :
    (findColl now c (.doc fs)).2 =
      match filterApplies (patchDT (.doc fs)) (.doc []) with
      | .error e => .error e
      | .ok _ => .ok [] := by
  simp only [findColl]
  rw [iter_empty now c c1 _ he hemp]
  cases filterApplies (patchDT (.doc fs)) (.doc []) <;> rfl

theorem aggregate_match_eq_find (now : Int) (c c1 : Coll) (fs : Fields)
    (he : expire now c = .ok c1) (hn : ∀ p ∈ c1.docs, patch p.2 = p.2) :
    Pipe.matchStage (.doc fs) (c1.docs.map (·.2)) = (findColl now c (.doc fs)).2 := by
  have hn' : ∀ d ∈ c1.docs.map (·.2), patch d = d := by
    intro d hd
    obtain ⟨p, hp, rfl⟩ := List.mem_map.1 hd
    exact hn p hp
  rw [Pipe.Proofs.matchStage_eq_findDocs _ _ hn']
  by_cases hemp : c1.docs = []
  · rw [find_empty now c c1 fs he hemp, hemp]
    rfl
  · rw [MongoModel.Proofs.C10.find_is_selection now c c1 fs he hemp,
      Pipe.Proofs.selectDocs_eq_filterR]
    cases hd : c1.docs with
    | nil => exact absurd hd hemp
    | cons p ps => rfl

/-- … in C10's terms: `$match` selects with the shared match relation -/
theorem aggregate_match_is_selection (now : Int) (c c1 : Coll) (fs : Fields)
    (he : expire now c = .ok c1) (hne : c1.docs ≠ []) (hn : ∀ p ∈ c1.docs, patch p.2 = p.2) :
    Pipe.matchStage (.doc fs) (c1.docs.map (·.2)) =
      (selectDocs (patchDT (.doc fs)) c1.docs).map (·.map (·.2)) := by
  rw [aggregate_match_eq_find now c c1 fs he hn,
    MongoModel.Proofs.C10.find_is_selection now c c1 fs he hne]

end MongoModel.Proofs.C10Ext
