/-
  Proofs.C02Ext — proofs of the "whole update = its entries, pointwise" theorems of
  Props/C02.lean: `update_is_pointwise`, `update_error_of_entry`, `update_error_iff`,
  `update_order_irrelevant`, `update_order_success`.
-/
import Proofs.C02
import Proofs.C02ExtFlat

set_option linter.unusedSimpArgs false
set_option linter.unusedVariables false

namespace MongoModel.Proofs.C02Lemmas
open MongoModel MongoModel.Spec

theorem any_of_all_ne {u : Fields} (hu : u.all (fun kv => kv.1.startsWith "$") = true)
    (hne : u ≠ []) : u.any (fun kv => kv.1.startsWith "$") = true := by
  cases u with
  | nil => exact absurd rfl hne
  | cons kv r =>
    simp only [List.all_cons, Bool.and_eq_true] at hu
    simp [hu.1]

/-- a non-empty operator update runs its operators one after the other -/
theorem applyUpdate_whole (spec now : Val) (wi : Bool) (u : Fields) (d : Val)
    (hu : u.all (fun kv => kv.1.startsWith "$") = true) (hne : u ≠ [])
    (hpos : positionalUpdate u = false) :
    applyUpdate spec (.doc u) now wi d =
      u.foldlM (fun acc kv => opRun spec now wi kv.1 kv.2 acc) d := by
  have hw := any_of_all_ne hu hne
  cases u with
  | nil => exact absurd rfl hne
  | cons kv r =>
    simp only [applyUpdate, hpos, Bool.false_eq_true, if_false]
    exact applyOps_eq spec now wi _ hw _ true d

/-- an update is positional exactly when one of its entries is -/
def posEntry (e : Entry) : Bool := positionalOperators.contains e.1 && hasDollarPart e.2.1

theorem positionalUpdate_entries : ∀ (u : Fields),
    positionalUpdate u = (entries u).any posEntry
  | [] => rfl
  | (k, v) :: rest => by
    rw [entries_cons, List.any_append, ← positionalUpdate_entries rest]
    simp only [positionalUpdate, List.any_cons]
    congr 1
    cases v with
    | doc body =>
      simp only [entriesOf, List.any_map]
      cases hc : positionalOperators.contains k
      · have hm : k ∉ positionalOperators := by simpa using hc
        simp [posEntry, Function.comp_def, hm]
      · have hm : k ∈ positionalOperators := by simpa using hc
        simp [posEntry, Function.comp_def, hm]
    | _ => simp [entriesOf]

theorem positionalUpdate_single (e : Entry) : positionalUpdate (single e) = posEntry e := by
  simp [positionalUpdate, single, posEntry]

theorem single_not_positional {u : Fields} (hpos : positionalUpdate u = false) {e : Entry}
    (he : e ∈ entries u) : positionalUpdate (single e) = false := by
  rw [positionalUpdate_single]
  rw [positionalUpdate_entries, List.any_eq_false] at hpos
  simpa using hpos e he

theorem positionalUpdate_perm {u u' : Fields} (hp : (entries u).Perm (entries u')) :
    positionalUpdate u' = positionalUpdate u := by
  rw [positionalUpdate_entries, positionalUpdate_entries]
  cases h : (entries u).any posEntry with
  | true =>
    obtain ⟨e, he, hpe⟩ := List.any_eq_true.mp h
    exact List.any_eq_true.mpr ⟨e, hp.mem_iff.mp he, hpe⟩
  | false =>
    rw [List.any_eq_false] at h ⊢
    intro e he
    exact h e (hp.mem_iff.mpr he)

theorem entries_key_mem {u : Fields} {e : Entry} (he : e ∈ entries u) :
    ∃ v, (e.1, v) ∈ u := by
  simp only [entries, List.mem_flatMap] at he
  obtain ⟨kv, hkv, hin⟩ := he
  obtain ⟨k, v⟩ := kv
  cases v with
  | doc body =>
    simp only [List.mem_map] at hin
    obtain ⟨fv, _, rfl⟩ := hin
    exact ⟨_, hkv⟩
  | _ => simp at hin

theorem entries_dollar {u : Fields} (hu : u.all (fun kv => kv.1.startsWith "$") = true)
    {e : Entry} (he : e ∈ entries u) : e.1.startsWith "$" = true := by
  obtain ⟨v, hv⟩ := entries_key_mem he
  exact List.all_eq_true.mp hu _ hv

theorem operatorNames_dollar {k : String} (hk : operatorNames.contains k = true) :
    k.startsWith "$" = true := by
  simp only [operatorNames, List.contains_cons, List.contains_nil, Bool.or_false,
    Bool.or_eq_true, beq_iff_eq] at hk
  rcases hk with h | h | h | h | h | h | h | h | h | h | h | h | h <;> subst h <;> decide +kernel

theorem wellShaped_dollar {u : Fields} (hs : wellShaped u = true) :
    u.all (fun kv => kv.1.startsWith "$") = true := by
  simp only [wellShaped, List.all_eq_true, Bool.and_eq_true] at hs ⊢
  intro kv hkv
  exact operatorNames_dollar (hs kv hkv).1

theorem err_iff_of_ok_iff {x y : R Val} (h : ∀ r, x = .ok r ↔ y = .ok r) :
    (∃ e, x = .error e) ↔ ∃ e, y = .error e := by
  cases x with
  | ok r =>
    rw [(h r).mp rfl]
  | error e =>
    cases y with
    | ok r => exact absurd ((h r).mpr rfl) (by simp)
    | error e' => simp

theorem proj_absent {k : String} : ∀ {fs : Fields}, k ∉ dkeys fs → proj k fs = []
  | [], _ => rfl
  | (k', v) :: r, h => by
    simp only [dkeys, List.map_cons, List.mem_cons, not_or] at h
    have e : ¬ k' = k := fun e => h.1 e.symm
    rw [proj_cons]
    simp only [e, if_false]
    exact proj_absent (fs := r) h.2

/-- without duplicate keys the entries under `k` are the one `dget` finds -/
theorem proj_of_nodup (k : String) : ∀ {fs : Fields}, (dkeys fs).Nodup →
    proj k fs = (match dget k fs with | some v => [(k, v)] | none => [])
  | [], _ => rfl
  | (k', v) :: r, h => by
    simp only [dkeys, List.map_cons, List.nodup_cons] at h
    rw [proj_cons]
    by_cases e : k' = k
    · subst e
      simp only [if_true, dget, proj_absent (fs := r) h.1]
    · simp only [e, if_false, dget]
      exact proj_of_nodup k (fs := r) h.2

end MongoModel.Proofs.C02Lemmas

namespace MongoModel.Proofs.C02
open MongoModel MongoModel.Spec MongoModel.Proofs.C02Lemmas

theorem entry_reads_only_its_fields (spec now : Val) (wasInsert : Bool) (e : Entry)
    (fs gs : Fields) (he : e.1.startsWith "$" = true)
    (hpos : positionalUpdate (single e) = false)
    (hk : (dkeys fs).Nodup) (hk' : (dkeys gs).Nodup)
    (hag : ∀ k, k ∈ addressed (single e) → dget k fs = dget k gs) :
    (∀ err, applyUpdate spec (.doc (single e)) now wasInsert (.doc fs) = .error err →
      applyUpdate spec (.doc (single e)) now wasInsert (.doc gs) = .error err) ∧
    (∀ fs', applyUpdate spec (.doc (single e)) now wasInsert (.doc fs) = .ok (.doc fs') →
      ∃ gs', applyUpdate spec (.doc (single e)) now wasInsert (.doc gs) = .ok (.doc gs') ∧
        ∀ k, k ∈ addressed (single e) → dget k fs' = dget k gs') := by
  rw [applyUpdate_single spec now wasInsert e _ he hpos,
    applyUpdate_single spec now wasInsert e _ he hpos]
  rw [addressed_single] at hag ⊢
  have ha : Agree (eheads e) fs gs := by
    intro k hkm
    rw [proj_of_nodup k hk, proj_of_nodup k hk', hag k hkm]
  have hr := estep_local spec now wasInsert e fs gs ha
  beta_reduce at hr
  generalize estep spec now wasInsert (.doc fs) e = x at hr ⊢
  generalize estep spec now wasInsert (.doc gs) e = y at hr ⊢
  cases hr with
  | err e0 =>
    exact ⟨(fun err h => h), (fun fs' h => by cases h)⟩
  | ok fs1 gs1 hag1 _ _ =>
    refine ⟨(fun err h => by cases h), (fun fs' h => ?_)⟩
    cases h
    exact ⟨gs1, rfl, fun k hkm => hag1.dget hkm⟩

theorem update_is_pointwise (spec now : Val) (wasInsert : Bool) (u fs fs' : Fields)
    (hu : u.all (fun kv => kv.1.startsWith "$") = true) (hne : u ≠ [])
    (hpos : positionalUpdate u = false) (hd : (addressed u).Nodup)
    (h : applyUpdate spec (.doc u) now wasInsert (.doc fs) = .ok (.doc fs')) :
    ∀ e, e ∈ entries u → ∃ fs₁,
      applyUpdate spec (.doc (single e)) now wasInsert (.doc fs) = .ok (.doc fs₁) ∧
      ∀ k, k ∈ addressed (single e) → dget k fs' = dget k fs₁ := by
  rw [applyUpdate_whole spec now wasInsert u _ hu hne hpos] at h
  have hflat := flat_ok spec now wasInsert u _ _ h
  rw [addressed_entries] at hd
  obtain ⟨fs'', e', hall⟩ := fold_pointwise (estep spec now wasInsert) eheads (entries u)
    (fun s _ => estep_local spec now wasInsert s) hd fs fs _ (Agree.refl _ _) hflat
  cases e'
  intro e he
  obtain ⟨gs1, h1, hag⟩ := hall e he
  refine ⟨gs1, ?_, ?_⟩
  · rw [applyUpdate_single spec now wasInsert e _ (entries_dollar hu he)
      (single_not_positional hpos he)]; exact h1
  · intro k hk
    rw [addressed_single] at hk
    exact hag.dget hk

theorem update_error_of_entry (spec now : Val) (wasInsert : Bool) (u fs : Fields)
    (hu : u.all (fun kv => kv.1.startsWith "$") = true) (hne : u ≠ [])
    (hpos : positionalUpdate u = false) (hd : (addressed u).Nodup) (e : Entry) (he : e ∈ entries u) (err : Err)
    (h : applyUpdate spec (.doc (single e)) now wasInsert (.doc fs) = .error err) :
    ∃ err', applyUpdate spec (.doc u) now wasInsert (.doc fs) = .error err' := by
  rw [applyUpdate_single spec now wasInsert e _ (entries_dollar hu he)
    (single_not_positional hpos he)] at h
  rw [addressed_entries] at hd
  obtain ⟨err1, h1⟩ := (fold_error_iff (estep spec now wasInsert) eheads (entries u)
    (fun s _ => estep_local spec now wasInsert s) hd fs fs (Agree.refl _ _)).mpr
    ⟨e, he, err, h⟩
  rw [applyUpdate_whole spec now wasInsert u _ hu hne hpos]
  cases hx : u.foldlM (fun acc kv => opRun spec now wasInsert kv.1 kv.2 acc) (.doc fs) with
  | error e' => exact ⟨e', rfl⟩
  | ok r =>
    rw [flat_ok spec now wasInsert u _ _ hx] at h1
    cases h1

theorem update_error_iff (spec now : Val) (wasInsert : Bool) (u fs : Fields) (hne : u ≠ [])
    (hs : wellShaped u = true) (hpos : positionalUpdate u = false) (hd : (addressed u).Nodup) :
    (∃ err, applyUpdate spec (.doc u) now wasInsert (.doc fs) = .error err) ↔
      ∃ e, e ∈ entries u ∧
        ∃ err, applyUpdate spec (.doc (single e)) now wasInsert (.doc fs) = .error err := by
  have hu := wellShaped_dollar hs
  constructor
  · intro h
    rw [applyUpdate_whole spec now wasInsert u _ hu hne hpos] at h
    have h2 := (err_iff_of_ok_iff (fun r =>
      ⟨flat_ok spec now wasInsert u (.doc fs) r, flat_ok_conv spec now wasInsert u (.doc fs) r hs⟩)).mp h
    rw [addressed_entries] at hd
    obtain ⟨e, he, err, h3⟩ := (fold_error_iff (estep spec now wasInsert) eheads (entries u)
      (fun s _ => estep_local spec now wasInsert s) hd fs fs (Agree.refl _ _)).mp h2
    refine ⟨e, he, err, ?_⟩
    rw [applyUpdate_single spec now wasInsert e _ (entries_dollar hu he)
      (single_not_positional hpos he)]; exact h3
  · rintro ⟨e, he, err, h⟩
    exact update_error_of_entry spec now wasInsert u fs hu hne hpos hd e he err h

theorem update_order_irrelevant (spec now : Val) (wasInsert : Bool) (u u' fs fs' fs'' : Fields)
    (hu : u.all (fun kv => kv.1.startsWith "$") = true) (hne : u ≠ [])
    (hu' : u'.all (fun kv => kv.1.startsWith "$") = true) (hne' : u' ≠ [])
    (hpos : positionalUpdate u = false)
    (hd : (addressed u).Nodup) (hp : (entries u).Perm (entries u'))
    (h : applyUpdate spec (.doc u) now wasInsert (.doc fs) = .ok (.doc fs'))
    (h' : applyUpdate spec (.doc u') now wasInsert (.doc fs) = .ok (.doc fs'')) :
    ∀ k, dget k fs' = dget k fs'' := by
  have hpa : (addressed u).Perm (addressed u') := by
    rw [addressed_entries, addressed_entries]; exact hp.flatMap_right _
  have hd' : (addressed u').Nodup := hpa.nodup hd
  have hpos' : positionalUpdate u' = false := by rw [positionalUpdate_perm hp]; exact hpos
  intro k
  by_cases hk : k ∈ addressed u
  · rw [addressed_entries, List.mem_flatMap] at hk
    obtain ⟨e, he, hke⟩ := hk
    rw [← addressed_single] at hke
    obtain ⟨fs1, h1, hg1⟩ := update_is_pointwise spec now wasInsert u fs fs' hu hne hpos hd h e he
    obtain ⟨fs2, h2, hg2⟩ := update_is_pointwise spec now wasInsert u' fs fs'' hu' hne' hpos' hd' h' e
      (hp.mem_iff.mp he)
    rw [h1] at h2; cases h2
    rw [hg1 k hke, hg2 k hke]
  · have hk' : k ∉ addressed u' := fun h => hk (hpa.mem_iff.mpr h)
    rw [untouched_fields spec now wasInsert u fs fs' hu hne h k hk,
      untouched_fields spec now wasInsert u' fs fs'' hu' hne' h' k hk']

theorem update_order_success (spec now : Val) (wasInsert : Bool) (u u' fs fs' : Fields)
    (hu : u.all (fun kv => kv.1.startsWith "$") = true) (hne : u ≠ []) (hne' : u' ≠ [])
    (hs' : wellShaped u' = true) (hpos : positionalUpdate u = false)
    (hd : (addressed u).Nodup) (hp : (entries u).Perm (entries u'))
    (h : applyUpdate spec (.doc u) now wasInsert (.doc fs) = .ok (.doc fs')) :
    ∃ fs'', applyUpdate spec (.doc u') now wasInsert (.doc fs) = .ok (.doc fs'') := by
  have hpa : (addressed u).Perm (addressed u') := by
    rw [addressed_entries, addressed_entries]; exact hp.flatMap_right _
  have hd' : (addressed u').Nodup := hpa.nodup hd
  have hpos' : positionalUpdate u' = false := by rw [positionalUpdate_perm hp]; exact hpos
  cases hx : applyUpdate spec (.doc u') now wasInsert (.doc fs) with
  | ok r =>
    obtain ⟨fs'', rfl⟩ := update_stays_document spec now wasInsert u' fs r
      (wellShaped_dollar hs') hne' hx
    exact ⟨fs'', rfl⟩
  | error err =>
    obtain ⟨e, he, err1, h1⟩ := (update_error_iff spec now wasInsert u' fs hne' hs' hpos' hd').mp
      ⟨err, hx⟩
    obtain ⟨err2, h2⟩ := update_error_of_entry spec now wasInsert u fs hu hne hpos hd e
      (hp.mem_iff.mpr he) err1 h1
    rw [h] at h2; cases h2

end MongoModel.Proofs.C02
