/-
  Proofs.C02Validate — `_validate_update_operators` (`MongoModel.validateOps`): the walk only looks
  at keys, refuses every unknown `$operator`, and passes exactly the updates made of known
  operators and the replacement documents.
-/
import MongoModel.Update

set_option linter.unusedVariables false
set_option linter.unusedSimpArgs false

namespace MongoModel.Proofs.C02Lemmas
open MongoModel

/-! ### `_validate_update_operators` -/

/-- the walk only looks at keys -/
theorem validateOpsFrom_keys (whole whole' : Fields) (hw : dkeys whole = dkeys whole') :
    ∀ (u u' : Fields) (b : Bool), dkeys u = dkeys u' →
      validateOpsFrom whole u b = validateOpsFrom whole' u' b := by
  have hany : whole.any (fun kv => kv.1.startsWith "$") = whole'.any (fun kv => kv.1.startsWith "$") := by
    have e : ∀ l : Fields, l.any (fun kv => kv.1.startsWith "$") =
        (dkeys l).any (fun k => k.startsWith "$") := by
      intro l; simp [dkeys, List.any_map, Function.comp_def]
    rw [e, e, hw]
  intro u
  induction u with
  | nil =>
    intro u' b h
    cases u' with
    | nil => rfl
    | cons p r => simp [dkeys] at h
  | cons p r ih =>
    intro u' b h
    cases u' with
    | nil => simp [dkeys] at h
    | cons p' r' =>
      obtain ⟨k, v⟩ := p
      obtain ⟨k', v'⟩ := p'
      simp only [dkeys, List.map_cons, List.cons.injEq] at h
      obtain ⟨rfl, hr⟩ := h
      simp only [validateOpsFrom]
      rw [ih r' false hr, hany]

theorem validateOps_keys (u u' : Fields) (h : dkeys u = dkeys u') : validateOps u = validateOps u' :=
  validateOpsFrom_keys u u' h u u' true h

/-- behind the first position any unknown key is refused -/
theorem validateOpsFrom_later (whole : Fields) : ∀ (u : Fields),
    (∃ k ∈ dkeys u, knownOperator k = false) → validateOpsFrom whole u false = .error .valueErr := by
  intro u
  induction u with
  | nil => rintro ⟨k, hk, _⟩; simp [dkeys] at hk
  | cons p r ih =>
    obtain ⟨k0, v0⟩ := p
    rintro ⟨k, hk, hu⟩
    simp only [validateOpsFrom]
    cases hk0 : knownOperator k0 with
    | false => simp
    | true =>
      simp only [if_true]
      simp only [dkeys, List.map_cons, List.mem_cons] at hk
      rcases hk with rfl | hk
      · rw [hk0] at hu; cases hu
      · exact ih ⟨k, hk, hu⟩

theorem validateOpsFrom_known (whole : Fields) : ∀ (u : Fields) (b : Bool),
    u.all (fun kv => knownOperator kv.1) = true → validateOpsFrom whole u b = .ok () := by
  intro u
  induction u with
  | nil => intro b _; rfl
  | cons p r ih =>
    obtain ⟨k0, v0⟩ := p
    intro b h
    simp only [List.all_cons, Bool.and_eq_true] at h
    simp only [validateOpsFrom, h.1, if_true]
    exact ih false h.2

/-- **an unknown `$operator` anywhere in the update is refused** -/
theorem validateOps_unknown (u : Fields) (k : String) (hk : k ∈ dkeys u)
    (hd : k.startsWith "$" = true) (hu : knownOperator k = false) :
    validateOps u = .error .valueErr := by
  unfold validateOps
  cases u with
  | nil => simp [dkeys] at hk
  | cons p r =>
    obtain ⟨k0, v0⟩ := p
    have hany : ((k0, v0) :: r).any (fun kv => kv.1.startsWith "$") = true := by
      simp only [dkeys, List.mem_map] at hk
      obtain ⟨kv, hm, rfl⟩ := hk
      exact List.any_eq_true.2 ⟨kv, hm, hd⟩
    simp only [validateOpsFrom]
    cases hk0 : knownOperator k0 with
    | false => simp [hany]
    | true =>
      simp only [if_true]
      simp only [dkeys, List.map_cons, List.mem_cons] at hk
      rcases hk with rfl | hk
      · rw [hk0] at hu; cases hu
      · exact validateOpsFrom_later _ r ⟨k, hk, hu⟩

/-- **what passes**: an update made of known operators only, or a replacement document (first key
    not an operator, no key starting with `$`) -/
theorem validateOps_ok_iff (u : Fields) :
    validateOps u = .ok () ↔
      (u.all (fun kv => knownOperator kv.1) = true ∨
       (∃ k v rest, u = (k, v) :: rest ∧ knownOperator k = false ∧
          u.all (fun kv => !kv.1.startsWith "$") = true)) := by
  unfold validateOps
  cases u with
  | nil => simp [validateOpsFrom]
  | cons p r =>
    obtain ⟨k0, v0⟩ := p
    simp only [validateOpsFrom]
    cases hk0 : knownOperator k0 with
    | true =>
      simp only [if_true, List.all_cons, hk0, Bool.true_and]
      constructor
      · intro h
        left
        cases hall : r.all (fun kv => knownOperator kv.1) with
        | true => rfl
        | false =>
          exfalso
          have : ∃ k ∈ dkeys r, knownOperator k = false := by
            obtain ⟨kv, hm, hf⟩ := List.all_eq_false.1 hall
            exact ⟨kv.1, by simp only [dkeys, List.mem_map]; exact ⟨kv, hm, rfl⟩, by simpa using hf⟩
          rw [validateOpsFrom_later _ r this] at h
          cases h
      · rintro (h | ⟨k, v, rest, he, hf, _⟩)
        · exact validateOpsFrom_known _ r false h
        · cases he; rw [hk0] at hf; cases hf
    | false =>
      have hnot : ((k0, v0) :: r).all (fun kv => knownOperator kv.1) = false := by
        simp [List.all_cons, hk0]
      rw [hnot]
      simp only [Bool.false_eq_true, if_false, Bool.not_true, false_or]
      cases hany : ((k0, v0) :: r).any (fun kv => kv.1.startsWith "$") with
      | true =>
        simp only [if_true]
        constructor
        · intro h; cases h
        · rintro ⟨k, v, rest, he, hf, hall⟩
          exfalso
          obtain ⟨kv, hm, hs⟩ := List.any_eq_true.1 hany
          have := List.all_eq_true.1 hall kv hm
          simp [hs] at this
      | false =>
        simp only [Bool.false_eq_true, if_false, true_iff]
        refine ⟨k0, v0, r, rfl, hk0, ?_⟩
        have hf := List.any_eq_false.1 hany
        exact List.all_eq_true.2 (fun kv hm => by simpa using hf kv hm)

end MongoModel.Proofs.C02Lemmas
