/-
  Proofs.C11Sort — the theory of the stable sort `isort` (core Lean only):
  permutation, sortedness, stability, uniqueness of the stable sorted permutation,
  "reverse-sort-reverse = sort by the flipped order", successive sorts = one lexicographic sort.
-/
import MongoModel.Sort

namespace MongoModel.Proofs.C11
open MongoModel

variable {α : Type}

/-- `lt` is a strict weak order: asymmetric, and `¬ lt b a` ("a ≤ b") is transitive.
    (Totality of `≤` is asymmetry; irreflexivity and transitivity of `lt` follow.) -/
structure StrictWeak (lt : α → α → Bool) : Prop where
  asymm : ∀ a b, lt a b = true → lt b a = false
  negTrans : ∀ a b c, lt b a = false → lt c b = false → lt c a = false

/-- `a` and `b` tie: neither is smaller -/
def tie (lt : α → α → Bool) (a b : α) : Bool := !lt a b && !lt b a

/-- "sorted": no later element is smaller than an earlier one -/
def Sorted (lt : α → α → Bool) (l : List α) : Prop := l.Pairwise (fun a b => lt b a = false)

/-- "stable w.r.t. `xs`": every tie class appears in the same order as in `xs` -/
def StableWrt (lt : α → α → Bool) (ys xs : List α) : Prop :=
  ∀ a, ys.filter (tie lt a) = xs.filter (tie lt a)

theorem StrictWeak.irrefl {lt : α → α → Bool} (sw : StrictWeak lt) (a : α) : lt a a = false := by
  cases h : lt a a with
  | false => rfl
  | true => have := sw.asymm a a h; rw [h] at this; exact this

theorem StrictWeak.flip {lt : α → α → Bool} (sw : StrictWeak lt) :
    StrictWeak (fun a b => lt b a) :=
  ⟨fun a b h => sw.asymm b a h, fun a b c h1 h2 => sw.negTrans c b a h2 h1⟩

theorem tie_flip (lt : α → α → Bool) : tie (fun a b => lt b a) = tie lt := by
  funext a b; simp [tie, Bool.and_comm]

theorem tie_self {lt : α → α → Bool} (sw : StrictWeak lt) (a : α) : tie lt a a = true := by
  simp [tie, sw.irrefl]

/-- two elements tied with a third are not strictly ordered -/
theorem tie_tie_not_lt {lt : α → α → Bool} (sw : StrictWeak lt) {a x y : α}
    (hx : tie lt a x = true) (hy : tie lt a y = true) : lt y x = false := by
  simp [tie] at hx hy
  exact sw.negTrans x a y hx.1 hy.2

/-! ### permutation -/

theorem insertBy_perm (lt : α → α → Bool) (x : α) (l : List α) :
    (insertBy lt x l).Perm (x :: l) := by
  induction l with
  | nil => exact List.Perm.refl _
  | cons y ys ih =>
    simp only [insertBy]
    split
    · exact (List.Perm.cons y ih).trans (List.Perm.swap x y ys)
    · exact List.Perm.refl _

theorem isort_perm (lt : α → α → Bool) (l : List α) : (isort lt l).Perm l := by
  induction l with
  | nil => exact List.Perm.refl _
  | cons x xs ih => exact (insertBy_perm lt x _).trans (List.Perm.cons x ih)

theorem mem_insertBy {lt : α → α → Bool} {x z : α} {l : List α} :
    z ∈ insertBy lt x l ↔ z = x ∨ z ∈ l := by
  rw [(insertBy_perm lt x l).mem_iff]; simp

/-! ### sortedness -/

theorem insertBy_sorted {lt : α → α → Bool} (sw : StrictWeak lt) (x : α) (l : List α)
    (h : Sorted lt l) : Sorted lt (insertBy lt x l) := by
  induction l with
  | nil => simp [insertBy, Sorted]
  | cons y ys ih =>
    unfold Sorted at h ih ⊢
    rw [List.pairwise_cons] at h
    simp only [insertBy]
    split
    next hlt =>
      rw [List.pairwise_cons]
      refine ⟨?_, ih h.2⟩
      intro z hz
      rcases mem_insertBy.mp hz with rfl | hz
      · exact sw.asymm _ _ hlt
      · exact h.1 z hz
    next hlt =>
      have hyx : lt y x = false := by simpa using hlt
      rw [List.pairwise_cons]
      refine ⟨?_, List.pairwise_cons.mpr h⟩
      intro z hz
      rcases List.mem_cons.mp hz with rfl | hz
      · exact hyx
      · exact sw.negTrans x y z hyx (h.1 z hz)

theorem isort_sorted {lt : α → α → Bool} (sw : StrictWeak lt) (l : List α) :
    Sorted lt (isort lt l) := by
  induction l with
  | nil => simp [isort, Sorted]
  | cons x xs ih => exact insertBy_sorted sw x _ ih

/-! ### stability -/

theorem insertBy_filter_tie {lt : α → α → Bool} (sw : StrictWeak lt) (a x : α) (l : List α) :
    (insertBy lt x l).filter (tie lt a) = (x :: l).filter (tie lt a) := by
  induction l with
  | nil => simp [insertBy]
  | cons y ys ih =>
    simp only [insertBy]
    split
    next hlt =>
      rw [List.filter_cons, ih]
      cases hax : tie lt a x with
      | false => simp [List.filter_cons, hax]
      | true =>
        have hay : tie lt a y = false := by
          cases hay : tie lt a y with
          | false => rfl
          | true => have := tie_tie_not_lt sw hax hay; rw [hlt] at this; cases this
        simp [hax, hay]
    next => rfl

theorem isort_stable {lt : α → α → Bool} (sw : StrictWeak lt) (l : List α) :
    StableWrt lt (isort lt l) l := by
  intro a
  induction l with
  | nil => rfl
  | cons x xs ih =>
    simp only [isort]
    rw [insertBy_filter_tie sw, List.filter_cons, List.filter_cons, ih]

/-! ### uniqueness -/

theorem sorted_stable_unique {lt : α → α → Bool} (sw : StrictWeak lt) :
    ∀ (l1 l2 : List α), l1.Perm l2 → Sorted lt l1 → Sorted lt l2 →
      (∀ a, l1.filter (tie lt a) = l2.filter (tie lt a)) → l1 = l2 := by
  intro l1
  induction l1 with
  | nil => intro l2 hp _ _ _; exact (List.Perm.nil_eq hp)
  | cons x t1 ih =>
    intro l2 hp hs1 hs2 hf
    cases l2 with
    | nil => exact absurd hp.symm (List.Perm.nil_eq · |> fun h => by cases h)
    | cons y t2 =>
      unfold Sorted at hs1 hs2
      rw [List.pairwise_cons] at hs1 hs2
      have hxy : lt x y = false := by
        have : x ∈ y :: t2 := hp.mem_iff.mp (List.mem_cons_self)
        rcases List.mem_cons.mp this with rfl | hx
        · exact sw.irrefl _
        · exact hs2.1 x hx
      have hyx : lt y x = false := by
        have : y ∈ x :: t1 := hp.mem_iff.mpr (List.mem_cons_self)
        rcases List.mem_cons.mp this with rfl | hy
        · exact sw.irrefl _
        · exact hs1.1 y hy
      have hxx : tie lt x x = true := tie_self sw x
      have hty : tie lt x y = true := by simp [tie, hxy, hyx]
      have hx := hf x
      rw [List.filter_cons, List.filter_cons, hxx, hty] at hx
      simp only [if_true] at hx
      have hxe : x = y := (List.cons.inj hx).1
      subst hxe
      have hp' : t1.Perm t2 := (List.perm_cons x).mp hp
      have hf' : ∀ a, t1.filter (tie lt a) = t2.filter (tie lt a) := by
        intro a
        have := hf a
        rw [List.filter_cons, List.filter_cons] at this
        split at this
        · exact (List.cons.inj this).2
        · exact this
      rw [ih t2 hp' hs1.2 hs2.2 hf']

/-- any stable sorted permutation of `xs` is the one `isort` computes -/
theorem stable_sort_unique {lt : α → α → Bool} (sw : StrictWeak lt) (xs ys : List α)
    (hp : ys.Perm xs) (hs : Sorted lt ys) (hst : StableWrt lt ys xs) : ys = isort lt xs :=
  sorted_stable_unique sw ys (isort lt xs) (hp.trans (isort_perm lt xs).symm) hs
    (isort_sorted sw xs) (fun a => (hst a).trans (isort_stable sw xs a).symm)

/-! ### congruence, map, trivial order -/

theorem insertBy_congr {lt lt' : α → α → Bool} (x : α) (l : List α)
    (h : ∀ y ∈ l, lt y x = lt' y x) : insertBy lt x l = insertBy lt' x l := by
  induction l with
  | nil => rfl
  | cons y ys ih =>
    simp only [insertBy]
    rw [h y (List.mem_cons_self), ih (fun z hz => h z (List.mem_cons_of_mem _ hz))]

/-- `isort` only looks at the comparison between elements of the list -/
theorem isort_congr {lt lt' : α → α → Bool} (l : List α)
    (h : ∀ a ∈ l, ∀ b ∈ l, lt a b = lt' a b) : isort lt l = isort lt' l := by
  induction l with
  | nil => rfl
  | cons x xs ih =>
    simp only [isort]
    rw [ih (fun a ha b hb => h a (List.mem_cons_of_mem _ ha) b (List.mem_cons_of_mem _ hb))]
    apply insertBy_congr
    intro y hy
    have hy' : y ∈ xs := (isort_perm lt' xs).mem_iff.mp hy
    exact h y (List.mem_cons_of_mem _ hy') x (List.mem_cons_self)

theorem insertBy_false (x : α) (l : List α) : insertBy (fun _ _ => false) x l = x :: l := by
  cases l <;> simp [insertBy]

/-- with no key at all every pair ties: the sort is the identity (natural order) -/
theorem isort_false (l : List α) : isort (fun _ _ => false) l = l := by
  induction l with
  | nil => rfl
  | cons x xs ih => simp [isort, ih, insertBy_false]

/-! ### `reverse=True` -/

theorem strictWeak_false : StrictWeak (fun (_ _ : α) => false) :=
  ⟨fun _ _ h => (by cases h), fun _ _ _ _ _ => rfl⟩

/-- CPython's "reverse, sort, reverse" is the stable sort by the flipped order: descending,
    ties in their original order -/
theorem reverse_isort_reverse {lt : α → α → Bool} (sw : StrictWeak lt) (xs : List α) :
    (isort lt xs.reverse).reverse = isort (fun a b => lt b a) xs := by
  apply stable_sort_unique sw.flip
  · exact (List.reverse_perm _).trans ((isort_perm lt _).trans (List.reverse_perm _))
  · unfold Sorted
    rw [List.pairwise_reverse]
    exact isort_sorted sw _
  · intro a
    rw [tie_flip, List.filter_reverse, isort_stable sw, List.filter_reverse, List.reverse_reverse]

/-! ### lexicographic combination -/

/-- compare by `lt1`; on a tie, by `lt2` -/
def lexLt (lt1 lt2 : α → α → Bool) (a b : α) : Bool :=
  if lt1 a b then true else if lt1 b a then false else lt2 a b

theorem tie_lex (lt1 lt2 : α → α → Bool) (a b : α) :
    tie (lexLt lt1 lt2) a b = (tie lt1 a b && tie lt2 a b) := by
  simp only [tie, lexLt]
  cases lt1 a b <;> cases lt1 b a <;> cases lt2 a b <;> cases lt2 b a <;> rfl

theorem lexLt_false_iff (lt1 lt2 : α → α → Bool) (a b : α) :
    lexLt lt1 lt2 b a = false ↔ lt1 b a = false ∧ (lt1 a b = true ∨ lt2 b a = false) := by
  simp only [lexLt]
  cases lt1 a b <;> cases lt1 b a <;> cases lt2 b a <;> simp

theorem strictWeak_lex {lt1 lt2 : α → α → Bool} (s1 : StrictWeak lt1) (s2 : StrictWeak lt2) :
    StrictWeak (lexLt lt1 lt2) := by
  constructor
  · intro a b h
    simp only [lexLt] at h ⊢
    cases h1 : lt1 a b with
    | true => have := s1.asymm a b h1; simp [this]
    | false =>
      rw [h1] at h
      cases h1' : lt1 b a with
      | true => rw [h1'] at h; simp at h
      | false =>
        rw [h1'] at h
        simp at h
        simp [s2.asymm a b h]
  · intro a b c hab hbc
    rw [lexLt_false_iff] at hab hbc ⊢
    have hac : lt1 c a = false := s1.negTrans a b c hab.1 hbc.1
    refine ⟨hac, ?_⟩
    cases h : lt1 a c with
    | true => exact Or.inl rfl
    | false =>
      right
      -- a, c tie under lt1, hence so do a, b and b, c
      have hba : lt1 a b = false := s1.negTrans b c a hbc.1 h
      have hcb : lt1 b c = false := s1.negTrans c a b h hab.1
      have h2ab : lt2 b a = false := by
        rcases hab.2 with h' | h'
        · rw [hba] at h'; cases h'
        · exact h'
      have h2bc : lt2 c b = false := by
        rcases hbc.2 with h' | h'
        · rw [hcb] at h'; cases h'
        · exact h'
      exact s2.negTrans a b c h2ab h2bc

theorem sorted_lex_of {lt1 lt2 : α → α → Bool} (s1 : StrictWeak lt1) :
    ∀ (l : List α), Sorted lt1 l → (∀ a, Sorted lt2 (l.filter (tie lt1 a))) →
      Sorted (lexLt lt1 lt2) l := by
  intro l
  induction l with
  | nil => intro _ _; exact List.Pairwise.nil
  | cons x t ih =>
    intro hs hf
    unfold Sorted at hs ⊢
    rw [List.pairwise_cons] at hs ⊢
    constructor
    · intro z hz
      rw [lexLt_false_iff]
      refine ⟨hs.1 z hz, ?_⟩
      cases h : lt1 x z with
      | true => exact Or.inl rfl
      | false =>
        right
        have hxz : tie lt1 x z = true := by simp [tie, h, hs.1 z hz]
        have := hf x
        unfold Sorted at this
        rw [List.filter_cons, tie_self s1 x] at this
        simp only [if_true] at this
        rw [List.pairwise_cons] at this
        exact this.1 z (List.mem_filter.mpr ⟨hz, hxz⟩)
    · apply ih hs.2
      intro a
      have := hf a
      unfold Sorted at this ⊢
      rw [List.filter_cons] at this
      split at this
      · exact (List.pairwise_cons.mp this).2
      · exact this

/-- sorting by the secondary key first and then (stably) by the primary key is the stable sort by
    the lexicographic order -/
theorem isort_isort_lex {lt1 lt2 : α → α → Bool} (s1 : StrictWeak lt1) (s2 : StrictWeak lt2)
    (xs : List α) : isort lt1 (isort lt2 xs) = isort (lexLt lt1 lt2) xs := by
  apply stable_sort_unique (strictWeak_lex s1 s2)
  · exact (isort_perm lt1 _).trans (isort_perm lt2 _)
  · apply sorted_lex_of s1 _ (isort_sorted s1 _)
    intro a
    rw [isort_stable s1 _ a]
    exact List.Pairwise.sublist List.filter_sublist (isort_sorted s2 xs)
  · intro a
    have e : tie (lexLt lt1 lt2) a = fun b => tie lt2 a b && tie lt1 a b := by
      funext b; rw [tie_lex, Bool.and_comm]
    rw [e, ← List.filter_filter, isort_stable s1 _ a, List.filter_filter]
    have : (fun b => tie lt2 a b && tie lt1 a b) = fun b => tie lt1 a b && tie lt2 a b := by
      funext b; rw [Bool.and_comm]
    rw [this, ← List.filter_filter, isort_stable s2 _ a, List.filter_filter]

end MongoModel.Proofs.C11
