/-
  Proofs.C04Ctx — the computed-field and `$expr` contexts, and array / set / string laws.
-/
import Proofs.C04Bind

set_option linter.unusedSimpArgs false

namespace MongoModel.Proofs.C04
open MongoModel MongoModel.Expr

/-! ### `$expr` -/

/-- **expr_filter_spec**: the matcher's verdict is `toBool` of the value of the expression,
    a missing value being false; an error of the expression is the error of the filter -/
theorem expr_filter_full (e d : Val) : exprFilter e d = (evalExpr d e).map Spec.toBool := by
  unfold exprFilter
  cases evalExpr d e with
  | error err => rfl
  | ok r => simp [Except.map, toBoolOpt_eq]

theorem expr_filter_value (e d : Val) (r : Option Val) (h : evalExpr d e = .ok r) :
    exprFilter e d = .ok (Spec.toBool r) := by
  simp [expr_filter_full, h, Except.map]

theorem expr_filter_missing (e d : Val) (h : evalExpr d e = .ok none) :
    exprFilter e d = .ok false := by
  simp [expr_filter_full, h, Except.map, Spec.toBool]

theorem expr_filter_error (e d : Val) (err : Err) (h : evalExpr d e = .error err) :
    exprFilter e d = .error err := by
  simp [exprFilter, h]

/-! ### missing paths and computed fields -/

theorem splitDotsChars_nodot (cs acc : List Char) (h : '.' ∉ cs) :
    splitDotsChars cs acc = [String.ofList (acc.reverse ++ cs)] := by
  induction cs generalizing acc with
  | nil => simp [splitDotsChars]
  | cons c r ih =>
    have hc : c ≠ '.' := fun e => h (by simp [e])
    have hr : '.' ∉ r := fun e => h (by simp [e])
    simp [splitDotsChars, hc, ih (c :: acc) hr]

/-- a `'$path'` whose lookup raises KeyError evaluates to "missing" -/
theorem path_missing (c : Ctx) (s : String) (cs : List Char) (hs : strKind s = .field cs)
    (h : getDotGen (splitDotsChars cs []) c.root = .ok none) :
    eval c (.str s) = .ok none := by
  simp only [eval, evalBasic, hs, h]

theorem strKind_field (cs : List Char) (hc : cs.head? ≠ some '$') :
    strKind (String.ofList ('$' :: cs)) = .field cs := by
  cases cs with
  | nil => simp [strKind]
  | cons x r =>
    have : x ≠ '$' := by simpa using hc
    simp only [strKind, String.toList_ofList]
    split
    · rename_i heq; simp at heq; exact absurd heq.1 this
    · rename_i heq; simp at heq; rw [heq]
    · rename_i h2; exact absurd rfl (h2 (x :: r))

theorem inclusionFlag_str (s : String) : isInclusionFlag (.str s) = false := by
  simp [isInclusionFlag, pyIn, pyEq]

/-- **missing_omitted**: a computed field whose expression is a missing path is omitted by
    `$project` and by `$addFields` (`none` = the field is not written) -/
theorem missing_omitted (d : Val) (s : String) (cs : List Char) (hs : strKind s = .field cs)
    (h : getDotGen (splitDotsChars cs []) d = .ok none) :
    projectField (.str s) d = .ok none ∧ addFieldsField (.str s) d = .ok none := by
  have := path_missing (Ctx.init true d) s cs hs (by simpa [Ctx.init] using h)
  simp [projectField, addFieldsField, evalExpr, inclusionFlag_str, this]

/-- the common case: a top-level field name (no dot, no `$`) that the document does not have -/
theorem missing_field_omitted (fs : Fields) (cs : List Char) (hdot : '.' ∉ cs)
    (hc : cs.head? ≠ some '$') (hm : dget (String.ofList cs) fs = none) :
    projectField (.str (String.ofList ('$' :: cs))) (.doc fs) = .ok none ∧
    addFieldsField (.str (String.ofList ('$' :: cs))) (.doc fs) = .ok none := by
  apply missing_omitted (.doc fs) _ cs (strKind_field cs hc)
  rw [splitDotsChars_nodot cs [] hdot]
  simp [getDotGen, hm]

/-- inside a computed document a missing field is left out, the others stay -/
theorem doc_literal_omits (c : Ctx) (hign : c.ign = true) (k : String) (e : Val)
    (hk : classify k = .plain) (he : eval c e = .ok none) :
    eval c (.doc [(k, e)]) = .ok (some (.doc [])) := by
  rw [eval_single, evalDoc]
  · simp [hk, he, hign, bind, Except.bind, evalDoc]
  · intro xs h
    subst h
    obtain ⟨ys, hy⟩ := eval_arr_ok c xs none he
    cases hy

/-! ### arrays, sets, strings -/

theorem arrsOf_map (xss : List (List Val)) : arrsOf (xss.map .arr) = some xss := by
  induction xss with
  | nil => rfl
  | cons xs r ih => simp [arrsOf, ih]

/-- `$concatArrays` of arrays is their concatenation -/
theorem concatArrays_append (xss : List (List Val)) :
    concatArraysOp (xss.map .arr) = .ok (.arr xss.flatten) := by
  have h1 : (xss.map Val.arr).any (fun v => !isNull v && !v.isArr) = false := by
    simp [List.any_eq_false, Val.isArr]
  have h2 : (xss.map Val.arr).any isNull = false := by
    simp [List.any_eq_false, isNull]
  simp [concatArraysOp, h1, h2, arrsOf_map]

/-- … and a null operand makes it null -/
theorem concatArrays_null (vals : List Val) (hall : ∀ v ∈ vals, isNull v = true ∨ v.isArr = true)
    (hn : .null ∈ vals) : concatArraysOp vals = .ok .null := by
  have h1 : vals.any (fun v => !isNull v && !v.isArr) = false := by
    simp only [List.any_eq_false]
    intro v hv
    rcases hall v hv with h | h <;> simp [h]
  have h2 : vals.any isNull = true := List.any_eq_true.mpr ⟨.null, hn, rfl⟩
  simp [concatArraysOp, h1, h2]

/-- `$size` is the length -/
theorem size_length (xs : List Val) : sizeOp (some (.arr xs)) = .ok (.int xs.length) := rfl

theorem size_eval (c : Ctx) (e : Val) (xs : List Val) (hshape : e.isArr = false)
    (he : eval c e = .ok (some (.arr xs))) :
    eval c (.doc [("$size", e)]) = .ok (some (.int xs.length)) := by
  have h1 : classify "$size" = .array := by decide
  have h2 : mode "$size" e = .whole := by
    cases e <;> simp [Val.isArr] at hshape <;>
      simp [mode, dateOps, datePartOps, wholeOps, unaryArithOps, groupingOps, hasTzKeys]
  rw [eval_whole' c "$size" e (by decide) (by decide) (by decide) (Or.inl (by decide))
    (Or.inl (by decide)) h2, he]
  simp [applyWhole, unaryArithOps, sizeOp, Except.bind, Except.map]

/-- `$in` is Python list membership -/
theorem in_spec (x : Val) (xs : List Val) : inOp x (.arr xs) = .ok (.bool (pyIn x xs)) := rfl

theorem pyIn_append (v : Val) (xs ys : List Val) : pyIn v (xs ++ ys) = (pyIn v xs || pyIn v ys) := by
  simp [pyIn]

/-- `$setUnion`: the accumulated items stay in front, in order -/
theorem unionLoop_prefix (xs acc : List Val) : ∃ t, unionLoop xs acc = acc ++ t := by
  induction xs generalizing acc with
  | nil => exact ⟨[], by simp [unionLoop]⟩
  | cons v r ih =>
    by_cases h : pyIn v acc = true
    · simpa [unionLoop, h] using ih acc
    · obtain ⟨t, ht⟩ := ih (acc ++ [v])
      exact ⟨v :: t, by simp [unionLoop, h, ht]⟩

/-- every item of the result comes from the accumulator or from the operand -/
theorem unionLoop_subset (xs acc : List Val) : ∀ v ∈ unionLoop xs acc, v ∈ acc ∨ v ∈ xs := by
  induction xs generalizing acc with
  | nil => intro v hv; simp [unionLoop] at hv; exact Or.inl hv
  | cons x r ih =>
    intro v hv
    by_cases h : pyIn x acc = true
    · simp only [unionLoop, h, if_true] at hv
      rcases ih acc v hv with h' | h'
      · exact Or.inl h'
      · exact Or.inr (by simp [h'])
    · simp only [unionLoop, h] at hv
      rcases ih (acc ++ [x]) v hv with h' | h'
      · simp at h'
        rcases h' with h' | h'
        · exact Or.inl h'
        · exact Or.inr (by simp [h'])
      · exact Or.inr (by simp [h'])

/-- every item of the operand is in the result, literally or up to Python `==` -/
theorem unionLoop_covers (xs acc : List Val) :
    ∀ v ∈ xs, v ∈ unionLoop xs acc ∨ pyIn v (unionLoop xs acc) = true := by
  induction xs generalizing acc with
  | nil => intro v hv; cases hv
  | cons x r ih =>
    intro v hv
    have mono : ∀ (a : List Val) (w : Val), (w ∈ a ∨ pyIn w a = true) →
        (w ∈ unionLoop r a ∨ pyIn w (unionLoop r a) = true) := by
      intro a w hw
      obtain ⟨t, ht⟩ := unionLoop_prefix r a
      rcases hw with hw | hw
      · exact Or.inl (by rw [ht]; simp [hw])
      · exact Or.inr (by rw [ht, pyIn_append, hw]; rfl)
    rcases List.mem_cons.mp hv with e | hr
    · subst e
      by_cases h : pyIn v acc = true
      · simp only [unionLoop, h, if_true]
        exact mono acc v (Or.inr h)
      · simp only [unionLoop, h]
        exact mono (acc ++ [v]) v (Or.inl (by simp))
    · by_cases h : pyIn x acc = true
      · simp only [unionLoop, h, if_true]; exact ih acc v hr
      · simp only [unionLoop, h]; exact ih (acc ++ [x]) v hr

/-- no item is added twice: an item equal (Python `==`) to an accumulated one is skipped -/
theorem unionLoop_skip (x : Val) (r acc : List Val) (h : pyIn x acc = true) :
    unionLoop (x :: r) acc = unionLoop r acc := by
  simp [unionLoop, h]

theorem strVals_map (ss : List String) : strVals (ss.map .str) = .ok ss := by
  induction ss with
  | nil => rfl
  | cons s r ih => simp [strVals, pyStr, ih, bind, Except.bind, pure, Except.pure]

/-- `$concat` of strings is their concatenation -/
theorem concat_strings (ss : List String) :
    concatOp (ss.map .str) = .ok (.str (String.join ss)) := by
  have h : (ss.map Val.str).any isNull = false := by simp [List.any_eq_false, isNull]
  have h' : (ss.map Val.str).any (fun v => !isNull v && !isStr v) = false := by
    simp [List.any_eq_false, isNull, isStr]
  simp [concatOp, h, h', strVals_map, bind, Except.bind, pure, Except.pure]

end MongoModel.Proofs.C04
