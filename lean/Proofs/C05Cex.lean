/-
  Proofs.C05Cex — machine-checked counterexamples to `step_inv`, `reachable_inv`, `id_immutable`
  as stated in Props/C05.lean (see ../COUNTEREXAMPLE_C05.md).  All of them use a document with a
  duplicate key, a value no Python `dict` can be.
-/
import Spec.StoreInv

namespace MongoModel.Proofs.C05Cex
open MongoModel MongoModel.Spec

/-- `KeyIsId` as a list of booleans, one per entry -/
def chk (c : Coll) : List Bool := c.docs.map (fun p => pyEq p.1 ((idOf p.2).getD .null))

theorem keyIsId_chk (c : Coll) (h : KeyIsId c) : ∀ b ∈ chk c, b = true := by
  intro b hb
  simp only [chk, List.mem_map] at hb
  obtain ⟨p, hp, rfl⟩ := hb
  obtain ⟨id, h1, h2⟩ := h p hp
  simp [h1, h2]

/-! #### 1. a key that is not `==` to itself -/

def badId : Val := .doc [("a", .int 1), ("a", .int 2)]
def opBad : Val := .arr [.str "insert_one", .doc [("_id", badId)]]

example : pyEq badId badId = false := by decide +kernel

theorem chk_bad : chk (step {} {} opBad).1.c = [false] := by decide +kernel

/-- `step_inv` is false -/
theorem step_inv_false : ¬ (∀ (cfg : Cfg) (s : St) (op : Val), IdInv s.c → IdInv (step cfg s op).1.c) := by
  intro H
  have h0 : IdInv ({} : St).c := ⟨List.Pairwise.nil, fun p hp => by cases hp⟩
  have := keyIsId_chk _ (H {} {} opBad h0).2 false (by rw [chk_bad]; simp)
  cases this

theorem chk_bad_run : chk (run {} [opBad]).2.c = [false] := by decide +kernel

/-- `reachable_inv` is false -/
theorem reachable_inv_false : ¬ (∀ (cfg : Cfg) (ops : List Val), IdInv (run cfg ops).2.c) := by
  intro H
  have := keyIsId_chk _ (H {} [opBad]).2 false (by rw [chk_bad_run]; simp)
  cases this

/-! #### 2. reflexive keys are not enough: `==` is not symmetric -/

def idF : Val := .doc [("a", .int 1), ("b", .int 2)]
def idG : Val := .doc [("a", .int 1), ("a", .int 1)]
def ops2 : List Val := [
  .arr [.str "insert_one", .doc [("_id", idF)]],
  .arr [.str "update_one", .doc [], .doc [("$set", .doc [("_id", idG)])], .bool false]]

example : pyEq idF idF = true ∧ pyEq idG idG = true ∧ pyEq idG idF = true ∧ pyEq idF idG = false := by
  decide +kernel
/-- every key of every state is `==` to itself … -/
example : (run {} (ops2.take 1)).2.c.docs.map (fun p => pyEq p.1 p.1) = [true] ∧
    (run {} ops2).2.c.docs.map (fun p => pyEq p.1 p.1) = [true] := by decide +kernel
/-- … the first state satisfies `KeyIsId`, the second does not: the document stored under `idF`
    now has the `_id` `idG` (`new == old`, so the update took the "not modified" path, which
    skips the `_id` check) -/
example : chk (run {} (ops2.take 1)).2.c = [true] ∧ chk (run {} ops2).2.c = [false] := by
  decide +kernel

/-! #### 3. a reachable state with two documents holding the same `_id` -/

def kap : Val := .doc [("a", .int 1), ("b", .int 2), ("b", .int 3)]
def k1 : Val := .doc [("a", .int 1), ("a", .int 1), ("a", .int 1)]
def k2 : Val := .doc [("b", .int 2), ("b", .int 2), ("b", .int 2)]
def ops3 : List Val := [
  .arr [.str "insert_one", .doc [("_id", kap)]],
  .arr [.str "insert_one", .doc [("_id", k1)]],
  .arr [.str "insert_one", .doc [("_id", k2)]],
  .arr [.str "update_many", .doc [], .doc [("$set", .doc [("x", .int 1)])], .bool false]]

/-- the `_id`s of the three documents after the history: the second and third are both `k1` -/
example : (run {} ops3).2.c.docs.map (fun p => ((idOf p.2).getD .null) == k1) = [false, true, true] := by
  decide +kernel
example : (run {} ops3).2.c.docs.map (fun p => p.1 == k1) = [false, true, false] := by
  decide +kernel

/-! #### 4. `id_immutable`: an untouched document whose `_id` is not `==` to itself -/

def cBad : Coll := { docs := [(.int 1, .doc [("_id", badId)])] }

/-- the Boolean content of the conclusion of `id_immutable` for `p'` -/
def immChk (c : Coll) (x : Coll × R UpdateResult) : Bool :=
  x.1.docs.all (fun p' => c.docs.any (fun p => pyEqOpt (idOf p.2) (idOf p'.2)) ||
    (match x.2 with | .ok res => res.upserted.isSome | .error _ => false))

theorem immChk_bad : immChk cBad (applyUpdateColl {} 0 cBad (.doc [("zz", .int 1)])
    (.doc [("$set", .doc [("x", .int 1)])]) false false) = false := by decide +kernel

/-- `id_immutable` is false -/
theorem id_immutable_false : ¬ (∀ (cfg : Cfg) (now : Int) (c c' : Coll) (f u : Val)
    (upsert multi : Bool) (r : R UpdateResult),
    applyUpdateColl cfg now c f u upsert multi = (c', r) →
    ∀ p' ∈ c'.docs,
      (∃ p ∈ c.docs, p.1 = p'.1 ∧ pyEqOpt (idOf p.2) (idOf p'.2) = true) ∨
      (∃ res id, r = .ok res ∧ res.upserted = some id ∧ p'.1 = id)) := by
  intro H
  have hb := immChk_bad
  generalize hx : applyUpdateColl {} 0 cBad (.doc [("zz", .int 1)])
    (.doc [("$set", .doc [("x", .int 1)])]) false false = x at hb
  obtain ⟨c', r⟩ := x
  have := H {} 0 cBad c' _ _ false false r hx
  have ht : immChk cBad (c', r) = true := by
    simp only [immChk, List.all_eq_true, Bool.or_eq_true, List.any_eq_true]
    intro p' hp'
    rcases this p' hp' with ⟨p, hp, _, h2⟩ | ⟨res, id, h1, h2, _⟩
    · exact Or.inl ⟨p, hp, h2⟩
    · right; subst h1; simp [h2]
  rw [ht] at hb; cases hb

end MongoModel.Proofs.C05Cex
