/-
  Proofs.C14Update — `applyUpdateColl … multi = false` on a collection without TTL indexes:
  the first selected entry is rewritten in place, or nothing happens.
-/
import Proofs.C14Base

namespace MongoModel.Proofs.C14Lemmas
open MongoModel MongoModel.Spec
open MongoModel.Proofs.C10Lemmas MongoModel.Proofs.C09Lemmas

/-- what the rewrite of an entry guarantees about the `_id` (the two branches of the loop) -/
def IdKept (cur new : Val) : Prop :=
  pyEq new cur = true ∨ pyEqOpt (idOf cur) (idOf new) = true

theorem updateLoop_hit (now : Int) (spec document nowV : Val) (multi : Bool) (key v0 : Val)
    (rest : List (Val × Val)) (c : Coll) (m u : Nat) (cur new : Val)
    (hl : c.lookup key = some cur) (hb : filterApplies spec cur = .ok true)
    (ha : applyUpdate spec document nowV false cur = .ok new) :
    updateLoop now spec document nowV multi ((key, v0) :: rest) c m u =
      if pyEq new cur then
        (match ensureUniques now (c.setDoc key new) new with
        | .error e => (c, .error e)
        | .ok c2 =>
          if multi then updateLoop now spec document nowV multi rest c2 (m + 1) u
          else (c2, .ok (m + 1, u)))
      else if !(pyEqOpt (idOf cur) (idOf new)) then (c, .error .writeErr)
      else match ensureUniques now (c.setDoc key new) new with
        | .error e => (c, .error e)
        | .ok c2 =>
          if multi then updateLoop now spec document nowV multi rest c2 (m + 1) (u + 1)
          else (c2, .ok (m + 1, u + 1)) := by
  rw [updateLoop, hl]; dsimp only; rw [hb]; dsimp only; rw [ha]; rfl

/-- the single-document loop over a snapshot whose first selected entry is `q` -/
theorem loop_first (now : Int) (spec document nowV : Val) :
    ∀ (l : List (Val × Val)) (c : Coll) (m u : Nat) (q : Val × Val) (more : List (Val × Val)),
      c.ttlIndexes = [] → DK l → LInv now [] l c → selectDocs spec l = .ok (q :: more) →
      (∃ e, updateLoop now spec document nowV false l c m u = (c, .error e)) ∨
      ∃ new u', updateLoop now spec document nowV false l c m u =
          (c.setDoc q.1 new, .ok (m + 1, u')) ∧ IdKept q.2 new ∧
          applyUpdate spec document nowV false q.2 = .ok new := by
  intro l
  induction l with
  | nil => intro c m u q more _ _ _ hs; cases hs
  | cons kv rest ih =>
    intro c m u q more hn hd hinv hs
    have hl := hinv.lookup
    have hd' : DK rest := (List.pairwise_cons.1 hd).2
    obtain ⟨b, more', hb, hm, hsel⟩ := select_cons spec kv rest _ hs
    obtain ⟨key, v⟩ := kv
    have hb' : filterApplies spec v = .ok b := hb
    have hl' : c.lookup key = some v := hl
    cases b with
    | false =>
      simp only [Bool.false_eq_true, if_false] at hsel
      subst hsel
      have e : updateLoop now spec document nowV false ((key, v) :: rest) c m u =
          updateLoop now spec document nowV false rest c m u := by
        rw [updateLoop, hl']; dsimp only; rw [hb']
      rw [e]
      exact ih c m u q more hn hd' hinv.tail hm
    | true =>
      simp only [if_true, List.cons.injEq] at hsel
      obtain ⟨rfl, _⟩ := hsel
      cases ha : applyUpdate spec document nowV false v with
      | error e =>
        left
        refine ⟨e, ?_⟩
        rw [updateLoop, hl']; dsimp only; rw [hb']; dsimp only; rw [ha]
      | ok new =>
        rw [updateLoop_hit now spec document nowV false key v rest c m u v new hl' hb' ha]
        by_cases hc : pyEq new v = true
        · rw [if_pos hc]
          -- the unique indexes are checked on the "unchanged" branch as well
          cases hu : ensureUniques now (c.setDoc key new) new with
          | error e => left; exact ⟨e, rfl⟩
          | ok c2 =>
            have h2 : c2 = c.setDoc key new :=
              ensure_nil now _ c2 new (by rw [setDoc_ttl]; exact hn) hu
            subst h2
            right
            refine ⟨new, u, by simp, ?_, rfl⟩
            left
            exact hc
        · rw [if_neg hc]
          by_cases hq : pyEqOpt (idOf v) (idOf new) = true
          · simp only [hq, Bool.not_true, Bool.false_eq_true, if_false]
            cases hu : ensureUniques now (c.setDoc key new) new with
            | error e => left; exact ⟨e, rfl⟩
            | ok c2 =>
              have h2 : c2 = c.setDoc key new :=
                ensure_nil now _ c2 new (by rw [setDoc_ttl]; exact hn) hu
              subst h2
              right
              exact ⟨new, u + 1, by simp, Or.inr hq, rfl⟩
          · have hq' : pyEqOpt (idOf v) (idOf new) = false := by
              cases hx : pyEqOpt (idOf v) (idOf new) with
              | true => exact absurd hx hq
              | false => rfl
            simp only [hq', Bool.not_false, if_true]
            left; exact ⟨_, rfl⟩

/-! ### `applyUpdateColl … multi = false` -/

theorem pre_nil (now : Int) (c : Coll) (spec : Val) (hn : c.ttlIndexes = []) (hne : c.docs ≠ []) :
    (do
      let c1 ← expire now c
      if c1.docs.isEmpty then
        let _ ← filterApplies spec (.doc [])
      expire now c1) = Except.ok c :=
  MongoModel.Proofs.C10.pre_eq now c c spec (expire_nil now c hn) hne

theorem select_ne_nil {f : Val} {l : List (Val × Val)} {q : Val × Val} {more : List (Val × Val)}
    (h : selectDocs f l = .ok (q :: more)) : l ≠ [] := by
  intro e; subst e; cases h

/-- a first selected entry exists: it is rewritten in place (and nothing is upserted), or the
    call fails and leaves the collection as it was -/
theorem update_one_core (cfg : Cfg) (now : Int) (c c' : Coll) (fs : Fields) (u : Val)
    (upsert : Bool) (q : Val × Val) (more : List (Val × Val)) (r : R UpdateResult)
    (hn : c.ttlIndexes = []) (hd : DK c.docs) (hg : GK c.docs)
    (hs : selectDocs (patchDT (.doc fs)) c.docs = .ok (q :: more))
    (h : applyUpdateColl cfg now c (.doc fs) u upsert false = (c', r)) :
    (c' = c ∧ ∃ e, r = .error e) ∨
    ∃ new res spec document nowV, c' = c.setDoc q.1 new ∧ r = .ok res ∧ res.upserted = none ∧
      IdKept q.2 new ∧ applyUpdate spec document nowV false q.2 = .ok new := by
  have hne := select_ne_nil hs
  unfold applyUpdateColl at h
  extract_lets spec document nowV at h
  have hspec : spec = .doc (patchFields fs) := patch_doc fs
  have hs' : selectDocs spec c.docs = .ok (q :: more) := hs
  clear_value spec document nowV
  subst hspec
  rw [pre_nil now c _ hn hne] at h
  split at h
  · rename_i _ _ ss dfs hss
    split at h
    · cases h; exact Or.inl ⟨rfl, _, rfl⟩
    · dsimp only at h
      have hinv := linv_nil now c hn hd hg c.docs (fun _ hp => hp)
      rcases loop_first now (Val.doc (patchFields fs)) (Val.doc dfs) nowV c.docs c 0 0 q more
        hn hd hinv hs' with ⟨e, hl⟩ | ⟨new, u', hl, hk, ha⟩
      · rw [hl] at h
        cases h; exact Or.inl ⟨rfl, _, rfl⟩
      · rw [hl] at h
        simp only [Nat.zero_add, Nat.zero_lt_one, gt_iff_lt, decide_true,
          Bool.or_true, if_true] at h
        cases h
        exact Or.inr ⟨new, _, _, _, _, rfl, rfl, rfl, hk, ha⟩
  · cases h; exact Or.inl ⟨rfl, _, rfl⟩

/-! ### `sameExcept` -/

theorem hasKey_of_mem {c : Coll} {q : Val × Val} (hg : GK c.docs) (hq : q ∈ c.docs) :
    c.hasKey q.1 = true := by
  unfold Coll.hasKey
  rw [List.any_eq_true]
  exact ⟨q, hq, (hg q hq).2⟩

/-- rewriting the entries stored under `k` changes nothing outside `tid` when every key `==` to
    `k` is `==` to `tid` -/
theorem sameExcept_map (k tid new : Val) (l : List (Val × Val))
    (hk : ∀ p ∈ l, pyEq p.1 k = true → pyEq p.1 tid = true) :
    sameExcept tid l (l.map (setEntry k new)) := by
  have key : ∀ p ∈ l, pyEq p.1 tid = false → setEntry k new p = p := by
    intro p hp hf
    unfold setEntry
    cases hx : pyEq p.1 k with
    | false => rfl
    | true => rw [hk p hp hx] at hf; cases hf
  constructor
  · intro p hp hf
    exact List.mem_map.2 ⟨p, hp, key p hp hf⟩
  · intro p' hp' hf
    obtain ⟨p, hp, rfl⟩ := List.mem_map.1 hp'
    rw [setEntry_fst] at hf
    rw [key p hp hf]; exact hp

theorem sameExcept_refl (k : Val) (l : List (Val × Val)) : sameExcept k l l :=
  ⟨fun _ hp _ => hp, fun _ hp _ => hp⟩

end MongoModel.Proofs.C14Lemmas
