/-
  Proofs.C03ExtAcc — the accumulators of `$group` against the oracle of Spec/PipelineExt.lean:
  `$min` / `$max` (the BSON order on scalars of any types), `$addToSet` (scalar values, no
  boolean), `$sum` (integers among non-numbers), `$first` / `$last`.
-/
import Proofs.C03Acc
import Proofs.C03GroupKeys
import Proofs.C03ExtKeys
import Spec.PipelineExt

namespace MongoModel.Pipe.Proofs
open MongoModel MongoModel.Pipe MongoModel.Spec.Pipe MongoModel.Spec.Order MongoModel.Proofs.C11

theorem specPush_map_some (vs : List Val) : specPush (vs.map some) = vs := by
  induction vs with
  | nil => rfl
  | cons v r ih => simp only [specPush] at ih ⊢; simp

theorem notNull_eq : (fun v => !Expr.isNull v) = notNull := by
  funext v; cases v <;> rfl

/-! ### `$min` / `$max` -/

/-- one step of the oracle's fold -/
def pick (isMax : Bool) (best v : Val) : Val :=
  if (if isMax then valLt best v else valLt v best) then v else best

theorem specExtremum_eq (isMax : Bool) (vals : List (Option Val)) :
    specExtremum isMax vals =
      (match (specPush vals).filter notNull with
       | [] => .null
       | y :: r => r.foldl (pick isMax) y) := rfl

/-- on the values the BSON order places, `BsonComparable.__lt__` is that order -/
theorem bsonLt_scalar (a b : Val) (ha : orderScalar a = true) (hb : orderScalar b = true) :
    bsonCompare .lt a b true = .ok (valLt a b) := by
  have ha' : valReasons a = [] := by simpa [orderScalar] using ha
  have hb' : valReasons b = [] := by simpa [orderScalar] using hb
  have := keyLt_eq_spec ⟨1, a⟩ ⟨1, b⟩ ha' hb'
  simpa [MongoModel.keyLt, Spec.Order.keyLt] using this

theorem pick_scalar (isMax : Bool) (best v : Val) (hb : orderScalar best = true)
    (hv : orderScalar v = true) : orderScalar (pick isMax best v) = true := by
  unfold pick; repeat' split
  all_goals assumption

theorem accMinMaxGo_eq (isMax : Bool) : ∀ (r : List Val) (best : Val),
    (∀ v ∈ r, orderScalar v = true) → orderScalar best = true →
    accMinMaxGo isMax r best = .ok (r.foldl (pick isMax) best)
  | [], _, _, _ => rfl
  | v :: r, best, hr, hb => by
    have hv := hr v List.mem_cons_self
    have hr' : ∀ x ∈ r, orderScalar x = true := fun x hx => hr x (List.mem_cons_of_mem _ hx)
    have ih := accMinMaxGo_eq isMax r (pick isMax best v) hr' (pick_scalar isMax best v hb hv)
    cases isMax with
    | true =>
      simp only [accMinMaxGo, if_true, bsonLt_scalar best v hb hv, List.foldl_cons]
      simpa [pick] using ih
    | false =>
      simp only [accMinMaxGo, Bool.false_eq_true, if_false, bsonLt_scalar v best hv hb,
        List.foldl_cons]
      simpa [pick] using ih

/-- **`$min` / `$max`** over scalar values of ANY types (nulls are skipped): the smallest / largest
    value in the BSON order, the earliest among equals -/
theorem acc_minmax (isMax : Bool) (values : List Val) (h : values.all orderScalar = true) :
    accMinMax isMax values = .ok (specExtremum isMax (values.map some)) := by
  rw [specExtremum_eq, specPush_map_some]
  unfold accMinMax
  rw [notNull_eq]
  have hf : ∀ v ∈ values.filter notNull, orderScalar v = true := fun v hv =>
    List.all_eq_true.mp h v (List.mem_filter.mp hv).1
  generalize values.filter notNull = ys at hf
  match ys, hf with
  | [], _ => rfl
  | y :: r, hf =>
    exact accMinMaxGo_eq isMax r y (fun v hv => hf v (List.mem_cons_of_mem _ hv))
      (hf y List.mem_cons_self)

/-! ### `$addToSet` -/

theorem pyIn_eq_any_keyEq (v : Val) (acc : List Val) (hv : groupKeyOk v = true)
    (hacc : ∀ a ∈ acc, groupKeyOk a = true) : pyIn v acc = acc.any (fun a => keyEq a v) := by
  unfold pyIn
  induction acc with
  | nil => rfl
  | cons a r ih =>
    simp only [List.any_cons]
    rw [ih (fun x hx => hacc x (List.mem_cons_of_mem _ hx)),
      pyEq_eq_tie a v (hacc a List.mem_cons_self) hv]
    rfl

theorem addToSetLoop_eq : ∀ (vs acc : List Val), (∀ v ∈ vs, setOk v = true) →
    (∀ a ∈ acc, groupKeyOk a = true) →
    addToSetLoop vs acc =
      acc ++ (distinctKeys vs).filter (fun x => !acc.any (fun a => keyEq a x))
  | [], acc, _, _ => by simp [addToSetLoop, distinctKeys]
  | v :: r, acc, hvs, hacc => by
    have hv : groupKeyOk v = true := hvs v List.mem_cons_self
    have hr : ∀ x ∈ r, setOk x = true := fun x hx => hvs x (List.mem_cons_of_mem _ hx)
    simp only [addToSetLoop, pyIn_eq_any_keyEq v acc hv hacc, distinctKeys,
      List.filter_cons]
    cases hin : acc.any (fun a => keyEq a v) with
    | true =>
      simp only [if_true, Bool.not_true, Bool.false_eq_true, if_false]
      rw [addToSetLoop_eq r acc hr hacc, List.filter_filter]
      congr 1
      apply filter_congr_mem
      intro x _
      cases hax : acc.any (fun a => keyEq a x) with
      | true => rfl
      | false =>
        -- some `a` of `acc` is equal to `v`; `x` is equal to no `a`; so `x` differs from `v`
        obtain ⟨a, ha, hav⟩ := List.any_eq_true.mp hin
        have hax' : keyEq a x = false := by
          have := List.any_eq_false.mp hax a ha
          simpa using this
        have : keyEq v x = false := by rw [← keyEq_congr_left hav x]; exact hax'
        simp [this]
    | false =>
      simp only [Bool.false_eq_true, if_false, Bool.not_false, if_true]
      rw [addToSetLoop_eq r (acc ++ [v]) hr (by
        intro a ha
        rcases List.mem_append.mp ha with h | h
        · exact hacc a h
        · rw [List.mem_singleton.mp h]; exact hv), List.filter_filter, List.append_assoc]
      congr 1
      rw [List.singleton_append]
      congr 1
      apply filter_congr_mem
      intro x _
      simp only [List.any_append, List.any_cons, List.any_nil, Bool.or_false, Bool.not_or]

/-- **`$addToSet`** over scalar values (no boolean): each distinct value once, as it is — 0, ""
    and null included —, by first appearance -/
theorem acc_addToSet (values : List Val) (h : ∀ v ∈ values, setOk v = true) :
    accApply "$addToSet" values = .ok (.arr (specAddToSet values)) := by
  have := addToSetLoop_eq values [] h (by simp)
  simp only [List.any_nil, Bool.not_false, List.filter_true, List.nil_append] at this
  simp [accApply, this, specAddToSet]

/-! ### `$sum` over integers mixed with non-numbers -/

theorem accNums_sumOk : ∀ (values : List Val), (∀ v ∈ values, sumOk v = true) →
    accNums values = (specInts (values.map some)).map Expr.PyNum.i
  | [], _ => rfl
  | v :: r, h => by
    have hv := h v List.mem_cons_self
    have ih := accNums_sumOk r (fun x hx => h x (List.mem_cons_of_mem _ hx))
    simp only [specInts] at ih ⊢
    cases v <;> simp_all [sumOk, isDblV, accNums]

theorem specSumInt_eq (vals : List (Option Val)) :
    specSumInt vals = (specInts vals).foldl (· + ·) 0 := rfl

/-- **`$sum`**: the integers are added, values that are not numbers — booleans included — are
    ignored -/
theorem acc_sum (values : List Val) (h : ∀ v ∈ values, sumOk v = true) :
    accApply "$sum" values = .ok (.int (specSumInt (values.map some))) := by
  simp only [accApply, accSum, if_true, accNums_sumOk values h, sumNums_ints, Expr.PyNum.toVal,
    specSumInt_eq]

/-! ### `$first` / `$last` -/

theorem specLast_eq_first (vals : List (Option Val)) : specLast vals = specFirst vals.reverse := by
  simp [specLast, specFirst, List.head?_reverse]

end MongoModel.Pipe.Proofs
