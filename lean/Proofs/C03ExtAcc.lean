/-
  Proofs.C03ExtAcc — the accumulators of `$group` against the oracle of Spec/PipelineExt.lean:
  `$min` / `$max` (values of one class), `$addToSet` (scalar truthy values), `$sum` (integers among
  non-numbers), `$first` / `$last` (value present on the first / last document).
-/
import Proofs.C03Acc
import Proofs.C03GroupKeys
import Proofs.C03ExtKeys
import Spec.PipelineExt

namespace MongoModel.Pipe.Proofs
open MongoModel MongoModel.Pipe MongoModel.Spec.Pipe MongoModel.Spec.Order MongoModel.Proofs.C11

theorem specPush_map_some (vs : List Val) : specPush (vs.map some) = vs := by
  induction vs with
  | nil => rfl
  | cons v r ih => simp only [specPush] at ih ⊢; simp

theorem notNull_eq : (fun v => !Expr.isNull v) = notNull := by
  funext v; cases v <;> rfl

/-! ### `$min` / `$max` -/

/-- one step of the oracle's fold -/
def pick (isMax : Bool) (best v : Val) : Val :=
  if (if isMax then valLt best v else valLt v best) then v else best

theorem specExtremum_eq (isMax : Bool) (vals : List (Option Val)) :
    specExtremum isMax vals =
      (match (specPush vals).filter notNull with
       | [] => .null
       | y :: r => r.foldl (pick isMax) y) := rfl

theorem extremum_num (isMax : Bool) : ∀ (r : List Val) (best : Val),
    (∀ v ∈ r, v.isNumber = true) → best.isNumber = true →
    Expr.extremum isMax r best = r.foldl (pick isMax) best
  | [], _, _, _ => rfl
  | v :: r, best, hr, hb => by
    have hv := hr v List.mem_cons_self
    have hr' : ∀ x ∈ r, x.isNumber = true := fun x hx => hr x (List.mem_cons_of_mem _ hx)
    have step : Expr.extremum isMax (v :: r) best = Expr.extremum isMax r (pick isMax best v) := by
      cases v <;> simp [Val.isNumber] at hv <;> cases best <;> simp [Val.isNumber] at hb <;>
        cases isMax <;>
        simp only [Expr.extremum, Val.num?, pick, valLt, typeOrder, Num.lt, ne_eq,
          not_true_eq_false, if_false, Bool.false_eq_true, if_true, pow_zero, mul_one] <;>
        split <;> simp_all
    rw [step, List.foldl_cons]
    refine extremum_num isMax r _ hr' ?_
    unfold pick; repeat' split
    all_goals assumption

theorem extremumStr_eq (isMax : Bool) : ∀ (ss : List String) (s : String),
    Val.str (Expr.extremumStr isMax ss s) = (ss.map Val.str).foldl (pick isMax) (.str s)
  | [], _ => rfl
  | t :: ss, s => by
    simp only [Expr.extremumStr, List.map_cons, List.foldl_cons]
    have : pick isMax (.str s) (.str t) =
        .str (if (if isMax then s < t else t < s) then t else s) := by
      cases isMax <;> simp [pick, valLt, typeOrder, -String.lt_iff_ltb] <;> split <;> rfl
    rw [this]
    by_cases hc : (if isMax then s < t else t < s)
    · simp only [hc, if_true]; exact extremumStr_eq isMax ss t
    · simp only [hc, if_false]; exact extremumStr_eq isMax ss s

theorem strsOf_all : ∀ (ys : List Val), ys.all isStr = true →
    ∃ ss, ys = ss.map Val.str ∧ Expr.strsOf ys = some ss
  | [], _ => ⟨[], rfl, rfl⟩
  | y :: r, h => by
    simp only [List.all_cons, Bool.and_eq_true] at h
    obtain ⟨ss, h1, h2⟩ := strsOf_all r h.2
    cases y <;> simp [isStr] at h
    rename_i s
    exact ⟨s :: ss, by simp [h1], by simp [Expr.strsOf, h2]⟩

theorem dateExtremum_eq (isMax : Bool) : ∀ (r : List Val) (b : Int),
    (∀ v ∈ r, isNaiveDate v = true) →
    dateExtremum isMax r (.date b none) = r.foldl (pick isMax) (.date b none)
  | [], _, _ => rfl
  | v :: r, b, hr => by
    have hv := hr v List.mem_cons_self
    have hr' : ∀ x ∈ r, isNaiveDate x = true := fun x hx => hr x (List.mem_cons_of_mem _ hx)
    cases v <;> simp [isNaiveDate] at hv
    rename_i u o
    cases o with
    | some _ => simp at hv
    | none =>
      simp only [dateExtremum, List.foldl_cons]
      have : pick isMax (.date b none) (.date u none) =
          (if (if isMax then b < u else u < b) then Val.date u none else .date b none) := by
        cases isMax <;> simp only [pick, valLt, typeOrder, dateUtc, ne_eq, not_true_eq_false,
          if_false, Bool.false_eq_true, if_true]
        · by_cases h : u < b <;> simp [h]
        · by_cases h : b < u <;> simp [h]
      rw [this]
      by_cases hc : (if isMax then b < u else u < b)
      · simp only [hc, if_true]; exact dateExtremum_eq isMax r u hr'
      · simp only [hc, if_false]; exact dateExtremum_eq isMax r b hr'

theorem all_of_all {p q : Val → Bool} {l : List Val} (h : l.all p = true)
    (hpq : ∀ v, p v = true → q v = true) : l.all q = true := by
  simp only [List.all_eq_true] at h ⊢
  exact fun v hv => hpq v (h v hv)

theorem any_false_of_all {p q : Val → Bool} {l : List Val} (h : l.all p = true)
    (hpq : ∀ v, p v = true → q v = false) : l.any q = false := by
  simp only [List.all_eq_true] at h
  rw [List.any_eq_false]
  intro v hv
  simp [hpq v (h v hv)]

theorem ite_any_false {α} {l : List Val} {p q : Val → Bool} (hall : l.all p = true)
    (hpq : ∀ v, p v = true → q v = false) (a b : α) : (if l.any q = true then a else b) = b := by
  rw [any_false_of_all hall hpq]; rfl

theorem ite_all_true {α} {l : List Val} {p q : Val → Bool} (hall : l.all p = true)
    (hpq : ∀ v, p v = true → q v = true) (a b : α) : (if l.all q = true then a else b) = a := by
  rw [all_of_all hall hpq]; rfl

theorem ite_all_head_false {α} {y : Val} {l : List Val} {q : Val → Bool} (hy : q y = false)
    (a b : α) : (if (y :: l).all q = true then a else b) = b := by
  simp [hy]

/-- **`$min` / `$max`** over values of one class (numbers, strings or naive dates; nulls are
    skipped): the smallest / largest value in the BSON order -/
theorem acc_minmax (isMax : Bool) (values : List Val) (h : oneClass values = true) :
    accMinMax isMax values = .ok (specExtremum isMax (values.map some)) := by
  rw [specExtremum_eq, specPush_map_some]
  unfold accMinMax
  rw [notNull_eq]
  unfold oneClass at h
  generalize values.filter notNull = ys at h
  match ys, h with
  | [], _ => rfl
  | [y], _ => rfl
  | y :: z :: r, h =>
    simp only [Bool.or_eq_true] at h
    rcases h with (hn | hs) | hd
    · have hy : y.isNumber = true := by simp only [List.all_cons, Bool.and_eq_true] at hn; exact hn.1
      simp only []
      rw [ite_any_false hn (fun v hv => by cases v <;> simp_all [Val.isNumber, Val.isArr]),
        ite_any_false hn (fun v hv => by cases v <;> simp_all [Val.isNumber]),
        ite_all_true hn (fun v hv => by cases v <;> simp_all [Val.isNumber, nativeClass])]
      rw [extremum_num isMax (z :: r) y (by
        intro v hv
        simp only [List.all_eq_true] at hn
        exact hn v (List.mem_cons_of_mem _ hv)) hy]
    · have hy : isStr y = true := by simp only [List.all_cons, Bool.and_eq_true] at hs; exact hs.1
      simp only []
      rw [ite_any_false hs (fun v hv => by cases v <;> simp_all [isStr, Val.isArr]),
        ite_any_false hs (fun v hv => by cases v <;> simp_all [isStr]),
        ite_all_head_false (by cases y <;> simp_all [isStr, nativeClass]),
        ite_all_true hs (fun v hv => by cases v <;> simp_all [isStr, nativeClass])]
      obtain ⟨ss, e1, e2⟩ := strsOf_all _ hs
      rw [e2]
      cases ss with
      | nil => simp at e1
      | cons s ss =>
        simp only [List.map_cons, List.cons.injEq] at e1
        obtain ⟨rfl, e1⟩ := e1
        simp only [extremumStr_eq, e1]
    · have hy : isNaiveDate y = true := by
        simp only [List.all_cons, Bool.and_eq_true] at hd; exact hd.1
      have nd : ∀ v, isNaiveDate v = true → ∃ u, v = .date u none := by
        intro v hv
        cases v <;> simp [isNaiveDate] at hv
        rename_i u o
        cases o with
        | some _ => simp at hv
        | none => exact ⟨u, rfl⟩
      simp only []
      rw [ite_any_false hd (fun v hv => by obtain ⟨u, rfl⟩ := nd v hv; rfl),
        ite_any_false hd (fun v hv => by obtain ⟨u, rfl⟩ := nd v hv; rfl),
        ite_all_head_false (by obtain ⟨u, rfl⟩ := nd y hy; rfl),
        ite_all_head_false (by obtain ⟨u, rfl⟩ := nd y hy; rfl),
        ite_all_true hd (fun v hv => by obtain ⟨u, rfl⟩ := nd v hv; rfl)]
      obtain ⟨u, rfl⟩ := nd y hy
      rw [dateExtremum_eq isMax (z :: r) u (by
        intro v hv
        simp only [List.all_eq_true] at hd
        exact hd v (List.mem_cons_of_mem _ hv))]

/-! ### `$addToSet` -/

theorem pyIn_eq_any_keyEq (v : Val) (acc : List Val) (hv : groupKeyOk v = true)
    (hacc : ∀ a ∈ acc, groupKeyOk a = true) : pyIn v acc = acc.any (fun a => keyEq a v) := by
  unfold pyIn
  induction acc with
  | nil => rfl
  | cons a r ih =>
    simp only [List.any_cons]
    rw [ih (fun x hx => hacc x (List.mem_cons_of_mem _ hx)),
      pyEq_eq_tie a v (hacc a List.mem_cons_self) hv]
    rfl

theorem addToSetLoop_eq : ∀ (vs acc : List Val), (∀ v ∈ vs, setOk v = true) →
    (∀ a ∈ acc, groupKeyOk a = true) →
    addToSetLoop vs acc =
      acc ++ (distinctKeys vs).filter (fun x => !acc.any (fun a => keyEq a x))
  | [], acc, _, _ => by simp [addToSetLoop, distinctKeys]
  | v :: r, acc, hvs, hacc => by
    have hv := hvs v List.mem_cons_self
    have hr : ∀ x ∈ r, setOk x = true := fun x hx => hvs x (List.mem_cons_of_mem _ hx)
    simp only [setOk, Bool.and_eq_true] at hv
    have he : (if v.truthy then v else Val.null) = v := by
      rcases Bool.or_eq_true _ _ |>.mp hv.2 with h | h
      · simp [h]
      · cases v <;> simp_all [notNull]
    simp only [addToSetLoop, he, pyIn_eq_any_keyEq v acc hv.1 hacc, distinctKeys,
      List.filter_cons]
    cases hin : acc.any (fun a => keyEq a v) with
    | true =>
      simp only [if_true, Bool.not_true, Bool.false_eq_true, if_false]
      rw [addToSetLoop_eq r acc hr hacc, List.filter_filter]
      congr 1
      apply filter_congr_mem
      intro x _
      cases hax : acc.any (fun a => keyEq a x) with
      | true => rfl
      | false =>
        -- some `a` of `acc` is equal to `v`; `x` is equal to no `a`; so `x` differs from `v`
        obtain ⟨a, ha, hav⟩ := List.any_eq_true.mp hin
        have hax' : keyEq a x = false := by
          have := List.any_eq_false.mp hax a ha
          simpa using this
        have : keyEq v x = false := by rw [← keyEq_congr_left hav x]; exact hax'
        simp [this]
    | false =>
      simp only [Bool.false_eq_true, if_false, Bool.not_false, if_true]
      rw [addToSetLoop_eq r (acc ++ [v]) hr (by
        intro a ha
        rcases List.mem_append.mp ha with h | h
        · exact hacc a h
        · rw [List.mem_singleton.mp h]; exact hv.1), List.filter_filter, List.append_assoc]
      congr 1
      rw [List.singleton_append]
      congr 1
      apply filter_congr_mem
      intro x _
      simp only [List.any_append, List.any_cons, List.any_nil, Bool.or_false, Bool.not_or]

/-- **`$addToSet`** over scalar values that are truthy or null: each distinct value once, by
    first appearance -/
theorem acc_addToSet (values : List Val) (h : ∀ v ∈ values, setOk v = true) :
    accApply "$addToSet" values = .ok (.arr (specAddToSet values)) := by
  have := addToSetLoop_eq values [] h (by simp)
  simp only [List.any_nil, Bool.not_false, List.filter_true, List.nil_append] at this
  simp [accApply, this, specAddToSet]

/-! ### `$sum` over integers mixed with non-numbers -/

theorem numsOf_sumOk : ∀ (values : List Val), (∀ v ∈ values, sumOk v = true) →
    Expr.numsOf values = (specInts (values.map some)).map Expr.PyNum.i
  | [], _ => rfl
  | v :: r, h => by
    have hv := h v List.mem_cons_self
    have ih := numsOf_sumOk r (fun x hx => h x (List.mem_cons_of_mem _ hx))
    simp only [specInts] at ih ⊢
    cases v <;> simp_all [sumOk, isBoolV, isDblV, Expr.numsOf, Expr.toPyNum]

theorem specSumInt_eq (vals : List (Option Val)) :
    specSumInt vals = (specInts vals).foldl (· + ·) 0 := rfl

/-- **`$sum`**: the integers are added, values that are not numbers are ignored -/
theorem acc_sum (values : List Val) (h : ∀ v ∈ values, sumOk v = true) :
    accApply "$sum" values = .ok (.int (specSumInt (values.map some))) := by
  simp only [accApply, Expr.groupingOnList, if_true, Bool.true_or, decide_true,
    numsOf_sumOk values h, sumNums_ints, bind, Except.bind, Expr.PyNum.toVal, specSumInt_eq]

/-! ### `$first` / `$last` -/

theorem specFirst_present : ∀ (vals : List (Option Val)), firstOk vals = true →
    specFirst ((specPush vals).map some) = specFirst vals
  | [], _ => rfl
  | some v :: r, _ => by simp [specFirst, specPush]
  | none :: r, h => by
    simp only [firstOk, List.all_eq_true, Option.isNone_iff_eq_none] at h
    have : specPush (none :: r) = [] := by
      simp only [specPush, List.filterMap_cons, id]
      rw [List.filterMap_eq_nil_iff]
      intro a ha; exact h a ha
    rw [this]; rfl

theorem specPush_reverse (vals : List (Option Val)) :
    specPush vals.reverse = (specPush vals).reverse := by
  simp [specPush, List.filterMap_reverse]

theorem specLast_eq_first (vals : List (Option Val)) : specLast vals = specFirst vals.reverse := by
  simp [specLast, specFirst, List.head?_reverse]

theorem specLast_present (vals : List (Option Val)) (h : firstOk vals.reverse = true) :
    specLast ((specPush vals).map some) = specLast vals := by
  rw [specLast_eq_first, specLast_eq_first, ← List.map_reverse, ← specPush_reverse]
  exact specFirst_present _ h

end MongoModel.Pipe.Proofs
