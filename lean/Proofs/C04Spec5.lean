/-
  Proofs.C04Spec5 — `eval_eq_spec`, part 5: unary arithmetic, comparisons against the BSON
  order, arrays, strings, date parts — operator bodies on evaluated operands inside D.
-/
import Proofs.C04Spec4

set_option linter.unusedSimpArgs false
set_option linter.unnecessarySeqFocus false

namespace MongoModel.Proofs.C04
open MongoModel MongoModel.Expr MongoModel.Spec

/-- `$abs $ceil $floor $trunc` (a boolean is rejected on both sides): the result keeps the operand's type -/
theorem unary_pure (k : String) (hk : k = "$abs" ∨ k = "$ceil" ∨ k = "$floor" ∨ k = "$trunc")
    (a : Option Val)
    (r : Val) (hs : arith1 k a = .ok r) : unaryArithOpt k a = .ok r := by
  unfold arith1 at hs
  cases a with
  | none => simpa [nullish, unaryArithOpt] using hs
  | some x =>
    cases x with
    | null => simpa [nullish, unaryArithOpt] using hs
    | int n =>
      simp only [nullish, Bool.false_eq_true, if_false] at hs
      rcases hk with rfl | rfl | rfl | rfl <;>
        simpa [unaryArithOpt, toPyNum, unaryArith] using hs
    | dbl m e =>
      simp only [nullish, Bool.false_eq_true, if_false] at hs
      rcases hk with rfl | rfl | rfl | rfl <;>
        simpa [unaryArithOpt, toPyNum, unaryArith] using hs
    | _ => simp [nullish] at hs

/-! ### comparisons: `bsonCmp` is the BSON order on flat values -/

theorem scalar_ord (a b : Val) (ha : cmpScalar a = true) (hb : cmpScalar b = true) :
    bsonCmp a b = .ok (ord a b) := by
  rcases cmpScalar_cases a ha with rfl | ⟨x, rfl⟩ | ⟨i, rfl⟩ | ⟨m, e, rfl⟩ | ⟨s, rfl⟩ | ⟨u, rfl⟩ <;>
  rcases cmpScalar_cases b hb with rfl | ⟨y, rfl⟩ | ⟨j, rfl⟩ | ⟨m', e', rfl⟩ | ⟨s', rfl⟩ | ⟨u', rfl⟩ <;>
  simp [bsonCmp, Val.tc, leafCmp, Val.num?, ord, rank, natCmp, numOrd, strCmp, dateUtc] <;>
  decide

theorem list_ord (xs ys : List Val) (hx : ∀ x ∈ xs, cmpScalar x = true)
    (hy : ∀ y ∈ ys, cmpScalar y = true)
    (hc : ∀ x ∈ xs, ∀ y ∈ ys, boolNumClash x y = false) :
    bsonCmpList xs ys = .ok (ordList xs ys) := by
  induction xs generalizing ys with
  | nil => cases ys <;> simp [bsonCmpList, ordList]
  | cons x xs ih =>
    cases ys with
    | nil => simp [bsonCmpList, ordList]
    | cons y ys =>
      have hsx := hx x (by simp)
      have hsy := hy y (by simp)
      obtain ⟨o, ho, he⟩ := scalar_eq_cmp x y hsx hsy (hc x (by simp) y (by simp))
      have hord := scalar_ord x y hsx hsy
      rw [hord] at ho
      cases ho
      have ih' := ih ys (fun a ha => hx a (by simp [ha])) (fun b hb => hy b (by simp [hb]))
        (fun a ha b hb => hc a (by simp [ha]) b (by simp [hb]))
      simp only [bsonCmpList, ordList, he]
      cases h : ord x y <;> simp [h, hord, ih']

/-- flat operands (no boolean/number clash when arrays are involved) -/
theorem flat_ord (a b : Val) (ha : cmpFlat a = true) (hb : cmpFlat b = true)
    (hc : (a.isArr || b.isArr) = true → boolNumClash a b = false) :
    bsonCmp a b = .ok (ord a b) := by
  cases a with
  | arr xs =>
    cases b with
    | arr ys =>
      simp only [cmpFlat, List.all_eq_true] at ha hb
      have hc' := hc (by simp [Val.isArr])
      have hcl : ∀ x ∈ xs, ∀ y ∈ ys, boolNumClash x y = false := by
        intro x hx y hy
        simp only [boolNumClash, hasBool, has01, Bool.and_eq_false_iff, Bool.or_eq_false_iff] at hc' ⊢
        rcases hc' with ⟨h1, h2⟩ | ⟨h1, h2⟩
        · left
          constructor
          · cases h : hasBool x
            · rfl
            · rw [hasBoolList_mem xs x hx h] at h1; cases h1
          · cases h : hasBool y
            · rfl
            · rw [hasBoolList_mem ys y hy h] at h2; cases h2
        · right
          constructor
          · cases h : has01 x
            · rfl
            · rw [has01List_mem xs x hx h] at h1; cases h1
          · cases h : has01 y
            · rfl
            · rw [has01List_mem ys y hy h] at h2; cases h2
      simpa [bsonCmp, ord] using list_ord xs ys ha hb hcl
    | date u o =>
      cases o with
      | none => simp [bsonCmp, Val.tc, ord, rank, natCmp]; decide
      | some off => simp [cmpFlat, cmpScalar] at hb
    | oid n => simp [cmpFlat, cmpScalar] at hb
    | doc fs => simp [cmpFlat, cmpScalar] at hb
    | _ => all_goals (simp [bsonCmp, Val.tc, ord, rank, natCmp]; decide)
  | date u o =>
    cases o with
    | some off => simp [cmpFlat, cmpScalar] at ha
    | none =>
      cases b with
      | arr ys => simp [bsonCmp, Val.tc, ord, rank, natCmp]; decide
      | _ => all_goals exact scalar_ord _ _ (by simpa [cmpFlat] using ha) (by simpa [cmpFlat] using hb)
  | oid n => simp [cmpFlat, cmpScalar] at ha
  | doc fs => simp [cmpFlat, cmpScalar] at ha
  | _ =>
    all_goals
      cases b with
      | arr ys => simp [bsonCmp, Val.tc, ord, rank, natCmp]; decide
      | _ => all_goals exact scalar_ord _ _ (by simpa [cmpFlat] using ha) (by simpa [cmpFlat] using hb)

theorem append_nil_iff3 {α} (a b c : List α) : a ++ b ++ c = [] ↔ a = [] ∧ b = [] ∧ c = [] := by
  simp [List.append_eq_nil_iff, and_assoc]

theorem ite_nil {α} (c : Bool) (x : α) : (if c = true then [x] else []) = [] ↔ c = false := by
  cases c <;> simp

/-- the six comparison operators on two present operands inside D -/
theorem compare_pure (k : String)
    (hk : k = "$eq" ∨ k = "$ne" ∨ k = "$gt" ∨ k = "$gte" ∨ k = "$lt" ∨ k = "$lte") (a b : Val)
    (hr : strictReasons k [some a, some b] = []) :
    compareOp k a b = cmpHoldsOrd k (ord a b) := by
  have hna : arithOps.contains k = false := by
    rcases hk with rfl | rfl | rfl | rfl | rfl | rfl <;> decide
  have hc6 : ["$eq", "$ne", "$gt", "$gte", "$lt", "$lte"].contains k = true := by
    rcases hk with rfl | rfl | rfl | rfl | rfl | rfl <;> decide
  simp only [strictReasons, hna, hc6, Bool.false_eq_true, if_false, if_true] at hr
  -- flatness, and the clash condition in the form each operator needs
  have hflat : cmpFlat a = true ∧ cmpFlat b = true := by
    split at hr
    · simp only [eqReasons, append_nil_iff3] at hr
      have := hr.2.2
      by_contra hc
      have : (cmpFlat a && cmpFlat b) = false := by
        simp only [not_and_or, Bool.not_eq_true] at hc
        rcases hc with h | h <;> simp [h]
      simp [this] at hr
    · simp only [append_nil_iff3] at hr
      have := hr.2.2
      by_contra hc
      have : (cmpFlat a && cmpFlat b) = false := by
        simp only [not_and_or, Bool.not_eq_true] at hc
        rcases hc with h | h <;> simp [h]
      simp [this] at hr
  have hclashArr : (a.isArr || b.isArr) = true → boolNumClash a b = false := by
    intro harr
    split at hr
    · simp only [eqReasons, append_nil_iff3] at hr
      have := hr.1
      by_contra hc
      simp [hc] at this
    · simp only [append_nil_iff3] at hr
      have := hr.1
      by_contra hc
      simp [harr, hc] at this
  have hord := flat_ord a b hflat.1 hflat.2 hclashArr
  rcases hk with rfl | rfl | rfl | rfl | rfl | rfl
  · have hcl : boolNumClash a b = false := by
      simp only [eqReasons, decide_true, Bool.true_or, Bool.or_true, if_true,
        append_nil_iff3] at hr
      have := hr.1
      by_contra hc
      simp [hc] at this
    obtain ⟨o, ho, he⟩ := flat_eq_cmp a b hflat.1 hflat.2 hcl
    rw [hord] at ho; cases ho
    simp [compareOp, cmpHoldsOrd, he]
  · have hcl : boolNumClash a b = false := by
      simp only [eqReasons, decide_true, Bool.true_or, Bool.or_true, if_true,
        append_nil_iff3] at hr
      have := hr.1
      by_contra hc
      simp [hc] at this
    obtain ⟨o, ho, he⟩ := flat_eq_cmp a b hflat.1 hflat.2 hcl
    rw [hord] at ho; cases ho
    simp [compareOp, cmpHoldsOrd, he, bne]
  · simp [compareOp, cmpHoldsOrd, bsonCompare_eq, hord, Except.map, CmpOp.holds]
  · simp [compareOp, cmpHoldsOrd, bsonCompare_eq, hord, Except.map, CmpOp.holds]
  · simp [compareOp, cmpHoldsOrd, bsonCompare_eq, hord, Except.map, CmpOp.holds]
  · simp [compareOp, cmpHoldsOrd, bsonCompare_eq, hord, Except.map, CmpOp.holds]

end MongoModel.Proofs.C04
