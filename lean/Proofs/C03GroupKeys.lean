/-
  Proofs.C03GroupKeys — the `$group` stage on scalar keys: the sort of `_handle_group_stage` is
  the stable sort by the BSON order, whose ties are Python's `==` there, so the runs of
  `itertools.groupby` are the key classes in input order.
-/
import Proofs.C03Group
import Proofs.C11Model
import Spec.PipelineDomain

namespace MongoModel.Pipe.Proofs
open MongoModel MongoModel.Pipe MongoModel.Proofs.C11 MongoModel.Spec.Order MongoModel.Spec.Pipe

theorem strictWeak_valLt : StrictWeak valLt :=
  strictWeak_of_embedding valLt embV valLt_iff

theorem int_tie (x y : Int) : (x == y) = (!decide (x < y) && !decide (y < x)) := by
  by_cases h1 : x < y
  · have : ¬ y < x := by omega
    have : ¬ x = y := by omega
    simp [*]
  · by_cases h2 : y < x
    · have : ¬ x = y := by omega
      simp [*]
    · have : x = y := by omega
      simp [*]

theorem str_tie (x y : String) : (x == y) = (!decide (x < y) && !decide (y < x)) := by
  by_cases h1 : x < y
  · have h2 : ¬ y < x := lt_asymm h1
    have : ¬ x = y := ne_of_lt h1
    simp [*]
  · by_cases h2 : y < x
    · have : ¬ x = y := (ne_of_lt h2).symm
      simp [*]
    · have : x = y := le_antisymm (not_lt.mp h2) (not_lt.mp h1)
      simp [*]

theorem pyEq_eq_tie (a b : Val) (ha : groupKeyOk a = true) (hb : groupKeyOk b = true) :
    pyEq a b = tie valLt a b := by
  rcases a with _ | _ | x | ⟨m, e⟩ | x | ⟨u, _ | o⟩ | _ | _ | _ <;>
  rcases b with _ | _ | y | ⟨m', e'⟩ | y | ⟨u', _ | o'⟩ | _ | _ | _ <;>
  simp [groupKeyOk] at ha hb <;>
  simp [-String.lt_iff_ltb, pyEq, tie, valLt, typeOrder, Num.eq, Num.lt, dateUtc] <;>
  first
    | exact int_tie _ _
    | exact str_tie _ _
    | (rw [int_tie]; simp [Bool.and_comm])

theorem keyOrder_valLt : KeyOrder valLt (fun k => groupKeyOk k = true) :=
  ⟨strictWeak_valLt, pyEq_eq_tie⟩

theorem groupKeyOk_reasons (k : Val) (h : groupKeyOk k = true) : valReasons k = [] := by
  rcases k with _ | _ | _ | _ | _ | ⟨u, _ | o⟩ | _ | _ | _ <;> simp [groupKeyOk] at h <;> rfl

theorem keyedLt_ok (a b : Val × Val) (ha : groupKeyOk a.1 = true) (hb : groupKeyOk b.1 = true) :
    keyedLt a b = .ok (valLt a.1 b.1) := by
  have := keyLt_eq_spec ⟨1, a.1⟩ ⟨1, b.1⟩ (groupKeyOk_reasons _ ha) (groupKeyOk_reasons _ hb)
  simpa [MongoModel.keyLt, Spec.Order.keyLt, keyedLt] using this

/-- inside the domain the sort of `$group` is the stable sort by the BSON order of the keys -/
theorem group_sort_eq (kds : List (Val × Val)) (hK : ∀ p ∈ kds, groupKeyOk p.1 = true) :
    pySorted keyedLt false kds = .ok (isort (fun a b : Val × Val => valLt a.1 b.1) kds) := by
  have hok : pairsOk keyedLt kds = true := by
    apply pairsOk_of
    intro a ha b hb
    rw [keyedLt_ok a b (hK a ha) (hK b hb)]; rfl
  simp only [pySorted, hok, if_true, Bool.false_eq_true, if_false]
  congr 1
  apply isort_congr
  intro a ha b hb
  rw [keyedLt_ok a b (hK a ha) (hK b hb)]
  cases valLt a.1 b.1 <;> rfl

theorem strictWeak_pairs : StrictWeak (fun a b : Val × Val => valLt a.1 b.1) :=
  ⟨fun a b h => strictWeak_valLt.asymm a.1 b.1 h,
   fun a b c h1 h2 => strictWeak_valLt.negTrans a.1 b.1 c.1 h1 h2⟩

theorem keyShallow_of_ok (k : Val) (h : groupKeyOk k = true) : keyShallow k = true :=
  keyShallow_of_reasons k (groupKeyOk_reasons k h)

/-! ### `keyed`, `emitGroups` -/

theorem keyed_ok (idExpr : Val) : ∀ (docs : List Val) (kds : List (Val × Val)),
    keyed idExpr docs = .ok kds →
    kds.map (·.2) = docs ∧ ∀ p ∈ kds, groupKey idExpr p.2 = .ok p.1
  | [], kds, h => by simp [keyed] at h; subst h; simp
  | d :: ds, kds, h => by
    simp only [keyed] at h
    cases hk : groupKey idExpr d with
    | error e => simp [hk] at h
    | ok k =>
      cases hr : keyed idExpr ds with
      | error e => simp [hk, hr] at h
      | ok r =>
        simp only [hk, hr, Except.ok.injEq] at h
        subst h
        obtain ⟨i1, i2⟩ := keyed_ok idExpr ds r hr
        refine ⟨by simp [i1], ?_⟩
        intro p hp
        rcases List.mem_cons.mp hp with rfl | hp
        · exact hk
        · exact i2 p hp

theorem emitGroups_ok (options : Fields) : ∀ (rs : List (Val × List Val)) (out : List Val),
    emitGroups options rs = .ok out →
    List.Forall₂ (fun r o => ∃ fs, accumulate options r.2 = .ok fs ∧ o = .doc (dset "_id" r.1 fs))
      rs out
  | [], out, h => by simp [emitGroups] at h; subst h; exact List.Forall₂.nil
  | (k, g) :: rest, out, h => by
    simp only [emitGroups] at h
    cases ha : accumulate options g with
    | error e => simp [ha] at h
    | ok fs =>
      cases hr : emitGroups options rest with
      | error e => simp [ha, hr] at h
      | ok r =>
        simp only [ha, hr, Except.ok.injEq] at h
        subst h
        exact List.Forall₂.cons ⟨fs, ha, rfl⟩ (emitGroups_ok options rest r hr)

/-! ### the accumulators are validated before anything is read -/

theorem groupStage_eq (options : Fields) (docs : List Val) :
    groupStage (.doc options) docs =
      (match validateAccs options with
       | .error e => .error e
       | .ok _ => groupBody options docs) := rfl

/-- a bad accumulator name (or a field value that is no document) is THE error of the stage,
    whatever the documents — none included — and whatever else is wrong with the stage -/
theorem groupStage_invalid (options : Fields) (docs : List Val) (e : Err)
    (h : validateAccs options = .error e) : groupStage (.doc options) docs = .error e := by
  rw [groupStage_eq, h]

theorem groupStage_valid (options : Fields) (docs : List Val)
    (h : validateAccs options = .ok ()) : groupStage (.doc options) docs = groupBody options docs := by
  rw [groupStage_eq, h]

theorem groupStage_ok (options : Fields) (docs out : List Val)
    (h : groupStage (.doc options) docs = .ok out) :
    validateAccs options = .ok () ∧ groupBody options docs = .ok out := by
  rw [groupStage_eq] at h
  cases hv : validateAccs options with
  | error e => rw [hv] at h; cases h
  | ok u => rw [hv] at h; exact ⟨rfl, h⟩

/-- what `$group` returns, whatever the key expression: the groups cover the input exactly once -/
theorem groupBody_groups (options : Fields) (docs out : List Val)
    (h : groupBody options docs = .ok out) :
    ∃ rs : List (Val × List Val), emitGroups options rs = .ok out ∧
      (rs.flatMap (·.2)).Perm docs := by
  simp only [groupBody] at h
  split at h
  · cases h
  · rename_i idExpr hid
    split at h
    · cases hk : keyed idExpr docs with
      | error e => simp [hk] at h
      | ok kds =>
        simp only [hk] at h
        split at h
        · cases h
        · cases hs : pySorted keyedLt false kds with
          | error e => simp [hs] at h
          | ok sorted =>
            simp only [hs] at h
            refine ⟨groupRuns sorted, h, ?_⟩
            rw [groupRuns_flatten, ← (keyed_ok idExpr docs kds hk).1]
            exact (pySorted_perm _ _ _ _ hs).map _
    · refine ⟨if docs.isEmpty then [] else [(.null, docs)], h, ?_⟩
      cases docs <;> simp

theorem groupStage_groups (options : Fields) (docs out : List Val)
    (h : groupStage (.doc options) docs = .ok out) :
    ∃ rs : List (Val × List Val), emitGroups options rs = .ok out ∧
      (rs.flatMap (·.2)).Perm docs :=
  groupBody_groups options docs out (groupStage_ok options docs out h).2

/-- no input, no group — whatever the `_id` expression (a constant included) -/
theorem groupBody_empty (options : Fields) (idExpr : Val)
    (hid : dget "_id" options = some idExpr) : groupBody options [] = .ok [] := by
  have hs : pySorted keyedLt false ([] : List (Val × Val)) = .ok [] := by
    simp [pySorted, pairsOk, isort]
  cases hn : Expr.isNull idExpr <;>
    simp [groupBody, hid, hn, keyed, hs, groupRuns, emitGroups]

/-- `_id: null`: one group holding every document, in input order — none over no input -/
theorem groupBody_null_id (options : Fields) (docs : List Val)
    (hid : dget "_id" options = some .null) :
    groupBody options docs =
      emitGroups options (if docs.isEmpty then [] else [(.null, docs)]) := by
  simp [groupBody, hid, Expr.isNull]

/-- **`$group` partitions its input by key** (scalar keys): the groups have pairwise different
    keys, the group of key `k` holds exactly the documents whose key is `==` to `k`, in input
    order, and every document's key has its group. -/
theorem groupBody_partition (options : Fields) (idExpr : Val) (docs out : List Val)
    (kds : List (Val × Val))
    (hid : dget "_id" options = some idExpr) (ht : Expr.isNull idExpr = false)
    (hk : keyed idExpr docs = .ok kds) (hK : ∀ p ∈ kds, groupKeyOk p.1 = true)
    (h : groupBody options docs = .ok out) :
    ∃ rs : List (Val × List Val), emitGroups options rs = .ok out ∧
      rs.Pairwise (fun a b => pyEq a.1 b.1 = false) ∧
      (∀ r ∈ rs, (∃ p ∈ kds, p.1 = r.1) ∧
        r.2 = (kds.filter (fun p => pyEq r.1 p.1)).map (·.2)) ∧
      (∀ p ∈ kds, ∃ r ∈ rs, pyEq r.1 p.1 = true) := by
  have hshallow : kds.all (fun kd => keyShallow kd.1) = true := by
    simp only [List.all_eq_true]; intro p hp; exact keyShallow_of_ok _ (hK p hp)
  simp only [groupBody, hid, ht, Bool.not_false, if_true, hk, hshallow, Bool.not_true,
    Bool.false_eq_true, if_false, group_sort_eq kds hK] at h
  set ltp := fun a b : Val × Val => valLt a.1 b.1 with hltp
  have hperm : (isort ltp kds).Perm kds := isort_perm _ _
  have hKs : ∀ p ∈ isort ltp kds, groupKeyOk p.1 = true := fun p hp => hK p (hperm.mem_iff.1 hp)
  obtain ⟨g1, g2, g3⟩ := groupRuns_sorted keyOrder_valLt (isort ltp kds).length (isort ltp kds)
    (Nat.le_refl _) hKs (isort_sorted strictWeak_pairs kds)
  refine ⟨groupRuns (isort ltp kds), h, g1, ?_, ?_⟩
  · intro r hr
    obtain ⟨⟨p, hp, hpk⟩, hg⟩ := g2 r hr
    have hKr : groupKeyOk r.1 = true := hpk ▸ hKs p hp
    refine ⟨⟨p, hperm.mem_iff.1 hp, hpk⟩, ?_⟩
    rw [hg]
    congr 1
    have hst := isort_stable strictWeak_pairs kds (r.1, Val.null)
    have e1 : (isort ltp kds).filter (fun p => pyEq r.1 p.1) =
        (isort ltp kds).filter (tie ltp (r.1, Val.null)) :=
      filter_congr_mem _ (fun x hx => by
        rw [pyEq_eq_tie _ _ hKr (hKs x hx)]; simp [tie, hltp])
    have e2 : kds.filter (fun p => pyEq r.1 p.1) = kds.filter (tie ltp (r.1, Val.null)) :=
      filter_congr_mem _ (fun x hx => by
        rw [pyEq_eq_tie _ _ hKr (hK x hx)]; simp [tie, hltp])
    rw [e1, e2]; exact hst
  · intro p hp
    exact g3 p (hperm.mem_iff.2 hp)

theorem groupStage_partition (options : Fields) (idExpr : Val) (docs out : List Val)
    (kds : List (Val × Val))
    (hid : dget "_id" options = some idExpr) (ht : Expr.isNull idExpr = false)
    (hk : keyed idExpr docs = .ok kds) (hK : ∀ p ∈ kds, groupKeyOk p.1 = true)
    (h : groupStage (.doc options) docs = .ok out) :
    ∃ rs : List (Val × List Val), emitGroups options rs = .ok out ∧
      rs.Pairwise (fun a b => pyEq a.1 b.1 = false) ∧
      (∀ r ∈ rs, (∃ p ∈ kds, p.1 = r.1) ∧
        r.2 = (kds.filter (fun p => pyEq r.1 p.1)).map (·.2)) ∧
      (∀ p ∈ kds, ∃ r ∈ rs, pyEq r.1 p.1 = true) :=
  groupBody_partition options idExpr docs out kds hid ht hk hK (groupStage_ok options docs out h).2

/-- over no input: the accumulators are still validated, then there is no group -/
theorem groupStage_empty (options : Fields) (idExpr : Val)
    (hid : dget "_id" options = some idExpr) :
    groupStage (.doc options) [] =
      (match validateAccs options with
       | .error e => .error e
       | .ok _ => .ok []) := by
  rw [groupStage_eq]
  cases validateAccs options with
  | error e => rfl
  | ok u => exact groupBody_empty options idExpr hid

theorem groupStage_null_id (options : Fields) (docs : List Val)
    (hid : dget "_id" options = some .null) (hv : validateAccs options = .ok ()) :
    groupStage (.doc options) docs =
      emitGroups options (if docs.isEmpty then [] else [(.null, docs)]) := by
  rw [groupStage_valid options docs hv, groupBody_null_id options docs hid]

end MongoModel.Pipe.Proofs
