/-
  Proofs.C18Filter — normalisation commutes with path access at every depth, and equivalent
  datetime operands give the same query (model of the matcher: MongoModel.Filter).
-/
import Proofs.C18

namespace MongoModel.Proofs.C18
open MongoModel

/-! ### at every depth: `get_value_by_dot` commutes with the two rebuilding maps -/

theorem getByDotParts_patch : ∀ (ps : List String) (v : Val),
    getByDotParts ps (patch v) = (getByDotParts ps v).map patch
  | [], v => by simp [getByDotParts, Except.map]
  | p :: ps, v => by
    cases v with
    | doc fs =>
      simp only [patch, getByDotParts, dget_patchFields]
      cases dget p fs with
      | none => simp [Except.map]
      | some x => simpa using getByDotParts_patch ps x
    | arr xs =>
      simp only [patch, getByDotParts]
      cases pyInt? p with
      | none => simp [Except.map]
      | some i =>
        by_cases hi : i < 0
        · simp [hi, unmodelled, Except.map]
        · simp only [hi, if_false, getElem?_patchList]
          cases xs[i.toNat]? with
          | none => simp [Except.map]
          | some x => simpa using getByDotParts_patch ps x
    | _ => simp [patch, getByDotParts, Except.map]

theorem getByDotParts_makeAware : ∀ (ps : List String) (v : Val),
    getByDotParts ps (makeAware v) = (getByDotParts ps v).map makeAware
  | [], v => by simp [getByDotParts, Except.map]
  | p :: ps, v => by
    cases v with
    | doc fs =>
      simp only [makeAware, getByDotParts, dget_makeAwareFields]
      cases dget p fs with
      | none => simp [Except.map]
      | some x => simpa using getByDotParts_makeAware ps x
    | arr xs =>
      simp only [makeAware, getByDotParts]
      cases pyInt? p with
      | none => simp [Except.map]
      | some i =>
        by_cases hi : i < 0
        · simp [hi, unmodelled, Except.map]
        · simp only [hi, if_false, getElem?_makeAwareList]
          cases xs[i.toNat]? with
          | none => simp [Except.map]
          | some x => simpa using getByDotParts_makeAware ps x
    | _ => simp [makeAware, getByDotParts, Except.map]

/-- whatever datetime sits at the end of any path of the input, the `tz_aware` result holds the
    same wall clock, aware, offset 0, at the end of the same path -/
theorem makeAware_depth (ps : List String) (v : Val) (u : Int) (o : Option Int)
    (h : getByDotParts ps v = .ok (.date u o)) :
    getByDotParts ps (makeAware v) = .ok (.date u (some 0)) := by
  rw [getByDotParts_makeAware, h]; rfl

theorem patch_depth (ps : List String) (v : Val) (u : Int) (o : Option Int)
    (h : getByDotParts ps v = .ok (.date u o)) :
    getByDotParts ps (patch v) = .ok (.date (floorMs (dateUtc u o)) none) := by
  rw [getByDotParts_patch, h]; rfl

/-! ### equivalent operands -/

theorem equivalent_operand_finds (k : String) (a b d : Val) (h : sameMillisecond a b) :
    filterApplies (patch (.doc [(k, a)])) d = filterApplies (patch (.doc [(k, b)])) d := by
  cases a <;> cases b <;> simp only [sameMillisecond] at h
  rename_i u o u' o'
  have := (patch_instant u o u' o').2 h
  simp only [patch, patchFields] at this ⊢
  rw [this]

/-- the datetime may sit anywhere in the filter (inside `$in` lists, under `$gt`, in
    `$elemMatch`, in `$and` / `$or` branches, in embedded-document operands) -/
theorem equivalent_filter_finds (f g d : Val) (h : SameMs f g) :
    filterApplies (patch f) d = filterApplies (patch g) d := by
  rw [patch_eq_of_sameMs f g h]

/-- the `$match` stage patches both sides (aggregate.py:1601-1606) -/
theorem equivalent_match_stage (f g d : Val) (h : SameMs f g) :
    filterApplies (patch f) (patch d) = filterApplies (patch g) (patch d) :=
  equivalent_filter_finds f g (patch d) h

/-! ### found / not found, for a plain key -/

/-- a key that `_Filterer.apply` treats as a field path -/
def plainKey (k : String) : Bool :=
  k != "$comment" && !logicalKeys.contains k && k != "$expr" && !topLevelOperators.contains k
    && !k.startsWith "$"

theorem applyFields_single_date (k : String) (m m' : Int) (d : Val) (hk : plainKey k = true)
    (hc : candsKey k d = .ok [some (.date m none)]) :
    applyFields [(k, .date m' none)] d = .ok (m == m') := by
  simp only [plainKey, Bool.and_eq_true, bne_iff_ne, ne_eq, Bool.not_eq_eq_eq_not, Bool.not_true]
    at hk
  obtain ⟨⟨⟨⟨h1, h2⟩, h3⟩, h4⟩, h5⟩ := hk
  have hp : pyEq (.date m none) (.date m' none) = (m == m') := by simp [pyEq]
  simp only [applyFields, h1, h2, h3, h4, h5, if_false, Bool.false_eq_true, applyKey, hc,
    plainMatch]
  cases hm : (m == m') <;> simp [candLoop, bind, Except.bind, pure, Except.pure, hp, hm]

/-- a document whose field `k` holds the stored form of `a` is found by the query `{k: b}` iff
    `b` denotes the same millisecond as `a` -/
theorem found_iff_same_millisecond (k : String) (u : Int) (o : Option Int) (u' : Int)
    (o' : Option Int) (d : Val) (hk : plainKey k = true)
    (hc : candsKey k d = .ok [some (patch (.date u o))]) :
    filterApplies (patch (.doc [(k, .date u' o')])) d
      = .ok (msOf u o == msOf u' o') := by
  simp only [patch] at hc
  simp only [filterApplies, applyVal, patch, patchFields]
  rw [applyFields_single_date k _ _ d hk hc]
  congr 1
  rw [Bool.eq_iff_iff]
  simp [msOf, floorMs_eq_iff]

end MongoModel.Proofs.C18
