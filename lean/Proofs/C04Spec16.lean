/-
  Proofs.C04Spec16 — `eval_eq_spec`: `$filter`.
-/
import Proofs.C04Spec15

set_option linter.unusedSimpArgs false
set_option linter.unnecessarySeqFocus false

namespace MongoModel.Proofs.C04
open MongoModel MongoModel.Expr MongoModel.Spec

/-- how `eval` runs `$filter` on any argument document -/
theorem filter_unfold (c : Ctx) (gs : Fields) :
    eval c (.doc [("$filter", .doc gs)]) =
      (if gs.any (fun kv => !(["input", "cond", "as"].contains kv.1)) = true then .error .opFail
       else if (!(dhas "input" gs) || !(dhas "cond" gs)) = true then .error .opFail
       else match asName gs with
         | none => .error .opFail
         | some name =>
           if (!(validVarName name)) = true then .error .opFail
           else (evalAt c "input" gs).bind (fun r =>
             match r with
             | none | some .null => .ok (some .null)
             | some (.arr items) =>
               (filterItems (fun item => evalAt (c.bind name item) "cond" gs) items).bind
                 (fun r => .ok (some (.arr r)))
             | some v => iterErr v)) := by
  rw [eval_shaped c "$filter" _ (by decide) (by decide) (by decide) (by decide)
    (Or.inl (by decide)) (mode_shaped_doc "$filter" gs (by simp))]
  simp only [evalOp, if_true]
  simp only [show ¬ ("$filter" = "$let") by decide, show ¬ ("$filter" = "$map") by decide, if_false]
  split
  · rfl
  · split
    · rfl
    · cases asName gs with
      | none => rfl
      | some name =>
        simp only
        split
        · rfl
        · simp only [bind, Except.bind]
          cases evalAt c "input" gs with
          | error e => rfl
          | ok r =>
            cases r with
            | none => rfl
            | some v => cases v <;> rfl

/-- `$filter` -/
theorem filter_case (c : Ctx) (root : Val) (env : Env) (hr : EnvRel c root env) (gs : Fields)
    (hsub : AllSubFields Agrees gs)
    (hre : rAt root env "input" gs ++
        (match asVar gs, sAt root env "input" gs with
         | .ok name, .ok (some (.arr items)) =>
           (items.map (fun item => rAt root ((name, some item) :: env) "cond" gs)).flatten
         | _, _ => []) = [])
    (res : Option Val)
    (hres : (if (!(dhas "input" gs && dhas "cond" gs) ||
          gs.any (fun kv => !(["input", "as", "cond"].contains kv.1))) = true
        then (Except.error Err.opFail : R (Option Val))
        else do
          let name ← asVar gs
          match ← sAt root env "input" gs with
          | none | some .null => pure (some .null)
          | some (.arr items) =>
            let rs ← overItems (fun item => sAt root ((name, some item) :: env) "cond" gs) items
            pure (some (.arr ((rs.filter (fun r => Spec.toBool r.2)).map (·.1))))
          | some _ => .error .opFail) = .ok res) :
    eval c (.doc [("$filter", .doc gs)]) = .ok res := by
  obtain ⟨h2, h3⟩ := append_nil2 hre
  split at hres
  · cases hres
  · rename_i hcond
    have hcond' : (!(dhas "input" gs && dhas "cond" gs) ||
        gs.any (fun kv => !(["input", "as", "cond"].contains kv.1))) = false := by
      simpa using hcond
    simp only [Bool.or_eq_false_iff, Bool.not_eq_false', Bool.and_eq_true] at hcond'
    have hkeys : gs.any (fun kv => !(["input", "cond", "as"].contains kv.1)) = false := by
      rw [← hcond'.2]
      congr 1
      funext kv
      simp only [List.contains_cons, List.contains_nil, Bool.or_false]
      cases (kv.1 == "input") <;> cases (kv.1 == "cond") <;> cases (kv.1 == "as") <;> rfl
    cases hav : asVar gs with
    | error e => simp [hav, bind, Except.bind] at hres
    | ok name =>
      simp only [hav, bind, Except.bind] at hres h3
      obtain ⟨vin, hvin⟩ := dhas_dget hcond'.1.1
      obtain ⟨vb, hvb⟩ := dhas_dget hcond'.1.2
      have e1 := at_agree c root env hr "input" gs vin hvin hsub h2
      rw [filter_unfold]
      simp only [hkeys, hcond'.1.1, hcond'.1.2, Bool.not_true, Bool.or_self, Bool.false_eq_true,
        if_false, e1, (asVar_asName gs name hav).1, (asVar_asName gs name hav).2]
      cases hin : sAt root env "input" gs with
      | error e => simp [hin] at hres
      | ok inp =>
        simp only [hin] at hres h3
        simp only [Except.bind]
        cases inp with
        | none => simpa [pure, Except.pure] using hres
        | some w =>
          cases w with
          | null => simpa [pure, Except.pure] using hres
          | arr items =>
            simp only at hres h3 ⊢
            have hitems : ∀ x ∈ items, ∃ y,
                sAt root ((name, some x) :: env) "cond" gs = .ok y ∧
                evalAt (c.bind name x) "cond" gs = .ok y := by
              intro x hx
              have r1 := flatten_nil _ h3 _ (List.mem_map.mpr ⟨x, hx, rfl⟩)
              obtain ⟨ry, hry⟩ := at_ok root _ "cond" gs vb hvb r1
              have e2 := at_agree (c.bind name x) root _ (hr.bind name x) "cond" gs vb hvb hsub r1
              exact ⟨ry, hry, by rw [e2, hry]⟩
            obtain ⟨zs, rs, m1, m2, m3⟩ := filter_loop
              (fun item => evalAt (c.bind name item) "cond" gs)
              (fun item => sAt root ((name, some item) :: env) "cond" gs) items hitems
            simp only [m2, pure, Except.pure] at hres
            simp only [m1, Except.bind]
            rw [← hres, m3]
          | _ => all_goals (simp at hres)

end MongoModel.Proofs.C04
