/-
  Proofs.C06Extra — lemmas for the single-operation statements of C06 (a duplicate insert is
  rejected; `create_index` over duplicates fails; a successful `create_index` establishes
  uniqueness).
-/
import Proofs.C06Step

set_option linter.unusedSimpArgs false

namespace MongoModel.Proofs.C06Lemmas
open MongoModel MongoModel.Spec
open MongoModel.Proofs.C01Lemmas (applyFields_cons applyHead)

/-! ### no TTL index: the expiry pass is the identity -/

theorem expire_noTtl {now : Int} {c : Coll} (h : c.ttlIndexes = []) : expire now c = .ok c := by
  unfold expire; rw [h]; rfl

theorem iterDocuments_fix {now : Int} {c c' : Coll} {f : Val} {ms : List Val}
    (he : expire now c = .ok c) (h : iterDocuments now c f = .ok (c', ms)) : c' = c := by
  obtain ⟨_, _, _, c1, h1, h2⟩ := iterDocuments_ok h
  rw [he] at h1
  cases h1
  rw [he] at h2
  cases h2
  rfl

theorem ensureStep_fix {now : Int} {new : Val} {c c' : Coll} {ix : Index}
    (he : expire now c = .ok c) (h : ensureStep now new c ix = .ok c') : c' = c := by
  unfold ensureStep at h
  split at h
  · cases h; rfl
  · simp only [bind, Except.bind] at h
    split at h
    · cases h
    · split at h
      · cases h; rfl
      · split at h
        · cases h
        · rename_i r hi
          obtain ⟨c2, ms⟩ := r
          simp only at h
          split at h
          · cases h
          · cases h
            exact iterDocuments_fix he hi

theorem ensureFold_fix {now : Int} {new : Val} (l : List Index) {c c' : Coll}
    (he : expire now c = .ok c) (h : l.foldlM (ensureStep now new) c = .ok c') : c' = c := by
  induction l generalizing c with
  | nil => simp only [List.foldlM_nil, pure, Except.pure, Except.ok.injEq] at h; exact h.symm
  | cons ix l ih =>
    rw [List.foldlM_cons] at h
    cases hs : ensureStep now new c ix with
    | error e => rw [hs] at h; cases h
    | ok c1 =>
      rw [hs] at h
      simp only [bind, Except.bind] at h
      have := ensureStep_fix he hs
      subst this
      exact ih he h

/-! ### a duplicate insert is rejected -/

theorem insert_dup_rejected (now : Int) (c : Coll) (fs : Fields) (ix : Index) (p : Val × Val)
    (hdf : distinctFields ix = true) (hsp : valueKeys ix p.2 = true)
    (hix : ix ∈ c.indexes) (hu : ix.unique = true) (hnt : c.ttlIndexes = [])
    (hp : p ∈ c.docs) (hcp : covers ix p.2 = true) (hcd : covers ix (patchDT (.doc fs)) = true)
    (hsd : valueKeys ix (patchDT (.doc fs)) = true)
    (heq : keyEq (keyVals ix p.2) (keyVals ix (patchDT (.doc fs))) = true)
    (hid : dhas "_id" fs = true) (c' : Coll) (id : Val) :
    insertDoc now c (.doc fs) ≠ .ok (c', id) := by
  intro h
  unfold insertDoc at h
  simp only [hid, if_true, bind, Except.bind] at h
  split at h
  · cases h
  · rename_i key hkey
    rw [expire_noTtl hnt] at h
    simp only at h
    split at h
    · cases h
    · rename_i hhas
      split at h
      · rename_i c3 h3
        have hhas' : c.hasKey key = false := by simpa using hhas
        have he2 : expire now (c.storeDoc key (patchDT (.doc fs))) =
            .ok (c.storeDoc key (patchDT (.doc fs))) := by
          apply expire_noTtl
          show (c.setDoc key (patchDT (.doc fs))).ttlIndexes = []
          unfold Coll.setDoc; split <;> exact hnt
        rw [ensureUniques_eq] at h3
        have e3 := ensureFold_fix _ he2 h3
        obtain ⟨_, _, hck⟩ := ensureFold_ok _ h3
        have hck' := hck ix (by rw [storeDoc_indexes, setDoc_indexes]; exact hix)
        rw [e3, storeDoc_docs, setDoc_docs_append _ hhas'] at hck'
        have hab : [p, (key, patchDT (.doc fs))].Sublist (c.docs ++ [(key, patchDT (.doc fs))]) := by
          have h1 : [p].Sublist c.docs := List.singleton_sublist.2 hp
          exact h1.append (List.Sublist.refl _)
        have := checked_pair' hck' hu hdf hab hsp hcp hsd hcd (.inr rfl)
        unfold Rk at this
        rw [heq] at this
        cases this
      · cases h

/-! ### `create_index` -/

theorem createIndex_ok_shape {now : Int} {c c' : Coll} {ix : Index} {name : String}
    (h : createIndexColl now c ix = (c', .ok name)) :
    ∃ c1, preCreate now c ix = .ok c1 ∧ c'.docs = c1.docs := by
  have hgo : createIndexColl.go now c ix = (c', .ok name) := by
    unfold createIndexColl at h
    split at h
    · split at h
      · simp at h
      · exact h
    · exact h
  rw [go_eq] at hgo
  cases hpre : preCreate now c ix with
  | error e => rw [hpre] at hgo; simp at hgo
  | ok c1 =>
    rw [hpre] at hgo
    refine ⟨c1, rfl, ?_⟩
    simp only at hgo
    split at hgo
    · simp only [Prod.mk.injEq] at hgo; rw [← hgo.1]
    · simp only [Prod.mk.injEq] at hgo; rw [← hgo.1]

theorem covers_plain {ix : Index} (hpf : ix.partialFilter = none) (hns : ix.sparse = false)
    (d : Val) : covers ix d = true := by
  rw [covers_eq, hns]
  unfold pfOk
  rw [hpf]
  rfl

theorem create_pairwise {now : Int} {c c' : Coll} {ix : Index} {name : String}
    (hu : ix.unique = true) (hpf : ix.partialFilter = none) (hns : ix.sparse = false)
    (h : createIndexColl now c ix = (c', .ok name)) :
    c'.docs.Pairwise (fun a b => keyEq (keyVals ix a.2) (keyVals ix b.2) = false) := by
  obtain ⟨c1, hpre, hd⟩ := createIndex_ok_shape h
  obtain ⟨_, hp⟩ := preCreate_ok hpre
  rw [hd, List.pairwise_iff_forall_sublist]
  intro a b hab
  exact (precheck_ok ix c1.docs [] (hp hu)).2 a b hab (covers_plain hpf hns _) (covers_plain hpf hns _)

theorem tupleFold_total (keys : List (String × Val)) (d : Val) (acc : List Val × Nat)
    (hok : OkKeys keys d) : ∃ r, keys.foldlM (tupleStep d) acc = .ok r := by
  induction keys generalizing acc with
  | nil => exact ⟨acc, rfl⟩
  | cons k keys ih =>
    rw [List.foldlM_cons]
    have hk := hok k (List.mem_cons_self ..)
    have hs : ∃ acc', tupleStep d acc k = .ok acc' := by
      unfold tupleStep
      rcases okField_get hk with ⟨v, _, hg, _⟩ | ⟨hg, _⟩ <;> rw [hg] <;> exact ⟨_, rfl⟩
    obtain ⟨acc', hs⟩ := hs
    rw [hs]
    exact ih acc' (fun k' h' => hok k' (List.mem_cons_of_mem _ h'))

theorem precheck_total (keys : List (String × Val)) (docs : List (Val × Val))
    (seen : List (List Val)) (hok : ∀ p ∈ docs, OkKeys keys p.2) :
    precheckUnique keys false none docs seen = .ok () ∨
    precheckUnique keys false none docs seen = .error .dupKey := by
  induction docs generalizing seen with
  | nil => left; unfold precheckUnique; rfl
  | cons p docs ih =>
    obtain ⟨k, d⟩ := p
    have hok' : ∀ p ∈ docs, OkKeys keys p.2 := fun p hp => hok p (List.mem_cons_of_mem _ hp)
    obtain ⟨r, hr⟩ := tupleFold_total keys d ([], 0) (hok (k, d) (List.mem_cons_self ..))
    obtain ⟨t, m⟩ := r
    unfold precheckUnique
    rw [indexTuple_eq, hr]
    simp only [bind, Except.bind, Bool.false_and, Bool.false_eq_true, if_false, pure, Except.pure,
      Bool.not_true]
    split
    · right; rfl
    · exact ih _ hok'

theorem create_over_dups (now : Int) (c : Coll) (ix : Index) (a b : Val × Val)
    (hu : ix.unique = true) (hnt : c.ttlIndexes = []) (hnew : ∀ i ∈ c.indexes, i.name ≠ ix.name)
    (hsc : ∀ p ∈ c.docs, valueKeys ix p.2 = true) (hpf : ix.partialFilter = none)
    (hns : ix.sparse = false) (hab : [a, b].Sublist c.docs)
    (heq : keyEq (keyVals ix a.2) (keyVals ix b.2) = true) :
    createIndexColl now c ix = (c, .error .dupKey) := by
  have hfind : c.indexes.find? (fun i => i.name == ix.name) = none := by
    rw [List.find?_eq_none]
    intro i hi
    simpa using hnew i hi
  have hpc : precheckUnique ix.keys ix.sparse ix.partialFilter c.docs [] = .error .dupKey := by
    have htot := precheck_total ix.keys c.docs [] (fun p hp => okKeys_of_valueKeys (hsc p hp))
    rw [← hns, ← hpf] at htot
    rcases htot with h | h
    · have := (precheck_ok ix c.docs [] h).2 a b hab (covers_plain hpf hns _) (covers_plain hpf hns _)
      rw [← keyVals_eq, ← keyVals_eq, heq] at this
      cases this
    · exact h
  have hpre : preCreate now c ix = .error .dupKey := by
    unfold preCreate
    simp only [hu, if_true, expire_noTtl hnt, bind, Except.bind, hpc]
  have hrc : refusedCreate now c ix = c := by
    unfold refusedCreate
    simp only [hu, if_true, expire_noTtl hnt]
  unfold createIndexColl
  rw [hfind]
  simp only
  rw [go_eq, hpre]
  simp only [hrc]

/-! ### the duplicate insert is rejected with DuplicateKeyError -/

/-- the look-up raises on no value-keyed document on which the partial filter does not raise -/
theorem query_total (ix : Index) (new e : Val) (he : OkKeys ix.keys e)
    (hp : ∀ f, ix.partialFilter = some f → ∃ b, filterApplies f e = .ok b) :
    ∃ b, filterApplies (queryOf ix (kwOf ix.keys new)) e = .ok b := by
  have hb := applyFields_kw ix.keys new e he
  unfold queryOf
  cases hpf : ix.partialFilter with
  | none => exact ⟨_, by simp only [filterApplies, applyVal]; exact hb⟩
  | some f =>
    obtain ⟨b, hf⟩ := hp f hpf
    simp only [filterApplies] at hf
    simp only [filterApplies, applyVal]
    rw [applyFields_cons]
    cases hq : keyEq (kv ix.keys e) (kv ix.keys new) <;> rw [hq] at hb <;> cases b <;>
      simp [applyHead, logicalKeys, Val.truthy, allApply, hf, applyVal, hb, bind, Except.bind,
        pure, Except.pure, applyFields]

theorem filterMapM_total {α β : Type} (g : α → R (Option β)) (l : List α)
    (h : ∀ a ∈ l, ∃ o, g a = .ok o) : ∃ ms, l.filterMapM g = Except.ok ms := by
  induction l with
  | nil => exact ⟨[], rfl⟩
  | cons a l ih =>
    obtain ⟨o, ho⟩ := h a (List.mem_cons_self ..)
    obtain ⟨ms, hms⟩ := ih (fun a' h' => h a' (List.mem_cons_of_mem _ h'))
    rw [List.filterMapM_cons, ho, hms]
    cases o <;> simp [bind, Except.bind, pure, Except.pure]

theorem iterDocuments_total {now : Int} {c : Coll} {f : Val} (he : expire now c = .ok c)
    (hne : c.docs.isEmpty = false) (h : ∀ p ∈ c.docs, ∃ b, filterApplies f p.2 = .ok b) :
    ∃ ms, iterDocuments now c f = .ok (c, ms) := by
  obtain ⟨ms, hms⟩ := filterMapM_total (fun p : Val × Val => do
      let b ← filterApplies f p.2
      pure (if b then some p.2 else none)) c.docs (by
    intro p hp
    obtain ⟨b, hb⟩ := h p hp
    exact ⟨if b then some p.2 else none, by simp only [hb, bind, Except.bind, pure, Except.pure]⟩)
  refine ⟨ms, ?_⟩
  unfold iterDocuments
  simp only [he, bind, Except.bind, hne, Bool.false_eq_true, if_false, pure, Except.pure]
  simp only [bind, Except.bind, pure, Except.pure] at hms
  rw [hms]

theorem ensureStep_dup {now : Int} {c : Coll} {new : Val} {ix : Index} {a b : Val × Val}
    (he : expire now c = .ok c) (hu : ix.unique = true) (hd : distinctFields ix = true)
    (hsc : ∀ p ∈ c.docs, valueKeys ix p.2 = true) (hsn : valueKeys ix new = true)
    (hcn : covers ix new = true)
    (hpf : ∀ f, ix.partialFilter = some f → ∀ q ∈ c.docs, ∃ b, filterApplies f q.2 = .ok b)
    (hab : [a, b].Sublist c.docs) (ca : covers ix a.2 = true) (cb : covers ix b.2 = true)
    (ka : keyEq (kv ix.keys a.2) (kv ix.keys new) = true)
    (kb : keyEq (kv ix.keys b.2) (kv ix.keys new) = true) :
    ensureStep now new c ix = .error .dupKey := by
  have okn := okKeys_of_valueKeys hsn
  have hv := valuesFor_ok ix.keys new okn (distinctFields_nodup hd)
  rw [covers_eq, Bool.and_eq_true, Bool.not_eq_true'] at hcn
  have hskip : (ix.sparse && (kwOf ix.keys new).all isNullCond) = false := by
    rw [kwOf_all_null]; exact hcn.1
  obtain ⟨ma, mb⟩ := pair_mem hab
  have hne : c.docs.isEmpty = false := by
    cases hdocs : c.docs with
    | nil => rw [hdocs] at ma; cases ma
    | cons x xs => rfl
  obtain ⟨ms, hms⟩ := iterDocuments_total (f := queryOf ix (kwOf ix.keys new)) he hne (by
    intro p hp
    exact query_total ix new p.2 (okKeys_of_valueKeys (hsc p hp)) (fun f hf => hpf f hf p hp))
  obtain ⟨_, _, hlen, _⟩ := iterDocuments_ok hms
  have pa : pfOk ix a.2 = true := by
    have := ca; rw [covers_eq, Bool.and_eq_true] at this; exact this.2
  have pb : pfOk ix b.2 = true := by
    have := cb; rw [covers_eq, Bool.and_eq_true] at this; exact this.2
  have h2 := two_hits hab
    (query_matches ix new a.2 (okKeys_of_valueKeys (hsc a ma)) pa ka)
    (query_matches ix new b.2 (okKeys_of_valueKeys (hsc b mb)) pb kb)
  unfold ensureStep
  simp only [hu, Bool.not_true, Bool.false_eq_true, if_false, hv, bind, Except.bind, hskip, hms]
  rw [if_pos (by omega)]

theorem ensureFold_dup {now : Int} {c : Coll} {new : Val} {ix : Index} (l : List Index)
    (hone : ∀ i ∈ l, i.unique = true → i = ix) (hix : ix ∈ l)
    (hstep : ensureStep now new c ix = .error .dupKey) :
    l.foldlM (ensureStep now new) c = .error .dupKey := by
  induction l with
  | nil => cases hix
  | cons i l ih =>
    rw [List.foldlM_cons]
    cases hu : i.unique with
    | true =>
      rw [hone i (List.mem_cons_self ..) hu, hstep]
      rfl
    | false =>
      have hs : ensureStep now new c i = .ok c := by
        unfold ensureStep; simp [hu, pure, Except.pure]
      rw [hs]
      simp only [bind, Except.bind]
      refine ih (fun j hj => hone j (List.mem_cons_of_mem _ hj)) ?_
      rcases List.mem_cons.1 hix with e | hm
      · rw [e] at hstep
        have : ensureStep now new c i = .ok c := hs
        rw [this] at hstep; cases hstep
      · exact hm

theorem insert_dup_dupKey (now : Int) (c : Coll) (fs : Fields) (ix : Index) (p : Val × Val) (k : Val)
    (hdf : distinctFields ix = true) (hsc : ∀ q ∈ c.docs, valueKeys ix q.2 = true)
    (hix : ix ∈ c.indexes) (hu : ix.unique = true) (hnt : c.ttlIndexes = [])
    (hp : p ∈ c.docs) (hcp : covers ix p.2 = true) (hcd : covers ix (patchDT (.doc fs)) = true)
    (hsd : valueKeys ix (patchDT (.doc fs)) = true)
    (heq : keyEq (keyVals ix p.2) (keyVals ix (patchDT (.doc fs))) = true)
    (hid : dhas "_id" fs = true)
    (hk : storeKey (idOfDoc (patchDT (.doc fs))) = .ok k)
    (hone : ∀ i ∈ c.indexes, i.unique = true → i = ix)
    (hpf : ∀ f, ix.partialFilter = some f → ∀ q ∈ c.docs, ∃ b, filterApplies f q.2 = .ok b) :
    insertDoc now c (.doc fs) = .error .dupKey := by
  unfold insertDoc
  unfold idOfDoc at hk
  simp only [hid, if_true]
  generalize hdd : patchDT (.doc fs) = dd at *
  obtain ⟨ds, rfl⟩ : ∃ ds, dd = .doc ds := ⟨patchFields fs, by rw [← hdd]; simp [patchDT, patch]⟩
  simp only [] at hk ⊢
  simp only [bind, Except.bind, hk, expire_noTtl hnt]
  cases hhas : c.hasKey k with
  | true => rfl
  | false =>
    simp only [Bool.false_eq_true, if_false]
    have he2 : expire now (c.storeDoc k (Val.doc ds)) = .ok (c.storeDoc k (Val.doc ds)) := by
      apply expire_noTtl
      show (c.setDoc k (Val.doc ds)).ttlIndexes = []
      unfold Coll.setDoc; split <;> exact hnt
    have okn := okKeys_of_valueKeys hsd
    have okp := okKeys_of_valueKeys (hsc p hp)
    have hcdpf : pfOk ix (Val.doc ds) = true := by
      have := hcd; rw [covers_eq, Bool.and_eq_true] at this; exact this.2
    have hstep : ensureStep now (Val.doc ds) (c.storeDoc k (Val.doc ds)) ix =
        .error .dupKey := by
      refine ensureStep_dup (a := p) (b := (k, Val.doc ds)) he2 hu hdf ?_ hsd hcd ?_ ?_ hcp hcd
        (by rw [← keyVals_eq, ← keyVals_eq]; exact heq) (keyEq_refl (kv_allKeyable okn))
      · intro q hq
        rw [storeDoc_docs, setDoc_docs_append _ hhas] at hq
        rcases List.mem_append.1 hq with h | h
        · exact hsc q h
        · rw [List.mem_singleton.1 h]; exact hsd
      · intro f hf q hq
        rw [storeDoc_docs, setDoc_docs_append _ hhas] at hq
        rcases List.mem_append.1 hq with h | h
        · exact hpf f hf q h
        · rw [List.mem_singleton.1 h]
          unfold pfOk at hcdpf
          rw [hf] at hcdpf
          simp only at hcdpf
          cases hfa : filterApplies f (Val.doc ds) with
          | error e => rw [hfa] at hcdpf; cases hcdpf
          | ok b => exact ⟨b, rfl⟩
      · rw [storeDoc_docs, setDoc_docs_append _ hhas]
        exact (List.singleton_sublist.2 hp).append (List.Sublist.refl _)
    have := ensureFold_dup (c.storeDoc k (Val.doc ds)).indexes
      (by rw [storeDoc_indexes, setDoc_indexes]; exact hone)
      (by rw [storeDoc_indexes, setDoc_indexes]; exact hix) hstep
    rw [ensureUniques_eq, this]

end MongoModel.Proofs.C06Lemmas
