/-
  Proofs.C13ExtLoop — the upsert branch of `applyUpdateColl`, opened up: when nothing matches, a
  successful call went through `upsertSeed` (`discardOps`, then `expandDots`), `applyUpdate …
  wasInsert=true` and `insertDoc`, and the appended document is the normalised result of that update (with a
  generated `_id` when the update removed it).
-/
import Proofs.C13Loop

set_option linter.unusedVariables false
set_option linter.unusedSimpArgs false

namespace MongoModel.Proofs.C13Ext
open MongoModel MongoModel.Spec MongoModel.Proofs.C05Lemmas MongoModel.Proofs.C10Lemmas
  MongoModel.Proofs.C13Lemmas

/-- the fields `insertDoc` stores for the built document `bf` on collection `c4` (before the
    datetime normalisation): `bf` itself, or `bf` with a fresh ObjectId when it has no `_id` -/
def withId (c4 : Coll) (bf : Fields) : Fields :=
  if dhas "_id" bf then bf else dset "_id" (.oid c4.nextOid) bf

theorem insert_fresh_doc (now : Int) (c c' : Coll) (bf : Fields) (id : Val) (hn : c.ttlIndexes = [])
    (h : insertDoc now c (.doc bf) = .ok (c', id)) :
    c'.docs = c.docs ++ [(id, .doc (patchFields (withId c bf)))] ∧
      dget "_id" (patchFields (withId c bf)) = some id := by
  rw [insertDoc_eq] at h
  unfold withId
  by_cases hh : dhas "_id" bf = true
  · rw [if_pos hh] at h ⊢
    obtain ⟨h1, _, h3⟩ := insertCore_fresh now c bf c' id hn hh h
    exact ⟨by rw [h3, patch_doc], h1⟩
  · rw [if_neg hh] at h ⊢
    have hh' : dhas "_id" (dset "_id" (.oid c.nextOid) bf) = true := by
      simp [dhas, dget_dset_self]
    obtain ⟨h1, _, h3⟩ := insertCore_fresh now { c with nextOid := c.nextOid + 1 } _ c' id hn hh' h
    exact ⟨by rw [h3, patch_doc], h1⟩

/-- the upsert branch of `afterLoop`, with the seed named -/
theorem afterLoop_upsert_eq (now : Int) (spec document nowV : Val) (ss dfs : Fields)
    (c3 : Coll) (up : Nat) :
    afterLoop now spec document nowV ss dfs true c3 (.ok (0, up)) =
      match (do
          let seed ← upsertSeed ss (upsertIdv ss dfs c3).1
          applyUpdate spec document nowV true seed) with
      | .error e => ((upsertIdv ss dfs c3).2, .error e)
      | .ok built =>
        match insertDoc now (upsertIdv ss dfs c3).2 built with
        | .error e => ((upsertIdv ss dfs c3).2.markStored
            (insertStored now (upsertIdv ss dfs c3).2 built), .error e)
        | .ok (c5, newId) => (c5, .ok ⟨1, 0, some newId, false⟩) := by
  unfold afterLoop
  simp only [Bool.not_true, Bool.false_or, Nat.lt_irrefl, gt_iff_lt, decide_false,
    Bool.false_eq_true, if_false]
  rfl

/-- the upsert branch of `afterLoop` on a TTL-free collection, step by step -/
theorem afterLoop_built (now : Int) (spec document nowV : Val) (ss dfs : Fields)
    (c3 c' : Coll) (up : Nat) (r : UpdateResult) (hn : c3.ttlIndexes = [])
    (h : afterLoop now spec document nowV ss dfs true c3 (.ok (0, up)) = (c', .ok r)) :
    ∃ seed bf id,
      upsertSeed ss (upsertIdv ss dfs c3).1 = .ok seed ∧
      applyUpdate spec document nowV true seed = .ok (.doc bf) ∧
      c'.docs = c3.docs ++ [(id, .doc (patchFields (withId (upsertIdv ss dfs c3).2 bf)))] ∧
      dget "_id" (patchFields (withId (upsertIdv ss dfs c3).2 bf)) = some id ∧
      r.upserted = some id := by
  rw [afterLoop_upsert_eq] at h
  have hd := upsertIdv_docs ss dfs c3
  have ht := upsertIdv_ttl ss dfs c3
  generalize upsertIdv ss dfs c3 = ic at h hd ht
  simp only [bind, Except.bind] at h
  cases he : upsertSeed ss ic.1 with
  | error e => simp only [he] at h; cases h
  | ok seed =>
    simp only [he] at h
    cases hb : applyUpdate spec document nowV true seed with
    | error e => simp only [hb] at h; cases h
    | ok built =>
      simp only [hb] at h
      cases hi : insertDoc now ic.2 built with
      | error e => simp only [hi] at h; cases h
      | ok p =>
        obtain ⟨c5, newId⟩ := p
        simp only [hi, Prod.mk.injEq, Except.ok.injEq] at h
        obtain ⟨hc, rfl⟩ := h
        cases built with
        | doc bf =>
          obtain ⟨h1, h2⟩ := insert_fresh_doc now ic.2 c5 bf newId (ht.trans hn) hi
          refine ⟨seed, bf, newId, rfl, hb, ?_, h2, rfl⟩
          rw [← hc, ← hd, ← h1]
        | _ => simp [insertDoc] at hi

/-- a successful upsert call whose filter selects nothing went through the upsert branch, on the
    unchanged collection -/
theorem upsert_reaches (cfg : Cfg) (now : Int) (c c1 c' : Coll) (fs : Fields) (u : Val)
    (multi : Bool) (r : UpdateResult)
    (he : expire now c = .ok c1) (hne : c1.docs ≠ []) (hn : c.ttlIndexes = [])
    (hi : IdInv c) (hg : GoodKeys c)
    (hs : selectDocs (patchDT (.doc fs)) c1.docs = .ok [])
    (h : applyUpdateColl cfg now c (.doc fs) u true multi = (c', .ok r)) :
    c1 = c ∧ ∃ dfs, patchDT u = .doc dfs ∧
      afterLoop now (.doc (patchFields fs)) (.doc dfs) (patchDT (.date now none))
        (patchFields fs) dfs true c (.ok (0, 0)) = (c', .ok r) := by
  have hc1 : c1 = c := by
    rw [expire_noTtl now c hn] at he; cases he; rfl
  refine ⟨hc1, ?_⟩
  rw [applyUpdateColl_eq] at h
  rw [patch_doc fs] at hs h
  split at h
  · rename_i ss dfs h1 h2
    cases h1
    refine ⟨dfs, h2, ?_⟩
    split at h
    · cases h
    · simp only [preLoop_eq now c c1 _ he hne] at h
      have hinv := MongoModel.Proofs.C10.linv_start now c c1 he hi.1 hg
      have hl := loop_nomatch now (.doc (patchFields fs)) (patchDT u) (patchDT (.date now none))
        multi c1.ttlIndexes c1.docs c1 0 0 hinv.dk hinv hs
      rw [hl] at h
      rw [h2] at h
      subst hc1
      exact h
  · cases h

end MongoModel.Proofs.C13Ext
