/-
  Proofs.C04Order — the BSON order of the rules (`Spec.ord`) is a total preorder on flat values
  (scalars and arrays of scalars: the values the comparison theorems of C04 are about), proved by
  an order embedding of the scalars into ℕ ×ₗ ℚ ×ₗ String (rank, numeric payload, string payload;
  numbers compared by cross multiplication are compared as rationals m / 2^e) and a
  lexicographic argument for the arrays.  Consequence: the rules' `$max` / `$min`
  (`Spec.extremumS`) is a greatest / least value, and the first of them.
-/
import Mathlib.Tactic.Linarith
import Mathlib.Tactic.Positivity
import Mathlib.Data.Prod.Lex
import Mathlib.Data.String.Basic
import Mathlib.Algebra.Order.Field.Basic
import Mathlib.Data.Rat.Defs
import Proofs.C04Acc

set_option linter.unusedSimpArgs false
set_option linter.unnecessarySeqFocus false

namespace MongoModel.Proofs.C04
open MongoModel MongoModel.Expr MongoModel.Spec

/-! ### ranks decide between values of different classes -/

theorem ord_of_rank_ne (a b : Val) (h : rank a ≠ rank b) : ord a b = compare (rank a) (rank b) := by
  cases a <;> cases b <;> simp [rank] at h <;> simp [ord, rank]

theorem rank_le_of_ord (a b : Val) (h : ord a b ≠ .gt) : rank a ≤ rank b := by
  by_cases hr : rank a = rank b
  · omega
  · rw [ord_of_rank_ne a b hr] at h
    by_contra hc
    exact h (Nat.compare_eq_gt.mpr (by omega))

theorem ord_lt_of_rank_lt (a b : Val) (h : rank a < rank b) : ord a b = .lt := by
  rw [ord_of_rank_ne a b (by omega)]
  exact Nat.compare_eq_lt.mpr h

/-! ### numbers -/

def qOf (x : Num) : ℚ := (x.m : ℚ) / 2 ^ x.e

theorem numLt_q (a b : Num) : Num.lt a b = true ↔ qOf a < qOf b := by
  unfold qOf
  rw [div_lt_div_iff₀ (by positivity) (by positivity)]
  simp only [Num.lt, decide_eq_true_eq]
  exact_mod_cast Iff.rfl

theorem numOrd_lt (x y : Num) : numOrd x y = .lt ↔ Num.lt x y = true := by
  unfold numOrd
  cases h : Num.lt x y
  · cases Num.eq x y <;> simp
  · simp

theorem numOrd_swap (x y : Num) : numOrd y x = (numOrd x y).swap := by
  unfold numOrd Num.lt Num.eq
  generalize x.m * 2 ^ y.e = X
  generalize y.m * 2 ^ x.e = Y
  by_cases h1 : X < Y
  · have h2 : ¬ Y < X := by omega
    have h3 : ¬ Y = X := by omega
    simp [h1, h2, h3, Ordering.swap]
  · by_cases h3 : X = Y
    · subst h3
      simp [Ordering.swap]
    · have h2 : Y < X := by omega
      have h4 : ¬ Y = X := fun e => h3 e.symm
      simp [h1, h2, h3, h4, Ordering.swap]

/-! ### scalars: null, booleans, numbers, strings, naive dates -/

def payQ : Val → ℚ
  | .bool b => if b then 1 else 0
  | .int i => i
  | .dbl m e => (m : ℚ) / 2 ^ e
  | .date u _ => (u : ℤ)
  | _ => 0

def payS : Val → String
  | .str s => s
  | _ => ""

def embS (v : Val) : ℕ ×ₗ ℚ ×ₗ String := toLex (rank v, toLex (payQ v, payS v))

theorem scalar_swap (a b : Val) (ha : cmpScalar a = true) (hb : cmpScalar b = true) :
    ord b a = (ord a b).swap := by
  by_cases hr : rank a = rank b
  · rcases cmpScalar_cases a ha with rfl | ⟨x, rfl⟩ | ⟨i, rfl⟩ | ⟨m, e, rfl⟩ | ⟨s, rfl⟩ | ⟨u, rfl⟩ <;>
    rcases cmpScalar_cases b hb with rfl | ⟨y, rfl⟩ | ⟨j, rfl⟩ | ⟨m', e', rfl⟩ | ⟨s', rfl⟩ | ⟨u', rfl⟩ <;>
    simp [rank] at hr <;>
    simp only [ord] <;>
    first
      | rfl
      | exact numOrd_swap _ _
      | exact (Nat.compare_swap _ _).symm
      | exact (Int.compare_swap _ _).symm
      | exact Std.OrientedCmp.eq_swap
  · rw [ord_of_rank_ne a b hr, ord_of_rank_ne b a (fun e => hr e.symm), Nat.compare_swap]

theorem scalar_lt_iff (a b : Val) (ha : cmpScalar a = true) (hb : cmpScalar b = true) :
    ord a b = .lt ↔ embS a < embS b := by
  unfold embS
  rw [Prod.Lex.toLex_lt_toLex]
  by_cases ht : rank a = rank b
  · simp only [ht, lt_self_iff_false, false_or, true_and]
    rw [Prod.Lex.toLex_lt_toLex]
    rcases cmpScalar_cases a ha with rfl | ⟨x, rfl⟩ | ⟨i, rfl⟩ | ⟨m, e, rfl⟩ | ⟨s, rfl⟩ | ⟨u, rfl⟩ <;>
    rcases cmpScalar_cases b hb with rfl | ⟨y, rfl⟩ | ⟨j, rfl⟩ | ⟨m', e', rfl⟩ | ⟨s', rfl⟩ | ⟨u', rfl⟩ <;>
    simp [rank] at ht <;>
    simp [ord, payQ, payS, numOrd_lt, numLt_q, qOf, compare_lt_iff_lt, Int.compare_eq_lt, dateUtc]
    case inr.inl.inr.inl => cases x <;> cases y <;> simp
  · rw [ord_of_rank_ne a b ht]
    simp [ht, Nat.compare_eq_lt]

theorem swap_eq_lt (o : Ordering) : o.swap = .lt ↔ o = .gt := by cases o <;> simp [Ordering.swap]

theorem scalar_le_iff (a b : Val) (ha : cmpScalar a = true) (hb : cmpScalar b = true) :
    ord a b ≠ .gt ↔ embS a ≤ embS b := by
  rw [← not_lt, ← scalar_lt_iff b a hb ha, scalar_swap a b ha hb, swap_eq_lt]

theorem scalar_eq_iff (a b : Val) (ha : cmpScalar a = true) (hb : cmpScalar b = true) :
    ord a b = .eq ↔ embS a = embS b := by
  have h1 := scalar_lt_iff a b ha hb
  have h2 := scalar_le_iff a b ha hb
  constructor
  · intro h
    have hle : embS a ≤ embS b := h2.mp (by simp [h])
    have hnl : ¬ embS a < embS b := fun hl => by simp [h1.mpr hl] at h
    exact le_antisymm hle (not_lt.mp hnl)
  · intro h
    have hnl : ¬ ord a b = .lt := fun hl => by have := h1.mp hl; rw [h] at this; exact lt_irrefl _ this
    have hng : ord a b ≠ .gt := h2.mpr (le_of_eq h)
    cases ho : ord a b with
    | lt => exact absurd ho hnl
    | eq => rfl
    | gt => exact absurd ho hng

/-! ### arrays of scalars: the lexicographic order -/

def AllScalar (xs : List Val) : Prop := ∀ x ∈ xs, cmpScalar x = true

theorem AllScalar.head {x : Val} {xs : List Val} (h : AllScalar (x :: xs)) : cmpScalar x = true :=
  h x (by simp)

theorem AllScalar.tail {x : Val} {xs : List Val} (h : AllScalar (x :: xs)) : AllScalar xs :=
  fun y hy => h y (by simp [hy])

theorem list_swap (xs ys : List Val) (hx : AllScalar xs) (hy : AllScalar ys) :
    ordList ys xs = (ordList xs ys).swap := by
  induction xs generalizing ys with
  | nil => cases ys <;> simp [ordList, Ordering.swap]
  | cons x xs ih =>
    cases ys with
    | nil => simp [ordList, Ordering.swap]
    | cons y ys =>
      simp only [ordList]
      rw [scalar_swap x y hx.head hy.head]
      cases h : ord x y <;> simp [Ordering.swap, ih ys hx.tail hy.tail]

theorem list_trans (xs ys zs : List Val) (hx : AllScalar xs) (hy : AllScalar ys)
    (hz : AllScalar zs) (h1 : ordList xs ys ≠ .gt) (h2 : ordList ys zs ≠ .gt) :
    ordList xs zs ≠ .gt := by
  induction xs generalizing ys zs with
  | nil => cases zs <;> simp [ordList]
  | cons x xs ih =>
    cases ys with
    | nil => simp [ordList] at h1
    | cons y ys =>
      cases zs with
      | nil => simp [ordList] at h2
      | cons z zs =>
        have sx := hx.head; have sy := hy.head; have sz := hz.head
        simp only [ordList] at h1 h2 ⊢
        cases hxy : ord x y with
        | gt => simp [hxy] at h1
        | lt =>
          have hyz : ord y z ≠ .gt := by
            cases hyz : ord y z with
            | gt => simp [hyz] at h2
            | _ => simp
          have : ord x z = .lt :=
            (scalar_lt_iff x z sx sz).mpr (lt_of_lt_of_le ((scalar_lt_iff x y sx sy).mp hxy)
              ((scalar_le_iff y z sy sz).mp hyz))
          simp [this]
        | eq =>
          cases hyz : ord y z with
          | gt => simp [hyz] at h2
          | lt =>
            have : ord x z = .lt := by
              rw [scalar_lt_iff x z sx sz, (scalar_eq_iff x y sx sy).mp hxy]
              exact (scalar_lt_iff y z sy sz).mp hyz
            simp [this]
          | eq =>
            have : ord x z = .eq := by
              rw [scalar_eq_iff x z sx sz, (scalar_eq_iff x y sx sy).mp hxy]
              exact (scalar_eq_iff y z sy sz).mp hyz
            simp only [hxy, hyz, this] at h1 h2 ⊢
            exact ih ys zs hx.tail hy.tail hz.tail h1 h2

/-! ### flat values -/

theorem flat_arr (xs : List Val) (h : cmpFlat (.arr xs) = true) : AllScalar xs := by
  simpa [cmpFlat, AllScalar] using h

theorem flat_not_arr (a : Val) (h : cmpFlat a = true) (ha : a.isArr = false) : cmpScalar a = true := by
  cases a <;> simp [Val.isArr] at ha <;> simpa [cmpFlat] using h

theorem rank_arr_iff (a : Val) (h : cmpFlat a = true) : rank a = 5 ↔ a.isArr = true := by
  cases a <;> simp [rank, Val.isArr]

/-- the order is oriented on flat values -/
theorem flat_swap (a b : Val) (ha : cmpFlat a = true) (hb : cmpFlat b = true) :
    ord b a = (ord a b).swap := by
  by_cases hr : rank a = rank b
  · cases haa : a.isArr with
    | true =>
      have hbb : b.isArr = true := (rank_arr_iff b hb).mp (hr ▸ (rank_arr_iff a ha).mpr haa)
      cases a <;> simp [Val.isArr] at haa
      cases b <;> simp [Val.isArr] at hbb
      simp only [ord]
      exact list_swap _ _ (flat_arr _ ha) (flat_arr _ hb)
    | false =>
      have hbb : b.isArr = false := by
        cases hb' : b.isArr with
        | false => rfl
        | true =>
          have := (rank_arr_iff a ha).mp (hr ▸ (rank_arr_iff b hb).mpr hb')
          rw [haa] at this; cases this
      exact scalar_swap a b (flat_not_arr a ha haa) (flat_not_arr b hb hbb)
  · rw [ord_of_rank_ne a b hr, ord_of_rank_ne b a (fun e => hr e.symm), Nat.compare_swap]

theorem flat_refl (a : Val) (ha : cmpFlat a = true) : ord a a = .eq := by
  have := flat_swap a a ha ha
  cases h : ord a a <;> rw [h] at this <;> simp [Ordering.swap] at this

/-- and transitive: a total preorder -/
theorem flat_trans (a b c : Val) (ha : cmpFlat a = true) (hb : cmpFlat b = true)
    (hc : cmpFlat c = true) (h1 : ord a b ≠ .gt) (h2 : ord b c ≠ .gt) : ord a c ≠ .gt := by
  have r1 := rank_le_of_ord a b h1
  have r2 := rank_le_of_ord b c h2
  by_cases hr : rank a = rank b ∧ rank b = rank c
  · obtain ⟨e1, e2⟩ := hr
    cases haa : a.isArr with
    | true =>
      have hbb : b.isArr = true := (rank_arr_iff b hb).mp (e1 ▸ (rank_arr_iff a ha).mpr haa)
      have hcc : c.isArr = true := (rank_arr_iff c hc).mp (e2 ▸ (rank_arr_iff b hb).mpr hbb)
      cases a <;> simp [Val.isArr] at haa
      cases b <;> simp [Val.isArr] at hbb
      cases c <;> simp [Val.isArr] at hcc
      simp only [ord] at h1 h2 ⊢
      exact list_trans _ _ _ (flat_arr _ ha) (flat_arr _ hb) (flat_arr _ hc) h1 h2
    | false =>
      have hbb : b.isArr = false := by
        cases hb' : b.isArr with
        | false => rfl
        | true =>
          have := (rank_arr_iff a ha).mp (e1 ▸ (rank_arr_iff b hb).mpr hb')
          rw [haa] at this; cases this
      have hcc : c.isArr = false := by
        cases hc' : c.isArr with
        | false => rfl
        | true =>
          have := (rank_arr_iff b hb).mp (e2 ▸ (rank_arr_iff c hc).mpr hc')
          rw [hbb] at this; cases this
      have sa := flat_not_arr a ha haa
      have sb := flat_not_arr b hb hbb
      have sc := flat_not_arr c hc hcc
      rw [scalar_le_iff a c sa sc]
      exact le_trans ((scalar_le_iff a b sa sb).mp h1) ((scalar_le_iff b c sb sc).mp h2)
  · have : rank a < rank c := by
      by_contra hn
      exact hr ⟨by omega, by omega⟩
    rw [ord_lt_of_rank_lt a c this]
    simp

/-! ### `$max` / `$min` of the rules are a greatest / a least value, the first of them -/

theorem extremumS_flat (isMax : Bool) (r : List Val) (best : Val)
    (h : ∀ v ∈ best :: r, cmpFlat v = true) : cmpFlat (extremumS isMax r best) = true :=
  h _ (extremumS_mem isMax r best)

/-- every value is at most the `$max` -/
theorem extremumS_max_ge (r : List Val) (best : Val) (h : ∀ v ∈ best :: r, cmpFlat v = true) :
    ∀ v ∈ best :: r, ord v (extremumS true r best) ≠ .gt := by
  induction r generalizing best with
  | nil =>
    intro v hv
    simp only [List.mem_singleton] at hv
    subst hv
    simp [extremumS, flat_refl v (h v (by simp))]
  | cons w r ih =>
    have fb := h best (by simp)
    have fw := h w (by simp)
    simp only [extremumS, if_true]
    generalize hb' : (if (ord best w == .lt) = true then w else best) = best'
    have hfl' : ∀ v ∈ best' :: r, cmpFlat v = true := by
      intro v hv
      simp only [List.mem_cons] at hv
      rcases hv with rfl | hv
      · rw [← hb']; split <;> assumption
      · exact h v (by simp [hv])
    have ih' := ih best' hfl'
    have fres := extremumS_flat true r best' hfl'
    have hbest' : ord best' (extremumS true r best') ≠ .gt := ih' best' (by simp)
    -- both the old best and the new value are at most the new best
    have hb_le : ord best best' ≠ .gt := by
      rw [← hb']
      cases hc : (ord best w == .lt) with
      | true => have : ord best w = .lt := by simpa using hc
                simp [this]
      | false => simp [flat_refl best fb]
    have hw_le : ord w best' ≠ .gt := by
      rw [← hb']
      cases hc : (ord best w == .lt) with
      | true => simp [flat_refl w fw]
      | false =>
        have hne : ord best w ≠ .lt := by simpa using hc
        simp only [Bool.false_eq_true, if_false]
        rw [flat_swap best w fb fw]
        cases ho : ord best w with
        | lt => exact absurd ho hne
        | eq => simp [Ordering.swap]
        | gt => simp [Ordering.swap]
    have fb' : cmpFlat best' = true := hfl' best' (by simp)
    intro v hv
    simp only [List.mem_cons] at hv
    rcases hv with rfl | rfl | hv
    · exact flat_trans _ _ _ fb fb' fres hb_le hbest'
    · exact flat_trans _ _ _ fw fb' fres hw_le hbest'
    · exact ih' v (by simp [hv])

/-- the `$min` is at most every value -/
theorem extremumS_min_le (r : List Val) (best : Val) (h : ∀ v ∈ best :: r, cmpFlat v = true) :
    ∀ v ∈ best :: r, ord (extremumS false r best) v ≠ .gt := by
  induction r generalizing best with
  | nil =>
    intro v hv
    simp only [List.mem_singleton] at hv
    subst hv
    simp [extremumS, flat_refl v (h v (by simp))]
  | cons w r ih =>
    have fb := h best (by simp)
    have fw := h w (by simp)
    simp only [extremumS, Bool.false_eq_true, if_false]
    generalize hb' : (if (ord w best == .lt) = true then w else best) = best'
    have hfl' : ∀ v ∈ best' :: r, cmpFlat v = true := by
      intro v hv
      simp only [List.mem_cons] at hv
      rcases hv with rfl | hv
      · rw [← hb']; split <;> assumption
      · exact h v (by simp [hv])
    have ih' := ih best' hfl'
    have fres := extremumS_flat false r best' hfl'
    have hbest' : ord (extremumS false r best') best' ≠ .gt := ih' best' (by simp)
    have hb_ge : ord best' best ≠ .gt := by
      rw [← hb']
      cases hc : (ord w best == .lt) with
      | true => have : ord w best = .lt := by simpa using hc
                simp [this]
      | false => simp [flat_refl best fb]
    have hw_ge : ord best' w ≠ .gt := by
      rw [← hb']
      cases hc : (ord w best == .lt) with
      | true => simp [flat_refl w fw]
      | false =>
        have hne : ord w best ≠ .lt := by simpa using hc
        simp only [Bool.false_eq_true, if_false]
        rw [flat_swap w best fw fb]
        cases ho : ord w best with
        | lt => exact absurd ho hne
        | eq => simp [Ordering.swap]
        | gt => simp [Ordering.swap]
    have fb' : cmpFlat best' = true := hfl' best' (by simp)
    intro v hv
    simp only [List.mem_cons] at hv
    rcases hv with rfl | rfl | hv
    · exact flat_trans _ _ _ fres fb' fb hbest' hb_ge
    · exact flat_trans _ _ _ fres fb' fw hbest' hw_ge
    · exact ih' v (by simp [hv])

/-- a later value replaces the best one so far only when it is strictly better: if none is, the
    first value is the answer (of equal values the first wins) -/
theorem extremumS_first (isMax : Bool) (r : List Val) (best : Val)
    (h : ∀ v ∈ r, (if isMax then ord best v else ord v best) ≠ .lt) :
    extremumS isMax r best = best := by
  induction r with
  | nil => rfl
  | cons w r ih =>
    have hw := h w (by simp)
    have hc : (if isMax = true then ord best w == .lt else ord w best == .lt) = false := by
      cases isMax <;> simpa using hw
    simp only [extremumS, hc, Bool.false_eq_true, if_false]
    exact ih (fun v hv => h v (by simp [hv]))

end MongoModel.Proofs.C04
