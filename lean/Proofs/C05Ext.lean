/-
  Proofs.C05Ext — the `_id` invariant (`IdInv`) through the EXTENDED step (`stepX` / `stepXS`:
  find_one, find_one_and_update / _replace / _delete, bulk_write, the bulk builder, and every
  operation of `stepColl`) and through every history over all modelled operations (`Spec.runX`).

  Instance of the generic preservation of Proofs/C05ExtGen.lean with
    P c := IdInv c ∧ UpdOK c   (what `_apply_update` needs of the collection it starts from)
    Q c := WInv c              (the weak invariant every operation leaves)
    G c := GoodColl c          (asked of the collections between the requests of a bulk).
-/
import Proofs.C05
import Proofs.C05ExtStep

set_option linter.unusedSimpArgs false
set_option linter.unusedVariables false

namespace MongoModel.Proofs.C05Ext
open MongoModel MongoModel.Spec MongoModel.Proofs.C05Lemmas MongoModel.Proofs.ExtGen

theorem findOneColl_sub (now : Int) (c : Coll) (f proj : Val) (sort : Option SortSpec) :
    Sub (findOneColl now c f proj sort).1 c := by
  unfold findOneColl
  extract_lets filter
  split
  · exact Sub.refl c
  · rename_i c1 ms h
    exact iterDocuments_sub now c _ c1 ms h

theorem UpdOK.sub {c' c : Coll} (hs : Sub c' c) (h : UpdOK c) : UpdOK c' := all_sub hs h

/-- the basic entry points against the pair (`IdInv` ∧ `UpdOK`, `WInv`) -/
theorem pres (cfg : Cfg) : Pres cfg (fun c => IdInv c ∧ UpdOK c) WInv where
  weaken := fun c h => IdInv.toW h.1
  findP := fun now c f proj sort h =>
    ⟨IdInv.sub (findOneColl_sub now c f proj sort) h.1, UpdOK.sub (findOneColl_sub now c f proj sort) h.2⟩
  findQ := fun now c f proj sort h => WInv.sub (findOneColl_sub now c f proj sort) h
  del := fun now c f multi h => WInv.sub (deleteColl_sub now c f multi) h
  upd := fun now c f u up multi h => applyUpdateColl_winv cfg now c f u up multi h.1 h.2
  step := fun now c op h => stepColl_winv cfg now c op h.1 h.2

theorem bridge (c : Coll) (hw : WInv c) (hg : GoodColl c) : IdInv c ∧ UpdOK c :=
  ⟨WInv.toId hw (fun p hp => (hg p hp).2.1), C05.updOK_of_good hg⟩

/-! ### one operation -/

theorem stepX_winv (cfg : Cfg) (now : Int) (c : Coll) (op : Val) (h : IdInv c) (hg : GoodColl c)
    (hm : ∀ m ∈ midColls cfg now c op, GoodColl m) : WInv (stepX cfg now c op).1 :=
  stepX_pres (pres cfg) GoodColl bridge now c op ⟨h, C05.updOK_of_good hg⟩ hm

theorem stepX_inv_alt (cfg : Cfg) (now : Int) (c : Coll) (op : Val) (h : IdInv c) (hg : GoodColl c)
    (hm : ∀ m ∈ midColls cfg now c op, GoodColl m) (hg' : GoodColl (stepX cfg now c op).1) :
    IdInv (stepX cfg now c op).1 :=
  (bridge _ (stepX_winv cfg now c op h hg hm) hg').1

theorem stepXS_inv_alt (cfg : Cfg) (s : St) (op : Val) (h : IdInv s.c) (hg : GoodColl s.c)
    (hm : ∀ m ∈ midColls cfg s.now s.c op, GoodColl m) (hg' : GoodColl (stepXS cfg s op).1.c) :
    IdInv (stepXS cfg s op).1.c :=
  (bridge _ (stepXS_pres (pres cfg) GoodColl bridge s op ⟨h, C05.updOK_of_good hg⟩ hm) hg').1

/-- an operation that is not a bulk has no collection "between its requests" -/
theorem midColls_nil (cfg : Cfg) (now : Int) (c : Coll) (op : Val) (h : bulkReqs op = none) :
    midColls cfg now c op = [] := by
  unfold midColls; rw [h]

/-! ### histories -/

theorem reachableX_inv_alt (cfg : Cfg) (ops : List Val)
    (hg : ∀ m ∈ traceX cfg ops, GoodColl m) : IdInv (runX cfg ops).2.c := by
  rw [runX_snd]
  exact (history_pres (pres cfg) GoodColl bridge (fun s h => WInv.sub (observe_sub s) h) ops {}
    ⟨C05.init_inv, fun p hp => by cases hp⟩ hg).1

theorem reachableX_inv_check (cfg : Cfg) (ops : List Val)
    (h : (traceX cfg ops).all (fun m => m.docs.all goodB) = true) : IdInv (runX cfg ops).2.c := by
  refine reachableX_inv_alt cfg ops (fun m hm p hp => ?_)
  simp only [List.all_eq_true] at h
  exact C05.goodEntry_of_goodB p (h m hm p hp)

/-! ### a duplicate `_id` inside a bulk -/

/-- `InsertOne` of a document whose `_id` is already a key: the executor reports
    DuplicateKeyError as a write error and leaves what the expiry pass alone leaves -/
theorem bulkOne_dup (cfg : Cfg) (now : Int) (c c1 : Coll) (idx : Nat) (fs : Fields) (id : Val)
    (hid : dget "_id" (patchFields fs) = some id) (hk : storeKey id = .ok id)
    (he : expire now c = .ok c1) (hd : c1.hasKey id = true) :
    bulkOne cfg now c idx (.arr [.str "InsertOne", .doc fs]) = (c1, .writeErr .dupKey) := by
  have := C05.dup_rejected cfg now c c1 fs id hid hk he hd
  simp only [bulkOne, this]
  rfl

theorem bulk_dup_rejected (cfg : Cfg) (now : Int) (ordered : Bool) (c c1 : Coll) (idx : Nat)
    (fs : Fields) (id : Val) (rest : List Val) (t : BulkTotals)
    (hid : dget "_id" (patchFields fs) = some id) (hk : storeKey id = .ok id)
    (he : expire now c = .ok c1) (hd : c1.hasKey id = true) :
    bulkLoop cfg now ordered (.arr [.str "InsertOne", .doc fs] :: rest) idx c t =
      if ordered then
        (c1, .bulkErr ({ t with errors := t.errors ++
          [Val.doc [("index", .int idx), ("code", .int 11000)]] }).toVal)
      else
        bulkLoop cfg now ordered rest (idx + 1) c1 { t with errors := t.errors ++
          [Val.doc [("index", .int idx), ("code", .int 11000)]] } := by
  rw [bulkLoop, bulkOne_dup cfg now c c1 idx fs id hid hk he hd]
  rfl

/-! ### decidable forms, for concrete collections -/

def pairwiseB {α : Type} (r : α → α → Bool) : List α → Bool
  | [] => true
  | a :: l => l.all (r a) && pairwiseB r l

theorem pairwiseB_iff {α : Type} (r : α → α → Bool) (l : List α) :
    pairwiseB r l = true ↔ l.Pairwise (fun a b => r a b = true) := by
  induction l with
  | nil => simp [pairwiseB]
  | cons a l ih => simp [pairwiseB, ih, List.pairwise_cons]

/-- `IdInv`, evaluated -/
def idInvB (c : Coll) : Bool :=
  pairwiseB (fun a b => !pyEq a.1 b.1) c.docs &&
  c.docs.all (fun p => match idOf p.2 with
    | some id => pyEq p.1 id
    | none => false)

theorem idInvB_iff (c : Coll) : idInvB c = true ↔ IdInv c := by
  simp only [idInvB, IdInv, KeysDistinct, KeyIsId, Bool.and_eq_true, pairwiseB_iff,
    Bool.not_eq_true', List.all_eq_true]
  refine and_congr Iff.rfl (forall_congr' fun p => forall_congr' fun _ => ?_)
  cases idOf p.2 with
  | none => simp
  | some id => simp

/-- "scalar store keys, dict-shaped documents" for a whole collection -/
def goodCollB (c : Coll) : Bool := c.docs.all goodB

theorem goodColl_of_B (c : Coll) (h : goodCollB c = true) : GoodColl c := by
  intro p hp
  simp only [goodCollB, List.all_eq_true] at h
  exact C05.goodEntry_of_goodB p (h p hp)

/-- the hypotheses of `stepX_inv_alt`, checked by evaluation -/
theorem stepX_inv_check (cfg : Cfg) (now : Int) (c : Coll) (op : Val)
    (h : (idInvB c && goodCollB c && (midColls cfg now c op).all goodCollB &&
      goodCollB (stepX cfg now c op).1) = true) : IdInv (stepX cfg now c op).1 := by
  simp only [Bool.and_eq_true, List.all_eq_true] at h
  obtain ⟨⟨⟨h1, h2⟩, h3⟩, h4⟩ := h
  exact stepX_inv_alt cfg now c op ((idInvB_iff c).1 h1) (goodColl_of_B c h2)
    (fun m hm => goodColl_of_B m (h3 m hm)) (goodColl_of_B _ h4)

/-! ### the unrestricted statement fails (duplicate-key association list inside a bulk) -/

def bulkBad : Val :=
  .arr [.str "bulk_write", .arr [.arr [.str "InsertOne", .doc [("_id", C05Cex.badId)]]], .bool true]

theorem chk_bulkBad : C05Cex.chk (stepX {} 0 {} bulkBad).1 = [false] := by decide +kernel

theorem stepX_inv_false :
    ¬ (∀ (cfg : Cfg) (now : Int) (c : Coll) (op : Val), IdInv c → IdInv (stepX cfg now c op).1) := by
  intro H
  have := C05Cex.keyIsId_chk _ (H {} 0 {} bulkBad C05.init_inv).2 false (by rw [chk_bulkBad]; simp)
  cases this

/-! ### what `traceX` and `midColls` list -/

theorem runStX_mem_trace (cfg : Cfg) : ∀ (ops : List Val) (n : Nat) (s : St),
    (runStX cfg (ops.take n) s).c ∈ traceXFrom cfg ops s := by
  intro ops
  induction ops with
  | nil => intro n s; simp [runStX, traceXFrom]
  | cons op ops ih =>
    intro n s
    cases n with
    | zero => exact trace_head cfg _ s
    | succ n =>
      have := ih n (observe (stepXS cfg s op).1).1
      simp only [List.take_succ_cons, traceXFrom, List.mem_cons, List.mem_append]
      exact Or.inr (by simpa [runStX] using this)

/-- every state along the history is listed by `traceX` -/
theorem traceX_states (cfg : Cfg) (ops : List Val) (n : Nat) :
    (runX cfg (ops.take n)).2.c ∈ traceX cfg ops := by
  rw [runX_snd]; exact runStX_mem_trace cfg ops n {}

/-- the collections between the requests of a `bulk_write`, in terms of the executor loop -/
theorem midColls_bulk (cfg : Cfg) (now : Int) (c : Coll) (reqs : List Val) (ordered : Val)
    (hp : bulkPrecheck reqs = .ok ()) :
    midColls cfg now c (.arr [.str "bulk_write", .arr reqs, ordered]) =
      (List.range (reqs.length + 1)).map (fun n =>
        (bulkLoop cfg now (boolOf ordered) (reqs.take n) 0 c {}).1) := by
  unfold midColls
  simp only [bulkReqs]
  apply List.map_congr_left
  intro n _
  rw [stepX_bulk_write, bulkWrite_take_fst cfg now c reqs (boolOf ordered) n hp]

end MongoModel.Proofs.C05Ext
