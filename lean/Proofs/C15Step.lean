/-
  Proofs.C15Step — one bulk executor against the single operation it stands for.
-/
import Spec.Single

namespace MongoModel.Proofs.C15Lemmas
open MongoModel MongoModel.Spec

/-- the per-request check of `bulkPrecheck` -/
def pre1 (r : Val) : R Unit :=
  match r with
  | .arr [.str "UpdateOne", _, u, _] => validateUpdate u
  | .arr [.str "UpdateMany", _, u, _] => validateUpdate u
  | _ => .ok ()

theorem precheck_eq (reqs : List Val) : bulkPrecheck reqs = reqs.forM pre1 := rfl

theorem precheck_cons {r : Val} {rest : List Val} (h : bulkPrecheck (r :: rest) = .ok ()) :
    pre1 r = .ok () ∧ bulkPrecheck rest = .ok () := by
  have h' : (pre1 r >>= fun _ => rest.forM pre1) = .ok () := h
  rw [precheck_eq]
  revert h'
  cases h1 : pre1 r with
  | error e => simp [bind, Except.bind]
  | ok x => cases x; simp [bind, Except.bind]

/-- the shapes `plainRequest` admits -/
inductive Plain : Val → Prop
  | ins (d : Val) : Plain (.arr [.str "InsertOne", d])
  | upd1 (f u up : Val) : Plain (.arr [.str "UpdateOne", f, u, up])
  | updN (f u up : Val) : Plain (.arr [.str "UpdateMany", f, u, up])
  | repl (f u up : Val) (h : validateReplace u = .ok ()) : Plain (.arr [.str "ReplaceOne", f, u, up])
  | del1 (fs : Fields) : Plain (.arr [.str "DeleteOne", .doc fs])
  | delN (fs : Fields) : Plain (.arr [.str "DeleteMany", .doc fs])

theorem plain_of {r : Val} (h : plainRequest r = true) : Plain r := by
  unfold plainRequest at h
  split at h
  · rename_i f u up
    refine Plain.repl _ _ _ ?_
    cases hv : validateReplace u with
    | ok x => rfl
    | error e => simp [hv] at h
  · exact Plain.ins _
  · exact Plain.upd1 _ _ _
  · exact Plain.updN _ _ _
  · exact Plain.del1 _
  · exact Plain.delN _
  · cases h

theorem one_fst (cfg : Cfg) (now : Int) (c : Coll) (idx : Nat) {r : Val}
    (hp : Plain r) (hv : pre1 r = .ok ()) :
    (bulkOne cfg now c idx r).1 = (stepColl cfg now c (asSingle r)).1 := by
  cases hp with
  | ins d =>
    show (match stepColl cfg now c (.arr [.str "insert_one", d]) with
     | (c', .val _) => (c', BulkOut.ok (fun t => { t with nInserted := t.nInserted + 1 }))
     | (c', .err e) => (c', if e.isWriteError then .writeErr e else .abort e)
     | (c', .bulkErr _) => (c', .abort .bulk)).1 = (stepColl cfg now c (.arr [.str "insert_one", d])).1
    split <;> simp_all
  | upd1 f u up =>
    have hv' : validateUpdate u = .ok () := hv
    show (bulkOne cfg now c idx _).1 = (stepColl cfg now c (.arr [.str "update_one", f, u, up])).1
    simp only [bulkOne, stepColl, hv']
    cases applyUpdateColl cfg now c f u (boolOf up) false with
    | mk c' r => cases r <;> rfl
  | updN f u up =>
    have hv' : validateUpdate u = .ok () := hv
    show (bulkOne cfg now c idx _).1 = (stepColl cfg now c (.arr [.str "update_many", f, u, up])).1
    simp only [bulkOne, stepColl, hv']
    cases applyUpdateColl cfg now c f u (boolOf up) true with
    | mk c' r => cases r <;> rfl
  | repl f u up h =>
    show (bulkOne cfg now c idx _).1 = (stepColl cfg now c (.arr [.str "replace_one", f, u, up])).1
    simp only [bulkOne, stepColl, h]
    cases applyUpdateColl cfg now c f u (boolOf up) false with
    | mk c' r => cases r <;> rfl
  | del1 fs =>
    show (bulkOne cfg now c idx _).1 = (stepColl cfg now c (.arr [.str "delete_one", .doc fs])).1
    simp only [bulkOne, stepColl, bulkOne.deleteBulk]
    cases deleteColl now c (.doc fs) false with
    | mk c' r => cases r <;> rfl
  | delN fs =>
    show (bulkOne cfg now c idx _).1 = (stepColl cfg now c (.arr [.str "delete_many", .doc fs])).1
    simp only [bulkOne, stepColl, bulkOne.deleteBulk]
    cases deleteColl now c (.doc fs) true with
    | mk c' r => cases r <;> rfl

end MongoModel.Proofs.C15Lemmas
