/-
  Proofs.C04Arith — null propagation through the arithmetic operators, `$let`/`$map`/`$filter`
  variable binding, and the computed-field / `$expr` contexts.
-/
import Proofs.C04Cond

set_option linter.unusedSimpArgs false

namespace MongoModel.Proofs.C04
open MongoModel MongoModel.Expr

/-! ### null propagation -/

/-- unary arithmetic: a null or missing operand gives null -/
theorem null_unary (c : Ctx) (op : String) (hop : op ∈ unaryArithOps) (e : Val)
    (r : Option Val) (he : eval c e = .ok r) (hn : Spec.nullish r = true) :
    eval c (.doc [(op, e)]) = .ok (some .null) := by
  have hr : unaryArithOpt op r = .ok .null := by
    cases r with
    | none => rfl
    | some v => cases v <;> simp [Spec.nullish] at hn; rfl
  have ha : e.isArr = false := by
    cases e with
    | arr xs =>
      obtain ⟨ys, rfl⟩ := eval_arr_ok c xs r he
      simp [Spec.nullish] at hn
    | _ => rfl
  simp only [unaryArithOps, List.mem_cons, List.mem_nil_iff, or_false] at hop
  rcases hop with rfl | rfl | rfl | rfl | rfl | rfl | rfl | rfl <;>
  · rw [eval_whole' c _ e (by decide) (by decide) (by decide) (Or.inr ha) (Or.inl (by decide))
      (by simp [mode, wholeOps, dateOps, datePartOps, unaryArithOps]), he]
    simp [applyWhole, unaryArithOps, hr, Except.bind, Except.map]

theorem binary_arity (op : String) (hop : op ∈ binaryArithOps) : arityErr op 2 = none := by
  simp only [binaryArithOps, List.mem_cons, List.mem_nil_iff, or_false] at hop
  rcases hop with rfl | rfl | rfl | rfl | rfl <;> decide

/-- binary arithmetic (`ignore_missing_keys` contexts): both operands are parsed; if either is
    null or missing the result is null -/
theorem null_binary (c : Ctx) (hign : c.ign = true) (op : String) (hop : op ∈ binaryArithOps)
    (a b : Val) (ra rb : Option Val) (ha : eval c a = .ok ra) (hb : eval c b = .ok rb)
    (hn : (Spec.nullish ra || Spec.nullish rb) = true) :
    eval c (.doc [(op, .arr [a, b])]) = .ok (some .null) := by
  have hl : evalList c true [a, b] = .ok (some [ra.getD .null, rb.getD .null]) := by
    cases ra <;> cases rb <;>
      simp [evalList, ha, hb, manyItem, bind, Except.bind, pure, Except.pure]
  have hb' : binaryArith op (ra.getD .null) (rb.getD .null) = .ok .null := by
    have : (isNull (ra.getD .null) || isNull (rb.getD .null)) = true := by
      cases ra with
      | none => simp [isNull]
      | some x =>
        cases rb with
        | none => simp [isNull]
        | some y =>
          cases x <;> cases y <;> simp [Spec.nullish] at hn <;> simp [isNull]
    simp [binaryArith, this]
  have har := binary_arity op hop
  simp only [binaryArithOps, List.mem_cons, List.mem_nil_iff, or_false] at hop
  rcases hop with rfl | rfl | rfl | rfl | rfl <;>
  · simp [eval, evalDoc, classify, arithmeticOps, unaryArithOps, binaryArithOps, mode, wholeOps,
      unaryListOps, variadicOps, Val.isArr,
      dateOps, datePartOps, groupingOps, evalOp, har, listOps, comparisonOps, usesParseMany, hign,
      nullOnMissing, usesParseOrNothing, hl, applyList, hb', bind, Except.bind, Except.map]

/-- the loop over the operands of `$add` / `$multiply`: a null after numbers ends it with null -/
theorem checkNums_null (pre post : List Val) (hpre : ∀ v ∈ pre, (toPyNumNB v).isSome = true) :
    checkNums (pre ++ .null :: post) = .ok none := by
  induction pre with
  | nil => simp [checkNums]
  | cons v pre ih =>
    have hv := hpre v (by simp)
    have ih' := ih (fun w hw => hpre w (by simp [hw]))
    cases hp : toPyNumNB v with
    | none => simp [hp] at hv
    | some n =>
      cases v <;> simp [toPyNumNB] at hp <;>
        simp [checkNums, toPyNum, ih', bind, Except.bind, pure, Except.pure]

/-- the same for the loop of `$add`, whether or not a date has been set aside -/
theorem checkAdd_null (pre post : List Val) (d : Option Int)
    (hpre : ∀ v ∈ pre, (toPyNumNB v).isSome = true) :
    checkAdd (pre ++ .null :: post) d = .ok none := by
  induction pre with
  | nil => cases d <;> simp [checkAdd]
  | cons v pre ih =>
    have hv := hpre v (by simp)
    have ih' := ih (fun w hw => hpre w (by simp [hw]))
    cases hp : toPyNumNB v with
    | none => simp [hp] at hv
    | some n =>
      cases v <;> simp [toPyNumNB] at hp <;>
        simp [checkAdd, toPyNum, ih', bind, Except.bind, pure, Except.pure]

/-- `$add` / `$multiply`: when the first operand value that is not a number is null (a missing
    operand counts as null), the result is null -/
theorem null_nary (c : Ctx) (op : String) (hop : op = "$add" ∨ op = "$multiply") (xs : List Val)
    (pre post : List Val) (hl : evalList c c.ign xs = .ok (some (pre ++ .null :: post)))
    (hpre : ∀ v ∈ pre, (toPyNumNB v).isSome = true) :
    eval c (.doc [(op, .arr xs)]) = .ok (some .null) := by
  have hne : (pre ++ Val.null :: post).isEmpty = false := by cases pre <;> simp
  have hn : naryArith op (pre ++ .null :: post) = .ok .null := by
    rcases hop with rfl | rfl <;>
      simp [naryArith, hne, checkNums_null pre post hpre, checkAdd_null pre post none hpre, bind,
        Except.bind, pure, Except.pure]
  rcases hop with rfl | rfl <;>
  · simp [eval, evalDoc, classify, arithmeticOps, unaryArithOps, binaryArithOps, mode, wholeOps,
      unaryListOps, variadicOps, Val.isArr,
      dateOps, datePartOps, groupingOps, evalOp, arityErr, listOps, comparisonOps, usesParseMany,
      nullOnMissing, usesParseOrNothing, hl, applyList, hn, bind, Except.bind, Except.map]

/-- `parse_many` under `ignore_missing_keys`: a missing operand is read as null -/
theorem evalList_missing_is_null (c : Ctx) (x : Val) (r : List Val) (vs : List Val)
    (hx : eval c x = .ok none) (hr : evalList c true r = .ok (some vs)) :
    evalList c true (x :: r) = .ok (some (.null :: vs)) := by
  simp [evalList, hx, hr, manyItem, bind, Except.bind, pure, Except.pure]

end MongoModel.Proofs.C04
