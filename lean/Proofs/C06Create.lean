/-
  Proofs.C06Create — the uniqueness pre-check of `create_index`.
-/
import Proofs.C06Ops

set_option linter.unusedSimpArgs false

namespace MongoModel.Proofs.C06Lemmas
open MongoModel MongoModel.Spec

/-! ### `indexTuple` -/

def tupleStep (d : Val) (acc : List Val × Nat) (kv : String × Val) : R (List Val × Nat) :=
  match getByDot d kv.1 with
  | .ok v => .ok (acc.1 ++ [v], acc.2)
  | .error .keyErr => .ok (acc.1 ++ [.null], acc.2 + 1)
  | .error e => .error e

theorem indexTuple_eq (keys : List (String × Val)) (d : Val) :
    indexTuple keys d = keys.foldlM (tupleStep d) ([], 0) := rfl

theorem tupleFold_ok (keys : List (String × Val)) (d : Val) (acc r : List Val × Nat)
    (h : keys.foldlM (tupleStep d) acc = .ok r) :
    r.1 = acc.1 ++ kv keys d ∧ r.2 ≤ acc.2 + keys.length ∧
    (r.2 = acc.2 + keys.length → (kv keys d).all isNull = true) := by
  induction keys generalizing acc with
  | nil =>
    simp only [List.foldlM_nil, pure, Except.pure, Except.ok.injEq] at h
    subst h
    simp [kv]
  | cons k keys ih =>
    rw [List.foldlM_cons] at h
    cases hs : tupleStep d acc k with
    | error e => rw [hs] at h; cases h
    | ok acc' =>
      rw [hs] at h
      simp only [bind, Except.bind] at h
      obtain ⟨h1, h2, h3⟩ := ih acc' h
      unfold tupleStep at hs
      have hk : kv (k :: keys) d = kv1 k.1 d :: kv keys d := rfl
      cases hg : getByDot d k.1 with
      | ok v =>
        rw [hg] at hs
        simp only [Except.ok.injEq] at hs
        subst hs
        have e1 : kv1 k.1 d = v := by simp [kv1, hg]
        simp only [List.length_cons] at h1 h2 h3 ⊢
        refine ⟨by rw [h1, hk, e1]; simp, by omega, fun e => by omega⟩
      | error x =>
        rw [hg] at hs
        have e1 : kv1 k.1 d = .null := by simp [kv1, hg]
        cases x <;> simp only [Except.ok.injEq, reduceCtorEq] at hs
        subst hs
        simp only [List.length_cons] at h1 h2 h3 ⊢
        refine ⟨by rw [h1, hk, e1]; simp, by omega, fun e => ?_⟩
        rw [hk, e1]
        simp only [List.all_cons, isNull, Bool.true_and]
        exact h3 (by omega)

theorem indexTuple_ok {keys : List (String × Val)} {d : Val} {t : List Val} {m : Nat}
    (h : indexTuple keys d = .ok (t, m)) :
    t = kv keys d ∧ (m = t.length → (kv keys d).all isNull = true) := by
  rw [indexTuple_eq] at h
  obtain ⟨h1, _, h3⟩ := tupleFold_ok keys d _ _ h
  simp only [List.nil_append, Nat.zero_add] at h1 h3
  refine ⟨h1, fun e => h3 ?_⟩
  rw [e, h1]
  simp [kv]

/-! ### `precheckUnique` -/

theorem pair_cons {α : Type} {a b x : α} {l : List α} (h : [a, b].Sublist (x :: l)) :
    [a, b].Sublist l ∨ (a = x ∧ b ∈ l) := by
  cases h with
  | cons _ h' => exact .inl h'
  | cons_cons _ h' => exact .inr ⟨rfl, h'.subset (by simp)⟩

theorem pyEq_arr_arr (s t : List Val) : pyEq (.arr s) (.arr t) = pyEqList s t := by
  rw [pyEq]

theorem precheck_ok (ix : Index) (docs : List (Val × Val)) (seen : List (List Val))
    (h : precheckUnique ix.keys ix.sparse ix.partialFilter docs seen = .ok ()) :
    (∀ p ∈ docs, covers ix p.2 = true → ∀ s ∈ seen, keyEq s (kv ix.keys p.2) = false) ∧
    (∀ a b, [a, b].Sublist docs → covers ix a.2 = true → covers ix b.2 = true →
      keyEq (kv ix.keys a.2) (kv ix.keys b.2) = false) := by
  induction docs generalizing seen with
  | nil =>
    exact ⟨fun p hp => (by cases hp), fun a b hab => (by cases hab)⟩
  | cons p docs ih =>
    obtain ⟨k, d⟩ := p
    -- a skipped head document is not covered: the tail carries everything
    have skipped : covers ix d = false →
        precheckUnique ix.keys ix.sparse ix.partialFilter docs seen = .ok () →
        (∀ p ∈ (k, d) :: docs, covers ix p.2 = true → ∀ s ∈ seen, keyEq s (kv ix.keys p.2) = false) ∧
        (∀ a b, [a, b].Sublist ((k, d) :: docs) → covers ix a.2 = true → covers ix b.2 = true →
          keyEq (kv ix.keys a.2) (kv ix.keys b.2) = false) := by
      intro hc hr
      obtain ⟨i1, i2⟩ := ih seen hr
      constructor
      · intro p hp hcp
        rcases List.mem_cons.1 hp with rfl | hm
        · rw [hc] at hcp; cases hcp
        · exact i1 p hm hcp
      · intro a b hab ca cb
        rcases pair_cons hab with h' | ⟨rfl, _⟩
        · exact i2 a b h' ca cb
        · rw [hc] at ca; cases ca
    unfold precheckUnique at h
    cases ht : indexTuple ix.keys d with
    | error e => rw [ht] at h; cases h
    | ok tm =>
      obtain ⟨t, m⟩ := tm
      obtain ⟨et, hnull⟩ := indexTuple_ok ht
      rw [ht] at h
      simp only [bind, Except.bind] at h
      split at h
      · rename_i hsk
        simp only [Bool.and_eq_true, beq_iff_eq] at hsk
        refine skipped ?_ h
        rw [covers_eq, hsk.1, hnull hsk.2]; rfl
      · rename_i hsk
        split at h
        · cases h
        · rename_i covered hcov
          have hpf : pfOk ix d = covered := by
            unfold pfOk
            cases hf : ix.partialFilter with
            | none => rw [hf] at hcov; cases hcov; rfl
            | some f => rw [hf] at hcov; simp only at hcov ⊢; rw [hcov]
          cases covered with
          | false =>
            simp only [Bool.not_false, if_true] at h
            refine skipped ?_ h
            rw [covers_eq, hpf, Bool.and_false]
          | true =>
            simp only [Bool.not_true, Bool.false_eq_true, if_false] at h
            split at h
            · cases h
            · rename_i hany
              obtain ⟨i1, i2⟩ := ih (seen ++ [t]) h
              simp only [Bool.not_eq_true, List.any_eq_false, pyEq_arr_arr, pyEqList_eq_keyEq,
                Bool.not_eq_true] at hany
              constructor
              · intro p hp hcp s hs
                rcases List.mem_cons.1 hp with rfl | hm
                · rw [← et]; exact hany s hs
                · exact i1 p hm hcp s (List.mem_append_left _ hs)
              · intro a b hab ca cb
                rcases pair_cons hab with h' | ⟨rfl, hb⟩
                · exact i2 a b h' ca cb
                · have := i1 b hb cb t (by simp)
                  rw [et] at this
                  exact this

/-! ### `create_index` -/

/-- `indexes[name] = ix` -/
def putIx (ix : Index) (l : List Index) : List Index :=
  if l.any (fun i => i.name == ix.name) then l.map (fun i => if i.name == ix.name then ix else i)
  else l ++ [ix]

theorem mem_putIx {ix i : Index} {l : List Index} (h : i ∈ putIx ix l) : i = ix ∨ i ∈ l := by
  unfold putIx at h
  split at h
  · obtain ⟨j, hj, e⟩ := List.mem_map.1 h
    split at e
    · exact .inl e.symm
    · exact .inr (e ▸ hj)
  · rcases List.mem_append.1 h with h' | h'
    · exact .inr h'
    · exact .inl (List.mem_singleton.1 h')

/-- the pre-check part of `create_index` -/
def preCreate (now : Int) (c : Coll) (ix : Index) : R Coll :=
  if ix.unique then do
    let c1 ← expire now c
    precheckUnique ix.keys ix.sparse ix.partialFilter c1.docs []
    pure c1
  else pure c

theorem go_eq (now : Int) (c : Coll) (ix : Index) :
    createIndexColl.go now c ix =
      match preCreate now c ix with
      | .error e => (refusedCreate now c ix, .error e)
      | .ok c1 =>
        (match ix.ttl with
         | some _ => ({ c1 with indexes := putIx ix c1.indexes, ttlIndexes := putIx ix c1.ttlIndexes,
                                forceCreated := true }, .ok ix.name)
         | none => ({ c1 with indexes := putIx ix c1.indexes, forceCreated := true },
                    .ok ix.name)) := rfl

theorem preCreate_ok {now : Int} {c c1 : Coll} {ix : Index} (h : preCreate now c ix = .ok c1) :
    Sub c c1 ∧ (ix.unique = true →
      precheckUnique ix.keys ix.sparse ix.partialFilter c1.docs [] = .ok ()) := by
  unfold preCreate at h
  cases hu : ix.unique with
  | false =>
    simp only [hu, Bool.false_eq_true, if_false, pure, Except.pure, Except.ok.injEq] at h
    subst h
    exact ⟨Sub.refl _, fun h' => by cases h'⟩
  | true =>
    simp only [hu, if_true, bind, Except.bind] at h
    split at h
    · cases h
    · rename_i c2 he
      split at h
      · cases h
      · rename_i u hp
        simp only [pure, Except.pure, Except.ok.injEq] at h
        subst h
        exact ⟨sub_expire he, fun _ => hp⟩

/-- a successful pre-check gives uniqueness among the covered documents -/
theorem pairsOK_of_precheck {ix : Index} {docs : List (Val × Val)}
    (h : precheckUnique ix.keys ix.sparse ix.partialFilter docs [] = .ok ()) : PairsOK ix docs := by
  intro a b hab ga gb
  exact (precheck_ok ix docs [] h).2 a b hab (good_iff.1 ga).2 (good_iff.1 gb).2

theorem uniqS_with_index {c1 : Coll} {ix : Index} {l : List Index} (hU : UniqS c1)
    (hp : ix.unique = true → PairsOK ix c1.docs) (hl : ∀ i ∈ l, i = ix ∨ i ∈ c1.indexes)
    (c' : Coll) (hd : c'.docs = c1.docs) (hi : c'.indexes = l) : UniqS c' := by
  intro i hi' hu hdf
  rw [hd]
  rw [hi] at hi'
  rcases hl i hi' with rfl | hm
  · exact hp hu
  · exact hU i hm hu hdf

theorem uniqS_go (now : Int) (c : Coll) (ix : Index) (hU : UniqS c) :
    UniqS (createIndexColl.go now c ix).1 := by
  rw [go_eq]
  cases hpre : preCreate now c ix with
  | error e =>
    simp only []
    unfold refusedCreate
    split
    · split
      · rename_i c1 h; exact hU.sub (sub_expire h)
      · exact hU
    · exact hU
  | ok c1 =>
    obtain ⟨hs, hp⟩ := preCreate_ok hpre
    have hU1 := hU.sub hs
    have hp' : ix.unique = true → PairsOK ix c1.docs := fun hu => pairsOK_of_precheck (hp hu)
    simp only []
    split
    · exact uniqS_with_index hU1 hp' (fun i hi => mem_putIx hi) _ rfl rfl
    · exact uniqS_with_index hU1 hp' (fun i hi => mem_putIx hi) _ rfl rfl

theorem uniqS_createIndex (now : Int) (c : Coll) (ix : Index) (hU : UniqS c) :
    UniqS (createIndexColl now c ix).1 := by
  unfold createIndexColl
  split
  · split
    · exact hU
    · exact uniqS_go now c ix hU
  · exact uniqS_go now c ix hU

end MongoModel.Proofs.C06Lemmas
