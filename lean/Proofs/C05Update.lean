/-
  Proofs.C05Update — `applyUpdate` maps a document with pairwise distinct top-level keys to a
  document with pairwise distinct top-level keys (every top-level edit is a `dset` / `derase`).
-/
import Proofs.C05Inv
import Proofs.C02PosFrame

set_option linter.unusedSimpArgs false
set_option linter.unusedVariables false

namespace MongoModel.Proofs.C05Lemmas
open MongoModel MongoModel.Spec

/-- a document whose top-level keys are pairwise distinct (what a Python `dict` is) -/
def TopOK (d : Val) : Prop := ∃ fs, d = .doc fs ∧ (dkeys fs).Nodup

theorem dkeys_dset (k : String) (v : Val) (fs : Fields) :
    dkeys (dset k v fs) = if k ∈ dkeys fs then dkeys fs else dkeys fs ++ [k] := by
  induction fs with
  | nil => simp [dset, dkeys]
  | cons kv fs ih =>
    obtain ⟨k', v'⟩ := kv
    simp only [dset]
    by_cases e : k' = k
    · subst e; simp [dkeys]
    · have e' : ¬ k = k' := fun h => e h.symm
      simp only [dkeys, List.map_cons] at ih ⊢
      simp only [e, if_false, List.map_cons, ih, List.mem_cons, e', false_or]
      split <;> simp [*]

theorem nodup_dset (k : String) (v : Val) (fs : Fields) (h : (dkeys fs).Nodup) :
    (dkeys (dset k v fs)).Nodup := by
  rw [dkeys_dset]
  split
  · exact h
  · rename_i hn
    rw [List.nodup_append]
    refine ⟨h, by simp, ?_⟩
    intro a ha b hb
    simp at hb; subst hb
    intro e; subst e; exact hn ha

theorem dkeys_derase_sublist (k : String) (fs : Fields) : (dkeys (derase k fs)).Sublist (dkeys fs) := by
  induction fs with
  | nil => simp [derase, dkeys]
  | cons kv fs ih =>
    obtain ⟨k', v'⟩ := kv
    simp only [derase]
    split
    · simp [dkeys]
    · simp only [dkeys, List.map_cons] at ih ⊢
      exact List.Sublist.cons_cons _ ih

theorem nodup_derase (k : String) (fs : Fields) (h : (dkeys fs).Nodup) : (dkeys (derase k fs)).Nodup :=
  List.Nodup.sublist (dkeys_derase_sublist k fs) h

theorem TopOK.dset {fs : Fields} (k : String) (v : Val) (h : (dkeys fs).Nodup) :
    TopOK (.doc (dset k v fs)) := ⟨_, rfl, nodup_dset k v fs h⟩

theorem TopOK.derase {fs : Fields} (k : String) (h : (dkeys fs).Nodup) :
    TopOK (.doc (derase k fs)) := ⟨_, rfl, nodup_derase k fs h⟩

theorem TopOK.mk' {fs : Fields} (h : (dkeys fs).Nodup) : TopOK (.doc fs) := ⟨_, rfl, h⟩

theorem foldlM_inv {α β : Type} (P : β → Prop) (f : β → α → R β)
    (hf : ∀ b a r, P b → f b a = .ok r → P r) :
    ∀ (l : List α) (b r : β), P b → l.foldlM f b = .ok r → P r := by
  intro l
  induction l with
  | nil => intro b r hb h; simp [List.foldlM, pure, Except.pure] at h; subst h; exact hb
  | cons a l ih =>
    intro b r hb h
    simp only [List.foldlM_cons, bind, Except.bind] at h
    cases hfa : f b a with
    | error e => simp [hfa] at h
    | ok b1 => simp only [hfa] at h; exact ih b1 r (hf b a b1 hb hfa) h

theorem runUpdater_top (u : Updater) (now : Val) (fs : Fields) (field : String) (value r : Val)
    (hn : (dkeys fs).Nodup) (h : runUpdater u now (.doc fs) field value = .ok r) : TopOK r := by
  cases u <;> simp only [runUpdater, bind, Except.bind, pure, Except.pure] at h
  · cases h; exact TopOK.dset _ _ hn
  · cases h; exact TopOK.derase _ hn
  · split at h
    · cases h
    · cases h; exact TopOK.dset _ _ hn
  · split at h
    · cases h
    · cases h; exact TopOK.dset _ _ hn
  · split at h
    · cases h
    · cases h; exact TopOK.dset _ _ hn
  · split at h
    · cases h
    · split at h
      · cases h; exact TopOK.mk' hn
      · cases h; exact TopOK.dset _ _ hn
      · cases h
  · split at h
    · cases h
    · cases h; exact TopOK.dset _ _ hn

theorem updateSingleField_top (u : Updater) (now value : Val) (parts : List String) (fs : Fields)
    (r : Val) (hn : (dkeys fs).Nodup)
    (h : updateSingleField u now value parts (.doc fs) = .ok r) : TopOK r := by
  match parts with
  | [] => simp [updateSingleField] at h; subst h; exact TopOK.mk' hn
  | [last] => rw [updateSingleField] at h; exact runUpdater_top u now fs last value r hn h
  | part :: p2 :: rest =>
    unfold updateSingleField at h
    simp only [bind, Except.bind, pure, Except.pure] at h
    split at h
    · split at h
      · cases h
      · cases h; exact TopOK.dset _ _ hn
    · split at h
      · cases h; exact TopOK.mk' hn
      · split at h
        · cases h
        · cases h; exact TopOK.dset _ _ hn

theorem updateFields_top (u : Updater) (now v d r : Val) (hd : TopOK d)
    (h : updateFields u now v d = .ok r) : TopOK r := by
  unfold updateFields at h
  split at h
  · split at h
    · cases h
    · refine foldlM_inv TopOK _ ?_ _ d r hd h
      intro b a r' hb hf
      split at hf
      · cases hf
      · obtain ⟨fs, rfl, hn⟩ := hb
        exact updateSingleField_top u now _ _ fs r' hn hf
  · cases h

theorem eachField_top (v d r : Val) (f : Val → String → Val → R Val)
    (hf : ∀ acc k x r', TopOK acc → f acc k x = .ok r' → TopOK r') (hd : TopOK d)
    (h : eachField v d f = .ok r) : TopOK r := by
  unfold eachField at h
  split at h
  · exact foldlM_inv TopOK _ (fun b a r' hb hfa => hf b a.1 a.2 r' hb hfa) _ d r hd h
  · cases h

theorem withSubdoc_aux (b : Bool) (x : R Val) (part : String) (fs : Fields) (r : Val)
    (hn : (dkeys fs).Nodup)
    (h : (if b = true then (unmodelled : R Val) else do
        let sub' ← x
        pure (Val.doc (dset part sub' fs))) = .ok r) : TopOK r := by
  simp only [bind, Except.bind, pure, Except.pure] at h
  split at h
  · simp [unmodelled] at h
  · split at h
    · cases h
    · cases h; exact TopOK.dset _ _ hn

theorem withSubdoc_top (f : Val → String → R Val) (create : Bool)
    (hf : ∀ ps last r', (dkeys ps).Nodup → f (.doc ps) last = .ok r' → TopOK r')
    (parts : List String) (following : Bool) (subspec : Val) (fs : Fields) (r : Val)
    (hn : (dkeys fs).Nodup) (h : withSubdoc f create parts following subspec (.doc fs) = .ok r) :
    TopOK r := by
  match parts with
  | [] => simp [withSubdoc] at h; subst h; exact TopOK.mk' hn
  | [last] => unfold withSubdoc at h; exact hf fs last r hn h
  | part :: p2 :: rest =>
    simp only [withSubdoc] at h
    split at h
    · cases h; exact TopOK.mk' hn
    · exact withSubdoc_aux _ _ part fs r hn h

theorem addToSetField_top (spec d : Val) (field : String) (value r : Val) (hd : TopOK d)
    (h : addToSetField spec d field value = .ok r) : TopOK r := by
  obtain ⟨fs, rfl, hn⟩ := hd
  unfold addToSetField at h
  split at h
  · simp [unmodelled] at h
  · split at h
    · simp [unmodelled] at h
    · split at h
      · rename_i heq
        cases heq
        simp only [bind, Except.bind, pure, Except.pure] at h
        split at h
        · cases h
        · cases h; exact TopOK.dset _ _ hn
      · split at h
        · cases h
        · refine withSubdoc_top _ _ ?_ _ _ _ fs r hn h
          intro ps last r' hps hf
          simp only [bind, Except.bind, pure, Except.pure] at hf
          split at hf
          · cases hf
          · cases hf; exact TopOK.dset _ _ hps

theorem pullWalk_top (value : Val) (parts : List String) (fs : Fields) (r : Val)
    (hn : (dkeys fs).Nodup) (h : pullWalk value parts (.doc fs) = .ok r) : TopOK r := by
  match parts with
  | [] => simp [pullWalk] at h; subst h; exact TopOK.mk' hn
  | part :: rest =>
    unfold pullWalk at h
    simp only [bind, Except.bind, pure, Except.pure] at h
    split at h
    · split at h
      · cases h
      · cases h; exact TopOK.dset _ _ hn
    · cases h; exact TopOK.mk' hn

theorem pullField_top (d : Val) (field : String) (value r : Val) (hd : TopOK d)
    (h : pullField d field value = .ok r) : TopOK r := by
  obtain ⟨fs, rfl, hn⟩ := hd
  unfold pullField at h
  split at h
  · simp [unmodelled] at h
  · split at h
    · simp [unmodelled] at h
    · exact pullWalk_top value _ fs r hn h

theorem pullAllField_top (spec d : Val) (field : String) (value r : Val) (hd : TopOK d)
    (h : pullAllField spec d field value = .ok r) : TopOK r := by
  obtain ⟨fs, rfl, hn⟩ := hd
  unfold pullAllField at h
  split at h
  · simp [unmodelled] at h
  · split at h
    · simp [unmodelled] at h
    · split at h
      · rename_i heq
        cases heq
        simp only [bind, Except.bind, pure, Except.pure] at h
        split at h
        · split at h
          · cases h
          · cases h; exact TopOK.dset _ _ hn
        · cases h; exact TopOK.mk' hn
      · refine withSubdoc_top _ _ ?_ _ _ _ fs r hn h
        intro ps last r' hps hf
        simp only [pullAllAt, bind, Except.bind, pure, Except.pure] at hf
        split at hf
        · split at hf
          · cases hf
          · cases hf; exact TopOK.dset _ _ hps
        · cases hf; exact TopOK.mk' hps

theorem pushField_top (spec d : Val) (field : String) (value r : Val) (hd : TopOK d)
    (h : pushField spec d field value = .ok r) : TopOK r := by
  obtain ⟨fs, rfl, hn⟩ := hd
  unfold pushField at h
  split at h
  · simp [unmodelled] at h
  · split at h
    · simp [unmodelled] at h
    · refine withSubdoc_top _ _ ?_ _ _ _ fs r hn h
      intro ps last r' hps hf
      simp only [bind, Except.bind, pure, Except.pure] at hf
      split at hf
      · cases hf
      · cases hf; exact TopOK.dset _ _ hps

theorem renameFields_top (v d r : Val) (hd : TopOK d) (h : renameFields v d = .ok r) : TopOK r := by
  unfold renameFields at h
  refine eachField_top v d r _ ?_ hd h
  intro acc k x r' hacc hf
  split at hf
  · split at hf
    · cases hf
    · obtain ⟨fs, rfl, hn⟩ := hacc
      simp only at hf
      split at hf
      · cases hf; exact TopOK.dset _ _ (nodup_derase _ _ hn)
      · cases hf; exact TopOK.mk' hn
  · simp [unmodelled] at hf
  · simp [unmodelled] at hf
  · split at hf <;> cases hf

theorem foldl_dset_nodup (document : Fields) : ∀ base : Fields, (dkeys base).Nodup →
    (dkeys (document.foldl (fun acc kv => dset kv.1 kv.2 acc) base)).Nodup := by
  induction document with
  | nil => intro base h; exact h
  | cons kv document ih => intro base h; exact ih _ (nodup_dset _ _ _ h)

theorem replaceWhole_top (document : Fields) (d r : Val) (h : replaceWhole document d = .ok r) :
    TopOK r := by
  unfold replaceWhole at h
  split at h
  · cases h
  · split at h
    · rename_i es
      have hb : (dkeys (match dget "_id" es with
          | some x => [("_id", x)]
          | none => ([] : Fields))).Nodup := by
        split <;> simp [dkeys]
      have hm := foldl_dset_nodup document _ hb
      simp only at h
      split at h
      · split at h
        · cases h
        · cases h; exact TopOK.mk' hm
      · cases h; exact TopOK.mk' hm
    · simp [unmodelled] at h

theorem applyOps_top (spec now : Val) (wasInsert : Bool) (whole : Fields) :
    ∀ (ops : Fields) (first : Bool) (d r : Val), TopOK d →
      applyOps spec now wasInsert whole ops first d = .ok r → TopOK r := by
  intro ops
  induction ops with
  | nil => intro first d r hd h; simp [applyOps] at h; subst h; exact hd
  | cons kv ops ih =>
    obtain ⟨k, v⟩ := kv
    intro first d r hd h
    unfold applyOps at h
    simp only [bind, Except.bind, pure, Except.pure] at h
    split at h
    · split at h
      · cases h
      · rename_i d' hd'
        exact ih _ _ _ (updateFields_top _ _ _ _ _ hd hd') h
    · split at h
      · split at h
        · cases h
        · rename_i d' hd'
          exact ih _ _ _ (renameFields_top _ _ _ hd hd') h
      · split at h
        · split at h
          · exact ih _ _ _ hd h
          · split at h
            · cases h
            · rename_i d' hd'
              exact ih _ _ _ (updateFields_top _ _ _ _ _ hd hd') h
        · split at h
          · split at h
            · cases h
            · rename_i d' hd'
              exact ih _ _ _ (updateFields_top _ _ _ _ _ hd hd') h
          · split at h
            · split at h
              · cases h
              · rename_i d' hd'
                exact ih _ _ _ (eachField_top _ _ _ _
                  (fun acc k x r' ha hf => addToSetField_top spec acc k x r' ha hf) hd hd') h
            · split at h
              · split at h
                · cases h
                · rename_i d' hd'
                  exact ih _ _ _ (eachField_top _ _ _ _
                    (fun acc k x r' ha hf => pullField_top acc k x r' ha hf) hd hd') h
              · split at h
                · split at h
                  · cases h
                  · rename_i d' hd'
                    exact ih _ _ _ (eachField_top _ _ _ _
                      (fun acc k x r' ha hf => pullAllField_top spec acc k x r' ha hf) hd hd') h
                · split at h
                  · split at h
                    · cases h
                    · rename_i d' hd'
                      exact ih _ _ _ (eachField_top _ _ _ _
                        (fun acc k x r' ha hf => pushField_top spec acc k x r' ha hf) hd hd') h
                  · split at h
                    · exact replaceWhole_top whole d r h
                    · cases h

/-! ### the positional branch: every step edits one top-level field (`Touch`) -/

theorem Touch.top {p : String} {fs fs' : Fields} (h : C02Lemmas.Touch p fs fs')
    (hn : (dkeys fs).Nodup) : TopOK (.doc fs') := by
  rcases h with rfl | ⟨x, rfl⟩ | rfl
  · exact TopOK.mk' hn
  · exact TopOK.dset _ _ hn
  · exact TopOK.derase _ hn

theorem foldlM_inv_st {σ : Type} (docOf : σ → Val) (step : σ → (String × Val) → R σ)
    (hstep : ∀ s kv s', TopOK (docOf s) → step s kv = .ok s' → TopOK (docOf s')) :
    ∀ (body : Fields) (s s' : σ), TopOK (docOf s) → body.foldlM step s = .ok s' → TopOK (docOf s') :=
  foldlM_inv (fun s => TopOK (docOf s)) step hstep

theorem posFields_top (u : Updater) (now spec v d : Val) (sub : SubRef) (r : Val × SubRef)
    (hd : TopOK d) (h : posFields u now spec v d sub = .ok r) : TopOK r.1 := by
  cases v with
  | doc body =>
    simp only [posFields] at h
    split at h
    · obtain ⟨st, hst, h2⟩ := C02Lemmas.bind_ok' h
      cases h2
      refine foldlM_inv_st (fun (s : PosState) => s.d) _ ?_ body _ st hd hst
      intro s kv s' hs h0
      obtain ⟨fs0, hd0, hn0⟩ := hs
      obtain ⟨fs1, h1, ht⟩ := C02Lemmas.posUpdaterKey_touch u now spec s s' kv.1 kv.2 fs0 hd0 h0
      simp only [h1]
      exact Touch.top ht hn0
    · obtain ⟨d1, h1, h2⟩ := C02Lemmas.bind_ok' h
      cases h2
      exact updateFields_top u now _ d d1 hd h1
  | _ => simp [posFields] at h

theorem eachFieldS_top (f : Val → SubRef → String → Val → R (Val × SubRef))
    (hf : ∀ fs s field value r, f (.doc fs) s field value = .ok r →
      ∃ fs', r.1 = .doc fs' ∧ C02Lemmas.Touch (headOf field) fs fs')
    (v d : Val) (sub : SubRef) (r : Val × SubRef) (hd : TopOK d)
    (h : eachFieldS v d sub f = .ok r) : TopOK r.1 := by
  cases v with
  | doc body =>
    simp only [eachFieldS] at h
    refine foldlM_inv_st (fun (s : Val × SubRef) => s.1) _ ?_ body _ r hd h
    intro s kv s' hs h0
    obtain ⟨fs0, hd0, hn0⟩ := hs
    obtain ⟨d0, s0⟩ := s
    simp only at hd0
    subst hd0
    obtain ⟨fs1, h1, ht⟩ := hf fs0 s0 kv.1 kv.2 s' h0
    simp only [h1]
    exact Touch.top ht hn0
  | _ => simp [eachFieldS] at h

theorem applyOpsPos_top (spec now : Val) (wasInsert : Bool) (whole : Fields) :
    ∀ (ops : Fields) (first : Bool) (sub : SubRef) (d r : Val), TopOK d →
      applyOpsPos spec now wasInsert whole ops first sub d = .ok r → TopOK r
  | [], first, sub, d, r, hd, h => by
    simp only [applyOpsPos] at h
    cases h; exact hd
  | (k, v) :: rest, first, sub, d, r, hd, h => by
    have key : ∀ (X : R (Val × SubRef)), (∀ x, X = .ok x → TopOK x.1) →
        (do let x ← X; applyOpsPos spec now wasInsert whole rest false x.2 x.1) = Except.ok r →
        TopOK r := by
      intro X hX hb
      obtain ⟨x, h1, h2⟩ := C02Lemmas.bind_ok' hb
      exact applyOpsPos_top spec now wasInsert whole rest false x.2 x.1 r (hX x h1) h2
    simp only [applyOpsPos] at h
    split at h
    · rename_i u hu
      exact key _ (fun x hx => posFields_top u now spec v d sub x hd hx) h
    · split at h
      · obtain ⟨d1, h1, h2⟩ := C02Lemmas.bind_ok' h
        exact applyOpsPos_top spec now wasInsert whole rest false _ d1 r
          (renameFields_top _ _ _ hd h1) h2
      split at h
      · split at h
        · exact applyOpsPos_top spec now wasInsert whole rest first sub d r hd h
        · exact key _ (fun x hx => posFields_top .set now spec v d sub x hd hx) h
      split at h
      · exact key _ (fun x hx => posFields_top .currentDate now spec v d sub x hd hx) h
      split at h
      · refine key _ (fun x hx => eachFieldS_top _ ?_ v d sub x hd hx) h
        intro fs0 s0 f0 v0 r0 h0
        obtain ⟨d1, h1, h2⟩ := C02Lemmas.bind_ok' h0
        cases h2
        exact C02Lemmas.addToSetFieldPos_touch spec fs0 f0 v0 d1 h1
      split at h
      · refine key _ (fun x hx => eachFieldS_top _ ?_ v d sub x hd hx) h
        intro fs0 s0 f0 v0 r0 h0
        exact C02Lemmas.pullFieldPos_touch spec s0 fs0 f0 v0 r0 h0
      split at h
      · refine key _ (fun x hx => eachFieldS_top _ ?_ v d sub x hd hx) h
        intro fs0 s0 f0 v0 r0 h0
        obtain ⟨d1, h1, h2⟩ := C02Lemmas.bind_ok' h0
        cases h2
        exact C02Lemmas.pullAllFieldPos_touch spec fs0 f0 v0 d1 h1
      split at h
      · refine key _ (fun x hx => eachFieldS_top _ ?_ v d sub x hd hx) h
        intro fs0 s0 f0 v0 r0 h0
        obtain ⟨d1, h1, h2⟩ := C02Lemmas.bind_ok' h0
        cases h2
        exact C02Lemmas.pushFieldPos_touch spec fs0 f0 v0 d1 h1
      split at h
      · exact replaceWhole_top whole d r h
      · cases h

theorem applyUpdate_top (spec document now : Val) (wasInsert : Bool) (existing r : Val)
    (hd : TopOK existing) (h : applyUpdate spec document now wasInsert existing = .ok r) : TopOK r := by
  unfold applyUpdate at h
  split at h
  · split at h
    · split at h
      · cases h; exact TopOK.mk' (by simp [dkeys])
      · cases h; exact TopOK.mk' (by simp [dkeys])
    · simp [unmodelled] at h
  · split at h
    · exact applyOpsPos_top spec now wasInsert _ _ _ _ _ _ hd h
    · exact applyOps_top spec now wasInsert _ _ _ _ _ hd h
  · cases h

end MongoModel.Proofs.C05Lemmas
