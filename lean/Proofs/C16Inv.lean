/-
  Proofs.C16Inv — the invariant "everything the running call works on was allocated by the call,
  in a window of run-local identities no persistent object lives in" carried through every stage
  of `MongoModel.AggHeap` under the reference discipline.
-/
import Proofs.C16

namespace MongoModel.Proofs.C16
open MongoModel MongoModel.AggHeap

abbrev Dr : Disc := Disc.reference

theorem dr_arrayConst : Dr.arrayConst = .evaluated := rfl

/-! ### expressions -/

mutual
  theorem evalExpr_win {b : Nat} (pipe doc : HV) : ∀ (e : AExpr) (n : Nat) (r : Option HV) (n' : Nat),
      b ≤ n → doc.all (inR b n) = true → evalExpr Dr pipe doc e n = .ok (r, n') →
      n ≤ n' ∧ ∀ v, r = some v → v.all (inR b n') = true
    | .const c, n, r, n', _, _, h => by
      simp only [evalExpr] at h; cases h
      exact ⟨Nat.le_refl _, fun v hv => by cases hv; simp [HV.all]⟩
    | .field p, n, r, n', _, hd, h => by
      simp only [evalExpr] at h
      cases hg : getPath p doc with
      | error e => simp [hg, Except.map] at h
      | ok x =>
        simp [hg, Except.map] at h
        obtain ⟨h1, h2⟩ := h; subst h1; subst h2
        exact ⟨Nat.le_refl _, fun v hv => by subst hv; exact all_getPath p doc v hd hg⟩
    | .root, n, r, n', _, hd, h => by
      simp only [evalExpr] at h; cases h
      exact ⟨Nat.le_refl _, fun v hv => by cases hv; exact hd⟩
    | .lit loc, n, r, n', hb, _, h => by
      simp only [evalExpr] at h
      split at h
      · next v hv =>
        cases h
        have := deepTmp_win (b := b) v n hb
        exact ⟨this.1, fun x hx => by cases hx; exact this.2⟩
      · cases h; exact ⟨Nat.le_refl _, fun v hv => by cases hv⟩
    | .carr loc items, n, r, n', hb, hd, h => by
      simp only [evalExpr, dr_arrayConst] at h
      split at h
      · next ks n2 hk =>
        cases h
        have := evalKids_win (b := b) pipe doc true items (n + 1) ks n' (by omega)
          (all_mono (fun i hi => inR_mono (Nat.le_refl _) (by omega) i hi) _ hd) hk
        refine ⟨by omega, fun v hv => ?_⟩
        cases hv
        simp only [HV.all, Bool.and_eq_true]
        exact ⟨inR_tmp hb (by omega), this.2⟩
      · cases h
    | .obj kids, n, r, n', hb, hd, h => by
      simp only [evalExpr] at h
      split at h
      · next ks n2 hk =>
        cases h
        have := evalKids_win (b := b) pipe doc false kids (n + 1) ks n' (by omega)
          (all_mono (fun i hi => inR_mono (Nat.le_refl _) (by omega) i hi) _ hd) hk
        refine ⟨by omega, fun v hv => ?_⟩
        cases hv
        simp only [HV.all, Bool.and_eq_true]
        exact ⟨inR_tmp hb (by omega), this.2⟩
      · cases h
    | .unmodelled, n, r, n', _, _, h => by simp [evalExpr] at h
  theorem evalKids_win {b : Nat} (pipe doc : HV) (nm : Bool) : ∀ (kids : List (String × AExpr)) (n : Nat) (ks : Kids) (n' : Nat),
      b ≤ n → doc.all (inR b n) = true → evalKids Dr pipe doc nm kids n = .ok (ks, n') →
      n ≤ n' ∧ allKids (inR b n') ks = true
    | [], n, ks, n', _, _, h => by
      simp only [evalKids] at h; cases h; exact ⟨Nat.le_refl _, by simp [allKids]⟩
    | (k, e) :: r, n, ks, n', hb, hd, h => by
      simp only [evalKids] at h
      split at h
      · cases h
      · next n1 he =>
        have h1 := evalExpr_win (b := b) pipe doc e n none n1 hb hd he
        split at h
        · split at h
          · next ks2 n2 hk =>
            cases h
            have h2 := evalKids_win (b := b) pipe doc nm r n1 ks2 n' (by omega)
              (all_mono (fun i hi => inR_mono (Nat.le_refl _) h1.1 i hi) _ hd) hk
            refine ⟨by omega, ?_⟩
            simp only [allKids, HV.all, Bool.true_and]
            exact h2.2
          · cases h
        · have h2 := evalKids_win (b := b) pipe doc nm r n1 ks n' (by omega)
            (all_mono (fun i hi => inR_mono (Nat.le_refl _) h1.1 i hi) _ hd) h
          exact ⟨by omega, h2.2⟩
      · next v n1 he =>
        have h1 := evalExpr_win (b := b) pipe doc e n (some v) n1 hb hd he
        split at h
        · next ks2 n2 hk =>
          cases h
          have h2 := evalKids_win (b := b) pipe doc nm r n1 ks2 n' (by omega)
            (all_mono (fun i hi => inR_mono (Nat.le_refl _) h1.1 i hi) _ hd) hk
          refine ⟨by omega, ?_⟩
          simp only [allKids, Bool.and_eq_true]
          exact ⟨all_mono (fun i hi => inR_mono (Nat.le_refl _) h2.1 i hi) _ (h1.2 v rfl), h2.2⟩
        · cases h
end

/-! ### the invariant of the running call -/

/-- no run-local identity -/
abbrev notTmp : Id → Bool := fun i => !i.isTmp

theorem inR_not_notTmp {b m : Nat} (i : Id) : inR b m i = true → notTmp i = false := by
  cases i <;> simp [inR, notTmp, Id.isTmp]

/-- everything the call works on (`work`, `out`) was allocated by the call in the window
    `[b, nextTmp)`; the collections contain no run-local identity at all, and nothing else that
    outlives the stage (pipeline object, the call's copy of it, the lists an enclosing `$facet`
    keeps alive) contains an identity of that window -/
structure WInv (b : Nat) (w : World) : Prop where
  hb : b ≤ w.nextTmp
  work : allL (inR b w.nextTmp) w.work = true
  out : allL (inR b w.nextTmp) w.out = true
  colls : allColls notTmp w.colls = true
  pipe : w.pipe.all (below b) = true
  cpipe : w.cpipe.all (below b) = true
  stack : allLL (below b) w.stack = true

/-- what a stage without `$out` must leave alone -/
structure Same (w w' : World) : Prop where
  colls : w'.colls = w.colls
  idx : w'.idx = w.idx
  pipe : w'.pipe = w.pipe
  cpipe : w'.cpipe = w.cpipe
  stack : w'.stack = w.stack
  nextSt : w'.nextSt = w.nextSt

theorem Same.rfl' (w : World) : Same w w := ⟨rfl, rfl, rfl, rfl, rfl, rfl⟩

theorem Same.trans {a b c : World} (h1 : Same a b) (h2 : Same b c) : Same a c :=
  ⟨h2.colls.trans h1.colls, h2.idx.trans h1.idx, h2.pipe.trans h1.pipe, h2.cpipe.trans h1.cpipe,
   h2.stack.trans h1.stack, h2.nextSt.trans h1.nextSt⟩

/-- the conclusion every step lemma has -/
structure Step (b : Nat) (w w' : World) : Prop where
  inv : WInv b w'
  same : Same w w'
  mono : w.nextTmp ≤ w'.nextTmp

theorem Step.trans {b : Nat} {a c d : World} (h1 : Step b a c) (h2 : Step b c d) : Step b a d :=
  ⟨h2.inv, h1.same.trans h2.same, Nat.le_trans h1.mono h2.mono⟩

theorem Step.refl {b : Nat} {w : World} (h : WInv b w) : Step b w w := ⟨h, Same.rfl' w, Nat.le_refl _⟩

/-- raising the counter -/
theorem WInv.bump {b : Nat} {w : World} (h : WInv b w) (n : Nat) (hn : w.nextTmp ≤ n) :
    Step b w { w with nextTmp := n } :=
  ⟨⟨Nat.le_trans h.hb hn, allL_mono (fun i hi => inR_mono (Nat.le_refl _) hn i hi) _ h.work,
    allL_mono (fun i hi => inR_mono (Nat.le_refl _) hn i hi) _ h.out, h.colls, h.pipe, h.cpipe, h.stack⟩,
   ⟨rfl, rfl, rfl, rfl, rfl, rfl⟩, hn⟩

/-- **an in-place write into an object of the window**, of values of the window -/
theorem WInv.mutate {b : Nat} {w : World} (h : WInv b w) (id : Id) (f : Kids → Kids)
    (hid : inR b w.nextTmp id = true)
    (hf : ∀ ks, allKids (inR b w.nextTmp) ks = true → allKids (inR b w.nextTmp) (f ks) = true) :
    Step b w (w.mutate id f) := by
  have hnb := inR_not_below id hid
  refine ⟨⟨h.hb, ?_, ?_, ?_, ?_, ?_, ?_⟩, ⟨?_, rfl, ?_, ?_, ?_, rfl⟩, Nat.le_refl _⟩
  · exact mutateL_all id f hf _ h.work
  · exact mutateL_all id f hf _ h.out
  · simp only [World.mutate]; rw [mutateColls_noop notTmp id f (inR_not_notTmp id hid) _ h.colls]; exact h.colls
  · simp only [World.mutate]; rw [mutate_noop (below b) id f hnb _ h.pipe]; exact h.pipe
  · simp only [World.mutate]; rw [mutate_noop (below b) id f hnb _ h.cpipe]; exact h.cpipe
  · simp only [World.mutate]; rw [mutateLL_noop (below b) id f hnb _ h.stack]; exact h.stack
  · simp only [World.mutate]; exact mutateColls_noop notTmp id f (inR_not_notTmp id hid) _ h.colls
  · simp only [World.mutate]; exact mutate_noop (below b) id f hnb _ h.pipe
  · simp only [World.mutate]; exact mutate_noop (below b) id f hnb _ h.cpipe
  · simp only [World.mutate]; exact mutateLL_noop (below b) id f hnb _ h.stack

/-! ### `$addFields` -/

theorem dr_addFieldsNested : Dr.addFieldsNested = .shallow := rfl

/-- writing one field of one document under construction: a purely local rebuild of that
    document — nothing else in the world changes -/
theorem setOut_step {b : Nat} (w : World) (j : Nat) (path : List String) (v : HV) (w' : World)
    (h : WInv b w) (hv : v.all (inR b w.nextTmp) = true) (hs : setOut Dr w j path v = .ok w') :
    Step b w w' := by
  simp only [setOut, dr_addFieldsNested] at hs
  split at hs
  · next top ht =>
    cases hs
    have htop := allL_getElem? _ _ _ h.out ht
    have hp := addFieldTop_win (b := b) Dr.addFieldsItemValue v path top w.nextTmp h.hb htop hv
    have hb1 := h.bump (addFieldTop Dr.addFieldsItemValue v path top w.nextTmp).2 hp.1
    exact ⟨⟨hb1.inv.hb, hb1.inv.work, allL_set _ _ _ hb1.inv.out hp.2, h.colls, h.pipe, h.cpipe, h.stack⟩,
      ⟨rfl, rfl, rfl, rfl, rfl, rfl⟩, hp.1⟩
  · cases hs; exact Step.refl h

theorem addField_step {b : Nat} (path : List String) (e : AExpr) :
    ∀ (fuel : Nat) (w : World) (j : Nat) (w' : World), WInv b w →
      addField Dr w path e fuel j = .ok w' → Step b w w'
  | 0, w, j, w', h, hs => by simp only [addField] at hs; cases hs; exact Step.refl h
  | fuel + 1, w, j, w', h, hs => by
    simp only [addField] at hs
    split at hs
    · cases hs; exact Step.refl h
    · next inDoc hd =>
      have hdoc := allL_getElem? _ _ _ h.work hd
      split at hs
      · cases hs
      · next n' he =>
        have h1 := evalExpr_win (b := b) w.cpipe inDoc e w.nextTmp none n' h.hb hdoc he
        have hb1 := h.bump n' h1.1
        exact hb1.trans (addField_step path e fuel _ (j + 1) w' hb1.inv hs)
      · next v n' he =>
        have h1 := evalExpr_win (b := b) w.cpipe inDoc e w.nextTmp (some v) n' h.hb hdoc he
        have hb1 := h.bump n' h1.1
        split at hs
        · next w1 hso =>
          have h2 := setOut_step (b := b) _ j path v w1 hb1.inv (h1.2 v rfl) hso
          exact (hb1.trans h2).trans (addField_step path e fuel w1 (j + 1) w' h2.inv hs)
        · cases hs

theorem addFieldsAll_step {b : Nat} : ∀ (fields : List (String × AExpr)) (w w' : World), WInv b w →
    addFieldsAll Dr w fields = .ok w' → Step b w w'
  | [], w, w', h, hs => by simp only [addFieldsAll] at hs; cases hs; exact Step.refl h
  | (f, e) :: r, w, w', h, hs => by
    simp only [addFieldsAll] at hs
    split at hs
    · next w1 h1 =>
      have s1 := addField_step (b := b) (splitDots f) e _ w 0 w1 h h1
      exact s1.trans (addFieldsAll_step r w1 w' s1.inv hs)
    · cases hs

/-! ### `$lookup` -/

theorem lookupAll_step {b : Nat} (sem : Sem) (frm loc frn as : String) :
    ∀ (fuel : Nat) (w : World) (j : Nat) (w' : World), WInv b w →
      lookupAll Dr sem frm loc frn as w fuel j = .ok w' → Step b w w'
  | 0, w, j, w', h, hs => by simp only [lookupAll] at hs; cases hs; exact Step.refl h
  | fuel + 1, w, j, w', h, hs => by
    simp only [lookupAll] at hs
    split at hs
    · cases hs; exact Step.refl h
    · next doc hd =>
      have hdoc := allL_getElem? _ _ _ h.work hd
      split at hs
      · cases hs
      · next idxs hj =>
        split at hs
        · cases hs
        · next id hid =>
          simp only [Dr, Disc.reference, if_true] at hs
          rw [runL_deep_eq] at hs
          have hc := deepTmpL_win (b := b) (pick (getColl frm w.colls) idxs) (w.nextTmp + 1)
            (by have := h.hb; omega)
          have hb1 := h.bump (deepTmpL (pick (getColl frm w.colls) idxs) (w.nextTmp + 1)).2 (by omega)
          have hm := hb1.inv.mutate id
            (kset as (.node (.tmp w.nextTmp) false
              ((deepTmpL (pick (getColl frm w.colls) idxs) (w.nextTmp + 1)).1.map (fun v => ("", v)))))
            (inR_mono (Nat.le_refl _) hb1.mono _ (all_id? doc id hdoc hid))
            (fun ks hk => allKids_kset as _ (by
              simp only [HV.all, Bool.and_eq_true]
              exact ⟨inR_tmp h.hb (Nat.lt_of_succ_le hc.1), by rw [allKids_mapList]; exact hc.2⟩) ks hk)
          exact (hb1.trans hm).trans (lookupAll_step sem frm loc frn as fuel _ (j + 1) w' hm.inv hs)

theorem lookupAll_out (sem : Sem) (frm loc frn as : String) :
    ∀ (fuel : Nat) (w : World) (j : Nat) (w' : World), w.out = [] →
      lookupAll Dr sem frm loc frn as w fuel j = .ok w' → w'.out = []
  | 0, w, j, w', ho, hs => by simp only [lookupAll] at hs; cases hs; exact ho
  | fuel + 1, w, j, w', ho, hs => by
    simp only [lookupAll] at hs
    split at hs
    · cases hs; exact ho
    · split at hs
      · cases hs
      · split at hs
        · cases hs
        · simp only [Dr, Disc.reference, if_true] at hs
          exact lookupAll_out sem frm loc frn as fuel _ (j + 1) w'
            (by simp [World.mutate, ho, mutateL]) hs

/-! ### `$unwind` -/

theorem dr_unwindDoc : Dr.unwindDoc = .deep := rfl
theorem dr_unwindIndexed : Dr.unwindIndexed = .deep := rfl
theorem dr_unwindItem : Dr.unwindItem = .deep := rfl

theorem all_itemAt {p : Id → Bool} (key : String) (i : Nat) (x v : HV) (hx : x.all p = true)
    (h : itemAt key i x = some v) : v.all p = true := by
  unfold itemAt at h
  split at h
  · next id items hg =>
    have hl := all_get key x _ hx hg
    simp only [HV.all, Bool.and_eq_true] at hl
    cases hi : items[i]? with
    | none => simp [hi] at h
    | some kv =>
      simp [hi] at h
      subst h
      have hmem := List.mem_of_getElem? hi
      clear hi hg
      induction items with
      | nil => cases hmem
      | cons a r ih =>
        obtain ⟨k, y⟩ := a
        simp only [allKids, Bool.and_eq_true] at hl
        cases hmem with
        | head => exact hl.2.1
        | tail _ hm => exact ih ⟨hl.1, hl.2.2⟩ hm
  · cases h

theorem unwoundValue_all {p : Id → Bool} (key : String) (c other : HV)
    (hc : c.all p = true) (ho : other.all p = true) : (unwoundValue Dr key c other).all p = true := by
  simp only [unwoundValue, dr_unwindItem]
  cases h : c.get key with
  | none => simpa [Option.getD] using ho
  | some v => simpa [Option.getD] using all_get key c v hc h

theorem unwoundItem_all {p : Id → Bool} (key : String) (i : Nat) (c item : HV)
    (hc : c.all p = true) (hi : item.all p = true) : (unwoundItem Dr key i c item).all p = true := by
  simp only [unwoundItem, dr_unwindItem]
  cases h : itemAt key i c with
  | none => simpa [Option.getD] using hi
  | some v => simpa [Option.getD] using all_itemAt key i c v hc h
theorem dr_indexPrivate : Dr.indexPrivate = true := rfl

theorem setIndex_win {b : Nat} (idx : Option (List String)) (v : Val) (x : HV) (n : Nat)
    (hb : b ≤ n) (hx : x.all (inR b n) = true) :
    n ≤ (setIndex idx v x n).2 ∧ (setIndex idx v x n).1.all (inR b (setIndex idx v x n).2) = true := by
  cases idx with
  | none => exact ⟨Nat.le_refl _, hx⟩
  | some p => exact setPathCopy_win (b := b) .none (.atom v) p x n hb hx (by simp [HV.all])

theorem keptDoc_win {b : Nat} (idx : Option (List String)) (doc : HV) (n : Nat)
    (hb : b ≤ n) (hd : doc.all (inR b n) = true) :
    n ≤ (keptDoc Dr idx doc n).2 ∧ (keptDoc Dr idx doc n).1.all (inR b (keptDoc Dr idx doc n).2) = true := by
  cases idx with
  | none => exact ⟨Nat.le_refl _, hd⟩
  | some p =>
    simp only [keptDoc, dr_unwindIndexed, Copy.run]
    have hc := deepTmp_win (b := b) doc n hb
    have hp := setPathCopy_win (b := b) .none (.atom .null) p (deepTmp doc n).1 (deepTmp doc n).2
      (Nat.le_trans hb hc.1) hc.2 (by simp [HV.all])
    exact ⟨Nat.le_trans hc.1 hp.1, hp.2⟩

theorem unwindItems_win {b : Nat} (key : String) (idx : Option (List String)) (doc : HV) :
    ∀ (items : Kids) (i n : Nat), b ≤ n → doc.all (inR b n) = true → allKids (inR b n) items = true →
      n ≤ (unwindItems Dr key idx doc items i n).2 ∧
      allL (inR b (unwindItems Dr key idx doc items i n).2) (unwindItems Dr key idx doc items i n).1 = true
  | [], _, n, _, _, _ => by simp [unwindItems, allL]
  | (k, x) :: r, i, n, hb, hd, hi => by
    simp only [allKids, Bool.and_eq_true] at hi
    simp only [unwindItems, dr_unwindDoc, Copy.run]
    have hc := deepTmp_win (b := b) doc n hb
    have hm : ∀ q, inR b n q = true → inR b (deepTmp doc n).2 q = true :=
      fun q hq => inR_mono (Nat.le_refl _) hc.1 q hq
    have hit := unwoundItem_all key i (deepTmp doc n).1 x hc.2 (all_mono hm _ hi.1)
    have hs := setIndex_win (b := b) idx (.int i)
      ((deepTmp doc n).1.setLocal key (unwoundItem Dr key i (deepTmp doc n).1 x)) (deepTmp doc n).2
      (Nat.le_trans hb hc.1) (all_setLocal key _ _ hc.2 hit)
    have hm2 : ∀ q, inR b n q = true →
        inR b (setIndex idx (.int i)
          ((deepTmp doc n).1.setLocal key (unwoundItem Dr key i (deepTmp doc n).1 x))
          (deepTmp doc n).2).2 q = true :=
      fun q hq => inR_mono (Nat.le_refl _) (Nat.le_trans hc.1 hs.1) q hq
    have ih := unwindItems_win key idx doc r (i + 1)
      (setIndex idx (.int i)
        ((deepTmp doc n).1.setLocal key (unwoundItem Dr key i (deepTmp doc n).1 x)) (deepTmp doc n).2).2
      (Nat.le_trans hb (Nat.le_trans hc.1 hs.1)) (all_mono hm2 _ hd) (allKids_mono hm2 _ hi.2)
    simp only [allL, Bool.and_eq_true]
    exact ⟨Nat.le_trans (Nat.le_trans hc.1 hs.1) ih.1,
      all_mono (fun q hq => inR_mono (Nat.le_refl _) ih.1 q hq) _ hs.2, ih.2⟩

theorem unwindDoc_win {b : Nat} (key : String) (preserve : Bool) (idx : Option (List String))
    (doc : HV) (n : Nat) (hb : b ≤ n) (hd : doc.all (inR b n) = true) :
    n ≤ (unwindDoc Dr key preserve idx doc n).2 ∧
      allL (inR b (unwindDoc Dr key preserve idx doc n).2) (unwindDoc Dr key preserve idx doc n).1 = true := by
  have hc := deepTmp_win (b := b) doc n hb
  have hk := keptDoc_win (b := b) idx doc n hb hd
  unfold unwindDoc
  split
  · split
    · simp only [allL, Bool.and_true]; exact hk
    · simp [allL]
  · split
    · simp only [allL, Bool.and_true]; exact hk
    · simp [allL]
  · split
    · simp only [dr_unwindDoc, Copy.run, allL, Bool.and_true]
      have hk2 := keptDoc_win (b := b) idx ((deepTmp doc n).1.delLocal key) (deepTmp doc n).2
        (Nat.le_trans hb hc.1) (all_delLocal key _ hc.2)
      exact ⟨Nat.le_trans hc.1 hk2.1, hk2.2⟩
    · simp [allL]
  · next items hne hg =>
    have hit := all_get key doc _ hd hg
    simp only [HV.all, Bool.and_eq_true] at hit
    exact unwindItems_win (b := b) key idx doc items 0 n hb hd hit.2
  · next other hn1 hn2 hn3 hg =>
    have hit := all_get key doc _ hd hg
    simp only [dr_unwindDoc, Copy.run, allL, Bool.and_true]
    have hs := setIndex_win (b := b) idx .null
      ((deepTmp doc n).1.setLocal key (unwoundValue Dr key (deepTmp doc n).1 other)) (deepTmp doc n).2
      (Nat.le_trans hb hc.1) (all_setLocal key _ _ hc.2
        (unwoundValue_all key _ other hc.2
          (all_mono (fun q hq => inR_mono (Nat.le_refl _) hc.1 q hq) _ hit)))
    exact ⟨Nat.le_trans hc.1 hs.1, hs.2⟩

theorem unwindAll_win {b : Nat} (key : String) (preserve : Bool) (idx : Option (List String)) : ∀ (l : List HV) (n : Nat),
    b ≤ n → allL (inR b n) l = true →
    n ≤ (unwindAll Dr key preserve idx l n).2 ∧
      allL (inR b (unwindAll Dr key preserve idx l n).2) (unwindAll Dr key preserve idx l n).1 = true
  | [], n, _, _ => by simp [unwindAll, allL]
  | d :: r, n, hb, hl => by
    simp only [allL, Bool.and_eq_true] at hl
    have h1 := unwindDoc_win (b := b) key preserve idx d n hb hl.1
    have h2 := unwindAll_win key preserve idx r (unwindDoc Dr key preserve idx d n).2 (by omega)
      (allL_mono (fun i hi => inR_mono (Nat.le_refl _) h1.1 i hi) _ hl.2)
    simp only [unwindAll]
    rw [allL_append]
    simp only [Bool.and_eq_true]
    exact ⟨by omega, allL_mono (fun i hi => inR_mono (Nat.le_refl _) h2.1 i hi) _ h1.2, h2.2⟩

/-! ### `$project`, `$replaceRoot` -/

theorem allKids_projKeep {p : Id → Bool} (incl : List String) : ∀ ks : Kids,
    allKids p ks = true → allKids p (projKeep incl ks) = true
  | [], _ => by simp [projKeep, allKids]
  | (k, v) :: r, h => by
    simp only [allKids, Bool.and_eq_true] at h
    simp only [projKeep]
    split
    · simp [allKids, h.1, allKids_projKeep incl r h.2]
    · exact allKids_projKeep incl r h.2

theorem allKids_foldl_kset {p : Id → Bool} : ∀ (ks keep : Kids),
    allKids p ks = true → allKids p keep = true →
    allKids p (ks.foldl (fun acc kv => kset kv.1 kv.2 acc) keep) = true
  | [], keep, _, hk => by simpa using hk
  | (k, v) :: r, keep, h, hk => by
    simp only [allKids, Bool.and_eq_true] at h
    simp only [List.foldl_cons]
    exact allKids_foldl_kset r _ h.2 (allKids_kset k v h.1 keep hk)

theorem projectDoc_win {b : Nat} (pipe : HV) (noId : Bool) (incl : List String)
    (computed : List (String × AExpr)) (doc : HV) (n : Nat) (v : HV) (n' : Nat)
    (hb : b ≤ n) (hd : doc.all (inR b n) = true)
    (h : projectDoc Dr pipe noId incl computed doc n = .ok (v, n')) :
    n ≤ n' ∧ v.all (inR b n') = true := by
  unfold projectDoc at h
  split at h
  · next i kids =>
    split at h
    · cases h
    · next ks n2 hk =>
      cases h
      have hd1 : (HV.node i true kids).all (inR b (n + 1)) = true :=
        all_mono (fun i hi => inR_mono (Nat.le_refl _) (by omega) i hi) _ hd
      have h1 := evalKids_win (b := b) pipe _ false computed (n + 1) ks n' (by omega) hd1 hk
      refine ⟨by omega, ?_⟩
      simp only [HV.all, Bool.and_eq_true] at hd ⊢
      refine ⟨inR_tmp hb (by omega), allKids_foldl_kset ks _ h1.2 ?_⟩
      exact allKids_projKeep _ kids
        (allKids_mono (fun i hi => inR_mono (Nat.le_refl _) (by omega) i hi) _ hd.2)
  · cases h

theorem projectAll_win {b : Nat} (pipe : HV) (noId : Bool) (incl : List String)
    (computed : List (String × AExpr)) : ∀ (l : List HV) (n : Nat) (vs : List HV) (n' : Nat),
    b ≤ n → allL (inR b n) l = true → projectAll Dr pipe noId incl computed l n = .ok (vs, n') →
    n ≤ n' ∧ allL (inR b n') vs = true
  | [], n, vs, n', _, _, h => by simp only [projectAll] at h; cases h; simp [allL]
  | d :: r, n, vs, n', hb, hl, h => by
    simp only [allL, Bool.and_eq_true] at hl
    simp only [projectAll] at h
    split at h
    · cases h
    · next v n1 hp =>
      have h1 := projectDoc_win (b := b) pipe noId incl computed d n v n1 hb hl.1 hp
      split at h
      · next vs2 n2 hr =>
        cases h
        have h2 := projectAll_win pipe noId incl computed r n1 vs2 n' (by omega)
          (allL_mono (fun i hi => inR_mono (Nat.le_refl _) h1.1 i hi) _ hl.2) hr
        simp only [allL, Bool.and_eq_true]
        exact ⟨by omega, all_mono (fun i hi => inR_mono (Nat.le_refl _) h2.1 i hi) _ h1.2, h2.2⟩
      · cases h

theorem replaceRootAll_win {b : Nat} (pipe : HV) (e : AExpr) :
    ∀ (l : List HV) (n : Nat) (vs : List HV) (n' : Nat),
    b ≤ n → allL (inR b n) l = true → replaceRootAll Dr pipe e l n = .ok (vs, n') →
    n ≤ n' ∧ allL (inR b n') vs = true
  | [], n, vs, n', _, _, h => by simp only [replaceRootAll] at h; cases h; simp [allL]
  | d :: r, n, vs, n', hb, hl, h => by
    simp only [allL, Bool.and_eq_true] at hl
    simp only [replaceRootAll] at h
    split at h
    · cases h
    · next i ks n1 he =>
      have h1 := evalExpr_win (b := b) pipe d e n _ n1 hb hl.1 he
      split at h
      · next vs2 n2 hr =>
        cases h
        have h2 := replaceRootAll_win pipe e r n1 vs2 n' (by omega)
          (allL_mono (fun i hi => inR_mono (Nat.le_refl _) h1.1 i hi) _ hl.2) hr
        simp only [allL, Bool.and_eq_true]
        exact ⟨by omega, all_mono (fun i hi => inR_mono (Nat.le_refl _) h2.1 i hi) _ (h1.2 _ rfl), h2.2⟩
      · cases h
    · cases h

/-! ### the stages -/

theorem dr_samplePops : Dr.samplePops = false := rfl
theorem dr_facetShares : Dr.facetSharesInput = false := rfl
theorem dr_addFieldsTop : Dr.addFieldsTop = .shallow := rfl
theorem dr_source : Dr.source = .deep := rfl

/-- a stage that replaces the working list by values of the window -/
theorem WInv.setWork {b : Nat} {w : World} (h : WInv b w) (vs : List HV) (n' : Nat)
    (hn : w.nextTmp ≤ n') (hv : allL (inR b n') vs = true) :
    Step b w { w with work := vs, nextTmp := n' } :=
  ⟨⟨Nat.le_trans h.hb hn, hv, allL_mono (fun i hi => inR_mono (Nat.le_refl _) hn i hi) _ h.out,
    h.colls, h.pipe, h.cpipe, h.stack⟩, ⟨rfl, rfl, rfl, rfl, rfl, rfl⟩, hn⟩

/-- nothing alive contains an identity the call has not allocated yet -/
structure Alive (w : World) : Prop where
  colls : allColls notTmp w.colls = true
  pipe : w.pipe.all (below w.nextTmp) = true
  cpipe : w.cpipe.all (below w.nextTmp) = true
  stack : allLL (below w.nextTmp) w.stack = true

/-- what `runBranches` does to the world: nothing but pushing the branches' outputs -/
structure BrRes (w w' : World) (input : List HV) (rest : List (List HV)) (k : Nat) : Prop where
  pipe : w'.pipe = w.pipe
  cpipe : w'.cpipe = w.cpipe
  alive : Alive w'
  mono : w.nextTmp ≤ w'.nextTmp
  out : w'.out = []
  stack : ∃ outs : List (List HV), w'.stack = input :: (outs ++ rest) ∧ outs.length = k ∧
    allLL (inR w.nextTmp w'.nextTmp) outs = true

theorem allLL_reverse (p : Id → Bool) : ∀ l : List (List HV), allLL p l.reverse = allLL p l
  | [] => by simp
  | a :: r => by
    simp only [List.reverse_cons, allLL_append, allLL, Bool.and_true, allLL_reverse p r]
    exact Bool.and_comm _ _

theorem facetDoc_all {p : Id → Bool} (n K : Nat) (hp : ∀ i, i < K → p (.tmp (n + 1 + i)) = true) :
    ∀ (titles : List String) (ls : List (List HV)) (k : Nat), k + ls.length ≤ K → allLL p ls = true →
      allKids p (((titles.zip ls).zipIdx k).map (fun (tl, i) =>
        (tl.1, HV.node (.tmp (n + 1 + i)) false (tl.2.map (fun v => ("", v)))))) = true
  | [], _, _, _, _ => by simp [allKids]
  | _ :: _, [], _, _, _ => by simp [allKids]
  | t :: ts, l :: ls, k, hk, hl => by
    simp only [allLL, Bool.and_eq_true] at hl
    simp only [List.length_cons] at hk
    simp only [List.zip_cons_cons, List.zipIdx_cons, List.map_cons, allKids, HV.all, Bool.and_eq_true]
    refine ⟨⟨hp k (by omega), by rw [allKids_mapList]; exact hl.1⟩, ?_⟩
    exact facetDoc_all n K hp ts ls (k + 1) (by omega) hl.2

/-- what EVERY stage leaves alone — `$out` included: the caller's pipeline object, the call's
    copy of it, and the lists an enclosing `$facet` keeps alive -/
structure Kept (w w' : World) : Prop where
  pipe : w'.pipe = w.pipe
  cpipe : w'.cpipe = w.cpipe
  stack : w'.stack = w.stack

theorem Kept.trans {a b c : World} (h1 : Kept a b) (h2 : Kept b c) : Kept a c :=
  ⟨h2.pipe.trans h1.pipe, h2.cpipe.trans h1.cpipe, h2.stack.trans h1.stack⟩

/-- the conclusion of the step lemmas for arbitrary stages -/
structure StepK (b : Nat) (w w' : World) : Prop where
  inv : WInv b w'
  kept : Kept w w'
  mono : w.nextTmp ≤ w'.nextTmp

theorem Step.toK {b : Nat} {w w' : World} (h : Step b w w') : StepK b w w' :=
  ⟨h.inv, ⟨h.same.pipe, h.same.cpipe, h.same.stack⟩, h.mono⟩

theorem StepK.trans {b : Nat} {a c d : World} (h1 : StepK b a c) (h2 : StepK b c d) : StepK b a d :=
  ⟨h2.inv, h1.kept.trans h2.kept, Nat.le_trans h1.mono h2.mono⟩

theorem StepK.refl {b : Nat} {w : World} (h : WInv b w) : StepK b w w :=
  ⟨h, ⟨rfl, rfl, rfl⟩, Nat.le_refl _⟩

/-- what a stage that contains no `$out` leaves alone on top of that -/
structure SameStore (w w' : World) : Prop where
  colls : w'.colls = w.colls
  idx : w'.idx = w.idx
  nextSt : w'.nextSt = w.nextSt

theorem SameStore.trans {a b c : World} (h1 : SameStore a b) (h2 : SameStore b c) : SameStore a c :=
  ⟨h2.colls.trans h1.colls, h2.idx.trans h1.idx, h2.nextSt.trans h1.nextSt⟩

theorem Same.store {w w' : World} (h : Same w w') : SameStore w w' := ⟨h.colls, h.idx, h.nextSt⟩

/-- the stages other than `$facet` and `$out` -/
theorem runStage_simple (sem : Sem) : ∀ (st : Stage) (b : Nat) (w w' : World), WInv b w → w.out = [] →
    (∀ bs, st ≠ .facet bs) → st.noOut = true → runStage Dr sem w st = .ok w' → Step b w w' ∧ w'.out = []
  | .select op opts, b, w, w', h, ho, _, _, hs => by
    simp only [runStage] at hs
    split at hs
    · cases hs
      exact ⟨h.setWork _ _ (Nat.le_refl _) (allL_pick _ h.work _), ho⟩
    · cases hs
  | .sample loc, b, w, w', h, ho, _, _, hs => by
    simp only [runStage, sampleStage, dr_samplePops, Bool.false_eq_true, if_false] at hs
    split at hs
    · split at hs
      · split at hs
        · split at hs
          · cases hs
          · cases hs
            exact ⟨h.setWork _ _ (Nat.le_refl _) (allL_take _ _ (allL_pick _ h.work _)), ho⟩
        · cases hs
      · cases hs
      · cases hs
      · cases hs
    · cases hs
  | .addFields fields, b, w, w', h, ho, _, _, hs => by
    simp only [runStage, dr_addFieldsTop] at hs
    split at hs
    · cases hs
    · split at hs
      · next w1 ha =>
        cases hs
        have hc := runL_shallow_win (b := b) w.work w.nextTmp h.hb h.work
        have h0 : WInv b { w with out := (Copy.runL .shallow w.work w.nextTmp).1,
                                  nextTmp := (Copy.runL .shallow w.work w.nextTmp).2 } :=
          ⟨Nat.le_trans h.hb hc.1, allL_mono (fun i hi => inR_mono (Nat.le_refl _) hc.1 i hi) _ h.work,
           hc.2, h.colls, h.pipe, h.cpipe, h.stack⟩
        have s1 := addFieldsAll_step (b := b) fields _ w1 h0 ha
        refine ⟨⟨⟨s1.inv.hb, s1.inv.out, by simp [allL], s1.inv.colls, s1.inv.pipe, s1.inv.cpipe, s1.inv.stack⟩,
          ⟨s1.same.colls, s1.same.idx, s1.same.pipe, s1.same.cpipe, s1.same.stack, s1.same.nextSt⟩,
          Nat.le_trans hc.1 s1.mono⟩, rfl⟩
      · cases hs
  | .project noId incl computed, b, w, w', h, ho, _, _, hs => by
    simp only [runStage] at hs
    split at hs
    · next vs n hp =>
      cases hs
      have h1 := projectAll_win (b := b) w.cpipe noId incl computed w.work w.nextTmp vs n h.hb h.work hp
      exact ⟨h.setWork vs n h1.1 h1.2, ho⟩
    · cases hs
  | .unwind key preserve idx, b, w, w', h, ho, _, _, hs => by
    simp only [runStage] at hs
    split at hs
    · cases hs
    · split at hs
      · cases hs
      · split at hs
        · cases hs
        · cases hs
          have h1 := unwindAll_win (b := b) key preserve idx w.work w.nextTmp h.hb h.work
          exact ⟨h.setWork _ _ h1.1 h1.2, ho⟩
  | .lookup frm loc frn as, b, w, w', h, ho, _, _, hs => by
    simp only [runStage] at hs
    have s1 := lookupAll_step (b := b) sem frm loc frn as _ w 0 w' h hs
    exact ⟨s1, lookupAll_out sem frm loc frn as _ w 0 w' ho hs⟩
  | .replaceRoot e, b, w, w', h, ho, _, _, hs => by
    simp only [runStage] at hs
    split at hs
    · next vs n hp =>
      cases hs
      have h1 := replaceRootAll_win (b := b) w.cpipe e w.work w.nextTmp vs n h.hb h.work hp
      exact ⟨h.setWork vs n h1.1 h1.2, ho⟩
    · cases hs
  | .count name, b, w, w', h, ho, _, _, hs => by
    simp only [runStage] at hs
    split at hs
    · cases hs
      exact ⟨h.setWork _ _ (Nat.le_refl _) (by simp [allL]), ho⟩
    · cases hs
      refine ⟨h.setWork _ _ (Nat.le_succ _) ?_, ho⟩
      simp only [allL, HV.all, allKids, Bool.and_true]
      exact inR_tmp h.hb (Nat.lt_succ_self _)
  | .facet bs, b, w, w', h, ho, hf, _, hs => absurd rfl (hf bs)
  | .out target, b, w, w', h, ho, _, hno, hs => by simp [Stage.noOut] at hno
  | .fail e, b, w, w', h, ho, _, _, hs => by simp [runStage] at hs

/-! ### `$out` keeps the invariant (it changes the store, and nothing else that persists) -/

mutual
  theorem deepSt_st : ∀ (v : HV) (n : Nat), (deepSt v n).1.all Id.isSt = true
    | .atom _, _ => by simp [deepSt, HV.all]
    | .node _ d kids, n => by
      simp only [deepSt, HV.all, Id.isSt, Bool.true_and]
      exact deepStKids_st kids (n + 1)
  theorem deepStKids_st : ∀ (ks : Kids) (n : Nat), allKids Id.isSt (deepStKids ks n).1 = true
    | [], _ => by simp [deepStKids, allKids]
    | (k, v) :: r, n => by
      simp only [deepStKids, allKids, Bool.and_eq_true]
      exact ⟨deepSt_st v n, deepStKids_st r _⟩
end

theorem isSt_notTmp (i : Id) : i.isSt = true → notTmp i = true := by
  cases i <;> simp [notTmp, Id.isTmp, Id.isSt]

theorem allColls_getColl {p : Id → Bool} (t : String) : ∀ c : List (String × List HV),
    allColls p c = true → allL p (getColl t c) = true
  | [], _ => by simp [getColl, allL]
  | (n, l) :: r, h => by
    simp only [allColls, Bool.and_eq_true] at h
    simp only [getColl]
    split
    · exact h.1
    · exact allColls_getColl t r h.2

theorem allColls_setColl {p : Id → Bool} (t : String) (docs : List HV) (hd : allL p docs = true) :
    ∀ c : List (String × List HV), allColls p c = true → allColls p (setColl t docs c) = true
  | [], _ => by simp [setColl, allColls, hd]
  | (n, l) :: r, h => by
    simp only [allColls, Bool.and_eq_true] at h
    simp only [setColl]
    split
    · simp [allColls, hd, h.2]
    · simp [allColls, h.1, allColls_setColl t docs hd r h.2]

/-- changing the store (collections, catalog, counter) to collections without run-local
    identities keeps the invariant -/
theorem WInv.setStore {b : Nat} {w : World} (h : WInv b w) (colls : List (String × List HV))
    (idx : List (String × List String)) (nSt : Nat) (hc : allColls notTmp colls = true) :
    WInv b { w with colls := colls, idx := idx, nextSt := nSt } :=
  ⟨h.hb, h.work, h.out, hc, h.pipe, h.cpipe, h.stack⟩

theorem dr_outStores' : Dr.outStores = .deep := rfl

theorem outInsert_inv {b : Nat} (sem : Sem) (target : String) :
    ∀ (fuel : Nat) (w : World) (j : Nat) (r : World × Option Err), WInv b w → w.out = [] →
      outInsert Dr sem target w fuel j = r →
      WInv b r.1 ∧ Kept w r.1 ∧ r.1.nextTmp = w.nextTmp ∧ r.1.out = []
  | 0, w, j, r, h, ho, hr => by
    simp only [outInsert] at hr; subst hr; exact ⟨h, ⟨rfl, rfl, rfl⟩, rfl, ho⟩
  | fuel + 1, w, j, r, h, ho, hr => by
    simp only [outInsert] at hr
    split at hr
    · subst hr; exact ⟨h, ⟨rfl, rfl, rfl⟩, rfl, ho⟩
    · next doc hd =>
      have hdoc := allL_getElem? _ _ _ h.work hd
      split at hr
      · next id kids =>
        simp only [HV.all, Bool.and_eq_true] at hdoc
        -- the world after the generated `_id` was written (or not)
        have hw1 : ∀ w1 : World,
            w1 = (if (kget "_id" kids).isSome = true then w
                  else w.mutate id (kset "_id" (.atom (.oid (1000 + w.nextSt))))) →
            WInv b w1 ∧ Kept w w1 ∧ w1.nextTmp = w.nextTmp ∧ w1.out = [] := by
          intro w1 e
          by_cases hid : (kget "_id" kids).isSome = true
          · simp only [hid, if_true] at e; subst e; exact ⟨h, ⟨rfl, rfl, rfl⟩, rfl, ho⟩
          · simp only [hid, Bool.false_eq_true, if_false] at e
            subst e
            have hm := h.mutate id (kset "_id" (.atom (.oid (1000 + w.nextSt)))) hdoc.1
              (fun ks hk => allKids_kset "_id" _ (by simp [HV.all]) ks hk)
            exact ⟨hm.inv, ⟨hm.same.pipe, hm.same.cpipe, hm.same.stack⟩, rfl,
              by simp [World.mutate, ho, mutateL]⟩
        generalize hg : (if (kget "_id" kids).isSome = true then w
            else w.mutate id (kset "_id" (.atom (.oid (1000 + w.nextSt))))) = w1 at hr
        obtain ⟨i1, k1, n1, o1⟩ := hw1 w1 hg.symm
        split at hr
        · next id1 kids1 hd1 =>
          split at hr
          · subst hr; exact ⟨i1, k1, n1, o1⟩
          · simp only [dr_outStores'] at hr
            have hst : allColls notTmp
                (setColl target (getColl target w1.colls ++ [(deepSt (.node id1 true kids1) w1.nextSt).1])
                  w1.colls) = true := by
              apply allColls_setColl _ _ _ _ i1.colls
              rw [allL_append]
              simp only [allL, Bool.and_true, Bool.and_eq_true]
              exact ⟨allColls_getColl target _ i1.colls,
                all_mono isSt_notTmp _ (deepSt_st _ _)⟩
            have i2 := i1.setStore _ w1.idx (deepSt (.node id1 true kids1) w1.nextSt).2 hst
            have ih := outInsert_inv sem target fuel _ (j + 1) r i2 o1 hr
            exact ⟨ih.1, ⟨ih.2.1.pipe.trans k1.pipe, ih.2.1.cpipe.trans k1.cpipe,
              ih.2.1.stack.trans k1.stack⟩, ih.2.2.1.trans n1, ih.2.2.2⟩
        · subst hr; exact ⟨i1, k1, n1, o1⟩
      · subst hr; exact ⟨h, ⟨rfl, rfl, rfl⟩, rfl, ho⟩

/-- **`$out`** writes into the documents it is handed (objects of the call) and into the store;
    the invariant holds afterwards, and the caller's pipeline object, the call's copy of it and
    the lists a `$facet` keeps alive are what they were -/
theorem outStage_step {b : Nat} (sem : Sem) (target : String) (w w' : World) (h : WInv b w)
    (ho : w.out = []) (hs : outStage Dr sem target w = .ok w') : StepK b w w' ∧ w'.out = [] := by
  simp only [outStage] at hs
  split at hs
  · next w1 he =>
    cases hs
    have e : w' = (outStageW Dr sem target w).1 := by rw [he]
    rw [e]
    simp only [outStageW]
    split
    · have r := outInsert_inv (b := b) sem target w.work.length w 0 _ h ho rfl
      exact ⟨⟨r.1, r.2.1, Nat.le_of_eq r.2.2.1.symm⟩, r.2.2.2⟩
    · have h0 : WInv b { w with colls := setColl target [] w.colls, idx := dropIdx target w.idx } :=
        ⟨h.hb, h.work, h.out, allColls_setColl target [] (by simp [allL]) _ h.colls, h.pipe, h.cpipe,
         h.stack⟩
      have r := outInsert_inv (b := b) sem target w.work.length _ 0 _ h0 ho rfl
      exact ⟨⟨r.1, ⟨r.2.1.pipe, r.2.1.cpipe, r.2.1.stack⟩, Nat.le_of_eq r.2.2.1.symm⟩, r.2.2.2⟩
  · cases hs

mutual
  /-- EVERY stage keeps the invariant and leaves the caller's pipeline object, the call's copy of
      it and the lists an enclosing `$facet` keeps alive as they are; a stage that contains no
      `$out` leaves the store alone too -/
  theorem runStage_step (sem : Sem) : ∀ (st : Stage) (b : Nat) (w w' : World), WInv b w → w.out = [] →
      runStage Dr sem w st = .ok w' →
      StepK b w w' ∧ w'.out = [] ∧ (st.noOut = true → SameStore w w')
    | .facet bs, b, w, w', h, ho, hs => by
      simp only [runStage] at hs
      split at hs
      · next w2 hr =>
        cases hs
        have hal : Alive { w with stack := w.work :: w.stack } :=
          ⟨h.colls, all_mono (below_mono h.hb) _ h.pipe,
            all_mono (below_mono h.hb) _ h.cpipe, by
            simp only [allLL, Bool.and_eq_true]
            exact ⟨allL_mono (fun i hi => inR_below i hi) _ h.work, allLL_mono (below_mono h.hb) _ h.stack⟩⟩
        have hbr := runBranches_step sem bs { w with stack := w.work :: w.stack } w2 w.work w.stack
          hal ho rfl hr
        have hb := hbr.1
        obtain ⟨outs, hstk, hlen, hall⟩ := hb.stack
        have hmono : w.nextTmp ≤ w2.nextTmp := hb.mono
        have hdrop : w2.stack.drop (1 + bs.length) = w.stack := by
          rw [hstk, ← hlen, Nat.add_comm]; simp
        have htake : (w2.stack.drop 1).take bs.length = outs := by
          rw [hstk, ← hlen]; simp
        have hallb : allLL (inR b (w2.nextTmp + 1 + bs.length)) outs.reverse = true := by
          rw [allLL_reverse]
          exact allLL_mono (fun i hi => inR_mono h.hb (by omega) i hi) _ hall
        refine ⟨⟨⟨by simp only; have := h.hb; omega, ?_, by rw [hb.out]; simp [allL], ?_, ?_, ?_, ?_⟩,
          ⟨hb.pipe, hb.cpipe, hdrop⟩, by simp only; omega⟩, hb.out, fun hno => ?_⟩
        · simp only [facetDoc, allL, HV.all, Bool.and_true, Bool.and_eq_true]
          refine ⟨inR_tmp (by have := h.hb; omega) (by omega), ?_⟩
          rw [htake]
          exact facetDoc_all w2.nextTmp bs.length
            (fun i hi => inR_tmp (by have := h.hb; omega) (by omega)) _ _ 0
            (by simp [hlen]) hallb
        · exact hb.alive.colls
        · rw [hb.pipe]; exact h.pipe
        · rw [hb.cpipe]; exact h.cpipe
        · simp only; rw [hdrop]; exact h.stack
        · simp only [Stage.noOut] at hno
          have := hbr.2 hno
          exact ⟨this.colls, this.idx, this.nextSt⟩
      · cases hs
    | .out target, b, w, w', h, ho, hs => by
      simp only [runStage] at hs
      have s1 := outStage_step sem target w w' h ho hs
      exact ⟨s1.1, s1.2, fun hno => by simp [Stage.noOut] at hno⟩
    | .select op opts, b, w, w', h, ho, hs => by
      have s1 := runStage_simple sem _ b w w' h ho (fun _ e => by cases e) rfl hs
      exact ⟨s1.1.toK, s1.2, fun _ => s1.1.same.store⟩
    | .sample loc, b, w, w', h, ho, hs => by
      have s1 := runStage_simple sem _ b w w' h ho (fun _ e => by cases e) rfl hs
      exact ⟨s1.1.toK, s1.2, fun _ => s1.1.same.store⟩
    | .addFields fields, b, w, w', h, ho, hs => by
      have s1 := runStage_simple sem _ b w w' h ho (fun _ e => by cases e) rfl hs
      exact ⟨s1.1.toK, s1.2, fun _ => s1.1.same.store⟩
    | .project noId incl computed, b, w, w', h, ho, hs => by
      have s1 := runStage_simple sem _ b w w' h ho (fun _ e => by cases e) rfl hs
      exact ⟨s1.1.toK, s1.2, fun _ => s1.1.same.store⟩
    | .unwind key preserve idx, b, w, w', h, ho, hs => by
      have s1 := runStage_simple sem _ b w w' h ho (fun _ e => by cases e) rfl hs
      exact ⟨s1.1.toK, s1.2, fun _ => s1.1.same.store⟩
    | .lookup frm loc frn as, b, w, w', h, ho, hs => by
      have s1 := runStage_simple sem _ b w w' h ho (fun _ e => by cases e) rfl hs
      exact ⟨s1.1.toK, s1.2, fun _ => s1.1.same.store⟩
    | .replaceRoot e, b, w, w', h, ho, hs => by
      have s1 := runStage_simple sem _ b w w' h ho (fun _ e => by cases e) rfl hs
      exact ⟨s1.1.toK, s1.2, fun _ => s1.1.same.store⟩
    | .count name, b, w, w', h, ho, hs => by
      have s1 := runStage_simple sem _ b w w' h ho (fun _ e => by cases e) rfl hs
      exact ⟨s1.1.toK, s1.2, fun _ => s1.1.same.store⟩
    | .fail e, b, w, w', h, ho, hs => by simp [runStage] at hs
  theorem runStages_step (sem : Sem) : ∀ (ss : List Stage) (b : Nat) (w w' : World), WInv b w → w.out = [] →
      runStages Dr sem w ss = .ok w' →
      StepK b w w' ∧ w'.out = [] ∧ (noOutStages ss = true → SameStore w w')
    | [], b, w, w', h, ho, hs => by
      simp only [runStages] at hs; cases hs; exact ⟨StepK.refl h, ho, fun _ => ⟨rfl, rfl, rfl⟩⟩
    | st :: r, b, w, w', h, ho, hs => by
      simp only [runStages] at hs
      split at hs
      · next w1 h1 =>
        have s1 := runStage_step sem st b w w1 h ho h1
        have s2 := runStages_step sem r b w1 w' s1.1.inv s1.2.1 hs
        refine ⟨s1.1.trans s2.1, s2.2.1, fun hno => ?_⟩
        simp only [noOutStages, Bool.and_eq_true] at hno
        exact (s1.2.2 hno.1).trans (s2.2.2 hno.2)
      · cases hs
  /-- the sub-pipelines of a `$facet`: besides `BrRes`, the collections stay free of run-local
      identities (for any window the caller knows them to be free of), and without `$out` the
      store is left alone -/
  theorem runBranches_step (sem : Sem) : ∀ (bs : List (String × List Stage)) (w w' : World)
      (input : List HV) (rest : List (List HV)), Alive w → w.out = [] → w.stack = input :: rest →
      runBranches Dr sem w bs = .ok w' →
      BrRes w w' input rest bs.length ∧ (noOutBranches bs = true → SameStore w w')
    | [], w, w', input, rest, hal, ho, hstk, hs => by
      simp only [runBranches] at hs; cases hs
      exact ⟨⟨rfl, rfl, hal, Nat.le_refl _, ho, [], by simpa using hstk, rfl, by simp [allLL]⟩,
        fun _ => ⟨rfl, rfl, rfl⟩⟩
    | (t, sub) :: r, w, w', input, rest, hal, ho, hstk, hs => by
      simp only [runBranches, hstk, dr_facetShares, Bool.not_false, Bool.true_and,
        Bool.false_eq_true, if_false] at hs
      split at hs
      · cases hs
      · rw [runL_deep_eq] at hs
        have hc := deepTmpL_win (b := w.nextTmp) input w.nextTmp (Nat.le_refl _)
        have h0 : WInv w.nextTmp { w with stack := input :: rest, work := (deepTmpL input w.nextTmp).1,
                                          nextTmp := (deepTmpL input w.nextTmp).2 } :=
          ⟨hc.1, hc.2, by rw [ho]; simp [allL], hal.colls, hal.pipe, hal.cpipe, by
            have := hal.stack; rw [hstk] at this; exact this⟩
        split at hs
        · next w1 h1 =>
          have s1 := runStages_step sem sub w.nextTmp _ w1 h0 ho h1
          have hst1 : w1.stack = input :: rest := s1.1.kept.stack
          rw [hst1] at hs
          simp only at hs
          have hm1 : w.nextTmp ≤ w1.nextTmp := Nat.le_trans hc.1 s1.1.mono
          have hal1 : Alive { w1 with stack := input :: w1.work :: rest } := by
            have hstk0 := hal.stack
            rw [hstk] at hstk0
            simp only [allLL, Bool.and_eq_true] at hstk0
            refine ⟨?_, ?_, ?_, ?_⟩
            · exact s1.1.inv.colls
            · exact all_mono (below_mono hm1) _ s1.1.inv.pipe
            · exact all_mono (below_mono hm1) _ s1.1.inv.cpipe
            · simp only [allLL, Bool.and_eq_true]
              exact ⟨allL_mono (below_mono hm1) _ hstk0.1,
                allL_mono (fun i hi => inR_below i hi) _ s1.1.inv.work,
                allLL_mono (below_mono hm1) _ hstk0.2⟩
          have ihh := runBranches_step sem r { w1 with stack := input :: w1.work :: rest } w' input
            (w1.work :: rest) hal1 s1.2.1 rfl hs
          have ih := ihh.1
          obtain ⟨outs, hstk2, hlen, hall⟩ := ih.stack
          refine ⟨⟨ih.pipe.trans s1.1.kept.pipe, ih.cpipe.trans s1.1.kept.cpipe, ih.alive,
            Nat.le_trans hm1 ih.mono, ih.out, outs ++ [w1.work], ?_, ?_, ?_⟩, ?_⟩
          · rw [hstk2]; simp
          · simp [hlen]
          · rw [allLL_append]
            simp only [allLL, Bool.and_true, Bool.and_eq_true]
            exact ⟨allLL_mono (fun i hi => inR_mono hm1 (Nat.le_refl _) i hi) _ hall,
              allL_mono (fun i hi => inR_mono (Nat.le_refl _) ih.mono i hi) _ s1.1.inv.work⟩
          · intro hno
            simp only [noOutBranches, Bool.and_eq_true] at hno
            have a1 := s1.2.2 hno.1
            have a2 := ihh.2 hno.2
            exact ⟨a2.colls.trans a1.colls, a2.idx.trans a1.idx, a2.nextSt.trans a1.nextSt⟩
        · cases hs
end

end MongoModel.Proofs.C16
