/-
  Proofs.C04Spec13 — `eval_eq_spec`: operators with a bare (non-list) operand, `$cond` and
  `$switch` documents.
-/
import Proofs.C04Spec12

set_option linter.unusedSimpArgs false
set_option linter.unnecessarySeqFocus false

namespace MongoModel.Proofs.C04
open MongoModel MongoModel.Expr MongoModel.Spec

theorem ite_ok_bool (b : Bool) :
    (if b = true then (Except.ok true : R Bool) else Except.ok false) = .ok b := by
  cases b <;> rfl

/-- a bare operand of a variadic operator is a one-item argument list (it used to be rejected:
    part of finding `scalararg`) -/
theorem bare_eq_list (c : Ctx) (k : String) (hk : variadicOps.contains k = true) (v : Val)
    (ha : v.isArr = false) :
    eval c (.doc [(k, v)]) = eval c (.doc [(k, .arr [v])]) := by
  simp only [variadicOps, List.contains_cons, List.contains_nil, Bool.or_false, Bool.or_eq_true,
    beq_iff_eq] at hk
  have hm : mode k (.arr [v]) = .shaped := by
    rcases hk with rfl | rfl | rfl | rfl | rfl | rfl <;>
      simp [mode, dateOps, datePartOps, wholeOps, unaryArithOps, groupingOps]
  have hcl : classify k ≠ .plain ∧ classify k ≠ .unknown ∧ classify k ≠ .notImpl := by
    rcases hk with rfl | rfl | rfl | rfl | rfl | rfl <;> decide
  have hu : unaryListOps.contains k = false := by
    rcases hk with rfl | rfl | rfl | rfl | rfl | rfl <;> decide
  have hv : variadicOps.contains k = true := by
    rcases hk with rfl | rfl | rfl | rfl | rfl | rfl <;> decide
  rw [eval_shaped c k (.arr [v]) hcl.1 hcl.2.1 hcl.2.2 hu (Or.inr rfl) hm,
    eval_op c k v hcl.1 hcl.2.1 hcl.2.2]
  simp only [hu, Bool.false_and, Bool.false_eq_true, if_false, hv, ha, Bool.not_false,
    Bool.and_self, if_true]
  cases he : eval c v with
  | error e =>
    rcases hk with rfl | rfl | rfl | rfl | rfl | rfl <;>
      simp [Except.bind, evalOp, arityErr, binaryArithOps, comparisonOps, listOps, arithmeticOps,
        unaryArithOps, groupingOps, evalList, evalAll, evalOr, evalUnion, he, bind]
  | ok r =>
    rcases hk with rfl | rfl | rfl | rfl | rfl | rfl <;>
      cases r <;>
      simp [Except.bind, evalOp, arityErr, binaryArithOps, comparisonOps, listOps, arithmeticOps,
        unaryArithOps, groupingOps, evalList, evalAll, evalOr, evalUnion, he, bind, applyBare,
        manyItem, pure, Except.pure, ite_ok_bool] <;>
      (try (split <;> simp [evalUnion]))

theorem bareOk_cases (k : String) (h : bareOk k = true) :
    (unaryOps.contains k || k = "$size" || k = "$concatArrays") = true ∨
    k = "$add" ∨ k = "$multiply" ∨ k = "$concat" := by
  unfold bareOk at h
  cases hu : unaryOps.contains k with
  | true => left; simp
  | false =>
    simp only [hu, Bool.false_or, List.contains_cons, List.contains_nil, Bool.or_false,
      Bool.or_eq_true, beq_iff_eq] at h
    rcases h with h | h | h | h | h
    · left; simp [h]
    · left; simp [h]
    · right; left; exact h
    · right; right; left; exact h
    · right; right; right; exact h

/-- the rules take a bare operand as the one operand of the unary operators, `$size`,
    `$concatArrays`, `$add $multiply $concat` only: every other strict operator of the fragment
    wants another number of arguments -/
theorem strict_bare_ok (k : String) (hp : provedStrict.contains k = true)
    (hacc : accOps.contains k = false) (a r : Option Val) (hs : applyStrict k [a] = .ok r) :
    bareOk k = true := by
  simp only [provedStrict, arithOps, datePartOps, accOps, List.cons_append, List.nil_append,
    List.contains_cons, List.contains_nil, Bool.or_false, Bool.or_eq_true, beq_iff_eq] at hp
  rcases hp with rfl | rfl | rfl | rfl | rfl | rfl | rfl | rfl | rfl | rfl | rfl | rfl | rfl | rfl
    | rfl | rfl | rfl | rfl | rfl | rfl | rfl | rfl | rfl | rfl | rfl | rfl | rfl | rfl | rfl | rfl
    | rfl | rfl | rfl | rfl | rfl | rfl | rfl | rfl | rfl | rfl | rfl <;>
  first
    | decide
    | (exact absurd hacc (by decide))
    | (simp [applyStrict] at hs)

/-- a strict operator applied to one operand that is not written as a list -/
theorem whole_core (c : Ctx) (root : Val) (env : Env) (hr : EnvRel c root env) (k : String)
    (v : Val) (hag : Agrees v) (ha : v.isArr = false) (htz : hasTzKeys v = false)
    (hacc : accOps.contains k = false)
    (h1 : unproved k = []) (h2 : okReasons (sEval root env v) = [])
    (h3 : rExpr root env v = [])
    (h5' : ∀ a, sEval root env v = .ok a → strictReasons k [a] = [])
    (res : Option Val)
    (hres : (do applyStrict k [← sEval root env v]) = .ok res) :
    eval c (.doc [(k, v)]) = .ok res := by
  obtain ⟨a, ha'⟩ := okReasons_nil _ h2
  have hev := hag c root env hr h3 h2
  have h5 := h5' a ha'
  rw [ha'] at hev hres
  have hres' : applyStrict k [a] = .ok res := by simpa [bind, Except.bind] using hres
  have hb : bareOk k = true := strict_bare_ok k (unproved_nil k h1) hacc a res hres'
  rcases bareOk_cases k hb with hu | hk
  · have hk := wholeOps_cases k (unproved_nil k h1) hu
    exact whole_strict c hr.hign k hk v ha htz a hev h5 res hres'
  · -- `$add`, `$multiply`, `$concat`: the bare operand is a one-item argument list
    have hv : variadicOps.contains k = true := by rcases hk with rfl | rfl | rfl <;> decide
    have hnu : unaryOps.contains k = false := by rcases hk with rfl | rfl | rfl <;> decide
    rw [bare_eq_list c k hv v ha]
    exact list_strict c hr.hign k (unproved_nil k h1) hnu [v] [a] (by simp [hev]) h5 res hres'

theorem accOps_cases (k : String) (h : accOps.contains k = true) :
    k = "$sum" ∨ k = "$avg" ∨ k = "$min" ∨ k = "$max" := by
  simpa [accOps] using h

/-- `$sum $avg $min $max` applied to one operand that is not written as a list: an array value
    is ranged over, any other value is the one value, a missing one leaves nothing to range over -/
theorem acc_scalar_core (c : Ctx) (root : Val) (env : Env) (hr : EnvRel c root env) (k : String)
    (hk : accOps.contains k = true) (v : Val) (hag : Agrees v) (ha : v.isArr = false)
    (h1 : okReasons (sEval root env v) = []) (h2 : rExpr root env v = [])
    (h3 : (match sEval root env v with
         | .ok (some (.arr xs)) => strictReasons k (xs.map some)
         | .ok (some _) => []
         | .ok none => []
         | .error _ => []) = [])
    (res : Option Val)
    (hres : (do (accBareS k (← sEval root env v)).map some) = .ok res) :
    eval c (.doc [(k, v)]) = .ok res := by
  obtain ⟨a, ha'⟩ := okReasons_nil _ h1
  have hev := hag c root env hr h2 h1
  rw [ha'] at hev hres h3
  have hk' := accOps_cases k hk
  cases a with
  | none =>
    rw [acc_bare_missing c k hk' v ha hev]
    simpa [bind, Except.bind] using hres
  | some x =>
    cases hx : x.isArr with
    | true =>
      obtain ⟨ys, rfl⟩ : ∃ ys, x = .arr ys := by cases x <;> simp [Val.isArr] at hx; exact ⟨_, rfl⟩
      simp only at h3
      rw [acc_bare_eval c hr.hign k hk' v ha ys hev h3]
      simpa [bind, Except.bind, accBareS] using hres
    | false =>
      rw [acc_bare_eval_val c k hk' v ha x hx hev]
      have : accBareS k (some x) = accS k [some x] := by
        cases x <;> simp [Val.isArr] at hx <;> rfl
      simpa [bind, Except.bind, this] using hres

/-- `$and` / `$or` given one operand that is not written as a list -/
theorem andor_bare (c : Ctx) (root : Val) (env : Env) (hr : EnvRel c root env) (k : String)
    (hk : (k = "$and" || k = "$or") = true) (v : Val) (hag : Agrees v) (ha : v.isArr = false)
    (h1 : okReasons (sEval root env v) = []) (h2 : rExpr root env v = []) (res : Option Val)
    (hres : (do pure (some (Val.bool (Spec.toBool (← sEval root env v))))) = .ok res) :
    eval c (.doc [(k, v)]) = .ok res := by
  obtain ⟨a, ha'⟩ := okReasons_nil _ h1
  have hev := hag c root env hr h2 h1
  rw [ha'] at hev hres
  have hk' : k = "$and" ∨ k = "$or" := by simpa using hk
  have hv : variadicOps.contains k = true := by rcases hk' with rfl | rfl <;> decide
  rw [bare_eq_list c k hv v ha]
  rcases hk' with rfl | rfl
  · rw [and_spec c [v] [a] (by simp [hev])]
    simpa [bind, Except.bind, pure, Except.pure] using hres
  · rw [or_spec c [v] [a] (by simp [hev])]
    simpa [bind, Except.bind, pure, Except.pure] using hres

/-- `{$op: operand}` with an operand that is neither a list nor a document -/
theorem op_scalar_case (c : Ctx) (root : Val) (env : Env) (hr : EnvRel c root env) (k : String)
    (v : Val) (hag : Agrees v) (ha : v.isArr = false) (hd : v.isDoc = false)
    (hre : rOperator root env [(k, v)] = [])
    (hok : okReasons (sOperator root env [(k, v)]) = []) :
    eval c (.doc [(k, v)]) = sOperator root env [(k, v)] := by
  obtain ⟨res, hres⟩ := okReasons_nil _ hok
  rw [hres]
  have htz : hasTzKeys v = false := by cases v <;> simp [Val.isDoc] at hd <;> rfl
  have key : ∀ (hre' : (if k = "$literal" then []
        else if accOps.contains k = true then
          okReasons (sEval root env v) ++ rExpr root env v ++
          (match sEval root env v with
           | .ok (some (.arr xs)) => strictReasons k (xs.map some)
           | .ok (some _) => []
           | .ok none => []
           | .error _ => [])
        else if strictOps.contains k = true then
          unproved k ++ okReasons (sEval root env v) ++ rExpr root env v ++
          (if k = "$strcasecmp" then ["scalararg"] else []) ++
          (match sEval root env v with
           | .ok r => strictReasons k [r]
           | .error _ => [])
        else if (k = "$and" || k = "$or") = true then
          okReasons (sEval root env v) ++ rExpr root env v
        else ["unproved:" ++ k]) = [])
      (hres' : (if k = "$literal" then .ok (some v)
        else if accOps.contains k = true then do (accBareS k (← sEval root env v)).map some
        else if strictOps.contains k = true then do applyStrict k [← sEval root env v]
        else if (k = "$and" || k = "$or") = true then do
          pure (some (.bool (Spec.toBool (← sEval root env v))))
        else if lazyOps.contains k = true then .error .opFail
        else unmodelled) = .ok res), eval c (.doc [(k, v)]) = .ok res := by
    intro hre' hres'
    by_cases hlit : k = "$literal"
    · subst hlit; simp at hres'; rw [literal_id, hres']
    · simp only [hlit, if_false] at hre' hres'
      by_cases hacc : accOps.contains k = true
      · simp only [hacc, if_true] at hre' hres'
        obtain ⟨h12, h3⟩ := append_nil2 hre'
        obtain ⟨h1, h2⟩ := append_nil2 h12
        exact acc_scalar_core c root env hr k hacc v hag ha h1 h2 h3 res hres'
      have hacc' : accOps.contains k = false := by simpa using hacc
      simp only [hacc', Bool.false_eq_true, if_false] at hre' hres'
      by_cases hst : strictOps.contains k = true
      · simp only [hst, if_true] at hre' hres'
        obtain ⟨h1234, h5⟩ := append_nil2 hre'
        obtain ⟨h123, h4⟩ := append_nil2 h1234
        obtain ⟨h12, h3⟩ := append_nil2 h123
        obtain ⟨h1, h2⟩ := append_nil2 h12
        exact whole_core c root env hr k v hag ha htz hacc' h1 h2 h3
          (fun a ha' => by rw [ha'] at h5; exact h5) res hres'
      · have hst' : strictOps.contains k = false := by simpa using hst
        simp only [hst', Bool.false_eq_true, if_false] at hre' hres'
        by_cases hao : (k = "$and" || k = "$or") = true
        · rw [if_pos hao] at hre' hres'
          obtain ⟨h1, h2⟩ := append_nil2 hre'
          exact andor_bare c root env hr k hao v hag ha h1 h2 res hres'
        · rw [if_neg hao] at hre'; simp at hre'
  cases v with
  | arr xs => simp [Val.isArr] at ha
  | doc fs => simp [Val.isDoc] at hd
  | _ =>
    all_goals
      simp only [rOperator] at hre
      simp only [sOperator] at hres
      exact key hre hres

end MongoModel.Proofs.C04
