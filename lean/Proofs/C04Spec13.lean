/-
  Proofs.C04Spec13 — `eval_eq_spec`: operators with a bare (non-list) operand, `$cond` and
  `$switch` documents.
-/
import Proofs.C04Spec12

set_option linter.unusedSimpArgs false
set_option linter.unnecessarySeqFocus false

namespace MongoModel.Proofs.C04
open MongoModel MongoModel.Expr MongoModel.Spec

/-- a strict operator applied to one operand that is not written as a list -/
theorem whole_core (c : Ctx) (root : Val) (env : Env) (hr : EnvRel c root env) (k : String)
    (v : Val) (hag : Agrees v) (ha : v.isArr = false) (htz : hasTzKeys v = false)
    (h1 : unproved k = []) (h2 : okReasons (sEval root env v) = [])
    (h3 : rExpr root env v = [])
    (h4 : (if (unaryOps.contains k || k = "$size" || k = "$concatArrays") = true then []
         else ["scalararg"]) = [])
    (h5' : ∀ a, sEval root env v = .ok a → strictReasons k [a] = [])
    (res : Option Val)
    (hres : (do applyStrict k [← sEval root env v]) = .ok res) :
    eval c (.doc [(k, v)]) = .ok res := by
  obtain ⟨a, ha'⟩ := okReasons_nil _ h2
  have hev := hag c root env hr h3 h2
  have h5 := h5' a ha'
  rw [ha'] at hev hres
  have hu : (unaryOps.contains k || k = "$size" || k = "$concatArrays") = true := by
    cases hc : (unaryOps.contains k || k = "$size" || k = "$concatArrays") with
    | true => rfl
    | false => rw [hc] at h4; simp at h4
  have hk := wholeOps_cases k (unproved_nil k h1) hu
  exact whole_strict c hr.hign k hk v ha htz a hev h5 res (by simpa [bind, Except.bind] using hres)

/-- `{$op: operand}` with an operand that is neither a list nor a document -/
theorem op_scalar_case (c : Ctx) (root : Val) (env : Env) (hr : EnvRel c root env) (k : String)
    (v : Val) (hag : Agrees v) (ha : v.isArr = false) (hd : v.isDoc = false)
    (hre : rOperator root env [(k, v)] = [])
    (hok : okReasons (sOperator root env [(k, v)]) = []) :
    eval c (.doc [(k, v)]) = sOperator root env [(k, v)] := by
  obtain ⟨res, hres⟩ := okReasons_nil _ hok
  rw [hres]
  have htz : hasTzKeys v = false := by cases v <;> simp [Val.isDoc] at hd <;> rfl
  have key : ∀ (hre' : (if k = "$literal" then []
        else if strictOps.contains k = true then
          unproved k ++ okReasons (sEval root env v) ++ rExpr root env v ++
          (if (unaryOps.contains k || k = "$size" || k = "$concatArrays") = true then []
           else ["scalararg"]) ++
          (match sEval root env v with
           | .ok r => strictReasons k [r]
           | .error _ => [])
        else if (k = "$and" || k = "$or") = true then
          ["scalararg"] ++ okReasons (sEval root env v) ++ rExpr root env v
        else ["unproved:" ++ k]) = [])
      (hres' : (if k = "$literal" then .ok (some v)
        else if strictOps.contains k = true then do applyStrict k [← sEval root env v]
        else if (k = "$and" || k = "$or") = true then do
          pure (some (.bool (Spec.toBool (← sEval root env v))))
        else if lazyOps.contains k = true then .error .opFail
        else unmodelled) = .ok res), eval c (.doc [(k, v)]) = .ok res := by
    intro hre' hres'
    by_cases hlit : k = "$literal"
    · subst hlit; simp at hres'; rw [literal_id, hres']
    · simp only [hlit, if_false] at hre' hres'
      by_cases hst : strictOps.contains k = true
      · simp only [hst, if_true] at hre' hres'
        obtain ⟨h1234, h5⟩ := append_nil2 hre'
        obtain ⟨h123, h4⟩ := append_nil2 h1234
        obtain ⟨h12, h3⟩ := append_nil2 h123
        obtain ⟨h1, h2⟩ := append_nil2 h12
        exact whole_core c root env hr k v hag ha htz h1 h2 h3 h4
          (fun a ha' => by rw [ha'] at h5; exact h5) res hres'
      · have hst' : strictOps.contains k = false := by simpa using hst
        simp only [hst', Bool.false_eq_true, if_false] at hre'
        split at hre' <;> simp at hre'
  cases v with
  | arr xs => simp [Val.isArr] at ha
  | doc fs => simp [Val.isDoc] at hd
  | _ =>
    all_goals
      simp only [rOperator] at hre
      simp only [sOperator] at hres
      exact key hre hres

end MongoModel.Proofs.C04
