/-
  Proofs.C04Spec13 — `eval_eq_spec`: operators with a bare (non-list) operand, `$cond` and
  `$switch` documents.
-/
import Proofs.C04Spec12

set_option linter.unusedSimpArgs false
set_option linter.unnecessarySeqFocus false

namespace MongoModel.Proofs.C04
open MongoModel MongoModel.Expr MongoModel.Spec

/-- a strict operator applied to one operand that is not written as a list -/
theorem whole_core (c : Ctx) (root : Val) (env : Env) (hr : EnvRel c root env) (k : String)
    (v : Val) (hag : Agrees v) (ha : v.isArr = false) (htz : hasTzKeys v = false)
    (h1 : unproved k = []) (h2 : okReasons (sEval root env v) = [])
    (h3 : rExpr root env v = [])
    (h4 : (if (unaryOps.contains k || k = "$size" || k = "$concatArrays") = true then []
         else ["scalararg"]) = [])
    (h5' : ∀ a, sEval root env v = .ok a → strictReasons k [a] = [])
    (res : Option Val)
    (hres : (do applyStrict k [← sEval root env v]) = .ok res) :
    eval c (.doc [(k, v)]) = .ok res := by
  obtain ⟨a, ha'⟩ := okReasons_nil _ h2
  have hev := hag c root env hr h3 h2
  have h5 := h5' a ha'
  rw [ha'] at hev hres
  have hu : (unaryOps.contains k || k = "$size" || k = "$concatArrays") = true := by
    cases hc : (unaryOps.contains k || k = "$size" || k = "$concatArrays") with
    | true => rfl
    | false => rw [hc] at h4; simp at h4
  have hk := wholeOps_cases k (unproved_nil k h1) hu
  exact whole_strict c hr.hign k hk v ha htz a hev h5 res (by simpa [bind, Except.bind] using hres)

theorem accOps_cases (k : String) (h : accOps.contains k = true) :
    k = "$sum" ∨ k = "$avg" ∨ k = "$min" ∨ k = "$max" := by
  simpa [accOps] using h

/-- `$sum $avg $min $max` applied to one operand that is not written as a list: inside D the
    operand is a path or a variable whose value is an array -/
theorem acc_scalar_core (c : Ctx) (root : Val) (env : Env) (hr : EnvRel c root env) (k : String)
    (hk : accOps.contains k = true) (v : Val) (hag : Agrees v) (ha : v.isArr = false)
    (hd : v.isDoc = false)
    (h1 : okReasons (sEval root env v) = []) (h2 : rExpr root env v = [])
    (h3 : (match sEval root env v with
         | .ok (some (.arr xs)) => strictReasons k (xs.map some)
         | .ok (some _) => ["scalararg"]
         | .ok none => ["accbaremissing"]
         | .error _ => []) = [])
    (res : Option Val)
    (hres : (do (accBareS k (← sEval root env v)).map some) = .ok res) :
    eval c (.doc [(k, v)]) = .ok res := by
  obtain ⟨a, ha'⟩ := okReasons_nil _ h1
  have hev := hag c root env hr h2 h1
  rw [ha'] at hev hres h3
  have hk' := accOps_cases k hk
  match a, h3, hres, hev, ha' with
  | none, h3, _, _, _ => simp at h3
  | some (.arr ys), h3, hres, hev, ha' =>
    simp only [bind, Except.bind, accBareS] at hres
    cases h4 : accS k (ys.map some) with
    | error e => simp [h4, Except.map] at hres
    | ok w =>
      simp [h4, Except.map] at hres; subst hres
      cases v with
      | str s => exact acc_bare_case c hr.hign k hk' s ys hev h3 w h4
      | arr xs => simp [Val.isArr] at ha
      | doc fs => simp [Val.isDoc] at hd
      | _ => all_goals simp [sEval] at ha'
  | some .null, h3, _, _, _ => simp at h3
  | some (.bool _), h3, _, _, _ => simp at h3
  | some (.int _), h3, _, _, _ => simp at h3
  | some (.dbl _ _), h3, _, _, _ => simp at h3
  | some (.str _), h3, _, _, _ => simp at h3
  | some (.date _ _), h3, _, _, _ => simp at h3
  | some (.oid _), h3, _, _, _ => simp at h3
  | some (.doc _), h3, _, _, _ => simp at h3

/-- `{$op: operand}` with an operand that is neither a list nor a document -/
theorem op_scalar_case (c : Ctx) (root : Val) (env : Env) (hr : EnvRel c root env) (k : String)
    (v : Val) (hag : Agrees v) (ha : v.isArr = false) (hd : v.isDoc = false)
    (hre : rOperator root env [(k, v)] = [])
    (hok : okReasons (sOperator root env [(k, v)]) = []) :
    eval c (.doc [(k, v)]) = sOperator root env [(k, v)] := by
  obtain ⟨res, hres⟩ := okReasons_nil _ hok
  rw [hres]
  have htz : hasTzKeys v = false := by cases v <;> simp [Val.isDoc] at hd <;> rfl
  have key : ∀ (hre' : (if k = "$literal" then []
        else if accOps.contains k = true then
          okReasons (sEval root env v) ++ rExpr root env v ++
          (match sEval root env v with
           | .ok (some (.arr xs)) => strictReasons k (xs.map some)
           | .ok (some _) => ["scalararg"]
           | .ok none => ["accbaremissing"]
           | .error _ => [])
        else if strictOps.contains k = true then
          unproved k ++ okReasons (sEval root env v) ++ rExpr root env v ++
          (if (unaryOps.contains k || k = "$size" || k = "$concatArrays") = true then []
           else ["scalararg"]) ++
          (match sEval root env v with
           | .ok r => strictReasons k [r]
           | .error _ => [])
        else if (k = "$and" || k = "$or") = true then
          ["scalararg"] ++ okReasons (sEval root env v) ++ rExpr root env v
        else ["unproved:" ++ k]) = [])
      (hres' : (if k = "$literal" then .ok (some v)
        else if accOps.contains k = true then do (accBareS k (← sEval root env v)).map some
        else if strictOps.contains k = true then do applyStrict k [← sEval root env v]
        else if (k = "$and" || k = "$or") = true then do
          pure (some (.bool (Spec.toBool (← sEval root env v))))
        else if lazyOps.contains k = true then .error .opFail
        else unmodelled) = .ok res), eval c (.doc [(k, v)]) = .ok res := by
    intro hre' hres'
    by_cases hlit : k = "$literal"
    · subst hlit; simp at hres'; rw [literal_id, hres']
    · simp only [hlit, if_false] at hre' hres'
      by_cases hacc : accOps.contains k = true
      · simp only [hacc, if_true] at hre' hres'
        obtain ⟨h12, h3⟩ := append_nil2 hre'
        obtain ⟨h1, h2⟩ := append_nil2 h12
        exact acc_scalar_core c root env hr k hacc v hag ha hd h1 h2 h3 res hres'
      have hacc' : accOps.contains k = false := by simpa using hacc
      simp only [hacc', Bool.false_eq_true, if_false] at hre' hres'
      by_cases hst : strictOps.contains k = true
      · simp only [hst, if_true] at hre' hres'
        obtain ⟨h1234, h5⟩ := append_nil2 hre'
        obtain ⟨h123, h4⟩ := append_nil2 h1234
        obtain ⟨h12, h3⟩ := append_nil2 h123
        obtain ⟨h1, h2⟩ := append_nil2 h12
        exact whole_core c root env hr k v hag ha htz h1 h2 h3 h4
          (fun a ha' => by rw [ha'] at h5; exact h5) res hres'
      · have hst' : strictOps.contains k = false := by simpa using hst
        simp only [hst', Bool.false_eq_true, if_false] at hre'
        split at hre' <;> simp at hre'
  cases v with
  | arr xs => simp [Val.isArr] at ha
  | doc fs => simp [Val.isDoc] at hd
  | _ =>
    all_goals
      simp only [rOperator] at hre
      simp only [sOperator] at hres
      exact key hre hres

end MongoModel.Proofs.C04
