/-
  Proofs.C08ExtBulk — one request of a bulk that fails: every kind of request but `UpdateMany`
  leaves the collection "near" the one the previous request left.
-/
import Proofs.C08ExtFam
import Proofs.C15

namespace MongoModel.Proofs.C08Lemmas
open MongoModel MongoModel.Spec

theorem upd_fail_near (cfg : Cfg) (now : Int) (c c' : Coll) (q u : Val) (up : Bool)
    (g : UpdateResult → BulkTotals → BulkTotals) (o : BulkOut)
    (h : (match applyUpdateColl cfg now c q u up false with
      | (c', r) =>
        match r with
        | .error e => (c', if e.isWriteError then BulkOut.writeErr e else .abort e)
        | .ok res => (c', .ok (g res))) = (c', o)) (ho : requestFailed o = true) :
    Near now c c' := by
  cases ha : applyUpdateColl cfg now c q u up false with
  | mk c1 r =>
    rw [ha] at h
    cases r with
    | error e =>
      simp only [Prod.mk.injEq] at h
      obtain ⟨rfl, _⟩ := h
      exact near_applyUpdate cfg now c _ q u up e ha
    | ok res =>
      simp only [Prod.mk.injEq] at h
      obtain ⟨_, rfl⟩ := h
      cases ho

theorem del_fail_eq (now : Int) (c c' : Coll) (q : Val) (multi : Bool) (o : BulkOut)
    (h : (match bulkOne.deleteBulk now c q multi with
     | (c', .ok n) => (c', BulkOut.ok (fun t => { t with nRemoved := t.nRemoved + n }))
     | (c', .error e) => (c', if e.isWriteError then .writeErr e else .abort e)) = (c', o))
    (ho : requestFailed o = true) : c' = c := by
  unfold bulkOne.deleteBulk at h
  split at h
  · simp only [Prod.mk.injEq] at h
    obtain ⟨_, rfl⟩ := h
    cases ho
  · rename_i c1 e hd
    simp only [Prod.mk.injEq] at h
    obtain ⟨rfl, _⟩ := h
    split at hd
    · cases hc : deleteColl now c _ multi with
      | mk c2 r =>
        rw [hc] at hd
        cases r with
        | error e' =>
          simp only [Except.map, Prod.mk.injEq] at hd
          obtain ⟨rfl, _⟩ := hd
          exact near_delete now c _ _ multi e' hc
        | ok m =>
          simp only [Prod.mk.injEq] at hd
          exact absurd hd.2 (by intro hx; cases hx)
    · simp only [Prod.mk.injEq] at hd
      exact hd.1.symm

theorem bulkOne_fail_near (cfg : Cfg) (now : Int) (c c' : Coll) (idx : Nat) (req : Val)
    (o : BulkOut) (ha : atomicRequest req = true)
    (h : bulkOne cfg now c idx req = (c', o)) (ho : requestFailed o = true) :
    Near now c c' := by
  unfold bulkOne at h
  split at h
  · rename_i d
    have hn : (stepColl cfg now c (.arr [.str "insert_one", d])).2.isErr = true →
        Near now c (stepColl cfg now c (.arr [.str "insert_one", d])).1 :=
      near_insert_one cfg now c d
    split at h
    · simp only [Prod.mk.injEq] at h
      obtain ⟨_, rfl⟩ := h
      cases ho
    · rename_i c1 e hs
      simp only [Prod.mk.injEq] at h
      obtain ⟨rfl, _⟩ := h
      rw [hs] at hn
      exact hn rfl
    · rename_i c1 e hs
      simp only [Prod.mk.injEq] at h
      obtain ⟨rfl, _⟩ := h
      rw [hs] at hn
      exact hn rfl
  · exact upd_fail_near cfg now c c' _ _ _ _ o h ho
  · simp [atomicRequest] at ha
  · exact upd_fail_near cfg now c c' _ _ _ _ o h ho
  · rw [del_fail_eq now c c' _ _ o h ho]; exact Near.refl _ _
  · rw [del_fail_eq now c c' _ _ o h ho]; exact Near.refl _ _
  · simp only [Prod.mk.injEq] at h
    rw [← h.1]; exact Near.refl _ _

end MongoModel.Proofs.C08Lemmas
