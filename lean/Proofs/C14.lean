/-
  Proofs.C14 — lemmas and proofs behind Props/C14.lean.
-/
import Spec.Single
import Proofs.C14Fam
import Proofs.C14Cex

namespace MongoModel.Proofs.C14
open MongoModel MongoModel.Spec
open MongoModel.Proofs.C10Lemmas MongoModel.Proofs.C14Lemmas

theorem update_one_touches_first_only (cfg : Cfg) (now : Int) (c c1 c' : Coll) (fs : Fields) (u : Val)
    (q : Val × Val) (rest : List (Val × Val)) (r : R UpdateResult)
    (he : expire now c = .ok c1) (hi : IdInv c) (hg : GoodKeys c) (hn : c.ttlIndexes = [])
    (hs : selectDocs (patchDT (.doc fs)) c1.docs = .ok (q :: rest))
    (h : applyUpdateColl cfg now c (.doc fs) u false false = (c', r)) :
    sameExcept q.1 c1.docs c'.docs ∧ c'.docs.length = c1.docs.length := by
  rw [expire_nil now c hn] at he
  cases he
  rcases update_one_core cfg now c c' fs u false q rest r hn hi.1 hg hs h with
    ⟨rfl, _⟩ | ⟨new, res, _, _, _, rfl, _, _, _, _⟩
  · exact ⟨sameExcept_refl _ _, rfl⟩
  · have hq : q ∈ c.docs := (select_sublist _ _ _ hs).subset (List.mem_cons_self ..)
    rw [setDoc_docs new (hasKey_of_mem hg hq)]
    exact ⟨sameExcept_map q.1 q.1 new c.docs (fun _ _ h => h), List.length_map ..⟩

/-- corrected `update_one_no_match_noop`: nothing is selected, so the collection is the expired
    one — or the call raised before the scan and returned the collection untouched -/
theorem update_one_no_match_noop_alt (cfg : Cfg) (now : Int) (c c1 c' : Coll) (fs : Fields) (u : Val)
    (r : R UpdateResult) (he : expire now c = .ok c1) (hne : c1.docs ≠ [])
    (hs : selectDocs (patchDT (.doc fs)) c1.docs = .ok [])
    (h : applyUpdateColl cfg now c (.doc fs) u false false = (c', r)) :
    c' = c1 ∨ (c' = c ∧ ∃ e, r = .error e) := by
  have hno : ∀ p ∈ c1.docs, filterApplies (patchDT (.doc fs)) p.2 = .ok false := by
    obtain ⟨h1, h2⟩ := select_filter _ _ _ hs
    intro p hp
    rw [h2 p hp]
    have := List.filter_eq_nil_iff.1 h1.symm p hp
    simp only [Bool.not_eq_true] at this
    rw [this]
  unfold applyUpdateColl at h
  extract_lets spec document nowV at h
  have hspec : spec = .doc (patchFields fs) := patch_doc fs
  have hno' : ∀ p ∈ c1.docs, filterApplies spec p.2 = .ok false := hno
  clear_value spec document nowV
  subst hspec
  rw [MongoModel.Proofs.C10.pre_eq now c c1 _ he hne] at h
  split at h
  · split at h
    · cases h; exact Or.inr ⟨rfl, _, rfl⟩
    · dsimp only at h
      rw [loop_nomatch now _ _ nowV false c1 hno' c1.docs 0 0] at h
      simp at h
      exact Or.inl h.1.symm
  · cases h; exact Or.inr ⟨rfl, _, rfl⟩

/-- … in particular when the call succeeds -/
theorem update_one_no_match_noop_alt_ok (cfg : Cfg) (now : Int) (c c1 c' : Coll) (fs : Fields)
    (u : Val) (res : UpdateResult) (he : expire now c = .ok c1) (hne : c1.docs ≠ [])
    (hs : selectDocs (patchDT (.doc fs)) c1.docs = .ok [])
    (h : applyUpdateColl cfg now c (.doc fs) u false false = (c', .ok res)) :
    c'.docs = c1.docs := by
  rcases update_one_no_match_noop_alt cfg now c c1 c' fs u _ he hne hs h with rfl | ⟨_, e, he'⟩
  · rfl
  · cases he'

/-- … and when there is no TTL index (the hypothesis of `update_one_touches_first_only`) -/
theorem update_one_no_match_noop_alt_nottl (cfg : Cfg) (now : Int) (c c1 c' : Coll) (fs : Fields)
    (u : Val) (r : R UpdateResult) (he : expire now c = .ok c1) (hne : c1.docs ≠ [])
    (hn : c.ttlIndexes = [])
    (hs : selectDocs (patchDT (.doc fs)) c1.docs = .ok [])
    (h : applyUpdateColl cfg now c (.doc fs) u false false = (c', r)) :
    c'.docs = c1.docs := by
  rcases update_one_no_match_noop_alt cfg now c c1 c' fs u _ he hne hs h with rfl | ⟨rfl, _⟩
  · rfl
  · rw [expire_nil now _ hn] at he; cases he; rfl

theorem delete_one_removes_first (now : Int) (c c1 : Coll) (fs : Fields)
    (q : Val × Val) (rest : List (Val × Val))
    (he : expire now c = .ok c1) (hi : IdInv c) (hg : GoodKeys c)
    (hs : selectDocs (patchDT (.doc fs)) c1.docs = .ok (q :: rest)) :
    (deleteColl now c (.doc fs) false).2 = .ok 1 ∧
    (deleteColl now c (.doc fs) false).1.docs = c1.docs.filter (fun p => !pyEq q.1 p.1) :=
  delete_first now c c1 fs q rest he hi hg hs

theorem find_one_is_first_sorted (now : Int) (c c1 : Coll) (fs : Fields) (proj : Val)
    (sort : Option SortSpec) (sel : List (Val × Val)) (out : Option Val)
    (he : expire now c = .ok c1) (hne : c1.docs ≠ [])
    (hs : selectDocs (patchDT (.doc fs)) c1.docs = .ok sel)
    (h : (findOneColl now c (.doc fs) proj sort).2 = .ok out) :
    ∃ t, firstSorted sort sel = .ok t ∧
      (match t with
       | none => out = none
       | some d => copyOnlyFields d proj = .ok (out.getD .null) ∧ out.isSome) := by
  rw [findOne_eq now c c1 fs proj sort sel he hne hs] at h
  obtain ⟨sorted, hg, hm⟩ := headProj_ok proj sort _ out h
  refine ⟨sorted.head?, by simp only [firstSorted, hg, Except.map], ?_⟩
  cases hh : sorted.head? with
  | none => rw [hh] at hm; exact hm
  | some d =>
    rw [hh] at hm
    obtain ⟨o, h1, rfl⟩ := hm
    exact ⟨h1, rfl⟩

/-- corrected `fam_delete_spec`: no store key is an array (`storeKey` rejects lists, so this holds
    in every reachable state) and the target's `_id` is normalised (as `insert` leaves it) -/
theorem fam_delete_spec_alt (cfg : Cfg) (now : Int) (c c1 c' : Coll) (fs : Fields) (proj : Val)
    (sort : Option SortSpec) (sel : List (Val × Val)) (target : Val) (tid : Val) (ret : Option Val)
    (he : expire now c = .ok c1) (hi : IdInv c) (hg : GoodKeys c) (hn : c.ttlIndexes = [])
    (hna : ∀ p ∈ c.docs, p.1.isArr = false)
    (hs : selectDocs (patchDT (.doc fs)) c1.docs = .ok sel)
    (ht : firstSorted sort sel = .ok (some target)) (hid : idOf target = some tid)
    (hsc : isScalar tid = true) (hpt : patchDT tid = tid)
    (h : findAndModify cfg now c (.doc fs) proj none false sort false = (c', .ok ret)) :
    sameExcept tid c1.docs c'.docs ∧ c'.docs.length + 1 = c1.docs.length ∧
    copyOnlyFields target proj = .ok (ret.getD .null) ∧ ret.isSome := by
  rw [expire_nil now c hn] at he
  cases he
  exact fam_delete_core cfg now c c' fs proj sort sel target tid ret hi hg hn hna hs ht hid hsc hpt h

/-- corrected `fam_update_spec` (see `fam_delete_spec_alt` for `hna`, `hpt`) -/
theorem fam_update_spec_alt (cfg : Cfg) (now : Int) (c c1 c' : Coll) (fs : Fields) (proj u : Val)
    (upsert after : Bool)
    (sort : Option SortSpec) (sel : List (Val × Val)) (target : Val) (tid : Val) (ret : Option Val)
    (he : expire now c = .ok c1) (hi : IdInv c) (hg : GoodKeys c) (hn : c.ttlIndexes = [])
    (hna : ∀ p ∈ c.docs, p.1.isArr = false)
    (hs : selectDocs (patchDT (.doc fs)) c1.docs = .ok sel)
    (ht : firstSorted sort sel = .ok (some target)) (hid : idOf target = some tid)
    (hsc : isScalar tid = true) (hpt : patchDT tid = tid)
    (h : findAndModify cfg now c (.doc fs) proj (some u) upsert sort after = (c', .ok ret)) :
    sameExcept tid c1.docs c'.docs ∧ c'.docs.length = c1.docs.length ∧
    (after = false → copyOnlyFields target proj = .ok (ret.getD .null) ∧ ret.isSome) ∧
    (after = true → (∀ tfs, target = Val.doc tfs → (dkeys tfs).Nodup) →
      ∃ p' ∈ c'.docs, pyEq p'.1 tid = true ∧
        copyOnlyFields p'.2 proj = .ok (ret.getD .null)) := by
  rw [expire_nil now c hn] at he
  cases he
  exact fam_update_core cfg now c c' fs proj u upsert after sort sel target tid ret hi hg hn hna hs
    ht hid hsc hpt h

theorem fam_no_match_noop (cfg : Cfg) (now : Int) (c c1 c' : Coll) (fs : Fields) (proj : Val)
    (u : Option Val) (sort : Option SortSpec) (after : Bool) (ret : Option Val)
    (he : expire now c = .ok c1) (hne : c1.docs ≠ [])
    (hs : selectDocs (patchDT (.doc fs)) c1.docs = .ok [])
    (h : findAndModify cfg now c (.doc fs) proj u false sort after = (c', .ok ret)) :
    ret = none ∧ c'.docs = c1.docs := by
  have hgo : findAndModify.go cfg now c (.doc fs) proj u false sort after = (c', .ok ret) := by
    unfold findAndModify at h
    split at h
    · split at h
      · exact h
      · split at h
        · cases h
        · exact h
    · exact h
  unfold findAndModify.go at hgo
  rw [findOne_eq now c c1 fs .null sort [] he hne hs] at hgo
  cases hp : headProj .null sort (([] : List (Val × Val)).map (·.2)) with
  | error e => rw [hp] at hgo; cases hgo
  | ok o =>
    rw [hp] at hgo
    obtain ⟨sorted, hg, hm⟩ := headProj_ok _ _ _ _ hp
    have := getDataset_nil sort sorted hg
    subst this
    simp only [List.head?_nil] at hm
    subst hm
    simp only [Bool.not_false, if_true] at hgo
    cases hgo
    exact ⟨rfl, rfl⟩

end MongoModel.Proofs.C14
