/-
  Proofs.C14 — lemmas and proofs behind Props/C14.lean.
-/
import Spec.Single

namespace MongoModel.Proofs.C14
open MongoModel MongoModel.Spec

theorem update_one_touches_first_only (cfg : Cfg) (now : Int) (c c1 c' : Coll) (fs : Fields) (u : Val)
    (q : Val × Val) (rest : List (Val × Val)) (r : R UpdateResult)
    (he : expire now c = .ok c1) (hi : IdInv c) (hg : GoodKeys c) (hn : c.ttlIndexes = [])
    (hs : selectDocs (patchDT (.doc fs)) c1.docs = .ok (q :: rest))
    (h : applyUpdateColl cfg now c (.doc fs) u false false = (c', r)) :
    sameExcept q.1 c1.docs c'.docs ∧ c'.docs.length = c1.docs.length := by sorry

theorem update_one_no_match_noop (cfg : Cfg) (now : Int) (c c1 c' : Coll) (fs : Fields) (u : Val)
    (r : R UpdateResult) (he : expire now c = .ok c1) (hne : c1.docs ≠ [])
    (hs : selectDocs (patchDT (.doc fs)) c1.docs = .ok [])
    (h : applyUpdateColl cfg now c (.doc fs) u false false = (c', r)) :
    c'.docs = c1.docs := by sorry

theorem delete_one_removes_first (now : Int) (c c1 : Coll) (fs : Fields)
    (q : Val × Val) (rest : List (Val × Val))
    (he : expire now c = .ok c1) (hi : IdInv c) (hg : GoodKeys c)
    (hs : selectDocs (patchDT (.doc fs)) c1.docs = .ok (q :: rest)) :
    (deleteColl now c (.doc fs) false).2 = .ok 1 ∧
    (deleteColl now c (.doc fs) false).1.docs = c1.docs.filter (fun p => !pyEq q.1 p.1) := by sorry

theorem find_one_is_first_sorted (now : Int) (c c1 : Coll) (fs : Fields) (proj : Val)
    (sort : Option SortSpec) (sel : List (Val × Val)) (out : Option Val)
    (he : expire now c = .ok c1) (hne : c1.docs ≠ [])
    (hs : selectDocs (patchDT (.doc fs)) c1.docs = .ok sel)
    (h : (findOneColl now c (.doc fs) proj sort).2 = .ok out) :
    ∃ t, firstSorted sort sel = .ok t ∧
      (match t with
       | none => out = none
       | some d => copyOnlyFields d proj = .ok (out.getD .null) ∧ out.isSome) := by sorry

theorem fam_delete_spec (cfg : Cfg) (now : Int) (c c1 c' : Coll) (fs : Fields) (proj : Val)
    (sort : Option SortSpec) (sel : List (Val × Val)) (target : Val) (tid : Val) (ret : Option Val)
    (he : expire now c = .ok c1) (hi : IdInv c) (hg : GoodKeys c) (hn : c.ttlIndexes = [])
    (hs : selectDocs (patchDT (.doc fs)) c1.docs = .ok sel)
    (ht : firstSorted sort sel = .ok (some target)) (hid : idOf target = some tid)
    (hsc : isScalar tid = true)
    (h : findAndModify cfg now c (.doc fs) proj none false sort false = (c', .ok ret)) :
    sameExcept tid c1.docs c'.docs ∧ c'.docs.length + 1 = c1.docs.length ∧
    copyOnlyFields target proj = .ok (ret.getD .null) ∧ ret.isSome := by sorry

theorem fam_update_spec (cfg : Cfg) (now : Int) (c c1 c' : Coll) (fs : Fields) (proj u : Val)
    (upsert after : Bool)
    (sort : Option SortSpec) (sel : List (Val × Val)) (target : Val) (tid : Val) (ret : Option Val)
    (he : expire now c = .ok c1) (hi : IdInv c) (hg : GoodKeys c) (hn : c.ttlIndexes = [])
    (hs : selectDocs (patchDT (.doc fs)) c1.docs = .ok sel)
    (ht : firstSorted sort sel = .ok (some target)) (hid : idOf target = some tid)
    (hsc : isScalar tid = true)
    (h : findAndModify cfg now c (.doc fs) proj (some u) upsert sort after = (c', .ok ret)) :
    sameExcept tid c1.docs c'.docs ∧ c'.docs.length = c1.docs.length ∧
    (after = false → copyOnlyFields target proj = .ok (ret.getD .null) ∧ ret.isSome) ∧
    (after = true → ∃ p' ∈ c'.docs, pyEq p'.1 tid = true ∧
        copyOnlyFields p'.2 proj = .ok (ret.getD .null)) := by sorry

theorem fam_no_match_noop (cfg : Cfg) (now : Int) (c c1 c' : Coll) (fs : Fields) (proj : Val)
    (u : Option Val) (sort : Option SortSpec) (after : Bool) (ret : Option Val)
    (he : expire now c = .ok c1) (hne : c1.docs ≠ [])
    (hs : selectDocs (patchDT (.doc fs)) c1.docs = .ok [])
    (h : findAndModify cfg now c (.doc fs) proj u false sort after = (c', .ok ret)) :
    ret = none ∧ c'.docs = c1.docs := by sorry

end MongoModel.Proofs.C14
