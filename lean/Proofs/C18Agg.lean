/-
  Proofs.C18Agg — the aggregation pipeline as a path of C18 (follows the repairs d1da933 and
  e05c961: `Collection.aggregate` normalises the pipeline it is given (`MongoModel.aggPipeline`),
  runs it over the documents as stored (`aggInput`), and under `tz_aware=True` rebuilds its results
  aware at the end (`aggResult`)).

    * inside the pipeline every datetime that is stored, fetched or written is naive with whole
      milliseconds, and any two naive datetimes — a computed one included — compare without error
      (`Expr.compareOp`, the model of aggregate.py's comparison operators), by their instants;
    * `tz_aware` changes nothing but the form of the results: the aggregation of a `tz_aware=True`
      client is `makeAware` of the one a `tz_aware=False` client gets, document by document;
    * every datetime of a result of a `tz_aware=True` client is aware UTC, whatever computed it;
      a normal one comes out in the read form of the client with its instant;
    * two pipelines that differ only in how their datetimes are written are the same pipeline once
      prepared — so every stage, at every position, answers the same.
-/
import Proofs.C18Filter
import MongoModel.ExprOps
import MongoModel.Pipeline

namespace MongoModel.Proofs.C18
open MongoModel

/-! ### the vocabulary: `ReadForm` -/

theorem awareNormalB_iff (u : Int) (o : Option Int) : awareNormalB u o = true ↔ AwareNormal u o := by
  simp [awareNormalB, AwareNormal]

theorem readFormB_iff (tz : Bool) (u : Int) (o : Option Int) :
    readFormB tz u o = true ↔ ReadForm tz u o := by
  cases tz
  · simpa [readFormB, ReadForm] using normalB_iff u o
  · simpa [readFormB, ReadForm] using awareNormalB_iff u o

theorem allReadFormB_iff (tz : Bool) (v : Val) :
    allDatesB (readFormB tz) v = true ↔ AllDates (ReadForm tz) v := by
  rw [allDatesB_iff]
  constructor
  · exact fun h => allDates_mono (fun u o => (readFormB_iff tz u o).1) v h
  · exact fun h => allDates_mono (fun u o => (readFormB_iff tz u o).2) v h

theorem readForm_false : ReadForm false = Normal := rfl
theorem readForm_true : ReadForm true = AwareNormal := rfl

/-- aware UTC with whole milliseconds is in particular aware UTC -/
theorem awareNormal_awareUtc (v : Val) (h : AllDates AwareNormal v) : AllDates AwareUtc v :=
  allDates_mono (fun _ _ hn => hn.1) v h

/-! ### `makeAware` of a stored value -/

mutual
  theorem makeAware_awareNormal : ∀ v : Val, AllDates Normal v → AllDates AwareNormal (makeAware v)
    | .null, _ => by simp [makeAware, AllDates]
    | .bool _, _ => by simp [makeAware, AllDates]
    | .int _, _ => by simp [makeAware, AllDates]
    | .dbl _ _, _ => by simp [makeAware, AllDates]
    | .str _, _ => by simp [makeAware, AllDates]
    | .oid _, _ => by simp [makeAware, AllDates]
    | .date _ _, h => by
      simp only [AllDates, Normal] at h
      simp [makeAware, AllDates, AwareNormal, h.2]
    | .doc fs, h => by
      simp only [AllDates] at h
      simpa [makeAware, AllDates] using makeAwareFields_awareNormal fs h
    | .arr xs, h => by
      simp only [AllDates] at h
      simpa [makeAware, AllDates] using makeAwareList_awareNormal xs h
  theorem makeAwareFields_awareNormal : ∀ fs : Fields, AllDatesF Normal fs →
      AllDatesF AwareNormal (makeAwareFields fs)
    | [], _ => by simp [makeAwareFields, AllDatesF]
    | (_, v) :: r, h => by
      simp only [AllDatesF] at h
      simp only [makeAwareFields, AllDatesF]
      exact ⟨makeAware_awareNormal v h.1, makeAwareFields_awareNormal r h.2⟩
  theorem makeAwareList_awareNormal : ∀ xs : List Val, AllDatesL Normal xs →
      AllDatesL AwareNormal (makeAwareList xs)
    | [], _ => by simp [makeAwareList, AllDatesL]
    | x :: r, h => by
      simp only [AllDatesL] at h
      simp only [makeAwareList, AllDatesL]
      exact ⟨makeAware_awareNormal x h.1, makeAwareList_awareNormal r h.2⟩
end

/-! ### reads -/

theorem readDoc_form (tz : Bool) (v : Val) (h : AllDates Normal v) :
    AllDates (ReadForm tz) (readDoc tz v) := by
  cases tz
  · simpa [readDoc, ReadForm] using h
  · simpa [readDoc, ReadForm] using makeAware_awareNormal v h

/-- nothing is lost by reading: normalising what was read gives the stored value back -/
theorem patch_readDoc (tz : Bool) (v : Val) (h : AllDates Normal v) : patch (readDoc tz v) = v := by
  cases tz
  · simpa [readDoc] using patch_fixes_normal v h
  · simpa [readDoc] using patch_makeAware v h

theorem shape_readDoc (tz : Bool) (v : Val) : shape (readDoc tz v) = shape v := by
  cases tz
  · rfl
  · simpa [readDoc] using shape_makeAware v

/-! ### the prepared pipeline -/

theorem aggPipeline_normal (p : Val) : AllDates Normal (aggPipeline p) := patch_normal p

/-- a datetime written in a pipeline meets the stored ones in their own form: the stored form of
    the value written -/
theorem aggPipeline_eq_stored (p : Val) : aggPipeline p = aggInput (patch p) := rfl

/-- normalising the prepared pipeline (what `$match` does to its filter, what `$out` does when it
    inserts) changes nothing -/
theorem patch_aggPipeline (p : Val) : patch (aggPipeline p) = patch p := patch_idem p

theorem aggPipeline_idem (p : Val) : aggPipeline (aggPipeline p) = aggPipeline p := patch_idem p

theorem aggPipeline_eq_iff_sameMs (p q : Val) : aggPipeline p = aggPipeline q ↔ SameMs p q :=
  patch_eq_iff_sameMs p q

theorem shape_aggPipeline (p : Val) : shape (aggPipeline p) = shape p := shape_patch p

theorem datesOf_aggPipeline (p : Val) :
    datesOf (aggPipeline p) = (datesOf p).map (fun d => (floorMs (dateUtc d.1 d.2), none)) :=
  datesOf_patch p

theorem getByDotParts_aggPipeline (ps : List String) (p : Val) :
    getByDotParts ps (aggPipeline p) = (getByDotParts ps p).map aggPipeline :=
  getByDotParts_patch ps p

theorem aggPipeline_depth (ps : List String) (p : Val) (u : Int) (o : Option Int)
    (h : getByDotParts ps p = .ok (.date u o)) :
    getByDotParts ps (aggPipeline p) = .ok (.date (floorMs (dateUtc u o)) none) :=
  patch_depth ps p u o h

/-! ### the results -/

theorem aggResult_eq_readDoc (tz : Bool) (r : Val) : aggResult tz r = readDoc tz r := rfl

/-- `tz_aware=True`: every datetime of a result, at any depth, is aware UTC — whatever the pipeline
    did to produce it (read, fetched, written, computed) -/
theorem aggResult_aware (r : Val) : AllDates AwareUtc (aggResult true r) := makeAware_utc r

/-- `tz_aware=False`: results are handed out as computed -/
theorem aggResult_false (r : Val) : aggResult false r = r := rfl

/-- a value with normal datetimes comes out in the read form of the client -/
theorem aggResult_form (tz : Bool) (r : Val) (h : AllDates Normal r) :
    AllDates (ReadForm tz) (aggResult tz r) :=
  readDoc_form tz r h

/-- nothing is lost: normalising the result gives the value the pipeline computed -/
theorem patch_aggResult (tz : Bool) (r : Val) (h : AllDates Normal r) : patch (aggResult tz r) = r :=
  patch_readDoc tz r h

theorem shape_aggResult (tz : Bool) (r : Val) : shape (aggResult tz r) = shape r :=
  shape_readDoc tz r

/-- wall clocks are kept, position by position; a naive datetime becomes aware UTC under
    `tz_aware=True` -/
theorem datesOf_aggResult (tz : Bool) (r : Val) (h : AllDates Naive r) :
    datesOf (aggResult tz r) = (datesOf r).map (fun d => (d.1, if tz then some 0 else none)) := by
  cases tz
  · simp only [aggResult, Bool.false_eq_true, if_false]
    have : ∀ d ∈ datesOf r, (fun d : Int × Option Int => (d.1, (none : Option Int))) d = d := by
      intro d hd
      have hn : d.2 = none := (allDates_iff_dates Naive r).1 h d hd
      obtain ⟨u, o⟩ := d
      simp only at hn
      subst hn
      rfl
    rw [List.map_congr_left this, List.map_id']
  · simp only [aggResult, if_true]
    exact datesOf_makeAware r

/-- so the instants are those the pipeline computed -/
theorem aggResult_same_instant (tz : Bool) (r : Val) (h : AllDates Naive r) :
    (datesOf (aggResult tz r)).map (fun d => dateUtc d.1 d.2)
      = (datesOf r).map (fun d => dateUtc d.1 d.2) := by
  cases tz
  · rfl
  · exact makeAware_same_instant r h

theorem getByDotParts_aggResult (tz : Bool) (ps : List String) (r : Val) :
    getByDotParts ps (aggResult tz r) = (getByDotParts ps r).map (aggResult tz) := by
  cases tz
  · have : aggResult false = id := rfl
    rw [this]
    cases h : getByDotParts ps r <;> simp [h, Except.map]
  · have : aggResult true = makeAware := rfl
    rw [this]
    exact getByDotParts_makeAware ps r

/-- at every depth of a result: a naive datetime the pipeline put there comes out with the same
    wall clock, aware UTC under `tz_aware=True` -/
theorem aggResult_depth (tz : Bool) (ps : List String) (r : Val) (u : Int)
    (h : getByDotParts ps r = .ok (.date u none)) :
    getByDotParts ps (aggResult tz r) = .ok (.date u (if tz then some 0 else none)) := by
  rw [getByDotParts_aggResult, h]
  cases tz <;> rfl

/-- a written datetime that a pipeline passes on untouched comes out exactly as a stored copy of
    it is read by this client -/
theorem aggResult_aggPipeline (tz : Bool) (p : Val) :
    aggResult tz (aggPipeline p) = readDoc tz (patch p) := rfl

theorem aggResult_aggPipeline_form (tz : Bool) (p : Val) :
    AllDates (ReadForm tz) (aggResult tz (aggPipeline p)) :=
  aggResult_form tz _ (patch_normal p)

/-! ### comparisons inside the pipeline -/

/-- the comparison of two integers an expression operator stands for -/
def cmpMs (op : String) (m m' : Int) : Bool :=
  if op = "$eq" then m == m'
  else if op = "$ne" then m != m'
  else if op = "$gt" then decide (m' < m)
  else if op = "$gte" then decide (m' ≤ m)
  else if op = "$lt" then decide (m < m')
  else decide (m ≤ m')

def dateCmpOps : List String := ["$eq", "$ne", "$gt", "$gte", "$lt", "$lte"]

theorem compare_mul_1000 (a b : Int) : compare (a * 1000) (b * 1000) = compare a b := by
  rcases Int.lt_trichotomy a b with h | h | h
  · rw [Int.compare_eq_lt.2 h, Int.compare_eq_lt.2 (by omega)]
  · subst h; simp
  · rw [Int.compare_eq_gt.2 h, Int.compare_eq_gt.2 (by omega)]

theorem holds_compare (c : CmpOp) (a b : Int) :
    c.holds (compare a b) = match c with
      | .gt => decide (b < a) | .gte => decide (b ≤ a) | .lt => decide (a < b)
      | .lte => decide (a ≤ b) := by
  rcases Int.lt_trichotomy a b with h | h | h
  · rw [Int.compare_eq_lt.2 h]
    have h1 : ¬ b < a := by omega
    have h2 : ¬ b ≤ a := by omega
    have h3 : a ≤ b := by omega
    cases c <;> simp [CmpOp.holds, h, h1, h2, h3] <;> rfl
  · subst h
    cases c <;> simp [CmpOp.holds]
  · rw [Int.compare_eq_gt.2 h]
    have h1 : ¬ a < b := by omega
    have h2 : ¬ a ≤ b := by omega
    have h3 : b ≤ a := by omega
    cases c <;> simp [CmpOp.holds, h, h1, h2, h3] <;> rfl

theorem bsonCompare_naive_dates (c : CmpOp) (x y : Int) :
    bsonCompare c (.date x none) (.date y none) true = .ok (c.holds (compare x y)) := by
  simp [bsonCompare, Val.tc, bsonCmp, leafCmp, Except.map]

/-- **any two naive datetimes.** Inside the pipeline every datetime is naive — stored, fetched,
    written, computed — and two naive datetimes are compared by an expression operator without
    error, by their wall clocks (which are their UTC instants). -/
theorem compare_naive_dates (op : String) (hop : op ∈ dateCmpOps) (x y : Int) :
    Expr.compareOp op (.date x none) (.date y none) = .ok (.bool (cmpMs op x y)) := by
  simp only [dateCmpOps, List.mem_cons, List.mem_nil_iff, or_false] at hop
  rcases hop with rfl | rfl | rfl | rfl | rfl | rfl
  · simp [Expr.compareOp, cmpMs, pyEq]
  · simp [Expr.compareOp, cmpMs, pyEq, bne]
  · simp [Expr.compareOp, cmpMs, bsonCompare_naive_dates, holds_compare, Except.map]
  · simp [Expr.compareOp, cmpMs, bsonCompare_naive_dates, holds_compare, Except.map]
  · simp [Expr.compareOp, cmpMs, bsonCompare_naive_dates, holds_compare, Except.map]
  · simp [Expr.compareOp, cmpMs, bsonCompare_naive_dates, holds_compare, Except.map]

theorem cmpMs_mul_1000 (op : String) (a b : Int) : cmpMs op (a * 1000) (b * 1000) = cmpMs op a b := by
  have e : (a * 1000 == b * 1000) = (a == b) := by
    rw [Bool.eq_iff_iff]; simp; omega
  have l : ∀ x y : Int, decide (x * 1000 < y * 1000) = decide (x < y) := by
    intro x y; rw [Bool.eq_iff_iff]; simp
  have le : ∀ x y : Int, decide (x * 1000 ≤ y * 1000) = decide (x ≤ y) := by
    intro x y; rw [Bool.eq_iff_iff]; simp
  simp only [cmpMs, e, l, le, bne]

/-- **field against literal.** A field that holds the stored form of the datetime `a`, as the
    pipeline reads it (`aggInput`: whatever `tz_aware`), compared by an expression operator with
    the datetime `b` written in the pipeline: the answer is the comparison of the two
    milliseconds — never an error, whatever offsets and microseconds `a` and `b` were written
    with, and (there being no `tz` in the statement) the same for every client. -/
theorem compare_field_with_literal (op : String) (hop : op ∈ dateCmpOps)
    (u : Int) (o : Option Int) (u' : Int) (o' : Option Int) :
    Expr.compareOp op (aggInput (patch (.date u o))) (aggPipeline (.date u' o'))
      = .ok (.bool (cmpMs op (msOf u o) (msOf u' o'))) := by
  simp only [aggInput, aggPipeline, patch]
  rw [compare_naive_dates op hop]
  simp only [floorMs, cmpMs_mul_1000, msOf]

/-- the literal on the left -/
theorem compare_literal_with_field (op : String) (hop : op ∈ dateCmpOps)
    (u : Int) (o : Option Int) (u' : Int) (o' : Option Int) :
    Expr.compareOp op (aggPipeline (.date u' o')) (aggInput (patch (.date u o)))
      = .ok (.bool (cmpMs op (msOf u' o') (msOf u o))) :=
  compare_field_with_literal op hop u' o' u o

/-- **field against computed value.** The same field against a datetime the pipeline computed
    (`$dateFromParts`, `$add` of a date and a number, …: a naive datetime `m` µs after the epoch):
    no error, the comparison of the stored instant with `m`. -/
theorem compare_field_with_computed (op : String) (hop : op ∈ dateCmpOps)
    (u : Int) (o : Option Int) (m : Int) :
    Expr.compareOp op (aggInput (patch (.date u o))) (.date m none)
      = .ok (.bool (cmpMs op (floorMs (dateUtc u o)) m)) := by
  simp only [aggInput, patch]
  exact compare_naive_dates op hop _ _

/-- … in milliseconds when the computed datetime has whole milliseconds (`$dateFromParts` after
    8825a6b, `$add` of a stored date and a whole number) -/
theorem compare_field_with_computed_ms (op : String) (hop : op ∈ dateCmpOps)
    (u : Int) (o : Option Int) (ms : Int) :
    Expr.compareOp op (aggInput (patch (.date u o))) (.date (ms * 1000) none)
      = .ok (.bool (cmpMs op (msOf u o) ms)) := by
  rw [compare_field_with_computed op hop]
  simp only [floorMs, cmpMs_mul_1000, msOf]

/-- a written datetime against a computed one -/
theorem compare_literal_with_computed (op : String) (hop : op ∈ dateCmpOps)
    (u : Int) (o : Option Int) (m : Int) :
    Expr.compareOp op (aggPipeline (.date u o)) (.date m none)
      = .ok (.bool (cmpMs op (floorMs (dateUtc u o)) m)) :=
  compare_field_with_computed op hop u o m

/-- equivalent literals compare alike against anything -/
theorem compare_equivalent_literals (op : String) (x a b : Val) (h : sameMillisecond a b) :
    Expr.compareOp op x (aggPipeline a) = Expr.compareOp op x (aggPipeline b) := by
  cases a <;> cases b <;> simp only [sameMillisecond] at h
  rename_i u o u' o'
  have : aggPipeline (.date u o) = aggPipeline (.date u' o') :=
    (patch_instant u o u' o').2 h
  rw [this]

/-! ### before the repairs -/

/-- d1da933, the witness of the fixed finding `aggregate_literal_raw`: the literal
    2020-01-01T05:30:00.123456+05:30 handed on as written had neither read form -/
theorem unrepaired_literal_form (tz : Bool) :
    ¬ AllDates (ReadForm tz) (aggPipelineUnrepaired tz (.date 1577856600123456 (some 330))) := by
  cases tz <;> simp [aggPipelineUnrepaired, AllDates, ReadForm, Normal, AwareNormal]

/-- under `tz_aware=True` a naive literal handed on as written could not be compared with a
    field read through `find()` (TypeError: can't compare offset-naive and offset-aware
    datetimes) -/
theorem unrepaired_compare_raises :
    Expr.compareOp "$gt" (aggInputUnrepaired true (patch (.date 1577836800123000 none)))
        (aggPipelineUnrepaired true (.date 1577836800123999 none)) = .error .typeErr := by
  simp [Expr.compareOp, aggInputUnrepaired, readDoc, patch, makeAware, aggPipelineUnrepaired,
    bsonCompare, Val.tc, bsonCmp, leafCmp, Except.map]

/-- under `tz_aware=False` `$eq` said "different" for the very millisecond stored -/
theorem unrepaired_eq_wrong :
    Expr.compareOp "$eq" (aggInputUnrepaired false (patch (.date 1577856600123456 (some 330))))
        (aggPipelineUnrepaired false (.date 1577856600123456 (some 330))) = .ok (.bool false) := by
  simp [Expr.compareOp, aggInputUnrepaired, readDoc, patch, aggPipelineUnrepaired, pyEq]

/-- e05c961, the witness of the fixed finding `aggregate_computed_raw`: with the input read
    through `find()`, under `tz_aware=True` the datetime `$dateFromParts` computes for
    {year: 2020, millisecond: 123} (naive) could not be compared with the stored 2021-01-01 … -/
theorem unrepaired_computed_compare_raises :
    Expr.compareOp "$lt" (.date 1577836800123000 none)
        (aggInputUnrepaired true (patch (.date 1609459200000000 none))) = .error .typeErr := by
  simp [Expr.compareOp, aggInputUnrepaired, readDoc, patch, makeAware, bsonCompare, Val.tc,
    bsonCmp, leafCmp, Except.map]

/-- … and, handed out as computed, did not have the read form of that client -/
theorem unrepaired_computed_form :
    ¬ AllDates (ReadForm true) (aggResultUnrepaired true (.date 1577836800123000 none)) := by
  simp [aggResultUnrepaired, AllDates, ReadForm, AwareNormal]

/-! ### `Collection.aggregate` with the client's setting -/

/-- `list(collection.aggregate(pipeline))` for a client with this `tz_aware` setting: the pipeline
    is prepared, the input is the stored documents (`db`), the rest is `process_pipeline`
    (MongoModel/Pipeline.lean), and every result document goes through `aggResult` -/
def aggregateTz (tz : Bool) (db : Pipe.Db) (coll : String) (pipeline : Val) : R (List Val) :=
  (Pipe.aggregate db coll (aggPipeline pipeline)).map (List.map (aggResult tz))

theorem map_map_except {α β γ : Type} (f : α → β) (g : β → γ) (r : R α) :
    (r.map f).map g = r.map (g ∘ f) := by
  cases r <;> rfl

/-- a `tz_aware=False` client gets what `process_pipeline` computes -/
theorem aggregateTz_false (db : Pipe.Db) (coll : String) (p : Val) :
    aggregateTz false db coll p = Pipe.aggregate db coll (patch p) := by
  simp only [aggregateTz, aggPipeline]
  have : List.map (aggResult false) = (id : List Val → List Val) := by
    funext l
    have : aggResult false = id := rfl
    rw [this]; simp
  rw [this]
  cases Pipe.aggregate db coll (patch p) <;> rfl

/-- **`tz_aware` changes nothing but the form of the results.** Same error or, document by
    document, `makeAware` of what the other client gets: the same documents are selected, grouped,
    joined, the same values computed. -/
theorem aggregateTz_true (db : Pipe.Db) (coll : String) (p : Val) :
    aggregateTz true db coll p = (aggregateTz false db coll p).map (List.map makeAware) := by
  rw [aggregateTz_false]
  rfl

/-- every datetime a `tz_aware=True` client finds in the result of an aggregation, at any depth,
    is aware UTC -/
theorem aggregateTz_true_aware (db : Pipe.Db) (coll : String) (p : Val) (rs : List Val)
    (h : aggregateTz true db coll p = .ok rs) : ∀ r ∈ rs, AllDates AwareUtc r := by
  simp only [aggregateTz] at h
  cases hp : Pipe.aggregate db coll (aggPipeline p) with
  | error e => rw [hp] at h; cases h
  | ok xs =>
    rw [hp] at h
    simp only [Except.map, Except.ok.injEq] at h
    subst h
    intro r hr
    obtain ⟨x, _, rfl⟩ := List.mem_map.1 hr
    exact aggResult_aware x

/-- results whose datetimes the pipeline left or made normal come out in the read form of the
    client -/
theorem aggregateTz_form (tz : Bool) (db : Pipe.Db) (coll : String) (p : Val) (xs : List Val)
    (h : Pipe.aggregate db coll (aggPipeline p) = .ok xs) (hn : ∀ x ∈ xs, AllDates Normal x) :
    ∃ rs, aggregateTz tz db coll p = .ok rs ∧ ∀ r ∈ rs, AllDates (ReadForm tz) r := by
  refine ⟨xs.map (aggResult tz), by simp [aggregateTz, h, Except.map], ?_⟩
  intro r hr
  obtain ⟨x, hx, rfl⟩ := List.mem_map.1 hr
  exact aggResult_form tz x (hn x hx)

/-- a datetime may be written anywhere in the pipeline — `$addFields`, `$project`, `$literal`,
    `$group` keys, accumulator arguments, `$bucket` boundaries, `$facet` sub-pipelines, expression
    operands, `$match` — in any equivalent way: the aggregation is the same -/
theorem equivalent_pipeline_aggregates (tz : Bool) (db : Pipe.Db) (coll : String) (p q : Val)
    (h : SameMs p q) : aggregateTz tz db coll p = aggregateTz tz db coll q := by
  simp only [aggregateTz, (aggPipeline_eq_iff_sameMs p q).2 h]

/-- the same for anything computed from the prepared pipeline -/
theorem equivalent_pipeline_any {α : Type} (run : Val → α) (p q : Val)
    (h : SameMs p q) : run (aggPipeline p) = run (aggPipeline q) := by
  rw [(aggPipeline_eq_iff_sameMs p q).2 h]

/-! ### the `$match` stage inside `aggregate` -/

/-- the stage normalises its filter again, which changes nothing: it is the stage on the filter
    as written -/
theorem matchStage_aggPipeline (f : Val) (docs : List Val) :
    Pipe.matchStage (aggPipeline f) docs = Pipe.matchStage f docs := by
  simp only [Pipe.matchStage, aggPipeline, patch_idem]

theorem filterR_congr (p q : Val → R Bool) : ∀ docs : List Val, (∀ d ∈ docs, p d = q d) →
    Pipe.filterR p docs = Pipe.filterR q docs
  | [], _ => rfl
  | d :: r, h => by
    simp only [Pipe.filterR, h d List.mem_cons_self,
      filterR_congr p q r (fun x hx => h x (List.mem_cons_of_mem _ hx))]

/-- **`$match` inside `aggregate`.** On the stored documents (the input of the pipeline for every
    client) the stage selects what `find` selects with the same filter. -/
theorem matchStage_eq_find (f : Val) (docs : List Val) (h : DateInv docs) :
    Pipe.matchStage (aggPipeline f) docs = Pipe.findDocs f docs := by
  rw [matchStage_aggPipeline]
  cases docs with
  | nil => rfl
  | cons d r =>
    simp only [Pipe.matchStage, Pipe.findDocs]
    exact filterR_congr _ _ _ (fun x hx => by rw [patch_fixes_normal x (h x hx)])

end MongoModel.Proofs.C18
