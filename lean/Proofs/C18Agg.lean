/-
  Proofs.C18Agg — the aggregation pipeline as a path of C18 (follows the repair d1da933:
  `Collection.aggregate` normalises the pipeline it is given, `MongoModel.aggPipeline`).

    * the form of a datetime written in a pipeline is the form the collection's own documents are
      read in (`ReadForm tz`), at every depth;
    * two pipelines that differ only in how their datetimes are written are the same pipeline once
      prepared — so every stage, at every position, answers the same;
    * an expression comparison between a stored field and a written datetime is the comparison of
      their milliseconds, under both `tz_aware` settings (`Expr.compareOp`, the model of
      aggregate.py's comparison operators);
    * the `$match` stage selects the same documents under both settings.
-/
import Proofs.C18Filter
import MongoModel.ExprOps
import MongoModel.Pipeline

namespace MongoModel.Proofs.C18
open MongoModel

/-! ### the vocabulary: `ReadForm` -/

theorem awareNormalB_iff (u : Int) (o : Option Int) : awareNormalB u o = true ↔ AwareNormal u o := by
  simp [awareNormalB, AwareNormal]

theorem readFormB_iff (tz : Bool) (u : Int) (o : Option Int) :
    readFormB tz u o = true ↔ ReadForm tz u o := by
  cases tz
  · simpa [readFormB, ReadForm] using normalB_iff u o
  · simpa [readFormB, ReadForm] using awareNormalB_iff u o

theorem allReadFormB_iff (tz : Bool) (v : Val) :
    allDatesB (readFormB tz) v = true ↔ AllDates (ReadForm tz) v := by
  rw [allDatesB_iff]
  constructor
  · exact fun h => allDates_mono (fun u o => (readFormB_iff tz u o).1) v h
  · exact fun h => allDates_mono (fun u o => (readFormB_iff tz u o).2) v h

theorem readForm_false : ReadForm false = Normal := rfl
theorem readForm_true : ReadForm true = AwareNormal := rfl

/-- aware UTC with whole milliseconds is in particular aware UTC -/
theorem awareNormal_awareUtc (v : Val) (h : AllDates AwareNormal v) : AllDates AwareUtc v :=
  allDates_mono (fun _ _ hn => hn.1) v h

/-! ### `makeAware` of a stored value -/

mutual
  theorem makeAware_awareNormal : ∀ v : Val, AllDates Normal v → AllDates AwareNormal (makeAware v)
    | .null, _ => by simp [makeAware, AllDates]
    | .bool _, _ => by simp [makeAware, AllDates]
    | .int _, _ => by simp [makeAware, AllDates]
    | .dbl _ _, _ => by simp [makeAware, AllDates]
    | .str _, _ => by simp [makeAware, AllDates]
    | .oid _, _ => by simp [makeAware, AllDates]
    | .date _ _, h => by
      simp only [AllDates, Normal] at h
      simp [makeAware, AllDates, AwareNormal, h.2]
    | .doc fs, h => by
      simp only [AllDates] at h
      simpa [makeAware, AllDates] using makeAwareFields_awareNormal fs h
    | .arr xs, h => by
      simp only [AllDates] at h
      simpa [makeAware, AllDates] using makeAwareList_awareNormal xs h
  theorem makeAwareFields_awareNormal : ∀ fs : Fields, AllDatesF Normal fs →
      AllDatesF AwareNormal (makeAwareFields fs)
    | [], _ => by simp [makeAwareFields, AllDatesF]
    | (_, v) :: r, h => by
      simp only [AllDatesF] at h
      simp only [makeAwareFields, AllDatesF]
      exact ⟨makeAware_awareNormal v h.1, makeAwareFields_awareNormal r h.2⟩
  theorem makeAwareList_awareNormal : ∀ xs : List Val, AllDatesL Normal xs →
      AllDatesL AwareNormal (makeAwareList xs)
    | [], _ => by simp [makeAwareList, AllDatesL]
    | x :: r, h => by
      simp only [AllDatesL] at h
      simp only [makeAwareList, AllDatesL]
      exact ⟨makeAware_awareNormal x h.1, makeAwareList_awareNormal r h.2⟩
end

/-! ### reads -/

theorem readDoc_form (tz : Bool) (v : Val) (h : AllDates Normal v) :
    AllDates (ReadForm tz) (readDoc tz v) := by
  cases tz
  · simpa [readDoc, ReadForm] using h
  · simpa [readDoc, ReadForm] using makeAware_awareNormal v h

/-- nothing is lost by reading: normalising what was read gives the stored value back -/
theorem patch_readDoc (tz : Bool) (v : Val) (h : AllDates Normal v) : patch (readDoc tz v) = v := by
  cases tz
  · simpa [readDoc] using patch_fixes_normal v h
  · simpa [readDoc] using patch_makeAware v h

theorem shape_readDoc (tz : Bool) (v : Val) : shape (readDoc tz v) = shape v := by
  cases tz
  · rfl
  · simpa [readDoc] using shape_makeAware v

/-! ### the prepared pipeline -/

/-- a datetime written in a pipeline is handed on exactly as a stored copy of it would be read -/
theorem aggPipeline_eq_readDoc (tz : Bool) (p : Val) : aggPipeline tz p = readDoc tz (patch p) := by
  cases tz <;> rfl

theorem aggPipeline_form (tz : Bool) (p : Val) : AllDates (ReadForm tz) (aggPipeline tz p) := by
  rw [aggPipeline_eq_readDoc]
  exact readDoc_form tz _ (patch_normal p)

/-- normalising the prepared pipeline (what `$match` does to its filter, what `$out` does when it
    inserts) gives the normal form of the pipeline as written -/
theorem patch_aggPipeline (tz : Bool) (p : Val) : patch (aggPipeline tz p) = patch p := by
  rw [aggPipeline_eq_readDoc]
  exact patch_readDoc tz _ (patch_normal p)

/-- preparing a prepared pipeline changes nothing (a result of one aggregation written into the
    pipeline of the next one) -/
theorem aggPipeline_idem (tz : Bool) (p : Val) :
    aggPipeline tz (aggPipeline tz p) = aggPipeline tz p := by
  rw [aggPipeline_eq_readDoc tz (aggPipeline tz p), patch_aggPipeline, aggPipeline_eq_readDoc]

/-- two pipelines are prepared to the same value iff they have the same shape and, position by
    position, their datetimes denote the same milliseconds -/
theorem aggPipeline_eq_iff_sameMs (tz : Bool) (p q : Val) :
    aggPipeline tz p = aggPipeline tz q ↔ SameMs p q := by
  constructor
  · intro h
    have := congrArg patch h
    rw [patch_aggPipeline, patch_aggPipeline] at this
    exact (patch_eq_iff_sameMs p q).1 this
  · intro h
    rw [aggPipeline_eq_readDoc, aggPipeline_eq_readDoc, patch_eq_of_sameMs p q h]

theorem shape_aggPipeline (tz : Bool) (p : Val) : shape (aggPipeline tz p) = shape p := by
  rw [aggPipeline_eq_readDoc, shape_readDoc, shape_patch]

/-- the datetimes of the prepared pipeline, in position: the millisecond floor of the instant
    written, naive or aware UTC according to the client -/
theorem datesOf_aggPipeline (tz : Bool) (p : Val) :
    datesOf (aggPipeline tz p)
      = (datesOf p).map (fun d => (floorMs (dateUtc d.1 d.2), if tz then some 0 else none)) := by
  cases tz
  · simpa [aggPipeline] using datesOf_patch p
  · simp only [aggPipeline, if_true, datesOf_makeAware, datesOf_patch, List.map_map]
    rfl

/-- at every depth -/
theorem getByDotParts_aggPipeline (tz : Bool) (ps : List String) (p : Val) :
    getByDotParts ps (aggPipeline tz p) = (getByDotParts ps p).map (aggPipeline tz) := by
  cases tz
  · have : aggPipeline false = patch := rfl
    rw [this]
    exact getByDotParts_patch ps p
  · have : aggPipeline true = fun v => makeAware (patch v) := rfl
    rw [this, getByDotParts_makeAware, getByDotParts_patch]
    cases getByDotParts ps p <;> rfl

theorem aggPipeline_depth (tz : Bool) (ps : List String) (p : Val) (u : Int) (o : Option Int)
    (h : getByDotParts ps p = .ok (.date u o)) :
    getByDotParts ps (aggPipeline tz p)
      = .ok (.date (floorMs (dateUtc u o)) (if tz then some 0 else none)) := by
  rw [getByDotParts_aggPipeline, h]
  cases tz <;> rfl

/-- the prepared form of one datetime -/
theorem aggPipeline_date (tz : Bool) (u : Int) (o : Option Int) :
    aggPipeline tz (.date u o) = .date (floorMs (dateUtc u o)) (if tz then some 0 else none) := by
  cases tz <;> rfl

theorem readDoc_patch_date (tz : Bool) (u : Int) (o : Option Int) :
    readDoc tz (patch (.date u o)) = .date (floorMs (dateUtc u o)) (if tz then some 0 else none) := by
  cases tz <;> rfl

/-! ### expression comparisons between a stored field and a written datetime -/

/-- the comparison of two milliseconds an expression operator stands for -/
def cmpMs (op : String) (m m' : Int) : Bool :=
  if op = "$eq" then m == m'
  else if op = "$ne" then m != m'
  else if op = "$gt" then decide (m' < m)
  else if op = "$gte" then decide (m' ≤ m)
  else if op = "$lt" then decide (m < m')
  else decide (m ≤ m')

def dateCmpOps : List String := ["$eq", "$ne", "$gt", "$gte", "$lt", "$lte"]

theorem compare_mul_1000 (a b : Int) : compare (a * 1000) (b * 1000) = compare a b := by
  rcases Int.lt_trichotomy a b with h | h | h
  · rw [Int.compare_eq_lt.2 h, Int.compare_eq_lt.2 (by omega)]
  · subst h; simp
  · rw [Int.compare_eq_gt.2 h, Int.compare_eq_gt.2 (by omega)]

theorem holds_compare (c : CmpOp) (a b : Int) :
    c.holds (compare a b) = match c with
      | .gt => decide (b < a) | .gte => decide (b ≤ a) | .lt => decide (a < b)
      | .lte => decide (a ≤ b) := by
  rcases Int.lt_trichotomy a b with h | h | h
  · rw [Int.compare_eq_lt.2 h]
    have h1 : ¬ b < a := by omega
    have h2 : ¬ b ≤ a := by omega
    have h3 : a ≤ b := by omega
    cases c <;> simp [CmpOp.holds, h, h1, h2, h3] <;> rfl
  · subst h
    cases c <;> simp [CmpOp.holds]
  · rw [Int.compare_eq_gt.2 h]
    have h1 : ¬ a < b := by omega
    have h2 : ¬ a ≤ b := by omega
    have h3 : b ≤ a := by omega
    cases c <;> simp [CmpOp.holds, h, h1, h2, h3] <;> rfl

/-- `bson_compare` of two datetimes of one read form: the order of their milliseconds -/
theorem bsonCompare_read_dates (c : CmpOp) (tz : Bool) (x y : Int) :
    bsonCompare c (.date (floorMs x) (if tz then some 0 else none))
        (.date (floorMs y) (if tz then some 0 else none)) true
      = .ok (c.holds (compare (x / 1000) (y / 1000))) := by
  cases tz
  · simp [bsonCompare, Val.tc, bsonCmp, leafCmp, Except.map, floorMs, compare_mul_1000]
  · simp [bsonCompare, Val.tc, bsonCmp, leafCmp, Except.map, floorMs, dateUtc, compare_mul_1000]

theorem pyEq_read_dates (tz : Bool) (x y : Int) :
    pyEq (.date (floorMs x) (if tz then some 0 else none))
        (.date (floorMs y) (if tz then some 0 else none)) = (x / 1000 == y / 1000) := by
  rw [Bool.eq_iff_iff]
  cases tz <;> simp [pyEq, dateUtc, floorMs_eq_iff]

/-- **field against literal.** A field that holds the stored form of the datetime `a`, read by a
    client with either `tz_aware` setting, compared by an expression operator with the datetime
    `b` written in the pipeline: the answer is the comparison of the two milliseconds — never an
    error, the same under both settings, whatever offsets and microseconds `a` and `b` were
    written with. -/
theorem compare_field_with_literal (tz : Bool) (op : String) (hop : op ∈ dateCmpOps)
    (u : Int) (o : Option Int) (u' : Int) (o' : Option Int) :
    Expr.compareOp op (readDoc tz (patch (.date u o))) (aggPipeline tz (.date u' o'))
      = .ok (.bool (cmpMs op (msOf u o) (msOf u' o'))) := by
  rw [readDoc_patch_date, aggPipeline_date]
  simp only [dateCmpOps, List.mem_cons, List.mem_nil_iff, or_false] at hop
  rcases hop with rfl | rfl | rfl | rfl | rfl | rfl
  · simp [Expr.compareOp, cmpMs, pyEq_read_dates, msOf]
  · simp [Expr.compareOp, cmpMs, pyEq_read_dates, msOf, bne]
  · simp [Expr.compareOp, cmpMs, bsonCompare_read_dates, holds_compare, Except.map, msOf]; rfl
  · simp [Expr.compareOp, cmpMs, bsonCompare_read_dates, holds_compare, Except.map, msOf]; rfl
  · simp [Expr.compareOp, cmpMs, bsonCompare_read_dates, holds_compare, Except.map, msOf]; rfl
  · simp [Expr.compareOp, cmpMs, bsonCompare_read_dates, holds_compare, Except.map, msOf]; rfl

/-- the literal on the left -/
theorem compare_literal_with_field (tz : Bool) (op : String) (hop : op ∈ dateCmpOps)
    (u : Int) (o : Option Int) (u' : Int) (o' : Option Int) :
    Expr.compareOp op (aggPipeline tz (.date u' o')) (readDoc tz (patch (.date u o)))
      = .ok (.bool (cmpMs op (msOf u' o') (msOf u o))) := by
  have := compare_field_with_literal tz op hop u' o' u o
  rwa [← aggPipeline_eq_readDoc, aggPipeline_eq_readDoc tz (.date u o)] at this

/-- equivalent literals compare alike against anything -/
theorem compare_equivalent_literals (tz : Bool) (op : String) (x a b : Val)
    (h : sameMillisecond a b) :
    Expr.compareOp op x (aggPipeline tz a) = Expr.compareOp op x (aggPipeline tz b) := by
  cases a <;> cases b <;> simp only [sameMillisecond] at h
  rename_i u o u' o'
  have : aggPipeline tz (.date u o) = aggPipeline tz (.date u' o') := by
    rw [aggPipeline_date, aggPipeline_date]
    have := (floorMs_eq_iff (dateUtc u o) (dateUtc u' o')).2 (by simpa [msOf] using h)
    rw [this]
  rw [this]

/-! ### before the repair (the witness of the fixed finding `aggregate_literal_raw`) -/

/-- the literal 2020-01-01T05:30:00.123456+05:30 handed on as written has neither read form -/
theorem unrepaired_literal_form (tz : Bool) :
    ¬ AllDates (ReadForm tz) (aggPipelineUnrepaired tz (.date 1577856600123456 (some 330))) := by
  cases tz <;> simp [aggPipelineUnrepaired, AllDates, ReadForm, Normal, AwareNormal]

/-- under `tz_aware=True` a naive literal handed on as written could not be compared with a
    field (TypeError: can't compare offset-naive and offset-aware datetimes) -/
theorem unrepaired_compare_raises :
    Expr.compareOp "$gt" (readDoc true (patch (.date 1577836800123000 none)))
        (aggPipelineUnrepaired true (.date 1577836800123999 none)) = .error .typeErr := by
  simp [Expr.compareOp, readDoc, patch, makeAware, aggPipelineUnrepaired, bsonCompare, Val.tc,
    bsonCmp, leafCmp, Except.map]

/-- under `tz_aware=False` an aware literal handed on as written raised likewise, and `$eq` said
    "different" for the very millisecond stored -/
theorem unrepaired_eq_wrong :
    Expr.compareOp "$eq" (readDoc false (patch (.date 1577856600123456 (some 330))))
        (aggPipelineUnrepaired false (.date 1577856600123456 (some 330))) = .ok (.bool false) := by
  simp [Expr.compareOp, readDoc, patch, aggPipelineUnrepaired, pyEq]

/-! ### `Collection.aggregate` with the client's setting -/

/-- the collections as `find()` hands them to the pipeline under this setting -/
def readDb (tz : Bool) (db : Pipe.Db) : Pipe.Db :=
  ⟨db.colls.map (fun p => (p.1, p.2.map (readDoc tz)))⟩

/-- `list(collection.aggregate(pipeline))` for a client with this `tz_aware` setting: the input is
    read with `self.find()`, the pipeline is prepared (collection.py `aggregate`), the rest is
    `process_pipeline` (MongoModel/Pipeline.lean) -/
def aggregateTz (tz : Bool) (db : Pipe.Db) (coll : String) (pipeline : Val) : R (List Val) :=
  Pipe.aggregate (readDb tz db) coll (aggPipeline tz pipeline)

/-- a datetime may be written anywhere in the pipeline — `$addFields`, `$project`, `$literal`,
    `$group` keys, accumulator arguments, `$bucket` boundaries, `$facet` sub-pipelines, expression
    operands, `$match` — in any equivalent way: the aggregation is the same -/
theorem equivalent_pipeline_aggregates (tz : Bool) (db : Pipe.Db) (coll : String) (p q : Val)
    (h : SameMs p q) : aggregateTz tz db coll p = aggregateTz tz db coll q := by
  simp only [aggregateTz, (aggPipeline_eq_iff_sameMs tz p q).2 h]

/-- the same for anything computed from the prepared pipeline -/
theorem equivalent_pipeline_any {α : Type} (run : Val → α) (tz : Bool) (p q : Val)
    (h : SameMs p q) : run (aggPipeline tz p) = run (aggPipeline tz q) := by
  rw [(aggPipeline_eq_iff_sameMs tz p q).2 h]

/-! ### the `$match` stage under both settings -/

theorem filterR_map_readDoc (tz : Bool) (f : Val) : ∀ docs : List Val, DateInv docs →
    Pipe.filterR (fun d => filterApplies (patch (aggPipeline tz f)) (patch d))
        (docs.map (readDoc tz))
      = (Pipe.filterR (fun d => filterApplies (patch f) (patch d)) docs).map
          (List.map (readDoc tz))
  | [], _ => rfl
  | d :: r, h => by
    have hd : AllDates Normal d := h d (List.mem_cons_self)
    have hr : DateInv r := fun x hx => h x (List.mem_cons_of_mem _ hx)
    simp only [List.map_cons, Pipe.filterR, patch_aggPipeline, patch_readDoc tz d hd,
      patch_fixes_normal d hd]
    cases hp : filterApplies (patch f) d with
    | error e => rfl
    | ok b =>
      have ih := filterR_map_readDoc tz f r hr
      simp only [patch_aggPipeline] at ih
      simp only [ih]
      cases Pipe.filterR (fun d => filterApplies (patch f) (patch d)) r with
      | error e => rfl
      | ok ys => cases b <;> simp [Except.map]

/-- **`$match` inside `aggregate`.** With the pipeline prepared and the documents read under
    either setting, the stage selects the documents the plain query `patch f` selects from the
    stored ones — and raises on the same. -/
theorem matchStage_under_tz (tz : Bool) (f : Val) (docs : List Val) (h : DateInv docs) :
    Pipe.matchStage (aggPipeline tz f) (docs.map (readDoc tz))
      = (Pipe.matchStage f docs).map (List.map (readDoc tz)) := by
  cases docs with
  | nil =>
    simp only [List.map_nil, Pipe.matchStage, patch_aggPipeline]
    cases filterApplies (patch f) (.doc []) <;> rfl
  | cons d r =>
    have := filterR_map_readDoc tz f (d :: r) h
    simpa [Pipe.matchStage] using this

end MongoModel.Proofs.C18

