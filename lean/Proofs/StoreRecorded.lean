/-
  Proofs.StoreRecorded — existence is recorded (`Coll.Recorded`: a collection that holds a
  document or an index has the created flag set) in every state a history reaches.

  `Kept c c'` says what every entry point but `drop()` does to the flag: it sets it, or it
  leaves it alone and neither stores a document in an empty collection nor adds an index.
  Every operation of `stepColl` / `stepX` is `Kept` (or a drop), hence keeps `Recorded`
  (`recorded_stepColl`, `recorded_stepX`, `recorded_history`).
-/
import Proofs.C06Ensure
import Proofs.C05Loop
import Proofs.C05ExtStep

set_option linter.unusedSimpArgs false
set_option linter.unusedVariables false

namespace MongoModel.Proofs.Recorded
open MongoModel MongoModel.Spec
open MongoModel.Proofs.C09Lemmas (expire_ok SameMeta)
open MongoModel.Proofs.C06Lemmas (iterDocuments_ok ensureUniques_ok)
open MongoModel.Proofs.C05Lemmas (insertDoc_eq insertCore_spec applyUpdateColl_eq afterLoop preLoop
  upsertIdv)
open MongoModel.Proofs.ExtGen

/-- the flag was set, or it was left alone and nothing appeared -/
def Kept (c c' : Coll) : Prop :=
  c'.forceCreated = true ∨
  (c'.forceCreated = c.forceCreated ∧ (c'.docs ≠ [] → c.docs ≠ []) ∧
    (c'.indexes ≠ [] → c.indexes ≠ []))

theorem Kept.refl (c : Coll) : Kept c c := .inr ⟨rfl, id, id⟩

theorem Kept.trans {a b c : Coll} (h1 : Kept a b) (h2 : Kept b c) : Kept a c := by
  rcases h2 with h2 | ⟨f2, d2, i2⟩
  · exact .inl h2
  · rcases h1 with h1 | ⟨f1, d1, i1⟩
    · exact .inl (f2.trans h1)
    · exact .inr ⟨f2.trans f1, fun h => d1 (d2 h), fun h => i1 (i2 h)⟩

theorem Kept.recorded {c c' : Coll} (h : Kept c c') (hr : c.Recorded) : c'.Recorded := by
  intro hne
  rcases h with h | ⟨f, d, i⟩
  · exact h
  · rw [f]
    exact hr (hne.imp d i)

theorem Kept.of_flag {c c' : Coll} (h : c'.forceCreated = true) : Kept c c' := .inl h

theorem recorded_of_flag {c : Coll} (h : c.forceCreated = true) : c.Recorded := fun _ => h

theorem sublist_ne_nil {α : Type} {l l' : List α} (h : l'.Sublist l) : l' ≠ [] → l ≠ [] := by
  intro hne e; subst e; exact hne (List.sublist_nil.mp h)

/-- same flag, same index table, a sublist of the documents -/
theorem Kept.of_sub {c c' : Coll} (hs : c'.docs.Sublist c.docs) (hm : SameMeta c c') : Kept c c' :=
  .inr ⟨hm.2.2.1, sublist_ne_nil hs, fun h => hm.1 ▸ h⟩

theorem kept_expire {now : Int} {c c' : Coll} (h : expire now c = .ok c') : Kept c c' :=
  let ⟨s, m⟩ := expire_ok now c c' h
  Kept.of_sub s m

theorem kept_iter {now : Int} {c c' : Coll} {f : Val} {ms : List Val}
    (h : iterDocuments now c f = .ok (c', ms)) : Kept c c' :=
  let ⟨s, m, _⟩ := iterDocuments_ok h
  Kept.of_sub s m

theorem kept_ensure {now : Int} {c c' : Coll} {d : Val} (h : ensureUniques now c d = .ok c') :
    Kept c c' :=
  let ⟨s, m, _⟩ := ensureUniques_ok h
  Kept.of_sub s m

theorem kept_bump (c : Coll) (n : Nat) : Kept c { c with nextOid := n } := .inr ⟨rfl, id, id⟩

theorem kept_markStored (c : Coll) (b : Bool) : Kept c (c.markStored b) := by
  cases b with
  | false => exact Kept.refl c
  | true => exact .inl rfl

theorem hasKey_of_lookup {c : Coll} {k cur : Val} (h : c.lookup k = some cur) :
    c.hasKey k = true := by
  unfold Coll.lookup at h
  unfold Coll.hasKey
  cases hf : c.docs.find? (fun p => pyEq p.1 k) with
  | none => rw [hf] at h; cases h
  | some p =>
    rw [List.any_eq_true]
    exact ⟨p, List.mem_of_find?_eq_some hf, by simpa using List.find?_some hf⟩

theorem kept_setDoc (c : Coll) (k d : Val) (h : c.hasKey k = true) : Kept c (c.setDoc k d) := by
  refine .inr ⟨?_, ?_, ?_⟩
  · unfold Coll.setDoc; split <;> rfl
  · intro _ e
    simp [Coll.hasKey, e] at h
  · unfold Coll.setDoc; split <;> exact id

theorem kept_delDoc (c : Coll) (k : Val) : Kept c (c.delDoc k) :=
  .inr ⟨rfl, sublist_ne_nil List.filter_sublist, id⟩

theorem kept_foldl_delDoc (ks : List Val) : ∀ c : Coll, Kept c (ks.foldl (fun acc k => acc.delDoc k) c) := by
  induction ks with
  | nil => intro c; exact Kept.refl c
  | cons k ks ih => intro c; exact (kept_delDoc c k).trans (ih _)

/-! ### insert -/

theorem insertDoc_flag {now : Int} {c c' : Coll} {d id : Val}
    (h : insertDoc now c d = .ok (c', id)) : c'.forceCreated = true := by
  cases d with
  | doc fs =>
    rw [insertDoc_eq] at h
    split at h
    · rename_i hh
      obtain ⟨_, _, c1, _, _, hu⟩ := insertCore_spec now c fs c' id hh h
      have := (ensureUniques_ok hu).2.1.2.2.1
      rw [this]; rfl
    · have hh : dhas "_id" (dset "_id" (.oid c.nextOid) fs) = true := by
        simp [dhas, C05Lemmas.dget_dset_self]
      obtain ⟨_, _, c1, _, _, hu⟩ := insertCore_spec now _ _ c' id hh h
      have := (ensureUniques_ok hu).2.1.2.2.1
      rw [this]; rfl
  | _ => simp [insertDoc] at h

theorem kept_insertRejected (now : Int) (c : Coll) (d : Val) : Kept c (insertRejected now c d) := by
  unfold insertRejected
  refine Kept.trans ?_ (kept_markStored _ _)
  have h0 : Kept c (match d with
      | .doc fs => if dhas "_id" fs then c else { c with nextOid := c.nextOid + 1 }
      | _ => c) := by
    split
    · split
      · exact Kept.refl c
      · exact kept_bump c _
    · exact Kept.refl c
  split
  · rename_i x hx; exact h0.trans (kept_expire hx)
  · exact h0

theorem kept_insertManyLoop (now : Int) (ordered : Bool) :
    ∀ (ds : List Val) (idx : Nat) (c : Coll) (ids errs : List Val) (n : Nat),
      Kept c (insertManyLoop now ordered ds idx c ids errs n).1 := by
  intro ds
  induction ds with
  | nil =>
    intro idx c ids errs n
    simp only [insertManyLoop, insertManyDone]
    split <;> exact Kept.refl c
  | cons d rest ih =>
    intro idx c ids errs n
    unfold insertManyLoop
    split
    · rename_i c' id h
      exact (Kept.of_flag (insertDoc_flag h)).trans (ih _ _ _ _ _)
    · have hr := kept_insertRejected now c d
      simp only
      split
      · split
        · simp only [insertManyDone]; split <;> exact hr
        · exact hr.trans (ih _ _ _ _ _)
      · exact hr

/-! ### update -/

theorem kept_updateLoop (now : Int) (spec document nowV : Val) (multi : Bool) :
    ∀ (pending : List (Val × Val)) (c : Coll) (m u : Nat),
      Kept c (updateLoop now spec document nowV multi pending c m u).1 := by
  intro pending
  induction pending with
  | nil => intro c m u; simp only [updateLoop]; exact Kept.refl c
  | cons kd rest ih =>
    obtain ⟨key, d0⟩ := kd
    intro c m u
    unfold updateLoop
    cases hl : c.lookup key with
    | none => exact ih _ _ _
    | some cur =>
      have hk : c.hasKey key = true := hasKey_of_lookup hl
      dsimp only
      cases hf : filterApplies spec cur with
      | error e => exact Kept.refl c
      | ok b =>
        cases b with
        | false => exact ih _ _ _
        | true =>
          dsimp only
          cases ha : applyUpdate spec document nowV false cur with
          | error e => exact Kept.refl c
          | ok new =>
            dsimp only
            have hs := kept_setDoc c key new hk
            by_cases hc : pyEq new cur = true
            · rw [if_pos hc]
              cases hu : ensureUniques now (c.setDoc key new) new with
              | error e => exact Kept.refl c
              | ok c2 =>
                dsimp only
                have h2 := hs.trans (kept_ensure hu)
                cases multi with
                | true => simp only [if_true]; exact h2.trans (ih _ _ _)
                | false => simp only [Bool.false_eq_true, if_false]; exact h2
            · rw [if_neg hc]
              generalize (!pyEqOpt _ _) = q
              cases q with
              | true => exact Kept.refl c
              | false =>
                simp only [Bool.false_eq_true, if_false]
                cases hu : ensureUniques now (c.setDoc key new) new with
                | error e => exact Kept.refl c
                | ok c2 =>
                  dsimp only
                  have h2 := hs.trans (kept_ensure hu)
                  cases multi with
                  | true => simp only [if_true]; exact h2.trans (ih _ _ _)
                  | false => simp only [Bool.false_eq_true, if_false]; exact h2

theorem kept_preLoop {now : Int} {c c2 : Coll} {spec : Val} (h : preLoop now c spec = .ok c2) :
    Kept c c2 := by
  unfold preLoop at h
  simp only [bind, Except.bind] at h
  cases h1 : expire now c with
  | error e => simp [h1] at h
  | ok c1 =>
    simp only [h1] at h
    refine (kept_expire h1).trans ?_
    split at h
    · split at h
      · cases h
      · exact kept_expire h
    · exact kept_expire h

theorem kept_upsertIdv (ss dfs : Fields) (c3 : Coll) : Kept c3 (upsertIdv ss dfs c3).2 := by
  unfold upsertIdv
  split
  · exact Kept.refl _
  · split
    · exact Kept.refl _
    · exact kept_bump _ _

theorem kept_afterLoop (now : Int) (spec document nowV : Val) (ss dfs : Fields) (upsert : Bool)
    (c3 : Coll) (r3 : R (Nat × Nat)) :
    Kept c3 (afterLoop now spec document nowV ss dfs upsert c3 r3).1 := by
  unfold afterLoop
  cases r3 with
  | error e => exact Kept.refl c3
  | ok mu =>
    obtain ⟨matched, updated⟩ := mu
    simp only
    split
    · exact Kept.refl c3
    · have hi := kept_upsertIdv ss dfs c3
      generalize upsertIdv ss dfs c3 = ic at hi ⊢
      cases hb : upsertDoc spec document nowV ss ic.1 with
      | error e => exact hi
      | ok built =>
        dsimp only
        cases hins : insertDoc now ic.2 built with
        | error e => exact hi.trans (kept_markStored _ _)
        | ok p =>
          obtain ⟨c5, newId⟩ := p
          dsimp only
          have hf := insertDoc_flag hins
          exact Kept.of_flag hf

theorem kept_applyUpdateColl (cfg : Cfg) (now : Int) (c : Coll) (f u : Val) (upsert multi : Bool) :
    Kept c (applyUpdateColl cfg now c f u upsert multi).1 := by
  rw [applyUpdateColl_eq]
  split
  · split
    · exact Kept.refl c
    · split
      · exact Kept.refl c
      · rename_i c2 hpre
        exact ((kept_preLoop hpre).trans (kept_updateLoop _ _ _ _ _ _ _ _ _)).trans
          (kept_afterLoop _ _ _ _ _ _ _ _ _)
  · exact Kept.refl c

/-! ### delete, reads -/

theorem kept_deleteColl (now : Int) (c : Coll) (f : Val) (multi : Bool) :
    Kept c (deleteColl now c f multi).1 := by
  unfold deleteColl
  simp only
  split
  · split
    · exact Kept.refl c
    · rename_i c1 ms h
      exact (kept_iter h).trans (kept_foldl_delDoc _ c1)
  · exact Kept.refl c

theorem kept_findColl (now : Int) (c : Coll) (f : Val) : Kept c (findColl now c f).1 := by
  unfold findColl
  split
  · split
    · exact Kept.refl c
    · rename_i c1 ms h; exact kept_iter h
  · exact Kept.refl c

theorem kept_countColl (now : Int) (c : Coll) (f : Val) (skip : Int) (limit : Option Val) :
    Kept c (countColl now c f skip limit).1 := by
  unfold countColl
  simp only
  split
  · exact Kept.refl c
  · split
    · exact Kept.refl c
    · rename_i c1 ms h; exact kept_iter h

theorem kept_distinctColl (now : Int) (c : Coll) (key : String) (f : Val) :
    Kept c (distinctColl now c key f).1 := by
  unfold distinctColl
  have := kept_findColl now c f
  split
  · rename_i c1 e h; rw [h] at this; exact this
  · rename_i c1 ms h; rw [h] at this; exact this

theorem kept_findOneColl (now : Int) (c : Coll) (f proj : Val) (sort : Option SortSpec) :
    Kept c (findOneColl now c f proj sort).1 := by
  unfold findOneColl
  simp only
  split
  · exact Kept.refl c
  · rename_i c1 ms h; exact kept_iter h

/-! ### indexes -/

theorem kept_createIndexColl (now : Int) (c : Coll) (ix : Index) :
    Kept c (createIndexColl now c ix).1 := by
  have hgo : Kept c (createIndexColl.go now c ix).1 := by
    unfold createIndexColl.go
    simp only
    split
    · unfold refusedCreate
      split
      · split
        · rename_i c1 h; exact kept_expire h
        · exact Kept.refl c
      · exact Kept.refl c
    · split <;> exact .inl rfl
  unfold createIndexColl
  split
  · split
    · exact Kept.refl c
    · exact hgo
  · exact hgo

theorem kept_dropIndexColl (now : Int) (c : Coll) (name : String) :
    Kept c (dropIndexColl now c name).1 := by
  unfold dropIndexColl
  split
  · exact Kept.refl c
  · rename_i c1 h
    refine (kept_expire h).trans ?_
    split
    · exact .inr ⟨rfl, id, sublist_ne_nil List.filter_sublist⟩
    · exact Kept.refl c1

theorem kept_dropIndexesColl (c : Coll) : Kept c (dropIndexesColl c) :=
  .inr ⟨rfl, id, fun h => absurd rfl h⟩

theorem recorded_dropColl (c : Coll) : (dropColl c).Recorded := by
  intro h; rcases h with h | h <;> exact absurd rfl h

/-! ### the step functions -/

theorem recorded_stepColl (cfg : Cfg) (now : Int) (c : Coll) (op : Val) (hr : c.Recorded) :
    (stepColl cfg now c op).1.Recorded := by
  unfold stepColl
  split
  · -- insert_one
    split
    · split
      · rename_i c' id h; exact recorded_of_flag (insertDoc_flag h)
      · exact (kept_insertRejected now c _).recorded hr
    · exact hr
  · -- insert_many
    split
    · exact hr
    · split
      · exact hr
      · exact (kept_insertManyLoop now _ _ _ _ _ _ _).recorded hr
  · split
    · exact hr
    · exact (kept_applyUpdateColl cfg now c _ _ _ _).recorded hr
  · split
    · exact hr
    · exact (kept_applyUpdateColl cfg now c _ _ _ _).recorded hr
  · split
    · exact hr
    · exact (kept_applyUpdateColl cfg now c _ _ _ _).recorded hr
  · exact (kept_deleteColl now c _ _).recorded hr
  · exact (kept_deleteColl now c _ _).recorded hr
  · exact (kept_findColl now c _).recorded hr
  · exact (kept_countColl now c _ _ _).recorded hr
  · exact (kept_distinctColl now c _ _).recorded hr
  · split
    · exact hr
    · exact (kept_createIndexColl now c _).recorded hr
  · exact (kept_dropIndexColl now c _).recorded hr
  · exact (kept_dropIndexesColl c).recorded hr
  · exact recorded_dropColl c
  · exact hr

/-- the basic entry points keep existence recorded -/
theorem pres (cfg : Cfg) : Pres cfg Coll.Recorded Coll.Recorded where
  weaken := fun _ h => h
  findP := fun now c f proj sort h => (kept_findOneColl now c f proj sort).recorded h
  findQ := fun now c f proj sort h => (kept_findOneColl now c f proj sort).recorded h
  del := fun now c f multi h => (kept_deleteColl now c f multi).recorded h
  upd := fun now c f u up multi h => (kept_applyUpdateColl cfg now c f u up multi).recorded h
  step := fun now c op h => recorded_stepColl cfg now c op h

/-- every operation of the extended step keeps existence recorded -/
theorem recorded_stepX (cfg : Cfg) (now : Int) (c : Coll) (op : Val) (hr : c.Recorded) :
    (stepX cfg now c op).1.Recorded :=
  stepX_pres (pres cfg) (fun _ => True) (fun _ h _ => h) now c op hr (fun _ _ => trivial)

theorem recorded_stepXS (cfg : Cfg) (s : St) (op : Val) (hr : s.c.Recorded) :
    (stepXS cfg s op).1.c.Recorded :=
  stepXS_pres (pres cfg) (fun _ => True) (fun _ h _ => h) s op hr (fun _ _ => trivial)

theorem recorded_observe (s : St) (hr : s.c.Recorded) : (observe s).1.c.Recorded := by
  unfold observe
  split
  · rename_i c' h; exact (kept_expire h).recorded hr
  · exact hr

theorem recorded_empty : (({} : St).c).Recorded := by
  intro h; rcases h with h | h <;> exact absurd rfl h

/-- existence is recorded in the final state of every history -/
theorem recorded_history (cfg : Cfg) (ops : List Val) (s : St) (hr : s.c.Recorded) :
    (runStX cfg ops s).c.Recorded :=
  history_pres (pres cfg) (fun _ => True) (fun _ h _ => h)
    (fun s h => recorded_observe s h) ops s hr (fun _ _ => trivial)

/-- ... of every history the correspondence harness drives (`runX` from the empty collection) -/
theorem recorded_runX (cfg : Cfg) (ops : List Val) : (runX cfg ops).2.c.Recorded := by
  rw [runX_snd]
  exact recorded_history cfg ops {} recorded_empty

end MongoModel.Proofs.Recorded
