/-
  Proofs.C02Basic — association-list lemmas, `$set` along a path (`set_get`, `set_total`),
  the top-level frame of a single-field updater.
-/
import Spec.UpdateSpec
import Spec.StoreInv

set_option linter.unusedSimpArgs false
set_option linter.unusedVariables false

namespace MongoModel.Proofs.C02Lemmas
open MongoModel MongoModel.Spec

/-! ### association lists -/

theorem dget_dset_same (k : String) (v : Val) : ∀ fs : Fields, dget k (dset k v fs) = some v
  | [] => by simp [dset, dget]
  | (k', v') :: r => by
    simp only [dset]
    split
    · simp [dget]
    · rename_i ne; simp [dget, ne, dget_dset_same k v r]

theorem dget_dset_other {k p : String} (v : Val) (h : k ≠ p) :
    ∀ fs : Fields, dget k (dset p v fs) = dget k fs
  | [] => by
    have : ¬ p = k := fun e => h e.symm
    simp [dset, dget, this]
  | (k', v') :: r => by
    simp only [dset]
    split
    · rename_i e; subst e
      have : ¬ k' = k := fun e => h e.symm
      simp [dget, this]
    · simp only [dget, dget_dset_other v h r]

theorem dget_derase_other {k p : String} (h : k ≠ p) :
    ∀ fs : Fields, dget k (derase p fs) = dget k fs
  | [] => by simp [derase]
  | (k', v') :: r => by
    simp only [derase]
    split
    · rename_i e; subst e
      have : ¬ k' = k := fun e => h e.symm
      simp [dget, this]
    · simp only [dget, dget_derase_other h r]

theorem dkeys_dset_filter (p : String) (v : Val) :
    ∀ fs : Fields, (dkeys (dset p v fs)).filter (· ≠ p) = (dkeys fs).filter (· ≠ p)
  | [] => by simp [dset, dkeys]
  | (k', v') :: r => by
    simp only [dset]
    split
    · rename_i e; subst e; simp [dkeys]
    · have ih := dkeys_dset_filter p v r
      simp only [dkeys] at ih
      simp only [dkeys, List.map_cons, List.filter_cons, ih]

theorem dkeys_derase_filter (p : String) :
    ∀ fs : Fields, (dkeys (derase p fs)).filter (· ≠ p) = (dkeys fs).filter (· ≠ p)
  | [] => by simp [derase]
  | (k', v') :: r => by
    simp only [derase]
    split
    · rename_i e; subst e; simp [dkeys]
    · have ih := dkeys_derase_filter p r
      simp only [dkeys] at ih
      simp only [dkeys, List.map_cons, List.filter_cons, ih]

theorem dget_none_iff {k : String} : ∀ {fs : Fields}, dget k fs = none ↔ k ∉ dkeys fs
  | [] => by simp [dget, dkeys]
  | (k', v') :: r => by
    have ih := @dget_none_iff k r
    simp only [dget, dkeys, List.map_cons, List.mem_cons, not_or] at ih ⊢
    split
    · rename_i e; subst e; simp
    · rename_i ne
      have : ¬ k = k' := fun e => ne e.symm
      simp [this, ih]

theorem dget_derase_self {k : String} :
    ∀ {fs : Fields}, (dkeys fs).count k ≤ 1 → dget k (derase k fs) = none
  | [], _ => by simp [derase, dget]
  | (k', v') :: r, h => by
    simp only [derase]
    split
    · rename_i e; subst e
      simp only [dkeys, List.map_cons, List.count_cons_self] at h
      have h0 : (dkeys r).count k' = 0 := by simp only [dkeys]; omega
      exact dget_none_iff.mpr (List.count_eq_zero.mp h0)
    · rename_i ne
      have hc : (dkeys r).count k ≤ 1 := by
        simp only [dkeys, List.map_cons] at h
        rw [List.count_cons_of_ne (by exact ne)] at h
        exact h
      simp [dget, ne, dget_derase_self hc]

theorem dset_absent {k : String} (v : Val) : ∀ {fs : Fields}, k ∉ dkeys fs → dset k v fs = fs ++ [(k, v)]
  | [], _ => rfl
  | (k', v') :: r, h => by
    simp only [dkeys, List.map_cons, List.mem_cons, not_or] at h
    have ne : ¬ k' = k := fun e => h.1 e.symm
    simp only [dset, ne, if_false, List.cons_append]
    rw [dset_absent v (fs := r) h.2]

end MongoModel.Proofs.C02Lemmas

namespace MongoModel.Proofs.C02Lemmas
open MongoModel MongoModel.Spec

/-! ### unfolding `updateSingleField` -/

theorem usf_last (u : Updater) (now v : Val) (last : String) (d : Val) :
    updateSingleField u now v [last] d = runUpdater u now d last v := by
  rw [updateSingleField]

theorem usf_doc (u : Updater) (now v : Val) (part q : String) (rest : List String) (fs : Fields) :
    updateSingleField u now v (part :: q :: rest) (.doc fs) =
      (match dget part fs with
       | some sub => (updateSingleField u now v (q :: rest) sub).bind
           (fun sub' => .ok (.doc (dset part sub' fs)))
       | none => if u = .unset || u = .pop then .ok (.doc fs)
         else (updateSingleField u now v (q :: rest) (.doc [])).bind
           (fun sub' => .ok (.doc (dset part sub' fs)))) := by
  rw [updateSingleField]
  · rfl
  · simp

theorem usf_arr (u : Updater) (now v : Val) (part q : String) (rest : List String) (xs : List Val) :
    updateSingleField u now v (part :: q :: rest) (.arr xs) =
      (if part = "$" then unmodelled
       else match pyInt? part with
         | some i =>
           if i < 0 then unmodelled
           else match xs[i.toNat]? with
             | some sub => (updateSingleField u now v (q :: rest) sub).bind
                 (fun sub' => .ok (.arr (xs.set i.toNat sub')))
             | none => .error .indexErr
         | none => updateSingleField u now v (q :: rest) (.arr xs)) := by
  rw [updateSingleField]
  · rfl
  · simp

theorem usf_other (u : Updater) (now v : Val) (part q : String) (rest : List String) (d : Val)
    (h1 : ∀ fs, d ≠ .doc fs) (h2 : ∀ xs, d ≠ .arr xs) :
    updateSingleField u now v (part :: q :: rest) d = .ok d := by
  cases d <;> first | exact absurd rfl (h1 _) | exact absurd rfl (h2 _) |
    (rw [updateSingleField] <;> simp)

/-- every path is writable in the empty document: everything is created -/
theorem writable_empty : ∀ (ps : List String), writable ps (.doc []) = true
  | [] => by simp [writable]
  | [p] => by simp [writable]
  | p :: q :: rest => by
    rw [writable.eq_5 _ _ _ (by simp)]
    simp [dget]

theorem listSetPad_get (xs : List Val) (i : Nat) (v : Val) : (listSetPad xs i v)[i]? = some v := by
  unfold listSetPad
  split
  · rename_i h; simp [List.getElem?_set, h]
  · rename_i h
    have : (xs ++ List.replicate (i - xs.length) Val.null).length = i := by
      simp; omega
    rw [List.getElem?_append_right (by omega)]
    simp [this]

theorem set_get_total (now v : Val) : ∀ (parts : List String) (d : Val), parts ≠ [] →
    writable parts d = true →
    ∃ d', updateSingleField .set now v parts d = .ok d' ∧ getPath parts d' = some v
  | [], _, hp, _ => absurd rfl hp
  | [p], d, _, hw => by
    rw [usf_last]
    cases d with
    | doc fs => exact ⟨_, rfl, by simp [getPath, dget_dset_same]⟩
    | arr xs =>
      rw [writable.eq_3] at hw
      cases hi : pyInt? p with
      | none => simp [hi] at hw
      | some i =>
        simp only [hi, decide_eq_true_eq] at hw
        have hneg : ¬ i < 0 := by omega
        refine ⟨.arr (listSetPad xs i.toNat v), ?_, ?_⟩
        · simp [runUpdater, listIndex, hi, hneg, bind, Except.bind, pure, Except.pure]
        · simp [getPath, hi, hneg, listSetPad_get]
    | _ => simp [writable] at hw
  | p :: q :: rest, d, _, hw => by
    cases d with
    | doc fs =>
      rw [writable.eq_5 _ _ _ (by simp)] at hw
      rw [usf_doc]
      cases hg : dget p fs with
      | some sub =>
        simp only [hg] at hw
        obtain ⟨sub', h1, h2⟩ := set_get_total now v (q :: rest) sub (by simp) hw
        refine ⟨.doc (dset p sub' fs), by simp [h1, Except.bind], ?_⟩
        rw [getPath.eq_2, dget_dset_same]; exact h2
      | none =>
        obtain ⟨sub', h1, h2⟩ := set_get_total now v (q :: rest) (.doc []) (by simp)
          (writable_empty _)
        refine ⟨.doc (dset p sub' fs), by simp [h1, Except.bind], ?_⟩
        rw [getPath.eq_2, dget_dset_same]; exact h2
    | arr xs =>
      rw [writable.eq_6 _ _ _ (by simp)] at hw
      rw [usf_arr]
      cases hi : pyInt? p with
      | none => simp [hi] at hw
      | some i =>
        simp only [hi] at hw
        by_cases hneg : i < 0
        · simp [hneg] at hw
        · simp only [hneg, if_false] at hw
          cases hx : xs[i.toNat]? with
          | none => simp [hx] at hw
          | some sub =>
            simp only [hx] at hw
            obtain ⟨sub', h1, h2⟩ := set_get_total now v (q :: rest) sub (by simp) hw
            have hd : p ≠ "$" := by
              intro e; subst e
              have : pyInt? "$" = none := by decide +kernel
              rw [this] at hi; cases hi
            have hlt : i.toNat < xs.length := by
              rcases List.getElem?_eq_some_iff.mp hx with ⟨hl, _⟩; exact hl
            refine ⟨.arr (xs.set i.toNat sub'), by simp [hd, hneg, hx, h1, Except.bind], ?_⟩
            rw [getPath.eq_3]
            simp [hi, hneg, List.getElem?_set, hlt, h2]
    | _ => simp [writable] at hw
  termination_by parts => parts.length

end MongoModel.Proofs.C02Lemmas

namespace MongoModel.Proofs.C02Lemmas
open MongoModel MongoModel.Spec

/-! ### the top-level frame -/

/-- `fs'` is `fs` edited at most at the top-level key `p` -/
def Touch (p : String) (fs fs' : Fields) : Prop :=
  fs' = fs ∨ (∃ x, fs' = dset p x fs) ∨ fs' = derase p fs

theorem Touch.dget {p : String} {fs fs' : Fields} (h : Touch p fs fs') {k : String} (hk : k ≠ p) :
    dget k fs' = dget k fs := by
  rcases h with rfl | ⟨x, rfl⟩ | rfl
  · rfl
  · exact dget_dset_other x hk fs
  · exact dget_derase_other hk fs

theorem Touch.keys {p : String} {fs fs' : Fields} (h : Touch p fs fs') :
    (dkeys fs').filter (· ≠ p) = (dkeys fs).filter (· ≠ p) := by
  rcases h with rfl | ⟨x, rfl⟩ | rfl
  · rfl
  · exact dkeys_dset_filter p x fs
  · exact dkeys_derase_filter p fs

theorem runUpdater_doc_touch (u : Updater) (now v : Val) (p : String) (fs : Fields) (d' : Val)
    (h : runUpdater u now (.doc fs) p v = .ok d') : ∃ fs', d' = .doc fs' ∧ Touch p fs fs' := by
  cases u
  · -- set
    simp only [runUpdater] at h; cases h
    exact ⟨_, rfl, .inr (.inl ⟨_, rfl⟩)⟩
  · simp only [runUpdater] at h; cases h
    exact ⟨_, rfl, .inr (.inr rfl)⟩
  · simp only [runUpdater, bind, Except.bind, pure, Except.pure] at h
    split at h
    · cases h
    · cases h; exact ⟨_, rfl, .inr (.inl ⟨_, rfl⟩)⟩
  · simp only [runUpdater, bind, Except.bind, pure, Except.pure] at h
    split at h
    · cases h
    · cases h; exact ⟨_, rfl, .inr (.inl ⟨_, rfl⟩)⟩
  · simp only [runUpdater, bind, Except.bind, pure, Except.pure] at h
    split at h
    · cases h
    · cases h; exact ⟨_, rfl, .inr (.inl ⟨_, rfl⟩)⟩
  · -- pop
    simp only [runUpdater, bind, Except.bind, pure, Except.pure] at h
    split at h
    · cases h
    · split at h
      · cases h; exact ⟨_, rfl, .inl rfl⟩
      · cases h; exact ⟨_, rfl, .inr (.inl ⟨_, rfl⟩)⟩
      · cases h
  · simp only [runUpdater] at h
    split at h
    · cases h
    · cases h; exact ⟨_, rfl, .inr (.inl ⟨_, rfl⟩)⟩

theorem usf_doc_touch (u : Updater) (now v : Val) (p : String) (rest : List String) (fs : Fields)
    (d' : Val) (h : updateSingleField u now v (p :: rest) (.doc fs) = .ok d') :
    ∃ fs', d' = .doc fs' ∧ Touch p fs fs' := by
  cases rest with
  | nil => rw [usf_last] at h; exact runUpdater_doc_touch u now v p fs d' h
  | cons q rest =>
    rw [usf_doc] at h
    split at h
    · cases h1 : updateSingleField u now v (q :: rest) _ with
      | error e => rw [h1] at h; cases h
      | ok sub' =>
        rw [h1] at h; cases h
        exact ⟨_, rfl, .inr (.inl ⟨_, rfl⟩)⟩
    · split at h
      · cases h; exact ⟨_, rfl, .inl rfl⟩
      · cases h1 : updateSingleField u now v (q :: rest) _ with
        | error e => rw [h1] at h; cases h
        | ok sub' =>
          rw [h1] at h; cases h
          exact ⟨_, rfl, .inr (.inl ⟨_, rfl⟩)⟩

end MongoModel.Proofs.C02Lemmas
