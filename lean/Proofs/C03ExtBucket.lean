/-
  Proofs.C03ExtBucket — `$bucket` against the oracle `specBucketStage` of Spec/PipelineExt.lean on
  the domain `bucketReasons = []`: the bisection of `_get_bucket_id` finds the boundary `bᵢ` with
  `bᵢ ≤ x < bᵢ₊₁`, the sort on `(is_default_last, id)` is the sort on the id in the BSON order,
  and the runs of `itertools.groupby` are the groups of a `$group` on the bucket id.
-/
import Proofs.C03ExtGroup
import Proofs.C03Bucket

namespace MongoModel.Pipe.Proofs
open MongoModel MongoModel.Pipe MongoModel.Spec MongoModel.Spec.Pipe MongoModel.Spec.Order
  MongoModel.Proofs.C11 MongoModel.Expr

/-! ### the order on numbers -/

theorem valLt_trans {a b c : Val} (h1 : valLt a b = true) (h2 : valLt b c = true) :
    valLt a c = true := by
  cases h : valLt a c with
  | true => rfl
  | false =>
    have h3 : valLt c b = false := strictWeak_valLt.asymm b c h2
    have := strictWeak_valLt.negTrans b c a h3 h
    rw [h1] at this; cases this

/-- `a < b`, `¬ d < b` ("b ≤ d") give `a < d` -/
theorem valLt_of_lt_of_le {a b d : Val} (h1 : valLt a b = true) (h2 : valLt d b = false) :
    valLt a d = true := by
  cases h : valLt a d with
  | true => rfl
  | false =>
    have := strictWeak_valLt.negTrans b d a h2 h
    rw [h1] at this; cases this

theorem isNumber_ok (v : Val) (h : v.isNumber = true) : groupKeyOk v = true := by
  cases v <;> simp_all [Val.isNumber, groupKeyOk]

theorem int_le_not_lt (a b : Int) : decide (b ≤ a) = !decide (a < b) := by
  by_cases h : a < b
  · have : ¬ b ≤ a := by omega
    simp [h, this]
  · have : b ≤ a := by omega
    simp [h, this]

/-- Python's `<` / `<=` on two numbers are the BSON order -/
theorem num_cmp (x y : Val) (hx : x.isNumber = true) (hy : y.isNumber = true) :
    ∃ nx ny, x.num? = some nx ∧ y.num? = some ny ∧ Num.lt nx ny = valLt x y ∧
      Num.le ny nx = !valLt x y := by
  rcases x with _ | _ | x | ⟨m, e⟩ | _ | _ | _ | _ | _ <;> simp [Val.isNumber] at hx <;>
  rcases y with _ | _ | y | ⟨m', e'⟩ | _ | _ | _ | _ | _ <;> simp [Val.isNumber] at hy <;>
  refine ⟨_, _, rfl, rfl, ?_, ?_⟩ <;>
  simp [valLt, typeOrder, Num.lt, Num.le] <;> exact int_le_not_lt _ _

/-! ### the bisection finds the boundary `bᵢ ≤ x < bᵢ₊₁` -/

/-- `bisect_right` on ascending boundaries: the number of boundaries `≤ x` -/
def leCount (bs : List Val) (x : Val) : Nat := (bs.filter (fun b => !valLt x b)).length

theorem asc_filter_nil (x : Val) : ∀ (b : Val) (r : List Val), valLt x b = true →
    strictAsc (b :: r) = true → r.filter (fun c => !valLt x c) = []
  | _, [], _, _ => rfl
  | b, c :: r, hx, hs => by
    simp only [strictAsc, Bool.and_eq_true] at hs
    have hxc : valLt x c = true := valLt_trans hx hs.1
    simp only [List.filter_cons, hxc, Bool.not_true, Bool.false_eq_true, if_false]
    exact asc_filter_nil x c r hxc hs.2

theorem slot_eq (x : Val) : ∀ (bs : List Val), strictAsc bs = true →
    specSlot bs x =
      (if leCount bs x ≠ 0 ∧ leCount bs x < bs.length then bs[leCount bs x - 1]? else none)
  | [], _ => by simp [specSlot, leCount]
  | [b], _ => by
    have : leCount [b] x ≤ 1 := by
      simp only [leCount]; exact (List.length_filter_le _ _)
    simp only [specSlot, List.length_cons, List.length_nil]
    split
    · omega
    · rfl
  | b :: b' :: r, hs => by
    simp only [strictAsc, Bool.and_eq_true] at hs
    have ih := slot_eq x (b' :: r) hs.2
    cases hb : valLt x b with
    | true =>
      have h1 : (b' :: r).filter (fun c => !valLt x c) = [] :=
        asc_filter_nil x b (b' :: r) hb (by simp [strictAsc, hs.1, hs.2])
      have hc : leCount (b :: b' :: r) x = 0 := by
        simp only [leCount]
        rw [List.filter_cons]
        simp only [hb, Bool.not_true, Bool.false_eq_true, if_false, h1, List.length_nil]
      have hc' : leCount (b' :: r) x = 0 := by simp only [leCount, h1, List.length_nil]
      rw [specSlot]
      simp only [hb, Bool.not_true, Bool.false_and, Bool.false_eq_true, if_false]
      rw [ih, hc, hc']; simp
    | false =>
      cases hb' : valLt x b' with
      | true =>
        have h1 : r.filter (fun c => !valLt x c) = [] := asc_filter_nil x b' r hb' hs.2
        have hc : leCount (b :: b' :: r) x = 1 := by
          simp only [leCount, List.filter_cons, hb, hb', Bool.not_true, Bool.not_false,
            Bool.false_eq_true, if_false, if_true, h1, List.length_cons, List.length_nil]
        rw [specSlot]
        simp only [hb, hb', Bool.not_false, Bool.true_and, if_true]
        rw [hc]; simp
      | false =>
        have hc : leCount (b :: b' :: r) x = leCount (b' :: r) x + 1 := by
          simp only [leCount]
          rw [List.filter_cons]
          simp only [hb, Bool.not_false, if_true, List.length_cons]
        have hpos : leCount (b' :: r) x ≠ 0 := by
          simp only [leCount, List.filter_cons, hb', Bool.not_false, if_true, List.length_cons]
          omega
        rw [specSlot]
        simp only [hb, hb', Bool.not_false, Bool.true_and, Bool.false_eq_true, if_false]
        rw [ih, hc]
        obtain ⟨k, hk⟩ := Nat.exists_eq_succ_of_ne_zero hpos
        rw [hk]
        simp [List.length_cons]

theorem index_eq (bs : List Val) (v : Val) (nx : Num) (hb : ∀ b ∈ bs, b.isNumber = true)
    (hv : v.isNumber = true) (hn : v.num? = some nx) :
    (bs.filter (fun b => match b.num? with
                         | some y => Num.le y nx | none => false)).length = leCount bs v := by
  simp only [leCount]
  congr 1
  apply filter_congr_mem
  intro b hb'
  obtain ⟨nx', ny, h1, h2, _, h4⟩ := num_cmp v b hv (hb b hb')
  rw [hn] at h1; cases h1
  simp only [h2, h4]

theorem specSlot_mem_dropLast (x c : Val) : ∀ (bs : List Val), specSlot bs x = some c →
    c ∈ bs.dropLast
  | [], h => by simp [specSlot] at h
  | [_], h => by simp [specSlot] at h
  | b :: b' :: r, h => by
    rw [specSlot] at h
    rw [List.dropLast_cons₂]
    split at h
    · cases h; exact List.mem_cons_self
    · exact List.mem_cons_of_mem _ (specSlot_mem_dropLast x c (b' :: r) h)

theorem asc_dropLast_lt (hi : Val) : ∀ (bs : List Val), strictAsc bs = true →
    bs.getLast? = some hi → ∀ c ∈ bs.dropLast, valLt c hi = true
  | [], _, _, c, hc => by simp at hc
  | [_], _, _, c, hc => by simp at hc
  | b :: b' :: r, hs, hl, c, hc => by
    simp only [strictAsc, Bool.and_eq_true] at hs
    rw [List.dropLast_cons₂] at hc
    have hl' : (b' :: r).getLast? = some hi := by simpa [List.getLast?_cons_cons] using hl
    have hb'hi : valLt b' hi = true ∨ b' = hi := by
      cases r with
      | nil => right; simpa using hl'
      | cons b'' r' =>
        left
        exact asc_dropLast_lt hi (b' :: b'' :: r') hs.2 hl' b' (by rw [List.dropLast_cons₂]; exact List.mem_cons_self)
    rcases List.mem_cons.mp hc with rfl | hc
    · rcases hb'hi with h | h
      · exact valLt_trans hs.1 h
      · rw [← h]; exact hs.1
    · exact asc_dropLast_lt hi (b' :: r) hs.2 hl' c hc

theorem specSlot_null : ∀ (bs : List Val), (∀ b ∈ bs, b.isNumber = true) → specSlot bs .null = none
  | [], _ => rfl
  | [_], _ => rfl
  | b :: b' :: r, h => by
    have hb : valLt .null b = true := by
      have := h b List.mem_cons_self
      cases b <;> simp_all [Val.isNumber, valLt, typeOrder]
    rw [specSlot]
    simp only [hb, Bool.not_true, Bool.false_and, Bool.false_eq_true, if_false]
    exact specSlot_null (b' :: r) (fun c hc => h c (List.mem_cons_of_mem _ hc))

/-! ### a path is read the same way with and without `ignore_missing_keys` -/

theorem evalExprStrict_str (d : Val) (s : String) :
    evalExprStrict d (.str s) = evalExpr d (.str s) := by
  simp only [evalExprStrict, evalExpr]
  rw [eval, eval]
  simp only [evalBasic]
  cases strKind s <;> rfl

/-! ### the bucket of one document -/

/-- the ids the code carries with the flag `false`: the boundaries but the last, and a default
    that is not "last" -/
def lowIds (bs : List Val) (dflt : Option Val) (last : Bool) : List Val :=
  bs.dropLast ++ (match dflt with | some d => if last then [] else [d] | none => [])

/-- the default carried with the flag `true` -/
def topId (dflt : Option Val) (last : Bool) : Option Val :=
  match dflt with | some d => if last then some d else none | none => none

def Shape (L : List Val) (D : Option Val) (k : BKey) : Prop :=
  (k.1 = false ∧ k.2 ∈ L) ∨ (k.1 = true ∧ D = some k.2)

theorem shape_default (bs : List Val) (dflt : Option Val) (last : Bool) (k : Val)
    (h : dflt = some k) : Shape (lowIds bs dflt last) (topId dflt last) (last, k) := by
  subst h
  cases last with
  | true => right; simp [topId]
  | false => left; simp [lowIds]

theorem bucketId_num (c : BucketCfg) (d v : Val) (nx : Num) (idx : Nat)
    (hv : evalExprStrict d c.groupBy = .ok (some v)) (hx : v.num? = some nx)
    (hidx : (c.bounds.filter (fun b => match b.num? with
                                       | some y => Num.le y nx | none => false)).length = idx) :
    bucketId c d =
      (if idx ≠ 0 && idx < c.bounds.length then
        (match c.bounds[idx - 1]? with
         | some b => .ok (false, b)
         | none => unmodelled)
       else match c.default with
         | some dv => .ok (c.defaultLast, dv)
         | none => .error .opFail) := by
  subst hidx
  unfold bucketId
  simp only [hv, hx]
  rfl

theorem bucketId_missing (c : BucketCfg) (d : Val)
    (hv : evalExprStrict d c.groupBy = .ok none) :
    bucketId c d = (match c.default with
         | some dv => .ok (c.defaultLast, dv)
         | none => .error .opFail) := by
  unfold bucketId
  simp only [hv]
  rfl

theorem bucketId_eq_spec (a : BucketArgs) (last : Bool) (d k : Val) (s : String)
    (hgb : a.groupBy = .str s)
    (hb : ∀ b ∈ a.bounds, b.isNumber = true) (hasc : strictAsc a.bounds = true)
    (hE : exprReasons a.groupBy d = [])
    (hV : ∀ r, exprValue a.groupBy d = some r → bucketValueReasons r = [])
    (hk : specBucketKey a d = some k) :
    ∃ f, bucketId ⟨a.groupBy, a.bounds, a.default, last⟩ d = .ok (f, k) ∧
      Shape (lowIds a.bounds a.default last) (topId a.default last) (f, k) := by
  unfold specBucketKey at hk
  cases hv : exprValue a.groupBy d with
  | none => simp [hv] at hk
  | some r =>
    simp only [hv, Option.bind_some] at hk
    have hVr := hV r hv
    have hev : evalExprStrict d a.groupBy = .ok r := by
      rw [hgb, evalExprStrict_str, ← hgb, evalExpr_of_reasons _ _ hE]
      exact exprValue_some _ _ _ hv
    -- the default bucket
    have dfl : specSlot a.bounds (r.getD .null) = none →
        ∃ f, (match a.default with
              | some v => (.ok (last, v) : R BKey)
              | none => .error .opFail) = .ok (f, k) ∧
          Shape (lowIds a.bounds a.default last) (topId a.default last) (f, k) := by
      intro hn
      simp only [hn] at hk
      refine ⟨last, ?_, shape_default _ _ _ _ hk⟩
      rw [hk]
    cases r with
    | none =>
      rw [bucketId_missing ⟨a.groupBy, a.bounds, a.default, last⟩ d hev]
      exact dfl (specSlot_null _ hb)
    | some v =>
      have hnum : v.isNumber = true := by
        cases v <;> simp_all [bucketValueReasons, Val.isNumber]
      obtain ⟨nx, _, hnx, _, _, _⟩ := num_cmp v v hnum hnum
      rw [bucketId_num ⟨a.groupBy, a.bounds, a.default, last⟩ d v nx (leCount a.bounds v) hev hnx
        (index_eq a.bounds v nx hb hnum hnx)]
      have hslot := slot_eq v a.bounds hasc
      simp only [Option.getD_some] at hk dfl
      by_cases hc : leCount a.bounds v ≠ 0 ∧ leCount a.bounds v < a.bounds.length
      · rw [if_pos hc] at hslot
        have hcb : (decide (leCount a.bounds v ≠ 0) && decide (leCount a.bounds v < a.bounds.length)) = true := by
          simp [hc.1, hc.2]
        cases hg : a.bounds[leCount a.bounds v - 1]? with
        | none =>
          have := List.getElem?_eq_none_iff.mp hg
          omega
        | some b =>
          rw [hg] at hslot
          simp only [hslot, Option.some.injEq] at hk
          subst hk
          refine ⟨false, ?_, Or.inl ⟨rfl, ?_⟩⟩
          · simp only [hcb, if_true, hg]
          · exact List.mem_append_left _ (specSlot_mem_dropLast v b a.bounds hslot)
      · rw [if_neg hc] at hslot
        obtain ⟨f, h1, h2⟩ := dfl hslot
        refine ⟨f, ?_, h2⟩
        rw [← h1]
        have hcb : (decide (leCount a.bounds v ≠ 0) && decide (leCount a.bounds v < a.bounds.length)) = false := by
          cases hx : (decide (leCount a.bounds v ≠ 0) && decide (leCount a.bounds v < a.bounds.length)) with
          | false => rfl
          | true =>
            simp only [Bool.and_eq_true, decide_eq_true_eq] at hx
            exact absurd hx hc
        simp only [hcb, Bool.false_eq_true, if_false]

/-! ### every document -/

def strip (p : BKey × Val) : Val × Val := (p.1.2, p.2)

theorem bucketKeyed_eq_spec (a : BucketArgs) (last : Bool) (s : String)
    (hgb : a.groupBy = .str s)
    (hb : ∀ b ∈ a.bounds, b.isNumber = true) (hasc : strictAsc a.bounds = true) :
    ∀ (docs : List Val) (kds : List (Val × Val)),
    (∀ d ∈ docs, exprReasons a.groupBy d = []) →
    (∀ d ∈ docs, ∀ r, exprValue a.groupBy d = some r → bucketValueReasons r = []) →
    specBucketKeyed a docs = some kds →
    ∃ kb : List (BKey × Val),
      bucketKeyed ⟨a.groupBy, a.bounds, a.default, last⟩ docs = .ok kb ∧ kb.map strip = kds ∧
      ∀ p ∈ kb, Shape (lowIds a.bounds a.default last) (topId a.default last) p.1
  | [], kds, _, _, h => by
    simp [specBucketKeyed, mapOpt] at h; subst h
    exact ⟨[], rfl, rfl, by simp⟩
  | d :: ds, kds, hE, hV, h => by
    obtain ⟨y, r, h1, h2, rfl⟩ := mapOpt_cons_some h
    obtain ⟨kb, i1, i2, i3⟩ := bucketKeyed_eq_spec a last s hgb hb hasc ds r
      (fun x hx => hE x (List.mem_cons_of_mem _ hx)) (fun x hx => hV x (List.mem_cons_of_mem _ hx)) h2
    cases hk : specBucketKey a d with
    | none => simp [hk] at h1
    | some k =>
      simp only [hk, Option.map_some, Option.some.injEq] at h1
      subst h1
      obtain ⟨f, j1, j2⟩ := bucketId_eq_spec a last d k s hgb hb hasc (hE d List.mem_cons_self)
        (hV d List.mem_cons_self) hk
      refine ⟨((f, k), d) :: kb, ?_, ?_, ?_⟩
      · simp only [bucketKeyed, j1, i1]
      · simp only [List.map_cons, strip, i2]
      · intro p hp
        rcases List.mem_cons.mp hp with rfl | hp
        · exact j2
        · exact i3 p hp

/-! ### the sort on `(is_default_last, id)` is the sort on the id -/

section order
variable {L : List Val} {D : Option Val}
  (hL : ∀ c ∈ L, c.isNumber = true)
  (hLD : ∀ c ∈ L, ∀ t, D = some t → valLt c t = true)
  (hDok : ∀ t, D = some t → groupKeyOk t = true)
include hL hLD hDok

theorem shape_ok (k : BKey) (h : Shape L D k) : groupKeyOk k.2 = true := by
  rcases h with ⟨_, h⟩ | ⟨_, h⟩
  · exact isNumber_ok _ (hL _ h)
  · exact hDok _ h

theorem bkeyLt_shape (a b : BKey × Val) (ha : Shape L D a.1) (hb : Shape L D b.1) :
    bkeyLt a b = .ok (valLt a.1.2 b.1.2) := by
  obtain ⟨⟨fa, ka⟩, da⟩ := a
  obtain ⟨⟨fb, kb⟩, db⟩ := b
  simp only [Shape] at ha hb
  rcases ha with ⟨rfl, ha⟩ | ⟨rfl, ha⟩ <;> rcases hb with ⟨rfl, hb⟩ | ⟨rfl, hb⟩
  · obtain ⟨nx, ny, hx, hy, hlt, _⟩ := num_cmp ka kb (hL _ ha) (hL _ hb)
    have ht := pyEq_eq_tie ka kb (isNumber_ok _ (hL _ ha)) (isNumber_ok _ (hL _ hb))
    simp only [bkeyLt, ne_eq, not_true_eq_false, if_false, hx, hy]
    cases hp : pyEq ka kb with
    | true =>
      rw [hp] at ht
      have ht' : tie valLt ka kb = true := ht.symm
      have : valLt ka kb = false := by
        simp only [tie, Bool.and_eq_true, Bool.not_eq_true'] at ht'
        exact ht'.1
      simp [this]
    | false => simp [hlt]
  · have := hLD _ ha _ hb
    simp [bkeyLt, this]
  · have := strictWeak_valLt.asymm _ _ (hLD _ hb _ ha)
    simp [bkeyLt, this]
  · have e : ka = kb := by rw [ha] at hb; exact (Option.some.inj hb)
    subst e
    have hk := hDok _ ha
    have ht := pyEq_eq_tie ka ka hk hk
    rw [tie_self strictWeak_valLt] at ht
    simp [bkeyLt, ht, strictWeak_valLt.irrefl]

theorem bkeyEq_shape (a b : BKey) (ha : Shape L D a) (hb : Shape L D b) :
    bkeyEq a b = pyEq a.2 b.2 := by
  have hka := shape_ok hL hLD hDok a ha
  have hkb := shape_ok hL hLD hDok b hb
  obtain ⟨fa, ka⟩ := a
  obtain ⟨fb, kb⟩ := b
  simp only [Shape] at ha hb
  rcases ha with ⟨rfl, ha⟩ | ⟨rfl, ha⟩ <;> rcases hb with ⟨rfl, hb⟩ | ⟨rfl, hb⟩
  · simp [bkeyEq]
  · have h1 := hLD _ ha _ hb
    have ht := pyEq_eq_tie ka kb hka hkb
    simp only [tie, h1, Bool.not_true, Bool.false_and] at ht
    simp [bkeyEq, ht]
  · have h1 := hLD _ hb _ ha
    have ht := pyEq_eq_tie ka kb hka hkb
    simp only [tie, h1, Bool.not_true, Bool.and_false] at ht
    simp [bkeyEq, ht]
  · simp [bkeyEq]

theorem bucket_sort_eq (kb : List (BKey × Val)) (hS : ∀ p ∈ kb, Shape L D p.1) :
    pySorted bkeyLt false kb =
      .ok (isort (fun a b : BKey × Val => valLt a.1.2 b.1.2) kb) := by
  have hok : pairsOk bkeyLt kb = true := by
    apply pairsOk_of
    intro a ha b hb
    rw [bkeyLt_shape hL hLD hDok a b (hS a ha) (hS b hb)]; rfl
  simp only [pySorted, hok, if_true, Bool.false_eq_true, if_false]
  congr 1
  apply isort_congr
  intro a ha b hb
  rw [bkeyLt_shape hL hLD hDok a b (hS a ha) (hS b hb)]
  cases valLt a.1.2 b.1.2 <;> rfl

theorem bucketGo_eq_groupGo (cur : BKey) (hc : Shape L D cur) :
    ∀ (acc : List Val) (l : List (BKey × Val)), (∀ p ∈ l, Shape L D p.1) →
    bucketGo cur acc l = groupGo cur.2 acc (l.map strip)
  | acc, [], _ => rfl
  | acc, (k, d) :: rest, h => by
    have hk := h (k, d) List.mem_cons_self
    have hr : ∀ p ∈ rest, Shape L D p.1 := fun p hp => h p (List.mem_cons_of_mem _ hp)
    simp only [bucketGo, List.map_cons, strip, groupGo, bkeyEq_shape hL hLD hDok cur k hc hk]
    split
    · exact bucketGo_eq_groupGo cur hc (d :: acc) rest hr
    · rw [bucketGo_eq_groupGo k hk [d] rest hr]

theorem bucketRuns_eq_groupRuns : ∀ (l : List (BKey × Val)), (∀ p ∈ l, Shape L D p.1) →
    bucketRuns l = groupRuns (l.map strip)
  | [], _ => rfl
  | (k, d) :: rest, h => by
    simp only [bucketRuns, List.map_cons, strip, groupRuns]
    exact bucketGo_eq_groupGo hL hLD hDok k (h (k, d) List.mem_cons_self) [d] rest
      (fun p hp => h p (List.mem_cons_of_mem _ hp))

end order

theorem insertBy_map {α β} (f : α → β) (lt : β → β → Bool) (x : α) : ∀ (l : List α),
    (insertBy (fun a b => lt (f a) (f b)) x l).map f = insertBy lt (f x) (l.map f)
  | [] => rfl
  | y :: ys => by
    simp only [insertBy, List.map_cons]
    split
    · simp only [List.map_cons, insertBy_map f lt x ys]
    · rfl

theorem isort_map {α β} (f : α → β) (lt : β → β → Bool) : ∀ (l : List α),
    (isort (fun a b => lt (f a) (f b)) l).map f = isort lt (l.map f)
  | [] => rfl
  | x :: xs => by
    simp only [isort, List.map_cons, insertBy_map, isort_map f lt xs]

/-! ### the options -/

/-- `is_default_last` -/
def lastOf (dflt : Option Val) (bs : List Val) : Bool :=
  match dflt, bs.getLast? with
  | some v, some b =>
    (match v.num?, b.num? with
     | some x, some y => Num.le y x
     | _, _ => true)
  | _, _ => true

theorem sortedNums_of_strictAsc : ∀ (bs : List Val), (∀ b ∈ bs, b.isNumber = true) →
    strictAsc bs = true → sortedNums (bs.filterMap Val.num?) = true
  | [], _, _ => rfl
  | [b], h, _ => by
    obtain ⟨nb, _, hb, _, _, _⟩ := num_cmp b b (h b List.mem_cons_self) (h b List.mem_cons_self)
    simp [List.filterMap_cons, hb, sortedNums]
  | b :: b' :: r, h, hs => by
    simp only [strictAsc, Bool.and_eq_true] at hs
    have ih := sortedNums_of_strictAsc (b' :: r) (fun c hc => h c (List.mem_cons_of_mem _ hc)) hs.2
    obtain ⟨nb', nb, hb', hb, _, hle⟩ := num_cmp b' b (h b' (by simp)) (h b List.mem_cons_self)
    have := strictWeak_valLt.asymm _ _ hs.1
    rw [this] at hle
    simp only [List.filterMap_cons, hb, hb'] at ih ⊢
    simp only [sortedNums, hle, Bool.not_false, Bool.true_and]
    exact ih

/-- the stage once the oracle has read its options: the code has accepted them too -/
theorem bucketStage_args (opts : Val) (a : BucketArgs) (docs : List Val)
    (h : bucketArgs opts = some a) :
    (∀ b ∈ a.bounds, b.isNumber = true) ∧ strictAsc a.bounds = true ∧ 2 ≤ a.bounds.length ∧
    bucketStage opts docs =
      (match bucketKeyed ⟨a.groupBy, a.bounds, a.default, lastOf a.default a.bounds⟩ docs with
       | .error e => .error e
       | .ok kds =>
         match pySorted bkeyLt false kds with
         | .error e => .error e
         | .ok sorted => emitGroups a.output (bucketRuns sorted)) := by
  cases opts with
  | doc o =>
    simp only [bucketArgs] at h
    split at h
    · cases h
    · rename_i hunk
      split at h
      · rename_i gb bs hgb hbs
        split at h
        · cases h
        · rename_i hchk
          simp only [Bool.or_eq_true, Bool.not_eq_true', not_or, Bool.not_eq_false,
            decide_eq_true_eq] at hchk
          obtain ⟨⟨⟨_, hlen⟩, hall⟩, hasc⟩ := hchk
          have hall' : ∀ b ∈ bs, b.isNumber = true := List.all_eq_true.mp hall
          have hsorted := sortedNums_of_strictAsc bs hall' hasc
          have hlen' : ¬ bs.length < 2 := hlen
          cases hout : bucketOutput o with
          | none => simp [hout] at h
          | some out =>
            simp only [hout] at h
            split at h
            · cases h
            · rename_i hacc
              simp only [Bool.or_eq_true, Bool.not_eq_true', not_or, Bool.not_eq_false] at hacc
              have hval := validateAccs_of_specsOk out hacc.1
              have hmodel : ∀ dflt, dget "default" o = dflt →
                  bucketStage (.doc o) docs =
                  (match bucketKeyed ⟨gb, bs, dflt, lastOf dflt bs⟩ docs with
                   | .error e => .error e
                   | .ok kds =>
                     match pySorted bkeyLt false kds with
                     | .error e => .error e
                     | .ok sorted => emitGroups out (bucketRuns sorted)) := by
                intro dflt hd
                subst hd
                have hunk' : (o.any (fun kv =>
                    !(["groupBy", "boundaries", "output", "default"].contains kv.1))) = false := by
                  simpa using hunk
                unfold bucketOutput at hout
                simp only [bucketStage, hunk', Bool.false_eq_true, if_false, hgb, hbs, hlen',
                  hall, Bool.not_true, hsorted]
                cases ho : dget "output" o with
                | none =>
                  rw [ho] at hout; cases hout
                  simp only [hval]; rfl
                | some ov =>
                  rw [ho] at hout
                  cases ov <;> simp at hout
                  subst hout
                  simp only [hval]; rfl
              cases hd : dget "default" o with
              | none =>
                simp only [hd, Option.some.injEq] at h
                subst h
                exact ⟨hall', hasc, by show 2 ≤ bs.length; omega, hmodel none hd⟩
              | some d =>
                simp only [hd] at h
                split at h
                · cases h
                  exact ⟨hall', hasc, by show 2 ≤ bs.length; omega, hmodel (some d) hd⟩
                · cases h
      · cases h
  | _ => simp [bucketArgs] at h

/-! ### the default bucket among the boundaries -/

theorem num_lt_high (c d : Val) (hc : c.isNumber = true) (hd : groupKeyOk d = true)
    (hn : d.isNumber = false) (hnull : d ≠ .null) : valLt c d = true := by
  cases c <;> simp [Val.isNumber] at hc <;>
  cases d <;> simp_all [groupKeyOk, Val.isNumber, valLt, typeOrder]

theorem lastOf_number (d hi : Val) (bs : List Val) (hl : bs.getLast? = some hi)
    (hd : d.isNumber = true) (hh : hi.isNumber = true) :
    lastOf (some d) bs = !valLt d hi := by
  obtain ⟨nd, nhi, h1, h2, _, h4⟩ := num_cmp d hi hd hh
  simp only [lastOf, hl, h1, h2, h4]

theorem lastOf_other (d : Val) (bs : List Val) (hd : d.isNumber = false) (hb : ∀ b, d ≠ .bool b) :
    lastOf (some d) bs = true := by
  cases hl : bs.getLast? with
  | none => simp [lastOf, hl]
  | some hi =>
    cases d <;> simp_all [lastOf, Val.num?, Val.isNumber]

theorem order_facts (bs : List Val) (dflt : Option Val)
    (hb : ∀ b ∈ bs, b.isNumber = true) (hasc : strictAsc bs = true) (hlen : 2 ≤ bs.length)
    (hdef : bucketDefaultReasons dflt = []) :
    (∀ c ∈ lowIds bs dflt (lastOf dflt bs), c.isNumber = true) ∧
    (∀ c ∈ lowIds bs dflt (lastOf dflt bs), ∀ t, topId dflt (lastOf dflt bs) = some t →
      valLt c t = true) ∧
    (∀ t, topId dflt (lastOf dflt bs) = some t → groupKeyOk t = true) := by
  have hdl : ∀ c ∈ bs.dropLast, c.isNumber = true := fun c hc => hb c (List.mem_of_mem_dropLast hc)
  cases dflt with
  | none =>
    refine ⟨?_, ?_, ?_⟩
    · intro c hc; simp only [lowIds, List.append_nil] at hc; exact hdl c hc
    · intro c _ t ht; simp [topId] at ht
    · intro t ht; simp [topId] at ht
  | some d =>
    have hne : bs ≠ [] := by intro e; subst e; simp at hlen
    obtain ⟨hi, hl⟩ : ∃ hi, bs.getLast? = some hi := ⟨bs.getLast hne, List.getLast?_eq_some_getLast hne⟩
    have hhi : hi.isNumber = true := hb hi (List.mem_of_getLast? hl)
    have hok : groupKeyOk d = true ∧ d ≠ .null ∧ ∀ b, d ≠ .bool b := by
      cases d with
      | date u o => cases o <;> simp_all [bucketDefaultReasons, groupKeyOk]
      | _ => simp_all [bucketDefaultReasons, groupKeyOk]
    cases hnum : d.isNumber with
    | true =>
      have hlast := lastOf_number d hi bs hl hnum hhi
      cases hv : valLt d hi with
      | true =>
        rw [hv] at hlast
        simp only [hlast, Bool.not_true, lowIds, topId, Bool.false_eq_true, if_false]
        refine ⟨?_, ?_, ?_⟩
        · intro c hc
          rcases List.mem_append.mp hc with hc | hc
          · exact hdl c hc
          · simp only [List.mem_singleton] at hc; subst hc; exact hnum
        · intro c _ t ht; simp at ht
        · intro t ht; simp at ht
      | false =>
        rw [hv] at hlast
        simp only [hlast, Bool.not_false, lowIds, topId, if_true, List.append_nil]
        refine ⟨hdl, ?_, ?_⟩
        · intro c hc t ht
          cases ht
          exact valLt_of_lt_of_le (asc_dropLast_lt hi bs hasc hl c hc) hv
        · intro t ht; cases ht; exact hok.1
    | false =>
      have hlast := lastOf_other d bs hnum hok.2.2
      simp only [hlast, lowIds, topId, if_true, List.append_nil]
      refine ⟨hdl, ?_, ?_⟩
      · intro c hc t ht
        cases ht
        exact num_lt_high c d (hdl c hc) hok.1 hnum hok.2.1
      · intro t ht; cases ht; exact hok.1

/-! ### the stage -/

/-- **`$bucket` = the oracle** on the domain -/
theorem bucket_eq_spec (opts : Val) (docs s : List Val)
    (hD : bucketReasons opts docs = []) (hs : specBucketStage opts docs = some s) :
    bucketStage opts docs = .ok s := by
  unfold specBucketStage at hs
  unfold bucketReasons at hD
  cases ha : bucketArgs opts with
  | none => simp [ha] at hs
  | some a =>
    simp only [ha, Option.bind_some, List.append_eq_nil_iff] at hs hD
    obtain ⟨⟨⟨⟨hform, htags⟩, hvals⟩, hdef⟩, haccs⟩ := hD
    obtain ⟨str, hgb⟩ : ∃ str, a.groupBy = .str str := by
      cases hg : a.groupBy <;> simp [hg] at hform
      exact ⟨_, rfl⟩
    obtain ⟨hb, hasc, hlen, hmodel⟩ := bucketStage_args opts a docs ha
    cases hk : specBucketKeyed a docs with
    | none => simp [hk] at hs
    | some kds =>
      simp only [hk, Option.bind_some] at hs haccs
      set ltp := fun x y : Val × Val => valLt x.1 y.1 with hltp
      set ltg := fun x y : Val × List Val => valLt x.1 y.1 with hltg
      cases hsd : specGroupDocs a.output (isort ltg (specGroups kds)) with
      | none => simp [hsd] at hs
      | some sd =>
        simp only [hsd, Option.map_some, Option.some.injEq] at hs
        subst hs
        obtain ⟨hL, hLD, hDok⟩ := order_facts a.bounds a.default hb hasc hlen hdef
        have hV : ∀ d ∈ docs, ∀ r, exprValue a.groupBy d = some r → bucketValueReasons r = [] := by
          intro d hd r hr
          have := (flatMap_nil_iff' _ _).1 hvals d hd
          simpa [hr] using this
        obtain ⟨kb, k1, k2, k3⟩ := bucketKeyed_eq_spec a (lastOf a.default a.bounds) str hgb hb hasc
          docs kds (exprTags_nil _ _ htags) hV hk
        have hsort := bucket_sort_eq hL hLD hDok kb k3
        set ltb := fun x y : BKey × Val => valLt x.1.2 y.1.2 with hltb
        have hS : ∀ p ∈ isort ltb kb, Shape _ _ p.1 :=
          fun p hp => k3 p ((isort_perm ltb kb).mem_iff.1 hp)
        have hruns := bucketRuns_eq_groupRuns hL hLD hDok (isort ltb kb) hS
        have hmap : (isort ltb kb).map strip = isort ltp kds := by
          rw [← k2]; exact isort_map strip (fun x y : Val × Val => valLt x.1 y.1) kb
        have hK : ∀ p ∈ kds, groupKeyOk p.1 = true := by
          intro p hp
          rw [← k2] at hp
          obtain ⟨q, hq, rfl⟩ := List.mem_map.mp hp
          exact shape_ok hL hLD hDok q.1 (k3 q hq)
        have hKs : ∀ p ∈ isort ltp kds, groupKeyOk p.1 = true :=
          fun p hp => hK p ((isort_perm ltp kds).mem_iff.1 hp)
        have hgr := groupRuns_sorted_eq_spec _ (isort ltp kds) (Nat.le_refl _) hKs
          (isort_sorted strictWeak_pairs kds)
        have hall : ∀ r ∈ isort ltg (specGroups kds), accFieldReasons a.output r.2 = [] :=
          fun r hr => (flatMap_nil_iff' _ _).1 haccs r ((isort_perm ltg _).mem_iff.1 hr)
        have hemit := emitGroups_eq_spec a.output _ sd hall hsd
        rw [hmodel, k1]
        simp only [hsort, hruns, hmap, hgr]
        rw [show specGroups (isort ltp kds) = isort ltg (specGroups kds) from specGroups_isort kds]
        exact hemit

/-! ### no default: a document outside every bucket makes the stage fail -/

theorem bucketId_no_branch (a : BucketArgs) (last : Bool) (d : Val) (s : String)
    (hgb : a.groupBy = .str s)
    (hb : ∀ b ∈ a.bounds, b.isNumber = true) (hasc : strictAsc a.bounds = true)
    (hE : exprReasons a.groupBy d = [])
    (hV : ∃ r, exprValue a.groupBy d = some r ∧ bucketValueReasons r = [])
    (hk : specBucketKey a d = none) :
    a.default = none ∧ bucketId ⟨a.groupBy, a.bounds, a.default, last⟩ d = .error .opFail := by
  obtain ⟨r, hv, hVr⟩ := hV
  unfold specBucketKey at hk
  simp only [hv, Option.bind_some] at hk
  have hev : evalExprStrict d a.groupBy = .ok r := by
    rw [hgb, evalExprStrict_str, ← hgb, evalExpr_of_reasons _ _ hE]
    exact exprValue_some _ _ _ hv
  have hslot : specSlot a.bounds (r.getD .null) = none ∧ a.default = none := by
    cases h : specSlot a.bounds (r.getD .null) with
    | none => simp only [h] at hk; exact ⟨rfl, hk⟩
    | some b => simp [h] at hk
  refine ⟨hslot.2, ?_⟩
  cases r with
  | none =>
    rw [bucketId_missing ⟨a.groupBy, a.bounds, a.default, last⟩ d hev]
    simp only [hslot.2]
  | some v =>
    have hnum : v.isNumber = true := by
      cases v <;> simp_all [bucketValueReasons, Val.isNumber]
    obtain ⟨nx, _, hnx, _, _, _⟩ := num_cmp v v hnum hnum
    rw [bucketId_num ⟨a.groupBy, a.bounds, a.default, last⟩ d v nx (leCount a.bounds v) hev hnx
      (index_eq a.bounds v nx hb hnum hnx)]
    have hse := slot_eq v a.bounds hasc
    simp only [Option.getD_some] at hslot
    have hc : ¬ (leCount a.bounds v ≠ 0 ∧ leCount a.bounds v < a.bounds.length) := by
      intro hc
      rw [if_pos hc, hslot.1] at hse
      have := List.getElem?_eq_none_iff.mp hse.symm
      omega
    have hcb : (decide (leCount a.bounds v ≠ 0) && decide (leCount a.bounds v < a.bounds.length)) = false := by
      cases hx : (decide (leCount a.bounds v ≠ 0) && decide (leCount a.bounds v < a.bounds.length)) with
      | false => rfl
      | true =>
        simp only [Bool.and_eq_true, decide_eq_true_eq] at hx
        exact absurd hx hc
    simp only [hcb, Bool.false_eq_true, if_false, hslot.2]

theorem bucketKeyed_no_branch (a : BucketArgs) (last : Bool) (s : String)
    (hgb : a.groupBy = .str s)
    (hb : ∀ b ∈ a.bounds, b.isNumber = true) (hasc : strictAsc a.bounds = true) :
    ∀ (docs : List Val),
    (∀ d ∈ docs, exprReasons a.groupBy d = []) →
    (∀ d ∈ docs, ∃ r, exprValue a.groupBy d = some r ∧ bucketValueReasons r = []) →
    specBucketKeyed a docs = none →
    bucketKeyed ⟨a.groupBy, a.bounds, a.default, last⟩ docs = .error .opFail
  | [], _, _, h => by simp [specBucketKeyed, mapOpt] at h
  | d :: ds, hE, hV, h => by
    cases hk : specBucketKey a d with
    | none =>
      have := (bucketId_no_branch a last d s hgb hb hasc (hE d List.mem_cons_self)
        (hV d List.mem_cons_self) hk).2
      simp only [bucketKeyed, this]
    | some k =>
      obtain ⟨r, hr, hrv⟩ := hV d List.mem_cons_self
      obtain ⟨f, j1, _⟩ := bucketId_eq_spec a last d k s hgb hb hasc (hE d List.mem_cons_self)
        (fun r' hr' => by rw [hr] at hr'; cases hr'; exact hrv) hk
      have hrest : specBucketKeyed a ds = none := by
        cases h2 : specBucketKeyed a ds with
        | none => rfl
        | some r2 =>
          simp only [specBucketKeyed] at h h2
          simp [mapOpt, hk, h2] at h
      have ih := bucketKeyed_no_branch a last s hgb hb hasc ds
        (fun x hx => hE x (List.mem_cons_of_mem _ hx)) (fun x hx => hV x (List.mem_cons_of_mem _ hx))
        hrest
      simp only [bucketKeyed, j1, ih]

/-- **no matching branch.** Inside the domain, when the oracle finds no bucket for some document
    (which it can only when there is no default), the code fails with OperationFailure -/
theorem bucket_no_branch (opts : Val) (a : BucketArgs) (docs : List Val)
    (ha : bucketArgs opts = some a) (hform : ∃ s, a.groupBy = .str s)
    (htags : exprTags a.groupBy docs = [])
    (hvals : ∀ d ∈ docs, ∃ r, exprValue a.groupBy d = some r ∧ bucketValueReasons r = [])
    (hk : specBucketKeyed a docs = none) :
    bucketStage opts docs = .error .opFail := by
  obtain ⟨str, hgb⟩ := hform
  obtain ⟨hb, hasc, _, hmodel⟩ := bucketStage_args opts a docs ha
  rw [hmodel, bucketKeyed_no_branch a _ str hgb hb hasc docs (exprTags_nil _ _ htags) hvals hk]

end MongoModel.Pipe.Proofs
