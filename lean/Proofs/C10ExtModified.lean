/-
  Proofs.C10ExtModified — `update_many`: `nModified` counts the selected entries whose stored
  document fails the change test after the call (collections without TTL index).
-/
import Mathlib.Data.List.Forall2
import Spec.CountsExt
import Proofs.C10
import Proofs.C08ExtManyLoop

namespace MongoModel.Proofs.C10Ext
open MongoModel MongoModel.Spec
open MongoModel.Proofs.C10Lemmas MongoModel.Proofs.C09Lemmas MongoModel.Proofs.C14Lemmas
open MongoModel.Proofs.C08Lemmas

/-- the change test of the loop: Python `==` between plain dicts -/
def unchangedB (new old : Val) : Bool := pyEq new old

/-- everything a successful single-document step does (no TTL index) -/
theorem single_full (now : Int) (spec document nowV : Val) (p : Val × Val) (c : Coll)
    (m u : Nat) (c1 : Coll) (m1 u1 : Nat)
    (hn : c.ttlIndexes = []) (hl : c.lookup p.1 = some p.2)
    (h : updateLoop now spec document nowV false [p] c m u = (c1, .ok (m1, u1))) :
    (filterApplies spec p.2 = .ok false ∧ c1 = c ∧ m1 = m ∧ u1 = u) ∨
    (∃ new, filterApplies spec p.2 = .ok true ∧
      applyUpdate spec document nowV false p.2 = .ok new ∧
      c1 = c.setDoc p.1 new ∧ m1 = m + 1 ∧
      u1 = u + (if unchangedB new p.2 then 0 else 1)) := by
  obtain ⟨key, v0⟩ := p
  rw [single_one] at h
  simp only at hl
  rw [hl] at h
  dsimp only at h
  cases hf : filterApplies spec v0 with
  | error e' => rw [hf] at h; cases h
  | ok b =>
    rw [hf] at h
    cases b with
    | false =>
      left
      simp only [Prod.mk.injEq, Except.ok.injEq] at h
      exact ⟨rfl, h.1.symm, h.2.1.symm, h.2.2.symm⟩
    | true =>
      right
      dsimp only at h
      cases ha : applyUpdate spec document nowV false v0 with
      | error e' => rw [ha] at h; cases h
      | ok new =>
        rw [ha] at h
        dsimp only at h
        have hb : pyEq new v0 = unchangedB new v0 := rfl
        rw [hb] at h
        refine ⟨new, rfl, rfl, ?_⟩
        have hn' : (c.setDoc key new).ttlIndexes = [] := by rw [setDoc_ttl]; exact hn
        cases hu : unchangedB new v0 with
        | true =>
          rw [hu] at h
          simp only [if_true] at h
          cases he : ensureUniques now (c.setDoc key new) new with
          | error e' => rw [he] at h; cases h
          | ok c2 =>
            rw [he] at h
            have := ensure_nil now _ c2 new hn' he
            subst this
            simp only [Prod.mk.injEq, Except.ok.injEq] at h
            exact ⟨h.1.symm, h.2.1.symm, by simpa using h.2.2.symm⟩
        | false =>
          rw [hu] at h
          simp only [Bool.false_eq_true, if_false] at h
          generalize (!pyEqOpt _ _) = b2 at h
          cases b2 with
          | true => cases h
          | false =>
            simp only [Bool.false_eq_true, if_false] at h
            cases he : ensureUniques now (c.setDoc key new) new with
            | error e' => rw [he] at h; cases h
            | ok c2 =>
              rw [he] at h
              have := ensure_nil now _ c2 new hn' he
              subst this
              simp only [Prod.mk.injEq, Except.ok.injEq] at h
              exact ⟨h.1.symm, h.2.1.symm, by simpa using h.2.2.symm⟩

/-- the entry counts as modified -/
def modB (spec : Val) (pp : (Val × Val) × (Val × Val)) : Bool :=
  matchB spec pp.1 && !unchangedB pp.2.2 pp.1.2

theorem many_count (now : Int) (spec document nowV : Val) :
    ∀ (pending done : List (Val × Val)) (c : Coll) (m u : Nat) (c' : Coll) (m' u' : Nat),
      c.docs = done ++ pending → c.ttlIndexes = [] → DK c.docs → GK c.docs →
      updateLoop now spec document nowV true pending c m u = (c', .ok (m', u')) →
      ∃ pending', c'.docs = done ++ pending' ∧
        List.Forall₂ (Updated spec document nowV) pending pending' ∧
        m' = m + (pending.filter (matchB spec)).length ∧
        u' = u + ((pending.zip pending').filter (modB spec)).length := by
  intro pending
  induction pending with
  | nil =>
    intro done c m u c' m' u' hc hn _ _ h
    simp only [updateLoop, Prod.mk.injEq, Except.ok.injEq] at h
    obtain ⟨rfl, rfl, rfl⟩ := h
    exact ⟨[], hc, .nil, rfl, rfl⟩
  | cons p rest ih =>
    intro done c m u c' m' u' hc hn hd hg h
    rw [many_cons] at h
    cases hs : updateLoop now spec document nowV false [p] c m u with
    | mk c1 r1 =>
      rw [hs] at h
      cases r1 with
      | error e => cases h
      | ok mu =>
        obtain ⟨m1, u1⟩ := mu
        simp only at h
        have hp : p ∈ c.docs := by rw [hc]; simp
        have hl : c.lookup p.1 = some p.2 := by
          unfold Coll.lookup; rw [find_of_mem hd hg hp]; rfl
        have hk : c.hasKey p.1 = true := hasKey_of_lookup hl
        rcases single_full now spec document nowV p c m u c1 m1 u1 hn hl hs with
          ⟨hf, rfl, rfl, rfl⟩ | ⟨new, hf, ha, rfl, rfl, rfl⟩
        · have hc1 : c1.docs = (done ++ [p]) ++ rest := by rw [hc]; simp
          obtain ⟨pending', h1, h3, h4, h5⟩ := ih (done ++ [p]) c1 m1 u1 c' m' u' hc1 hn hd hg h
          have hmb : matchB spec p = false := by unfold matchB; rw [hf]
          refine ⟨p :: pending', by rw [h1]; simp, .cons ⟨rfl, .inl ⟨hf, rfl⟩⟩ h3, ?_, ?_⟩
          · rw [h4, List.filter_cons, hmb]; rfl
          · rw [h5, List.zip_cons_cons, List.filter_cons]
            simp only [modB, hmb, Bool.false_and, Bool.false_eq_true, if_false]
        · have hdocs := setDoc_at c done rest p new hc hd hg
          have hc1 : (c.setDoc p.1 new).docs = (done ++ [(p.1, new)]) ++ rest := by
            rw [hdocs]; simp
          have hn1 : (c.setDoc p.1 new).ttlIndexes = [] := by rw [setDoc_ttl]; exact hn
          have hd1 : DK (c.setDoc p.1 new).docs := by
            rw [setDoc_docs new hk]; exact DK_map_setEntry _ _ hd
          have hg1 : GK (c.setDoc p.1 new).docs := by
            rw [setDoc_docs new hk]; exact GK_map_setEntry _ _ hg
          obtain ⟨pending', h1, h3, h4, h5⟩ :=
            ih (done ++ [(p.1, new)]) _ _ _ c' m' u' hc1 hn1 hd1 hg1 h
          have hmb : matchB spec p = true := by unfold matchB; rw [hf]
          refine ⟨(p.1, new) :: pending', by rw [h1]; simp,
            .cons ⟨rfl, .inr ⟨hf, ha⟩⟩ h3, ?_, ?_⟩
          · rw [h4, List.filter_cons, hmb]
            simp only [if_true, List.length_cons]; omega
          · rw [h5, List.zip_cons_cons, List.filter_cons]
            simp only [modB, hmb, Bool.true_and]
            cases unchangedB new p.2 <;> (simp; try omega)

/-! ### from the loop to the state after the call -/

theorem zip_filter_length {α β} {R : α → β → Prop} {l : List α} {l' : List β}
    (g : α × β → Bool) (f : α → Bool) (h : List.Forall₂ R l l')
    (hgf : ∀ pp ∈ l.zip l', g pp = f pp.1) :
    ((l.zip l').filter g).length = (l.filter f).length := by
  induction h with
  | nil => rfl
  | @cons a b l l' _ _ ih =>
    rw [List.zip_cons_cons, List.filter_cons, List.filter_cons,
      hgf (a, b) (by rw [List.zip_cons_cons]; exact List.mem_cons_self ..)]
    have := ih (fun pp hpp => hgf pp (by rw [List.zip_cons_cons]; exact List.mem_cons_of_mem _ hpp))
    dsimp only
    split <;> simp [this]

theorem updated_keys {spec document nowV : Val} {l l' : List (Val × Val)}
    (h : List.Forall₂ (Updated spec document nowV) l l') : l'.map (·.1) = l.map (·.1) := by
  induction h with
  | nil => rfl
  | cons hab _ ih => rw [List.map_cons, List.map_cons, ih, hab.1]

theorem DK_of_keys {l l' : List (Val × Val)} (hk : l'.map (·.1) = l.map (·.1)) (hd : DK l) : DK l' := by
  unfold DK at *
  have h1 : (l.map (·.1)).Pairwise (fun a b => pyEq a b = false) := List.pairwise_map.2 hd
  rw [← hk] at h1
  exact List.pairwise_map.1 h1

theorem GK_of_keys {l l' : List (Val × Val)} (hk : l'.map (·.1) = l.map (·.1)) (hg : GK l) : GK l' := by
  intro p' hp'
  have : p'.1 ∈ l.map (·.1) := by rw [← hk]; exact List.mem_map.2 ⟨p', hp', rfl⟩
  obtain ⟨p, hp, he⟩ := List.mem_map.1 this
  have := hg p hp
  rw [he] at this
  exact this

theorem update_many_counts (cfg : Cfg) (now : Int) (c c' : Coll) (fs : Fields) (u : Val)
    (sel : List (Val × Val)) (res : UpdateResult)
    (hi : IdInv c) (hg : GoodKeys c) (hn : c.ttlIndexes = [])
    (hs : selectDocs (patchDT (.doc fs)) c.docs = .ok sel)
    (h : applyUpdateColl cfg now c (.doc fs) u false true = (c', .ok res)) :
    res.n = sel.length ∧ res.nModified = (sel.filter (contentChangedAfter c')).length ∧
    c'.docs.map (·.1) = c.docs.map (·.1) ∧ res.upserted = none := by
  rw [MongoModel.Proofs.C05Lemmas.applyUpdateColl_eq] at h
  split at h
  · rename_i ss dfs hss hdd
    generalize patchDT (.doc fs) = spec at h hs hss
    generalize patchDT u = document at h hdd
    generalize patchDT (Val.date now none) = nowV at h
    cases hem : updatePrecheck cfg dfs with
    | error e => rw [hem] at h; cases h
    | ok _ =>
      rw [hem] at h
      dsimp only at h
      cases hpre : MongoModel.Proofs.C05Lemmas.preLoop now c spec with
      | error e => rw [hpre] at h; cases h
      | ok c2 =>
        rw [hpre] at h
        have := preLoop_nottl now c c2 spec hn hpre
        subst this
        dsimp only at h
        generalize hloop : updateLoop now spec document nowV true c2.docs c2 0 0 = lr at h
        obtain ⟨c3, r⟩ := lr
        cases r with
        | error e => cases h
        | ok mu =>
          obtain ⟨matched, updated⟩ := mu
          simp only [MongoModel.Proofs.C05Lemmas.afterLoop, Bool.not_false, Bool.true_or, if_true,
            Prod.mk.injEq, Except.ok.injEq] at h
          obtain ⟨rfl, rfl⟩ := h
          obtain ⟨pending', h1, h3, h4, h5⟩ := many_count now spec document nowV c2.docs [] c2 0 0
            c3 matched updated rfl hn hi.1 hg hloop
          simp only [List.nil_append] at h1
          rw [← h1] at h3 h5
          have hkeys := updated_keys h3
          have hd3 : DK c3.docs := DK_of_keys hkeys hi.1
          have hg3 : GK c3.docs := GK_of_keys hkeys hg
          obtain ⟨hsel, _⟩ := select_filter spec c2.docs sel hs
          have hzip : ∀ {a b : Val × Val}, (a, b) ∈ c2.docs.zip c3.docs →
              Updated spec document nowV a b := (List.forall₂_iff_zip.1 h3).2
          have hcount : ((c2.docs.zip c3.docs).filter (modB spec)).length =
              (c2.docs.filter (fun p => matchB spec p && contentChangedAfter c3 p)).length := by
            apply zip_filter_length _ _ h3
            intro pp hpp
            obtain ⟨p, p'⟩ := pp
            have hup := hzip hpp
            have hp' : p' ∈ c3.docs := (List.of_mem_zip hpp).2
            have hl : c3.lookup p.1 = some p'.2 := by
              unfold Coll.lookup
              rw [← hup.1, find_of_mem hd3 hg3 hp']
              rfl
            simp only [modB, contentChangedAfter, hl, unchangedB]
          have hfilt : c2.docs.filter (fun p => matchB spec p && contentChangedAfter c3 p) =
              sel.filter (contentChangedAfter c3) := by
            rw [hsel, List.filter_filter]
            apply List.filter_congr
            intro p _
            exact Bool.and_comm _ _
          have hm : matched = sel.length := by rw [h4, hsel]; simp
          refine ⟨hm, ?_, hkeys, rfl⟩
          dsimp only
          rw [← hfilt, ← hcount]
          split
          · omega
          · rename_i hz
            have hz' : sel = [] := by
              have : sel.length = 0 := by rw [← hm]; simpa using hz
              exact List.eq_nil_of_length_eq_zero this
            rw [hcount, hfilt, hz']
            rfl
  · cases h

end MongoModel.Proofs.C10Ext
