/-
  Proofs.C03Basic — generic lemmas about the loops of MongoModel.Pipeline (`filterR`, `mapR`,
  `flatMapR`), the fold structure of `runPipeline`, and `$facet`.
-/
import MongoModel.Pipeline
import Mathlib.Data.List.Forall2

namespace MongoModel.Pipe.Proofs
open MongoModel MongoModel.Pipe

/-! ### `filterR` -/

theorem filterR_ok {p : Val → R Bool} : ∀ {xs ys : List Val}, filterR p xs = .ok ys →
    ys = xs.filter (fun x => p x == .ok true) ∧ ∀ x ∈ xs, ∃ b, p x = .ok b
  | [], ys, h => by
    simp [filterR] at h; subst h; simp
  | x :: xs, ys, h => by
    unfold filterR at h
    cases hp : p x with
    | error e => simp [hp] at h
    | ok b =>
      cases hr : filterR p xs with
      | error e => simp [hp, hr] at h
      | ok zs =>
        simp only [hp, hr, Except.ok.injEq] at h
        obtain ⟨ih1, ih2⟩ := filterR_ok hr
        refine ⟨?_, ?_⟩
        · subst h
          cases b <;> simp [hp, ih1]
        · intro y hy
          rcases List.mem_cons.mp hy with rfl | hy
          · exact ⟨b, hp⟩
          · exact ih2 y hy

theorem filterR_sublist {p : Val → R Bool} {xs ys : List Val} (h : filterR p xs = .ok ys) :
    ys.Sublist xs := by
  rw [(filterR_ok h).1]; exact List.filter_sublist

theorem filterR_mem {p : Val → R Bool} {xs ys : List Val} (h : filterR p xs = .ok ys) (x : Val) :
    x ∈ ys ↔ x ∈ xs ∧ p x = .ok true := by
  rw [(filterR_ok h).1]; simp [List.mem_filter]

theorem filterR_congr {p q : Val → R Bool} : ∀ (xs : List Val), (∀ x ∈ xs, p x = q x) →
    filterR p xs = filterR q xs
  | [], _ => rfl
  | x :: xs, h => by
    unfold filterR
    rw [h x (List.mem_cons_self), filterR_congr xs (fun y hy => h y (List.mem_cons_of_mem _ hy))]

/-! ### `mapR` -/

theorem mapR_ok_iff {α β} {f : α → R β} : ∀ {xs : List α} {ys : List β},
    mapR f xs = .ok ys ↔ List.Forall₂ (fun x y => f x = .ok y) xs ys
  | [], ys => by
    cases ys <;> simp [mapR]
  | x :: xs, ys => by
    unfold mapR
    cases hf : f x with
    | error e =>
      simp only [reduceCtorEq, false_iff]
      intro h; cases h with | cons h1 _ => rw [hf] at h1; cases h1
    | ok y =>
      cases hr : mapR f xs with
      | error e =>
        simp only [reduceCtorEq, false_iff]
        intro h
        cases h with
        | cons h1 h2 => rw [(mapR_ok_iff).2 h2] at hr; cases hr
      | ok zs =>
        simp only [Except.ok.injEq]
        constructor
        · intro h; subst h
          exact List.Forall₂.cons hf ((mapR_ok_iff).1 hr)
        · intro h
          cases h with
          | cons h1 h2 =>
            rw [hf] at h1; cases h1
            rw [(mapR_ok_iff).2 h2] at hr; cases hr; rfl

theorem mapR_length {α β} {f : α → R β} {xs : List α} {ys : List β} (h : mapR f xs = .ok ys) :
    ys.length = xs.length :=
  ((mapR_ok_iff.1 h).length_eq).symm

/-- output `i` is `f` of input `i`, and of nothing else -/
theorem mapR_get {α β} {f : α → R β} {xs : List α} {ys : List β} (h : mapR f xs = .ok ys)
    (i : Nat) (x : α) (hx : xs[i]? = some x) : ∃ y, ys[i]? = some y ∧ f x = .ok y := by
  have h2 := mapR_ok_iff.1 h
  induction h2 generalizing i with
  | nil => simp at hx
  | cons h1 _ ih =>
    cases i with
    | zero => simp at hx; subst hx; exact ⟨_, by simp, h1⟩
    | succ n =>
      simp at hx
      obtain ⟨y, hy, hf⟩ := ih (mapR_ok_iff.2 (by assumption)) n hx
      exact ⟨y, by simpa using hy, hf⟩

/-! ### `flatMapR` -/

theorem flatMapR_ok_iff {f : Val → R (List Val)} : ∀ {xs ys : List Val},
    flatMapR f xs = .ok ys ↔
      ∃ parts, List.Forall₂ (fun x p => f x = .ok p) xs parts ∧ ys = parts.flatten
  | [], ys => by
    simp only [flatMapR, Except.ok.injEq]
    constructor
    · intro h; subst h; exact ⟨[], List.Forall₂.nil, rfl⟩
    · rintro ⟨parts, h1, h2⟩; cases h1; simp [h2]
  | x :: xs, ys => by
    unfold flatMapR
    cases hf : f x with
    | error e =>
      simp only [reduceCtorEq, false_iff]
      rintro ⟨parts, h1, _⟩
      cases h1 with | cons h _ => rw [hf] at h; cases h
    | ok p =>
      cases hr : flatMapR f xs with
      | error e =>
        simp only [reduceCtorEq, false_iff]
        rintro ⟨parts, h1, _⟩
        cases h1 with
        | cons h h' => rw [(flatMapR_ok_iff).2 ⟨_, h', rfl⟩] at hr; cases hr
      | ok zs =>
        simp only [Except.ok.injEq]
        obtain ⟨ps, hps, hz⟩ := (flatMapR_ok_iff).1 hr
        constructor
        · intro h; subst h
          exact ⟨p :: ps, List.Forall₂.cons hf hps, by simp [hz]⟩
        · rintro ⟨parts, h1, h2⟩
          cases h1 with
          | cons h h' =>
            rw [hf] at h; cases h
            rw [(flatMapR_ok_iff).2 ⟨_, h', rfl⟩] at hr; cases hr
            simp [h2]

/-! ### the pipeline is a fold -/

def bindR' {α β} (x : R α) (f : α → R β) : R β :=
  match x with
  | .error e => .error e
  | .ok a => f a

theorem runPipeline_append (db : Db) : ∀ (p q : List Val) (docs : List Val),
    runPipeline db (p ++ q) docs = bindR' (runPipeline db p docs) (runPipeline db q)
  | [], q, docs => by simp [runPipeline, bindR']
  | st :: p, q, docs => by
    simp only [List.cons_append, runPipeline]
    cases runStage db st docs with
    | error e => simp [bindR']
    | ok d' => simpa using runPipeline_append db p q d'

theorem runPipeline_eq_foldlM (db : Db) : ∀ (p : List Val) (docs : List Val),
    runPipeline db p docs = p.foldlM (fun ds st => runStage db st ds) docs
  | [], docs => by simp [runPipeline, pure, Except.pure]
  | st :: p, docs => by
    simp only [runPipeline, List.foldlM_cons, bind, Except.bind]
    cases runStage db st docs with
    | error e => rfl
    | ok d' => simpa using runPipeline_eq_foldlM db p d'

theorem runStage_single (db : Db) (op : String) (opts : Val) (docs : List Val) :
    runStage db (.doc [(op, opts)]) docs = runOp db op opts docs := by
  simp only [runStage, runOps]

theorem runOp_simple (db : Db) (op : String) (opts : Val) (docs : List Val) (h : op ≠ "$facet") :
    runOp db op opts docs = simpleStage db op opts docs := by
  cases opts <;> simp [runOp, h]

/-! ### `$facet` -/

theorem facetBranches_ok (db : Db) : ∀ (gs : Fields) (docs : List Val) (out : Fields),
    facetBranches db gs docs = .ok out →
    List.Forall₂ (fun (g o : String × Val) => ∃ p r, g = (o.1, .arr p) ∧ o.2 = .arr r ∧
      runPipeline db p docs = .ok r) gs out
  | [], docs, out, h => by
    simp [facetBranches] at h; subst h; exact List.Forall₂.nil
  | (title, v) :: rest, docs, out, h => by
    cases v with
    | arr p =>
      simp only [facetBranches] at h
      cases hp : runPipeline db p docs with
      | error e => simp [hp] at h
      | ok o =>
        cases hr : facetBranches db rest docs with
        | error e => simp [hp, hr] at h
        | ok r =>
          simp only [hp, hr, Except.ok.injEq] at h
          subst h
          exact List.Forall₂.cons ⟨p, o, rfl, rfl, hp⟩ (facetBranches_ok db rest docs r hr)
    | _ => simp [facetBranches, unmodelled] at h

theorem runOp_facet (db : Db) (gs : Fields) (docs out : List Val)
    (h : runOp db "$facet" (.doc gs) docs = .ok out) :
    ∃ fs, out = [.doc fs] ∧ facetBranches db gs docs = .ok fs := by
  simp only [runOp, if_true] at h
  cases hf : facetBranches db gs docs with
  | error e => simp [hf] at h
  | ok fs => simp [hf] at h; exact ⟨fs, h.symm, rfl⟩

end MongoModel.Pipe.Proofs
