/-
  Proofs.C06Check — decidable forms of the predicates of C06 (to discharge hypotheses on concrete
  states by evaluation) and the machine-checked counterexamples to the unrestricted statements.
-/
import Proofs.C06Extra

set_option linter.unusedSimpArgs false

namespace MongoModel.Proofs.C06Lemmas
open MongoModel MongoModel.Spec

/-! ### decidable forms -/

def pairwiseB {α : Type} (r : α → α → Bool) : List α → Bool
  | [] => true
  | a :: l => l.all (r a) && pairwiseB r l

theorem pairwiseB_iff {α : Type} (r : α → α → Bool) (l : List α) :
    pairwiseB r l = true ↔ l.Pairwise (fun a b => r a b = true) := by
  induction l with
  | nil => simp [pairwiseB]
  | cons a l ih => simp [pairwiseB, ih, List.pairwise_cons]

/-- `UniqInv`, evaluated -/
def uniqB (c : Coll) : Bool :=
  c.indexes.all (fun ix => !ix.unique ||
    pairwiseB (fun a b => !keyEq (keyVals ix a.2) (keyVals ix b.2))
      (c.docs.filter (fun p => covers ix p.2)))

theorem uniqB_iff (c : Coll) : uniqB c = true ↔ UniqInv c := by
  simp only [uniqB, UniqInv, List.all_eq_true, Bool.or_eq_true, Bool.not_eq_true', pairwiseB_iff,
    Bool.not_eq_true']
  constructor
  · intro h ix hix hu
    rcases h ix hix with h' | h'
    · rw [hu] at h'; cases h'
    · exact h'
  · intro h ix hix
    cases hu : ix.unique with
    | false => left; rfl
    | true => right; exact h ix hix hu

/-- `ValueInv`, evaluated -/
def valB (c : Coll) : Bool :=
  c.indexes.all (fun ix => !ix.unique ||
    (distinctFields ix && c.docs.all (fun p => valueKeys ix p.2)))

theorem valB_iff (c : Coll) : valB c = true ↔ ValueInv c := by
  simp only [valB, ValueInv, List.all_eq_true, Bool.or_eq_true, Bool.not_eq_true',
    Bool.and_eq_true]
  constructor
  · intro h ix hix hu
    rcases h ix hix with h' | h'
    · rw [hu] at h'; cases h'
    · exact h'
  · intro h ix hix
    cases hu : ix.unique with
    | false => left; rfl
    | true => right; exact h ix hix hu

/-! ### counterexample 1: an indexed path through an array (no multikey keys)

(The former witnesses were repaired in the library: a dotted index path that dead-ends in a scalar —
finding `deadend-null`, with the matcher — and a stored value that looks like a query operator —
finding `operator-like-value`: the look-up now compares values as data, `{key: {$eq: value}}`;
see `olv_after` below.) -/

/-- unique index on `a.b` -/
def cexIx : Index := Index.mk "a.b_1" [("a.b", Val.int 1)] true false none none

/-- `{_id: 1, a: [{b: 1}]}` -/
def cexColl : Coll :=
  { docs := [(.int 1, .doc [("_id", .int 1), ("a", .arr [.doc [("b", .int 1)]])])],
    indexes := [cexIx] }

/-- `insert_one({_id: 2, a: [{b: 1}]})`: the same key, however one reads it (MongoDB: the multikey
    key `1`, twice; `get_value_by_dot`: no `a.b`, i.e. null, twice) — but the look-up
    `{a.b: {$eq: null}}` of `_ensure_uniques` is answered by the matcher, which walks INTO the
    array, finds `b: 1` and matches nothing (known finding `multikey`) -/
def cexOp : Val :=
  .arr [.str "insert_one", .doc [("_id", .int 2), ("a", .arr [.doc [("b", .int 1)]])]]

theorem cex_before : uniqB cexColl = true ∧ valB cexColl = false := by decide +kernel

theorem cex_after : uniqB (stepColl {} 0 cexColl cexOp).1 = false ∧
    valB (stepColl {} 0 cexColl cexOp).1 = false := by
  decide +kernel

/-- "every operation preserves `UniqInv`" is false without a domain hypothesis (known finding
    `multikey`) -/
theorem step_uniq_false :
    ¬ (∀ (cfg : Cfg) (now : Int) (c : Coll) (op : Val), UniqInv c → UniqInv (stepColl cfg now c op).1) := by
  intro H
  have h1 := (uniqB_iff _).2 (H {} 0 cexColl cexOp ((uniqB_iff _).1 cex_before.1))
  rw [cex_after.1] at h1
  cases h1

/-! ### the repaired defect `operator-like-value` (library commit 9ef8b46)

The look-up used to be the query `{key: value}`: a stored value that is an embedded document with
`$`-prefixed keys was read as a query operator.  It is now `{key: {$eq: value}}`: such a value is
data, inside the domain of the theorems, and the duplicate is rejected. -/

/-- unique index on `a` -/
def olvIx : Index := Index.mk "a_1" [("a", Val.int 1)] true false none none

/-- `{_id: 1, a: {$size: "x"}}` -/
def olvColl : Coll :=
  { docs := [(.int 1, .doc [("_id", .int 1), ("a", .doc [("$size", .str "x")])])],
    indexes := [olvIx] }

/-- `insert_one({_id: 2, a: {$size: "x"}})` (the former witness), and `{$foo: 1}` (which used to
    raise OperationFailure: unknown operator) -/
def olvOp : Val :=
  .arr [.str "insert_one", .doc [("_id", .int 2), ("a", .doc [("$size", .str "x")])]]

def olvOp2 : Val :=
  .arr [.str "insert_one", .doc [("_id", .int 2), ("a", .doc [("$foo", .int 1)])]]

theorem olv_before : uniqB olvColl = true ∧ valB olvColl = true := by decide +kernel

/-- the duplicate is rejected with DuplicateKeyError and nothing is stored; the other value is
    accepted -/
theorem olv_after :
    (match (stepColl {} 0 olvColl olvOp).2 with | .err .dupKey => true | _ => false) = true ∧
    (stepColl {} 0 olvColl olvOp).1.docs.length = 1 ∧
    (stepColl {} 0 olvColl olvOp2).2.isErr = false ∧
    uniqB (stepColl {} 0 olvColl olvOp2).1 = true ∧ valB (stepColl {} 0 olvColl olvOp2).1 = true := by
  decide +kernel

/-! ### the repaired defect `partial-type-sensitive` (library commit a320edd)

An update whose result is `==` to the old document (`1 → 1.0`) used to be stored WITHOUT
`_ensure_uniques`; with a partial filter that tells the two apart the statement restricted to the
value-key domain was false on this witness.  The check now runs on that branch as well: the
update is rejected and the collection is as before. -/

/-- unique index on `k`, restricted to the documents whose `t` is a double -/
def ptsIx : Index := Index.mk "k_1" [("k", Val.int 1)] true false none
  (some (Val.doc [("t", Val.doc [("$type", Val.str "double")])]))

/-- `{_id: 1, k: 5, t: 1.0}` is covered, `{_id: 2, k: 5, t: 1}` is not -/
def ptsColl : Coll :=
  { docs := [(.int 1, .doc [("_id", .int 1), ("k", .int 5), ("t", .dbl 1 0)]),
             (.int 2, .doc [("_id", .int 2), ("k", .int 5), ("t", .int 1)])],
    indexes := [ptsIx] }

/-- `update_one({_id: 2}, {$set: {t: 1.0}})`: the new document is `==` to the old one -/
def ptsOp : Val :=
  .arr [.str "update_one", .doc [("_id", .int 2)], .doc [("$set", .doc [("t", .dbl 1 0)])], .bool false]

theorem pts_before : uniqB ptsColl = true ∧ valB ptsColl = true := by decide +kernel

/-- the type of the field `t` of a document -/
def tKind : Val → String
  | .doc fs => (match dget "t" fs with
    | some (.int _) => "int"
    | some (.dbl _ _) => "double"
    | _ => "?")
  | _ => "?"

/-- rejected (DuplicateKeyError), nothing stored: `t` of the second document is still an int -/
theorem pts_after : (stepColl {} 0 ptsColl ptsOp).2.isErr = true ∧
    uniqB (stepColl {} 0 ptsColl ptsOp).1 = true ∧
    (stepColl {} 0 ptsColl ptsOp).1.docs.map (fun p => tKind p.2) = ["double", "int"] := by
  decide +kernel

/-! ### counterexample 2: a rejected duplicate insert need not raise a WriteError -/

def cexIxK : Index := Index.mk "k_1" [("k", Val.int 1)] true false none none

def cexCollK : Coll :=
  { docs := [(.int 1, .doc [("_id", .int 1), ("k", .int 5)])], indexes := [cexIxK] }

/-- `{_id: [], k: 5}`: the list `_id` is unhashable, TypeError comes first -/
def cexDoc : Val := .doc [("_id", .arr []), ("k", .int 5)]

/-- `some true`: rejected with a WriteError; `some false`: rejected with something else -/
def rejectedWith (r : R (Coll × Val)) : Option Bool :=
  match r with
  | .error e => some e.isWriteError
  | .ok _ => none

theorem cex_insert : rejectedWith (insertDoc 0 cexCollK cexDoc) = some false := by decide +kernel

theorem cex_insert_hyps : valB cexCollK = true ∧
    covers cexIxK (.doc [("_id", .int 1), ("k", .int 5)]) = true ∧
    covers cexIxK (patchDT cexDoc) = true ∧ valueKeys cexIxK (patchDT cexDoc) = true ∧
    keyEq (keyVals cexIxK (.doc [("_id", .int 1), ("k", .int 5)])) (keyVals cexIxK (patchDT cexDoc)) = true := by
  decide +kernel

/-- the first formulation of `dup_write_rejected` (conclusion: a WriteError) is false -/
theorem dup_write_writeError_false :
    ¬ (∀ (now : Int) (c : Coll) (d : Val) (ix : Index) (p : Val × Val),
        ValueInv c → ix ∈ c.indexes → ix.unique = true → c.ttlIndexes = [] → p ∈ c.docs →
        covers ix p.2 = true → covers ix (patchDT d) = true → valueKeys ix (patchDT d) = true →
        keyEq (keyVals ix p.2) (keyVals ix (patchDT d)) = true →
        (∃ fs, d = .doc fs ∧ dhas "_id" fs = true) →
        ∃ e, insertDoc now c d = .error e ∧ e.isWriteError = true) := by
  intro H
  obtain ⟨h1, h2, h3, h4, h5⟩ := cex_insert_hyps
  obtain ⟨e, he, hw⟩ := H 0 cexCollK cexDoc cexIxK (.int 1, .doc [("_id", .int 1), ("k", .int 5)])
    ((valB_iff _).1 h1) (by simp [cexCollK]) rfl rfl (by simp [cexCollK]) h2 h3 h4 h5
    ⟨_, rfl, by decide +kernel⟩
  have := cex_insert
  rw [he] at this
  simp [rejectedWith, hw] at this

end MongoModel.Proofs.C06Lemmas
