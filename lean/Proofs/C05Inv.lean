/-
  Proofs.C05Inv — the invariant carried through the operations, in the weak form
  "stored under its `_id` syntactically, or under a value `==` to it", and a single insert.
-/
import Proofs.C05Store
import Proofs.StoreFlag

set_option linter.unusedSimpArgs false
set_option linter.unusedVariables false

namespace MongoModel.Proofs.C05Lemmas
open MongoModel MongoModel.Spec

/-- weak form of `KeyIsId` for one entry -/
def EntW (p : Val × Val) : Prop := ∃ id, idOf p.2 = some id ∧ (p.1 = id ∨ pyEq p.1 id = true)

/-- strong form (the one of `KeyIsId`) -/
def EntS (p : Val × Val) : Prop := ∃ id, idOf p.2 = some id ∧ pyEq p.1 id = true

theorem EntS.toW {p : Val × Val} (h : EntS p) : EntW p := by
  obtain ⟨id, h1, h2⟩ := h; exact ⟨id, h1, Or.inr h2⟩

theorem EntW.toS {p : Val × Val} (h : EntW p) (hr : pyEq p.1 p.1 = true) : EntS p := by
  obtain ⟨id, h1, h2⟩ := h
  refine ⟨id, h1, ?_⟩
  rcases h2 with e | h2
  · rw [← e]; exact hr
  · exact h2

def WInv (c : Coll) : Prop := KeysDistinct c ∧ ∀ p ∈ c.docs, EntW p

theorem IdInv.toW {c : Coll} (h : IdInv c) : WInv c := ⟨h.1, fun p hp => EntS.toW (h.2 p hp)⟩

theorem WInv.toId {c : Coll} (h : WInv c) (hr : ∀ p ∈ c.docs, pyEq p.1 p.1 = true) : IdInv c :=
  ⟨h.1, fun p hp => EntW.toS (h.2 p hp) (hr p hp)⟩

theorem KeysDistinct.sub {c' c : Coll} (hs : Sub c' c) (h : KeysDistinct c) : KeysDistinct c' :=
  List.Pairwise.sublist hs h

theorem all_sub {P : Val × Val → Prop} {c' c : Coll} (hs : Sub c' c) (h : ∀ p ∈ c.docs, P p) :
    ∀ p ∈ c'.docs, P p := fun p hp => h p (hs.subset hp)

theorem WInv.sub {c' c : Coll} (hs : Sub c' c) (h : WInv c) : WInv c' :=
  ⟨KeysDistinct.sub hs h.1, all_sub hs h.2⟩

theorem IdInv.sub {c' c : Coll} (hs : Sub c' c) (h : IdInv c) : IdInv c' :=
  ⟨KeysDistinct.sub hs h.1, all_sub hs h.2⟩

/-! ### `setDoc` -/

theorem hasKey_false_iff (c : Coll) (k : Val) :
    c.hasKey k = false ↔ ∀ p ∈ c.docs, pyEq p.1 k = false := by
  simp [Coll.hasKey]

theorem setDoc_fresh (c : Coll) (k d : Val) (h : c.hasKey k = false) :
    (c.setDoc k d).docs = c.docs ++ [(k, d)] := by
  simp [Coll.setDoc, h]

theorem storeDoc_fresh (c : Coll) (k d : Val) (h : c.hasKey k = false) :
    (c.storeDoc k d).docs = c.docs ++ [(k, d)] := by
  rw [storeDoc_docs, setDoc_fresh c k d h]

theorem setDoc_present (c : Coll) (k d : Val) (h : c.hasKey k = true) :
    (c.setDoc k d).docs = c.docs.map (fun p => if pyEq p.1 k then (p.1, d) else p) := by
  simp [Coll.setDoc, h]

theorem lookup_some (c : Coll) (k cur : Val) (h : c.lookup k = some cur) :
    ∃ q ∈ c.docs, pyEq q.1 k = true ∧ q.2 = cur := by
  unfold Coll.lookup at h
  cases hf : c.docs.find? (fun p => pyEq p.1 k) with
  | none => simp [hf] at h
  | some q =>
    simp [hf] at h
    exact ⟨q, List.mem_of_find?_eq_some hf, by simpa using List.find?_some hf, h⟩

theorem lookup_hasKey (c : Coll) (k cur : Val) (h : c.lookup k = some cur) : c.hasKey k = true := by
  obtain ⟨q, hq, hk, _⟩ := lookup_some c k cur h
  simp only [Coll.hasKey, List.any_eq_true]
  exact ⟨q, hq, hk⟩

theorem KeysDistinct.append {c c' : Coll} (k d : Val) (h : KeysDistinct c)
    (hf : c.hasKey k = false) (hd : c'.docs = c.docs ++ [(k, d)]) : KeysDistinct c' := by
  unfold KeysDistinct at *
  rw [hd, List.pairwise_append]
  refine ⟨h, List.pairwise_singleton _ _, ?_⟩
  intro a ha b hb
  simp at hb; subst hb
  exact (hasKey_false_iff c k).mp hf a ha

theorem KeysDistinct.sameKeys {c c' : Coll} (h : KeysDistinct c)
    (hk : c'.docs.map (·.1) = c.docs.map (·.1)) : KeysDistinct c' := by
  unfold KeysDistinct at *
  have e : ∀ l : List (Val × Val), l.Pairwise (fun a b => pyEq a.1 b.1 = false) ↔
      (l.map (·.1)).Pairwise (fun a b => pyEq a b = false) := by
    intro l; rw [List.pairwise_map]
  rw [e] at *
  rw [hk]; exact h

theorem setDoc_present_keys (c : Coll) (k d : Val) (h : c.hasKey k = true) :
    (c.setDoc k d).docs.map (·.1) = c.docs.map (·.1) := by
  rw [setDoc_present c k d h, List.map_map]
  apply List.map_congr_left
  intro p _
  simp only [Function.comp]
  split <;> rfl

/-! ### `patchDT` and `_id` -/

theorem dget_patchFields (k : String) (fs : Fields) :
    dget k (patchFields fs) = (dget k fs).map patchDT := by
  induction fs with
  | nil => simp [patchFields, dget]
  | cons kv fs ih =>
    obtain ⟨k', v⟩ := kv
    simp only [patchFields, dget]
    split
    · simp
    · exact ih

theorem dget_dset_self (k : String) (v : Val) (fs : Fields) : dget k (dset k v fs) = some v := by
  induction fs with
  | nil => simp [dset, dget]
  | cons kv fs ih =>
    obtain ⟨k', v'⟩ := kv
    simp only [dset]
    split
    · simp [dget]
    · rename_i ne; simp [dget, ne, ih]

theorem storeKey_ok (id key : Val) (h : storeKey id = .ok key) : key = id := by
  unfold storeKey at h
  split at h
  · cases h
  · split at h
    · cases h; rfl
    · cases h

/-! ### a single insert -/

/-- `insertDoc` once the `_id` has been generated: `fs1` has an `_id` -/
def insertCore (now : Int) (c0 : Coll) (fs1 : Fields) : R (Coll × Val) := do
  let d := patchDT (.doc fs1)
  let id := match d with | .doc ds => (dget "_id" ds).getD .null | _ => .null
  let key ← storeKey id
  let c1 ← expire now c0
  if c1.hasKey key then .error .dupKey
  else do
    let c2 := c1.storeDoc key d
    match ensureUniques now c2 d with
    | .ok c3 => pure (c3, id)
    | .error e => .error e

theorem insertDoc_eq (now : Int) (c : Coll) (fs : Fields) :
    insertDoc now c (.doc fs) =
      if dhas "_id" fs then insertCore now c fs
      else insertCore now { c with nextOid := c.nextOid + 1 } (dset "_id" (.oid c.nextOid) fs) := by
  by_cases hh : dhas "_id" fs = true
  · simp only [insertDoc, insertCore, hh, if_true]; rfl
  · simp only [insertDoc, insertCore, hh, if_false]; rfl

theorem insertCore_spec (now : Int) (c0 : Coll) (fs1 : Fields) (c' : Coll) (id : Val)
    (hid : dhas "_id" fs1 = true)
    (h : insertCore now c0 fs1 = .ok (c', id)) :
    dget "_id" (patchFields fs1) = some id ∧ storeKey id = .ok id ∧
    ∃ c1, expire now c0 = .ok c1 ∧ c1.hasKey id = false ∧
      ensureUniques now (c1.storeDoc id (.doc (patchFields fs1))) (.doc (patchFields fs1)) = .ok c' := by
  unfold insertCore at h
  simp only [patchDT, patch, bind, Except.bind, pure, Except.pure] at h
  have hsome : ∃ w, dget "_id" (patchFields fs1) = some w := by
    rw [dget_patchFields]
    simp only [dhas, Option.isSome_iff_exists] at hid
    obtain ⟨a, ha⟩ := hid
    exact ⟨patchDT a, by simp [ha]⟩
  obtain ⟨w, hw⟩ := hsome
  simp only [hw, Option.getD_some] at h
  cases hk : storeKey w with
  | error e => simp [hk] at h
  | ok key =>
    have := storeKey_ok w key hk; subst this
    simp only [hk] at h
    cases he : expire now c0 with
    | error e => simp [he] at h
    | ok c1 =>
      simp only [he] at h
      split at h
      · cases h
      · rename_i hh
        split at h
        · rename_i c3 hu
          cases h
          exact ⟨hw, hk, c1, rfl, by simpa using hh, hu⟩
        · cases h

theorem insertDoc_spec (now : Int) (c : Coll) (data : Val) (c' : Coll) (id : Val)
    (h : insertDoc now c data = .ok (c', id)) :
    ∃ c1 d, Sub c1 c ∧ c1.hasKey id = false ∧ idOf d = some id ∧ storeKey id = .ok id ∧
      c'.docs.Sublist (c1.docs ++ [(id, d)]) := by
  cases data with
  | doc fs =>
    rw [insertDoc_eq] at h
    split at h
    · rename_i hh
      obtain ⟨h1, h2, c1, he, hf, hu⟩ := insertCore_spec now c fs c' id hh h
      refine ⟨c1, .doc (patchFields fs), expire_sub now c c1 he, hf, h1, h2, ?_⟩
      have := ensureUniques_sub now _ _ _ hu
      unfold Sub at this
      rwa [storeDoc_fresh _ _ _ hf] at this
    · have hh : dhas "_id" (dset "_id" (.oid c.nextOid) fs) = true := by
        simp [dhas, dget_dset_self]
      obtain ⟨h1, h2, c1, he, hf, hu⟩ := insertCore_spec now _ _ c' id hh h
      refine ⟨c1, .doc (patchFields (dset "_id" (.oid c.nextOid) fs)),
        (show c1.docs.Sublist c.docs from expire_sub now { c with nextOid := c.nextOid + 1 } c1 he), hf, h1, h2, ?_⟩
      have := ensureUniques_sub now _ _ _ hu
      unfold Sub at this
      rwa [storeDoc_fresh _ _ _ hf] at this
  | _ => simp [insertDoc] at h

theorem insertDoc_winv (now : Int) (c : Coll) (data : Val) (c' : Coll) (id : Val)
    (h : insertDoc now c data = .ok (c', id)) (hi : WInv c) : WInv c' := by
  obtain ⟨c1, d, hs, hf, hd, _, hsub⟩ := insertDoc_spec now c data c' id h
  have h1 : WInv c1 := hi.sub hs
  let c2 : Coll := { c1 with docs := c1.docs ++ [(id, d)] }
  have h2 : WInv c2 := by
    refine ⟨KeysDistinct.append id d h1.1 hf rfl, ?_⟩
    intro p hp
    simp only [c2, List.mem_append, List.mem_singleton] at hp
    rcases hp with hp | rfl
    · exact h1.2 p hp
    · exact ⟨id, hd, Or.inl rfl⟩
  exact WInv.sub (c := c2) hsub h2

end MongoModel.Proofs.C05Lemmas
