/-
  Proofs.C02Frame — the frame of a whole operator update: every operator step edits the document
  at most at the top-level keys it addresses (`untouched_fields`).
-/
import Proofs.C02Ops

set_option linter.unusedSimpArgs false
set_option linter.unusedVariables false

namespace MongoModel.Proofs.C02Lemmas
open MongoModel MongoModel.Spec

/-! ### paths are never empty -/

theorem splitDotsChars_ne_nil : ∀ (cs cur : List Char), splitDotsChars cs cur ≠ []
  | [], cur => by simp [splitDotsChars]
  | c :: r, cur => by
    simp only [splitDotsChars]
    split
    · simp
    · exact splitDotsChars_ne_nil r _

theorem splitDots_cons (field : String) :
    splitDots field = headOf field :: (splitDots field).tail := by
  unfold headOf
  have h : splitDots field ≠ [] := splitDotsChars_ne_nil _ _
  cases hs : splitDots field with
  | nil => exact absurd hs h
  | cons a r => simp

theorem splitDotsChars_nodot : ∀ (cs cur : List Char), '.' ∉ cs →
    splitDotsChars cs cur = [String.ofList (cur.reverse ++ cs)]
  | [], cur, _ => by simp [splitDotsChars]
  | c :: r, cur, h => by
    simp only [List.mem_cons, not_or] at h
    have hc : ¬ c = '.' := fun e => h.1 e.symm
    simp only [splitDotsChars, hc, if_false]
    rw [splitDotsChars_nodot r _ h.2]
    simp

theorem headOf_nodot (s : String) (h : s.toList.contains '.' = false) : headOf s = s := by
  have h' : '.' ∉ s.toList := by simpa using h
  unfold headOf splitDots
  rw [splitDotsChars_nodot _ _ h']
  simp [String.ofList_toList]

/-! ### `withSubdoc` on a document edits one top-level key -/

theorem bind_pure_ok {x : R Val} {g : Val → Val} {d' : Val}
    (h : (do let s ← x; pure (g s)) = Except.ok d') : ∃ s, d' = g s := by
  cases x with
  | error e => cases h
  | ok s => cases h; exact ⟨s, rfl⟩

theorem bind_ok {α : Type} {x : R α} {g : α → R Val} {d' : Val}
    (h : (do let s ← x; g s) = Except.ok d') : ∃ s, x = .ok s ∧ g s = .ok d' := by
  cases x with
  | error e => cases h
  | ok s => exact ⟨s, rfl, h⟩

theorem withSubdoc_doc_touch (f : Val → String → R Val) (create : Bool) (p : String)
    (rest : List String) (fol : Bool) (ss : Val) (fs : Fields) (d' : Val)
    (hf : ∀ d', f (.doc fs) p = .ok d' → ∃ fs', d' = .doc fs' ∧ Touch p fs fs')
    (h : withSubdoc f create (p :: rest) fol ss (.doc fs) = .ok d') :
    ∃ fs', d' = .doc fs' ∧ Touch p fs fs' := by
  cases rest with
  | nil =>
    simp only [withSubdoc] at h
    exact hf d' h
  | cons q rest =>
    simp only [withSubdoc] at h
    split at h
    · cases h; exact ⟨_, rfl, .inl rfl⟩
    generalize (ite ((!fol) = true) _ _ : Bool × Val × Bool) = t at h
    by_cases hb : t.2.2 = true
    · rw [if_pos hb] at h; cases h
    · rw [if_neg hb] at h
      obtain ⟨s, rfl⟩ := bind_pure_ok h
      exact ⟨_, rfl, .inr (.inl ⟨_, rfl⟩)⟩

end MongoModel.Proofs.C02Lemmas

namespace MongoModel.Proofs.C02Lemmas
open MongoModel MongoModel.Spec

/-! ### one field of one operator -/

theorem headOf_of_single {field f : String} (h : splitDots field = [f]) : headOf field = f := by
  simp [headOf, h]

theorem fieldStep_touch (u : Updater) (now : Val) (kv : String × Val) (fs : Fields) (d' : Val)
    (h : (if !keyOk kv.1 then unmodelled
          else updateSingleField u now kv.2 (splitDots kv.1) (.doc fs)) = .ok d') :
    ∃ fs', d' = .doc fs' ∧ Touch (headOf kv.1) fs fs' := by
  split at h
  · cases h
  · rw [splitDots_cons] at h
    exact usf_doc_touch u now kv.2 _ _ fs d' h

theorem addToSetField_touch (spec : Val) (fs : Fields) (field : String) (value d' : Val)
    (h : addToSetField spec (.doc fs) field value = .ok d') :
    ∃ fs', d' = .doc fs' ∧ Touch (headOf field) fs fs' := by
  simp only [addToSetField] at h
  split at h
  · cases h
  split at h
  · cases h
  split at h
  · rename_i f fs0 hsd hd
    cases hd
    obtain ⟨s, rfl⟩ := bind_pure_ok h
    rw [headOf_of_single hsd]
    exact ⟨_, rfl, .inr (.inl ⟨_, rfl⟩)⟩
  · split at h
    · cases h
    · rw [splitDots_cons] at h
      refine withSubdoc_doc_touch _ _ _ _ _ _ fs d' ?_ h
      intro d'' h'
      obtain ⟨s, rfl⟩ := bind_pure_ok h'
      exact ⟨_, rfl, .inr (.inl ⟨_, rfl⟩)⟩

end MongoModel.Proofs.C02Lemmas

namespace MongoModel.Proofs.C02Lemmas
open MongoModel MongoModel.Spec

theorem pullField_touch (fs : Fields) (field : String) (value d' : Val)
    (h : pullField (.doc fs) field value = .ok d') :
    ∃ fs', d' = .doc fs' ∧ Touch (headOf field) fs fs' := by
  simp only [pullField] at h
  split at h
  · cases h
  split at h
  · cases h
  rw [splitDots_cons] at h
  simp only [pullWalk] at h
  split at h
  · obtain ⟨s, rfl⟩ := bind_pure_ok h
    exact ⟨_, rfl, .inr (.inl ⟨_, rfl⟩)⟩
  · cases h; exact ⟨_, rfl, .inl rfl⟩

theorem pullAllField_touch (spec : Val) (fs : Fields) (field : String) (value d' : Val)
    (h : pullAllField spec (.doc fs) field value = .ok d') :
    ∃ fs', d' = .doc fs' ∧ Touch (headOf field) fs fs' := by
  simp only [pullAllField] at h
  split at h
  · cases h
  split at h
  · cases h
  split at h
  · rename_i f fs0 hsd hd
    cases hd
    rw [headOf_of_single hsd]
    split at h
    · obtain ⟨s, rfl⟩ := bind_pure_ok h
      exact ⟨_, rfl, .inr (.inl ⟨_, rfl⟩)⟩
    · cases h; exact ⟨_, rfl, .inl rfl⟩
  · rw [splitDots_cons] at h
    refine withSubdoc_doc_touch _ _ _ _ _ _ fs d' ?_ h
    intro d'' h'
    simp only [pullAllAt] at h'
    split at h'
    · obtain ⟨s, rfl⟩ := bind_pure_ok h'
      exact ⟨_, rfl, .inr (.inl ⟨_, rfl⟩)⟩
    · cases h'; exact ⟨_, rfl, .inl rfl⟩

/-! ### `$pullAll` on a path that does not exist -/

theorem getPath_single_doc_none {last : String} {ps : Fields}
    (h : getPath [last] (.doc ps) = none) : dget last ps = none := by
  cases hg : dget last ps with
  | none => rfl
  | some v => simp [getPath, hg] at h

theorem withSubdoc_nocreate_missing (f : Val → String → R Val)
    (hf : ∀ parent last r, getPath [last] parent = none → f parent last = .ok r → r = parent) :
    ∀ (parts : List String) (fol : Bool) (ss d d' : Val), parts ≠ [] →
      getPath parts d = none → withSubdoc f false parts fol ss d = .ok d' → d' = d
  | [], _, _, _, _, hp, _, _ => absurd rfl hp
  | [last], fol, ss, d, d', _, hm, h => by
    cases d with
    | arr xs =>
      simp only [withSubdoc] at h
      split at h
      · cases h
      · split at h
        · cases h
        · exact hf _ _ _ hm h
    | _ => simp only [withSubdoc] at h; exact hf _ _ _ hm h
  | part :: q :: rest, fol, ss, d, d', _, hm, h => by
    cases d with
    | arr xs =>
      simp only [withSubdoc] at h
      split at h
      · cases h
      · cases hi : pyInt? part with
        | none => simp only [hi] at h; cases h
        | some i =>
          simp only [hi] at h
          by_cases hneg : i < 0
          · simp [hneg, unmodelled] at h
          · simp only [hneg, if_false] at h
            cases hx : xs[i.toNat]? with
            | none => simp only [hx] at h; cases h
            | some sub =>
              simp only [hx] at h
              obtain ⟨sub', h1, h2⟩ := bind_ok h
              cases h2
              have hgp : getPath (q :: rest) sub = none := by
                simpa [getPath, hi, hneg, hx] using hm
              rw [withSubdoc_nocreate_missing f hf (q :: rest) _ _ sub sub' (by simp) hgp h1]
              congr 1
              rcases List.getElem?_eq_some_iff.mp hx with ⟨hl, he⟩
              rw [← he]; exact List.set_getElem_self hl
    | doc fs =>
      simp only [withSubdoc] at h
      cases hg : dget part fs with
      | none => simp [hg] at h; exact h.symm
      | some sub =>
        simp only [hg, Option.isNone_some, Bool.and_false, Bool.false_eq_true, if_false,
          Option.getD_some] at h
        generalize (ite ((!fol) = true) _ _ : Bool × Val × Bool) = t at h
        by_cases hb : t.2.2 = true
        · rw [if_pos hb] at h; cases h
        · rw [if_neg hb] at h
          obtain ⟨sub', h1, h2⟩ := bind_ok h
          cases h2
          have hgp : getPath (q :: rest) sub = none := by
            simpa [getPath, hg] using hm
          rw [withSubdoc_nocreate_missing f hf (q :: rest) _ _ sub sub' (by simp) hgp h1,
            dset_self hg]
    | str s =>
      simp only [withSubdoc] at h
      split at h
      · cases h; rfl
      · cases h
    | _ => simp only [withSubdoc] at h; cases h
  termination_by parts => parts.length

theorem pullAll_missing_noop (spec d : Val) (field : String) (value d' : Val)
    (hm : getPath (splitDots field) d = none)
    (h : pullAllField spec d field value = .ok d') : d' = d := by
  simp only [pullAllField] at h
  split at h
  · cases h
  split at h
  · cases h
  split at h
  · rename_i f fs0 hsd
    rw [hsd] at hm
    rw [getPath_single_doc_none hm] at h
    cases h; rfl
  · refine withSubdoc_nocreate_missing _ ?_ _ _ _ _ d' (splitDotsChars_ne_nil _ _) hm h
    intro parent last r hp hr
    cases parent with
    | doc ps =>
      simp only [pullAllAt, getPath_single_doc_none hp] at hr
      cases hr; rfl
    | arr xs =>
      simp only [pullAllAt] at hr
      split at hr
      · split at hr
        · rename_i i hpy
          split at hr
          · cases hr; rfl
          · rename_i hneg
            split at hr
            · rename_i cur hx
              simp [getPath, hpy, hneg, hx] at hp
            · cases hr; rfl
        · cases hr
      · cases hr; rfl
    | _ => simp only [pullAllAt] at hr; cases hr; rfl

theorem pushField_touch (spec : Val) (fs : Fields) (field : String) (value d' : Val)
    (h : pushField spec (.doc fs) field value = .ok d') :
    ∃ fs', d' = .doc fs' ∧ Touch (headOf field) fs fs' := by
  simp only [pushField] at h
  split at h
  · cases h
  split at h
  · cases h
  rw [splitDots_cons] at h
  refine withSubdoc_doc_touch _ _ _ _ _ _ fs d' ?_ h
  intro d'' h'
  obtain ⟨s, rfl⟩ := bind_pure_ok h'
  exact ⟨_, rfl, .inr (.inl ⟨_, rfl⟩)⟩

end MongoModel.Proofs.C02Lemmas

namespace MongoModel.Proofs.C02Lemmas
open MongoModel MongoModel.Spec

/-! ### frames compose -/

/-- every top-level key outside `ks` reads the same in `fs'` as in `fs` -/
def Frame (ks : List String) (fs fs' : Fields) : Prop := ∀ k, k ∉ ks → dget k fs' = dget k fs

theorem Frame.refl (ks : List String) (fs : Fields) : Frame ks fs fs := fun _ _ => rfl

theorem Frame.trans {ks ks' : List String} {fs fs1 fs2 : Fields} (h1 : Frame ks fs fs1)
    (h2 : Frame ks' fs1 fs2) : Frame (ks ++ ks') fs fs2 := by
  intro k hk
  simp only [List.mem_append, not_or] at hk
  rw [h2 k hk.2, h1 k hk.1]

theorem Touch.frame {p : String} {fs fs' : Fields} (h : Touch p fs fs') {ks : List String}
    (hp : p ∈ ks) : Frame ks fs fs' := by
  intro k hk
  exact h.dget (fun e => hk (e ▸ hp))

theorem foldlM_frame (step : Val → (String × Val) → R Val) (keyOf : String × Val → List String)
    (hstep : ∀ fs kv d', step (.doc fs) kv = .ok d' →
      ∃ fs', d' = .doc fs' ∧ Frame (keyOf kv) fs fs') :
    ∀ (body : Fields) (fs : Fields) (d' : Val), body.foldlM step (.doc fs) = .ok d' →
      ∃ fs', d' = .doc fs' ∧ Frame (body.flatMap keyOf) fs fs'
  | [], fs, d', h => by
    simp only [List.foldlM_nil, pure, Except.pure] at h
    cases h; exact ⟨fs, rfl, Frame.refl _ _⟩
  | kv :: body, fs, d', h => by
    simp only [List.foldlM_cons] at h
    obtain ⟨d1, h1, h2⟩ := bind_ok h
    obtain ⟨fs1, rfl, hf1⟩ := hstep fs kv d1 h1
    obtain ⟨fs2, rfl, hf2⟩ := foldlM_frame step keyOf hstep body fs1 d' h2
    exact ⟨fs2, rfl, by simpa [List.flatMap_cons] using hf1.trans hf2⟩

/-- the top-level keys one operator `k : v` addresses -/
def opAddr (k : String) (v : Val) : List String :=
  match v with
  | .doc body => body.flatMap (fun fv =>
      headOf fv.1 :: (if k = "$rename" then (match fv.2 with | .str d => [d] | _ => []) else []))
  | _ => []

theorem addressed_cons (k : String) (v : Val) (rest : Fields) :
    addressed ((k, v) :: rest) = opAddr k v ++ addressed rest := by
  simp only [addressed, opAddr, List.flatMap_cons]
  cases v <;> rfl

theorem updateFields_frame (u : Updater) (now v : Val) (fs : Fields) (d' : Val) (k : String)
    (h : updateFields u now v (.doc fs) = .ok d') :
    ∃ fs', d' = .doc fs' ∧ Frame (opAddr k v) fs fs' := by
  cases v with
  | doc body =>
    simp only [updateFields] at h
    split at h
    · cases h
    · simp only [opAddr]
      refine foldlM_frame _ _ ?_ body fs d' h
      intro fs0 kv d0 h0
      obtain ⟨fs1, rfl, ht⟩ := fieldStep_touch u now kv fs0 d0 h0
      exact ⟨fs1, rfl, ht.frame (by simp)⟩
  | _ => simp [updateFields] at h

theorem eachField_frame (f : Val → String → Val → R Val)
    (hf : ∀ fs field value d', f (.doc fs) field value = .ok d' →
      ∃ fs', d' = .doc fs' ∧ Touch (headOf field) fs fs')
    (v : Val) (fs : Fields) (d' : Val) (k : String)
    (h : eachField v (.doc fs) f = .ok d') :
    ∃ fs', d' = .doc fs' ∧ Frame (opAddr k v) fs fs' := by
  cases v with
  | doc body =>
    simp only [eachField] at h
    simp only [opAddr]
    refine foldlM_frame _ _ ?_ body fs d' h
    intro fs0 kv d0 h0
    obtain ⟨fs1, rfl, ht⟩ := hf fs0 kv.1 kv.2 d0 h0
    exact ⟨fs1, rfl, ht.frame (by simp)⟩
  | _ => simp [eachField] at h

theorem renameFields_frame (v : Val) (fs : Fields) (d' : Val)
    (h : renameFields v (.doc fs) = .ok d') :
    ∃ fs', d' = .doc fs' ∧ Frame (opAddr "$rename" v) fs fs' := by
  cases v with
  | doc body =>
    simp only [renameFields, eachField] at h
    simp only [opAddr, if_true]
    refine foldlM_frame _ _ ?_ body fs d' h
    intro fs0 kv d0 h0
    obtain ⟨src, dstv⟩ := kv
    simp only at h0
    split at h0
    · rename_i dst
      split at h0
      · cases h0
      · rename_i hdots
        simp only [Bool.or_eq_true, not_or, Bool.not_eq_true] at hdots
        split at h0
        · cases h0
          refine ⟨_, rfl, ?_⟩
          intro k hk
          simp only [headOf_nodot src hdots.1, List.mem_cons, List.not_mem_nil, or_false,
            not_or] at hk
          rw [dget_dset_other _ hk.2, dget_derase_other hk.1]
        · cases h0; exact ⟨_, rfl, Frame.refl _ _⟩
    · cases h0
    · cases h0
    · split at h0 <;> cases h0
  | _ => simp [renameFields, eachField] at h

end MongoModel.Proofs.C02Lemmas

namespace MongoModel.Proofs.C02Lemmas
open MongoModel MongoModel.Spec

/-! ### the operator loop -/

theorem replaceWhole_dollar (whole : Fields) (d : Val)
    (hw : whole.any (fun kv => kv.1.startsWith "$") = true) :
    replaceWhole whole d = .error .valueErr := by
  simp only [replaceWhole, hw, if_true]

theorem applyOps_frame (spec now : Val) (wi : Bool) (whole : Fields)
    (hw : whole.any (fun kv => kv.1.startsWith "$") = true) :
    ∀ (ops : Fields) (first : Bool) (fs : Fields) (d' : Val),
      applyOps spec now wi whole ops first (.doc fs) = .ok d' →
      ∃ fs', d' = .doc fs' ∧ Frame (addressed ops) fs fs'
  | [], first, fs, d', h => by
    simp only [applyOps] at h
    cases h; exact ⟨fs, rfl, Frame.refl _ _⟩
  | (k, v) :: rest, first, fs, d', h => by
    rw [addressed_cons]
    have key : ∀ (X : R Val),
        (∀ d1, X = .ok d1 → ∃ fs1, d1 = .doc fs1 ∧ Frame (opAddr k v) fs fs1) →
        (do let d' ← X; applyOps spec now wi whole rest false d') = Except.ok d' →
        ∃ fs', d' = .doc fs' ∧ Frame (opAddr k v ++ addressed rest) fs fs' := by
      intro X hX hb
      obtain ⟨d1, h1, h2⟩ := bind_ok hb
      obtain ⟨fs1, rfl, hf1⟩ := hX d1 h1
      obtain ⟨fs2, rfl, hf2⟩ := applyOps_frame spec now wi whole hw rest false fs1 d' h2
      exact ⟨fs2, rfl, hf1.trans hf2⟩
    simp only [applyOps] at h
    split at h
    · rename_i u hu
      exact key _ (fun d1 h1 => updateFields_frame u now v fs d1 k h1) h
    · split at h
      · rename_i hk; subst hk
        exact key _ (fun d1 h1 => renameFields_frame v fs d1 h1) h
      split at h
      · split at h
        · obtain ⟨fs2, rfl, hf2⟩ := applyOps_frame spec now wi whole hw rest first fs d' h
          refine ⟨fs2, rfl, ?_⟩
          intro k' hk'
          simp only [List.mem_append, not_or] at hk'
          exact hf2 k' hk'.2
        · exact key _ (fun d1 h1 => updateFields_frame .set now v fs d1 k h1) h
      split at h
      · exact key _ (fun d1 h1 => updateFields_frame .currentDate now v fs d1 k h1) h
      split at h
      · exact key _ (fun d1 h1 => eachField_frame _
          (fun fs0 f0 v0 d0 => addToSetField_touch spec fs0 f0 v0 d0) v fs d1 k h1) h
      split at h
      · exact key _ (fun d1 h1 => eachField_frame _
          (fun fs0 f0 v0 d0 => pullField_touch fs0 f0 v0 d0) v fs d1 k h1) h
      split at h
      · exact key _ (fun d1 h1 => eachField_frame _
          (fun fs0 f0 v0 d0 => pullAllField_touch spec fs0 f0 v0 d0) v fs d1 k h1) h
      split at h
      · exact key _ (fun d1 h1 => eachField_frame _
          (fun fs0 f0 v0 d0 => pushField_touch spec fs0 f0 v0 d0) v fs d1 k h1) h
      split at h
      · rw [replaceWhole_dollar whole _ hw] at h; cases h
      · cases h

end MongoModel.Proofs.C02Lemmas
