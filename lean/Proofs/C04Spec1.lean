/-
  Proofs.C04Spec1 — infrastructure for `eval_eq_spec`: dispatch facts, the induction principle
  over all sub-values, the relation between the model's and the oracle's variable bindings,
  paths, constants.
-/
import Proofs.C04Date

set_option linter.unusedSimpArgs false

namespace MongoModel.Proofs.C04
open MongoModel MongoModel.Expr MongoModel.Spec

/-! ### dispatch: a key that does not start with `$` is a plain field -/

theorem not_mem_of_dollar (xs : List String) (k : String)
    (hx : xs.all startsDollar = true) (hk : startsDollar k = false) : k ∉ xs := by
  intro hm
  have := List.all_eq_true.mp hx k hm
  rw [this] at hk; cases hk

theorem classify_plain (k : String) (hk : startsDollar k = false) : classify k = .plain := by
  have h (xs : List String) (hx : xs.all startsDollar = true) := not_mem_of_dollar xs k hx hk
  have hk' : ¬ (k.toList.head? = some '$') := by simpa [startsDollar] using hk
  simp [classify, h arithmeticOps (by decide), h projectOps (by decide), h projectionOps (by decide),
    h comparisonOps (by decide), h dateOps (by decide), h arrayOps (by decide),
    h conditionalOps (by decide), h controlFlowOps (by decide), h setOps (by decide),
    h stringOps (by decide), h typeConvOps (by decide), h typeOps (by decide),
    h booleanOps (by decide), h otherKnownOps (by decide), hk']

/-! ### induction over a value and everything below it -/

mutual
  /-- `P` holds of the value and of every value below it -/
  def AllSub (P : Val → Prop) : Val → Prop
    | .doc fs => P (.doc fs) ∧ AllSubFields P fs
    | .arr xs => P (.arr xs) ∧ AllSubList P xs
    | v => P v
  def AllSubFields (P : Val → Prop) : Fields → Prop
    | [] => True
    | (_, v) :: r => AllSub P v ∧ AllSubFields P r
  def AllSubList (P : Val → Prop) : List Val → Prop
    | [] => True
    | x :: r => AllSub P x ∧ AllSubList P r
end

theorem AllSub.self {P : Val → Prop} {v : Val} (h : AllSub P v) : P v := by
  cases v <;> simp [AllSub] at h <;> first | exact h | exact h.1

theorem AllSubFields.mem {P : Val → Prop} {fs : Fields} (h : AllSubFields P fs) {k : String}
    {v : Val} (hm : (k, v) ∈ fs) : AllSub P v := by
  induction fs with
  | nil => cases hm
  | cons kv r ih =>
    obtain ⟨k', v'⟩ := kv
    simp only [AllSubFields] at h
    rcases List.mem_cons.mp hm with e | hr
    · cases e; exact h.1
    · exact ih h.2 hr

theorem AllSubList.mem {P : Val → Prop} {xs : List Val} (h : AllSubList P xs) {x : Val}
    (hm : x ∈ xs) : AllSub P x := by
  induction xs with
  | nil => cases hm
  | cons y r ih =>
    simp only [AllSubList] at h
    rcases List.mem_cons.mp hm with e | hr
    · subst e; exact h.1
    · exact ih h.2 hr

theorem AllSub.fields {P : Val → Prop} {fs : Fields} (h : AllSub P (.doc fs)) : AllSubFields P fs := by
  simp [AllSub] at h; exact h.2

theorem AllSub.items {P : Val → Prop} {xs : List Val} (h : AllSub P (.arr xs)) : AllSubList P xs := by
  simp [AllSub] at h; exact h.2

/-- to prove `P` everywhere it suffices to prove it of a value given it holds *deeply* of the
    children -/
theorem allSub_of_step (P : Val → Prop)
    (hdoc : ∀ fs, AllSubFields P fs → P (.doc fs))
    (harr : ∀ xs, AllSubList P xs → P (.arr xs))
    (hleaf : ∀ v, v.isDoc = false → v.isArr = false → P v) : ∀ v, AllSub P v := by
  intro v
  refine Val.rec (motive_1 := AllSub P) (motive_2 := AllSubFields P) (motive_3 := AllSubList P)
    (motive_4 := fun p => AllSub P p.2)
    ?_ ?_ ?_ ?_ ?_ ?_ ?_ ?_ ?_ ?_ ?_ ?_ ?_ ?_ v
  · exact hleaf _ rfl rfl
  · intro b; exact hleaf _ rfl rfl
  · intro i; exact hleaf _ rfl rfl
  · intro m e; exact hleaf _ rfl rfl
  · intro s; exact hleaf _ rfl rfl
  · intro u o; exact hleaf _ rfl rfl
  · intro n; exact hleaf _ rfl rfl
  · intro fs h; exact ⟨hdoc fs h, h⟩
  · intro xs h; exact ⟨harr xs h, h⟩
  · trivial
  · intro hd tl h1 h2; obtain ⟨k, v⟩ := hd; exact ⟨h1, h2⟩
  · trivial
  · intro hd tl h1 h2; exact ⟨h1, h2⟩
  · intro k v h; exact h

/-! ### the model's bindings against the oracle's -/

/-- the model's `dict({'ROOT': d, 'CURRENT': d}, **user_vars)` (with the names bound to a missing
    value kept apart in `miss`) and the oracle's list of bindings describe the same variables -/
structure EnvRel (c : Ctx) (root : Val) (env : Env) : Prop where
  hign : c.ign = true
  hroot : c.root = root
  hvar : ∀ name,
    (match env.lookup name with
     | some (some v) => c.miss.contains name = false ∧ dget name c.env = some v
     | some none => c.miss.contains name = true
     | none => c.miss.contains name = false ∧
         dget name c.env = if name = "ROOT" ∨ name = "CURRENT" then some root else none)

theorem EnvRel.init (d : Val) : EnvRel (Ctx.init true d) d [] := by
  refine ⟨rfl, rfl, ?_⟩
  intro name
  simp only [List.lookup]
  refine ⟨by simp [Ctx.init], ?_⟩
  by_cases h1 : name = "ROOT"
  · subst h1; simp [Ctx.init, dget]
  · by_cases h2 : name = "CURRENT"
    · subst h2; simp [Ctx.init, dget]
    · have h1' : ¬ ("ROOT" = name) := fun e => h1 e.symm
      have h2' : ¬ ("CURRENT" = name) := fun e => h2 e.symm
      simp [Ctx.init, dget, h1, h2, h1', h2']

theorem dget_dset (k k' : String) (v : Val) (fs : Fields) :
    dget k' (dset k v fs) = if k' = k then some v else dget k' fs := by
  induction fs with
  | nil =>
    by_cases h : k' = k
    · subst h; simp [dset, dget]
    · have : ¬ k = k' := fun e => h e.symm
      simp [dset, dget, h, this]
  | cons kv r ih =>
    obtain ⟨a, b⟩ := kv
    by_cases ha : a = k
    · subst ha
      by_cases h : k' = a
      · subst h; simp [dset, dget]
      · have : ¬ a = k' := fun e => h e.symm
        simp [dset, dget, h, this]
    · by_cases h : k' = k
      · subst h
        simp [dset, ha, dget, ih]
      · simp only [dset, ha, if_false, dget, ih, h]

theorem contains_filter_ne (ms : List String) (name n : String) :
    (ms.filter (fun x => x != name)).contains n = (ms.contains n && n != name) := by
  induction ms with
  | nil => simp
  | cons m r ih =>
    by_cases hm : m = name
    · subst hm
      by_cases hn : n = m
      · subst hn; simp [List.filter, ih]
      · have : (n == m) = false := by simpa using hn
        simp [List.filter, ih, List.contains_cons, this, hn]
    · have h1 : (m != name) = true := by simpa using hm
      simp only [List.filter, h1, List.contains_cons, ih]
      by_cases hn : n = m
      · subst hn
        have : (n != name) = true := by simpa using hm
        simp [this]
      · have : (n == m) = false := by simpa using hn
        simp [this]

/-- binding one more variable on both sides keeps the relation -/
theorem EnvRel.bind {c : Ctx} {root : Val} {env : Env} (h : EnvRel c root env) (name : String)
    (v : Val) : EnvRel (c.bind name v) root ((name, some v) :: env) := by
  refine ⟨h.hign, h.hroot, ?_⟩
  intro n
  simp only [Ctx.bind, dget_dset, List.lookup, contains_filter_ne]
  by_cases hn : n = name
  · subst hn; simp
  · have h1 : (n == name) = false := by simpa using hn
    have h2 : (n != name) = true := by simpa using hn
    simp only [h1, h2, Bool.and_true, hn, if_false]
    exact h.hvar n

/-- the same for a `$let` variable whose value may be missing -/
theorem EnvRel.bindOpt {c : Ctx} {root : Val} {env : Env} (h : EnvRel c root env) (name : String)
    (o : Option Val) : EnvRel (c.bindOpt name o) root ((name, o) :: env) := by
  cases o with
  | some v => exact h.bind name v
  | none =>
    refine ⟨h.hign, h.hroot, ?_⟩
    intro n
    simp only [Ctx.bindOpt, List.lookup, List.contains_cons]
    by_cases hn : n = name
    · subst hn; simp
    · have h1 : (n == name) = false := by simpa using hn
      simp only [h1, Bool.false_or]
      exact h.hvar n

end MongoModel.Proofs.C04
