/-
  Proofs.C04Acc — `eval_eq_spec`: `$sum $avg $min $max` as expression operators (the library
  repairs 94aa9ad and 2f66991 brought them inside the fragment): the operator bodies against the
  rules, then the two syntactic forms (`{$op: [operands]}`, `{$op: "$path"}`).
-/
import Proofs.C04Spec10

set_option linter.unusedSimpArgs false
set_option linter.unnecessarySeqFocus false

namespace MongoModel.Proofs.C04
open MongoModel MongoModel.Expr MongoModel.Spec

/-! ### the values the operators range over -/

theorem nulled_cons (v : Option Val) (r : List (Option Val)) :
    nulled (v :: r) = v.getD .null :: nulled r := rfl

/-- the numbers `$sum` / `$avg` keep (a missing operand read as null) are the numbers of the
    rules (booleans are not) -/
theorem numsOfNB_nulled (vs : List (Option Val)) : numsOfNB (nulled vs) = numbersOf vs := by
  induction vs with
  | nil => rfl
  | cons v r ih =>
    rw [nulled_cons]
    cases v with
    | none => simp [numsOfNB, toPyNumNB, numbersOf, ih]
    | some x => cases x <;> simp [numsOfNB, toPyNumNB, numbersOf, number, ih]

theorem presentOf_none (r : List (Option Val)) : presentOf (none :: r) = presentOf r := rfl
theorem presentOf_null (r : List (Option Val)) : presentOf (some .null :: r) = presentOf r := rfl
theorem presentOf_some (x : Val) (r : List (Option Val)) (h : isNull x = false) :
    presentOf (some x :: r) = x :: presentOf r := by
  cases x <;> first | rfl | simp [isNull] at h

/-- dropping the nulls after reading missing as null = keeping what is neither -/
theorem present_nulled (vs : List (Option Val)) :
    (nulled vs).filter (fun v => !isNull v) = presentOf vs := by
  induction vs with
  | nil => rfl
  | cons v r ih =>
    rw [nulled_cons]
    cases v with
    | none =>
      have e : List.filter (fun v => !isNull v) (Option.getD none Val.null :: nulled r) =
          List.filter (fun v => !isNull v) (nulled r) := rfl
      rw [e, presentOf_none, ih]
    | some x =>
      cases hx : isNull x with
      | true =>
        have : x = .null := by cases x <;> simp [isNull] at hx; rfl
        subst this
        have e : List.filter (fun v => !isNull v) (Option.getD (some Val.null) Val.null :: nulled r) =
            List.filter (fun v => !isNull v) (nulled r) := rfl
        rw [e, presentOf_null, ih]
      | false =>
        have e : List.filter (fun v => !isNull v) (Option.getD (some x) Val.null :: nulled r) =
            x :: List.filter (fun v => !isNull v) (nulled r) := by
          show List.filter (fun v => !isNull v) (x :: nulled r) = _
          rw [List.filter_cons_of_pos (by simp [hx])]
        rw [e, presentOf_some x r hx, ih]

theorem nulled_some (ys : List Val) : nulled (ys.map some) = ys := by
  induction ys with
  | nil => rfl
  | cons y r ih => rw [List.map_cons, nulled_cons, ih]; rfl

theorem presentOf_map_some (xs : List Val) :
    presentOf (xs.map some) = xs.filter (fun v => !isNull v) := by
  rw [← present_nulled, nulled_some]

/-! ### `$min` / `$max`: `bson_compare` is the BSON order wherever no reason applies -/

theorem boolNumClash_comm (a b : Val) : boolNumClash a b = boolNumClash b a := by
  simp [boolNumClash, Bool.or_comm]

theorem ordReasons_nil (a b : Val) (h : ordReasons a b = []) :
    cmpFlat a = true ∧ cmpFlat b = true ∧ ((a.isArr || b.isArr) = true → boolNumClash a b = false) := by
  simp only [ordReasons, append_nil_iff3, ite_nil] at h
  obtain ⟨h1, _, h3⟩ := h
  have hf : (cmpFlat a && cmpFlat b) = true := by
    cases hc : (cmpFlat a && cmpFlat b) with
    | true => rfl
    | false => rw [hc] at h3; simp at h3
  simp only [Bool.and_eq_true] at hf
  refine ⟨hf.1, hf.2, ?_⟩
  intro harr
  rw [harr] at h1
  simpa using h1

/-- `bson_compare(lt, a, b)` -/
theorem bsonLt_ord (a b : Val) (h : ordReasons a b = []) :
    bsonCompare .lt a b true = .ok (ord a b == .lt) := by
  obtain ⟨ha, hb, hc⟩ := ordReasons_nil a b h
  rw [bsonCompare_eq, flat_ord a b ha hb hc]
  rfl

/-- `bson_compare(lt, b, a)` -/
theorem bsonLt_ord' (a b : Val) (h : ordReasons a b = []) :
    bsonCompare .lt b a true = .ok (ord b a == .lt) := by
  obtain ⟨ha, hb, hc⟩ := ordReasons_nil a b h
  have hc' : (b.isArr || a.isArr) = true → boolNumClash b a = false := by
    intro harr
    rw [boolNumClash_comm]
    exact hc (by rw [Bool.or_comm]; exact harr)
  rw [bsonCompare_eq, flat_ord b a hb ha hc']
  rfl

theorem pairwise_of_reasons (ys : List Val) (h : pairwiseReasons ys = []) :
    ys.Pairwise (fun a b => ordReasons a b = []) := by
  induction ys with
  | nil => exact List.Pairwise.nil
  | cons a r ih =>
    simp only [pairwiseReasons] at h
    obtain ⟨h1, h2⟩ := List.append_eq_nil_iff.mp h
    refine List.Pairwise.cons ?_ (ih h2)
    intro b hb
    exact flatten_nil _ h1 _ (List.mem_map.mpr ⟨b, hb, rfl⟩)

/-- `max(values, key=BsonComparable)` / `min(…)` is the first greatest / least value of the BSON
    order -/
theorem extremum_pure (isMax : Bool) (r : List Val) (best : Val)
    (h : (best :: r).Pairwise (fun a b => ordReasons a b = [])) :
    bsonExtremum isMax r best = .ok (extremumS isMax r best) := by
  induction r generalizing best with
  | nil => rfl
  | cons v r ih =>
    rw [List.pairwise_cons] at h
    obtain ⟨hb, hr⟩ := h
    have hbv : ordReasons best v = [] := hb v (by simp)
    have hr' := hr
    rw [List.pairwise_cons] at hr'
    have hkeep : (best :: r).Pairwise (fun a b => ordReasons a b = []) :=
      List.pairwise_cons.mpr ⟨fun a ha => hb a (by simp [ha]), hr'.2⟩
    cases isMax with
    | true =>
      simp only [bsonExtremum, extremumS, if_true, bsonLt_ord best v hbv]
      cases hc : (ord best v == .lt) with
      | true => simpa [hc] using ih v hr
      | false => simpa [hc] using ih best hkeep
    | false =>
      simp only [bsonExtremum, extremumS, Bool.false_eq_true, if_false, bsonLt_ord' best v hbv]
      cases hc : (ord v best == .lt) with
      | true => simpa [hc] using ih v hr
      | false => simpa [hc] using ih best hkeep

/-! ### the operator bodies -/

theorem acc_strictReasons_minmax (k : String) (hk : k = "$min" ∨ k = "$max")
    (vs : List (Option Val)) : strictReasons k vs = pairwiseReasons (presentOf vs) := by
  rcases hk with rfl | rfl <;>
    simp [strictReasons, arithOps]

/-- as expression operators `$sum`, `$min`, `$max` are the grouping operators themselves; `$avg`
    has no answer when `float()` would round its integer sum (`groupingInExpr`) -/
theorem inExpr_not_avg (k : String) (h : ¬ k = "$avg") (xs : List Val) :
    groupingInExpr k xs = groupingList k xs := by
  simp [groupingInExpr, h]

/-- `$sum`: the grouping operator on the operand values (a missing one read as null) is what the
    rules define — for every list of values, no hypothesis -/
theorem sum_eq (vs : List (Option Val)) : groupingInExpr "$sum" (nulled vs) = accS "$sum" vs := by
  rw [inExpr_not_avg "$sum" (by decide)]
  simp [accS, groupingList, numsOfNB_nulled, sumAll_eq]

/-- `$avg` likewise -/
theorem avg_eq (vs : List (Option Val)) : groupingInExpr "$avg" (nulled vs) = accS "$avg" vs := by
  simp only [groupingInExpr, groupingList, accS, numsOfNB_nulled, sumAll_eq,
    show ¬ ("$avg" = "$sum") by decide, if_false, if_true, decide_true, Bool.true_and]
  cases hns : numbersOf vs with
  | nil =>
    have h0 : (PyNum.i 0).roundedByFloat = false := by decide
    simp [sumNums, h0]
  | cons n r =>
    have hlen : (PyNum.f ((r.length : Int) + 1) 0).isZero = false := by
      simp [PyNum.isZero]; omega
    cases hs : sumNums (n :: r) (.i 0) with
    | error e => simp [bind, Except.bind]
    | ok t =>
      cases hr : t.roundedByFloat with
      | true => simp [bind, Except.bind, pyTrueDiv, hr, PyNum.isFloat, hlen]
      | false =>
        have hf : (PyNum.f ((r.length : Int) + 1) 0).roundedByFloat = false := rfl
        simp [bind, Except.bind, pyTrueDiv, hr, hf]

theorem sumavg_eq (k : String) (hk : k = "$sum" ∨ k = "$avg") (vs : List (Option Val)) :
    groupingInExpr k (nulled vs) = accS k vs := by
  rcases hk with rfl | rfl
  · exact sum_eq vs
  · exact avg_eq vs

/-- `$min` / `$max`: likewise wherever no reason applies to a comparison between two of the
    values that are neither null nor missing -/
theorem minmax_eq (k : String) (hk : k = "$min" ∨ k = "$max") (vs : List (Option Val))
    (hr : pairwiseReasons (presentOf vs) = []) : groupingInExpr k (nulled vs) = accS k vs := by
  have hns : ¬ k = "$sum" := by rcases hk with rfl | rfl <;> decide
  have hna : ¬ k = "$avg" := by rcases hk with rfl | rfl <;> decide
  have hdec : (decide (k = "$min") || decide (k = "$max")) = true := by
    rcases hk with rfl | rfl <;> decide
  rw [inExpr_not_avg k hna]
  simp only [accS, groupingList, hns, hna, if_false, present_nulled, hdec, if_true]
  cases hp : presentOf vs with
  | nil => rfl
  | cons y r =>
    rw [hp] at hr
    exact extremum_pure (decide (k = "$max")) r y (pairwise_of_reasons _ hr)

theorem acc_eq (k : String) (hk : k = "$sum" ∨ k = "$avg" ∨ k = "$min" ∨ k = "$max")
    (vs : List (Option Val)) (hr : strictReasons k vs = []) :
    groupingInExpr k (nulled vs) = accS k vs := by
  rcases hk with h | h | h | h
  · exact sumavg_eq k (Or.inl h) vs
  · exact sumavg_eq k (Or.inr h) vs
  · rw [acc_strictReasons_minmax k (Or.inl h)] at hr; exact minmax_eq k (Or.inl h) vs hr
  · rw [acc_strictReasons_minmax k (Or.inr h)] at hr; exact minmax_eq k (Or.inr h) vs hr

theorem acc_pure (k : String) (hk : k = "$sum" ∨ k = "$avg" ∨ k = "$min" ∨ k = "$max")
    (vs : List (Option Val)) (hr : strictReasons k vs = []) (w : Val) (hs : accS k vs = .ok w) :
    groupingInExpr k (nulled vs) = .ok w := by
  rw [acc_eq k hk vs hr, hs]

/-! ### `{$op: [operands]}` -/

theorem acc_mode_arr (k : String) (hk : k = "$sum" ∨ k = "$avg" ∨ k = "$min" ∨ k = "$max")
    (xs : List Val) : mode k (.arr xs) = .shaped := by
  rcases hk with rfl | rfl | rfl | rfl <;>
    simp [mode, dateOps, datePartOps, wholeOps, unaryArithOps, groupingOps]

/-- `{$op: [e₁, …, eₙ]}`: every operand is evaluated (a missing one read as null), then the
    operator ranges over the values; an error of the rules' arithmetic (a sum that is not an exact
    double) is the same error -/
theorem acc_list_eval (c : Ctx) (hign : c.ign = true) (k : String)
    (hk : k = "$sum" ∨ k = "$avg" ∨ k = "$min" ∨ k = "$max")
    (xs : List Val) (vs : List (Option Val)) (h1 : xs.map (eval c) = vs.map .ok)
    (hr : strictReasons k vs = []) :
    eval c (.doc [(k, .arr xs)]) = (accS k vs).map some := by
  have hm := acc_mode_arr k hk xs
  have har : arityErr k xs.length = none := by
    rcases hk with rfl | rfl | rfl | rfl <;> simp [arityErr, binaryArithOps, comparisonOps]
  have hl : listOps.contains k = true := by rcases hk with rfl | rfl | rfl | rfl <;> decide
  have hpm : nullOnMissing true k = true := by rcases hk with rfl | rfl | rfl | rfl <;> decide
  have hcls : classify k = .project := by rcases hk with rfl | rfl | rfl | rfl <;> decide
  have hp := acc_eq k hk vs hr
  rw [eval_list c k xs .project hcls (by simp) (by simp) (by simp) hm har hl]
  rw [hign, hpm, evalList_ok c true xs vs h1, allSome_manyTrue]
  rcases hk with rfl | rfl | rfl | rfl <;>
    simp [Except.bind, applyList, binaryArithOps, comparisonOps, groupingOps, hp]

theorem applyStrict_acc (k : String) (hk : k = "$sum" ∨ k = "$avg" ∨ k = "$min" ∨ k = "$max")
    (vs : List (Option Val)) : applyStrict k vs = (accS k vs).map some := by
  rcases hk with rfl | rfl | rfl | rfl <;> simp [applyStrict, accOps, datePartOps]

theorem acc_case (c : Ctx) (hign : c.ign = true) (k : String)
    (hk : k = "$sum" ∨ k = "$avg" ∨ k = "$min" ∨ k = "$max")
    (xs : List Val) (vs : List (Option Val)) (h1 : xs.map (eval c) = vs.map .ok)
    (hr : strictReasons k vs = []) (r : Option Val) (hs : applyStrict k vs = .ok r) :
    eval c (.doc [(k, .arr xs)]) = .ok r := by
  rw [acc_list_eval c hign k hk xs vs h1 hr, ← applyStrict_acc k hk vs, hs]

/-! ### `{$op: "$path"}`: one operand that is not written as a list -/

theorem acc_mode_bare (k : String) (hk : k = "$sum" ∨ k = "$avg" ∨ k = "$min" ∨ k = "$max")
    (v : Val) (ha : v.isArr = false) : mode k v = .whole := by
  rcases hk with rfl | rfl | rfl | rfl <;> cases v <;> simp [Val.isArr] at ha <;>
    simp [mode, dateOps, datePartOps, wholeOps, unaryArithOps, groupingOps, hasTzKeys]

theorem acc_eval_bare (c : Ctx) (k : String)
    (hk : k = "$sum" ∨ k = "$avg" ∨ k = "$min" ∨ k = "$max") (v : Val) (ha : v.isArr = false) :
    eval c (.doc [(k, v)]) = (eval c v).bind (applyWhole c.ign k) := by
  have hcls : classify k = .project := by rcases hk with rfl | rfl | rfl | rfl <;> decide
  exact eval_whole c k v .project hcls (by simp) (by simp) (by simp) (acc_mode_bare k hk v ha) ha
    (by rcases hk with rfl | rfl | rfl | rfl <;> decide)

/-- an operand whose value is an array: the operator ranges over its elements -/
theorem acc_bare_eval (c : Ctx) (hign : c.ign = true) (k : String)
    (hk : k = "$sum" ∨ k = "$avg" ∨ k = "$min" ∨ k = "$max") (v : Val) (ha : v.isArr = false)
    (ys : List Val) (h1 : eval c v = .ok (some (.arr ys)))
    (hr : strictReasons k (ys.map some) = []) :
    eval c (.doc [(k, v)]) = (accS k (ys.map some)).map some := by
  have hp := acc_eq k hk (ys.map some) hr
  rw [nulled_some] at hp
  rw [acc_eval_bare c k hk v ha, h1, hign]
  rcases hk with rfl | rfl | rfl | rfl <;>
    simp [Except.bind, applyWhole, unaryArithOps, dateOps, datePartOps, groupingOps,
      groupingOnValue, hp]

theorem strictReasons_single (k : String) (hk : k = "$sum" ∨ k = "$avg" ∨ k = "$min" ∨ k = "$max")
    (x : Option Val) : strictReasons k [x] = [] := by
  rcases hk with rfl | rfl | hk
  · simp [strictReasons, arithOps]
  · simp [strictReasons, arithOps]
  · rw [acc_strictReasons_minmax k hk]
    have h0 : presentOf ([] : List (Option Val)) = [] := rfl
    cases x with
    | none => rw [presentOf_none, h0]; simp [pairwiseReasons]
    | some w => cases hw : isNull w with
      | true =>
        have : w = .null := by cases w <;> simp [isNull] at hw; rfl
        subst this
        rw [presentOf_null, h0]; simp [pairwiseReasons]
      | false => rw [presentOf_some w [] hw, h0]; simp [pairwiseReasons]

theorem applyWhole_acc (ign : Bool) (k : String)
    (hk : k = "$sum" ∨ k = "$avg" ∨ k = "$min" ∨ k = "$max") (w : Val) :
    applyWhole ign k (some w) = (groupingOnValue k w).map some := by
  rcases hk with rfl | rfl | rfl | rfl <;>
    simp [applyWhole, unaryArithOps, dateOps, datePartOps, groupingOps]

theorem groupingOnValue_val (k : String) (hk : (k = "$first" || k = "$last") = false) (x : Val)
    (hx : x.isArr = false) : groupingOnValue k x = groupingInExpr k [x] := by
  cases x <;> simp [Val.isArr] at hx <;> simp [groupingOnValue, hk]

/-- an operand whose value is not an array (it used to be iterated over, a TypeError for numbers:
    part of finding `scalararg`): it is the one value the operator ranges over -/
theorem acc_bare_eval_val (c : Ctx) (k : String)
    (hk : k = "$sum" ∨ k = "$avg" ∨ k = "$min" ∨ k = "$max") (v : Val) (ha : v.isArr = false)
    (x : Val) (hx : x.isArr = false) (h1 : eval c v = .ok (some x)) :
    eval c (.doc [(k, v)]) = (accS k [some x]).map some := by
  have hp := acc_eq k hk [some x] (strictReasons_single k hk (some x))
  have hn : nulled [some x] = [x] := rfl
  rw [hn] at hp
  have hfl : (k = "$first" || k = "$last") = false := by
    rcases hk with rfl | rfl | rfl | rfl <;> decide
  rw [acc_eval_bare c k hk v ha, h1]
  simp only [Except.bind]
  rw [applyWhole_acc c.ign k hk x, groupingOnValue_val k hfl x hx, hp]

theorem acc_bare_case (c : Ctx) (hign : c.ign = true) (k : String)
    (hk : k = "$sum" ∨ k = "$avg" ∨ k = "$min" ∨ k = "$max") (v : Val) (ha : v.isArr = false)
    (ys : List Val) (h1 : eval c v = .ok (some (.arr ys)))
    (hr : strictReasons k (ys.map some) = []) (w : Val) (hs : accS k (ys.map some) = .ok w) :
    eval c (.doc [(k, v)]) = .ok (some w) := by
  rw [acc_bare_eval c hign k hk v ha ys h1 hr, hs]; rfl

theorem accS_none (k : String) (hk : k = "$sum" ∨ k = "$avg" ∨ k = "$min" ∨ k = "$max") :
    accS k [none] = accS k [] := by
  rcases hk with rfl | rfl | rfl | rfl <;> rfl

/-- a missing bare operand: there is nothing to accumulate, `$sum` is 0 and the others are null
    (it used to make the whole expression missing: finding `accbaremissing`, repaired by 50b60be) -/
theorem acc_bare_missing (c : Ctx) (k : String)
    (hk : k = "$sum" ∨ k = "$avg" ∨ k = "$min" ∨ k = "$max") (v : Val) (ha : v.isArr = false)
    (h1 : eval c v = .ok none) : eval c (.doc [(k, v)]) = (accBareS k none).map some := by
  have hp := acc_eq k hk [] (by
    rcases hk with rfl | rfl | rfl | rfl <;> simp [strictReasons, arithOps, presentOf, pairwiseReasons])
  have hn : nulled ([] : List (Option Val)) = [] := rfl
  rw [hn] at hp
  rw [acc_eval_bare c k hk v ha, h1]
  have : accBareS k none = accS k [] := by
    show accS k [none] = accS k []
    exact accS_none k hk
  rw [this, ← hp]
  rcases hk with rfl | rfl | rfl | rfl <;>
    simp [Except.bind, applyWhole, unaryArithOps, dateOps, datePartOps, groupingOps]

/-! ### what the rules' `$sum` / `$avg` / `$min` / `$max` are -/

theorem numbersOf_skip (v : Option Val) (vs : List (Option Val)) (h : v.bind number = none) :
    numbersOf (v :: vs) = numbersOf vs := by
  simp [numbersOf, h]

/-- an operand value that is not a number — null, missing, a boolean, a string, a date, an array,
    a document — does not change `$sum` nor `$avg` -/
theorem sumavg_ignores (k : String) (hk : k = "$sum" ∨ k = "$avg") (v : Option Val)
    (vs : List (Option Val)) (h : v.bind number = none) : accS k (v :: vs) = accS k vs := by
  rcases hk with rfl | rfl <;> simp [accS, numbersOf_skip v vs h]

theorem sumAll_ints (is : List Int) (a : Int) :
    sumAll (is.map PyNum.i) (.i a) = .ok (.i (is.foldl (· + ·) a)) := by
  induction is generalizing a with
  | nil => rfl
  | cons i r ih =>
    simp only [List.map_cons, sumAll, PyNum.add, PyNum.check, bind, Except.bind, List.foldl_cons]
    exact ih (a + i)

theorem numbersOf_ints (is : List Int) :
    numbersOf (is.map (fun i => some (Val.int i))) = is.map PyNum.i := by
  induction is with
  | nil => rfl
  | cons i r ih => simp [numbersOf, number, ih]

/-- `$sum` of integers is their integer sum -/
theorem sum_ints (is : List Int) :
    accS "$sum" (is.map (fun i => some (Val.int i))) = .ok (.int (is.foldl (· + ·) 0)) := by
  simp [accS, numbersOf_ints, sumAll_ints, PyNum.toVal, bind, Except.bind]

/-- no number among the values: `$sum` is 0, `$avg` is null -/
theorem sumavg_none (vs : List (Option Val)) (h : numbersOf vs = []) :
    accS "$sum" vs = .ok (.int 0) ∧ accS "$avg" vs = .ok .null := by
  constructor <;> simp [accS, h, sumAll, PyNum.toVal, bind, Except.bind]

/-- no value that is neither null nor missing: `$min` and `$max` are null -/
theorem minmax_none (k : String) (hk : k = "$min" ∨ k = "$max") (vs : List (Option Val))
    (h : presentOf vs = []) : accS k vs = .ok .null := by
  rcases hk with rfl | rfl <;> simp [accS, h]

/-- the extremum is one of the values -/
theorem extremumS_mem (isMax : Bool) (r : List Val) (best : Val) :
    extremumS isMax r best ∈ best :: r := by
  induction r generalizing best with
  | nil => simp [extremumS]
  | cons v r ih =>
    simp only [extremumS]
    generalize (if isMax = true then ord best v == .lt else ord v best == .lt) = cnd
    cases cnd
    · simp only [Bool.false_eq_true, if_false]
      have := ih best
      simp only [List.mem_cons] at this ⊢
      rcases this with h | h
      · exact Or.inl h
      · exact Or.inr (Or.inr h)
    · simp only [if_true]
      have := ih v
      simp only [List.mem_cons] at this ⊢
      rcases this with h | h
      · exact Or.inr (Or.inl h)
      · exact Or.inr (Or.inr h)

end MongoModel.Proofs.C04
