/-
  Proofs.C01Cond — one condition `path: c` of D: the matcher's `applyKey` against the oracle's
  `condHolds` on the reached values.
-/
import Proofs.C01Leaf

set_option linter.unusedSimpArgs false

namespace MongoModel.Proofs.C01Lemmas
open MongoModel MongoModel.Spec

theorem bind_and_true (r : R Bool) :
    (do let here ← r; let more ← (Except.ok true : R Bool); pure (here && more)) = r := by
  rcases r with _ | b
  · rfl
  · cases b <;> rfl

theorem opsHold_single (op : String) (sv : Val) (cs : List (Option Val)) (hop : op ∈ leafOps) :
    opsHold [(op, sv)] cs = leafHolds op sv cs := by
  have h1 : op ≠ "$all" := by intro e; subst e; simp [leafOps] at hop
  have h2 : op ≠ "$elemMatch" := by intro e; subst e; simp [leafOps] at hop
  have h3 : op ≠ "$not" := by intro e; subst e; simp [leafOps] at hop
  cases sv <;> simp only [opsHold, h1, h2, h3, decide_false, Bool.or_false, Bool.false_eq_true,
    ↓reduceIte] <;> exact bind_and_true _

theorem leafOps_dollar {op : String} (hop : op ∈ leafOps) : op.startsWith "$" = true := by
  simp only [leafOps, List.mem_cons, List.not_mem_nil, or_false] at hop
  rcases hop with h | h | h | h | h | h | h | h | h <;> subst h <;> decide +kernel

theorem leafOps_opmap {op : String} (hop : op ∈ leafOps) : operatorMapKeys.contains op = true := by
  simp only [leafOps, List.mem_cons, List.not_mem_nil, or_false] at hop
  rcases hop with h | h | h | h | h | h | h | h | h <;> subst h <;> decide

theorem ne_of_not_dollar {k lit : String} (h : k.startsWith "$" = false)
    (hl : lit.startsWith "$" = true) : k ≠ lit := by
  intro e; subst e; rw [h] at hl; cases hl

/-- a single positive/negative leaf operator -/
theorem cond_single (nb : Bool) (op : String) (sv : Val) (key : String) (d : Val)
    (cs : List (Option Val)) (hck : candsKey key d = .ok cs) (hr : opReasons op sv cs = [])
    (hs : Clean nb sv) (hcs : CandsAll (Clean nb) cs) :
    op ∈ leafOps ∧ ∃ b, applyKey (.doc [(op, sv)]) key d = .ok b ∧ opsHold [(op, sv)] cs = .ok b := by
  obtain ⟨hop, b, h1, h2⟩ := spec_single nb op sv cs hr hs hcs
  refine ⟨hop, b, ?_, ?_⟩
  · rw [applyKey_single op sv key d hop, hck]; exact h1
  · rw [opsHold_single op sv cs hop]; exact h2


/-- a one-field document operand without `$` key: implicit equality -/
theorem applyKey_plain_doc (k : String) (v : Val) (key : String) (d : Val)
    (cs : List (Option Val)) (hk : k.startsWith "$" = false) (hck : candsKey key d = .ok cs) :
    applyKey (.doc [(k, v)]) key d = .ok (cs.any (plainMatch (.doc [(k, v)]))) := by
  have n1 : k ≠ "$ne" := ne_of_not_dollar hk (by decide +kernel)
  have n2 : k ≠ "$nin" := ne_of_not_dollar hk (by decide +kernel)
  have n3 : k ≠ "$all" := ne_of_not_dollar hk (by decide +kernel)
  have n4 : k ≠ "$exists" := ne_of_not_dollar hk (by decide +kernel)
  have hpe : pyEq (Val.doc [(k, v)]) (Val.doc [("$exists", Val.bool false)]) = false := by
    simp [pyEq, pyEqFields, dget, Ne.symm n4]
  obtain ⟨h', e⟩ := candLoop_pos (plainMatch (.doc [(k, v)])) cs false false
  rw [applyKey.eq_1]
  simp only [hck, bind, Except.bind, dkeys, List.map_cons, List.map_nil, hpe, isOpsFilter,
    List.all_cons, List.all_nil, hk, pure, Except.pure]
  simp only [List.contains_cons, List.contains_nil, Bool.or_false, beq_iff_eq, n1, n2, n3,
    Ne.symm n1, Ne.symm n2, Ne.symm n3, decide_false, Bool.false_and, Bool.and_false,
    Bool.false_eq_true, ↓reduceIte, Bool.not_true, Bool.or_self, e, beq_eq_false_iff_ne.mpr (Ne.symm n1),
    beq_eq_false_iff_ne.mpr (Ne.symm n2), beq_eq_false_iff_ne.mpr (Ne.symm n3)]
  have hany : ([k].any fun k => k != "$ne" && k != "$nin") = true := by simp [n1, n2]
  rw [hany]
  cases cs <;> simp


theorem applyKey_plain_nondoc (c : Val) (key : String) (d : Val) (cs : List (Option Val))
    (hc : ∀ fs, c = .doc fs → False) (hck : candsKey key d = .ok cs) :
    applyKey c key d = .ok (cs.any (plainMatch c)) := by
  obtain ⟨h', e⟩ := candLoop_pos (plainMatch c) cs false false
  rw [applyKey.eq_2 _ _ _ hc]
  simp only [hck, bind, Except.bind, pure, Except.pure, e]
  cases cs <;> simp

theorem plain_any_eq (nb : Bool) (c : Val) (cs : List (Option Val)) (hc : Clean nb c)
    (hsd : smallDocs c = true) (hcs : CandsAll (Clean nb) cs) :
    cs.any (plainMatch c) = (eqLeaf c).holds cs :=
  any_congr' (fun dv hm => plainMatch_eq nb c dv hc hsd (hcs dv hm))

/-- `$not` around one leaf operator -/
theorem cond_not (nb : Bool) (op sv) (key : String) (d : Val)
    (cs : List (Option Val)) (hck : candsKey key d = .ok cs) (hne : cs ≠ [])
    (hr : opReasons op sv cs = [])
    (hs : Clean nb sv) (hcs : CandsAll (Clean nb) cs) :
    ∃ b, applyKey (.doc [("$not", .doc [(op, sv)])]) key d = .ok b ∧
      opsHold [("$not", .doc [(op, sv)])] cs = .ok b := by
  obtain ⟨hop, b, h1, h2⟩ := cond_single nb op sv key d cs hck hr hs hcs
  refine ⟨!b, ?_, ?_⟩
  · rw [not_eq_neg key [(op, sv)] d cs hck hne (by
      have := leafOps_opmap hop
      simp only [List.all_cons, List.all_nil, this, Bool.true_or, Bool.and_self]), h1]; rfl
  · simp only [opsHold, isOps, List.isEmpty_cons, Bool.not_false, List.all_cons, List.all_nil,
      leafOps_dollar hop, Bool.and_self, ↓reduceIte, h2]
    rw [bind_and_true]; rfl


theorem smallDocs_of_operandReasons {c : Val} (h : operandReasons c = []) : smallDocs c = true := by
  simp only [operandReasons] at h
  split at h
  · assumption
  · cases h

theorem cond_nondoc (nb : Bool) (c : Val) (key : String) (d : Val) (cs : List (Option Val))
    (hnd : ∀ fs, c = .doc fs → False)
    (hck : candsKey key d = .ok cs) (hr : operandReasons c = []) (hc : Clean nb c)
    (hcs : CandsAll (Clean nb) cs) :
    ∃ b, applyKey c key d = .ok b ∧ condHolds c cs = .ok b := by
  refine ⟨(eqLeaf c).holds cs, ?_, ?_⟩
  · rw [applyKey_plain_nondoc c key d cs hnd hck,
      plain_any_eq nb c cs hc (smallDocs_of_operandReasons hr) hcs]
  · cases c <;> first | rfl | exact absurd rfl (fun e => hnd _ e)

/-- every condition of D: the matcher and the oracle give the same answer, without raising -/
theorem cond_spec (nb : Bool) (c : Val) (key : String) (d : Val) (cs : List (Option Val))
    (hck : candsKey key d = .ok cs) (hr : condReasons c cs = []) (hc : Clean nb c)
    (hcs : CandsAll (Clean nb) cs) :
    ∃ b, applyKey c key d = .ok b ∧ condHolds c cs = .ok b := by
  cases c with
  | doc fs =>
    match fs, hr, hc with
    | [], hr, _ => simp [condReasons, isOps, hasDollarKey] at hr
    | _ :: _ :: _, hr, _ =>
      simp only [condReasons, operandReasons, smallDocs] at hr
      split at hr
      · cases hr
      · split at hr
        · cases hr
        · simp at hr
    | [(op, sv)], hr, hc =>
      have hsv : Clean nb sv := (hered_clean nb).doc _ op sv hc (by simp)
      by_cases hops : isOps [(op, sv)] = true
      · simp only [condReasons, hops, ↓reduceIte] at hr
        have hcond : condHolds (.doc [(op, sv)]) cs = opsHold [(op, sv)] cs := by
          simp only [condHolds, hops, ↓reduceIte]
        rw [hcond]
        by_cases hn : op = "$not"
        · subst hn
          simp only [↓reduceIte] at hr
          cases sv with
          | doc gs =>
            match gs, hr, hsv with
            | [(op', sv')], hr, hsv =>
              have hsv' : Clean nb sv' := (hered_clean nb).doc _ op' sv' hsv (by simp)
              by_cases hd : op'.startsWith "$" = true
              · simp only [hd, ↓reduceIte, List.append_eq_nil_iff] at hr
                obtain ⟨hr1, hr2⟩ := hr
                have hne : cs ≠ [] := by
                  intro e; subst e; simp at hr2
                by_cases hn' : op' = "$not"
                · simp [hn'] at hr1
                · simp only [hn', ↓reduceIte] at hr1
                  exact cond_not nb op' sv' key d cs hck hne hr1 hsv' hcs
              · simp [hd] at hr
            | [], hr, _ => simp at hr
            | _ :: _ :: _, hr, _ => simp at hr
          | _ => simp at hr
        · simp only [hn, ↓reduceIte] at hr
          exact (cond_single nb op sv key d cs hck hr hsv hcs).2
      · have hk : op.startsWith "$" = false := by
          simpa [isOps] using hops
        have hdk : hasDollarKey [(op, sv)] = false := by simp [hasDollarKey, hk]
        simp only [condReasons, hops, hdk, Bool.false_eq_true, ↓reduceIte, List.isEmpty_cons] at hr
        refine ⟨(eqLeaf (.doc [(op, sv)])).holds cs, ?_, ?_⟩
        · rw [applyKey_plain_doc op sv key d cs hk hck,
            plain_any_eq nb _ cs hc (smallDocs_of_operandReasons hr) hcs]
        · simp only [condHolds, hops, hdk, Bool.false_eq_true, ↓reduceIte]
  | null => exact cond_nondoc nb _ key d cs (by intro fs e; cases e) hck (by simpa [condReasons] using hr) hc hcs
  | bool b => exact cond_nondoc nb _ key d cs (by intro fs e; cases e) hck (by simpa [condReasons] using hr) hc hcs
  | int i => exact cond_nondoc nb _ key d cs (by intro fs e; cases e) hck (by simpa [condReasons] using hr) hc hcs
  | dbl m e => exact cond_nondoc nb _ key d cs (by intro fs e; cases e) hck (by simpa [condReasons] using hr) hc hcs
  | str s => exact cond_nondoc nb _ key d cs (by intro fs e; cases e) hck (by simpa [condReasons] using hr) hc hcs
  | date u o => exact cond_nondoc nb _ key d cs (by intro fs e; cases e) hck (by simpa [condReasons] using hr) hc hcs
  | oid n => exact cond_nondoc nb _ key d cs (by intro fs e; cases e) hck (by simpa [condReasons] using hr) hc hcs
  | arr xs => exact cond_nondoc nb _ key d cs (by intro fs e; cases e) hck (by simpa [condReasons] using hr) hc hcs

end MongoModel.Proofs.C01Lemmas
